(* C11 mt_flush_in_order, part 2: the flush-order invariant of the zstdmt model, pushed through every step of every thread. *)
From Coq Require Import List NArith ZArith Bool Arith Lia.
Import ListNotations.
From ZV.Conc Require Import Sched SchedLemmas MtModel MtProofs MtRing MtRingC MtStep MtFlush.
Local Open Scope N_scope.

(* ------------------------------------------------------------------ *)
(* the invariant                                                        *)

Definition gout (s : state) : list ent := g_out (gh s).
Definition gfin (s : state) : list fent := g_fin (gh s).

(* bytes of the job at doneJobID already handed to the caller *)
Definition cur_fl (cfg : config) (s : state) : N :=
  if done (mt s) <? next (mt s) then j_flushed (getj s (slot cfg (done (mt s)))) else 0.

Definition FA (s : state) : Prop := FAp (gout s) (gfin s) (fr (mt s)).

Definition FL0 (cfg : config) (s : state) : Prop :=
  Link (gout s) (gfin s) (fr (mt s)) (done (mt s)) (cur_fl cfg s) /\
  (forall i, done (mt s) < i -> i < next (mt s) -> j_flushed (getj s (slot cfg i)) = 0).

(* inside the caller's unsynchronised code (no reference to its pc) *)
Record FMid (cfg : config) (s : state) : Prop := mkFM {
  fm_fa : FA s;
  fm_l : alldone (mt s) = false -> FL0 cfg s;
  fm_r : alldone (mt s) = false -> ready (mt s) = true -> j_flushed (getj s (slot cfg (next (mt s)))) = 0 }.

Record FInv (cfg : config) (s : state) : Prop := mkFI {
  fi_fa : FA s;
  fi_l : alldone (mt s) = false -> relphase (awake (c_pc (cl s))) = false -> FL0 cfg s;
  fi_r : alldone (mt s) = false -> relphase (awake (c_pc (cl s))) = false -> prepared s ->
         j_flushed (getj s (slot cfg (next (mt s)))) = 0;
  fi_b : awake (c_pc (cl s)) = CRelBuf ->
         j_flushed (getj s (slot cfg (done (mt s)))) = j_csize (getj s (slot cfg (done (mt s)))) }.

(* ------------------------------------------------------------------ *)
(* what the invariant reads                                             *)

Lemma fa_ext s s' : gout s' = gout s -> gfin s' = gfin s -> fr (mt s') = fr (mt s) -> FA s -> FA s'.
Proof. unfold FA. intros -> -> ->. auto. Qed.

Lemma fl0_ext cfg s s' :
  gout s' = gout s -> gfin s' = gfin s -> fr (mt s') = fr (mt s) -> done (mt s') = done (mt s) -> next (mt s') = next (mt s) ->
  (forall i, done (mt s) <= i -> i < next (mt s) -> j_flushed (getj s' (slot cfg i)) = j_flushed (getj s (slot cfg i))) ->
  FL0 cfg s -> FL0 cfg s'.
Proof.
  intros Hg Hf Hr Hd Hn Hj (L & Lnew). unfold FL0.
  assert (E : cur_fl cfg s' = cur_fl cfg s).
  { unfold cur_fl. rewrite Hd, Hn. destruct (done (mt s) <? next (mt s)) eqn:X; auto. apply N.ltb_lt in X. apply Hj; lia. }
  rewrite Hg, Hf, Hr, Hd, Hn, E. split; auto. intros i A B. rewrite Hj by lia. auto.
Qed.

Lemma fmid_ext2 cfg s s' :
  gout s' = gout s -> gfin s' = gfin s -> fr (mt s') = fr (mt s) -> done (mt s') = done (mt s) -> next (mt s') = next (mt s) ->
  ready (mt s') = ready (mt s) -> (alldone (mt s') = false -> alldone (mt s) = false) ->
  (forall i, done (mt s) <= i -> i < next (mt s) -> j_flushed (getj s' (slot cfg i)) = j_flushed (getj s (slot cfg i))) ->
  (ready (mt s) = true ->
   j_flushed (getj s' (slot cfg (next (mt s)))) = j_flushed (getj s (slot cfg (next (mt s))))) ->
  FMid cfg s -> FMid cfg s'.
Proof.
  intros Hg Hf Hr Hd Hn Hy Ha Hj Hjn [A L R]. constructor.
  - eapply fa_ext; eauto.
  - intros X. eapply fl0_ext; eauto.
  - intros X Y. rewrite Hn. rewrite Hy in Y. rewrite Hjn by auto. auto.
Qed.

Lemma fmid_ext cfg s s' :
  gout s' = gout s -> gfin s' = gfin s -> fr (mt s') = fr (mt s) -> done (mt s') = done (mt s) -> next (mt s') = next (mt s) ->
  ready (mt s') = ready (mt s) -> (alldone (mt s') = false -> alldone (mt s) = false) ->
  (forall k, j_flushed (getj s' k) = j_flushed (getj s k)) ->
  FMid cfg s -> FMid cfg s'.
Proof. intros Hg Hf Hr Hd Hn Hy Ha Hj. apply fmid_ext2; auto. Qed.

Ltac fm_same M := eapply fmid_ext; [..|exact M]; first [reflexivity | intros; reflexivity | intros; assumption].
Ltac fa_same A := eapply fa_ext; [..|exact A]; reflexivity.

Lemma fl_set_job s k j' k' :
  j_flushed j' = j_flushed (getj s k) -> j_flushed (getj (set_job k j' s) k') = j_flushed (getj s k').
Proof.
  intros E. destruct (Nat.eq_dec k k') as [<-|Hne]; [|rewrite getj_set_job_neq by auto; reflexivity].
  destruct (Nat.lt_ge_cases k (length (jobs s))) as [H|H]; [rewrite getj_set_job_eq by auto; exact E|].
  unfold getj, set_job, set_jobs. cbn [jobs]. rewrite !nth_overflow; auto. rewrite upd_length. exact H.
Qed.

Lemma fl_set_job0 s k j' : j_flushed j' = 0 -> j_flushed (getj (set_job k j' s) k) = 0.
Proof.
  intros E. destruct (Nat.lt_ge_cases k (length (jobs s))) as [H|H]; [rewrite getj_set_job_eq by auto; exact E|].
  unfold getj, set_job, set_jobs. cbn [jobs]. rewrite nth_overflow; auto. rewrite upd_length. exact H.
Qed.

Lemma fmid_of_fa cfg s : FA s -> alldone (mt s) = true -> FMid cfg s.
Proof. intros A E. constructor; auto; intros; congruence. Qed.

(* ------------------------------------------------------------------ *)
(* reaching a pc                                                        *)

Definition okpc (p : cpc) : bool := match awake p with CTryAdd | CGetBuf | CRelBuf => false | _ => true end.

Lemma fi_of_mid cfg s : FMid cfg s -> okpc (c_pc (cl s)) = true -> FInv cfg s.
Proof.
  intros [A L R] H. unfold okpc in H. constructor; auto.
  - intros Ha _ [X|[X|X]]; [auto|rewrite X in H; discriminate..].
  - intros X. rewrite X in H. discriminate.
Qed.

Lemma fi_pc cfg s p : FMid cfg s -> okpc p = true -> FInv cfg (set_cpc p s).
Proof. intros M H. apply fi_of_mid; [fm_same M|exact H]. Qed.

Lemma fi_rel cfg s : FA s -> relphase (awake (c_pc (cl s))) = true -> FInv cfg s.
Proof.
  intros A H. constructor; [exact A|intros _ X; congruence|intros _ X; congruence|].
  intros X. rewrite X in H. discriminate.
Qed.

Lemma fi_prep cfg s p :
  FMid cfg s -> (alldone (mt s) = false -> j_flushed (getj s (slot cfg (next (mt s)))) = 0) -> p = CTryAdd \/ p = CGetBuf ->
  FInv cfg (set_cpc p s).
Proof.
  intros M H Hp. assert (M' : FMid cfg (set_cpc p s)) by fm_same M. destruct M' as [A L R].
  constructor; [exact A|intros X _; exact (L X)|intros Ha _ _; exact (H Ha)|].
  cbn. intros X. destruct Hp; subst; discriminate.
Qed.

Lemma fi_relbuf cfg s :
  FMid cfg s -> j_flushed (getj s (slot cfg (done (mt s)))) = j_csize (getj s (slot cfg (done (mt s)))) ->
  FInv cfg (set_cpc CRelBuf s).
Proof.
  intros M H. assert (M' : FMid cfg (set_cpc CRelBuf s)) by fm_same M. destruct M' as [A L R].
  constructor; [exact A|intros X _; exact (L X)| |intros _; exact H].
  intros Ha _ [X|[X|X]]; [exact (R Ha X)|discriminate..].
Qed.

Lemma fi_sleep cfg s p' : FInv cfg s -> awake p' = awake (c_pc (cl s)) -> FInv cfg (set_cpc p' s).
Proof.
  intros [A L R B] E. constructor; cbn [mt cl set_cpc set_cl cl_pc c_pc]; unfold prepared; cbn [mt cl set_cpc set_cl cl_pc c_pc]; rewrite ?E; auto.
Qed.

Lemma fmid_of_finv cfg s :
  FInv cfg s -> relphase (awake (c_pc (cl s))) = false -> awake (c_pc (cl s)) <> CTryAdd -> awake (c_pc (cl s)) <> CGetBuf -> FMid cfg s.
Proof. intros [A L R B] H _ _. constructor; auto. intros X Y. apply R; auto. left. exact Y. Qed.

Ltac fi_if := repeat match goal with |- FInv _ (if ?b then _ else _) => destruct b end.

(* ------------------------------------------------------------------ *)
(* the input side                                                       *)

Lemma prepare_job_fl cfg s n e :
  let s1 := prepare_job cfg s n e in
  gh s1 = gh s /\ fr (mt s1) = fr (mt s) /\ j_flushed (getj s1 (slot cfg (next (mt s)))) = 0.
Proof.
  unfold prepare_job. cbn zeta.
  destruct e; cbn [andb]; try destruct (next (mt s) =? 0); (split; [reflexivity|split; [reflexivity|]]);
    rewrite getj_set_mt; apply fl_set_job0; reflexivity.
Qed.

Lemma fi_create_job cfg s e2 : FMid cfg s -> FInv cfg (create_job cfg s e2).
Proof.
  intros M. unfold create_job.
  destruct (done (mt s) + mask cfg <? next (mt s)) eqn:Efull; [apply fi_pc; auto|].
  apply N.ltb_ge in Efull. pose proof (mask_Mr cfg) as HM.
  assert (Hlt : next (mt s) < done (mt s) + Mr cfg) by lia.
  destruct (ready (mt s)) eqn:Er.
  { apply fi_prep; auto. intros Ha. apply (fm_r _ _ M); auto. }
  pose proof (prepare_job_frame cfg s (ifill (mt s)) e2) as Hf. cbn zeta in Hf.
  pose proof (prepare_job_fl cfg s (ifill (mt s)) e2) as Hf2. cbn zeta in Hf2.
  set (s1 := prepare_job cfg s (ifill (mt s)) e2) in *.
  destruct Hf as (Hd & Hn & Hr & Hal & _ & _ & _ & _ & _ & _ & _ & _ & Hg).
  destruct Hf2 as (Hgh & Hfr & Hz).
  assert (M1 : FMid cfg s1).
  { eapply fmid_ext2; [..|exact M];
      [unfold gout; rewrite Hgh; reflexivity|unfold gfin; rewrite Hgh; reflexivity|exact Hfr|exact Hd|exact Hn|exact Hr
      |intros X; congruence| |intros X; congruence].
    intros i A B. rewrite Hg; auto. apply inflight_not_next; auto. split; auto. }
  destruct (_ && _).
  - set (s2 := set_job _ _ s1).
    assert (M2 : FMid cfg s2).
    { eapply fmid_ext; [..|exact M1]; try reflexivity; [intros X; exact X|]. intros k. apply fl_set_job. reflexivity. }
    apply fi_prep; auto. intros _. change (next (mt s2)) with (next (mt s1)). rewrite Hn. unfold s2. rewrite fl_set_job; [exact Hz|reflexivity].
  - apply fi_prep; auto. intros _. rewrite Hn. exact Hz.
Qed.

Lemma fi_create_phase cfg s : FMid cfg s -> FInv cfg (create_phase cfg s).
Proof.
  intros M. unfold create_phase.
  match goal with |- FInv cfg (if ?b then _ else _) => destruct b end.
  - apply fi_create_job. fm_same M.
  - apply fi_pc; [fm_same M|reflexivity].
Qed.

Lemma fi_fill_phase cfg s : FMid cfg s -> FInv cfg (fill_phase cfg s).
Proof.
  intros M. unfold fill_phase. destruct (ihas (mt s)); [|apply fi_create_phase; auto].
  destruct (sync_point cfg (mt s) (c_in (cl s))). apply fi_create_phase. fm_same M.
Qed.

Lemma fi_hand_out cfg s : FMid cfg s -> FInv cfg (hand_out cfg s).
Proof. intros M. unfold hand_out. apply fi_fill_phase. fm_same M. Qed.

Lemma fi_after_wrap cfg s : FMid cfg s -> FInv cfg (after_wrap cfg s).
Proof.
  intros M. unfold after_wrap. destruct (overlap _ _); [apply fi_fill_phase; auto|].
  destruct (ldm (mt s)); [apply fi_pc; auto|apply fi_hand_out; auto].
Qed.

Lemma fi_move_prefix cfg s : FMid cfg s -> FInv cfg (move_prefix cfg s).
Proof. intros M. unfold move_prefix. apply fi_after_wrap. fm_same M. Qed.

Lemma fi_after_inuse cfg s u : FMid cfg s -> FInv cfg (after_inuse cfg s u).
Proof.
  intros M. unfold after_inuse.
  assert (M' : FMid cfg (set_cl (cl_use u (cl s)) s)) by fm_same M.
  cbn [mt set_cl].
  destruct (rcap (mt s) - rpos (mt s) <? target (mt s)); [|apply fi_after_wrap; auto].
  destruct (overlap _ _); [apply fi_fill_phase; auto|].
  destruct (ldm (mt s)); [apply fi_pc; auto|apply fi_move_prefix; auto].
Qed.

Lemma fi_scan_inuse cfg s j : FMid cfg s -> FInv cfg (scan_inuse cfg s j).
Proof. intros M. unfold scan_inuse. destruct (j <? next (mt s)); [apply fi_pc; auto|apply fi_after_inuse; auto]. Qed.

Lemma fi_gen_body cfg s : FMid cfg s -> FInv cfg (gen_body cfg s).
Proof.
  intros M. unfold gen_body. destruct (_ && _); [|apply fi_create_phase; auto].
  destruct (negb _); [apply fi_scan_inuse|apply fi_fill_phase]; auto.
Qed.

(* ------------------------------------------------------------------ *)
(* starting the next call; the release phase                            *)

Lemma fi_stop_ops cfg s : FMid cfg s -> FInv cfg (stop_ops s).
Proof. intros M. apply fi_of_mid; [fm_same M|reflexivity]. Qed.

Lemma fi_init_params cfg s : FMid cfg s -> FInv cfg (init_params s).
Proof. intros M. unfold init_params. apply fi_pc; [fm_same M|reflexivity]. Qed.

Lemma fi_rel_scan_k cfg i kd :
  (forall s1, FA s1 -> alldone (mt s1) = true -> FInv cfg (kd s1)) ->
  forall fuel s k, FA s -> FInv cfg (rel_scan_k i kd s k fuel).
Proof.
  intros Hkd. induction fuel as [|f IH]; intros s k A; cbn [rel_scan_k].
  - apply Hkd; [fa_same A|reflexivity].
  - destruct (Nat.ltb k (length (jobs s))).
    + destruct (j_dst (getj s k)).
      * apply fi_rel; [fa_same A|reflexivity].
      * apply IH. fa_same A.
    + apply Hkd; [fa_same A|reflexivity].
Qed.

Lemma fi_start_ops cfg ops : forall s, FMid cfg s -> FInv cfg (start_ops cfg s ops).
Proof.
  induction ops as [|o r IH]; intros s M; cbn [start_ops]; [apply fi_stop_ops; auto|].
  destruct o as [fp|e i o].
  - set (s1 := set_cl _ s). assert (M1 : FMid cfg s1) by fm_same M.
    destruct (alldone (mt s)); [apply fi_init_params; auto|].
    destruct (done (mt s) <? next (mt s)).
    + apply fi_rel; [|reflexivity]. fa_same (fm_fa _ _ M).
    + apply fi_rel_scan_k; [|apply M1]. intros s2 A2 E2. apply fi_init_params. apply fmid_of_fa; auto.
  - set (s1 := set_cl _ s). assert (M1 : FMid cfg s1) by fm_same M.
    destruct (alldone (mt s) && negb (ended (mt s))); [apply fi_stop_ops; auto|].
    destruct (ended (mt s) && (0 <? i) && negb (is_continue e)); [apply fi_stop_ops; auto|].
    destruct (ended (mt s) && is_continue e).
    + assert (M2 : FMid cfg (record_res RErr s1)) by fm_same M1.
      destruct r as [|[fp|e' i' o'] r']; first [apply fi_stop_ops; exact M2|apply IH; exact M2].
    + apply fi_gen_body; auto.
Qed.

Lemma fi_finish_op cfg s r : FMid cfg s -> FInv cfg (finish_op cfg s r).
Proof. intros M. unfold finish_op. apply fi_start_ops. fm_same M. Qed.

Lemma fi_rel_scan cfg i s k f : FA s -> FInv cfg (rel_scan cfg i s k f).
Proof.
  intros A. unfold rel_scan. apply fi_rel_scan_k; auto.
  intros s1 A1 E1. destruct i; [apply fi_init_params|apply fi_finish_op]; apply fmid_of_fa; auto.
Qed.

Lemma fi_wait_all cfg i s : FA s -> FInv cfg (wait_all cfg i s).
Proof.
  intros A. unfold wait_all. destruct (_ <? _); [|apply fi_rel_scan; auto].
  apply fi_rel; [fa_same A|reflexivity].
Qed.

(* ------------------------------------------------------------------ *)
(* the return path of ZSTDMT_compressStream_generic                     *)

Lemma fi_gen_again cfg s : FMid cfg s -> FInv cfg (gen_again cfg s).
Proof.
  intros M. unfold gen_again. set (s1 := set_cl _ s). assert (M1 : FMid cfg s1) by fm_same M.
  destruct (_ && _); [apply fi_finish_op; auto|apply fi_gen_body; auto].
Qed.

Lemma fi_gen_return cfg s v : FMid cfg s -> FInv cfg (gen_return cfg s v).
Proof. intros M. unfold gen_return. fi_if; first [apply fi_finish_op; auto|apply fi_gen_again; auto]. Qed.

Lemma fi_flush_return cfg s : FMid cfg s -> Flow s -> FInv cfg (flush_return cfg s).
Proof.
  intros M (F1 & F2). unfold flush_return, flush_tail.
  destruct (done (mt s) <? next (mt s)); [apply fi_gen_return; auto|].
  destruct (ready (mt s)) eqn:Er; [apply fi_gen_return; auto|].
  destruct (0 <? ifill (mt s)); [apply fi_gen_return; auto|].
  apply fi_gen_return.
  eapply fmid_ext; [..|exact M]; [reflexivity|reflexivity|reflexivity|reflexivity|reflexivity|cbn; congruence| |intros; reflexivity].
  cbn. intros X. destruct (alldone (mt s)) eqn:Y; auto. destruct (F2 eq_refl) as (Z & _). congruence.
Qed.

(* the job at doneJobID is completely flushed *)
Lemma fi_complete_job cfg s :
  FMid cfg s -> Flow s -> alldone (mt s) = false -> done (mt s) < next (mt s) ->
  let j := getj s (slot cfg (done (mt s))) in
  j_id j = done (mt s) -> j_flushed j = j_csize j -> 0 < j_csize j ->
  FInv cfg (complete_job cfg s).
Proof.
  intros M F Ha Hlt j Hid Hfl Hcs. unfold complete_job. fold j.
  destruct M as [A L R]. destruct (L Ha) as (Lk & Lnew).
  assert (Hcf : cur_fl cfg s = j_csize j).
  { unfold cur_fl. rewrite (proj2 (N.ltb_lt _ _) Hlt). exact Hfl. }
  rewrite Hcf in Lk. rewrite Hid.
  set (j' := j_set_dst false (j_upd_flush 0 (j_ckneed j) (j_flushed j) j)).
  assert (Hj : forall k', j_flushed (getj (set_job (slot cfg (done (mt s))) j' s) k') = j_flushed (getj s k')).
  { intros k'. apply fl_set_job. reflexivity. }
  apply fi_flush_return; [|exact F].
  constructor.
  - unfold FA, gout, gfin. cbn [gh mt set_mt set_gh g_out g_fin mt_ring fr].
    apply fap_complete; auto.
  - intros _. unfold FL0, gout, gfin.
    cbn [gh mt set_mt set_gh g_out g_fin mt_ring fr done next].
    assert (E : cur_fl cfg (set_mt (mt_ring (done (mt s) + 1) (next (mt s)) (ready (mt s)) (ended (mt s)) (alldone (mt s)) (mt s))
                    (set_gh (mkG (g_out (gh s)) (g_fin (gh s) ++ [(fr (mt s), done (mt s), j_csize j)]) (g_ck (gh s)))
                       (set_job (slot cfg (done (mt s))) j' s))) = 0).
    { unfold cur_fl. cbn [mt set_mt mt_ring done next]. destruct (done (mt s) + 1 <? next (mt s)) eqn:X; auto.
      apply N.ltb_lt in X. rewrite getj_set_mt, getj_set_gh, Hj. apply Lnew; lia. }
    rewrite E. split; [apply link_complete; auto|].
    intros i X Y. rewrite getj_set_mt, getj_set_gh, Hj. apply Lnew; lia.
  - cbn [mt set_mt mt_ring ready alldone next]. intros X Y. rewrite getj_set_mt, getj_set_gh, Hj. auto.
Qed.

(* ------------------------------------------------------------------ *)
(* ZSTDMT_flushProduced                                                 *)

Lemma gout_ck (b : bool) g x : g_out (if b then mkG (g_out g) (g_fin g) x else g) = g_out g.
Proof. destruct b; reflexivity. Qed.
Lemma gfin_ck (b : bool) g x : g_fin (if b then mkG (g_out g) (g_fin g) x else g) = g_fin g.
Proof. destruct b; reflexivity. Qed.
Lemma gout_tf (b : bool) g e : g_out (if b then mkG (g_out g ++ [e]) (g_fin g) (g_ck g) else g) = if b then g_out g ++ [e] else g_out g.
Proof. destruct b; reflexivity. Qed.
Lemma gfin_tf (b : bool) g e : g_fin (if b then mkG (g_out g ++ [e]) (g_fin g) (g_ck g) else g) = g_fin g.
Proof. destruct b; reflexivity. Qed.

(* tf bytes of the job at doneJobID are copied *)
Lemma fmid_flush cfg s s' tf :
  FMid cfg s -> alldone (mt s) = false -> done (mt s) < next (mt s) -> next (mt s) <= done (mt s) + Mr cfg ->
  (ready (mt s) = true -> next (mt s) < done (mt s) + Mr cfg) ->
  let k := slot cfg (done (mt s)) in
  gout s' = (if 0 <? tf then gout s ++ [(fr (mt s), done (mt s), j_flushed (getj s k), tf)] else gout s) ->
  gfin s' = gfin s -> mt s' = mt s ->
  j_flushed (getj s' k) = j_flushed (getj s k) + tf ->
  (forall k', k' <> k -> j_flushed (getj s' k') = j_flushed (getj s k')) ->
  FMid cfg s'.
Proof.
  intros [A L R] Ha Hlt Hrng Hrd k Hg Hf Hm Hk Hoth.
  destruct (L Ha) as (Lk & Lnew).
  assert (Hcf : cur_fl cfg s = j_flushed (getj s k)).
  { unfold cur_fl. rewrite (proj2 (N.ltb_lt _ _) Hlt). reflexivity. }
  assert (Hcf' : cur_fl cfg s' = j_flushed (getj s k) + tf).
  { unfold cur_fl. rewrite Hm. rewrite (proj2 (N.ltb_lt _ _) Hlt). exact Hk. }
  assert (Hsl : forall i, done (mt s) < i -> i < next (mt s) -> slot cfg i <> k).
  { intros i X Y E. symmetry in E. revert E. apply slot_neq; lia. }
  assert (Hsn : ready (mt s) = true -> slot cfg (next (mt s)) <> k).
  { intros X E. symmetry in E. revert E. apply slot_neq; auto. }
  rewrite Hcf in Lk.
  destruct (0 <? tf) eqn:Et.
  - apply N.ltb_lt in Et. constructor.
    + unfold FA. rewrite Hg, Hf, Hm. eapply fap_append; eauto.
    + intros _. unfold FL0. rewrite Hcf', Hg, Hf, Hm. split; [apply link_append; auto|].
      intros i X Y. rewrite Hoth by auto. auto.
    + rewrite Hm. intros X Y. rewrite Hoth by auto. auto.
  - apply N.ltb_ge in Et. assert (tf = 0) by lia. subst tf. rewrite N.add_0_r in *. constructor.
    + unfold FA. rewrite Hg, Hf, Hm. exact A.
    + intros _. unfold FL0. rewrite Hcf', Hg, Hf, Hm. split; auto.
      intros i X Y. rewrite Hoth by auto. auto.
    + rewrite Hm. intros X Y. rewrite Hoth by auto. auto.
Qed.

Lemma fi_flush_body cfg s : Mid cfg s -> Flow s -> FMid cfg s -> FInv cfg (flush_body cfg s).
Proof.
  intros M F FM. unfold flush_body. cbn zeta.
  set (k := slot cfg (done (mt s))). set (j := getj s k).
  pose proof (m_kb _ _ M) as K. destruct (b_rng _ _ K) as (R1 & R2).
  assert (Hkl : (k < length (jobs s))%nat) by (rewrite (b_len _ _ K); apply slot_lt).
  assert (Hkm : (k < N.to_nat (Mr cfg))%nat) by apply slot_lt.
  destruct (j_err j) eqn:Eerr; [apply fi_wait_all; apply FM|].
  set (fin := j_consumed j =? j_size j).
  set (ck := fin && j_ckneed j).
  set (cs := if ck then j_csize j + 4 else j_csize j).
  destruct (N.eq_dec (done (mt s)) (next (mt s))) as [Edn|Edn].
  - (* no job in flight: nothing to flush *)
    assert (Hj : j_csize j = 0 /\ ck = false).
    { destruct (m_n1 _ _ M k Hkm) as [(S1 & S2 & S3 & S4 & S5)|(Ek & Er)].
      - intros i (A & B). lia.
      - fold j in S2, S3. unfold ck. rewrite S3. split; auto. apply andb_false_r.
      - assert (Ha : alldone (mt s) = false).
        { destruct (alldone (mt s)) eqn:X; auto. destruct F as (_ & F2). destruct (F2 X) as (_ & ? & _). congruence. }
        destruct (m_n2 _ _ M Er Ha) as ((_ & _ & P3 & P4 & _) & P6 & _). rewrite <- Edn in P3, P4, P6. fold k in P3, P4, P6. fold j in P3, P4, P6.
        split; auto. unfold ck, fin. destruct (j_consumed j =? j_size j) eqn:X; auto. apply N.eqb_eq in X. rewrite P6; auto. lia. }
    destruct Hj as (Hcs & Hck). unfold cs. rewrite Hck, Hcs. cbn [N.ltb N.compare].
    change (0 <? 0) with false. cbn iota.
    rewrite <- Hcs. rewrite j_upd_flush_same. unfold k, j. rewrite set_job_same by exact Hkl. fold k. fold j.
    assert (M1 : FMid cfg (set_gh (gh s) s)) by fm_same FM.
    rewrite Hcs. replace (j_flushed j <? 0) with false by (symmetry; apply N.ltb_ge; lia).
    destruct (j_consumed j <? j_size j); [apply fi_gen_return|apply fi_flush_return]; auto.
  - (* the oldest job in flight *)
    assert (Hlt : done (mt s) < next (mt s)) by lia.
    assert (Hi : inflight s (done (mt s))) by (split; lia).
    assert (Hid : j_id j = done (mt s)) by (apply (b_ids _ _ K); auto).
    assert (Ha : alldone (mt s) = false).
    { destruct (alldone (mt s)) eqn:X; auto. destruct (m_n3 _ _ M X). lia. }
    assert (Hrd : ready (mt s) = true -> next (mt s) < done (mt s) + Mr cfg).
    { intros X. destruct (m_n2 _ _ M X Ha) as ((P & _) & _). exact P. }
    set (ck' := if ck then false else j_ckneed j).
    destruct (0 <? cs) eqn:Ecs.
    + apply N.ltb_lt in Ecs.
      set (tf := N.min (cs - j_flushed j) (c_out (cl s))).
      match goal with |- FInv cfg (if _ then _ else if _ then gen_return cfg ?x _ else _) => set (s1 := x) end.
      assert (Hg1 : getj s1 k = j_upd_flush cs ck' (j_flushed j + tf) j).
      { unfold s1. rewrite getj_set_gh, getj_set_cl. apply getj_set_job_eq; auto. }
      assert (M1 : FMid cfg s1).
      { apply (fmid_flush cfg s s1 tf); auto.
        - unfold s1, gout. cbn [gh set_gh]. rewrite gout_tf, gout_ck. rewrite Hid. reflexivity.
        - unfold s1, gfin. cbn [gh set_gh]. rewrite gfin_tf, gfin_ck. reflexivity.
        - fold k. rewrite Hg1. reflexivity.
        - fold k. intros k' Hk'. unfold s1. rewrite getj_set_gh, getj_set_cl. rewrite getj_set_job_neq by auto. reflexivity. }
      assert (F1 : Flow s1) by exact F.
      destruct (fin && (j_flushed j + tf =? cs)) eqn:Efin.
      * apply andb_prop in Efin. destruct Efin as (Ef & Efl). apply N.eqb_eq in Efl.
        destruct (j_dst j).
        -- apply fi_relbuf; auto. change (done (mt s1)) with (done (mt s)). fold k. rewrite Hg1. cbn. exact Efl.
        -- apply fi_complete_job; auto; change (done (mt s1)) with (done (mt s)); fold k; rewrite ?Hg1; cbn; auto.
      * destruct (j_flushed j + tf <? cs); [apply fi_gen_return; auto|].
        destruct (j_consumed j <? j_size j); [apply fi_gen_return|apply fi_flush_return]; auto.
    + match goal with |- FInv cfg (if _ then gen_return cfg ?x _ else _) => set (s1 := x) end.
      assert (M1 : FMid cfg s1).
      { unfold s1. eapply fmid_ext; [..|exact FM]; try reflexivity.
        - unfold gout. cbn [gh set_gh]. apply gout_ck.
        - unfold gfin. cbn [gh set_gh]. apply gfin_ck.
        - intros X; exact X.
        - intros k'. rewrite getj_set_gh. apply fl_set_job. reflexivity. }
      assert (F1 : Flow s1) by exact F.
      destruct (j_flushed j <? cs); [apply fi_gen_return; auto|].
      destruct (j_consumed j <? j_size j); [apply fi_gen_return|apply fi_flush_return]; auto.
Qed.

(* ------------------------------------------------------------------ *)
(* pool threads: they touch neither the ghost logs nor dstFlushed        *)

Lemma gh_wake_job c k x : gh (wake_caller_job c k x) = gh x. Proof. apply wake_job_proj. Qed.
Lemma gh_wake_ldm x : gh (wake_caller_ldm x) = gh x. Proof. apply wake_ldm_proj. Qed.
Lemma getj_wake_job' c k x k0 : getj (wake_caller_job c k x) k0 = getj x k0.
Proof. unfold getj. destruct (wake_job_proj c k x) as (_ & E & _). rewrite E. reflexivity. Qed.
Lemma getj_wake_ldm' x k0 : getj (wake_caller_ldm x) k0 = getj x k0.
Proof. unfold getj. destruct (wake_ldm_proj x) as (_ & E & _). rewrite E. reflexivity. Qed.

Lemma worker_step_fl cfg t s s' :
  worker_step cfg t s = Some s' -> gh s' = gh s /\ forall k, j_flushed (getj s' k) = j_flushed (getj s k).
Proof.
  intros H. unfold worker_step in H. destruct (nth_error (ws s) t) as [w|]; [|discriminate].
  destruct (w_pc w); try discriminate;
    repeat match type of H with
           | (if ?b then _ else _) = _ => destruct b
           | match ?x with Some _ => _ | None => _ end = _ => destruct x
           end; inv_some H;
    repeat match goal with |- context[if ?b then _ else _] => destruct b end;
    (split; [cbn [gh set_w set_ws]; rewrite ?gh_wake_job, ?gh_wake_ldm; reflexivity|]);
    intros k0; change (getj (set_w t ?a ?x) k0) with (getj x k0); rewrite ?getj_wake_job', ?getj_wake_ldm';
    first [reflexivity | apply fl_set_job; reflexivity
          | etransitivity; [apply fl_set_job; reflexivity|reflexivity]
          | change (getj (set_sr ?a ?x) k0) with (getj x k0); reflexivity].
Qed.

Lemma worker_step_inactive cfg t s s' w :
  worker_step cfg t s = Some s' -> nth_error (ws s) t = Some w -> active (w_pc w) = false -> jobs s' = jobs s.
Proof.
  intros H Hw Ha. unfold worker_step in H. rewrite Hw in H.
  destruct (w_pc w); try discriminate;
    repeat match type of H with
           | (if ?b then _ else _) = _ => destruct b
           | match ?x with Some _ => _ | None => _ end = _ => destruct x
           end; inv_some H; reflexivity.
Qed.

Lemma finv_worker_step cfg t s s' : TInv cfg s -> FInv cfg s -> worker_step cfg t s = Some s' -> FInv cfg s'.
Proof.
  intros (K & _) [A L R B] H.
  destruct (worker_step_aux cfg t s s' H) as (Em & Ep & _).
  destruct (worker_step_fl cfg t s s' H) as (Eg & Ej).
  assert (Ego : gout s' = gout s) by (unfold gout; rewrite Eg; reflexivity).
  assert (Egf : gfin s' = gfin s) by (unfold gfin; rewrite Eg; reflexivity).
  constructor.
  - eapply fa_ext; eauto. rewrite Em. reflexivity.
  - rewrite Em, Ep. intros X Y. eapply fl0_ext; [..|exact (L X Y)]; auto; rewrite Em; reflexivity.
  - unfold prepared. rewrite Em, Ep. intros X Y Z. rewrite Ej. apply R; auto.
  - rewrite Ep, Em. intros E. rewrite Ej. rewrite (B E).
    destruct (nth_error (ws s) t) as [w|] eqn:Hw; [|unfold worker_step in H; rewrite Hw in H; discriminate].
    destruct (Nat.eq_dec (slot cfg (done (mt s))) (w_slot w)) as [Ek|Ek].
    + destruct (active (w_pc w)) eqn:Ac.
      * exfalso. destruct (k_wrk _ _ K t w Hw Ac) as (i & _ & _ & (Hd & _)).
        pose proof (k_pc _ _ K) as P. unfold PcInv in P. destruct P as (_ & _ & _ & _ & PE & _).
        destruct (PE E) as (_ & _ & _ & _ & Hd'). rewrite Ek in Hd'. congruence.
      * unfold getj. rewrite (worker_step_inactive cfg t s s' w H Hw Ac). reflexivity.
    + rewrite (worker_step_own_job cfg t s s' w H Hw) by auto. reflexivity.
Qed.

(* ------------------------------------------------------------------ *)
(* the application thread                                               *)

(* nextJobID++ : the prepared job is posted *)
Lemma fmid_post cfg s s' :
  FInv cfg s -> relphase (awake (c_pc (cl s))) = false -> prepared s ->
  gout s' = gout s -> gfin s' = gfin s -> fr (mt s') = fr (mt s) -> done (mt s') = done (mt s) -> next (mt s') = next (mt s) + 1 ->
  alldone (mt s') = alldone (mt s) -> ready (mt s') = false ->
  (forall k, j_flushed (getj s' k) = j_flushed (getj s k)) ->
  FMid cfg s'.
Proof.
  intros [A L R B] Hr Hp Hg Hf Hfr Hd Hn Ha Hy Hj. constructor.
  - eapply fa_ext; eauto.
  - rewrite Ha. intros X. destruct (L X Hr) as (Lk & Lnew). specialize (R X Hr Hp).
    assert (E : cur_fl cfg s' = cur_fl cfg s).
    { unfold cur_fl. rewrite Hd, Hn, Hj.
      destruct (done (mt s) <? next (mt s)) eqn:E1; destruct (done (mt s) <? next (mt s) + 1) eqn:E2; auto.
      - apply N.ltb_lt in E1. apply N.ltb_ge in E2. lia.
      - apply N.ltb_ge in E1. apply N.ltb_lt in E2. assert (done (mt s) = next (mt s)) by lia. congruence. }
    unfold FL0. rewrite E, Hg, Hf, Hfr, Hd, Hn. split; auto.
    intros i X1 X2. rewrite Hj. destruct (N.eq_dec i (next (mt s))) as [->|Hne]; auto. apply Lnew; lia.
  - intros _ Y. congruence.
Qed.

Lemma finv_caller_step cfg w s s' : TInv cfg s -> FInv cfg s -> caller_step cfg w s = Some s' -> FInv cfg s'.
Proof.
  intros TI FI H. pose proof TI as (K & A). pose proof (k_pc _ _ K) as P. unfold PcInv in P.
  destruct P as (PA & PB & PC & PD & PE & PF & PG). pose proof A as (AT & A1 & A2 & A3 & A4 & A5).
  unfold caller_step in H. cbn zeta in H.
  destruct (c_pc (cl s)) eqn:Epc; try discriminate; cbn [awake relphase qpc inpc] in *.
  - (* CInUse *)
    assert (FM : FMid cfg s) by (apply fmid_of_finv; auto; rewrite Epc; cbn; auto; discriminate).
    destruct (_ <? _); inv_some H; [apply fi_after_inuse|apply fi_scan_inuse]; auto.
  - (* CLdm1 *)
    assert (FM : FMid cfg s) by (apply fmid_of_finv; auto; rewrite Epc; cbn; auto; discriminate).
    destruct (overlap_win _ _); inv_some H; [apply fi_sleep; auto; rewrite Epc; reflexivity|apply fi_move_prefix; auto].
  - (* CLdm2 *)
    assert (FM : FMid cfg s) by (apply fmid_of_finv; auto; rewrite Epc; cbn; auto; discriminate).
    destruct (overlap_win _ _); inv_some H; [apply fi_sleep; auto; rewrite Epc; reflexivity|apply fi_hand_out; auto].
  - (* CGetBuf : ZSTDMT_writeLastEmptyBlock *)
    assert (Ha : alldone (mt s) = false).
    { destruct (alldone (mt s)) eqn:X; auto. destruct (A2 eq_refl) as [?|[?|(? & _)]]; discriminate. }
    assert (Hp : prepared s) by (right; right; rewrite Epc; reflexivity).
    assert (Hr : relphase (awake (c_pc (cl s))) = false) by (rewrite Epc; reflexivity).
    pose proof (fi_r _ _ FI Ha Hr Hp) as Hz.
    inv_some H. apply fi_pc; [|reflexivity].
    destruct (PB eq_refl) as (_ & _ & Pr & _).
    eapply (fmid_post cfg s); eauto; try reflexivity.
    intros k. rewrite getj_set_mt. etransitivity; [apply fl_set_job|reflexivity]. rewrite getj_set_pl.
    destruct (negb _); cbn; auto.
  - (* CTryAdd : POOL_tryAdd *)
    assert (Ha : alldone (mt s) = false).
    { destruct (alldone (mt s)) eqn:X; auto. destruct (A2 eq_refl) as [?|[?|(? & _)]]; discriminate. }
    assert (Hp : prepared s) by (right; left; rewrite Epc; reflexivity).
    assert (Hr : relphase (awake (c_pc (cl s))) = false) by (rewrite Epc; reflexivity).
    pose proof (fi_r _ _ FI Ha Hr Hp) as Hz.
    destruct (Nat.eqb (busy (pl s)) (c_nbw cfg) || _); inv_some H.
    + apply fi_pc; [|reflexivity]. destruct FI as [FA0 L R B]. constructor.
      * fa_same FA0.
      * intros X. eapply fl0_ext; [..|exact (L Ha Hr)]; reflexivity.
      * intros _ _. exact Hz.
    + apply fi_pc; [|reflexivity]. eapply (fmid_post cfg s); eauto; reflexivity.
  - (* CFlush : ZSTDMT_flushProduced *)
    assert (M : Mid cfg s) by (apply mid_of_tinv; auto; rewrite Epc; cbn; auto; discriminate).
    assert (F : Flow s) by (apply flow_of_ainv; auto; rewrite Epc; reflexivity).
    assert (FM : FMid cfg s) by (apply fmid_of_finv; auto; rewrite Epc; cbn; auto; discriminate).
    destruct (_ && _); inv_some H; [apply fi_sleep; auto; rewrite Epc; reflexivity|apply fi_flush_body; auto].
  - (* CRelBuf *)
    assert (M : Mid cfg s) by (apply mid_of_tinv; auto; rewrite Epc; cbn; auto; discriminate).
    assert (F : Flow s) by (apply flow_of_ainv; auto; rewrite Epc; reflexivity).
    assert (FM : FMid cfg s) by (apply fmid_of_finv; auto; rewrite Epc; cbn; auto; discriminate).
    destruct (PE eq_refl) as (E1 & E2 & E3 & E4 & E5).
    assert (Ha : alldone (mt s) = false).
    { destruct (alldone (mt s)) eqn:X; auto. destruct (m_n3 _ _ M X). lia. }
    assert (Hfl := fi_b _ _ FI). rewrite Epc in Hfl. specialize (Hfl eq_refl).
    inv_some H.
    match goal with |- FInv cfg (complete_job cfg ?x) => set (s0 := x) end.
    assert (FM0 : FMid cfg s0) by fm_same FM.
    apply fi_complete_job; auto.
    apply (k_ids _ _ K). split; [reflexivity|exact PD].
  - (* CWait : ZSTDMT_waitForAllJobsCompleted *)
    unfold jslot in H. destruct (j_done (getj s (slot cfg (done (mt s))))) eqn:Ed; cbn [negb] in H; inv_some H.
    + apply fi_wait_all. fa_same (fi_fa _ _ FI).
    + apply fi_sleep; auto. rewrite Epc. reflexivity.
  - (* CRelAll *)
    inv_some H. apply fi_rel_scan. fa_same (fi_fa _ _ FI).
  - (* CInitBuf : a new frame *)
    match type of H with Some (set_cpc _ ?x) = _ => set (s1 := x) in * end.
    assert (FM1 : FMid cfg s1).
    { pose proof (fi_fa _ _ FI) as FA0. unfold FA in FA0. constructor.
      - unfold FA. apply fap_newframe. exact FA0.
      - intros _. split; [apply (link_newframe _ _ _ FA0)|]. cbn. intros i X Y. lia.
      - cbn. intros _ X. discriminate. }
    inv_some H; apply fi_pc; auto.
  - (* CInitSeq *)
    assert (FM : FMid cfg s) by (apply fmid_of_finv; auto; rewrite Epc; cbn; auto; discriminate).
    destruct (ldm (mt s)); inv_some H; apply fi_finish_op; fm_same FM.
Qed.

(* ------------------------------------------------------------------ *)
(* every reachable state                                                *)

Lemma finv_init cfg ops : FInv cfg (init cfg ops).
Proof.
  unfold init. apply fi_start_ops. apply fmid_of_fa; [|reflexivity]. unfold FA. cbn. apply fap_nil.
Qed.

Theorem finv_reachable cfg ops sched :
  0 < c_chunk cfg -> ops_ok ops -> FInv cfg (run state (step cfg) sched (init cfg ops)).
Proof.
  intros Hc Ho.
  assert (X : TInv cfg (run state (step cfg) sched (init cfg ops)) /\ FInv cfg (run state (step cfg) sched (init cfg ops))); [|apply X].
  apply (run_invariant state (step cfg) (fun s => TInv cfg s /\ FInv cfg s)).
  - intros s t w s' (TI & FI) Hst. split; [eapply tinv_step; eauto|].
    destruct t as [|t]; cbn [step] in Hst; [eapply finv_caller_step; eauto|eapply finv_worker_step; eauto].
  - split; [apply tinv_init; auto|apply finv_init].
Qed.

(* ------------------------------------------------------------------ *)
(* mt_flush_in_order                                                    *)

Record FlushOrd (cfg : config) (s : state) : Prop := mkFO {
  (* (1) the flush log is a chain w.r.t. the completion log *)
  fo_chain : chain (gfin s) (gout s);
  (* (2) the completion log is in strictly increasing (frame, id) order, ids consecutive from 0 inside a frame *)
  fo_fin : fin_sorted (gfin s);
  (* no entry of a frame later than the current one *)
  fo_gfr : Forall (fun x => e_fr x <= fr (mt s)) (gout s);
  fo_ffr : Forall (fun x => f_fr x <= fr (mt s)) (gfin s);
  (* a completed job was flushed completely: its recorded size is the number of its bytes in the flush log (and is > 0) *)
  fo_tot : Forall (fun x => f_tot x = sumlen (gout s) (f_fr x) (f_id x) /\ 0 < f_tot x) (gfin s);
  (* (3) link to the current state, while a frame is open and not being abandoned *)
  fo_link : alldone (mt s) = false -> relphase (awake (c_pc (cl s))) = false ->
            Link (gout s) (gfin s) (fr (mt s)) (done (mt s)) (cur_fl cfg s) /\
            (forall i, done (mt s) < i -> i < next (mt s) -> j_flushed (getj s (slot cfg i)) = 0) }.

(* readings of the link clause *)
Lemma fo_done_jobs cfg s : FlushOrd cfg s -> alldone (mt s) = false -> relphase (awake (c_pc (cl s))) = false ->
  forall i, i < done (mt s) ->
  exists t, In (fr (mt s), i, t) (gfin s) /\ t = sumlen (gout s) (fr (mt s)) i /\ 0 < t.
Proof.
  intros [C FS GF FF TT L] Ha Hr i Hi. destruct (L Ha Hr) as ([_ _ _ LN _ _] & _).
  destruct (LN i Hi) as (t & Ht). exists t. split; auto.
  rewrite Forall_forall in TT. exact (TT _ Ht).
Qed.

Lemma fo_cur_job cfg s : FlushOrd cfg s -> alldone (mt s) = false -> relphase (awake (c_pc (cl s))) = false ->
  done (mt s) < next (mt s) ->
  let fl := j_flushed (getj s (slot cfg (done (mt s)))) in
  sumlen (gout s) (fr (mt s)) (done (mt s)) = fl /\
  (0 < fl -> exists o n, lastopt (gout s) = Some (fr (mt s), done (mt s), o, n) /\ o + n = fl) /\
  (forall x, In x (gout s) -> e_fr x = fr (mt s) -> e_id x <= done (mt s)) /\
  (forall x, In x (gfin s) -> f_fr x = fr (mt s) -> f_id x < done (mt s)).
Proof.
  intros [C FS GF FF TT L] Ha Hr Hlt fl. destruct (L Ha Hr) as ([LP _ LS _ LG LI] & _).
  assert (E : cur_fl cfg s = fl) by (unfold cur_fl; rewrite (proj2 (N.ltb_lt _ _) Hlt); reflexivity).
  rewrite E in *. split; [exact LS|]. split; [|split; auto].
  intros Hp. eapply pos_full; eauto.
Qed.

Lemma fo_fin_increasing cfg s : FlushOrd cfg s ->
  forall a b l1 l2 l3, gfin s = l1 ++ a :: l2 ++ b :: l3 -> key_lt (fkey a) (fkey b).
Proof. intros [C (FS & _) GF FF TT L]. apply fin_sorted_lt. exact FS. Qed.

Theorem flush_in_order cfg ops sched : 0 < c_chunk cfg -> ops_ok ops ->
  let s := run state (step cfg) sched (init cfg ops) in FlushOrd cfg s.
Proof.
  intros Hc Ho s. destruct (finv_reachable cfg ops sched Hc Ho) as [[C FS GF FF TT] L _ _]. fold s in C, FS, GF, FF, TT, L.
  constructor; auto.
Qed.
