(* C11, termination under fairness, part 3: what one step of the application thread does to the pool-side potential [Aw]:
   nothing, except POOL_tryAdd, which adds the price of the posted job (+1 for the wake-up on queuePopCond). *)
From Coq Require Import List NArith ZArith Bool Arith Lia.
Import ListNotations.
From ZV.Conc Require Import Sched SchedLemmas MtModel MtProofs MtRing MtRingC MtPool MtFrame MtSleep MtStep MtLive MtErr MtTermDefs MtTermW.
Local Open Scope N_scope.
(* shape of one step of the application thread: its unsynchronised code (frame relation GR) after a change of the pools only;
   or no job in flight; or nextJobID++ *)
Definition same_ring (s s0 : state) : Prop := ws s0 = ws s /\ q (pl s0) = q (pl s) /\ mt s0 = mt s /\ jobs s0 = jobs s.

Lemma caller_step_cases cfg w s s' :
  TInv cfg s -> caller_step cfg w s = Some s' ->
  (exists s0, same_ring s s0 /\ GR cfg s0 s') \/
  done (mt s) = next (mt s) \/
  (done (mt s') = done (mt s) /\ next (mt s') = next (mt s) + 1 /\ next (mt s) < done (mt s) + Mr cfg /\
   (forall k, k <> slot cfg (next (mt s)) -> getj s' k = getj s k) /\
   (forall t x, nth_error (ws s) t = Some x -> active (w_pc x) = true -> nth_error (ws s') t = Some x)).
Proof.
  intros (K & A) H. pose proof (k_pc _ _ K) as P. unfold PcInv in P. destruct P as (PA & PB & PC & PD & PE & PF & PG).
  assert (R : same_ring s s) by (repeat split).
  unfold caller_step in H. cbn zeta in H.
  destruct (c_pc (cl s)) eqn:Epc; try discriminate; cbn [awake relphase] in *.
  - left. exists s. split; auto. destruct (_ <? _); inv_some H; [apply gr_after_inuse|apply gr_scan_inuse].
  - left. exists s. split; auto. destruct (overlap_win _ _); inv_some H; [apply gr_same; [repeat split|reflexivity|reflexivity|reflexivity]|apply gr_move_prefix].
  - left. exists s. split; auto. destruct (overlap_win _ _); inv_some H; [apply gr_same; [repeat split|reflexivity|reflexivity|reflexivity]|apply gr_hand_out].
  - (* CGetBuf *)
    right. right. destruct (PB eq_refl) as ((Hlt & _) & _). inv_some H. split; [reflexivity|]. split; [reflexivity|]. split; [exact Hlt|]. split.
    + intros k Hk. rewrite getj_set_cpc, getj_set_mt. rewrite getj_set_job_neq by auto. reflexivity.
    + intros t x Hx _. exact Hx.
  - (* CTryAdd *)
    destruct (PA eq_refl) as ((Hlt & _) & _).
    destruct (_ || _); inv_some H.
    + left. exists s. split; auto. apply gr_same; [repeat split|reflexivity|reflexivity|reflexivity].
    + right. right. split; [reflexivity|]. split; [reflexivity|]. split; [exact Hlt|]. split; [intros; reflexivity|].
      intros t x Hx Ax. apply (signal_pop_spec w (ws s)); auto.
  - left. exists s. split; auto. destruct (_ && _); inv_some H; [apply gr_same; [repeat split|reflexivity|reflexivity|reflexivity]|apply gr_flush_body].
  - left. inv_some H. exists (set_pl (pl_bp (give (bp_nb (pl s)) (bp_tot (pl s))) (pl s)) s). split; [repeat split|]. apply gr_complete_job.
  - left. exists s. split; auto. unfold jslot in H. destruct (negb _); inv_some H.
    + apply gr_same; [repeat split|reflexivity|reflexivity|reflexivity].
    + eapply gr_trans; [|apply gr_wait_all].
      split; [repeat split|]. split; [reflexivity|]. split; [cbn; lia|]. split; [reflexivity|]. right. intros k. left. reflexivity.
  - right. left. exact PD.
  - right. left. exact PD.
  - right. left. exact PD.
Qed.

(* a job in flight that has not reported completion survives a step of the application thread, with the same description *)
Lemma caller_keeps_unfinished cfg w s s' :
  TInv cfg s -> caller_step cfg w s = Some s' ->
  forall i, inflight s i -> j_done (getj s (slot cfg i)) = false ->
  inflight s' i /\ jcore (getj s' (slot cfg i)) = jcore (getj s (slot cfg i)).
Proof.
  intros TI H i Hi Hd. assert (TI' : TInv cfg s') by (eapply tinv_caller_step; eauto).
  destruct (caller_step_cases cfg w s s' TI H) as [(s0 & (Rw & Rq & Rm & Rj) & G)|[E|(Ed & En & Hlt & Hg & _)]].
  - destruct TI as (K & _). destruct TI' as (K' & _).
    assert (Hg0 : forall k, getj s0 k = getj s k) by (intros; unfold getj; rewrite Rj; reflexivity).
    assert (SK : SrcOk cfg s0).
    { destruct (srcok_kinv _ _ K) as (A & B). split; [rewrite Rm; exact A|].
      intros i0 Hi0 Hd0. unfold inflight in Hi0. rewrite Rm in Hi0. rewrite Hg0 in Hd0. specialize (B i0 Hi0 Hd0).
      unfold owned in *. rewrite Rw, Rq. exact B. }
    pose proof G as ((Es & Ew & Ep) & En & Ed & El & J). rewrite Rm in En, Ed.
    destruct Hi as (I1 & I2).
    assert (Hge : done (mt s') <= i).
    { destruct (N.le_gt_cases (done (mt s')) i) as [X|X]; auto. exfalso.
      pose proof (passed_done cfg s0 s' i SK K' Ew ltac:(congruence) ltac:(rewrite Rm; exact En) ltac:(rewrite Rm; exact I1) X) as Y.
      rewrite Hg0 in Y. congruence. }
    split; [split; [exact Hge|rewrite En; exact I2]|].
    destruct J as [J|J]; [rewrite En in J; lia|].
    destruct (J (slot cfg i)) as [E|(E & E')]; [rewrite E, Hg0; reflexivity|].
    exfalso. rewrite Rm in E, E'. revert E. apply slot_neq; lia.
  - destruct Hi. lia.
  - split; [unfold inflight in *; lia|]. rewrite Hg; auto. apply inflight_not_next; auto.
Qed.

(* the application thread touches the pool threads and the queue only in POOL_tryAdd *)
Lemma swp_wsq a b : eq_swp a b -> ws b = ws a /\ q (pl b) = q (pl a).
Proof. intros (_ & Ew & Ep). split; congruence. Qed.

Ltac wsq_fn :=
  first [ split; reflexivity
        | match goal with |- ws ?b = ws ?s /\ _ =>
            let X := fresh in
            assert (X : exists a, eq_swp a b /\ ws a = ws s /\ q (pl a) = q (pl s));
            [eexists; split;
             [first [apply swp_after_inuse|apply swp_scan_inuse|apply swp_move_prefix|apply swp_hand_out|apply swp_flush_body
                    |apply swp_complete_job|apply swp_wait_all|apply swp_rel_scan|apply swp_finish_op|apply swp_set_cpc]
             |split; reflexivity]
            |destruct X as (a & Xa & Xw & Xq); destruct (swp_wsq _ _ Xa); split; congruence] end ].

Lemma caller_step_wsq cfg w s s' :
  caller_step cfg w s = Some s' ->
  (ws s' = ws s /\ q (pl s') = q (pl s)) \/
  (c_pc (cl s) = CTryAdd /\ q (pl s) = None /\ ws s' = signal_pop w (ws s) /\ q (pl s') = Some (slot cfg (next (mt s))) /\
   jobs s' = jobs s /\ next (mt s') = next (mt s) + 1 /\ done (mt s') = done (mt s)).
Proof.
  intros H. unfold caller_step in H. cbn zeta in H.
  destruct (c_pc (cl s)) eqn:Epc; try discriminate.
  all: try (left; repeat match type of H with (if ?b then _ else _) = _ => destruct b end; inv_some H; wsq_fn; fail).
  destruct (Nat.eqb (busy (pl s)) (c_nbw cfg) || _) eqn:Eb; inv_some H; [left; split; reflexivity|].
  right. apply orb_false_elim in Eb. destruct Eb as (_ & Eq). split; [reflexivity|].
  split; [destruct (q (pl s)); [discriminate|reflexivity]|]. repeat split.
Qed.

Local Open Scope nat_scope.

Lemma sumf_signal_pop cfg s w l : sumf (phiW cfg s) (signal_pop w l) <= sumf (phiW cfg s) l + 1.
Proof.
  unfold signal_pop. destruct (pop_sleepers l) as [|i0 r] eqn:E; [lia|].
  set (i := nth (w mod length (i0 :: r)) (i0 :: r) i0).
  assert (Hin : In i (pop_sleepers l)) by (rewrite E; apply nth_In; apply Nat.mod_upper_bound; discriminate).
  unfold pop_sleepers in Hin. apply indices_from_spec in Hin. destruct Hin as (x0 & H0 & Hf & _). rewrite Nat.sub_0_r in H0.
  pose proof (sumf_upd (phiW cfg s) i (w_set_pc WIdle (nth i l w0)) l x0 H0) as Hs.
  assert (P2 : phiW cfg s (w_set_pc WIdle (nth i l w0)) = 1) by reflexivity. lia.
Qed.

Lemma aw_caller_step cfg w s s' :
  TInv cfg s -> caller_step cfg w s = Some s' ->
  Aw cfg s' <= Aw cfg s \/
  (c_pc (cl s) = CTryAdd /\ q (pl s) = None /\ q (pl s') = Some (slot cfg (next (mt s))) /\
   next (mt s') = (next (mt s) + 1)%N /\ done (mt s') = done (mt s) /\
   Aw cfg s' <= Aw cfg s + jobW cfg s (slot cfg (next (mt s))) + 1).
Proof.
  intros TI H. destruct (caller_step_wsq cfg w s s' H) as [(Ew & Eq)|(Epc & Eq & Ew & Eq' & Ej & En & Ed)].
  - left. pose proof TI as (K & _).
    assert (Hsz : forall k, owned s k -> j_size (getj s' k) = j_size (getj s k)).
    { intros k O.
      assert (X : exists i, inflight s i /\ k = slot cfg i /\ j_done (getj s k) = false).
      { destruct O as [O|(t & x & Hx & Ax & Es)].
        - destruct (k_que _ _ K k O) as (i & Hi & E & (D & _)). exists i. auto.
        - destruct (k_wrk _ _ K t x Hx Ax) as (i & Hi & E & (D & _)). exists i. rewrite <- Es. auto. }
      destruct X as (i & Hi & -> & D).
      destruct (caller_keeps_unfinished cfg w s s' TI H i Hi D) as (_ & E). apply jcore_fields in E. apply E. }
    unfold Aw. rewrite Ew.
    rewrite (sumf_ext (phiW cfg s') (phiW cfg s)).
    + unfold queueW. rewrite Eq. destruct (q (pl s)) as [k|] eqn:Eqq; [|lia].
      unfold jobW, nbc. rewrite (Hsz k) by (left; exact Eqq). lia.
    + intros x Hx. apply In_nth_error in Hx. destruct Hx as (t & Hx). apply phiW_ext1. intros Ax. apply Hsz. right. exists t, x. auto.
  - right. repeat split; auto.
    assert (Hg : forall k, j_size (getj s' k) = j_size (getj s k)) by (intros; unfold getj; rewrite Ej; reflexivity).
    unfold Aw. rewrite (sumf_ext (phiW cfg s') (phiW cfg s)) by (intros; apply phiW_ext; exact Hg).
    rewrite Ew. pose proof (sumf_signal_pop cfg s w (ws s)).
    unfold queueW. rewrite Eq, Eq'. unfold jobW, nbc. rewrite Hg. lia.
Qed.
