(* C12 round 3: what ONE step of the fine-grained model PoolModel.v does to the pool as its clients see it.

   view = (tickets waiting in the queue in FIFO order, tickets being executed, log of finished tickets, numThreadsBusy,
   threadLimit, threadCapacity, isQueueFull).  Every step of every thread is one of SIX pool transitions on that view:
   nothing / push of a fresh ticket at the tail while the queue is not full / pop of the head while numThreadsBusy <
   threadLimit / completion of a running job / numThreadsBusy-- / a resize (limit, capacity).  These are exactly the
   transitions of the coarse model PoolShared.v (several clients - compression contexts - on one pool), so a history of the
   fine-grained model (and, through the lock-step tie, of pool.c) is, seen from the clients, a history of PoolShared's pool.
   [full_is_abstract_full]: in reachable states isQueueFull computed on the C fields is the predicate PoolShared uses. *)
From Coq Require Import List Arith Bool Lia Permutation.
Import ListNotations.
From ZV.Conc Require Import Sched PoolModel PoolLemmas PoolInvDefs PoolInv1 PoolInv3 PoolInv4 PoolSafety PoolTheorems.

Definition tk (l : list entry) : list nat := map fst l.
Definition cur_list (o : option entry) : list entry := match o with Some e => [e] | None => [] end.
Definition RC (c : list (option entry)) : list entry := flat_map cur_list c.

Record view := mkV { v_pend : list nat; v_run : list nat; v_done : list nat; v_busy : nat; v_limit : nat; v_cap : nat; v_full : bool }.

Definition view_of (s : state) : view :=
  mkV (tk (pending (sg s))) (tk (RC (map t_cur (st s)))) (tk (done (sg s))) (busy (sp s)) (limit (sp s)) (cap (sp s)) (is_full (sp s)).

Definition same_pool (v v' : view) : Prop := v_busy v' = v_busy v /\ v_limit v' = v_limit v /\ v_cap v' = v_cap v.

Inductive vtrans (v v' : view) : Prop :=
| VT_stutter : v_pend v' = v_pend v -> v_run v' = v_run v -> v_done v' = v_done v -> same_pool v v' -> vtrans v v'
| VT_push (t : nat) : v_full v = false -> v_pend v' = v_pend v ++ [t] -> v_run v' = v_run v -> v_done v' = v_done v -> same_pool v v' -> vtrans v v'
| VT_pop (t : nat) : v_pend v = t :: v_pend v' -> Permutation (v_run v') (t :: v_run v) -> v_done v' = v_done v ->
    v_busy v < v_limit v -> v_busy v' = S (v_busy v) -> v_limit v' = v_limit v -> v_cap v' = v_cap v -> vtrans v v'
| VT_complete (t : nat) : v_pend v' = v_pend v -> Permutation (v_run v) (t :: v_run v') -> v_done v' = v_done v ++ [t] -> same_pool v v' -> vtrans v v'
| VT_release : v_pend v' = v_pend v -> v_run v' = v_run v -> v_done v' = v_done v ->
    v_busy v' = v_busy v - 1 -> v_limit v' = v_limit v -> v_cap v' = v_cap v -> vtrans v v'
| VT_resize : v_pend v' = v_pend v -> v_run v' = v_run v -> v_done v' = v_done v -> v_busy v' = v_busy v ->
    v_cap v <= v_cap v' -> (v_limit v' = v_limit v \/ (1 <= v_limit v' <= v_cap v')) -> vtrans v v'.

(* ---- the running list only depends on the t_cur fields ---- *)
Lemma running_RC s : running s = RC (map t_cur (st s)).
Proof. unfold running, RC. induction (st s); cbn; auto. rewrite IHl. destruct (t_cur a); auto. Qed.

Lemma map_upd {A B} (f : A -> B) i x l : map f (upd i x l) = upd i (f x) (map f l).
Proof. revert i; induction l; destruct i; cbn; auto. f_equal; auto. Qed.

Lemma upd_same {A} i (x : A) l : nth_error l i = Some x -> upd i x l = l.
Proof. revert i; induction l; destruct i; cbn; intros; try discriminate; auto. - inversion H; auto. - f_equal; auto. Qed.

Lemma curs_broadcast_pop ths : map t_cur (broadcast wake_pop ths) = map t_cur ths.
Proof. unfold broadcast. rewrite map_map. apply map_ext. intro th. unfold wake_pop. destruct (t_pc th); auto. Qed.
Lemma curs_broadcast_push ths : map t_cur (broadcast wake_push ths) = map t_cur ths.
Proof. unfold broadcast. rewrite map_map. apply map_ext. intro th. unfold wake_push. destruct (t_pc th); auto. Qed.

Lemma curs_signal g wake w ths : (forall th, t_cur (wake th) = t_cur th) -> map t_cur (signal g wake w ths) = map t_cur ths.
Proof.
  intros Hw. destruct (signal_cases g wake w ths) as [[_ ->]|(i & th & Hth & _ & ->)]; auto.
  rewrite map_upd, Hw. apply upd_same. rewrite nth_error_map, Hth. auto.
Qed.
Lemma wake_pop_cur th : t_cur (wake_pop th) = t_cur th.
Proof. unfold wake_pop. destruct (t_pc th); auto. Qed.
Lemma wake_push_cur th : t_cur (wake_push th) = t_cur th.
Proof. unfold wake_push. destruct (t_pc th); auto. Qed.
Lemma curs_signal_pop w ths : map t_cur (signal asleep_pop wake_pop w ths) = map t_cur ths.
Proof. apply curs_signal, wake_pop_cur. Qed.
Lemma curs_wake_pushers b w ths : map t_cur (wake_pushers b w ths) = map t_cur ths.
Proof. unfold wake_pushers. destruct b; [apply curs_broadcast_push|apply curs_signal, wake_push_cur]. Qed.

Lemma RC_app_none c m : RC (c ++ repeat None m) = RC c.
Proof. unfold RC. rewrite flat_map_app. replace (flat_map cur_list (repeat None m)) with (@nil entry); [apply app_nil_r|]. induction m; cbn; auto. Qed.

Lemma RC_upd_set c i e : nth_error c i = Some None -> Permutation (RC (upd i (Some e) c)) (e :: RC c).
Proof.
  unfold RC. revert i; induction c; destruct i; cbn; intros; try discriminate.
  - inversion H; subst. cbn. apply Permutation_refl.
  - destruct a; cbn; [|apply IHc; auto]. eapply perm_trans; [apply perm_skip; apply IHc; auto|apply perm_swap].
Qed.

Lemma RC_upd_clear c i e : nth_error c i = Some (Some e) -> Permutation (RC c) (e :: RC (upd i None c)).
Proof.
  unfold RC. revert i; induction c; destruct i; cbn; intros; try discriminate.
  - inversion H; subst. cbn. apply Permutation_refl.
  - destruct a; cbn; [|apply IHc; auto]. eapply perm_trans; [apply perm_skip; apply IHc; eauto|apply perm_swap].
Qed.

Lemma tk_app l l' : tk (l ++ l') = tk l ++ tk l'.
Proof. apply map_app. Qed.

Lemma complete_perm c i e : nth_error c i = Some (Some e) -> Permutation (tk (RC c)) (fst e :: tk (RC (upd i None c))).
Proof.
  intros. unfold tk. change (fst e :: map fst (RC (upd i None c))) with (map fst (e :: RC (upd i None c))).
  apply Permutation_map, RC_upd_clear; auto.
Qed.

Lemma pop_perm c i e : nth_error c i = Some None -> Permutation (tk (RC (upd i (Some e) c))) (fst e :: tk (RC c)).
Proof.
  intros. unfold tk. change (fst e :: map fst (RC c)) with (map fst (e :: RC c)).
  apply Permutation_map, RC_upd_set; auto.
Qed.

Arguments RC : simpl never.
Arguments tk : simpl never.

(* the current-job field of the thread that moves *)
Lemma cur_at s tid th : nth_error (st s) tid = Some th -> nth_error (map t_cur (st s)) tid = Some (t_cur th).
Proof. intros. rewrite nth_error_map, H. auto. Qed.

Lemma curs_new ths m : map t_cur (ths ++ repeat new_worker m) = map t_cur ths ++ repeat None m.
Proof. rewrite map_app. f_equal. induction m; cbn; auto. f_equal; auto. Qed.

Lemma upd_app_l' {A} i (x : A) l l' : nth_error l i <> None -> upd i x (l ++ l') = upd i x l ++ l'.
Proof. intros. apply upd_app_l. apply nth_error_Some; auto. Qed.

(* ---- the theorem ---- *)
Ltac pools := unfold same_pool; cbn; auto.
Ltac runsame Hth :=
  cbn; rewrite ?map_upd, ?curs_signal_pop, ?curs_broadcast_pop, ?curs_broadcast_push, ?curs_wake_pushers; cbn [t_cur set_pc];
  try (rewrite upd_same by (apply cur_at; exact Hth)); auto.

Theorem step_is_pool_transition cfg tid w s s' :
  CurOK s -> RingOK s -> step cfg tid w s = Some s' -> vtrans (view_of s) (view_of s').
Proof.
  intros HC HR H.
  assert (HcurNone : forall th, nth_error (st s) tid = Some th ->
            (t_worker th = false \/ posting (t_pc th) = false /\ t_pc th <> WBcast1 /\ t_pc th <> WUnlock1) -> t_cur th = None).
  { intros th Hth Hc. pose proof (Forall_nth_error _ _ _ _ HC Hth) as Hok. unfold cur_ok in Hok. cbn in Hok.
    destruct (t_cur th); auto. destruct Hc as [Hc|(Hp & H1 & H2)].
    - rewrite Hc in Hok. discriminate.
    - rewrite Hp in Hok. destruct (t_pc th); cbn in *; try congruence; destruct (t_worker th); discriminate. }
  unfold step in H. destruct (nth_error (st s) tid) as [th|] eqn:Hth; [|discriminate].
  assert (Hcur := cur_at _ _ _ Hth).
  destruct (t_pc th) eqn:Epc.
  - (* PLock *)
    destruct (is_free (sp s)); [|discriminate].
    destruct k.
    + destruct (is_full (sp s) && negb (shutdown (sp s))) eqn:E1.
      * inversion H; subst; clear H. apply VT_stutter; try pools; runsame Hth.
      * destruct (shutdown (sp s)) eqn:E2.
        -- inversion H; subst; clear H. apply VT_stutter; try pools; runsame Hth.
        -- inversion H; subst; clear H. rewrite andb_true_r in E1.
           apply VT_push with (t := next (sg s)); try pools; try runsame Hth. cbn. rewrite tk_app. auto.
    + destruct (is_full (sp s)) eqn:E1.
      * inversion H; subst; clear H. apply VT_stutter; try pools; runsame Hth.
      * destruct (shutdown (sp s)) eqn:E2.
        -- inversion H; subst; clear H. apply VT_stutter; try pools; runsame Hth.
        -- inversion H; subst; clear H.
           apply VT_push with (t := next (sg s)); try pools; try runsame Hth. cbn. rewrite tk_app. auto.
  - inversion H; subst; clear H. apply VT_stutter; try pools; runsame Hth.
  - discriminate.
  - inversion H; subst; clear H. apply VT_stutter; try pools; runsame Hth.
  - (* PUnlock *)
    destruct (finish_op cfg tid th (sg s)) as [th' g'] eqn:Hfin. inversion H; subst; clear H.
    destruct (finish_op_cases _ _ _ _ _ _ Hfin) as [(Hw & k & j & r & Hp & -> & ->)|[(Hw & Hp & -> & ->)|(Hw & c & ops' & Hn & -> & ->)]].
    + apply VT_stutter; try pools; runsame Hth.
    + destruct (t_cur th) as [e|] eqn:Ec.
      * apply VT_complete with (t := fst e); try pools.
        -- cbn. rewrite map_upd. cbn [t_cur]. apply complete_perm. rewrite Hcur. auto.
        -- cbn. apply tk_app.
      * apply VT_stutter; try pools; runsame Hth. rewrite <- Ec. runsame Hth.
    + assert (Ec : t_cur th = None) by (apply HcurNone; auto).
      apply VT_stutter; try pools; runsame Hth. rewrite <- Ec. runsame Hth.
  - (* JLock *)
    destruct (is_free (sp s)); [|discriminate].
    destruct (negb (qempty (sp s)) || (0 <? busy (sp s))); inversion H; subst; clear H; apply VT_stutter; try pools; runsame Hth.
  - inversion H; subst; clear H. apply VT_stutter; try pools; runsame Hth.
  - discriminate.
  - (* JUnlock *)
    destruct (finish_op cfg tid th (sg s)) as [th' g'] eqn:Hfin. inversion H; subst; clear H.
    assert (Ec : t_cur th = None) by (apply HcurNone; auto; right; rewrite Epc; cbn; repeat split; congruence).
    destruct (finish_op_cases _ _ _ _ _ _ Hfin) as [(Hw & k & j & r & Hp & -> & ->)|[(Hw & Hp & -> & ->)|(Hw & c & ops' & Hn & -> & ->)]].
    + apply VT_stutter; try pools; runsame Hth.
    + rewrite Ec. apply VT_stutter; try pools; runsame Hth. rewrite <- Ec. runsame Hth.
    + apply VT_stutter; try pools; runsame Hth. rewrite <- Ec. runsame Hth.
  - (* RLock *)
    destruct (is_free (sp s)); [|discriminate].
    destruct (n <=? cap (sp s)) eqn:En.
    + destruct (n =? 0) eqn:E0; inversion H; subst; clear H.
      * apply VT_stutter; try pools; runsame Hth.
      * apply Nat.leb_le in En. apply Nat.eqb_neq in E0.
        apply VT_resize; try runsame Hth; cbn; auto. right. lia.
    + apply Nat.leb_gt in En.
      assert (Hne : nth_error (st s) tid <> None) by congruence.
      destruct (created w (n - cap (sp s)) =? n - cap (sp s)) eqn:Em; inversion H; subst; clear H.
      * apply VT_resize; cbn; auto; try lia.
        rewrite curs_new, map_upd, RC_app_none. cbn [t_cur set_pc]. rewrite upd_same by exact Hcur. auto.
      * apply VT_resize; cbn; auto; try lia.
        rewrite curs_new, map_upd, RC_app_none. cbn [t_cur set_pc]. rewrite upd_same by exact Hcur. auto.
  - inversion H; subst; clear H. apply VT_stutter; try pools; runsame Hth.
  - inversion H; subst; clear H. apply VT_stutter; try pools; runsame Hth.
  - (* RUnlock *)
    destruct (finish_op cfg tid th (sg s)) as [th' g'] eqn:Hfin. inversion H; subst; clear H.
    assert (Ec : t_cur th = None) by (apply HcurNone; auto; right; rewrite Epc; cbn; repeat split; congruence).
    destruct (finish_op_cases _ _ _ _ _ _ Hfin) as [(Hw & k & j & r & Hp & -> & ->)|[(Hw & Hp & -> & ->)|(Hw & c & ops' & Hn & -> & ->)]].
    + apply VT_stutter; try pools; runsame Hth.
    + rewrite Ec. apply VT_stutter; try pools; runsame Hth. rewrite <- Ec. runsame Hth.
    + apply VT_stutter; try pools; runsame Hth. rewrite <- Ec. runsame Hth.
  - (* MJoin *)
    destruct (is_done (st s) c); inversion H; subst; clear H. apply VT_stutter; try pools; runsame Hth.
  - destruct (is_free (sp s)); inversion H; subst; clear H. apply VT_stutter; try pools; runsame Hth.
  - inversion H; subst; clear H. apply VT_stutter; try pools; runsame Hth.
  - inversion H; subst; clear H. apply VT_stutter; try pools; runsame Hth.
  - inversion H; subst; clear H. apply VT_stutter; try pools; runsame Hth.
  - destruct (is_done (st s) (c_K cfg + i)); inversion H; subst; clear H. apply VT_stutter; try pools; runsame Hth.
  - (* WLock: the pop *)
    destruct (is_free (sp s)); [|discriminate].
    destruct (qempty (sp s) || (limit (sp s) <=? busy (sp s))) eqn:E1.
    + destruct (shutdown (sp s)); inversion H; subst; clear H; apply VT_stutter; try pools; runsame Hth.
    + inversion H; subst; clear H. apply orb_false_iff in E1. destruct E1 as [Eq El]. apply Nat.leb_gt in El.
      assert (Ec : t_cur th = None) by (apply HcurNone; auto; right; rewrite Epc; cbn; repeat split; congruence).
      destruct HR as (Hq & Hlen & Hh & Ht & He & Hcp & Hn).
      destruct (pending (sg s)) as [|e0 l] eqn:Epend; [cbn in He; congruence|].
      assert (Hpop : pop_entry (sp s) = e0).
      { unfold pop_entry. specialize (Hn 0 ltac:(cbn; lia)). rewrite Nat.add_0_r, Nat.mod_small in Hn by lia. exact Hn. }
      apply VT_pop with (t := fst e0); cbn; auto.
      * rewrite Epend. auto.
      * rewrite map_upd. cbn [t_cur]. rewrite Hpop. apply pop_perm. rewrite Hcur; try rewrite Ec; auto.
  - inversion H; subst; clear H. apply VT_stutter; try pools; runsame Hth.
  - discriminate.
  - inversion H; subst; clear H. apply VT_stutter; try pools; runsame Hth.
  - inversion H; subst; clear H. apply VT_stutter; try pools; runsame Hth.
  - (* WUnlock1: the job function starts; a job that posts nothing is complete at once *)
    destruct (t_cur th) as [e|] eqn:Ec; [|discriminate].
    destruct (finish_op cfg tid (mkT WUnlock1 [] (Some e) (nth (snd e) (c_bodies cfg) []) true) (g_start e (sg s))) as [th' g'] eqn:Hfin.
    inversion H; subst; clear H.
    destruct (finish_op_cases _ _ _ _ _ _ Hfin) as [(Hw & k & j & r & Hp & -> & ->)|[(Hw & Hp & -> & ->)|(Hw & c & ops' & Hn & -> & ->)]]; cbn in *.
    + apply VT_stutter; try pools; runsame Hth. rewrite <- Ec. runsame Hth.
    + apply VT_complete with (t := fst e); try pools.
      * cbn. rewrite map_upd. cbn [t_cur]. apply complete_perm. rewrite Hcur; try rewrite Ec; auto.
      * cbn. apply tk_app.
    + discriminate.
  - (* WLock2: numThreadsBusy-- *)
    destruct (is_free (sp s)); inversion H; subst; clear H. apply VT_release; cbn; auto; runsame Hth.
  - inversion H; subst; clear H. apply VT_stutter; try pools; runsame Hth.
  - inversion H; subst; clear H. apply VT_stutter; try pools; runsame Hth.
  - discriminate.
Qed.

(* ---- along every run from POOL_create ---- *)
Theorem reach_step_is_pool_transition fx bodies progs n q sched tid w s' :
  progs <> [] -> 1 <= n ->
  let s := reach fx bodies progs n q sched in
  step (mkcfg fx progs bodies) tid w s = Some s' -> vtrans (view_of s) (view_of s').
Proof.
  intros Hp Hn s H. pose proof (safe_reachable_any fx bodies progs n q sched Hp Hn) as HS.
  fold (reach fx bodies progs n q sched) in HS. fold s in HS.
  eapply step_is_pool_transition; eauto; [apply (sf_cur _ _ HS)|apply (sf_ring _ _ HS)].
Qed.

(* isQueueFull on the C fields = the predicate on the abstract queue *)
Lemma full_is_abstract_full p l : Ring p l ->
  is_full p = if 1 <? qsize p then length l =? qsize p - 1 else (busy p =? limit p) || negb (length l =? 0).
Proof.
  unfold Ring, is_full. intros (Hq & Hlen & Hh & Ht & He & Hcp & Hn).
  destruct (1 <? qsize p) eqn:E.
  - apply Nat.ltb_lt in E. rewrite Ht. rewrite mod_tail_succ by lia.
    destruct (Nat.eqb_spec (length l) (qsize p - 1)) as [En|En].
    + replace (S (length l)) with (qsize p) by lia.
      replace (head p + qsize p) with (head p + 1 * qsize p) by lia. rewrite Nat.mod_add by lia.
      rewrite Nat.mod_small by lia. apply Nat.eqb_refl.
    + apply Nat.eqb_neq. intro Hx.
      assert (H0 : (head p + 0) mod qsize p = (head p + S (length l)) mod qsize p).
      { rewrite Nat.add_0_r, Nat.mod_small by lia. exact Hx. }
      apply mod_inj in H0; lia.
  - rewrite He. auto.
Qed.

Theorem reach_full_is_abstract_full fx bodies progs n q sched :
  progs <> [] -> 1 <= n ->
  let s := reach fx bodies progs n q sched in
  is_full (sp s) = if 1 <? qsize (sp s) then length (pending (sg s)) =? qsize (sp s) - 1
                   else (busy (sp s) =? limit (sp s)) || negb (length (pending (sg s)) =? 0).
Proof.
  intros Hp Hn s. apply full_is_abstract_full. apply (ring_inv fx bodies progs n q sched Hp Hn).
Qed.
