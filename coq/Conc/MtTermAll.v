(* C11: termination under fairness for every call program (long-distance matching and worker-side failures included): the deadlock-freedom
   hypothesis of MtTerm.fair_terminates is discharged by MtLdm.deadlock_free_all. *)
From Coq Require Import List NArith Bool Arith.
From ZV.Conc Require Import Sched MtModel MtRingC MtGeo MtLdm MtTermS MtTerm.
Local Open Scope N_scope.

Theorem fair_terminates_all cfg ops sigma :
  0 < c_chunk cfg -> ops_ok ops -> geo_ops ops ->
  0 < c_minblk cfg -> (1 <= c_nbw cfg)%nat -> nonempty_jobs cfg ops ->
  fair cfg sigma ->
  exists n, caller_done (state_at cfg ops sigma n) = true.
Proof. intros Hc Ho Hg Hm Hn NE Hf. apply fair_terminates; auto. intros sched. apply deadlock_free_all; auto. Qed.

Corollary round_robin_terminates_all cfg ops :
  0 < c_chunk cfg -> ops_ok ops -> geo_ops ops ->
  0 < c_minblk cfg -> (1 <= c_nbw cfg)%nat -> nonempty_jobs cfg ops ->
  exists n, caller_done (state_at cfg ops (fun i : nat => (Nat.modulo i (S (c_nbw cfg)), 0%nat)) n) = true.
Proof. intros. apply fair_terminates_all; auto. apply round_robin_fair. Qed.
