(* Executable model of the protocol of lib/compress/zstdmt_compress.c (job ring, serial
   section, round input buffer, in-order flush, caller/worker hand-shake) together with the part
   of lib/common/pool.c that zstdmt uses (POOL_tryAdd + POOL_thread, queueSize = 1), under the
   interleaving semantics of Sched.v.  NO proofs in this file (they are in MtProofs.v).

   Granularity.  One [step] of a thread = ONE CRITICAL SECTION: the mutex acquisition the thread
   stands at, the code of the section (including a nested ldmWindowMutex section and the
   signal/broadcast calls made inside it) up to the outermost unlock -- or up to the
   pthread_cond_wait that releases the mutex -- followed by the unsynchronised code up to, not
   including, the thread's next mutex acquisition.  A thread asleep on a condition is disabled until
   a signal/broadcast moves it back to the head of its section (it then re-evaluates its wait
   condition: no spurious wake-up is assumed for liveness, and safety invariants are also preserved
   by spurious wake-ups, see MtProofs.inv_spurious).
   Treating a critical section as atomic is the usual reduction for properly locked code: it is an
   assumption of the model (lock discipline: TSan build of the harness; lock order
   serial.mutex -> ldmWindowMutex: checked per run by the harness).
   The ldmWindowMutex section nested in a serial.mutex section (ZSTDMT_serialState_update,
   ZSTDMT_serialState_ensureFinished) is part of the enclosing step.  The caller takes ldmWindowMutex
   alone, so it can observe the new ldmWindow from the INNER unlock on; nothing else the pool thread
   does before the outer unlock (serial.nextJobID++, the broadcast, the checksum update) is visible to
   any thread before that unlock.  The tie therefore linearises such a step at the inner unlock.

   Job payloads are abstract: what the compressor produces for a chunk, and whether an allocation
   or a compression call fails, comes from [payload] (an oracle indexed by frame and job id, filled
   in from the real run by the tie, universally quantified in the theorems).
   Addresses are offsets into roundBuff.buffer.  Ghost state (never read by the modelled code):
   lap numbers (virtual position of a range = lap * capacity + offset), absolute stream offsets of
   job sources, the log of serial sections, the flush log, per-call results.

   Thread ids: 0 = the caller (application thread inside ZSTD_compressStream2), 1..nbWorkers = the
   pool threads. *)
From Coq Require Import List NArith Bool Arith.
Import ListNotations.
Local Open Scope N_scope.

(* ------------------------------------------------------------------ *)
(* configuration, oracle                                                *)

Inductive endop := EContinue | EFlush | EEnd.
Inductive errstage := ErrCCtx | ErrSeq | ErrBuf | ErrInit | ErrHdr | ErrChunk (k : N) | ErrLast.

Definition win := (N * N * N * N)%type.        (* extDict [lo,hi)  prefix [lo,hi)   (addresses) *)
Definition win0 : win := (0, 0, 0, 0).

Record payload := mkPay {
  p_err : option errstage;      (* where ZSTDMT_compressionJob fails, if it does *)
  p_chunks : list N;            (* compressed size of chunk 1, 2, ... (all but the last block) *)
  p_last : N;                   (* lastCBlockSize *)
  p_win : win }.                (* LDM: the window the run observed after ZSTD_ldm_generateSequences; no longer read by the model
                                   (the trimming to maxDist is computed: [win_cap]); kept for the format of the driver's PAY line *)
Definition pay0 := mkPay None [] 0 win0.

Record fparams := mkFP {
  fp_target : N;                (* targetSectionSize as computed by ZSTDMT_initCStream_internal *)
  fp_prefix : N;                (* targetPrefixSize *)
  fp_cksum : bool; fp_ldm : bool; fp_rsync : bool;
  fp_hits : list N;             (* rsyncable: stream offsets p (ascending) such that the rolling hash of x[p-32,p) hits *)
  fp_wsize : N }.               (* 1 << windowLog when LDM is on, else 0 *)
Definition fp0 := mkFP 1 0 false false false [] 0.

Inductive cop := OpInit (fp : fparams) | OpCS (e : endop) (avail_in avail_out : N).

Record config := mkCfg {
  c_nbw : nat;                  (* nbWorkers = pool threadLimit *)
  c_rlog : N;                   (* jobIDMask = 2^rlog - 1 *)
  c_chunk : N;                  (* 4 * ZSTD_BLOCKSIZE_MAX *)
  c_minblk : N;                 (* RSYNC_MIN_BLOCK_SIZE *)
  c_pays : list (N * N * payload) }.   (* (frame, job id) -> payload *)

Definition mask (cfg : config) : N := N.ones (c_rlog cfg).
Definition slot (cfg : config) (id : N) : nat := N.to_nat (N.land id (mask cfg)).
Definition rsync_len : N := 32.

Fixpoint lookup_pay (l : list (N * N * payload)) (f id : N) : payload :=
  match l with
  | [] => pay0
  | (f', id', p) :: r => if (f' =? f) && (id' =? id) then p else lookup_pay r f id
  end.

(* ------------------------------------------------------------------ *)
(* state                                                                *)

Record job := mkJob {
  j_id : N; j_src : N; j_size : N; j_pstart : N; j_psize : N;
  j_consumed : N; j_csize : N; j_err : bool;
  j_dst : bool;                 (* dstBuff.start != NULL *)
  j_first : bool; j_last : bool; j_ckneed : bool; j_flushed : N;
  j_done : bool;                (* jobCompleted: set by the worker in its last critical section (fix F31) *)
  j_abs : N; j_lap : N }.       (* ghost *)
Definition job0 := mkJob 0 0 0 0 0 0 0 false false false false false 0 false 0 0.

Record mtc := mkMt {
  done : N; next : N; ready : bool; ended : bool; alldone : bool;
  rpos : N; rcap : N; ihas : bool; istart : N; ifill : N; pstart : N; psize : N;
  target : N; ptarget : N; cksum : bool; ldm : bool; rsync : bool; hits : list N; wsize : N;
  lap : N; iabs : N; fr : N }.  (* ghost: current lap, stream offset of the input buffer, frame number *)

Record ser := mkSer {
  s_next : N;
  s_log : list (N * N * N);     (* ghost: (job id, stream offset, size) of every executed serial section, in order *)
  s_skip : bool;                (* ghost: ensureFinished had to skip (some job failed) *)
  s_w : win; s_lw : win }.      (* ldmState.window ; ldmWindow (copy protected by ldmWindowMutex) *)

Record pools := mkPl {
  q : option nat;               (* POOL queue (queueSize = 1): slot of the queued job *)
  busy : nat;                   (* numThreadsBusy *)
  bp_nb : N; bp_tot : N;        (* bufPool->nbBuffers / totalBuffers *)
  cp_av : N; cp_tot : N;        (* cctxPool->availCCtx / totalCCtx *)
  sp_nb : N; sp_tot : N; sp_on : bool }.   (* seqPool; sp_on: bufferSize != 0 *)

Inductive res := RErr | ROk (v : N).

Inductive cpc :=
  | CInUse (j : N)              (* ZSTDMT_getInputDataInUse: at lock(jobs[j & mask].job_mutex) *)
  | CLdm1 | CLdm1Z              (* ZSTDMT_waitForLdmComplete before the prefix move: at lock / asleep *)
  | CLdm2 | CLdm2Z              (* ... before handing out the buffer *)
  | CGetBuf                     (* ZSTDMT_writeLastEmptyBlock -> ZSTDMT_getBuffer: at lock(bufPool) *)
  | CTryAdd                     (* POOL_tryAdd: at lock(queueMutex) *)
  | CFlush | CFlushZ            (* ZSTDMT_flushProduced: at lock(job_mutex) / asleep on job_cond *)
  | CRelBuf                     (* ... ZSTDMT_releaseBuffer of a completed job *)
  | CWait (i : bool) | CWaitZ (i : bool)   (* ZSTDMT_waitForAllJobsCompleted (i: called from init, else from the error path) *)
  | CRelAll (i : bool) (k : nat)           (* ZSTDMT_releaseAllJobResources: at lock(bufPool) for slot k *)
  | CInitBuf | CInitSeq         (* ZSTDMT_setBufferSize / ZSTDMT_setNbSeq (every frame since fix 97c340a) inside ZSTDMT_initCStream_internal *)
  | CDone.

Record cloc := mkCl {
  c_pc : cpc; c_ops : list cop;
  c_e : endop; c_e2 : endop; c_fwd : bool;
  c_in : N; c_out : N; c_in0 : N; c_out0 : N;
  c_use : N * N;                (* inUse range (size 0 = kNullRange) *)
  c_fp : fparams;               (* parameters of the ZSTDMT_initCStream_internal call in progress *)
  c_res : list res }.           (* ghost: result of every completed call *)

Inductive wpc :=
  | WIdle | WAsleep             (* POOL_thread: at lock(queueMutex) / asleep on queuePopCond *)
  | WGetCCtx | WGetSeq | WGetBuf
  | WSetDst                     (* job->dstBuff = the buffer: at lock(job_mutex) (ZSTDMT_sizeof_CCtx may read it concurrently) *)
  | WJobErr                     (* JOB_ERROR: at lock(job_mutex) *)
  | WSerial | WSerialZ          (* ZSTDMT_serialState_update: at lock(serial.mutex) / asleep on serial.cond *)
  | WChunk (k : N)              (* after compressing chunk k: at lock(job_mutex) *)
  | WEnsure                     (* ZSTDMT_serialState_ensureFinished *)
  | WRelSeq | WRelCCtx
  | WReport                     (* final report: at lock(job_mutex) *)
  | WFinish.                    (* POOL_thread after the job: at lock(queueMutex) *)

Record wloc := mkW { w_pc : wpc; w_slot : nat; w_cctx : bool; w_seq : bool; w_lastc : N }.
Definition w0 := mkW WIdle 0 false false 0.

Record ghost := mkG {
  g_out : list (N * N * N * N); (* flush log: (frame, job id, offset in the job's output, length) of every copy into the caller's buffer *)
  g_fin : list (N * N * N);     (* (frame, job id, total compressed size) of every fully flushed job, in order *)
  g_ck : list (N * list (N * N * N)) }.   (* checksum appended: (job id, serial log at that time) *)

Record state := mkS { mt : mtc; jobs : list job; sr : ser; pl : pools; cl : cloc; ws : list wloc; gh : ghost }.

(* ------------------------------------------------------------------ *)
(* field updates                                                        *)

Fixpoint upd {A} (i : nat) (x : A) (l : list A) : list A :=
  match l, i with
  | [], _ => []
  | _ :: r, O => x :: r
  | a :: r, S i' => a :: upd i' x r
  end.

Definition getj (s : state) (k : nat) : job := nth k (jobs s) job0.

Definition set_mt m s := mkS m (jobs s) (sr s) (pl s) (cl s) (ws s) (gh s).
Definition set_jobs j s := mkS (mt s) j (sr s) (pl s) (cl s) (ws s) (gh s).
Definition set_sr x s := mkS (mt s) (jobs s) x (pl s) (cl s) (ws s) (gh s).
Definition set_pl x s := mkS (mt s) (jobs s) (sr s) x (cl s) (ws s) (gh s).
Definition set_cl x s := mkS (mt s) (jobs s) (sr s) (pl s) x (ws s) (gh s).
Definition set_ws x s := mkS (mt s) (jobs s) (sr s) (pl s) (cl s) x (gh s).
Definition set_gh x s := mkS (mt s) (jobs s) (sr s) (pl s) (cl s) (ws s) x.
Definition set_job k j s := set_jobs (upd k j (jobs s)) s.

Definition cl_pc p c := mkCl p (c_ops c) (c_e c) (c_e2 c) (c_fwd c) (c_in c) (c_out c) (c_in0 c) (c_out0 c) (c_use c) (c_fp c) (c_res c).
Definition set_cpc p s := set_cl (cl_pc p (cl s)) s.
Definition cl_use u c := mkCl (c_pc c) (c_ops c) (c_e c) (c_e2 c) (c_fwd c) (c_in c) (c_out c) (c_in0 c) (c_out0 c) u (c_fp c) (c_res c).
Definition cl_io e2 fwd i o c := mkCl (c_pc c) (c_ops c) (c_e c) e2 fwd i o (c_in0 c) (c_out0 c) (c_use c) (c_fp c) (c_res c).

Definition w_set_pc p w := mkW p (w_slot w) (w_cctx w) (w_seq w) (w_lastc w).
Definition set_w (t : nat) w s := set_ws (upd t w (ws s)) s.

Definition j_upd_work (consumed csize : N) (err : bool) j :=
  mkJob (j_id j) (j_src j) (j_size j) (j_pstart j) (j_psize j) consumed csize err (j_dst j)
        (j_first j) (j_last j) (j_ckneed j) (j_flushed j) (j_done j) (j_abs j) (j_lap j).
Definition j_set_done j :=
  mkJob (j_id j) (j_src j) (j_size j) (j_pstart j) (j_psize j) (j_consumed j) (j_csize j) (j_err j) (j_dst j)
        (j_first j) (j_last j) (j_ckneed j) (j_flushed j) true (j_abs j) (j_lap j).
Definition j_set_dst d j :=
  mkJob (j_id j) (j_src j) (j_size j) (j_pstart j) (j_psize j) (j_consumed j) (j_csize j) (j_err j) d
        (j_first j) (j_last j) (j_ckneed j) (j_flushed j) (j_done j) (j_abs j) (j_lap j).
Definition j_upd_flush (csize : N) (ck : bool) (fl : N) j :=
  mkJob (j_id j) (j_src j) (j_size j) (j_pstart j) (j_psize j) (j_consumed j) csize (j_err j) (j_dst j)
        (j_first j) (j_last j) ck fl (j_done j) (j_abs j) (j_lap j).

(* mtctx fields *)
Definition mt_ring d n r e a m :=
  mkMt d n r e a (rpos m) (rcap m) (ihas m) (istart m) (ifill m) (pstart m) (psize m)
       (target m) (ptarget m) (cksum m) (ldm m) (rsync m) (hits m) (wsize m) (lap m) (iabs m) (fr m).
Definition mt_buf rp ih is_ ifl ps pz lp ia m :=
  mkMt (done m) (next m) (ready m) (ended m) (alldone m) rp (rcap m) ih is_ ifl ps pz
       (target m) (ptarget m) (cksum m) (ldm m) (rsync m) (hits m) (wsize m) lp ia (fr m).
Definition mt_cksum c m :=
  mkMt (done m) (next m) (ready m) (ended m) (alldone m) (rpos m) (rcap m) (ihas m) (istart m) (ifill m) (pstart m) (psize m)
       (target m) (ptarget m) c (ldm m) (rsync m) (hits m) (wsize m) (lap m) (iabs m) (fr m).

(* ------------------------------------------------------------------ *)
(* ranges, LDM window                                                   *)

(* ZSTDMT_isOverlapped (NULL start only occurs with size 0) *)
Definition overlap (a : N * N) (b : N * N) : bool :=
  if (snd a =? 0) || (snd b =? 0) then false
  else (fst a <? fst b + snd b) && (fst b <? fst a + snd a).

(* ZSTDMT_doesOverlapWindow *)
Definition overlap_win (b : N * N) (w : win) : bool :=
  let '(el, eh, plo, ph) := w in overlap b (el, eh - el) || overlap b (plo, ph - plo).

(* ZSTD_window_update on addresses (HASH_READ_SIZE = 8) *)
Definition win_update (w : win) (src size : N) : win :=
  if size =? 0 then w else
  let '(el, eh, plo, ph) := w in
  let '(el1, eh1, pl1) :=
    if src =? ph then (el, eh, plo)
    else if ph - plo <? 8 then (ph, ph, src) else (plo, ph, src) in
  let ph1 := src + size in
  let el2 := if (el1 <? src + size) && (src <? eh1) then N.min (src + size) eh1 else el1 in
  (el2, eh1, pl1, ph1).

(* ZSTD_window_enforceMaxDist as ZSTD_ldm_generateSequences applies it (before every chunk, with the chunk's end): when the serial
   section of a job is over, the window holds the last maxDist = 1 << windowLog bytes it has seen: the oldest ones are dropped first
   (lowLimit = end - maxDist; dictLimit follows when it falls behind). *)
Definition win_size (w : win) : N := let '(el, eh, plo, ph) := w in (eh - el) + (ph - plo).
Definition win_cap (maxd : N) (w : win) : win :=
  let '(el, eh, plo, ph) := w in
  let tot := (eh - el) + (ph - plo) in
  if tot <=? maxd then w
  else let cut := tot - maxd in
       if cut <=? eh - el then (el + cut, eh, plo, ph) else (eh, eh, plo + (cut - (eh - el)), ph).

(* ZSTD_window_clear: lowLimit = dictLimit = end: both parts become empty, nextSrc stays.  ZSTDMT_serialState_ensureFinished applies it
   to the published copy ldmWindow AND (fix of finding C11-ldm-wait-after-worker-error) to ldmState.window: a skipped job breaks the LDM
   history; without the second clear the next job republishes a window that still covers the data before the gap, which no thread
   ever releases (see MtLdmBug.v for the deadlock of the unrepaired protocol). *)
Definition win_clear (w : win) : win := let '(el, eh, plo, ph) := w in (eh, eh, ph, ph).

(* ------------------------------------------------------------------ *)
(* condition variables                                                  *)

Definition wake_caller_job (cfg : config) (k : nat) (s : state) : state :=
  match c_pc (cl s) with
  | CFlushZ => if Nat.eqb (slot cfg (done (mt s))) k then set_cpc CFlush s else s
  | CWaitZ i => if Nat.eqb (slot cfg (done (mt s))) k then set_cpc (CWait i) s else s
  | _ => s
  end.
Definition wake_caller_ldm (s : state) : state :=
  match c_pc (cl s) with
  | CLdm1Z => set_cpc CLdm1 s
  | CLdm2Z => set_cpc CLdm2 s
  | _ => s
  end.
Definition wake_serial (l : list wloc) : list wloc :=
  map (fun w => match w_pc w with WSerialZ => w_set_pc WSerial w | _ => w end) l.

Fixpoint indices_from {A} (f : A -> bool) (i : nat) (l : list A) : list nat :=
  match l with [] => [] | a :: r => if f a then i :: indices_from f (S i) r else indices_from f (S i) r end.
Definition pop_sleepers (l : list wloc) := indices_from (fun w => match w_pc w with WAsleep => true | _ => false end) 0%nat l.
(* pthread_cond_signal(queuePopCond): wakes ONE sleeping pool thread, chosen by the scheduler *)
Definition signal_pop (w : nat) (l : list wloc) : list wloc :=
  match pop_sleepers l with
  | [] => l
  | i0 :: r => let i := nth (w mod length (i0 :: r)) (i0 :: r) i0 in upd i (w_set_pc WIdle (nth i l w0)) l
  end.

(* ------------------------------------------------------------------ *)
(* caller: unsynchronised code between critical sections                *)

Definition jslot cfg s id := getj s (slot cfg id).

(* -- ZSTDMT_flushProduced from its lock onwards is in [step]; here: its return value once the job part is over *)
Definition flush_tail (s : state) (e2 : endop) : state * N :=
  let m := mt s in
  if done m <? next m then (s, 1)
  else if ready m then (s, 1)
  else if 0 <? ifill m then (s, 1)
  else let s1 := set_mt (mt_ring (done m) (next m) (ready m) (ended m) (ended m) m) s in
       (s1, match e2 with EEnd => if ended m then 0 else 1 | _ => 0 end).

(* -- ZSTDMT_createCompressionJob up to its first lock (or to its return when the table is full) *)
Definition prepare_job (cfg : config) (s : state) (srcSize : N) (e2 : endop) : state :=
  let m := mt s in
  let k := slot cfg (next m) in
  let endf := match e2 with EEnd => true | _ => false end in
  let j := mkJob (next m) (istart m) srcSize (pstart m) (psize m) 0 0 false false
                 (next m =? 0) endf (cksum m && endf && (0 <? next m)) 0 false (iabs m) (lap m) in
  let npz := if endf then 0 else N.min srcSize (ptarget m) in
  let nps := if endf then 0 else istart m + srcSize - npz in
  let m1 := mt_buf (rpos m + srcSize) false 0 0 nps npz (lap m) (iabs m + srcSize) m in
  let m2 := if endf then mt_ring (done m1) (next m1) (ready m1) true (alldone m1) m1 else m1 in
  let m3 := if endf && (next m =? 0) then mt_cksum false m2 else m2 in
  set_mt m3 (set_job k j s).

Definition create_job (cfg : config) (s : state) (e2 : endop) : state :=
  let m := mt s in
  if done m + mask cfg <? next m then set_cpc CFlush s
  else if ready m then set_cpc CTryAdd s
  else let srcSize := ifill m in
       let s1 := prepare_job cfg s srcSize e2 in
       if (srcSize =? 0) && (0 <? next m)
       then let k := slot cfg (next m) in set_cpc CGetBuf (set_job k (j_set_done (getj s1 k)) s1)   (* ZSTDMT_writeLastEmptyBlock: no worker involved *)
       else set_cpc CTryAdd s1.

Definition create_phase (cfg : config) (s : state) : state :=
  let m := mt s in let c := cl s in
  let e2 := match c_e2 c with EEnd => if 0 <? c_in c then EFlush else EEnd | e => e end in
  let s := set_cl (cl_io e2 (c_fwd c) (c_in c) (c_out c) c) s in
  let nc := match e2 with EContinue => false | _ => true end in
  let ise := match e2 with EEnd => true | _ => false end in
  if ready m || (target m <=? ifill m) || (nc && (0 <? ifill m)) || (ise && negb (ended m))
  then create_job cfg s e2 else set_cpc CFlush s.

(* findSynchronizationPoint: (toLoad, flush) *)
Definition first_hit (l : list N) (lo hi : N) : option N := find (fun h => (lo <? h) && (h <=? hi)) l.
Definition sync_point (cfg : config) (m : mtc) (avail : N) : N * bool :=
  let toLoad := N.min avail (target m - ifill m) in
  if negb (rsync m) then (toLoad, false)
  else if ifill m + avail <? c_minblk cfg then (toLoad, false)
  else if ifill m + toLoad <? rsync_len then (toLoad, false)
  else
    let abs0 := iabs m + ifill m in
    if ifill m <? c_minblk cfg then
      let pos := c_minblk cfg - ifill m in
      match first_hit (hits m) (abs0 + pos) (abs0 + toLoad) with
      | Some h => (h - abs0, true) | None => (toLoad, false) end
    else if existsb (N.eqb abs0) (hits m) then (0, true)
    else match first_hit (hits m) abs0 (abs0 + toLoad) with
         | Some h => (h - abs0, true) | None => (toLoad, false) end.

(* the copy into the input buffer, then the job-creation test *)
Definition fill_phase (cfg : config) (s : state) : state :=
  let m := mt s in let c := cl s in
  if ihas m then
    let '(toLoad, fl) := sync_point cfg m (c_in c) in
    let e2 := match c_e2 c with EContinue => if fl then EFlush else EContinue | e => e end in
    let m1 := mt_buf (rpos m) true (istart m) (ifill m + toLoad) (pstart m) (psize m) (lap m) (iabs m) m in
    create_phase cfg (set_mt m1 (set_cl (cl_io e2 (0 <? toLoad) (c_in c - toLoad) (c_out c) c) s))
  else create_phase cfg s.

(* ZSTDMT_tryGetInputRange after ZSTDMT_getInputDataInUse *)
Definition hand_out (cfg : config) (s : state) : state :=
  let m := mt s in
  fill_phase cfg (set_mt (mt_buf (rpos m) true (rpos m) 0 (pstart m) (psize m) (lap m) (iabs m) m) s).
Definition after_wrap (cfg : config) (s : state) : state :=
  let m := mt s in
  if overlap (rpos m, target m) (c_use (cl s)) then fill_phase cfg s
  else if ldm m then set_cpc CLdm2 s else hand_out cfg s.
Definition move_prefix (cfg : config) (s : state) : state :=
  let m := mt s in
  after_wrap cfg (set_mt (mt_buf (psize m) (ihas m) (istart m) (ifill m) 0 (psize m) (lap m + 1) (iabs m) m) s).
Definition after_inuse (cfg : config) (s : state) (use : N * N) : state :=
  let s := set_cl (cl_use use (cl s)) s in
  let m := mt s in
  if rcap m - rpos m <? target m then
    if overlap (0, psize m) use then fill_phase cfg s
    else if ldm m then set_cpc CLdm1 s else move_prefix cfg s
  else after_wrap cfg s.
Definition scan_inuse (cfg : config) (s : state) (j : N) : state :=
  if j <? next (mt s) then set_cpc (CInUse j) s else after_inuse cfg s (0, 0).

(* ZSTDMT_compressStream_generic from the input-filling test to the first lock *)
Definition gen_body (cfg : config) (s : state) : state :=
  let m := mt s in
  if negb (ready m) && (0 <? c_in (cl s)) then
    if negb (ihas m) then scan_inuse cfg s (done m) else fill_phase cfg s
  else create_phase cfg s.

Definition is_continue e := match e with EContinue => true | _ => false end.

Definition record_res (r : res) (s : state) : state :=
  let c := cl s in
  set_cl (mkCl (c_pc c) (c_ops c) (c_e c) (c_e2 c) (c_fwd c) (c_in c) (c_out c) (c_in0 c) (c_out0 c) (c_use c) (c_fp c) (c_res c ++ [r])) s.

(* -- ZSTDMT_waitForAllJobsCompleted / ZSTDMT_releaseAllJobResources -- *)
Definition zero_slot (k : nat) (s : state) : state := set_job k job0 s.

(* parameters of the new frame are installed; next: ZSTDMT_setBufferSize *)
Definition init_params (s : state) : state :=
  let m := mt s in let fp := c_fp (cl s) in
  set_cpc CInitBuf
    (set_mt (mkMt (done m) (next m) (ready m) (ended m) (alldone m) (rpos m) (rcap m) (ihas m) (istart m) (ifill m) (pstart m) (psize m)
                  (fp_target fp) (fp_prefix fp) (fp_cksum fp) (fp_ldm fp) (fp_rsync fp) (fp_hits fp) (fp_wsize fp) (lap m) (iabs m) (fr m)) s).

Definition rel_clear (s : state) : state :=
  let m := mt s in
  set_mt (mt_ring (done m) (next m) (ready m) (ended m) true (mt_buf (rpos m) false 0 0 (pstart m) (psize m) (lap m) (iabs m) m)) s.

(* ZSTDMT_releaseAllJobResources from slot k on: stops at the first slot whose buffer must be given back (lock of bufPool);
   [kd] = what follows the function *)
Fixpoint rel_scan_k (i : bool) (kd : state -> state) (s : state) (k fuel : nat) : state :=
  match fuel with
  | O => kd (rel_clear s)
  | S f => if Nat.ltb k (length (jobs s)) then
             if j_dst (getj s k) then set_cpc (CRelAll i k) s
             else rel_scan_k i kd (zero_slot k s) (S k) f
           else kd (rel_clear s)
  end.

(* start the remaining calls of the caller's program: runs to the first lock of the first call that has one *)
Definition stop_ops (s : state) : state :=
  let c := cl s in set_cl (mkCl CDone [] (c_e c) (c_e2 c) (c_fwd c) (c_in c) (c_out c) (c_in0 c) (c_out0 c) (c_use c) (c_fp c) (c_res c)) s.

Fixpoint start_ops (cfg : config) (s : state) (ops : list cop) : state :=
  match ops with
  | [] => stop_ops s
  | OpCS e i o :: r =>
      let c := cl s in
      let s1 := set_cl (mkCl (c_pc c) r e e false i o i o (c_use c) (c_fp c) (c_res c)) s in
      if alldone (mt s) && negb (ended (mt s)) then stop_ops s    (* no open frame: ZSTD_compressStream2 always initialises first; not an API behaviour *)
      else if ended (mt s) && (0 <? i) && negb (is_continue e) then stop_ops s   (* new input after ZSTD_e_end closed the frame: API contract broken *)
      else if ended (mt s) && is_continue e then    (* stage_wrong: the session is reset, the next call must re-initialise *)
        match r with
        | OpCS _ _ _ :: _ => stop_ops (record_res RErr s1)
        | _ => start_ops cfg (record_res RErr s1) r
        end
      else gen_body cfg s1
  | OpInit fp :: r =>
      let c := cl s in
      let s1 := set_cl (mkCl (c_pc c) r (c_e c) (c_e2 c) (c_fwd c) (c_in c) (c_out c) (c_in0 c) (c_out0 c) (c_use c) fp (c_res c)) s in
      if alldone (mt s) then init_params s1
      else if done (mt s) <? next (mt s) then set_cpc (CWait true) s1
      else rel_scan_k true init_params s1 0 (length (jobs s1))
  end.

(* ZSTD_compressStream2 resets the session when ZSTDMT_compressStream_generic fails, so the next call of a real program
   re-initialises; a program that does not is cut short (it is not a behaviour of the API) *)
Definition ops_after (r : res) (ops : list cop) : list cop :=
  match r, ops with
  | RErr, OpCS _ _ _ :: _ => []
  | _, _ => ops
  end.
Definition finish_op (cfg : config) (s : state) (r : res) : state :=
  start_ops cfg (record_res r s) (ops_after r (c_ops (cl s))).

Definition rel_scan (cfg : config) (i : bool) (s : state) (k fuel : nat) : state :=
  rel_scan_k i (fun s1 => if i then init_params s1 else finish_op cfg s1 RErr) s k fuel.

Definition wait_all (cfg : config) (i : bool) (s : state) : state :=
  if done (mt s) <? next (mt s) then set_cpc (CWait i) s
  else rel_scan cfg i s 0 (length (jobs s)).

(* -- back in ZSTD_compressStream2: the for(;;) around ZSTDMT_compressStream_generic -- *)
Definition gen_again (cfg : config) (s : state) : state :=
  let c := cl s in
  let s1 := set_cl (mkCl (c_pc c) (c_ops c) (c_e c) (c_e c) false (c_in c) (c_out c) (c_in c) (c_out c) (c_use c) (c_fp c) (c_res c)) s in
  if ended (mt s) && is_continue (c_e c) then finish_op cfg s1 RErr else gen_body cfg s1.

Definition gen_return (cfg : config) (s : state) (v : N) : state :=
  let c := cl s in
  let v' := if 0 <? c_in c then N.max v 1 else v in
  if is_continue (c_e c) then
    if negb (c_in c =? c_in0 c) || negb (c_out c =? c_out0 c) || (c_in c =? 0) || (c_out c =? 0)
    then finish_op cfg s (ROk v') else gen_again cfg s
  else if (v' =? 0) || (c_out c =? 0) then finish_op cfg s (ROk v') else gen_again cfg s.

Definition flush_return (cfg : config) (s : state) : state :=
  let '(s1, v) := flush_tail s (c_e2 (cl s)) in gen_return cfg s1 v.

(* the job at doneJobID is completed and fully flushed: free its position *)
Definition complete_job (cfg : config) (s : state) : state :=
  let m := mt s in let k := slot cfg (done m) in let j := getj s k in
  let g := gh s in
  let s1 := set_job k (j_set_dst false (j_upd_flush 0 (j_ckneed j) (j_flushed j) j)) s in
  let s2 := set_gh (mkG (g_out g) (g_fin g ++ [(fr m, j_id j, j_csize j)]) (g_ck g)) s1 in
  flush_return cfg (set_mt (mt_ring (done m + 1) (next m) (ready m) (ended m) (alldone m) m) s2).

(* ZSTDMT_flushProduced after the wait loop *)
Definition flush_body (cfg : config) (s : state) : state :=
  let m := mt s in let k := slot cfg (done m) in let j := getj s k in
  if j_err j then wait_all cfg false s
  else
    let fin := j_consumed j =? j_size j in
    let ck := fin && j_ckneed j in
    let cs := if ck then j_csize j + 4 else j_csize j in
    let g := gh s in
    let g1 := if ck then mkG (g_out g) (g_fin g) (g_ck g ++ [(j_id j, s_log (sr s))]) else g in
    if 0 <? cs then
      let c := cl s in
      let tf := N.min (cs - j_flushed j) (c_out c) in
      let g2 := if 0 <? tf then mkG (g_out g1 ++ [(fr m, j_id j, j_flushed j, tf)]) (g_fin g1) (g_ck g1) else g1 in
      let fl := j_flushed j + tf in
      let j1 := j_upd_flush cs (if ck then false else j_ckneed j) fl j in
      let s1 := set_gh g2 (set_cl (cl_io (c_e2 c) (c_fwd c) (c_in c) (c_out c - tf) c) (set_job k j1 s)) in
      if fin && (fl =? cs) then
        if j_dst j then set_cpc CRelBuf s1 else complete_job cfg s1
      else if fl <? cs then gen_return cfg s1 (cs - fl)
      else if j_consumed j <? j_size j then gen_return cfg s1 1
      else flush_return cfg s1
    else
      let s1 := set_gh g1 (set_job k (j_upd_flush cs (if ck then false else j_ckneed j) (j_flushed j) j) s) in
      if j_flushed j <? cs then gen_return cfg s1 (cs - j_flushed j)
      else if j_consumed j <? j_size j then gen_return cfg s1 1
      else flush_return cfg s1.

(* ------------------------------------------------------------------ *)
(* worker: unsynchronised code between critical sections                *)

Definition nb_chunks (cfg : config) (size : N) : N := (size + (c_chunk cfg - 1)) / c_chunk cfg.
Definition err_is (p : payload) (e : errstage) : bool :=
  match p_err p, e with
  | Some ErrCCtx, ErrCCtx | Some ErrSeq, ErrSeq | Some ErrBuf, ErrBuf | Some ErrInit, ErrInit
  | Some ErrHdr, ErrHdr | Some ErrLast, ErrLast => true
  | Some (ErrChunk a), ErrChunk b => a =? b
  | _, _ => false
  end.

Definition job_pay (cfg : config) (s : state) (j : job) : payload := lookup_pay (c_pays cfg) (fr (mt s)) (j_id j).

(* the "last block" part of ZSTDMT_compressionJob, then _endJob *)
Definition last_block (cfg : config) (w : wloc) (j : job) (p : payload) : wloc :=
  if (0 <? nb_chunks cfg (j_size j)) || j_last j then
    if err_is p ErrLast then w_set_pc WJobErr w
    else mkW WEnsure (w_slot w) (w_cctx w) (w_seq w) (p_last p)
  else mkW WEnsure (w_slot w) (w_cctx w) (w_seq w) 0.

(* compress chunk k (k >= 1), or go to the last block *)
Definition next_chunk (cfg : config) (w : wloc) (j : job) (p : payload) (k : N) : wloc :=
  if k <? nb_chunks cfg (j_size j) then
    if err_is p (ErrChunk k) then w_set_pc WJobErr w else w_set_pc (WChunk k) w
  else last_block cfg w j p.

Definition after_serial (cfg : config) (w : wloc) (j : job) (p : payload) : wloc :=
  if negb (j_first j) && err_is p ErrHdr then w_set_pc WJobErr w else next_chunk cfg w j p 1.

Definition after_ensure (w : wloc) : wloc :=
  if w_seq w then w_set_pc WRelSeq w else if w_cctx w then w_set_pc WRelCCtx w else w_set_pc WReport w.

Definition after_getseq (w : wloc) : wloc :=
  if w_cctx w then w_set_pc WGetBuf w else w_set_pc WJobErr w.

(* ------------------------------------------------------------------ *)
(* the step function                                                    *)

Definition pl_q x p := mkPl x (busy p) (bp_nb p) (bp_tot p) (cp_av p) (cp_tot p) (sp_nb p) (sp_tot p) (sp_on p).
Definition pl_busy x p := mkPl (q p) x (bp_nb p) (bp_tot p) (cp_av p) (cp_tot p) (sp_nb p) (sp_tot p) (sp_on p).
Definition pl_bp x p := mkPl (q p) (busy p) x (bp_tot p) (cp_av p) (cp_tot p) (sp_nb p) (sp_tot p) (sp_on p).
Definition pl_cp x p := mkPl (q p) (busy p) (bp_nb p) (bp_tot p) x (cp_tot p) (sp_nb p) (sp_tot p) (sp_on p).
Definition pl_sp x on p := mkPl (q p) (busy p) (bp_nb p) (bp_tot p) (cp_av p) (cp_tot p) x (sp_tot p) on.
Definition take (n : N) : N := if 0 <? n then n - 1 else 0.
Definition give (n tot : N) : N := if n <? tot then n + 1 else n.

Definition need_cap (cfg : config) (m : mtc) : N :=
  N.max (wsize m) (target m * N.max (N.of_nat (c_nbw cfg)) 1) + target m * (2 + (if 0 <? ptarget m then 1 else 0)).

Definition caller_step (cfg : config) (w : nat) (s : state) : option state :=
  let m := mt s in let c := cl s in let p := pl s in
  match c_pc c with
  | CInUse j =>
      let jb := jslot cfg s j in
      if j_consumed jb <? j_size jb then
        Some (after_inuse cfg s (if j_psize jb =? 0 then (j_src jb, j_size jb) else (j_pstart jb, j_psize jb)))
      else Some (scan_inuse cfg s (j + 1))
  | CLdm1 => if overlap_win (0, psize m) (s_lw (sr s)) then Some (set_cpc CLdm1Z s) else Some (move_prefix cfg s)
  | CLdm2 => if overlap_win (rpos m, target m) (s_lw (sr s)) then Some (set_cpc CLdm2Z s) else Some (hand_out cfg s)
  | CLdm1Z | CLdm2Z | CFlushZ | CWaitZ _ | CDone => None
  | CGetBuf =>
      let k := slot cfg (next m) in let jb := getj s k in
      (* ZSTDMT_getBuffer allocates when the pool is empty OR when its top buffer has another size (the job size, window or dictionary
         changed between frames): whether the call fails is the oracle's, whatever the pool holds *)
      let ok := negb (err_is (job_pay cfg s jb) ErrBuf) in
      let jb1 := if ok then mkJob (j_id jb) 0 0 (j_pstart jb) (j_psize jb) 0 3 false true (j_first jb) (j_last jb) (j_ckneed jb) 0 (j_done jb) (j_abs jb) (j_lap jb)
                 else j_upd_work (j_consumed jb) (j_csize jb) true jb in
      Some (set_cpc CFlush (set_mt (mt_ring (done m) (next m + 1) (ready m) (ended m) (alldone m) m)
                                   (set_job k jb1 (set_pl (pl_bp (take (bp_nb p)) p) s))))
  | CTryAdd =>
      if Nat.eqb (busy p) (c_nbw cfg) || (match q p with Some _ => true | None => false end) then
        Some (set_cpc CFlush (set_mt (mt_ring (done m) (next m) true (ended m) (alldone m) m) s))
      else
        Some (set_cpc CFlush (set_mt (mt_ring (done m) (next m + 1) false (ended m) (alldone m) m)
                                     (set_ws (signal_pop w (ws s)) (set_pl (pl_q (Some (slot cfg (next m))) p) s))))
  | CFlush =>
      let jb := jslot cfg s (done m) in
      if negb (c_fwd c) && (done m <? next m) && (negb (j_err jb) && (j_flushed jb =? j_csize jb)) && negb (j_consumed jb =? j_size jb)
      then Some (set_cpc CFlushZ s) else Some (flush_body cfg s)
  | CRelBuf => Some (complete_job cfg (set_pl (pl_bp (give (bp_nb p) (bp_tot p)) p) s))
  | CWait i =>
      let jb := jslot cfg s (done m) in
      if negb (j_done jb) then Some (set_cpc (CWaitZ i) s)
      else Some (wait_all cfg i (set_mt (mt_ring (done m + 1) (next m) (ready m) (ended m) (alldone m) m) s))
  | CRelAll i k =>
      Some (rel_scan cfg i (zero_slot k (set_pl (pl_bp (give (bp_nb p) (bp_tot p)) p) s)) (S k) (length (jobs s)))
  | CInitBuf =>
      let need := need_cap cfg m in
      let m1 := mkMt 0 0 false false false 0 (if rcap m <? need then need else rcap m) false 0 0 0 0
                     (target m) (ptarget m) (cksum m) (ldm m) (rsync m) (hits m) (wsize m) 0 0 (fr m + 1) in
      (* ZSTDMT_serialState_reset: a frame with LDM resets serial.nextJobID (and the checksum state) BEFORE ZSTDMT_setNbSeq, a frame
         without LDM after it (the call sits in the else-branch at the top of the function since fix 97c340a) *)
      let s1 := set_sr (if ldm m then mkSer 0 [] false (s_w (sr s)) (s_lw (sr s)) else sr s) (set_mt m1 s) in
      Some (set_cpc CInitSeq s1)
  | CInitSeq =>
      (* ZSTDMT_serialState_reset: ZSTDMT_setNbSeq in BOTH branches since fix 97c340a: a frame without LDM sets the buffer size of the
         sequence pool to 0 (its jobs take no sequence buffer: ZSTDMT_getSeq returns the null store without locking) and leaves the LDM
         windows alone, then resets serial.nextJobID and the checksum state; a frame with LDM sizes the pool and resets both windows *)
      if ldm m then
        let s1 := set_sr (mkSer (s_next (sr s)) (s_log (sr s)) (s_skip (sr s)) win0 win0) (set_pl (pl_sp (sp_nb p) true p) s) in
        Some (finish_op cfg s1 (ROk 0))
      else
        let s1 := set_sr (mkSer 0 [] false (s_w (sr s)) (s_lw (sr s))) (set_pl (pl_sp (sp_nb p) false p) s) in
        Some (finish_op cfg s1 (ROk 0))
  end.

Definition worker_step (cfg : config) (t : nat) (s : state) : option state :=
  match nth_error (ws s) t with
  | None => None
  | Some w =>
    let p := pl s in let k := w_slot w in let jb := getj s k in let py := job_pay cfg s jb in
    match w_pc w with
    | WIdle =>
        match q p with
        | Some sl => if Nat.leb (c_nbw cfg) (busy p) then Some (set_w t (w_set_pc WAsleep w) s)
                     else Some (set_w t (mkW WGetCCtx sl false false 0) (set_pl (pl_busy (S (busy p)) (pl_q None p)) s))
        | None => Some (set_w t (w_set_pc WAsleep w) s)
        end
    | WAsleep | WSerialZ => None
    | WGetCCtx =>
        let got := (0 <? cp_av p) || negb (err_is py ErrCCtx) in
        let w1 := mkW (w_pc w) k got false 0 in
        Some (set_w t (if sp_on p then w_set_pc WGetSeq w1 else after_getseq w1) (set_pl (pl_cp (take (cp_av p)) p) s))
    | WGetSeq =>
        let got := negb (err_is py ErrSeq) in
        Some (set_w t (after_getseq (mkW (w_pc w) k (w_cctx w) got 0)) (set_pl (pl_sp (take (sp_nb p)) (sp_on p) p) s))
    | WGetBuf =>
        let got := negb (err_is py ErrBuf) in
        let s1 := set_pl (pl_bp (take (bp_nb p)) p) s in
        if negb got then Some (set_w t (w_set_pc WJobErr w) s1) else Some (set_w t (w_set_pc WSetDst w) s1)
    | WSetDst =>
        let s2 := set_job k (j_set_dst true jb) s in
        if ldm (mt s) && negb (w_seq w) then Some (set_w t (w_set_pc WJobErr w) s2)
        else if err_is py ErrInit then Some (set_w t (w_set_pc WJobErr w) s2)
        else Some (set_w t (w_set_pc WSerial w) s2)
    | WJobErr => Some (set_w t (w_set_pc WEnsure w) (set_job k (j_upd_work (j_consumed jb) (j_csize jb) true jb) s))
    | WSerial =>
        let r := sr s in
        if s_next r <? j_id jb then Some (set_w t (w_set_pc WSerialZ w) s)
        else if negb (s_next r =? j_id jb) then Some (set_w t (after_serial cfg w jb py) s)
             (* a later job failed and its ZSTDMT_serialState_ensureFinished moved serial.nextJobID past this job: the turn is lost, and it
                does not advance the turn either (fix of finding C11-serial-turn-skipped-after-error: the increment and the broadcast are
                inside the "nextJobID == jobID" block) *)
        else
          let mine := s_next r =? j_id jb in
          let dol := mine && ldm (mt s) in
          let w1 := if dol then win_cap (wsize (mt s)) (win_update (s_w r) (j_src jb) (j_size jb)) else s_w r in
          let r1 := mkSer (s_next r + 1) (if mine then s_log r ++ [(j_id jb, j_abs jb, j_size jb)] else s_log r) (s_skip r)
                          w1 (if dol then w1 else s_lw r) in
          let s1 := set_sr r1 (set_ws (wake_serial (ws s)) s) in
          let s2 := if dol then wake_caller_ldm s1 else s1 in
          Some (set_w t (after_serial cfg w jb py) s2)
    | WChunk c =>
        let jb1 := j_upd_work (c_chunk cfg * c) (j_csize jb + nth (N.to_nat (c - 1)) (p_chunks py) 0) (j_err jb) jb in
        Some (set_w t (next_chunk cfg w jb py (c + 1)) (wake_caller_job cfg k (set_job k jb1 s)))
    | WEnsure =>
        let r := sr s in
        let s1 := if s_next r <=? j_id jb
                  then wake_caller_ldm (set_sr (mkSer (j_id jb + 1) (s_log r) true (win_clear (s_w r)) (win_clear (s_lw r))) (set_ws (wake_serial (ws s)) s))
                  else s in
        Some (set_w t (after_ensure w) s1)
    | WRelSeq =>
        Some (set_w t (if w_cctx w then w_set_pc WRelCCtx w else w_set_pc WReport w) (set_pl (pl_sp (give (sp_nb p) (sp_tot p)) (sp_on p) p) s))
    | WRelCCtx => Some (set_w t (w_set_pc WReport w) (set_pl (pl_cp (give (cp_av p) (cp_tot p)) p) s))
    | WReport =>
        let jb1 := j_set_done (j_upd_work (j_size jb) (if j_err jb then j_csize jb else j_csize jb + w_lastc w) (j_err jb) jb) in
        Some (set_w t (w_set_pc WFinish w) (wake_caller_job cfg k (set_job k jb1 s)))
    | WFinish => Some (set_w t (w_set_pc WIdle w) (set_pl (pl_busy (Nat.pred (busy p)) p) s))
    end
  end.

Definition step (cfg : config) (tid w : nat) (s : state) : option state :=
  match tid with
  | O => caller_step cfg w s
  | S t => worker_step cfg t s
  end.

(* ------------------------------------------------------------------ *)
(* initial state: ZSTDMT_createCCtx_advanced(nbWorkers) has returned, the pool threads stand at the top of
   POOL_thread, the application is about to make its first call                                         *)

Definition init (cfg : config) (ops : list cop) : state :=
  let n := N.of_nat (c_nbw cfg) in
  let s0 := mkS (mkMt 0 0 false false true 0 0 false 0 0 0 0 1 0 false false false [] 0 0 0 0)
                (repeat job0 (N.to_nat (mask cfg) + 1))
                (mkSer 0 [] false win0 win0)
                (mkPl None 0 0 (2 * n + 3) 1 n 0 n false)
                (mkCl CDone [] EContinue EContinue false 0 0 0 0 (0, 0) fp0 [])
                (repeat w0 (c_nbw cfg))
                (mkG [] [] []) in
  start_ops cfg s0 ops.

(* ------------------------------------------------------------------ *)
(* observations                                                         *)

Definition caller_done (s : state) : bool := match c_pc (cl s) with CDone => true | _ => false end.
Definition enabled_list (cfg : config) (s : state) : list nat :=
  filter (fun t => match step cfg t 0 s with Some _ => true | None => false end) (seq 0 (S (length (ws s)))).
Definition stuck (cfg : config) (s : state) : bool :=
  negb (caller_done s) && match enabled_list cfg s with [] => true | _ => false end.
