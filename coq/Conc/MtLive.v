(* C11: deadlock freedom of the zstdmt protocol model without long-distance matching: in every reachable state, under every schedule,
   either the application has finished its call program or some thread can take a step. *)
From Coq Require Import List NArith ZArith Bool Arith Lia.
Import ListNotations.
From ZV.Conc Require Import Sched SchedLemmas MtModel MtProofs MtRing MtRingC MtPool MtFrame MtSleep MtStep.
Local Open Scope N_scope.

(* ------------------------------------------------------------------ *)
(* programs without LDM: the caller never enters ZSTDMT_waitForLdmComplete's critical section *)

Definition noldm_ops (ops : list cop) : Prop :=
  Forall (fun o => match o with OpInit fp => fp_ldm fp = false | _ => True end) ops.
Definition ldmpc (p : cpc) : bool := match p with CLdm1 | CLdm1Z | CLdm2 | CLdm2Z => true | _ => false end.
Definition NL (s : state) : Prop :=
  ldm (mt s) = false /\ fp_ldm (c_fp (cl s)) = false /\ noldm_ops (c_ops (cl s)).
Definition NLP (s : state) : Prop := NL s /\ ldmpc (c_pc (cl s)) = false.

Lemma nl_ext s s' : ldm (mt s') = ldm (mt s) -> c_fp (cl s') = c_fp (cl s) -> c_ops (cl s') = c_ops (cl s) -> NL s -> NL s'.
Proof. intros A B C (X & Y & Z). unfold NL. rewrite A, B, C. auto. Qed.

Ltac nl_same N := eapply nl_ext; [..|exact N]; reflexivity.
Ltac nlp_if := repeat match goal with |- NLP (if ?b then _ else _) => destruct b end.

Lemma nlp_pc s p : NL s -> ldmpc p = false -> NLP (set_cpc p s).
Proof. intros N H. split; [nl_same N|exact H]. Qed.

Lemma nlp_create_job cfg s e : NL s -> NLP (create_job cfg s e).
Proof.
  intros N. unfold create_job. nlp_if; try (apply nlp_pc; auto; fail).
  - apply nlp_pc; auto. eapply nl_ext; [..|exact N]; try reflexivity.
    unfold prepare_job. cbn zeta. destruct e; cbn [andb]; try destruct (next (mt s) =? 0); reflexivity.
  - apply nlp_pc; auto. eapply nl_ext; [..|exact N]; try reflexivity.
    unfold prepare_job. cbn zeta. destruct e; cbn [andb]; try destruct (next (mt s) =? 0); reflexivity.
Qed.
Lemma nlp_create_phase cfg s : NL s -> NLP (create_phase cfg s).
Proof. intros N. unfold create_phase. nlp_if; [apply nlp_create_job; nl_same N|apply nlp_pc; auto; nl_same N]. Qed.
Lemma nlp_fill_phase cfg s : NL s -> NLP (fill_phase cfg s).
Proof.
  intros N. unfold fill_phase. destruct (ihas (mt s)); [|apply nlp_create_phase; auto]. destruct (sync_point _ _ _).
  apply nlp_create_phase. nl_same N.
Qed.
Lemma nlp_hand_out cfg s : NL s -> NLP (hand_out cfg s).
Proof. intros N. apply nlp_fill_phase. nl_same N. Qed.
Lemma nlp_after_wrap cfg s : NL s -> NLP (after_wrap cfg s).
Proof.
  intros N. unfold after_wrap. destruct (overlap _ _); [apply nlp_fill_phase; auto|].
  destruct N as (L & N'). rewrite L. apply nlp_hand_out. split; auto.
Qed.
Lemma nlp_move_prefix cfg s : NL s -> NLP (move_prefix cfg s).
Proof. intros N. apply nlp_after_wrap. nl_same N. Qed.
Lemma nlp_after_inuse cfg s u : NL s -> NLP (after_inuse cfg s u).
Proof.
  intros N. unfold after_inuse. cbn zeta.
  assert (N1 : NL (set_cl (cl_use u (cl s)) s)) by nl_same N.
  destruct (_ <? _); [|apply nlp_after_wrap; auto].
  destruct (overlap _ _); [apply nlp_fill_phase; auto|].
  destruct N as (L & N'). cbn [mt set_cl]. rewrite L. apply nlp_move_prefix; auto.
Qed.
Lemma nlp_scan_inuse cfg s j : NL s -> NLP (scan_inuse cfg s j).
Proof. intros N. unfold scan_inuse. nlp_if; [apply nlp_pc; auto|apply nlp_after_inuse; auto]. Qed.
Lemma nlp_gen_body cfg s : NL s -> NLP (gen_body cfg s).
Proof. intros N. unfold gen_body. nlp_if; first [apply nlp_scan_inuse|apply nlp_fill_phase|apply nlp_create_phase]; auto. Qed.
Lemma nlp_init_params s : NL s -> NLP (init_params s).
Proof. intros (L & F & O). unfold init_params. split; [|reflexivity]. split; [cbn; exact F|split; auto]. Qed.
Lemma nlp_rel_scan_k i kd : (forall s1, NL s1 -> NLP (kd s1)) -> forall f s k, NL s -> NLP (rel_scan_k i kd s k f).
Proof.
  intros H. induction f; intros s k N; cbn [rel_scan_k]; [apply H; nl_same N|].
  nlp_if; first [apply nlp_pc; auto; fail|apply IHf; nl_same N|apply H; nl_same N].
Qed.
Lemma nlp_stop_ops s : NL s -> NLP (stop_ops s).
Proof. intros (L & F & O). split; [|reflexivity]. split; auto. split; auto. constructor. Qed.
Lemma nlp_start_ops cfg ops : forall s, NL s -> noldm_ops ops -> NLP (start_ops cfg s ops).
Proof.
  induction ops as [|o r IH]; intros s N Ho; cbn [start_ops]; [apply nlp_stop_ops; auto|].
  inversion Ho as [|? ? Ho1 Ho2]; subst. destruct N as (L & F & O).
  destruct o as [fp|e i o].
  - set (s1 := set_cl _ s). assert (N1 : NL s1) by (split; [exact L|split; [exact Ho1|exact Ho2]]).
    nlp_if; [apply nlp_init_params; auto|apply nlp_pc; auto|].
    apply nlp_rel_scan_k; auto. intros; apply nlp_init_params; auto.
  - set (s1 := set_cl _ s). assert (N1 : NL s1) by (split; [exact L|split; [exact F|exact Ho2]]).
    assert (N0 : NL s) by (split; auto).
    nlp_if; try (apply nlp_stop_ops; auto; fail); [|apply nlp_gen_body; auto].
    assert (N2 : NL (record_res RErr s1)) by nl_same N1.
    destruct r as [|[fp|e' i' o'] r']; first [apply nlp_stop_ops; auto; fail|apply IH; auto].
Qed.
Lemma nlp_finish_op cfg s r : NL s -> NLP (finish_op cfg s r).
Proof.
  intros N. unfold finish_op. apply nlp_start_ops; [nl_same N|].
  destruct N as (_ & _ & O). unfold ops_after. destruct r; auto. destruct (c_ops (cl s)) as [|[fp|e i o] l]; auto. constructor.
Qed.
Lemma nlp_rel_scan cfg i s k f : NL s -> NLP (rel_scan cfg i s k f).
Proof. intros N. unfold rel_scan. apply nlp_rel_scan_k; auto. intros. destruct i; [apply nlp_init_params|apply nlp_finish_op]; auto. Qed.
Lemma nlp_wait_all cfg i s : NL s -> NLP (wait_all cfg i s).
Proof. intros N. unfold wait_all. nlp_if; [apply nlp_pc; auto|apply nlp_rel_scan; auto]. Qed.
Lemma nlp_gen_again cfg s : NL s -> NLP (gen_again cfg s).
Proof. intros N. unfold gen_again. nlp_if; [apply nlp_finish_op|apply nlp_gen_body]; nl_same N. Qed.
Lemma nlp_gen_return cfg s v : NL s -> NLP (gen_return cfg s v).
Proof. intros N. unfold gen_return. nlp_if; first [apply nlp_finish_op|apply nlp_gen_again]; auto. Qed.
Lemma nlp_flush_return cfg s : NL s -> NLP (flush_return cfg s).
Proof.
  intros N. unfold flush_return, flush_tail.
  repeat match goal with |- NLP (let '(_, _) := (if ?b then _ else _) in _) => destruct b end; apply nlp_gen_return; first [exact N|nl_same N].
Qed.
Lemma nlp_complete_job cfg s : NL s -> NLP (complete_job cfg s).
Proof. intros N. apply nlp_flush_return. nl_same N. Qed.
Lemma nlp_flush_body cfg s : NL s -> NLP (flush_body cfg s).
Proof.
  intros N. unfold flush_body. cbn zeta.
  nlp_if; first [apply nlp_wait_all; auto; fail|apply nlp_pc; [nl_same N|reflexivity]
                |apply nlp_complete_job; nl_same N|apply nlp_gen_return; nl_same N|apply nlp_flush_return; nl_same N].
Qed.

Lemma nlp_caller_step cfg w s s' : NLP s -> caller_step cfg w s = Some s' -> NLP s'.
Proof.
  intros (N & P) H. unfold caller_step in H. cbn zeta in H.
  destruct (c_pc (cl s)) eqn:Epc; try discriminate; try (cbn in P; discriminate).
  all: try (destruct N as (L & F & O); rewrite L in H; assert (N : NL s) by (split; auto)).
  all: try match type of H with (if false then _ else ?b) = ?r => change (b = r) in H end.
  all: repeat match type of H with (if ?b then _ else _) = _ => destruct b end; inv_some H.
  all: try (first [apply nlp_after_inuse|apply nlp_scan_inuse|apply nlp_flush_body|apply nlp_complete_job|apply nlp_wait_all
                  |apply nlp_rel_scan|apply nlp_finish_op]; nl_same N).
  all: try (apply nlp_pc; [nl_same N|reflexivity]).
  all: apply nlp_pc; [|reflexivity]; split; [reflexivity|split; assumption].
Qed.

Lemma nlp_worker_step cfg t s s' : NLP s -> worker_step cfg t s = Some s' -> NLP s'.
Proof.
  intros (N & P) H. destruct (worker_step_aux cfg t s s' H) as (Em & Ep & _ & Ef & Eo).
  split; [unfold NL; rewrite Em, Ef, Eo; exact N|].
  destruct (c_pc (cl s)), (c_pc (cl s')); try discriminate; auto.
Qed.

Lemma nlp_init cfg ops : noldm_ops ops -> NLP (init cfg ops).
Proof. intros Ho. unfold init. apply nlp_start_ops; auto. repeat split. constructor. Qed.

Theorem nlp_reachable cfg ops sched : noldm_ops ops -> NLP (run state (step cfg) sched (init cfg ops)).
Proof.
  intros Ho. apply (run_invariant state (step cfg) NLP).
  - intros s t w s' Hi Hst. destruct t as [|t]; cbn [step] in Hst; [eapply nlp_caller_step|eapply nlp_worker_step]; eauto.
  - apply nlp_init; auto.
Qed.

(* ------------------------------------------------------------------ *)
(* once the last job of a frame has been posted (frameEnded, nothing prepared) the caller's code prepares no further job *)

Definition QS (s : state) : Prop :=
  0 < target (mt s) /\ ended (mt s) = true /\ ready (mt s) = false /\ ifill (mt s) = 0 /\ c_in (cl s) = 0.
Definition QR (s : state) : Prop := ended (mt s) = true /\ ready (mt s) = false.
Definition SL (s : state) : Prop :=
  ended (mt s) = true /\ ready (mt s) = false /\ c_pc (cl s) <> CTryAdd /\ c_pc (cl s) <> CGetBuf.

Ltac sl_if := repeat match goal with |- SL (if ?b then _ else _) => destruct b end.
Lemma qs_qr s : QS s -> QR s. Proof. intros (_ & A & B & _). split; auto. Qed.
Lemma sl_pc s p : QR s -> p <> CTryAdd -> p <> CGetBuf -> SL (set_cpc p s).
Proof. intros (A & B) H1 H2. repeat split; auto. Qed.

Lemma qs_ext s s' : target (mt s') = target (mt s) -> ended (mt s') = ended (mt s) -> ready (mt s') = ready (mt s) ->
  ifill (mt s') = ifill (mt s) -> c_in (cl s') = c_in (cl s) -> QS s -> QS s'.
Proof. intros A B C D E Q. unfold QS in *. rewrite A, B, C, D, E. exact Q. Qed.
Ltac qs Q := first [exact Q | eapply qs_ext; [..|exact Q]; first [reflexivity | symmetry; assumption | assumption]].

Lemma sl_create_phase cfg s : QS s -> SL (create_phase cfg s).
Proof.
  intros (T & E & R & I & C). unfold create_phase. cbn [mt set_cl]. rewrite R, I, E.
  assert (H : target (mt s) <=? 0 = false) by (apply N.leb_gt; lia). rewrite H.
  change (0 <? 0) with false. cbn [orb andb negb]. rewrite !andb_false_r. cbn [orb].
  repeat split; auto; discriminate.
Qed.
Lemma sl_gen_body cfg s : QS s -> SL (gen_body cfg s).
Proof.
  intros Q. pose proof Q as (T & E & R & I & C). unfold gen_body. rewrite C. change (0 <? 0) with false. rewrite andb_false_r.
  apply sl_create_phase; auto.
Qed.
Lemma sl_init_params s : QR s -> SL (init_params s).
Proof. intros (A & B). unfold init_params. repeat split; auto; discriminate. Qed.
Lemma sl_stop_ops s : QR s -> SL (stop_ops s).
Proof. intros (A & B). repeat split; auto; discriminate. Qed.
Lemma sl_rel_scan_k i kd : (forall s1, QR s1 -> SL (kd s1)) -> forall f s k, QR s -> SL (rel_scan_k i kd s k f).
Proof.
  intros H. induction f; intros s k Q; cbn [rel_scan_k]; [apply H; exact Q|].
  sl_if; first [apply sl_pc; auto; discriminate|apply IHf; exact Q|apply H; exact Q].
Qed.
(* a program that starts with an init (or is empty) *)
Lemma sl_start_ops_init cfg ops s : head_cs ops = false -> QR s -> SL (start_ops cfg s ops).
Proof.
  intros Hh Q. destruct ops as [|[fp|e i o] r]; try discriminate; cbn [start_ops]; [apply sl_stop_ops; auto|].
  sl_if; [apply sl_init_params; exact Q|apply sl_pc; auto; discriminate|apply sl_rel_scan_k; auto; intros; apply sl_init_params; auto].
Qed.
Lemma sl_start_ops cfg ops s : 0 < target (mt s) -> ended (mt s) = true -> ready (mt s) = false -> ifill (mt s) = 0 -> SL (start_ops cfg s ops).
Proof.
  intros T E R I. assert (Q : QR s) by (split; auto).
  destruct ops as [|[fp|e i o] r]; [apply sl_start_ops_init; auto..|].
  cbn [start_ops]. rewrite E. cbn [negb]. rewrite andb_false_r. cbn [andb].
  destruct ((0 <? i) && negb (is_continue e)) eqn:E2; [apply sl_stop_ops; auto|].
  destruct (is_continue e) eqn:E3.
  - destruct r as [|[fp|e' i' o'] r']; first [apply sl_stop_ops; exact Q|apply sl_start_ops_init; [reflexivity|exact Q]].
  - rewrite andb_true_r in E2. apply N.ltb_ge in E2. apply sl_gen_body. repeat split; auto. cbn. lia.
Qed.
Lemma sl_finish_ok cfg s v : QS s -> SL (finish_op cfg s (ROk v)).
Proof. intros (T & E & R & I & C). unfold finish_op. apply sl_start_ops; auto. Qed.
Lemma sl_finish_err cfg s : QR s -> SL (finish_op cfg s RErr).
Proof.
  intros Q. unfold finish_op. apply sl_start_ops_init; [|exact Q].
  unfold ops_after. cbn [record_res cl set_cl c_ops]. destruct (c_ops (cl s)) as [|[fp|e i o] l]; reflexivity.
Qed.
Lemma sl_rel_scan cfg i s k f : QR s -> SL (rel_scan cfg i s k f).
Proof. intros Q. unfold rel_scan. apply sl_rel_scan_k; auto. intros. destruct i; [apply sl_init_params|apply sl_finish_err]; auto. Qed.
Lemma sl_wait_all cfg i s : QR s -> SL (wait_all cfg i s).
Proof. intros Q. unfold wait_all. sl_if; [apply sl_pc; auto; discriminate|apply sl_rel_scan; auto]. Qed.
Lemma sl_gen_again cfg s : QS s -> SL (gen_again cfg s).
Proof. intros Q. unfold gen_again. sl_if; [apply sl_finish_err; apply qs_qr in Q; exact Q|apply sl_gen_body; qs Q]. Qed.
Lemma sl_gen_return cfg s v : QS s -> SL (gen_return cfg s v).
Proof. intros Q. unfold gen_return. sl_if; first [apply sl_finish_ok; exact Q|apply sl_gen_again; exact Q]. Qed.
Lemma sl_flush_return cfg s : QS s -> SL (flush_return cfg s).
Proof.
  intros Q. unfold flush_return, flush_tail.
  repeat match goal with |- SL (let '(_, _) := (if ?b then _ else _) in _) => destruct b eqn:? end; apply sl_gen_return; qs Q.
Qed.
Lemma sl_complete_job cfg s : QS s -> SL (complete_job cfg s).
Proof. intros Q. apply sl_flush_return. qs Q. Qed.
Lemma sl_flush_body cfg s : QS s -> SL (flush_body cfg s).
Proof.
  intros Q. pose proof (qs_qr _ Q) as R. unfold flush_body. cbn zeta.
  sl_if; first [apply sl_wait_all; exact R|apply sl_pc; [exact R|discriminate|discriminate]
               |apply sl_complete_job; qs Q|apply sl_gen_return; qs Q|apply sl_flush_return; qs Q].
Qed.

(* ------------------------------------------------------------------ *)
(* what one step of a pool thread does (summary used by the liveness invariant) *)

Definition postens (p : wpc) : bool := match p with WRelSeq | WRelCCtx | WReport => true | _ => false end.

Lemma ws_wake_job c k x : ws (wake_caller_job c k x) = ws x. Proof. apply wake_job_proj. Qed.
Lemma sr_wake_job c k x : sr (wake_caller_job c k x) = sr x. Proof. apply wake_job_proj. Qed.
Lemma jobs_wake_job c k x : jobs (wake_caller_job c k x) = jobs x. Proof. apply wake_job_proj. Qed.
Lemma ws_wake_ldm x : ws (wake_caller_ldm x) = ws x. Proof. apply wake_ldm_proj. Qed.
Lemma sr_wake_ldm x : sr (wake_caller_ldm x) = sr x. Proof. apply wake_ldm_proj. Qed.
Lemma jobs_wake_ldm x : jobs (wake_caller_ldm x) = jobs x. Proof. apply wake_ldm_proj. Qed.
Lemma getj_wake_job c k x k0 : getj (wake_caller_job c k x) k0 = getj x k0. Proof. unfold getj. rewrite jobs_wake_job. reflexivity. Qed.
Lemma getj_wake_ldm x k0 : getj (wake_caller_ldm x) k0 = getj x k0. Proof. unfold getj. rewrite jobs_wake_ldm. reflexivity. Qed.
Lemma getj_set_w t w s k : getj (set_w t w s) k = getj s k. Proof. reflexivity. Qed.
Lemma getj_set_sr x s k : getj (set_sr x s) k = getj s k. Proof. reflexivity. Qed.
Lemma getj_set_ws x s k : getj (set_ws x s) k = getj s k. Proof. reflexivity. Qed.

Definition weff (cfg : config) (s s' : state) (t : nat) (w w' : wloc) : Prop :=
  s_next (sr s) <= s_next (sr s') /\
  ((ws s' = upd t w' (ws s) /\ s_next (sr s') = s_next (sr s)) \/ (ws s' = upd t w' (wake_serial (ws s)) /\ w_pc w' <> WSerialZ)) /\
  j_id (getj s' (w_slot w)) = j_id (getj s (w_slot w)) /\
  (j_done (getj s' (w_slot w)) = j_done (getj s (w_slot w)) \/ w_pc w = WReport) /\
  (w_pc w' = WSerialZ -> w_pc w = WSerial) /\
  (postens (w_pc w') = true ->
   w_slot w' = w_slot w /\ (postens (w_pc w) = true \/ (w_pc w = WEnsure /\ j_id (getj s (w_slot w)) < s_next (sr s')))).

Ltac weff_norm :=
  cbn [ws sr set_w set_ws set_sr set_pl set_job set_jobs s_next];
  rewrite ?ws_wake_job, ?sr_wake_job, ?ws_wake_ldm, ?sr_wake_ldm, ?getj_set_w, ?getj_wake_job, ?getj_wake_ldm, ?getj_set_sr, ?getj_set_ws, ?getj_set_pl;
  cbn [ws sr set_w set_ws set_sr set_pl set_job set_jobs s_next].

Ltac pcgoal :=
  unfold after_getseq, after_ensure, next_chunk, last_block, after_serial;
  repeat match goal with |- context[if ?b then _ else _] => destruct b end;
  first [ solve [intros; cbn in *; auto; congruence]
        | solve [intros; cbn in *; split; [reflexivity|left; match goal with E : w_pc _ = _ |- _ => rewrite E end; reflexivity]]
        | solve [let X := fresh "X" in intros X; exfalso; cbn in X; discriminate X] ].

Ltac weff_plain Hk :=
  eexists; unfold weff; weff_norm; (split; [lia|]); (split; [left; split; reflexivity|]);
  rewrite ?getj_set_job_eq by exact Hk; (split; [cbn; auto|]); (split; [cbn; auto|]); (split; [pcgoal|pcgoal]).

Lemma worker_effect cfg t s s' w :
  KInv cfg s -> worker_step cfg t s = Some s' -> nth_error (ws s) t = Some w -> exists w', weff cfg s s' t w w'.
Proof.
  intros K H Hw. unfold worker_step in H. rewrite Hw in H.
  assert (Hkl : active (w_pc w) = true -> (w_slot w < length (jobs s))%nat).
  { intros A. destruct (k_wrk _ _ K t w Hw A) as (i & _ & E & _). rewrite E, (k_len _ _ K). apply slot_lt. }
  destruct (w_pc w) eqn:Epc; try discriminate.
  - (* WIdle *)
    destruct (q (pl s)); [destruct (Nat.leb _ _)|]; inv_some H; weff_plain Hkl.
  - inv_some H. weff_plain Hkl.
  - inv_some H. weff_plain Hkl.
  - (* WGetBuf *)
    assert (Hk := Hkl eq_refl).
    repeat match type of H with (if ?b then _ else _) = _ => destruct b end; inv_some H; weff_plain Hk.
  - (* WSetDst *)
    assert (Hk := Hkl eq_refl).
    repeat match type of H with (if ?b then _ else _) = _ => destruct b end; inv_some H; weff_plain Hk.
  - (* WJobErr *)
    assert (Hk := Hkl eq_refl). inv_some H. weff_plain Hk.
  - (* WSerial *)
    destruct (_ <? _); [inv_some H; weff_plain Hkl|].
    set (jb := getj s (w_slot w)) in *. set (py := job_pay cfg s jb) in *.
    assert (Hnz : w_pc (after_serial cfg w jb py) <> WSerialZ /\ postens (w_pc (after_serial cfg w jb py)) = false).
    { unfold after_serial. destruct (negb _ && _); [cbn; split; [discriminate|reflexivity]|].
      unfold next_chunk, last_block. repeat match goal with |- context[if ?b then _ else _] => destruct b end; cbn; split; try discriminate; reflexivity. }
    destruct Hnz as (Hz1 & Hz2).
    destruct (negb _); inv_some H.
    { (* the turn was skipped: only the pc moves *)
      exists (after_serial cfg w jb py). unfold weff. weff_norm. split; [lia|]. split; [left; split; reflexivity|].
      split; [reflexivity|]. split; [left; reflexivity|]. split; [intros X; contradiction|intros X; rewrite Hz2 in X; discriminate]. }
    exists (after_serial cfg w jb py). unfold weff.
    destruct (_ && ldm (mt s)); weff_norm; (split; [lia|]); (split; [right; split; [reflexivity|exact Hz1]|]);
      (split; [cbn; auto|]); (split; [cbn; auto|]); (split; [intros X; contradiction|intros X; rewrite Hz2 in X; discriminate]).
  - (* WChunk *)
    assert (Hk := Hkl eq_refl). inv_some H. weff_plain Hk.
  - (* WEnsure *)
    inv_some H.
    assert (Hsl : w_slot (after_ensure w) = w_slot w) by (unfold after_ensure; destruct (w_seq w); [reflexivity|]; destruct (w_cctx w); reflexivity).
    assert (Hnz : w_pc (after_ensure w) <> WSerialZ) by (unfold after_ensure; destruct (w_seq w); [cbn; discriminate|]; destruct (w_cctx w); cbn; discriminate).
    exists (after_ensure w). unfold weff.
    destruct (s_next (sr s) <=? j_id (getj s (w_slot w))) eqn:El; weff_norm.
    + apply N.leb_le in El. split; [lia|]. split; [right; split; [reflexivity|exact Hnz]|].
      split; [cbn; auto|]. split; [cbn; auto|]. split; [intros X; contradiction|]. intros _. split; auto. right. split; auto. lia.
    + apply N.leb_gt in El. split; [lia|]. split; [left; split; reflexivity|].
      split; [cbn; auto|]. split; [cbn; auto|]. split; [intros X; contradiction|]. intros _. split; auto.
  - inv_some H. weff_plain Hkl.
  - inv_some H. weff_plain Hkl.
  - (* WReport *)
    assert (Hk := Hkl eq_refl). inv_some H. weff_plain Hk.
  - inv_some H. weff_plain Hkl.
Qed.

(* ------------------------------------------------------------------ *)
(* the liveness-supporting invariant                                    *)

(* every job of the frame has been posted: frameEnded, nothing prepared *)
Definition sealed (s : state) : Prop :=
  ended (mt s) = true /\ ready (mt s) = false /\ awake (c_pc (cl s)) <> CTryAdd /\ awake (c_pc (cl s)) <> CGetBuf.

Record LInv (cfg : config) (s : state) : Prop := mkLI {
  (* a pool thread past ZSTDMT_serialState_ensureFinished: the serial state is past its job *)
  l_post : forall t w, nth_error (ws s) t = Some w -> postens (w_pc w) = true -> j_id (getj s (w_slot w)) < s_next (sr s);
  (* a job in flight that is complete although the serial state has not passed it is the last empty block written by the caller *)
  l_ser : forall i, inflight s i -> s_next (sr s) <= i -> j_done (getj s (slot cfg i)) = true -> i + 1 = next (mt s) /\ sealed s;
  (* while a pool thread waits for its serial turn, the serial state is not behind the ring *)
  l_slp : forall t w, nth_error (ws s) t = Some w -> w_pc w = WSerialZ -> done (mt s) <= s_next (sr s);
  l_sd : s_next (sr s) < done (mt s) -> done (mt s) = next (mt s) /\ sealed s }.

Lemma wake_serial_nth2 l t w : nth_error (wake_serial l) t = Some w ->
  exists w0, nth_error l t = Some w0 /\ w_slot w = w_slot w0 /\ postens (w_pc w) = postens (w_pc w0) /\ w_pc w <> WSerialZ.
Proof.
  unfold wake_serial. rewrite nth_error_map. destruct (nth_error l t) as [w0|]; [|discriminate]. cbn. intros H; inversion H; subst.
  exists w0. split; auto. destruct (w_pc w0) eqn:E; cbn; rewrite ?E; repeat split; discriminate.
Qed.

Lemma sealed_aux s s' : mt s' = mt s -> awake (c_pc (cl s')) = awake (c_pc (cl s)) -> sealed s -> sealed s'.
Proof. intros A B. unfold sealed. rewrite A, B. auto. Qed.

Lemma linv_worker_step cfg t s s' :
  KInv cfg s -> LInv cfg s -> worker_step cfg t s = Some s' -> LInv cfg s'.
Proof.
  intros K [LP LS LZ LD] H.
  destruct (nth_error (ws s) t) as [w|] eqn:Hw; [|unfold worker_step in H; rewrite Hw in H; discriminate].
  destruct (worker_effect cfg t s s' w K H Hw) as (w' & Hn & Hws & Hid & Hdn & Hz & Hpo).
  destruct (worker_step_aux cfg t s s' H) as (Em & Ep & _).
  pose proof (worker_step_own_job cfg t s s' w H Hw) as Hown.
  assert (Htl : (t < length (ws s))%nat) by (apply nth_error_Some; congruence).
  assert (Hjid : forall k, j_id (getj s' k) = j_id (getj s k)).
  { intros k. destruct (Nat.eq_dec k (w_slot w)) as [->|Hne]; [exact Hid|rewrite Hown; auto]. }
  (* the other pool threads *)
  assert (Hoth : forall t1 w1, nth_error (ws s') t1 = Some w1 -> t1 <> t ->
            exists w0, nth_error (ws s) t1 = Some w0 /\ w_slot w1 = w_slot w0 /\ postens (w_pc w1) = postens (w_pc w0) /\
                       (w_pc w1 = WSerialZ -> w_pc w0 = WSerialZ /\ s_next (sr s') = s_next (sr s))).
  { intros t1 w1 H1 Hne. destruct Hws as [(E & Es)|(E & _)]; rewrite E in H1; rewrite nth_error_upd_neq in H1 by auto.
    - exists w1. repeat split; auto.
    - destruct (wake_serial_nth2 _ _ _ H1) as (w0 & A & B & C & D). exists w0. repeat split; auto; contradiction. }
  assert (Hme : nth_error (ws s') t = Some w').
  { destruct Hws as [(E & _)|(E & _)]; rewrite E; apply nth_error_upd_eq; auto. unfold wake_serial. rewrite map_length. exact Htl. }
  constructor.
  - intros t1 w1 H1 P1. rewrite Hjid. destruct (Nat.eq_dec t1 t) as [->|Hne].
    + rewrite Hme in H1. inversion H1; subst w1. destruct (Hpo P1) as (Es & [Pw|(Pw & Pl)]); rewrite Es.
      * specialize (LP t w Hw Pw). lia.
      * exact Pl.
    + destruct (Hoth t1 w1 H1 Hne) as (w0 & A & B & C & _). rewrite B. rewrite C in P1. specialize (LP t1 w0 A P1). lia.
  - intros i Hi Hsn Hdone. assert (Hi0 : inflight s i) by (unfold inflight in *; rewrite Em in Hi; exact Hi).
    rewrite Em. assert (X : i + 1 = next (mt s) /\ sealed s).
    { apply LS; auto; [lia|]. destruct (Nat.eq_dec (slot cfg i) (w_slot w)) as [E|E]; [|rewrite Hown in Hdone; auto].
      rewrite E in *. destruct Hdn as [Hdn|Hdn]; [congruence|]. exfalso.
      assert (P : postens (w_pc w) = true) by (rewrite Hdn; reflexivity).
      specialize (LP t w Hw P). rewrite <- E in LP. rewrite (k_ids _ _ K i Hi0) in LP. lia. }
    destruct X as (X1 & X2). split; auto. eapply sealed_aux; eauto.
  - intros t1 w1 H1 P1. rewrite Em. destruct (Nat.eq_dec t1 t) as [->|Hne].
    + rewrite Hme in H1. inversion H1; subst w1. specialize (Hz P1).
      destruct Hws as [(_ & Es)|(_ & Z)]; [|contradiction]. rewrite Es.
      destruct (N.lt_ge_cases (s_next (sr s)) (done (mt s))) as [Hlt|Hge]; [|lia]. exfalso.
      destruct (LD Hlt) as (E & _). destruct (k_wrk _ _ K t w Hw) as (i & (A & B) & _); [rewrite Hz; reflexivity|]. lia.
    + destruct (Hoth t1 w1 H1 Hne) as (w0 & A & _ & _ & D). destruct (D P1) as (D1 & D2). rewrite D2. eapply LZ; eauto.
  - rewrite Em. intros X. assert (Y : s_next (sr s) < done (mt s)) by lia. destruct (LD Y) as (A & B). split; auto. eapply sealed_aux; eauto.
Qed.

(* ------------------------------------------------------------------ *)
(* the application thread                                               *)

(* a job that one caller step moves doneJobID past had reported completion *)
Definition SrcOk (cfg : config) (s : state) : Prop :=
  (done (mt s) <= next (mt s) /\ next (mt s) <= done (mt s) + Mr cfg) /\
  (forall i, inflight s i -> j_done (getj s (slot cfg i)) = false -> owned s (slot cfg i)).
Lemma srcok_kinv cfg s : KInv cfg s -> SrcOk cfg s.
Proof. intros K. split; [exact (k_rng _ _ K)|exact (k_own _ _ K)]. Qed.

Lemma passed_done cfg s s' d :
  SrcOk cfg s -> KInv cfg s' -> ws s' = ws s -> q (pl s') = q (pl s) -> next (mt s') = next (mt s) ->
  done (mt s) <= d -> d < done (mt s') -> j_done (getj s (slot cfg d)) = true.
Proof.
  intros ((R1 & R2) & KO) K' Ew Eq En H1 H2. destruct (k_rng _ _ K') as (R1' & R2').
  assert (Hi : inflight s d) by (split; lia).
  destruct (j_done (getj s (slot cfg d))) eqn:X; auto. exfalso.
  destruct (KO d Hi X) as [O|(t & w & H & A & E)].
  - rewrite <- Eq in O. destruct (k_que _ _ K' _ O) as (i' & (A & B) & E & _). revert E. apply slot_neq; lia.
  - rewrite <- Ew in H. destruct (k_wrk _ _ K' t w H A) as (i' & (A1 & B1) & E' & _). rewrite E in E'. revert E'. apply slot_neq; lia.
Qed.

Lemma nz_awake s : NZ s -> awake (c_pc (cl s)) = c_pc (cl s).
Proof. unfold NZ. destruct (c_pc (cl s)); cbn; auto; discriminate. Qed.

Lemma sl_sealed s : NZ s -> SL s -> sealed s.
Proof. intros Z (A & B & C & D). unfold sealed. rewrite nz_awake by auto. auto. Qed.

Lemma linv_gr cfg s s' : SrcOk cfg s -> KInv cfg s' -> LInv cfg s -> GR cfg s s' -> NZ s' -> (sealed s -> SL s') -> LInv cfg s'.
Proof.
  intros K K' [LP LS LZ LD] G Hz Hsl. pose proof G as ((Es & Ew & Ep) & En & Ed & El & J).
  destruct (k_rng _ _ K') as (R1' & R2').
  assert (Hcore : forall i, inflight s' i -> jcore (getj s' (slot cfg i)) = jcore (getj s (slot cfg i)) /\ inflight s i).
  { intros i (A & B). rewrite En in B. destruct J as [J|J]; [rewrite En in J; lia|].
    split; [|split; lia]. destruct (J (slot cfg i)) as [E|(E & E')]; auto. exfalso. revert E. apply slot_neq; lia. }
  assert (Hq : q (pl s') = q (pl s)) by congruence.
  assert (Hpass : done (mt s) < done (mt s') -> j_done (getj s (slot cfg (done (mt s') - 1))) = true /\ inflight s (done (mt s') - 1)).
  { intros X. split; [eapply passed_done; eauto; lia|split; lia]. }
  constructor.
  - intros t w H P. rewrite Ew in H. rewrite Es.
    destruct (k_wrk _ _ K' t w) as (i & Hi & Ek & _); [rewrite Ew; exact H|destruct (w_pc w); try discriminate; reflexivity|].
    destruct (Hcore i Hi) as (E & _). apply jcore_fields in E. destruct E as (E1 & _). rewrite Ek, E1, <- Ek. eapply LP; eauto.
  - intros i Hi Hsn Hd. rewrite Es in Hsn. destruct (Hcore i Hi) as (E & Hi0). apply jcore_fields in E. destruct E as (_ & _ & _ & E4).
    rewrite E4 in Hd. destruct (LS i Hi0 Hsn Hd) as (A & B). split; [congruence|]. apply sl_sealed; auto.
  - intros t w H P. rewrite Ew in H. rewrite Es. pose proof (LZ t w H P) as L0.
    destruct (N.eq_dec (done (mt s')) (done (mt s))) as [E|E]; [lia|].
    destruct Hpass as (Pd & Pi); [lia|].
    destruct (N.lt_ge_cases (done (mt s') - 1) (s_next (sr s))) as [X|X]; [lia|]. exfalso.
    destruct (LS _ Pi X Pd) as (A & _).
    destruct (k_wrk _ _ K' t w) as (i & (A1 & B1) & _); [rewrite Ew; exact H|rewrite P; reflexivity|]. lia.
  - rewrite Es. intros X.
    destruct (N.eq_dec (done (mt s')) (done (mt s))) as [E|E].
    + rewrite E in X. destruct (LD X) as (A & B). split; [congruence|]. apply sl_sealed; auto.
    + destruct Hpass as (Pd & Pi); [lia|].
      assert (Y : s_next (sr s) <= done (mt s') - 1) by lia.
      destruct (LS _ Pi Y Pd) as (A & B). split; [lia|]. apply sl_sealed; auto.
Qed.

Lemma linv_ext cfg s s' :
  mt s' = mt s -> jobs s' = jobs s -> ws s' = ws s -> s_next (sr s') = s_next (sr s) -> awake (c_pc (cl s')) = awake (c_pc (cl s)) ->
  LInv cfg s -> LInv cfg s'.
Proof.
  intros Hm Hj Hw Hs Hc [LP LS LZ LD].
  assert (Hg : forall k, getj s' k = getj s k) by (intros; unfold getj; rewrite Hj; reflexivity).
  assert (Hse : sealed s -> sealed s') by (apply sealed_aux; auto).
  constructor; rewrite ?Hm, ?Hw, ?Hs.
  - intros t w H P. rewrite Hg. eapply LP; eauto.
  - intros i Hi. rewrite Hg. intros A B. unfold inflight in Hi. rewrite Hm in Hi. destruct (LS i Hi A B). auto.
  - exact LZ.
  - intros X. destruct (LD X). auto.
Qed.

Lemma qs_of cfg s : TInv cfg s -> sealed s -> qpc (awake (c_pc (cl s))) = false -> QS s.
Proof.
  intros (_ & (T & _ & _) & A1 & _ & _ & _ & A5) (E & R & _) Hq.
  repeat split; auto. destruct (A1 E) as [?|?]; auto. congruence.
Qed.

(* nextJobID++ *)
Lemma linv_post cfg s s' :
  KInv cfg s -> LInv cfg s -> next (mt s) < done (mt s) + Mr cfg -> ~ sealed s ->
  done (mt s') = done (mt s) -> next (mt s') = next (mt s) + 1 -> sr s' = sr s ->
  (forall k, k <> slot cfg (next (mt s)) -> getj s' k = getj s k) ->
  (j_done (getj s' (slot cfg (next (mt s)))) = true -> sealed s') ->
  (forall t x, nth_error (ws s') t = Some x -> active (w_pc x) = true -> nth_error (ws s) t = Some x) ->
  LInv cfg s'.
Proof.
  intros K [LP LS LZ LD] Hlt Hns Hd Hn Hs Hg Hnew Hw.
  constructor; rewrite ?Hs, ?Hd.
  - intros t x H P. assert (A : active (w_pc x) = true) by (destruct (w_pc x); try discriminate; reflexivity).
    specialize (Hw t x H A). destruct (k_wrk _ _ K t x Hw A) as (i & Hi & Ek & _).
    rewrite Hg by (rewrite Ek; apply inflight_not_next; auto). eapply LP; eauto.
  - intros i (A & B) Hsn Hdn. rewrite Hd in A. rewrite Hn in B.
    destruct (N.eq_dec i (next (mt s))) as [->|Hne]; [split; [lia|auto]|].
    assert (Hi : inflight s i) by (split; lia). rewrite Hg in Hdn by (apply inflight_not_next; auto).
    destruct (LS i Hi Hsn Hdn) as (_ & X). contradiction.
  - intros t x H P. assert (A : active (w_pc x) = true) by (rewrite P; reflexivity). eapply LZ; eauto.
  - intros X. destruct (LD X) as (_ & Y). contradiction.
Qed.

Lemma linv_caller_step cfg w s s' : TInv cfg s -> LInv cfg s -> caller_step cfg w s = Some s' -> LInv cfg s'.
Proof.
  intros TI L H. assert (TI' : TInv cfg s') by (eapply tinv_caller_step; eauto).
  pose proof TI as (K & A). destruct TI' as (K' & _). pose proof (srcok_kinv _ _ K) as SK.
  pose proof (k_pc _ _ K) as P. unfold PcInv in P. destruct P as (PA & PB & PC & PD & PE & PF & PG).
  pose proof A as (AT & A1 & A2 & A3 & A4 & A5).
  unfold caller_step in H. cbn zeta in H.
  destruct (c_pc (cl s)) eqn:Epc; try discriminate; cbn [awake relphase qpc inpc] in *.
  - (* CInUse *)
    assert (Hne : ~ sealed s).
    { intros (E & _). assert (0 < c_in (cl s)) by (apply A3; reflexivity). destruct (A1 E); [lia|discriminate]. }
    destruct (_ <? _); inv_some H; (eapply linv_gr; [exact SK|exact K'|exact L|first [apply gr_after_inuse|apply gr_scan_inuse]
                                                   |first [apply nz_after_inuse|apply nz_scan_inuse]|intros X; contradiction]).
  - (* CLdm1 *)
    assert (Hne : ~ sealed s).
    { intros (E & _). assert (0 < c_in (cl s)) by (apply A3; reflexivity). destruct (A1 E); [lia|discriminate]. }
    destruct (overlap_win _ _); inv_some H.
    + eapply linv_ext; [..|exact L]; try reflexivity. cbn. rewrite Epc. reflexivity.
    + eapply linv_gr; [exact SK|exact K'|exact L|apply gr_move_prefix|apply nz_move_prefix|intros X; contradiction].
  - (* CLdm2 *)
    assert (Hne : ~ sealed s).
    { intros (E & _). assert (0 < c_in (cl s)) by (apply A3; reflexivity). destruct (A1 E); [lia|discriminate]. }
    destruct (overlap_win _ _); inv_some H.
    + eapply linv_ext; [..|exact L]; try reflexivity. cbn. rewrite Epc. reflexivity.
    + eapply linv_gr; [exact SK|exact K'|exact L|apply gr_hand_out|apply nz_hand_out|intros X; contradiction].
  - (* CGetBuf *)
    destruct (PB eq_refl) as ((Hlt & Hid & _) & Pd & Pr & Psz & Pla & Pen).
    assert (Hkl : (slot cfg (next (mt s)) < length (jobs s))%nat) by (rewrite (k_len _ _ K); apply slot_lt).
    inv_some H. eapply linv_post; [exact K|exact L|exact Hlt| |..]; try reflexivity.
    + intros (_ & _ & _ & X). rewrite Epc in X. apply X. reflexivity.
    + intros k Hk. rewrite getj_set_cpc, getj_set_mt. rewrite getj_set_job_neq by auto. reflexivity.
    + intros _. repeat split; cbn; auto; discriminate.
    + intros t x Hx _. exact Hx.
  - (* CTryAdd *)
    pose proof (PA eq_refl) as ((Hlt & Hid & _) & Hck & Hdn & Hle).
    assert (Hns : ~ sealed s) by (intros (_ & _ & X & _); rewrite Epc in X; apply X; reflexivity).
    destruct (Nat.eqb (busy (pl s)) (c_nbw cfg) || _); inv_some H.
    + destruct L as [LP LS LZ LD]. constructor; cbn [mt sr ws set_cpc set_cl set_mt mt_ring done next]; auto.
      * intros i Hi Hsn Hd. destruct (LS i Hi Hsn Hd) as (_ & X). contradiction.
      * intros X. destruct (LD X) as (_ & Y). contradiction.
    + destruct (signal_pop_spec w (ws s)) as (S1 & S2).
      eapply linv_post; [exact K|exact L|exact Hlt|exact Hns|..]; try reflexivity.
      * change (j_done (getj s (slot cfg (next (mt s)))) = true -> sealed (set_cpc CFlush (set_mt (mt_ring (done (mt s)) (next (mt s) + 1) false (ended (mt s)) (alldone (mt s)) (mt s)) (set_ws (signal_pop w (ws s)) (set_pl (pl_q (Some (slot cfg (next (mt s)))) (pl s)) s))))).
        congruence.
      * intros t x Hx Ax. apply S1; auto.
  - (* CFlush *)
    destruct (_ && _); inv_some H.
    + eapply linv_ext; [..|exact L]; try reflexivity. cbn. rewrite Epc. reflexivity.
    + eapply linv_gr; [exact SK|exact K'|exact L|apply gr_flush_body|apply nz_flush_body|].
      intros X. apply sl_flush_body. eapply qs_of; [exact TI|exact X|rewrite Epc; reflexivity].
  - (* CRelBuf *)
    inv_some H.
    match goal with |- LInv cfg (complete_job cfg ?x) => set (s0 := x) end.
    assert (K0 : KInv cfg s0) by (apply kinv_set_pl; auto).
    assert (L0 : LInv cfg s0) by (eapply linv_ext; [..|exact L]; reflexivity).
    eapply linv_gr; [apply srcok_kinv; exact K0|exact K'|exact L0|apply gr_complete_job|apply nz_complete_job|].
    intros X. apply sl_complete_job. eapply qs_ext with (s := s); try reflexivity. eapply qs_of; [exact TI|exact X|rewrite Epc; reflexivity].
  - (* CWait *)
    unfold jslot in H. destruct (negb _); inv_some H.
    + eapply linv_ext; [..|exact L]; try reflexivity. cbn. rewrite Epc. reflexivity.
    + eapply linv_gr; [exact SK|exact K'|exact L| |apply nz_wait_all|].
      * eapply gr_trans; [|apply gr_wait_all].
        split; [repeat split|]. split; [reflexivity|]. split; [cbn; lia|]. split; [reflexivity|]. right. intros k. left. reflexivity.
      * intros (E & R & _). apply sl_wait_all. split; auto.
  - (* CRelAll *)
    inv_some H.
    set (s0 := set_pl (pl_bp (give (bp_nb (pl s)) (bp_tot (pl s))) (pl s)) s).
    assert (K0 : KInv cfg s0) by (apply kinv_set_pl; auto).
    assert (L0 : LInv cfg s0) by (eapply linv_ext; [..|exact L]; reflexivity).
    eapply linv_gr with (s := s0); [apply srcok_kinv; exact K0|exact K'|exact L0| |apply nz_rel_scan|].
    + eapply gr_trans; [|apply gr_rel_scan; cbn [mt zero_slot set_job set_jobs set_pl s0]; rewrite PD; lia].
      apply gr_nojobs; [repeat split|reflexivity|reflexivity|cbn; apply upd_length|cbn [mt set_pl s0]; rewrite PD; lia].
    + intros (E & R & _). apply sl_rel_scan. split; auto.
  - (* CInitBuf *)
    match type of H with Some (set_cpc _ ?x) = _ => set (s1 := x) in * end.
    assert (Hnw : forall t x, nth_error (ws s) t = Some x -> active (w_pc x) = true -> False).
    { intros t x Hx Ax. destruct (k_wrk _ _ K t x Hx Ax) as (i & (X & Y) & _). lia. }
    assert (L1 : LInv cfg s1).
    { constructor; cbn [mt sr ws s1 set_sr set_mt done next s_next].
      - intros t x Hx Px. exfalso. apply (Hnw t x Hx). destruct (w_pc x); try discriminate; reflexivity.
      - intros i (X & Y). cbn in X, Y. lia.
      - intros. lia.
      - intros X. lia. }
    assert (SK1 : SrcOk cfg s1).
    { split; [cbn; pose proof (Mr_pos cfg); lia|]. intros i (X & Y). cbn in X, Y. lia. }
    assert (Hns : ~ sealed s1) by (intros (E & _); cbn in E; discriminate).
    inv_some H.
    eapply linv_gr; [exact SK1|exact K'|exact L1| |reflexivity|intros X; contradiction]. apply gr_same; [repeat split|reflexivity|reflexivity|reflexivity].
  - (* CInitSeq *)
    destruct (ldm (mt s)); inv_some H.
    1: match goal with |- LInv ?c (finish_op _ ?x _) =>
           assert (L0 : LInv c x) by (eapply linv_ext; [..|exact L]; reflexivity);
           assert (SK0 : SrcOk c x) by exact SK end.
    2: match goal with |- LInv ?c (finish_op _ ?x _) => assert (L0 : LInv c x); [|assert (SK0 : SrcOk c x) by exact SK] end.
    2: { (* no LDM: serial.nextJobID is reset here: no pool thread holds a job, doneJobID = nextJobID = 0 *)
      assert (Hnw : forall t x, nth_error (ws s) t = Some x -> active (w_pc x) = true -> False).
      { intros t x Hx Ax. destruct (k_wrk _ _ K t x Hx Ax) as (i & (X & Y) & _). lia. }
      constructor; cbn [mt sr ws set_sr set_pl s_next].
      - intros t x Hx Px. exfalso. apply (Hnw t x Hx). destruct (w_pc x); try discriminate; reflexivity.
      - intros i (X & Y). cbn in X, Y. lia.
      - intros t x Hx Px. exfalso. apply (Hnw t x Hx). rewrite Px. reflexivity.
      - intros X. lia. }
    all: eapply linv_gr; [exact SK0|exact K'|exact L0|apply gr_finish_op|apply nz_finish_op|].
    all: intros X; apply sl_finish_ok; eapply qs_ext; [| | | | |eapply qs_of; [exact TI|exact X|rewrite Epc; reflexivity]]; reflexivity.
Qed.

(* ------------------------------------------------------------------ *)
(* every reachable state; deadlock freedom                              *)

Lemma linv_init cfg ops : ops_ok ops -> LInv cfg (init cfg ops).
Proof.
  intros Ho. destruct (tinv_init cfg ops Ho) as (K' & _). unfold init in *.
  eapply linv_gr; [| exact K'| |apply gr_start_ops|apply nz_start_ops|].
  - split; [cbn; pose proof (Mr_pos cfg); lia|]. intros i (X & Y). cbn in X, Y. lia.
  - constructor; cbn [mt sr ws done next s_next].
    + intros t x Hx Px. apply nth_error_repeat in Hx. subst. discriminate.
    + intros i (X & Y). cbn in X, Y. lia.
    + intros. lia.
    + intros X. lia.
  - intros (E & _). cbn in E. discriminate.
Qed.

Definition AllInv (cfg : config) (s : state) : Prop := TInv cfg s /\ SInv cfg s /\ PInv cfg s /\ LInv cfg s /\ NLP s.

Theorem allinv_reachable cfg ops sched :
  0 < c_chunk cfg -> ops_ok ops -> noldm_ops ops -> AllInv cfg (run state (step cfg) sched (init cfg ops)).
Proof.
  intros Hc Ho Hl. apply (run_invariant state (step cfg) (AllInv cfg)).
  - intros s t w s' (TI & SI & P & L & N) Hst. destruct t as [|t]; cbn [step] in Hst.
    + split; [eapply tinv_caller_step; eauto|]. split; [eapply sinv_caller_step; eauto|]. split; [eapply pinv_caller_step; eauto|].
      split; [eapply linv_caller_step; eauto|eapply nlp_caller_step; eauto].
    + split; [apply (tinv_step cfg (S t) w s s' Hc TI); exact Hst|]. split; [eapply sinv_worker_step; eauto; apply TI|].
      split; [eapply pinv_worker_step; eauto|]. split; [eapply linv_worker_step; eauto; apply TI|eapply nlp_worker_step; eauto].
  - split; [apply tinv_init; auto|]. split; [apply sinv_init; auto|]. split; [apply pinv_init|]. split; [apply linv_init; auto|apply nlp_init; auto].
Qed.

Lemma worker_step_none cfg t s w : nth_error (ws s) t = Some w -> worker_step cfg t s = None -> w_pc w = WAsleep \/ w_pc w = WSerialZ.
Proof.
  intros Hw H. unfold worker_step in H. rewrite Hw in H.
  destruct (w_pc w); auto;
    repeat match type of H with
           | (if ?b then _ else _) = _ => destruct b
           | match ?x with Some _ => _ | None => _ end = _ => destruct x
           end; discriminate.
Qed.

Lemma enabled_nonempty cfg s t : (t <= length (ws s))%nat -> step cfg t 0 s <> None -> enabled_list cfg s <> [].
Proof.
  intros Ht Hs. unfold enabled_list.
  assert (Hin : In t (filter (fun t0 => match step cfg t0 0 s with Some _ => true | None => false end) (seq 0 (S (length (ws s)))))).
  { apply filter_In. split; [apply in_seq; lia|]. destruct (step cfg t 0 s); [reflexivity|contradiction]. }
  intros E. rewrite E in Hin. contradiction.
Qed.

(* no deadlock: unless the application has finished its program, some thread can take a step *)
Theorem deadlock_free cfg ops sched :
  0 < c_chunk cfg -> ops_ok ops -> noldm_ops ops -> stuck cfg (run state (step cfg) sched (init cfg ops)) = false.
Proof.
  intros Hc Ho Hl. destruct (allinv_reachable cfg ops sched Hc Ho Hl) as ((K & A) & SI & P & L & (_ & Npc)).
  set (s := run state (step cfg) sched (init cfg ops)) in *.
  unfold stuck. destruct (caller_done s) eqn:Ed; [reflexivity|]. cbn [negb andb].
  assert (Hne : enabled_list cfg s <> []); [|destruct (enabled_list cfg s); [contradiction|reflexivity]].
  destruct (caller_step cfg 0 s) as [s1|] eqn:Ec.
  { apply (enabled_nonempty cfg s 0%nat); [lia|]. cbn [step]. rewrite Ec. discriminate. }
  (* the caller is asleep *)
  assert (Z : jobz (c_pc (cl s)) = true).
  { unfold caller_step in Ec. unfold caller_done in Ed. cbn zeta in Ec.
    destruct (c_pc (cl s)) eqn:Epc; try reflexivity; try discriminate; cbn in Npc; try discriminate;
      repeat match type of Ec with (if ?b then _ else _) = _ => destruct b end; discriminate. }
  destruct (s_cz _ _ SI Z) as (Hlt & Hd).
  assert (Hi : inflight s (done (mt s))) by (split; lia).
  destruct (k_own _ _ K _ Hi Hd) as [O|(t & w & Hw & Aw & Es)].
  - (* the job is still in the queue: a pool thread is awake at the queue mutex *)
    destruct (p_take _ _ P _ O) as (t & w & Hw & Pw).
    apply (enabled_nonempty cfg s (S t)).
    + assert (t < length (ws s))%nat by (apply nth_error_Some; congruence). lia.
    + cbn [step]. intros E. destruct (worker_step_none cfg t s w Hw E) as [X|X]; congruence.
  - (* a pool thread works on it: it can run, because it cannot be waiting for its serial turn *)
    apply (enabled_nonempty cfg s (S t)).
    + assert (t < length (ws s))%nat by (apply nth_error_Some; congruence). lia.
    + cbn [step]. intros E. destruct (worker_step_none cfg t s w Hw E) as [X|X]; [rewrite X in Aw; discriminate|].
      pose proof (s_slp _ _ SI t w Hw X) as H1. pose proof (l_slp _ _ L t w Hw X) as H2.
      rewrite Es in H1. rewrite (k_ids _ _ K _ Hi) in H1. lia.
Qed.
