(* C11, termination under fairness, part 8: starting a call, the release loop and the output side of the caller's code never
   increase the caller's potential. *)
From Coq Require Import List NArith ZArith Bool Arith Lia.
Import ListNotations.
From ZV.Conc Require Import Sched SchedLemmas MtModel MtProofs MtRing MtRingC MtPool MtFrame MtSleep MtStep MtLive MtErr.
From ZV.Conc Require Import MtTermDefs MtTermW MtTermA MtTermS MtTermR MtTermC1 MtTermC2.
Local Open Scope nat_scope.
(* starting the next calls of the program *)
Lemma ac_start_ops cfg ops : forall s, Pre cfg s ->
  Ac cfg (start_ops cfg s ops) + (match ops with [] => 0 | _ => 1 end) <= opsW cfg ops + FT cfg s.
Proof.
  induction ops as [|o r IH]; intros s P; cbn [start_ops]; [rewrite ac_stop_ops; lia|].
  destruct o as [fp|e i o]; unfold opsW; cbn [sumf opW]; fold (opsW cfg r).
  - set (s1 := set_cl _ s).
    assert (F1 : FT cfg s1 = FT cfg s) by reflexivity. pose proof (ft_ge cfg s) as G.
    assert (F2 : c_ops (cl s1) = r) by reflexivity. assert (F3 : mt s1 = mt s) by reflexivity.
    destruct (alldone (mt s)); [rewrite ac_init_params, F2; unfold initW; lia|].
    destruct (_ <? _)%N; [acpc; rewrite F2, F3; unfold relK, initW; lia|].
    destruct (ac_rel_scan_k cfg true init_params (initW cfg) ltac:(intros; rewrite ac_init_params; lia) (length (jobs s1)) s1 0)
      as [X|(k' & X1 & X2 & X3 & X4)].
    + rewrite F2 in X. unfold initW in *. lia.
    + unfold Ac. rewrite X1. cbn [awake]. rewrite X4, F2. unfold relK, initW. lia.
  - set (s1 := set_cl _ s).
    assert (F1 : FT cfg s1 = FT cfg s) by reflexivity.
    destruct (_ && _); [rewrite ac_stop_ops; lia|].
    destruct (_ && _); [rewrite ac_stop_ops; lia|].
    destruct (_ && _).
    + destruct r as [|[fp|e' i' o'] r']; try (rewrite ac_stop_ops; lia).
      * cbn [start_ops]. rewrite ac_stop_ops. lia.
      * pose proof (IH (record_res RErr s1) ltac:(pre_same P)) as X.
        change (FT cfg (record_res RErr s1)) with (FT cfg s) in X. lia.
    + pose proof (ac_gen_body cfg s1 ltac:(pre_same P)) as X.
      assert (E : AcN cfg s1 = opsW cfg r + WJ cfg * (2 * n2 i) + 2 * n2 i + n2 o + FT cfg s) by reflexivity. lia.
Qed.

Lemma ac_finish_op cfg s r : Pre cfg s -> Ac cfg (finish_op cfg s r) <= AcN cfg s.
Proof.
  intros P. unfold finish_op.
  pose proof (ac_start_ops cfg (ops_after r (c_ops (cl s))) (record_res r s) ltac:(pre_same P)) as X.
  change (FT cfg (record_res r s)) with (FT cfg s) in X.
  pose proof (opsW_after cfg r (c_ops (cl s))). pose proof (acn_ge cfg s). lia.
Qed.

(* after the release loop: the call returns an error, the program stops or re-initialises *)
Lemma ac_finish_err cfg s : alldone (mt s) = true -> Ac cfg (finish_op cfg s RErr) <= opsW cfg (ops_after RErr (c_ops (cl s))).
Proof.
  intros Ha. unfold finish_op, ops_after.
  destruct (c_ops (cl s)) as [|[fp|e i o] r]; cbn [start_ops record_res mt set_cl]; try (rewrite ac_stop_ops; lia).
  rewrite Ha. rewrite ac_init_params. cbn [c_ops cl set_cl]. unfold opsW, initW. cbn [sumf opW]. fold (opsW cfg r). lia.
Qed.

Lemma ac_rel_scan cfg i s k fuel :
  Ac cfg (rel_scan cfg i s k fuel) <= (MR cfg - k) + relK cfg i (c_ops (cl s)).
Proof.
  unfold rel_scan.
  destruct (ac_rel_scan_k cfg i (fun s1 => if i then init_params s1 else finish_op cfg s1 RErr)
              (fun ops => relK cfg i ops - 1)
              ltac:(intros s1 Ha; destruct i; [rewrite ac_init_params; unfold relK; lia|pose proof (ac_finish_err cfg s1 Ha); unfold relK; lia])
              fuel s k) as [X|(k' & X1 & X2 & X3 & X4)].
  - lia.
  - unfold Ac. rewrite X1. cbn [awake]. rewrite X4. lia.
Qed.

Lemma ac_wait_all cfg i s :
  Ac cfg (wait_all cfg i s) <= 2 * n2 (next (mt s) - done (mt s)) + MR cfg + 1 + relK cfg i (c_ops (cl s)).
Proof.
  unfold wait_all. destruct (_ <? _)%N; [acpc; lia|].
  pose proof (ac_rel_scan cfg i s 0 (length (jobs s))). lia.
Qed.

(* ------------------------------------------------------------------ *)
(* the output side                                                      *)

Lemma ac_gen_again cfg s : Pre cfg s -> Ac cfg (gen_again cfg s) <= AcN cfg s + 1.
Proof.
  intros P. unfold gen_again. set (s1 := set_cl _ s).
  assert (P1 : Pre cfg s1) by (pre_same P). change (AcN cfg s) with (AcN cfg s1).
  destruct (_ && _); [pose proof (ac_finish_op cfg s1 RErr P1); lia|apply ac_gen_body; exact P1].
Qed.

Lemma ac_gen_return cfg s v : Pre cfg s -> Ac cfg (gen_return cfg s v) <= AcN cfg s + 1.
Proof.
  intros P. unfold gen_return.
  repeat match goal with |- Ac cfg (if ?b then _ else _) <= _ => destruct b end;
    first [apply ac_gen_again; exact P | match goal with |- Ac cfg (finish_op cfg s ?r) <= _ => pose proof (ac_finish_op cfg s r P); lia end].
Qed.

Lemma ac_flush_return cfg s : Pre cfg s -> Ac cfg (flush_return cfg s) <= AcN cfg s + 1.
Proof.
  intros P. unfold flush_return, flush_tail.
  destruct (_ <? _)%N; [apply ac_gen_return; exact P|].
  destruct (ready (mt s)) eqn:Er; [apply ac_gen_return; exact P|].
  destruct (_ <? _)%N; [apply ac_gen_return; exact P|].
  match goal with |- Ac cfg (gen_return cfg ?x _) <= _ => set (s1 := x) end.
  assert (P1 : Pre cfg s1) by (pre_same P).
  assert (AcN cfg s1 <= AcN cfg s) by (apply acn_le; try reflexivity; cbn; rewrite ?Er; auto; lia).
  pose proof (ac_gen_return cfg s1 (match c_e2 (cl s) with EEnd => if ended (mt s) then 0%N else 1%N | _ => 0%N end) P1). lia.
Qed.

(* the job at doneJobID leaves the ring *)
Lemma psz_set_job cfg s k j' : j_size j' = j_size (getj s k) -> psz cfg (set_job k j' s) = psz cfg s.
Proof. intros E. unfold psz. cbn [mt set_job set_jobs]. rewrite size_set_job; auto. Qed.

Lemma ac_complete_job cfg s :
  Pre cfg s -> Ac cfg (complete_job cfg s) + (if (done (mt s) <? next (mt s))%N then 2 else 0) <= AcN cfg s + 1.
Proof.
  intros P. unfold complete_job. cbn zeta.
  match goal with |- Ac cfg (flush_return cfg ?x) + _ <= _ => set (s2 := x) end.
  assert (P2 : Pre cfg s2) by (pre_same P).
  pose proof (ac_flush_return cfg s2 P2) as X.
  assert (E : AcN cfg s2 + (if (done (mt s) <? next (mt s))%N then 2 else 0) <= AcN cfg s).
  { unfold AcN, FT. change (c_ops (cl s2)) with (c_ops (cl s)). change (c_in (cl s2)) with (c_in (cl s)). change (c_out (cl s2)) with (c_out (cl s)).
    change (NPf s2) with (NPf s). change (ifill (mt s2)) with (ifill (mt s)). change (ready (mt s2)) with (ready (mt s)).
    change (next (mt s2)) with (next (mt s)). change (done (mt s2)) with (done (mt s) + 1)%N.
    assert (Ep : psz cfg s2 = psz cfg s).
    { unfold s2. match goal with |- psz cfg (set_mt ?m (set_gh ?g (set_job ?k ?j ?x))) = _ => change (psz cfg (set_mt m (set_gh g (set_job k j x)))) with (psz cfg (set_job k j x)) end.
      apply psz_set_job. reflexivity. }
    rewrite Ep. destruct (_ <? _)%N eqn:El; [apply N.ltb_lt in El|apply N.ltb_ge in El]; lia. }
  lia.
Qed.

(* ZSTDMT_flushProduced *)
Lemma acn_flush_state cfg s k jX g c' :
  j_size jX = j_size (getj s k) -> c_ops c' = c_ops (cl s) -> c_in c' = c_in (cl s) -> (c_out c' <= c_out (cl s))%N ->
  AcN cfg (set_gh g (set_cl c' (set_job k jX s))) + (n2 (c_out (cl s)) - n2 (c_out c')) <= AcN cfg s.
Proof.
  intros E1 E2 E3 E4. unfold AcN, FT.
  change (psz cfg (set_gh g (set_cl c' (set_job k jX s)))) with (psz cfg (set_job k jX s)). rewrite (psz_set_job cfg s k jX E1).
  cbn [cl mt set_gh set_cl set_job set_jobs]. rewrite E2, E3. change (NPf (set_gh g (set_cl c' (set_job k jX s)))) with (NPf s). lia.
Qed.

Lemma ac_flush_body cfg s : Pre cfg s -> Ac cfg (flush_body cfg s) <= AcN cfg s + 1.
Proof.
  intros P. unfold flush_body. cbn zeta.
  destruct (j_err _).
  { pose proof (ac_wait_all cfg false s). pose proof (acn_ge cfg s). pose proof (ft_ge cfg s).
    pose proof (opsW_after cfg RErr (c_ops (cl s))). unfold relK, RELC in *. lia. }
  set (k := slot cfg (done (mt s))). set (j := getj s k).
  set (fin := (j_consumed j =? j_size j)%N). set (ck := fin && j_ckneed j).
  set (cs := if ck then (j_csize j + 4)%N else j_csize j).
  destruct (0 <? cs)%N.
  - set (tf := N.min (cs - j_flushed j) (c_out (cl s))).
    match goal with |- Ac cfg (if _ then _ else if _ then gen_return cfg ?x _ else _) <= _ => set (s1 := x) end.
    assert (P1 : Pre cfg s1) by (pre_same P).
    assert (E : AcN cfg s1 <= AcN cfg s).
    { unfold s1. match goal with |- AcN cfg (set_gh ?g (set_cl ?c (set_job ?kk ?jj s))) <= _ =>
        pose proof (acn_flush_state cfg s kk jj g c eq_refl eq_refl eq_refl ltac:(cbn; lia)) end. lia. }
    repeat match goal with |- Ac cfg (if ?b then _ else _) <= _ => destruct b end;
        first [acpc; lia | pose proof (ac_complete_job cfg s1 P1); lia
              | pose proof (ac_gen_return cfg s1 (cs - (j_flushed j + tf))%N P1); lia | pose proof (ac_gen_return cfg s1 1%N P1); lia
              | pose proof (ac_flush_return cfg s1 P1); lia].
  - match goal with |- Ac cfg (if _ then gen_return cfg ?x _ else _) <= _ => set (s1 := x) end.
    assert (P1 : Pre cfg s1) by (pre_same P).
    assert (E : AcN cfg s1 <= AcN cfg s).
    { unfold s1. match goal with |- AcN cfg (set_gh ?g (set_job ?kk ?jj s)) <= _ =>
        pose proof (acn_flush_state cfg s kk jj g (cl s) eq_refl eq_refl eq_refl ltac:(lia)) as X end.
      change (set_cl (cl s) ?x) with x in X. lia. }
    repeat match goal with |- Ac cfg (if ?b then _ else _) <= _ => destruct b end;
      first [pose proof (ac_gen_return cfg s1 (cs - j_flushed j)%N P1); lia | pose proof (ac_gen_return cfg s1 1%N P1); lia
            | pose proof (ac_flush_return cfg s1 P1); lia].
Qed.
