(* C11: mt_error_propagates, part 1.  A worker-side error (JOB_ERROR) and the wait-and-release path of the caller
   (ZSTDMT_flushProduced -> ZSTDMT_waitForAllJobsCompleted -> ZSTDMT_releaseAllJobResources), for every schedule, every call program
   (LDM allowed) and every payload oracle:
   - allinv4_reachable: TInv /\ SInv /\ PInv /\ LInv hold in every reachable state (no noldm hypothesis);
   - err_serial_skips (E4): the serial chain is never blocked by a failed job;
   - err_release_no_deadlock (E5): while the caller waits for / releases the jobs, some thread can always step;
   - the exact frame relation IR of the caller's unsynchronised code (used by MtErrC.v). *)
From Coq Require Import List NArith ZArith Bool Arith Lia.
Import ListNotations.
From ZV.Conc Require Import Sched SchedLemmas MtModel MtProofs MtRing MtRingC MtPool MtFrame MtSleep MtStep MtLive.
Local Open Scope N_scope.

(* ------------------------------------------------------------------ *)
(* the four invariants together, without the no-LDM hypothesis of MtLive.allinv_reachable *)

Definition Inv4 (cfg : config) (s : state) : Prop := TInv cfg s /\ SInv cfg s /\ PInv cfg s /\ LInv cfg s.

Lemma inv4_step cfg t w s s' : 0 < c_chunk cfg -> Inv4 cfg s -> step cfg t w s = Some s' -> Inv4 cfg s'.
Proof.
  intros Hc (TI & SI & P & L) Hst. destruct t as [|t]; cbn [step] in Hst.
  - split; [eapply tinv_caller_step; eauto|]. split; [eapply sinv_caller_step; eauto|]. split; [eapply pinv_caller_step; eauto|].
    eapply linv_caller_step; eauto.
  - split; [apply (tinv_step cfg (S t) w s s' Hc TI); exact Hst|]. split; [eapply sinv_worker_step; eauto; apply TI|].
    split; [eapply pinv_worker_step; eauto|]. eapply linv_worker_step; eauto; apply TI.
Qed.

Lemma inv4_init cfg ops : ops_ok ops -> Inv4 cfg (init cfg ops).
Proof. intros Ho. split; [apply tinv_init; auto|]. split; [apply sinv_init; auto|]. split; [apply pinv_init|apply linv_init; auto]. Qed.

Theorem allinv4_reachable cfg ops sched :
  0 < c_chunk cfg -> ops_ok ops -> Inv4 cfg (run state (step cfg) sched (init cfg ops)).
Proof.
  intros Hc Ho. apply (run_invariant state (step cfg) (Inv4 cfg)).
  - intros s t w s' Hi Hst. eapply inv4_step; eauto.
  - apply inv4_init; auto.
Qed.

(* ------------------------------------------------------------------ *)
(* E5: the only place where the whole system can come to a halt is the caller's wait on ldmWindowCond *)

Lemma no_deadlock_inv cfg s :
  Inv4 cfg s -> c_pc (cl s) <> CLdm1Z -> c_pc (cl s) <> CLdm2Z -> stuck cfg s = false.
Proof.
  intros ((K & A) & SI & P & L) N1 N2.
  unfold stuck. destruct (caller_done s) eqn:Ed; [reflexivity|]. cbn [negb andb].
  assert (Hne : enabled_list cfg s <> []); [|destruct (enabled_list cfg s); [contradiction|reflexivity]].
  destruct (caller_step cfg 0 s) as [s1|] eqn:Ec.
  { apply (enabled_nonempty cfg s 0%nat); [lia|]. cbn [step]. rewrite Ec. discriminate. }
  assert (Z : jobz (c_pc (cl s)) = true).
  { unfold caller_step in Ec. unfold caller_done in Ed. cbn zeta in Ec.
    destruct (c_pc (cl s)) eqn:Epc; try reflexivity; try discriminate; try congruence;
      repeat match type of Ec with (if ?b then _ else _) = _ => destruct b end; discriminate. }
  destruct (s_cz _ _ SI Z) as (Hlt & Hd).
  assert (Hi : inflight s (done (mt s))) by (split; lia).
  destruct (k_own _ _ K _ Hi Hd) as [O|(t & w & Hw & Aw & Es)].
  - destruct (p_take _ _ P _ O) as (t & w & Hw & Pw).
    apply (enabled_nonempty cfg s (S t)).
    + assert (t < length (ws s))%nat by (apply nth_error_Some; congruence). lia.
    + cbn [step]. intros E. destruct (worker_step_none cfg t s w Hw E) as [X|X]; congruence.
  - apply (enabled_nonempty cfg s (S t)).
    + assert (t < length (ws s))%nat by (apply nth_error_Some; congruence). lia.
    + cbn [step]. intros E. destruct (worker_step_none cfg t s w Hw E) as [X|X]; [rewrite X in Aw; discriminate|].
      pose proof (s_slp _ _ SI t w Hw X) as H1. pose proof (l_slp _ _ L t w Hw X) as H2.
      rewrite Es in H1. rewrite (k_ids _ _ K _ Hi) in H1. lia.
Qed.

(* deadlock freedom for ALL programs, up to the LDM window wait *)
Theorem no_deadlock_outside_ldm_wait cfg ops sched :
  0 < c_chunk cfg -> ops_ok ops -> let s := run state (step cfg) sched (init cfg ops) in
  c_pc (cl s) <> CLdm1Z -> c_pc (cl s) <> CLdm2Z -> stuck cfg s = false.
Proof. intros Hc Ho s. apply no_deadlock_inv. apply allinv4_reachable; auto. Qed.

(* E5 *)
Theorem err_release_no_deadlock cfg ops sched :
  0 < c_chunk cfg -> ops_ok ops -> let s := run state (step cfg) sched (init cfg ops) in
  (c_pc (cl s) = CWait false \/ c_pc (cl s) = CWaitZ false \/ exists k, c_pc (cl s) = CRelAll false k) ->
  stuck cfg s = false.
Proof.
  intros Hc Ho s Hp. apply no_deadlock_outside_ldm_wait; auto; fold s;
    destruct Hp as [E|[E|(k & E)]]; rewrite E; discriminate.
Qed.

(* the same for the wait-and-release phase entered from ZSTDMT_initCStream_internal *)
Theorem release_no_deadlock cfg ops sched :
  0 < c_chunk cfg -> ops_ok ops -> let s := run state (step cfg) sched (init cfg ops) in
  relphase (c_pc (cl s)) = true -> stuck cfg s = false.
Proof.
  intros Hc Ho s Hp. apply no_deadlock_outside_ldm_wait; auto; fold s; intros E; rewrite E in Hp; discriminate.
Qed.

(* while the caller sleeps in ZSTDMT_waitForAllJobsCompleted, the job it waits for is held by a thread that can run *)
Theorem err_wait_has_runner cfg ops sched :
  0 < c_chunk cfg -> ops_ok ops -> let s := run state (step cfg) sched (init cfg ops) in
  forall i, c_pc (cl s) = CWaitZ i ->
  exists t w, nth_error (ws s) t = Some w /\ step cfg (S t) 0 s <> None /\
              (w_pc w = WIdle /\ q (pl s) = Some (slot cfg (done (mt s))) \/
               active (w_pc w) = true /\ w_slot w = slot cfg (done (mt s))).
Proof.
  intros Hc Ho s i Ep. destruct (allinv4_reachable cfg ops sched Hc Ho) as ((K & A) & SI & P & L). fold s in K, A, SI, P, L.
  assert (Z : jobz (c_pc (cl s)) = true) by (rewrite Ep; reflexivity).
  destruct (s_cz _ _ SI Z) as (Hlt & Hd).
  assert (Hi : inflight s (done (mt s))) by (split; lia).
  destruct (k_own _ _ K _ Hi Hd) as [O|(t & w & Hw & Aw & Es)].
  - destruct (p_take _ _ P _ O) as (t & w & Hw & Pw). exists t, w. split; auto. split; [|left; auto].
    cbn [step]. intros E. destruct (worker_step_none cfg t s w Hw E) as [X|X]; congruence.
  - exists t, w. split; auto. split; [|right; auto].
    cbn [step]. intros E. destruct (worker_step_none cfg t s w Hw E) as [X|X]; [rewrite X in Aw; discriminate|].
    pose proof (s_slp _ _ SI t w Hw X) as H1. pose proof (l_slp _ _ L t w Hw X) as H2.
    rewrite Es in H1. rewrite (k_ids _ _ K _ Hi) in H1. lia.
Qed.

(* ------------------------------------------------------------------ *)
(* E4: the serial chain skips a failed job                              *)

(* JOB_ERROR: the error flag of the job is set, the pool thread goes on to ZSTDMT_serialState_ensureFinished *)
Lemma joberr_step cfg t s s' w :
  KInv cfg s -> nth_error (ws s) t = Some w -> w_pc w = WJobErr -> worker_step cfg t s = Some s' ->
  j_err (getj s' (w_slot w)) = true /\ sr s' = sr s /\
  exists w', nth_error (ws s') t = Some w' /\ w_pc w' = WEnsure /\ w_slot w' = w_slot w.
Proof.
  intros K Hw Epc H. unfold worker_step in H. rewrite Hw, Epc in H. inv_some H.
  assert (Htl : (t < length (ws s))%nat) by (apply nth_error_Some; congruence).
  destruct (k_wrk _ _ K t w Hw) as (i & _ & E & _); [rewrite Epc; reflexivity|].
  assert (Hk : (w_slot w < length (jobs s))%nat) by (rewrite E, (k_len _ _ K); apply slot_lt).
  split; [rewrite getj_set_w, getj_set_job_eq by exact Hk; reflexivity|]. split; [reflexivity|].
  exists (w_set_pc WEnsure w). cbn [ws set_w set_ws set_job set_jobs]. rewrite nth_error_upd_eq by exact Htl. auto.
Qed.

(* ZSTDMT_serialState_ensureFinished never sleeps, and leaves serial.nextJobID above the job of the thread; when it has to move
   nextJobID itself, no serial section is logged for the job (it is skipped) *)
Lemma ensure_step cfg t s w :
  nth_error (ws s) t = Some w -> w_pc w = WEnsure ->
  exists s', worker_step cfg t s = Some s' /\
    j_id (getj s (w_slot w)) < s_next (sr s') /\ s_log (sr s') = s_log (sr s) /\
    (s_next (sr s) <= j_id (getj s (w_slot w)) -> s_next (sr s') = j_id (getj s (w_slot w)) + 1 /\ s_skip (sr s') = true) /\
    (j_id (getj s (w_slot w)) < s_next (sr s) -> sr s' = sr s).
Proof.
  intros Hw Epc. unfold worker_step. rewrite Hw, Epc. eexists. split; [reflexivity|].
  destruct (s_next (sr s) <=? j_id (getj s (w_slot w))) eqn:El.
  - apply N.leb_le in El. cbn [sr set_w set_ws]. rewrite sr_wake_ldm. cbn [sr set_sr s_next s_log s_skip].
    split; [lia|]. split; [reflexivity|]. split; [auto|]. intros X. lia.
  - apply N.leb_gt in El. cbn [sr set_w set_ws]. split; [lia|]. split; [reflexivity|]. split; [intros X; lia|reflexivity].
Qed.

(* E4 *)
Theorem err_serial_skips cfg ops sched :
  0 < c_chunk cfg -> ops_ok ops -> let s := run state (step cfg) sched (init cfg ops) in
  (* JOB_ERROR marks the job and leads to ensureFinished *)
  (forall t w c s', nth_error (ws s) t = Some w -> w_pc w = WJobErr -> step cfg (S t) c s = Some s' ->
     j_err (getj s' (w_slot w)) = true /\
     exists w', nth_error (ws s') t = Some w' /\ w_pc w' = WEnsure /\ w_slot w' = w_slot w) /\
  (* ensureFinished is always enabled and moves serial.nextJobID past the job *)
  (forall t w, nth_error (ws s) t = Some w -> w_pc w = WEnsure ->
     exists i, inflight s i /\ w_slot w = slot cfg i /\
       forall c, exists s', step cfg (S t) c s = Some s' /\ i < s_next (sr s') /\ s_log (sr s') = s_log (sr s) /\
                            (s_next (sr s) <= i -> s_skip (sr s') = true)) /\
  (* a pool thread past ensureFinished: the serial state is past its job *)
  (forall t w, nth_error (ws s) t = Some w -> postens (w_pc w) = true ->
     exists i, inflight s i /\ w_slot w = slot cfg i /\ i < s_next (sr s)) /\
  (* hence a job whose worker has reported (in particular every failed job that ZSTDMT_waitForAllJobsCompleted has seen complete)
     is behind serial.nextJobID, unless it is the last empty block, which the caller wrote itself *)
  (forall i, inflight s i -> j_done (getj s (slot cfg i)) = true -> i < s_next (sr s) \/ (i + 1 = next (mt s) /\ sealed s)).
Proof.
  intros Hc Ho s. destruct (allinv4_reachable cfg ops sched Hc Ho) as ((K & A) & SI & P & L). fold s in K, A, SI, P, L.
  split; [|split; [|split]].
  - intros t w c s' Hw Epc H. cbn [step] in H. destruct (joberr_step cfg t s s' w K Hw Epc H) as (E1 & _ & E2). auto.
  - intros t w Hw Epc. destruct (k_wrk _ _ K t w Hw) as (i & Hi & E & _); [rewrite Epc; reflexivity|].
    exists i. split; [exact Hi|]. split; [exact E|]. intros c.
    destruct (ensure_step cfg t s w Hw Epc) as (s' & H & H1 & H2 & H3 & _).
    rewrite E, (k_ids _ _ K i Hi) in H1, H3.
    exists s'. cbn [step]. split; [exact H|]. split; [exact H1|]. split; [exact H2|]. intros X. apply H3; exact X.
  - intros t w Hw Pw. destruct (k_wrk _ _ K t w Hw) as (i & Hi & E & _); [destruct (w_pc w); try discriminate; reflexivity|].
    exists i. split; [exact Hi|]. split; [exact E|]. pose proof (l_post _ _ L t w Hw Pw) as X. rewrite E, (k_ids _ _ K i Hi) in X. exact X.
  - intros i Hi Hd. destruct (N.lt_ge_cases i (s_next (sr s))) as [X|X]; [left; exact X|right]. apply (l_ser _ _ L); auto.
Qed.

(* ------------------------------------------------------------------ *)
(* exact frame of the caller's unsynchronised code, ZSTDMT_flushProduced's job part excepted: doneJobID, nextJobID and the ghost logs
   do not move, call results are only appended, and a job record is only written in slot(nextJobID) while the ring is not full -- or
   when no job is in flight at all (the table is being cleared) *)

Definition IR (cfg : config) (s s' : state) : Prop :=
  done (mt s') = done (mt s) /\ next (mt s') = next (mt s) /\ gh s' = gh s /\
  (exists l, c_res (cl s') = c_res (cl s) ++ l) /\
  (next (mt s) <= done (mt s) \/
   forall k, getj s' k = getj s k \/ (k = slot cfg (next (mt s)) /\ next (mt s) < done (mt s) + Mr cfg)).

Lemma ir_refl cfg s : IR cfg s s.
Proof.
  split; [reflexivity|]. split; [reflexivity|]. split; [reflexivity|]. split; [exists []; rewrite app_nil_r; reflexivity|].
  right. intros k. left. reflexivity.
Qed.

Lemma ir_trans cfg a b c : IR cfg a b -> IR cfg b c -> IR cfg a c.
Proof.
  intros (D1 & N1 & G1 & (l1 & R1) & J1) (D2 & N2 & G2 & (l2 & R2) & J2).
  split; [congruence|]. split; [congruence|]. split; [congruence|].
  split; [exists (l1 ++ l2); rewrite R2, R1, app_assoc; reflexivity|].
  rewrite D1, N1 in J2.
  destruct J1 as [J1|J1]; [left; exact J1|]. destruct J2 as [J2|J2]; [left; exact J2|].
  right. intros k. destruct (J2 k) as [E2|E2]; [|right; exact E2].
  destruct (J1 k) as [E1|E1]; [left; congruence|right; exact E1].
Qed.

Lemma ir_same cfg s s' :
  done (mt s') = done (mt s) -> next (mt s') = next (mt s) -> gh s' = gh s -> (exists l, c_res (cl s') = c_res (cl s) ++ l) ->
  jobs s' = jobs s -> IR cfg s s'.
Proof.
  intros D N G R J. split; [exact D|]. split; [exact N|]. split; [exact G|]. split; [exact R|].
  right. intros k. left. unfold getj. rewrite J. reflexivity.
Qed.

Ltac ir_id := apply ir_same; try reflexivity; first [exists []; rewrite app_nil_r; reflexivity | eexists; reflexivity].
Ltac ir_via L := eapply ir_trans; [|apply L]; try (ir_id; fail).

Lemma ir_set_job_next cfg s j' : next (mt s) < done (mt s) + Mr cfg -> IR cfg s (set_job (slot cfg (next (mt s))) j' s).
Proof.
  intros Hlt. split; [reflexivity|]. split; [reflexivity|]. split; [reflexivity|]. split; [exists []; rewrite app_nil_r; reflexivity|].
  right. intros k. destruct (Nat.eq_dec (slot cfg (next (mt s))) k) as [<-|Hne]; [right; auto|left].
  rewrite getj_set_job_neq by auto. reflexivity.
Qed.

Lemma ir_prepare_job cfg s n e : next (mt s) < done (mt s) + Mr cfg -> IR cfg s (prepare_job cfg s n e).
Proof.
  intros Hlt. unfold prepare_job. cbn zeta.
  destruct e; cbn [andb]; try destruct (next (mt s) =? 0); (eapply ir_trans; [apply ir_set_job_next; exact Hlt|]); ir_id.
Qed.

Lemma ir_create_job cfg s e : IR cfg s (create_job cfg s e).
Proof.
  unfold create_job.
  destruct (done (mt s) + mask cfg <? next (mt s)) eqn:E; [ir_id|].
  apply N.ltb_ge in E. pose proof (mask_Mr cfg).
  destruct (ready (mt s)); [ir_id|].
  assert (G : IR cfg s (prepare_job cfg s (ifill (mt s)) e)) by (apply ir_prepare_job; lia).
  destruct (prepare_job_ring cfg s (ifill (mt s)) e) as (Ed & En).
  destruct (_ && _).
  - eapply ir_trans; [exact G|]. eapply ir_trans; [|ir_id].
    rewrite <- En. apply ir_set_job_next. rewrite Ed, En. lia.
  - eapply ir_trans; [exact G|ir_id].
Qed.

Lemma ir_create_phase cfg s : IR cfg s (create_phase cfg s).
Proof. unfold create_phase. match goal with |- IR _ _ (if ?b then _ else _) => destruct b end; [ir_via ir_create_job|ir_id]. Qed.

Lemma ir_fill_phase cfg s : IR cfg s (fill_phase cfg s).
Proof.
  unfold fill_phase. destruct (ihas (mt s)); [|apply ir_create_phase].
  destruct (sync_point cfg (mt s) (c_in (cl s))). ir_via ir_create_phase.
Qed.

Lemma ir_hand_out cfg s : IR cfg s (hand_out cfg s).
Proof. unfold hand_out. ir_via ir_fill_phase. Qed.

Lemma ir_after_wrap cfg s : IR cfg s (after_wrap cfg s).
Proof. unfold after_wrap. destruct (overlap _ _); [apply ir_fill_phase|]. destruct (ldm (mt s)); [ir_id|apply ir_hand_out]. Qed.

Lemma ir_move_prefix cfg s : IR cfg s (move_prefix cfg s).
Proof. unfold move_prefix. ir_via ir_after_wrap. Qed.

Lemma ir_after_inuse cfg s u : IR cfg s (after_inuse cfg s u).
Proof.
  unfold after_inuse. cbn [mt set_cl].
  destruct (_ <? _); [|ir_via ir_after_wrap].
  destruct (overlap _ _); [ir_via ir_fill_phase|]. destruct (ldm (mt s)); [ir_id|ir_via ir_move_prefix].
Qed.

Lemma ir_scan_inuse cfg s j : IR cfg s (scan_inuse cfg s j).
Proof. unfold scan_inuse. destruct (_ <? _); [ir_id|apply ir_after_inuse]. Qed.

Lemma ir_gen_body cfg s : IR cfg s (gen_body cfg s).
Proof.
  unfold gen_body. destruct (_ && _); [|apply ir_create_phase].
  destruct (negb _); [apply ir_scan_inuse|apply ir_fill_phase].
Qed.

Lemma ir_nojobs cfg s s' :
  done (mt s') = done (mt s) -> next (mt s') = next (mt s) -> gh s' = gh s -> (exists l, c_res (cl s') = c_res (cl s) ++ l) ->
  next (mt s) <= done (mt s) -> IR cfg s s'.
Proof. intros D N G R H. split; [exact D|]. split; [exact N|]. split; [exact G|]. split; [exact R|]. left. exact H. Qed.

Lemma ir_rel_scan_k cfg i kd :
  (forall s1, IR cfg s1 (kd s1)) ->
  forall fuel s k, next (mt s) <= done (mt s) -> IR cfg s (rel_scan_k i kd s k fuel).
Proof.
  intros Hkd. induction fuel as [|f IH]; intros s k H; cbn [rel_scan_k].
  - eapply ir_trans; [|apply Hkd]. ir_id.
  - destruct (Nat.ltb k (length (jobs s))).
    + destruct (j_dst (getj s k)); [ir_id|].
      eapply ir_trans; [|apply IH; exact H].
      apply ir_nojobs; auto. exists []. rewrite app_nil_r. reflexivity.
    + eapply ir_trans; [|apply Hkd]. ir_id.
Qed.

Lemma ir_init_params cfg s : IR cfg s (init_params s).
Proof. unfold init_params. ir_id. Qed.

Lemma ir_start_ops cfg ops : forall s, IR cfg s (start_ops cfg s ops).
Proof.
  induction ops as [|o r IH]; intros s; cbn [start_ops]; [ir_id|].
  destruct o as [fp|e i o].
  - destruct (alldone (mt s)); [ir_via ir_init_params|].
    destruct (done (mt s) <? next (mt s)) eqn:E; [ir_id|]. apply N.ltb_ge in E.
    eapply ir_trans; [|apply ir_rel_scan_k; [intros; apply ir_init_params|exact E]]. ir_id.
  - destruct (_ && _); [ir_id|]. destruct (_ && _); [ir_id|]. destruct (_ && _).
    + destruct r as [|[fp|e' i' o'] r']; try ir_id; (eapply ir_trans; [|apply IH]; ir_id).
    + ir_via ir_gen_body.
Qed.

Lemma ir_finish_op cfg s r : IR cfg s (finish_op cfg s r).
Proof. unfold finish_op. ir_via ir_start_ops. Qed.

Lemma ir_rel_scan cfg i s k f : next (mt s) <= done (mt s) -> IR cfg s (rel_scan cfg i s k f).
Proof. intros H. unfold rel_scan. apply ir_rel_scan_k; auto. intros s1. destruct i; [apply ir_init_params|apply ir_finish_op]. Qed.

Lemma ir_wait_all cfg i s : IR cfg s (wait_all cfg i s).
Proof. unfold wait_all. destruct (_ <? _) eqn:E; [ir_id|]. apply N.ltb_ge in E. apply ir_rel_scan; auto. Qed.

Lemma ir_gen_again cfg s : IR cfg s (gen_again cfg s).
Proof. unfold gen_again. destruct (_ && _); [ir_via ir_finish_op|ir_via ir_gen_body]. Qed.

Lemma ir_gen_return cfg s v : IR cfg s (gen_return cfg s v).
Proof.
  unfold gen_return. repeat match goal with |- IR _ _ (if ?b then _ else _) => destruct b end;
  first [apply ir_finish_op|apply ir_gen_again].
Qed.

Lemma ir_flush_return cfg s : IR cfg s (flush_return cfg s).
Proof.
  unfold flush_return, flush_tail.
  repeat match goal with |- IR _ _ (let '(_, _) := (if ?b then _ else _) in _) => destruct b end; try apply ir_gen_return.
  ir_via ir_gen_return.
Qed.
