(* Generic lemmas about Sched.run (invariant rule). *)
From Coq Require Import List.
Import ListNotations.
From ZV.Conc Require Import Sched.

Section SchedLemmas.
  Variable St : Type.
  Variable step : nat -> nat -> St -> option St.
  Notation run := (run St step).
  Notation run_strict := (run_strict St step).
  Notation exec := (exec St step).

  Lemma run_app : forall a b s, run (a ++ b) s = run b (run a s).
  Proof. intros; unfold run; apply fold_left_app. Qed.

  Lemma run_invariant (Inv : St -> Prop) :
    (forall s t w s', Inv s -> step t w s = Some s' -> Inv s') ->
    forall sched s, Inv s -> Inv (run sched s).
  Proof.
    intros H sched; induction sched as [|c r IH]; intros s Hs; [exact Hs|].
    cbn. apply IH. unfold Sched.exec. destruct (step (fst c) (snd c) s) eqn:E; [eapply H; eauto|exact Hs].
  Qed.

  Lemma run_strict_run : forall sched s s', run_strict sched s = Some s' -> run sched s = s'.
  Proof.
    induction sched as [|c r IH]; cbn; intros s s' H; [congruence|].
    unfold Sched.exec. destruct (step (fst c) (snd c) s) eqn:E; [apply IH; exact H|discriminate].
  Qed.
End SchedLemmas.
