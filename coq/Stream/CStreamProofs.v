(* Proofs about the streaming-compression state machine (CStreamModel.v): C02 partition / round trip,
   C10 progress / termination / flush and end completion.  The block compressor is universally quantified. *)
From Coq Require Import NArith ZArith List Bool Lia PeanoNat.
From ZV.Codec Require Import Bytes ListLemmas.
From ZV.Stream Require Import DStreamModel CStreamModel StreamLemmas.
Import ListNotations.
Local Open Scope N_scope.

Ltac ksimp :=
  unfold k_session_reset, k_set_stage, k_set_in, k_set_out, k_set_cs, k_set_held, k_set_expect, g_mk in *;
  cbn [k_stage k_blockSize k_inBuffSize k_outBuffSize k_inBuffPos k_inToCompress k_inBuffTarget k_inPend k_outContent
       k_outFlushed k_outPend k_frameEnded k_held k_expectOut k_appliedSI k_cs g_k g_in g_ip g_out g_ocap] in *.

Ltac ki_close :=
  auto; try congruence; try lia;
  try (intros; repeat split; auto; fail);
  try (match goal with H : k_stage _ <> KInit -> _ |- _ => intros; apply H; congruence end);
  try (match goal with |- if ?b then _ else _ => destruct b; auto; fail end).

Section CProofs.
Variable CS : Type.
Variable cs_begin : CS -> fconf -> N -> CS.
Variable compress_chunk : CS -> bytes -> bool -> CS * bytes.

Notation kstate := (kstate CS).
Notation gstate := (gstate CS).
Notation g_flush := (@g_flush CS).
Notation g_compress := (g_compress CS compress_chunk).
Notation g_load := (g_load CS compress_chunk).
Notation g_iter := (g_iter CS compress_chunk).
Notation g_loop := (g_loop CS compress_chunk).
Notation kstep := (kstep CS cs_begin compress_chunk).

(* ---------- the block compressor run over a list of chunks ---------- *)
Fixpoint run_chunks (cs : CS) (l : list (bytes * bool)) : CS * bytes :=
  match l with
  | [] => (cs, [])
  | (c, b) :: t => let '(cs1, o) := compress_chunk cs c b in
                   let '(cs2, o2) := run_chunks cs1 t in (cs2, o ++ o2)
  end.
Definition st_of (cs0 : CS) (l : list (bytes * bool)) : CS := fst (run_chunks cs0 l).
Definition outs (cs0 : CS) (l : list (bytes * bool)) : bytes := snd (run_chunks cs0 l).
Definition chunks_in (l : list (bytes * bool)) : bytes := concat (map fst l).
Definition nolast (l : list (bytes * bool)) : Prop := forall c, In c l -> snd c = false.

Lemma run_chunks_snoc cs l c b :
  run_chunks cs (l ++ [(c, b)]) =
  (fst (compress_chunk (st_of cs l) c b), outs cs l ++ snd (compress_chunk (st_of cs l) c b)).
Proof.
  unfold st_of, outs. revert cs; induction l as [|[c1 b1] t IH]; intros cs; cbn [app run_chunks fst snd].
  - destruct (compress_chunk cs c b) as [cs1 o]. cbn. rewrite app_nil_r. reflexivity.
  - destruct (compress_chunk cs c1 b1) as [cs1 o1]. rewrite IH.
    destruct (run_chunks cs1 t) as [cs2 o2]. cbn [fst snd].
    destruct (compress_chunk cs2 c b) as [cs3 o3]. cbn [fst snd]. rewrite app_assoc. reflexivity.
Qed.
Lemma st_of_snoc cs l c b : st_of cs (l ++ [(c, b)]) = fst (compress_chunk (st_of cs l) c b).
Proof. unfold st_of at 1. rewrite run_chunks_snoc. reflexivity. Qed.
Lemma outs_snoc cs l c b : outs cs (l ++ [(c, b)]) = outs cs l ++ snd (compress_chunk (st_of cs l) c b).
Proof. unfold outs at 1. rewrite run_chunks_snoc. reflexivity. Qed.
Lemma chunks_in_snoc l c b : chunks_in (l ++ [(c, b)]) = chunks_in l ++ c.
Proof. unfold chunks_in. rewrite map_app, concat_app. cbn. rewrite app_nil_r. reflexivity. Qed.
Lemma nolast_snoc l c : nolast l -> nolast (l ++ [(c, false)]).
Proof. intros H x Hx. apply in_app_or in Hx. destruct Hx as [Hx|[<-|[]]]; [apply H; exact Hx|reflexivity]. Qed.

(* ---------- invariant of the buffering state (any stage) ---------- *)
Definition complete (l : list (bytes * bool)) : Prop := exists pre c, l = pre ++ [(c, true)] /\ nolast pre.

Record KI (P : kparams) (cs0 : CS) (chunks : list (bytes * bool)) (k : kstate) : Prop := {
  ki_cs : k_cs k = st_of cs0 chunks;
  ki_in : if kp_stableIn P then k_inPend k = []
          else k_inToCompress k + lenN (k_inPend k) = k_inBuffPos k /\ k_inBuffPos k <= k_inBuffTarget k;
  ki_out : k_outFlushed k + lenN (k_outPend k) = k_outContent k;
  ki_load : k_stage k = KLoad -> k_outContent k = 0 /\ k_frameEnded k = false;
  ki_nolast : k_frameEnded k = false -> nolast chunks;
  ki_ended : k_frameEnded k = true -> complete chunks /\ k_inPend k = [];
  ki_init : k_stage k = KInit -> k_outPend k = [] /\ k_inPend k = [];
  ki_bs : k_stage k <> KInit -> 1 <= k_blockSize k;
  ki_fresh : k_stage k = KInit -> k_frameEnded k = false -> chunks = [] }.

(* between loop iterations the input buffer of a live frame is never full *)
Definition Strict (P : kparams) (k : kstate) : Prop :=
  kp_stableIn P = false -> k_frameEnded k = false -> k_inBuffPos k < k_inBuffTarget k.

(* potential bounding the number of loop iterations of one call *)
Definition phi (g : gstate) : N :=
  2 * lenN (g_in g) + (match k_stage (g_k g) with KFlush => 1 | _ => 0 end)
                    + (match k_inPend (g_k g) with [] => 0 | _ => 2 end)
                    + (if k_frameEnded (g_k g) then 0 else 2).

(* the chunks added by a step are real work: some input byte, or the chunk that closes the frame *)
Definition Work (more : list (bytes * bool)) : Prop :=
  more = [] \/ chunks_in more <> [] \/ exists c, In (c, true) more.
Lemma Work_app a b : Work a -> Work b -> Work (a ++ b).
Proof.
  intros Ha Hb. destruct Ha as [->|Ha]; [exact Hb|]. destruct Hb as [->|Hb]; [rewrite app_nil_r; right; exact Ha|].
  right. destruct Ha as [Ha|[c Ha]].
  - left. unfold chunks_in in *. rewrite map_app, concat_app. intros E. apply app_eq_nil in E. tauto.
  - right. exists c. apply in_or_app. auto.
Qed.

Lemma Work_one c last : (last = false -> c <> []) -> Work [(c, last)].
Proof.
  intros H. right. destruct last.
  - right. exists c. left. reflexivity.
  - left. unfold chunks_in. cbn. rewrite app_nil_r. apply H. reflexivity.
Qed.

(* what one step of the loop may do to the locals: input is taken from the front, output appended, and the two
   conservation laws (input: fed ++ pending ++ held ++ not-yet-read ; output: produced = written ++ pending) *)
Record GStep (cs0 : CS) (chunks chunks' : list (bytes * bool)) (g g' : gstate) : Prop := {
  gs_in : chunks_in chunks' ++ k_inPend (g_k g') ++ k_held (g_k g') ++ g_in g'
          = chunks_in chunks ++ k_inPend (g_k g) ++ k_held (g_k g) ++ g_in g;
  gs_out : exists d, outs cs0 chunks' = outs cs0 chunks ++ d /\
                     g_out g' ++ k_outPend (g_k g') = g_out g ++ k_outPend (g_k g) ++ d;
  gs_ip : g_ip g' + lenN (g_in g') = g_ip g + lenN (g_in g);
  gs_len : lenN (g_in g') <= lenN (g_in g);
  gs_cap : g_ocap g' + lenN (g_out g') = g_ocap g + lenN (g_out g);
  gs_outext : exists e, g_out g' = g_out g ++ e;
  gs_ext : exists more, chunks' = chunks ++ more /\ Work more }.

Lemma GStep_refl cs0 chunks g : GStep cs0 chunks chunks g g.
Proof.
  constructor; try reflexivity; try lia.
  - exists []. rewrite !app_nil_r. split; reflexivity.
  - exists []. rewrite app_nil_r. reflexivity.
  - exists []. rewrite app_nil_r. split; [reflexivity|left; reflexivity].
Qed.
Lemma GStep_trans cs0 c1 c2 c3 g1 g2 g3 : GStep cs0 c1 c2 g1 g2 -> GStep cs0 c2 c3 g2 g3 -> GStep cs0 c1 c3 g1 g3.
Proof.
  intros [a1 [d1 [b1 b1']] e1 f1 h1 [x1 i1] [m1 [j1 w1]]] [a2 [d2 [b2 b2']] e2 f2 h2 [x2 i2] [m2 [j2 w2]]].
  constructor; try lia.
  - rewrite a2, a1. reflexivity.
  - exists (d1 ++ d2). split.
    + rewrite b2, b1, app_assoc. reflexivity.
    + rewrite b2', app_assoc, b1'. rewrite <- !app_assoc. reflexivity.
  - exists (x1 ++ x2). rewrite i2, i1, app_assoc. reflexivity.
  - exists (m1 ++ m2). rewrite j2, j1, app_assoc. split; [reflexivity|apply Work_app; auto].
Qed.

Lemma chunks_in_app a b : chunks_in (a ++ b) = chunks_in a ++ chunks_in b.
Proof. unfold chunks_in. rewrite map_app, concat_app. reflexivity. Qed.

Lemma GStep_mk cs0 chunks g g' more (d e : bytes) :
  chunks_in more ++ k_inPend (g_k g') ++ k_held (g_k g') ++ g_in g' = k_inPend (g_k g) ++ k_held (g_k g) ++ g_in g ->
  outs cs0 (chunks ++ more) = outs cs0 chunks ++ d ->
  g_out g' = g_out g ++ e ->
  e ++ k_outPend (g_k g') = k_outPend (g_k g) ++ d ->
  g_ip g' + lenN (g_in g') = g_ip g + lenN (g_in g) ->
  lenN (g_in g') <= lenN (g_in g) ->
  g_ocap g' + lenN e = g_ocap g ->
  Work more ->
  GStep cs0 chunks (chunks ++ more) g g'.
Proof.
  intros Hin Hout He Hpend Hip Hlen Hcap Hw. constructor; auto.
  - rewrite chunks_in_app, <- app_assoc, Hin. reflexivity.
  - exists d. split; [exact Hout|]. rewrite He, <- app_assoc, Hpend. reflexivity.
  - rewrite He, lenN_app. lia.
  - exists e. exact He.
  - exists more. split; [reflexivity|exact Hw].
Qed.

Lemma GStep_same cs0 chunks g g' (e : bytes) :
  k_inPend (g_k g') ++ k_held (g_k g') ++ g_in g' = k_inPend (g_k g) ++ k_held (g_k g) ++ g_in g ->
  g_out g' = g_out g ++ e ->
  e ++ k_outPend (g_k g') = k_outPend (g_k g) ->
  g_ip g' + lenN (g_in g') = g_ip g + lenN (g_in g) ->
  lenN (g_in g') <= lenN (g_in g) ->
  g_ocap g' + lenN e = g_ocap g ->
  GStep cs0 chunks chunks g g'.
Proof.
  intros Hin He Hpend Hip Hlen Hcap.
  pose proof (GStep_mk cs0 chunks g g' [] [] e) as H. rewrite !app_nil_r in H. apply H; auto. left; reflexivity.
Qed.

(* why the loop of one call stopped *)
Inductive StopWhy (P : kparams) (dir : directive) (g' : gstate) : Prop :=
| SW_full : k_stage (g_k g') = KFlush -> g_ocap g' = 0 -> k_outFlushed (g_k g') < k_outContent (g_k g') -> StopWhy P dir g'
| SW_ended : k_stage (g_k g') = KInit -> k_frameEnded (g_k g') = true -> k_outPend (g_k g') = [] -> StopWhy P dir g'
| SW_cont : k_stage (g_k g') = KLoad -> dir = DirContinue -> g_in g' = [] -> StopWhy P dir g'
| SW_flushed : k_stage (g_k g') = KLoad -> dir = DirFlush -> g_in g' = [] -> k_inPend (g_k g') = [] -> k_held (g_k g') = [] ->
               StopWhy P dir g'.

Definition IterOK (P : kparams) (cs0 : CS) (dir : directive) (chunks : list (bytes * bool)) (g : gstate) (r : gres CS) : Prop :=
  match r with
  | GErr e => e = KdstSize_tooSmall
  | GCont g' => exists chunks', KI P cs0 chunks' (g_k g') /\ GStep cs0 chunks chunks' g g' /\ k_stage (g_k g') = KLoad /\
                                phi g' < phi g /\ k_held (g_k g') = [] /\ Strict P (g_k g')
  | GStop g' => exists chunks', KI P cs0 chunks' (g_k g') /\ GStep cs0 chunks chunks' g g' /\ StopWhy P dir g' /\
                                (k_held (g_k g') = [] \/ (kp_stableIn P = true /\ k_stage (g_k g') = KLoad)) /\ Strict P (g_k g')
  end.

(* ---------- the flush stage ---------- *)
Lemma g_flush_spec P cs0 dir chunks g :
  KI P cs0 chunks (g_k g) -> k_stage (g_k g) = KFlush -> k_held (g_k g) = [] -> Strict P (g_k g) ->
  IterOK P cs0 dir chunks g (g_flush g).
Proof.
  intros K Hst Hh HS. destruct g as [k gin gip gout gcap]. unfold Strict in *. ksimp.
  unfold CStreamModel.g_flush, IterOK. ksimp.
  pose proof (ki_out _ _ _ _ K) as Ho.
  set (toFlush := k_outContent k - k_outFlushed k).
  assert (HtF : toFlush = lenN (k_outPend k)) by (unfold toFlush; lia).
  destruct (N.eqb_spec toFlush (N.min gcap toFlush)) as [E|E]; cbn [negb].
  - (* flush completed *)
    assert (Hall : tk (N.min gcap toFlush) (k_outPend k) = k_outPend k) by (apply tk_all; lia).
    destruct (k_frameEnded k) eqn:Efe; ksimp; exists chunks.
    + (* frame ended: session reset *)
      split; [|split; [|split; [|split]]].
      * destruct K. constructor; ksimp; ki_close.
        intros _. split; [reflexivity|]. apply ki_ended0. exact Efe.
      * apply GStep_same with (e := tk (N.min gcap toFlush) (k_outPend k)); ksimp; try reflexivity; try lia.
        -- rewrite !app_nil_r. exact Hall.
        -- rewrite Hall. lia.
      * apply SW_ended; ksimp; auto.
      * left. exact Hh.
      * ksimp. intros; discriminate.
    + split; [|split; [|split; [reflexivity|split; [|split; [exact Hh|]]]]].
      * destruct K. constructor; ksimp; ki_close.
      * apply GStep_same with (e := tk (N.min gcap toFlush) (k_outPend k)); ksimp; try reflexivity; try lia.
        -- rewrite !app_nil_r. exact Hall.
        -- rewrite Hall. lia.
      * unfold phi. ksimp. rewrite Hst, Efe. lia.
      * ksimp. exact HS.
  - (* output full before the flush completes *)
    assert (Hmin : N.min gcap toFlush = gcap) by lia.
    rewrite Hmin. ksimp. exists chunks. split; [|split; [|split; [|split]]].
    + destruct K. constructor; ksimp; ki_close.
      rewrite len_dr. lia.
    + apply GStep_same with (e := tk gcap (k_outPend k)); ksimp; try reflexivity; try lia.
      * apply tk_dr.
      * rewrite len_tk. lia.
    + apply SW_full; ksimp; try reflexivity; lia.
    + left. exact Hh.
    + ksimp. exact HS.
Qed.

Lemma IterOK_trans P cs0 dir c1 c2 g1 g2 r :
  GStep cs0 c1 c2 g1 g2 -> phi g2 <= phi g1 -> IterOK P cs0 dir c2 g2 r -> IterOK P cs0 dir c1 g1 r.
Proof.
  intros S Hphi. destruct r as [g'|g'|e]; cbn [IterOK]; auto.
  - intros (c3 & K & S' & Hst & Hp & Hh & Hs). exists c3.
    split; [exact K|split; [eapply GStep_trans; eauto|split; [exact Hst|split; [lia|split; [exact Hh|exact Hs]]]]].
  - intros (c3 & K & S' & W & Hh & Hs). exists c3.
    split; [exact K|split; [eapply GStep_trans; eauto|split; [exact W|split; [exact Hh|exact Hs]]]].
Qed.

Lemma complete_snoc l c : nolast l -> complete (l ++ [(c, true)]).
Proof. intros H. exists l, c. split; [reflexivity|exact H]. Qed.

(* ---------- compressing the pending chunk ---------- *)
Lemma g_compress_spec P cs0 dir chunks g :
  KI P cs0 chunks (g_k g) -> k_stage (g_k g) = KLoad -> k_held (g_k g) = [] ->
  (if kp_stableIn P then g_in g <> [] \/ dir = DirEnd
   else k_inPend (g_k g) <> [] \/ (dir = DirEnd /\ g_in g = [])) ->
  IterOK P cs0 dir chunks g (g_compress P dir g).
Proof.
  intros K Hst Hh Hne. destruct g as [k gin gip gout gcap]. ksimp.
  pose proof (ki_load _ _ _ _ K Hst) as (Hc0 & Hfe).
  pose proof (ki_out _ _ _ _ K) as Ho.
  pose proof (ki_bs _ _ _ _ K ltac:(congruence)) as Hbs.
  assert (Hop : k_outPend k = []) by (apply lenN_zero_nil; lia).
  pose proof (ki_nolast _ _ _ _ K Hfe) as Hnl.
  unfold CStreamModel.g_compress. ksimp.
  destruct (kp_stableIn P) eqn:ESI; cbn [negb].
  - (* stable input: the chunk is taken from the caller's buffer *)
    pose proof (ki_in _ _ _ _ K) as Hin. rewrite ESI in Hin.
    set (iSize := N.min (lenN gin) (k_blockSize k)).
    set (isEnd := match dir with DirEnd => true | _ => false end).
    set (last := andb isEnd (lenN (dr iSize gin) =? 0)).
    destruct (compress_chunk (k_cs k) (tk iSize gin) last) as [cs' cout] eqn:ECC.
    set (direct := orb (fits_bound gcap iSize) (kp_stableOut P)).
    destruct (N.ltb_spec (if direct then gcap else k_outBuffSize k) (lenN cout)) as [Hbig|Hfit]; [reflexivity|].
    set (chunks' := chunks ++ [(tk iSize gin, last)]).
    assert (Hst' : st_of cs0 chunks' = cs').
    { unfold chunks'. rewrite st_of_snoc, <- (ki_cs _ _ _ _ K), ECC. reflexivity. }
    assert (Hout' : outs cs0 chunks' = outs cs0 chunks ++ cout).
    { unfold chunks'. rewrite outs_snoc, <- (ki_cs _ _ _ _ K), ECC. reflexivity. }
    assert (Hlast : last = true -> dr iSize gin = []).
    { unfold last. intros H. apply andb_prop in H. destruct H as [_ H]. apply N.eqb_eq in H. apply lenN_zero_nil. exact H. }
    assert (Hnz : last = false -> 1 <= iSize).
    { intros Hl. unfold iSize. destruct Hne as [Hne|Hne].
      - assert (lenN gin <> 0) by (intros Z; apply Hne, lenN_zero_nil, Z). lia.
      - subst dir. unfold last, isEnd in Hl. cbn [andb] in Hl. apply N.eqb_neq in Hl. rewrite len_dr in Hl. unfold iSize in Hl. lia. }
    assert (Hw : Work [(tk iSize gin, last)]).
    { apply Work_one. intros Hl E. specialize (Hnz Hl). apply (f_equal lenN) in E. rewrite len_tk, lenN_nil in E. unfold iSize in *. lia. }
    assert (KI' : forall st content flushed pend,
              flushed + lenN pend = content ->
              (st = KLoad -> content = 0 /\ last = false) ->
              (st = KInit -> pend = [] /\ last = true) ->
              KI P cs0 chunks' (k_set_out (k_set_cs k cs' last) st content flushed pend)).
    { intros st content flushed pend Hsum Hld Hini. destruct K. constructor; ksimp; rewrite ?ESI; ki_close.
      all: try (intros E El'; destruct (Hini E); congruence).
      all: try (intros E; destruct (Hld E); repeat split; auto; intros; discriminate).
      all: try (intros; discriminate).
      all: try (intros Hl; unfold chunks'; rewrite Hl; apply nolast_snoc; exact Hnl).
      all: try (intros Hl; split; [unfold chunks'; rewrite Hl; apply complete_snoc; exact Hnl|auto]).
      all: try (intros E; split; auto; apply Hini; auto). }
    destruct direct eqn:Edir.
    + (* written straight into the caller's output *)
      destruct last eqn:El.
      * cbn [IterOK]. exists chunks'. split; [|split; [|split; [|split]]]; [| | | |unfold Strict; congruence].
        -- pose proof (KI' KInit 0 0 []) as H. ksimp. rewrite Hc0, Hop in *.
           replace (k_outFlushed k) with 0 by lia. apply H; auto; intros; discriminate.
        -- apply GStep_mk with (d := cout) (e := cout); [| | | | | | |exact Hw]; ksimp; rewrite ?Hin, ?Hh, ?Hop; cbn [app]; try reflexivity.
           ++ unfold chunks_in. cbn. rewrite app_nil_r, Hlast by reflexivity. rewrite app_nil_r.
              rewrite <- (tk_dr iSize gin) at 2. rewrite Hlast by reflexivity. rewrite app_nil_r. reflexivity.
           ++ exact Hout'.
           ++ rewrite app_nil_r. reflexivity.
           ++ rewrite len_dr. pose proof (len_tk iSize gin). unfold iSize. lia.
           ++ rewrite len_dr. lia.
           ++ lia.
        -- apply SW_ended; ksimp; auto.
        -- left. ksimp. exact Hh.
      * cbn [IterOK]. exists chunks'. split; [|split; [|split; [|split; [|split]]]]; [| | | | |unfold Strict; congruence].
        -- pose proof (KI' KLoad 0 0 []) as H. ksimp. rewrite Hc0, Hop in *.
           replace (k_outFlushed k) with 0 by lia. rewrite Hst. apply H; auto; intros; discriminate.
        -- apply GStep_mk with (d := cout) (e := cout); [| | | | | | |exact Hw]; ksimp; rewrite ?Hin, ?Hh, ?Hop; cbn [app]; try reflexivity.
           ++ unfold chunks_in. cbn. rewrite app_nil_r. apply tk_dr.
           ++ exact Hout'.
           ++ rewrite app_nil_r. reflexivity.
           ++ rewrite len_dr. pose proof (len_tk iSize gin). unfold iSize. lia.
           ++ rewrite len_dr. lia.
           ++ lia.
        -- ksimp. exact Hst.
        -- unfold phi. ksimp. rewrite Hst, Hin, len_dr, Hfe. specialize (Hnz eq_refl). unfold iSize in *. lia.
        -- ksimp. exact Hh.
    + (* into outBuff, then the flush stage *)
      set (gmid := g_mk (k_set_out (k_set_cs k cs' last) KFlush (lenN cout) 0 cout) (dr iSize gin) (gip + iSize) gout gcap).
      apply IterOK_trans with (c2 := chunks') (g2 := gmid).
      * apply GStep_mk with (d := cout) (e := []); [| | | | | | |exact Hw]; unfold gmid; ksimp; rewrite ?Hin, ?Hh, ?Hop; cbn [app]; try reflexivity.
        -- unfold chunks_in. cbn. rewrite app_nil_r. apply tk_dr.
        -- exact Hout'.
        -- rewrite app_nil_r. reflexivity.
        -- rewrite len_dr. pose proof (len_tk iSize gin). unfold iSize. lia.
        -- rewrite len_dr. lia.
        -- cbn. lia.
      * unfold phi, gmid. ksimp. rewrite Hst, Hin, len_dr, Hfe.
        destruct last eqn:El.
        -- lia.
        -- specialize (Hnz eq_refl). unfold iSize in *. lia.
      * apply g_flush_spec; unfold gmid; ksimp; auto; [|unfold Strict; congruence].
        apply KI'; auto; intros; discriminate.
  - (* buffered input: the chunk is inBuff[inToCompress .. inBuffPos) *)
    pose proof (ki_in _ _ _ _ K) as Hin. rewrite ESI in Hin. destruct Hin as [Hsum Hle].
    set (isEnd := match dir with DirEnd => true | _ => false end).
    set (last := andb isEnd (lenN gin =? 0)).
    destruct (compress_chunk (k_cs k) (k_inPend k) last) as [cs' cout] eqn:ECC.
    set (iSize := k_inBuffPos k - k_inToCompress k).
    set (direct := orb (fits_bound gcap iSize) (kp_stableOut P)).
    destruct (N.ltb_spec (if direct then gcap else k_outBuffSize k) (lenN cout)) as [Hbig|Hfit]; [reflexivity|].
    set (chunks' := chunks ++ [(k_inPend k, last)]).
    assert (Hst' : st_of cs0 chunks' = cs').
    { unfold chunks'. rewrite st_of_snoc, <- (ki_cs _ _ _ _ K), ECC. reflexivity. }
    assert (Hout' : outs cs0 chunks' = outs cs0 chunks ++ cout).
    { unfold chunks'. rewrite outs_snoc, <- (ki_cs _ _ _ _ K), ECC. reflexivity. }
    assert (Hlast : last = true -> gin = []).
    { unfold last. intros H. apply andb_prop in H. destruct H as [_ H]. apply N.eqb_eq in H. apply lenN_zero_nil. exact H. }
    assert (Hnz : last = false -> k_inPend k <> []).
    { intros Hl. destruct Hne as [Hne|[-> Hne]]; [exact Hne|]. subst gin. discriminate Hl. }
    match goal with |- context [if k_inBuffSize k <? ?x then ?a else ?b] =>
      remember (if k_inBuffSize k <? x then a else b) as k2 eqn:Ek2 end.
    assert (K2 : k_inPend k2 = [] /\ k_held k2 = k_held k /\ k_outPend k2 = k_outPend k /\ k_stage k2 = k_stage k /\
                 k_cs k2 = cs' /\ k_frameEnded k2 = last /\ k_outContent k2 = k_outContent k /\ k_outFlushed k2 = k_outFlushed k /\
                 k_blockSize k2 = k_blockSize k /\
                 k_inToCompress k2 + 0 = k_inBuffPos k2 /\ k_inBuffPos k2 < k_inBuffTarget k2).
    { subst k2. destruct (k_inBuffSize k <? k_inBuffPos k + k_blockSize k); ksimp; repeat split; lia. }
    clear Ek2.
    destruct K2 as (K2a & K2b & K2c & K2d & K2e & K2f & K2g & K2h & K2i & K2j & K2k).
    assert (Hw : Work [(k_inPend k, last)]).
    { apply Work_one. exact Hnz. }
    assert (KI' : forall k3, k_cs k3 = cs' -> k_inPend k3 = [] -> k_inToCompress k3 = k_inBuffPos k3 ->
              k_inBuffPos k3 < k_inBuffTarget k3 -> k_frameEnded k3 = last -> k_blockSize k3 = k_blockSize k ->
              k_outFlushed k3 + lenN (k_outPend k3) = k_outContent k3 ->
              (k_stage k3 = KLoad -> k_outContent k3 = 0 /\ last = false) ->
              (k_stage k3 = KInit -> k_outPend k3 = [] /\ last = true) ->
              KI P cs0 chunks' k3).
    { intros k3 H1 H2 H3 H4 H5 H6 H7 H8 H9. constructor; rewrite ?ESI, ?H1, ?H2, ?H5, ?H6; ki_close.
      all: try (intros E El'; destruct (H9 E); congruence).
      all: try (rewrite lenN_nil; split; lia).
      all: try (intros E; destruct (H8 E); repeat split; auto; intros; discriminate).
      all: try (intros Hl; unfold chunks'; rewrite Hl; apply nolast_snoc; exact Hnl).
      all: try (intros Hl; split; [unfold chunks'; rewrite Hl; apply complete_snoc; exact Hnl|auto]).
      all: try (intros E; split; auto; apply H9; auto). }
    destruct direct eqn:Edir.
    + destruct last eqn:El.
      * cbn [IterOK]. exists chunks'. split; [|split; [|split; [|split]]]; [| | | |unfold Strict; ksimp; intros; exact K2k].
        -- apply KI'; ksimp; rewrite ?K2a, ?K2c, ?K2f, ?K2g, ?K2h, ?K2i; auto; try lia; try (intros; discriminate).
        -- apply GStep_mk with (d := cout) (e := cout); [| | | | | | |exact Hw]; ksimp; rewrite ?K2a, ?K2b, ?K2c, ?Hh, ?Hop; cbn [app]; try reflexivity; try lia.
           all: try (unfold chunks_in; cbn; rewrite ?app_nil_r; reflexivity).
           all: try exact Hout'.
        -- apply SW_ended; ksimp; rewrite ?K2f, ?K2c; auto.
        -- left. ksimp. rewrite K2b. exact Hh.
      * cbn [IterOK]. exists chunks'. split; [|split; [|split; [|split; [|split]]]]; [| | | | |unfold Strict; ksimp; intros; exact K2k].
        -- apply KI'; ksimp; rewrite ?K2a, ?K2c, ?K2f, ?K2g, ?K2h, ?K2i; auto; try lia; try (intros; discriminate).
           all: try (intros _; split; [lia|reflexivity]).
           all: try (rewrite K2d, Hst; intros; discriminate).
        -- apply GStep_mk with (d := cout) (e := cout); [| | | | | | |exact Hw]; ksimp; rewrite ?K2a, ?K2b, ?K2c, ?Hh, ?Hop; cbn [app]; try reflexivity; try lia.
           all: try (unfold chunks_in; cbn; rewrite ?app_nil_r; reflexivity).
           all: try exact Hout'.
        -- ksimp. rewrite K2d. exact Hst.
        -- unfold phi. ksimp. rewrite K2a, K2d, K2f, Hst, Hfe. specialize (Hnz eq_refl). destruct (k_inPend k); [congruence|lia].
        -- ksimp. rewrite K2b. exact Hh.
    + set (gmid := g_mk (k_set_out k2 KFlush (lenN cout) 0 cout) gin gip gout gcap).
      apply IterOK_trans with (c2 := chunks') (g2 := gmid).
      * apply GStep_mk with (d := cout) (e := []); [| | | | | | |exact Hw]; unfold gmid; ksimp; rewrite ?K2a, ?K2b, ?Hh, ?Hop; cbn [app]; try reflexivity; try lia.
        all: try (unfold chunks_in; cbn; rewrite ?app_nil_r; reflexivity).
        all: try exact Hout'.
        all: try (cbn; lia).
      * unfold phi, gmid. ksimp. rewrite Hst, K2a, K2f, Hfe.
        destruct last eqn:El.
        -- destruct (k_inPend k); lia.
        -- specialize (Hnz eq_refl). destruct (k_inPend k); [congruence|lia].
      * apply g_flush_spec; unfold gmid; ksimp; rewrite ?K2b; auto; [|unfold Strict; ksimp; intros; exact K2k].
        apply KI'; ksimp; rewrite ?K2a, ?K2c, ?K2f, ?K2g, ?K2h, ?K2i; auto; try lia; try (intros; discriminate).
Qed.

(* ---------- the load stage ---------- *)
Lemma phi_le_after_load (k k1 : kstate) gin gip gout gcap d :
  k_stage k1 = k_stage k -> k_frameEnded k1 = k_frameEnded k ->
  (d = 0 -> k_inPend k1 = k_inPend k) -> d <= lenN gin ->
  phi (g_mk k1 (dr d gin) (gip + d) gout gcap) <= phi (g_mk k gin gip gout gcap).
Proof.
  intros H1 H2 H3 H4. unfold phi. ksimp. rewrite H1, H2, len_dr.
  destruct (N.eqb_spec d 0) as [->|Hd].
  - rewrite H3 by reflexivity. lia.
  - destruct (k_inPend k1); destruct (k_inPend k); lia.
Qed.

Lemma g_load_spec P cs0 dir chunks g :
  KI P cs0 chunks (g_k g) -> k_stage (g_k g) = KLoad -> k_held (g_k g) = [] -> Strict P (g_k g) ->
  IterOK P cs0 dir chunks g (g_load P dir g).
Proof.
  intros K Hst Hh HS. destruct g as [k gin gip gout gcap]. ksimp.
  pose proof (ki_load _ _ _ _ K Hst) as (Hc0 & Hfe).
  pose proof (ki_out _ _ _ _ K) as Ho.
  pose proof (ki_bs _ _ _ _ K ltac:(congruence)) as Hbs.
  assert (Hop : k_outPend k = []) by (apply lenN_zero_nil; lia).
  pose proof (ki_nolast _ _ _ _ K Hfe) as Hnl.
  pose proof (ki_in _ _ _ _ K) as Hin.
  unfold CStreamModel.g_load. ksimp.
  set (isEnd := match dir with DirEnd => true | _ => false end).
  destruct (andb isEnd (andb (orb (fits_bound gcap (lenN gin)) (kp_stableOut P)) (k_inBuffPos k =? 0))) eqn:Eshort.
  - (* direct compressEnd of everything that is left *)
    apply andb_prop in Eshort. destruct Eshort as [Eend Eshort]. apply andb_prop in Eshort. destruct Eshort as [_ Epos].
    apply N.eqb_eq in Epos.
    assert (Hpend : k_inPend k = []).
    { destruct (kp_stableIn P); [exact Hin|]. apply lenN_zero_nil. lia. }
    destruct (compress_chunk (k_cs k) gin true) as [cs' cout] eqn:ECC.
    destruct (N.ltb_spec gcap (lenN cout)) as [Hbig|Hfit]; [reflexivity|].
    set (chunks' := chunks ++ [(gin, true)]).
    cbn [IterOK]. exists chunks'. split; [|split; [|split; [|split]]].
    + destruct K. constructor; ksimp; ki_close.
      all: try (unfold chunks'; rewrite st_of_snoc, <- ki_cs0, ECC; reflexivity).
      all: try (intros _; split; [apply complete_snoc; exact Hnl|exact Hpend]).
      all: try (intros _; split; [exact Hop|exact Hpend]).
    + apply GStep_mk with (d := cout) (e := cout); [| | | | | | |apply Work_one; intros; discriminate]; ksimp; rewrite ?Hpend, ?Hh, ?Hop; cbn [app]; try reflexivity; try lia.
      all: try (unfold chunks_in; cbn; rewrite ?app_nil_r; reflexivity).
      all: try (rewrite outs_snoc, <- (ki_cs _ _ _ _ K), ECC; reflexivity).
      all: try (cbn [lenN lenN_acc]; lia).
    + apply SW_ended; ksimp; auto.
    + left. ksimp. exact Hh.
    + unfold Strict. ksimp. intros; discriminate.
  - destruct (kp_stableIn P) eqn:ESI; cbn [negb].
    + (* stable input *)
      destruct dir.
      * destruct (N.ltb_spec (lenN gin) (k_blockSize k)) as [Hsmall|Hbig].
        -- cbn [IterOK]. exists chunks. split; [|split; [|split; [|split]]].
           ++ destruct K. constructor; ksimp; ki_close.
           ++ apply GStep_same with (e := []); ksimp; rewrite ?Hh, ?app_nil_r; cbn [app]; try reflexivity; try lia.
              all: rewrite ?lenN_nil; lia.
           ++ apply SW_cont; ksimp; auto.
           ++ right. ksimp. split; [exact ESI|exact Hst].
           ++ unfold Strict. intros; congruence.
        -- apply g_compress_spec; ksimp; auto. rewrite ESI. left. intros ->. cbn in Hbig. lia.
      * destruct (N.eqb_spec (lenN gin) 0) as [Hz|Hnz].
        -- cbn [IterOK]. exists chunks. split; [exact K|split; [apply GStep_refl|split; [|split]]].
           ++ apply SW_flushed; ksimp; auto. apply lenN_zero_nil; exact Hz.
           ++ left. exact Hh.
           ++ unfold Strict. intros; congruence.
        -- apply g_compress_spec; ksimp; auto. rewrite ESI. left. intros ->. apply Hnz. reflexivity.
      * apply g_compress_spec; ksimp; auto. rewrite ESI. right. reflexivity.
    + (* buffered input: fill inBuff up to inBuffTarget *)
      destruct Hin as [Hsum Hle].
      pose proof (HS ESI Hfe) as Hlt. ksimp.
      set (toLoad := k_inBuffTarget k - k_inBuffPos k).
      set (loaded := N.min toLoad (lenN gin)).
      set (k1 := k_set_in k (k_inBuffPos k + loaded) (k_inToCompress k) (k_inBuffTarget k) (k_inPend k ++ tk loaded gin)).
      set (g1 := g_mk k1 (dr loaded gin) (gip + loaded) gout gcap).
      assert (K1 : KI P cs0 chunks k1).
      { destruct K. unfold k1. constructor; ksimp; rewrite ?ESI; ki_close.
        rewrite lenN_app, len_tk. unfold loaded, toLoad. split; lia. }
      assert (S1 : GStep cs0 chunks chunks (g_mk k gin gip gout gcap) g1).
      { apply GStep_same with (e := []); unfold g1, k1; ksimp; rewrite ?Hh, ?app_nil_r, ?lenN_nil, ?len_dr; cbn [app]; try reflexivity.
        all: try (rewrite <- app_assoc, tk_dr; reflexivity).
        all: unfold loaded; lia. }
      assert (Hphi : phi g1 <= phi (g_mk k gin gip gout gcap)).
      { unfold g1. apply phi_le_after_load; unfold k1; ksimp; auto.
        - intros ->. rewrite tk_0, app_nil_r. reflexivity.
        - unfold loaded. lia. }
      assert (Hcomp : (k_inPend k1 <> [] \/ (dir = DirEnd /\ g_in g1 = [])) ->
                      IterOK P cs0 dir chunks (g_mk k gin gip gout gcap) (g_compress P dir g1)).
      { intros Hne. eapply IterOK_trans; [exact S1|exact Hphi|].
        apply g_compress_spec; unfold g1; ksimp; auto. rewrite ESI. exact Hne. }
      assert (F1 : k_inPend k1 = [] -> k_inBuffPos k + loaded = k_inToCompress k).
      { unfold k1. ksimp. intros E. apply (f_equal lenN) in E. rewrite lenN_app, len_tk, lenN_nil in E. unfold loaded, toLoad in *. lia. }
      destruct dir.
      * (* continue: stop unless the block is full *)
        change (IterOK P cs0 DirContinue chunks (g_mk k gin gip gout gcap)
                  (if k_inBuffPos k + loaded <? k_inBuffTarget k then GStop g1 else g_compress P DirContinue g1)).
        destruct (N.ltb_spec (k_inBuffPos k + loaded) (k_inBuffTarget k)) as [Hpart|Hfull].
        -- cbn [IterOK]. exists chunks. split; [exact K1|split; [exact S1|split; [|split]]].
           ++ apply SW_cont; unfold g1; ksimp; auto. apply lenN_zero_nil. rewrite len_dr. unfold loaded, toLoad in *. lia.
           ++ left. unfold g1, k1. ksimp. exact Hh.
           ++ unfold Strict, g1, k1. ksimp. intros; lia.
        -- apply Hcomp. left. intros E. apply F1 in E. unfold loaded, toLoad in *. lia.
      * (* flush: stop when nothing is pending *)
        change (IterOK P cs0 DirFlush chunks (g_mk k gin gip gout gcap)
                  (if k_inBuffPos k + loaded =? k_inToCompress k then GStop g1 else g_compress P DirFlush g1)).
        destruct (N.eqb_spec (k_inBuffPos k + loaded) (k_inToCompress k)) as [Hnone|Hsome].
        -- assert (Hl0 : loaded = 0) by lia.
           assert (Hg : gin = []). { apply lenN_zero_nil. unfold loaded, toLoad in Hl0. lia. }
           cbn [IterOK]. exists chunks. split; [exact K1|split; [exact S1|split; [|split]]].
           ++ apply SW_flushed; unfold g1, k1; ksimp; auto.
              ** rewrite Hg. apply dr_all. cbn. lia.
              ** apply lenN_zero_nil. rewrite lenN_app, len_tk. lia.
           ++ left. unfold g1, k1. ksimp. exact Hh.
           ++ unfold Strict, g1, k1. ksimp. intros; lia.
        -- apply Hcomp. left. intros E. apply F1 in E. lia.
      * change (IterOK P cs0 DirEnd chunks (g_mk k gin gip gout gcap) (g_compress P DirEnd g1)).
        apply Hcomp. destruct (k_inPend k1) eqn:E1; [right|left; discriminate].
        split; [reflexivity|]. specialize (F1 eq_refl). unfold g1. ksimp.
        apply lenN_zero_nil. rewrite len_dr. unfold loaded, toLoad in *. lia.
Qed.

(* ---------- one iteration, the loop ---------- *)
Lemma g_iter_spec P cs0 dir chunks g :
  KI P cs0 chunks (g_k g) -> k_stage (g_k g) <> KInit -> k_held (g_k g) = [] -> Strict P (g_k g) ->
  IterOK P cs0 dir chunks g (g_iter P dir g).
Proof.
  intros K Hst Hh HS. unfold CStreamModel.g_iter. destruct (k_stage (g_k g)) eqn:E; [congruence| |].
  - apply g_load_spec; auto.
  - apply g_flush_spec; auto.
Qed.

Definition LoopOK (P : kparams) (cs0 : CS) (dir : directive) (chunks : list (bytes * bool)) (g : gstate) (r : gres CS) : Prop :=
  match r with
  | GErr e => e = KdstSize_tooSmall
  | GCont _ => False
  | GStop g' => exists chunks', KI P cs0 chunks' (g_k g') /\ GStep cs0 chunks chunks' g g' /\ StopWhy P dir g' /\
                                (k_held (g_k g') = [] \/ (kp_stableIn P = true /\ k_stage (g_k g') = KLoad)) /\ Strict P (g_k g')
  end.

Lemma phi_ge_2 (g : gstate) : k_frameEnded (g_k g) = false -> 2 <= phi g.
Proof. intros H. unfold phi. rewrite H. lia. Qed.

Lemma g_loop_spec P cs0 dir : forall fuel chunks g,
  KI P cs0 chunks (g_k g) -> k_stage (g_k g) <> KInit -> k_held (g_k g) = [] -> Strict P (g_k g) ->
  phi g < N.of_nat fuel + 2 -> (1 <= fuel)%nat ->
  LoopOK P cs0 dir chunks g (g_loop fuel P dir g).
Proof.
  induction fuel as [|f IH]; intros chunks g K Hst Hh HS Hphi Hf; [lia|].
  cbn [CStreamModel.g_loop].
  pose proof (g_iter_spec P cs0 dir chunks g K Hst Hh HS) as Hi.
  destruct (g_iter P dir g) as [g'|g'|e]; cbn [IterOK] in Hi.
  - destruct Hi as (c' & K' & S' & Hst' & Hp & Hh' & HS').
    pose proof (ki_load _ _ _ _ K' Hst') as (_ & Hfe').
    pose proof (phi_ge_2 g' Hfe') as H2.
    assert (Hf' : (1 <= f)%nat) by lia.
    assert (Hphi' : phi g' < N.of_nat f + 2) by lia.
    specialize (IH c' g' K' ltac:(congruence) Hh' HS' Hphi' Hf').
    unfold LoopOK in *. destruct (g_loop f P dir g') as [g2|g2|e2]; auto.
    destruct IH as (c2 & K2 & S2 & W2 & Hh2 & HS2). exists c2.
    split; [exact K2|split; [eapply GStep_trans; eauto|split; [exact W2|split; [exact Hh2|exact HS2]]]].
  - exact Hi.
  - exact Hi.
Qed.

Lemma phi_bound (g : gstate) : phi g <= 2 * lenN (g_in g) + 5.
Proof. unfold phi. destruct (k_stage (g_k g)); destruct (k_inPend (g_k g)); destruct (k_frameEnded (g_k g)); lia. Qed.

(* ---------- one call of ZSTD_compressStream2 ---------- *)
Record SI (P : kparams) (cs0 : CS) (chunks : list (bytes * bool)) (k : kstate) : Prop := {
  si_ki : KI P cs0 chunks k;
  si_strict : k_stage k <> KInit -> Strict P k;
  si_held : kp_stableIn P = false -> k_held k = [];
  si_flush : k_stage k = KFlush -> k_outFlushed k < k_outContent k /\ k_held k = [] }.

(* why the call returned: [rest] = input offered but not taken, [capleft] = output room left *)
Inductive CallStop (P : kparams) (dir : directive) (k' : kstate) (rest : bytes) (capleft : N) : Prop :=
| CS_full : k_stage k' = KFlush -> capleft = 0 -> k_outFlushed k' < k_outContent k' -> CallStop P dir k' rest capleft
| CS_ended : k_stage k' = KInit -> k_frameEnded k' = true -> k_outPend k' = [] -> k_inPend k' = [] -> CallStop P dir k' rest capleft
| CS_cont : k_stage k' = KLoad -> dir = DirContinue -> rest = [] -> k_outPend k' = [] -> CallStop P dir k' rest capleft
| CS_flushed : k_stage k' = KLoad -> dir = DirFlush -> rest = [] -> k_inPend k' = [] -> k_held k' = [] -> k_outPend k' = [] ->
               CallStop P dir k' rest capleft
| CS_deferred : k_stage k' = KInit -> dir = DirContinue -> rest = [] -> kp_stableIn P = true -> CallStop P dir k' rest capleft.

Lemma kfuel_N n : N.of_nat (kfuel n) = 2 * N.of_nat n + 4.
Proof. unfold kfuel. lia. Qed.

Lemma KI_init P fc pledged (k : kstate) :
  1 <= fc_maxBlock fc ->
  let k0 := k_init CS cs_begin P fc pledged k in
  KI P (cs_begin (k_cs k) fc pledged) [] k0 /\ Strict P k0 /\ k_stage k0 = KLoad /\ k_held k0 = k_held k /\
  k_inPend k0 = [] /\ k_outPend k0 = [].
Proof.
  intros Hmb. unfold k_init. cbv zeta.
  set (windowSize := N.max 1 (N.min (pow2 (fc_windowLog fc)) pledged)).
  set (blockSize := N.min (fc_maxBlock fc) windowSize).
  assert (Hbs : 1 <= blockSize) by (unfold blockSize, windowSize; lia).
  split; [|split; [|split; [|split; [|split]]]]; ksimp; try reflexivity.
  - constructor; ksimp; ki_close.
    1: { destruct (kp_stableIn P); [reflexivity|]. change (lenN (@nil N)) with 0. split; [lia|]. destruct (blockSize =? pledged); lia. }
    all: try (intros c []; fail).
    all: try (intros; discriminate).
    all: try (intros _ c H; destruct H; fail).
  - unfold Strict. ksimp. intros ->. intros _. destruct (blockSize =? pledged); lia.
Qed.

Lemma kstep_spec P fc cs0 chunks k inp ocap dir :
  SI P cs0 chunks k -> 1 <= fc_maxBlock fc ->
  let o := kstep P fc k inp ocap dir in
  match ko_ret o with
  | None => ko_err o = Some KdstSize_tooSmall \/ ko_err o = Some Kstability
  | Some r =>
      exists cs1 chunks1 chunks2 taken rest capleft,
        ((cs1 = cs0 /\ chunks1 = chunks /\ (k_stage k = KInit -> chunks2 = chunks /\ k_stage (ko_k o) = KInit)) \/
         (k_stage k = KInit /\ chunks1 = [] /\ exists pl, cs1 = cs_begin (k_cs k) fc pl)) /\
        SI P cs1 chunks2 (ko_k o) /\
        (exists more, chunks2 = chunks1 ++ more /\ Work more) /\
        k_held k ++ inp = taken ++ rest /\
        ko_consumed o = (Z.of_N (lenN taken) - Z.of_N (lenN (k_held k)))%Z /\
        chunks_in chunks2 ++ k_inPend (ko_k o) ++ k_held (ko_k o) = chunks_in chunks1 ++ k_inPend k ++ taken /\
        (exists d, outs cs1 chunks2 = outs cs1 chunks1 ++ d /\ ko_out o ++ k_outPend (ko_k o) = k_outPend k ++ d) /\
        lenN (ko_out o) + capleft = ocap /\
        (r = k_outContent (ko_k o) - k_outFlushed (ko_k o) \/
         (r = hdr_min (kp_magicless P) /\ dir = DirContinue /\ kp_stableIn P = true /\ k_stage (ko_k o) = KInit)) /\
        CallStop P dir (ko_k o) rest capleft
  end.
Proof.
  intros S Hmb. destruct S as [K HS Hheld Hfl].
  unfold CStreamModel.kstep. cbv zeta.
  set (isCont := match dir with DirContinue => true | _ => false end).
  set (isEnd := match dir with DirEnd => true | _ => false end).
  set (total := lenN inp + lenN (k_held k)).
  destruct (match k_stage k with KInit => andb (kp_stableIn P) (andb isCont (total <? BLOCKMAX)) | _ => false end) eqn:Eearly.
  - (* deferred initialisation (stable input, nothing compressed yet) *)
    cbn [ko_ret ko_k ko_consumed ko_out].
    destruct (k_stage k) eqn:Est; try discriminate.
    apply andb_prop in Eearly. destruct Eearly as [ESI Eearly]. apply andb_prop in Eearly. destruct Eearly as [Ec _].
    assert (Hdir : dir = DirContinue) by (destruct dir; try discriminate; reflexivity).
    pose proof (ki_init _ _ _ _ K Est) as [Hop Hip].
    exists cs0, chunks, chunks, (k_held k ++ inp), [], ocap.
    split; [left; split; [reflexivity|split; [reflexivity|intros _; split; [reflexivity|ksimp; exact Est]]]|].
    split; [|split; [exists []; rewrite app_nil_r; split; [reflexivity|left; reflexivity]|]].
    + constructor; ksimp; try congruence.
      destruct K. constructor; ksimp; ki_close.
    + split; [rewrite app_nil_r; reflexivity|]. split; [rewrite lenN_app; lia|].
      ksimp. split; [reflexivity|]. split; [exists []; rewrite !app_nil_r; split; reflexivity|].
      split; [cbn; lia|]. split; [right; repeat split; auto|].
      apply CS_deferred; ksimp; auto.
  - (* initialise a frame if needed, then run the state machine *)
    clear Eearly.
    set (k0 := match k_stage k with
               | KInit => k_set_expect (k_init CS cs_begin P fc (if isEnd then total else fc_pledge fc) k) ocap
               | _ => k end).
    assert (H0 : exists cs1 chunks1,
               ((cs1 = cs0 /\ chunks1 = chunks /\ k_stage k <> KInit) \/ (k_stage k = KInit /\ chunks1 = [] /\ exists pl, cs1 = cs_begin (k_cs k) fc pl)) /\
               KI P cs1 chunks1 k0 /\ Strict P k0 /\ k_stage k0 <> KInit /\ k_held k0 = k_held k /\
               k_inPend k0 = k_inPend k /\ k_outPend k0 = k_outPend k /\
               (k_stage k0 = KFlush -> k_held k = [])).
    { unfold k0. destruct (k_stage k) eqn:Est.
      - pose proof (KI_init P fc (if isEnd then total else fc_pledge fc) k Hmb) as (Ki & Si & Sti & Hhi & Hpi & Hoi).
        pose proof (ki_init _ _ _ _ K Est) as [Hop Hip].
        exists (cs_begin (k_cs k) fc (if isEnd then total else fc_pledge fc)), [].
        split; [right; split; [reflexivity|split; [reflexivity|eexists; reflexivity]]|].
        split; [|split; [|split; [|split; [|split; [|split]]]]]; ksimp; try congruence.
        + destruct Ki. constructor; ksimp; ki_close.
        + unfold Strict in *. ksimp. exact Si.
      - exists cs0, chunks. split; [left; split; [reflexivity|split; [reflexivity|congruence]]|].
        split; [exact K|split; [apply HS; congruence|split; [congruence|repeat split; auto; intros; congruence]]].
      - exists cs0, chunks. split; [left; split; [reflexivity|split; [reflexivity|congruence]]|].
        split; [exact K|split; [apply HS; congruence|split; [congruence|repeat split; auto]]].
        intros _. apply Hfl. reflexivity. }
    destruct H0 as (cs1 & chunks1 & Hfr & K0 & S0 & Hst0 & Hh0 & Hip0 & Hop0 & Hfh0).
    destruct (andb (kp_stableOut P) (negb (k_expectOut k0 =? ocap))); [right; reflexivity|].
    set (I := if kp_stableIn P then k_held k0 ++ inp else inp).
    set (g0 := g_mk (k_set_held k0 []) I 0 [] ocap).
    assert (HI : k_held k ++ inp = I).
    { unfold I. rewrite Hh0. destruct (kp_stableIn P) eqn:E; [reflexivity|]. rewrite (Hheld eq_refl). reflexivity. }
    assert (Kg : KI P cs1 chunks1 (g_k g0)).
    { unfold g0. ksimp. destruct K0. constructor; ksimp; ki_close. }
    assert (Sg : Strict P (g_k g0)) by (unfold g0, Strict in *; ksimp; exact S0).
    assert (Hphi : phi g0 < N.of_nat (kfuel (length I)) + 2).
    { rewrite kfuel_N. pose proof (phi_bound g0) as Hb. unfold g0 in Hb at 2. ksimp. rewrite lenN_length in Hb. lia. }
    pose proof (g_loop_spec P cs1 dir (kfuel (length I)) chunks1 g0 Kg ltac:(unfold g0; ksimp; exact Hst0)
                  ltac:(unfold g0; ksimp; reflexivity) Sg Hphi ltac:(unfold kfuel; lia)) as HL.
    match goal with |- context [CStreamModel.g_loop CS compress_chunk ?f P dir ?g] =>
      change (CStreamModel.g_loop CS compress_chunk f P dir g) with (g_loop (kfuel (length I)) P dir g0) end.
    destruct (g_loop (kfuel (length I)) P dir g0) as [g'|g'|e]; cbn [LoopOK] in HL.
    + destruct HL.
    + destruct HL as (c2 & K2 & S2 & W2 & Hh2 & HS2).
      cbn [ko_ret ko_k ko_consumed ko_out].
      destruct S2 as [Gin [d [Gout Gout']] Gip Glen Gcap [e Ge] [more [Gext Gw]]].
      unfold g0 in Gin, Gout', Gip, Glen, Gcap, Ge. ksimp.
      rewrite app_nil_l in Gout'. rewrite app_nil_l in Ge.
      assert (Hconv : (chunks_in c2 ++ k_inPend (g_k g') ++ k_held (g_k g')) ++ g_in g' = (chunks_in chunks1 ++ k_inPend k0) ++ I).
      { rewrite <- !app_assoc. exact Gin. }
      destruct (app_suffix_split _ _ _ _ Hconv Glen) as [Hrest Hpre].
      pose proof (ki_out _ _ _ _ K2) as Ho2.
      exists cs1, chunks1, c2, (tk (lenN I - lenN (g_in g')) I), (g_in g'), (g_ocap g').
      split; [destruct Hfr as [(Ha & Hb & Hc)|Hfr]; [left; split; [exact Ha|split; [exact Hb|intros E; congruence]]|right; exact Hfr]|].
      split; [|split; [exists more; split; [exact Gext|exact Gw]|]].
      * (* SI of the new state *)
        constructor; ksimp.
        -- destruct K2. constructor; ksimp; ki_close.
        -- intros Hne. unfold Strict in *. ksimp. exact HS2.
        -- intros E. destruct Hh2 as [Hh2|[Hh2 _]]; [exact Hh2|congruence].
        -- intros Ef. destruct W2 as [W1 W2' W3|W1 W2' W3|W1 W2' W3|W1 W2' W3 W4 W5]; try congruence.
           split; [exact W3|]. destruct Hh2 as [Hh2|[_ Hh2]]; [exact Hh2|congruence].
      * split; [transitivity I; [exact HI|]; rewrite Hrest at 2; symmetry; apply tk_dr|].
        split; [rewrite len_tk, Hh0; destruct (kp_stableIn P) eqn:E; [|rewrite (Hheld eq_refl); change (lenN (@nil N)) with 0]; lia|].
        split; [rewrite Hpre, Hip0, <- app_assoc; reflexivity|].
        split; [exists d; split; [exact Gout|rewrite Hop0 in Gout'; exact Gout']|].
        split; [change (lenN (@nil N)) with 0 in Gcap; lia|]. split; [left; reflexivity|].
        destruct W2 as [W1 W2' W3|W1 W2' W3|W1 W2' W3|W1 W2' W3 W4 W5].
        -- apply CS_full; ksimp; auto.
        -- apply CS_ended; ksimp; auto. apply (ki_ended _ _ _ _ K2 W2').
        -- pose proof (ki_load _ _ _ _ K2 W1) as [Hc _].
           apply CS_cont; ksimp; auto. apply lenN_zero_nil. lia.
        -- pose proof (ki_load _ _ _ _ K2 W1) as [Hc _].
           apply CS_flushed; ksimp; auto. apply lenN_zero_nil. lia.
    + cbn [ko_ret ko_err]. left. rewrite HL. reflexivity.
Qed.


(* ---------- C10: progress, flush completion, end completion (per call, from any reachable state) ---------- *)
Lemma SI_new P cs : SI P cs [] (k_new cs).
Proof.
  constructor; unfold k_new; ksimp; try congruence; try reflexivity.
  - constructor; ksimp; ki_close.
    all: try (destruct (kp_stableIn P); [reflexivity|change (lenN (@nil N)) with 0; split; lia]).
    all: try (intros; discriminate).
    all: try (intros c H; destruct H; fail).
    all: try (intros _ c H; destruct H; fail).
Qed.

(* a call that is given input and output room consumes input, or produces output, or completes the frame *)
Theorem cstream_progress P fc cs0 chunks k inp ocap dir r :
  SI P cs0 chunks k -> 1 <= fc_maxBlock fc -> inp <> [] -> 0 < ocap ->
  let o := kstep P fc k inp ocap dir in
  ko_ret o = Some r ->
  (0 < ko_consumed o)%Z \/ ko_out o <> [] \/ (k_stage (ko_k o) = KInit /\ k_frameEnded (ko_k o) = true).
Proof.
  intros S Hmb Hinp Hcap o Hret. pose proof (kstep_spec P fc cs0 chunks k inp ocap dir S Hmb) as H.
  cbv zeta in H. fold o in H. rewrite Hret in H.
  destruct H as (cs1 & c1 & c2 & taken & rest & capleft & _ & _ & _ & Hsplit & Hcons & _ & _ & Hout & _ & Hstop).
  assert (Hall : rest = [] -> (0 < ko_consumed o)%Z).
  { intros ->. rewrite app_nil_r in Hsplit. rewrite Hcons, <- Hsplit, lenN_app.
    assert (lenN inp <> 0) by (intros Z; apply Hinp, lenN_zero_nil, Z). lia. }
  destruct Hstop as [H1 H2 H3|H1 H2 H3 H4|H1 H2 H3 H4|H1 H2 H3 H4 H5 H6|H1 H2 H3 H4].
  - right. left. intros E. rewrite E in Hout. cbn in Hout. lia.
  - right. right. split; assumption.
  - left. apply Hall. exact H3.
  - left. apply Hall. exact H3.
  - left. apply Hall. exact H3.
Qed.

(* flush returned 0: nothing is pending on either side and the whole offered input went through the block compressor *)
Theorem cstream_flush_complete P fc cs0 chunks k inp ocap :
  SI P cs0 chunks k -> 1 <= fc_maxBlock fc ->
  let o := kstep P fc k inp ocap DirFlush in
  ko_ret o = Some 0 ->
  k_inPend (ko_k o) = [] /\ k_outPend (ko_k o) = [] /\
  (k_stage (ko_k o) = KLoad -> k_held (ko_k o) = [] /\ ko_consumed o = Z.of_N (lenN inp)).
Proof.
  intros S Hmb o Hret. pose proof (kstep_spec P fc cs0 chunks k inp ocap DirFlush S Hmb) as H.
  cbv zeta in H. fold o in H. rewrite Hret in H.
  destruct H as (cs1 & c1 & c2 & taken & rest & capleft & _ & S' & _ & Hsplit & Hcons & _ & _ & Hout & Hr & Hstop).
  destruct Hstop as [H1 H2 H3|H1 H2 H3 H4|H1 H2 H3 H4|H1 H2 H3 H4 H5 H6|H1 H2 H3 H4]; try discriminate.
  - destruct Hr as [Hr|(_ & Hd & _)]; [lia|discriminate].
  - split; [exact H4|split; [exact H3|]]. intros E. congruence.
  - split; [exact H4|split; [exact H6|]]. intros _. split; [exact H5|].
    subst rest. rewrite app_nil_r in Hsplit. rewrite Hcons, <- Hsplit, lenN_app. lia.
Qed.

(* end returned 0: the frame is complete - the closing chunk (epilogue) went out and nothing is pending *)
Theorem cstream_end_complete P fc cs0 chunks k inp ocap :
  SI P cs0 chunks k -> 1 <= fc_maxBlock fc ->
  let o := kstep P fc k inp ocap DirEnd in
  ko_ret o = Some 0 ->
  exists cs1 chunks2, SI P cs1 chunks2 (ko_k o) /\ complete chunks2 /\
    k_stage (ko_k o) = KInit /\ k_frameEnded (ko_k o) = true /\ k_inPend (ko_k o) = [] /\ k_outPend (ko_k o) = [].
Proof.
  intros S Hmb o Hret. pose proof (kstep_spec P fc cs0 chunks k inp ocap DirEnd S Hmb) as H.
  cbv zeta in H. fold o in H. rewrite Hret in H.
  destruct H as (cs1 & c1 & c2 & taken & rest & capleft & _ & S' & _ & Hsplit & Hcons & _ & _ & Hout & Hr & Hstop).
  destruct Hstop as [H1 H2 H3|H1 H2 H3 H4|H1 H2 H3 H4|H1 H2 H3 H4 H5 H6|H1 H2 H3 H4]; try discriminate.
  - destruct Hr as [Hr|(_ & Hd & _)]; [lia|discriminate].
  - exists cs1, c2. split; [exact S'|]. split; [apply (ki_ended _ _ _ _ (si_ki _ _ _ _ S') H2)|]. repeat split; assumption.
Qed.

(* an unfinished end call has filled the whole output buffer it was given *)
Theorem cstream_end_fills_output P fc cs0 chunks k inp ocap r :
  SI P cs0 chunks k -> 1 <= fc_maxBlock fc ->
  let o := kstep P fc k inp ocap DirEnd in
  ko_ret o = Some r -> r <> 0 -> lenN (ko_out o) = ocap.
Proof.
  intros S Hmb o Hret Hr0. pose proof (kstep_spec P fc cs0 chunks k inp ocap DirEnd S Hmb) as H.
  cbv zeta in H. fold o in H. rewrite Hret in H.
  destruct H as (cs1 & c1 & c2 & taken & rest & capleft & _ & S' & _ & Hsplit & Hcons & _ & _ & Hout & Hr & Hstop).
  destruct Hstop as [H1 H2 H3|H1 H2 H3 H4|H1 H2 H3 H4|H1 H2 H3 H4 H5 H6|H1 H2 H3 H4]; try discriminate.
  - lia.
  - exfalso. apply Hr0. destruct Hr as [Hr|(_ & Hd & _)]; [|discriminate].
    pose proof (ki_out _ _ _ _ (si_ki _ _ _ _ S')) as Ho. rewrite H3 in Ho. cbn in Ho. lia.
Qed.

(* ---------- C02: whole histories ---------- *)
Notation krun := (krun CS cs_begin compress_chunk).

Definition frames_in (dones : list (CS * list (bytes * bool))) : bytes := concat (map (fun f => chunks_in (snd f)) dones).
Definition frames_out (dones : list (CS * list (bytes * bool))) : bytes := concat (map (fun f => outs (fst f) (snd f)) dones).
Definition begun (f : CS * list (bytes * bool)) : Prop :=
  snd f = [] \/ exists cs fc pl, fst f = cs_begin cs fc pl.
Definition begun_now (k : kstate) (cs0 : CS) (chunks : list (bytes * bool)) : Prop :=
  (k_stage k = KInit /\ chunks = []) \/ exists cs fc pl, cs0 = cs_begin cs fc pl.

(* [dones] = the frames already completed, (cs0, chunks) = the frame in progress (or the last completed one until the
   next frame is initialised) *)
Record HInv (P : kparams) (X : bytes) (pos : N) (emitted : bytes) (k : kstate)
            (dones : list (CS * list (bytes * bool))) (cs0 : CS) (chunks : list (bytes * bool)) : Prop := {
  hi_si : SI P cs0 chunks k;
  hi_in : tk pos X = frames_in dones ++ chunks_in chunks ++ k_inPend k ++ k_held k;
  hi_pos : pos <= lenN X;
  hi_out : frames_out dones ++ outs cs0 chunks = emitted ++ k_outPend k;
  hi_done : forall f, In f dones -> (snd f = [] \/ complete (snd f)) /\ begun f;
  hi_begun : begun_now k cs0 chunks }.

Lemma frames_in_snoc dones f : frames_in (dones ++ [f]) = frames_in dones ++ chunks_in (snd f).
Proof. unfold frames_in. rewrite map_app, concat_app. cbn. rewrite app_nil_r. reflexivity. Qed.
Lemma frames_out_snoc dones f : frames_out (dones ++ [f]) = frames_out dones ++ outs (fst f) (snd f).
Proof. unfold frames_out. rewrite map_app, concat_app. cbn. rewrite app_nil_r. reflexivity. Qed.

Lemma HInv_new P X cs : HInv P X 0 [] (k_new cs) [] cs [].
Proof.
  constructor; try (cbn; reflexivity).
  - apply SI_new.
  - lia.
  - intros f [].
  - left. split; reflexivity.
Qed.

Lemma tk_prefix_of_app (a b : bytes) n : n = lenN a -> tk n (a ++ b) = a.
Proof. intros ->. apply tk_app_exact. Qed.

Lemma HInv_step P X pos emitted k dones cs0 chunks (c : kcall) r :
  HInv P X pos emitted k dones cs0 chunks -> 1 <= fc_maxBlock (kc_fc c) ->
  let o := kstep P (kc_fc c) k (tk (kc_n c) (dr pos X)) (kc_cap c) (kc_dir c) in
  ko_ret o = Some r ->
  exists dones' cs0' chunks',
    HInv P X (Z.to_N (Z.of_N pos + ko_consumed o)) (emitted ++ ko_out o) (ko_k o) dones' cs0' chunks'.
Proof.
  intros [HS Hin Hpos Hout Hdone Hbeg] Hmb o Hret.
  pose proof (kstep_spec P (kc_fc c) cs0 chunks k (tk (kc_n c) (dr pos X)) (kc_cap c) (kc_dir c) HS Hmb) as H.
  cbv zeta in H. fold o in H. rewrite Hret in H.
  destruct H as (cs1 & c1 & c2 & taken & rest & capleft & Hfr & S' & (more & Hmore & _) & Hsplit & Hcons & Hconv & (d & Hd & Hd') & _ & _ & _).
  set (inp := tk (kc_n c) (dr pos X)) in *.
  (* the bytes seen by this call are the next bytes of X *)
  assert (HX : tk (pos + kc_n c) X = tk pos X ++ inp) by (unfold inp; rewrite tk_tk_dr; reflexivity).
  set (A := frames_in dones ++ chunks_in chunks ++ k_inPend k).
  assert (HA : tk pos X = A ++ k_held k) by (unfold A; rewrite Hin, <- !app_assoc; reflexivity).
  assert (Hlen : pos = lenN A + lenN (k_held k)).
  { apply (f_equal lenN) in HA. rewrite len_tk, lenN_app in HA. lia. }
  assert (Hnew : Z.to_N (Z.of_N pos + ko_consumed o) = lenN A + lenN taken) by (rewrite Hcons; lia).
  assert (Htk : tk (lenN A + lenN taken) X = A ++ taken).
  { assert (E : tk (pos + kc_n c) X = (A ++ taken) ++ rest).
    { rewrite HX, HA, <- !app_assoc. f_equal. exact Hsplit. }
    assert (Hle : lenN A + lenN taken <= lenN (tk (pos + kc_n c) X)).
    { rewrite E, !lenN_app. lia. }
    transitivity (tk (lenN A + lenN taken) (tk (pos + kc_n c) X)).
    - unfold tk. rewrite firstn_firstn. f_equal. rewrite len_tk in Hle. lia.
    - rewrite E. apply tk_prefix_of_app. rewrite lenN_app. reflexivity. }
  assert (Hpos' : lenN A + lenN taken <= lenN X).
  { apply (f_equal lenN) in Htk. rewrite len_tk, lenN_app in Htk. lia. }
  rewrite Hnew.
  destruct Hfr as [(-> & -> & Hsame)|(Est & -> & pl & ->)].
  - (* same frame *)
    exists dones, cs0, c2. constructor; auto.
    + rewrite Htk. unfold A. rewrite <- !app_assoc. do 1 f_equal.
      rewrite app_assoc, app_assoc. rewrite <- (app_assoc (chunks_in chunks)). rewrite <- Hconv. rewrite <- !app_assoc. reflexivity.
    + rewrite Hd, app_assoc, Hout, <- !app_assoc. f_equal. symmetry. exact Hd'.
    + destruct Hbeg as [[Hb1 Hb2]|Hb]; [|right; exact Hb].
      destruct (Hsame Hb1) as [E1 E2]. left. split; [exact E2|]. rewrite E1. exact Hb2.
  - (* a new frame was initialised by this call *)
    destruct HS as [K HS1 HS2 HS3].
    pose proof (ki_init _ _ _ _ K Est) as [Hop Hip].
    exists (dones ++ [(cs0, chunks)]), (cs_begin (k_cs k) (kc_fc c) pl), c2. constructor; auto.
    + rewrite Htk, frames_in_snoc. unfold A. cbn [snd]. rewrite <- !app_assoc. do 2 f_equal.
      rewrite Hip in *. cbn [app] in *. rewrite Hconv. reflexivity.
    + rewrite frames_out_snoc. cbn [fst snd]. rewrite Hout, Hop, app_nil_r, Hd.
      change (outs (cs_begin (k_cs k) (kc_fc c) pl) []) with (@nil N). cbn [app].
      rewrite Hop in Hd'. cbn [app] in Hd'. rewrite <- app_assoc, Hd'. reflexivity.
    + intros f Hf. apply in_app_or in Hf. destruct Hf as [Hf|[<-|[]]]; [apply Hdone; exact Hf|].
      split; [|destruct Hbeg as [[_ Hb]|Hb]; [left; exact Hb|right; exact Hb]]. cbn [snd].
      destruct (k_frameEnded k) eqn:Efe.
      * right. apply (ki_ended _ _ _ _ K Efe).
      * left. apply (ki_fresh _ _ _ _ K Est Efe).
    + right. eexists _, _, _. reflexivity.
Qed.


Definition calls_ok (calls : list kcall) : Prop := Forall (fun c => 1 <= fc_maxBlock (kc_fc c)) calls.

Lemma krun_inv P X : forall calls pos emitted k dones cs0 chunks k' pos' emitted',
  HInv P X pos emitted k dones cs0 chunks -> calls_ok calls ->
  krun P k X pos calls emitted = Some (k', pos', emitted') ->
  exists dones' cs0' chunks', HInv P X pos' emitted' k' dones' cs0' chunks'.
Proof.
  induction calls as [|c t IH]; intros pos emitted k dones cs0 chunks k' pos' emitted' HI Hok Hrun.
  - cbn in Hrun. inversion Hrun; subst. eauto.
  - cbn [CStreamModel.krun] in Hrun. inversion Hok as [|c' t' Hc Ht]; subst.
    destruct (ko_ret (kstep P (kc_fc c) k (tk (kc_n c) (dr pos X)) (kc_cap c) (kc_dir c))) as [r|] eqn:Er; [|discriminate].
    destruct (HInv_step P X pos emitted k dones cs0 chunks c r HI Hc Er) as (d1 & c1 & ch1 & HI1).
    eapply IH; eauto.
Qed.

(* C02 cstream_partition: after any history the bytes handed to the block compressor are, frame by frame and chunk by
   chunk in order, exactly the input reported consumed (minus what is still buffered), and the bytes emitted are exactly
   the concatenation of the chunk outputs (minus what is still in outBuff) *)
Theorem cstream_partition P X cs calls k' pos' emitted' :
  calls_ok calls ->
  krun P (k_new cs) X 0 calls [] = Some (k', pos', emitted') ->
  exists frames : list (CS * list (bytes * bool)),
    tk pos' X = frames_in frames ++ k_inPend k' ++ k_held k' /\
    frames_out frames = emitted' ++ k_outPend k' /\
    (forall f, In f frames -> begun f) /\
    (forall pre f post, frames = pre ++ f :: post -> post <> [] -> snd f = [] \/ complete (snd f)).
Proof.
  intros Hok Hrun.
  destruct (krun_inv P X calls 0 [] (k_new cs) [] cs [] k' pos' emitted' (HInv_new P X cs) Hok Hrun) as (dones & cs0 & chunks & HI).
  destruct HI as [HS Hin Hpos Hout Hdone Hbeg].
  exists (dones ++ [(cs0, chunks)]). split; [|split; [|split]].
  - rewrite frames_in_snoc. cbn [snd]. rewrite <- app_assoc. exact Hin.
  - rewrite frames_out_snoc. cbn [fst snd]. exact Hout.
  - intros f Hf. apply in_app_or in Hf. destruct Hf as [Hf|[<-|[]]]; [apply Hdone; exact Hf|].
    destruct Hbeg as [[_ Hb]|Hb]; [left; exact Hb|right; exact Hb].
  - intros pre f post E Hpost. apply Hdone.
    assert (Hin' : In f (removelast (dones ++ [(cs0, chunks)]))).
    { rewrite E. rewrite removelast_app by discriminate. apply in_or_app. right.
      destruct post; [congruence|]. left. reflexivity. }
    rewrite removelast_last in Hin'. exact Hin'.
Qed.

(* every state reached by a history satisfies the per-call invariant, so the C10 theorems above apply to it *)
Theorem cstream_reachable_SI P X cs calls k' pos' emitted' :
  calls_ok calls -> krun P (k_new cs) X 0 calls [] = Some (k', pos', emitted') ->
  exists cs0 chunks, SI P cs0 chunks k'.
Proof.
  intros Hok Hrun.
  destruct (krun_inv P X calls 0 [] (k_new cs) [] cs [] k' pos' emitted' (HInv_new P X cs) Hok Hrun) as (dones & cs0 & chunks & HI).
  exists cs0, chunks. apply (hi_si _ _ _ _ _ _ _ _ HI).
Qed.

Lemma krun_app P X : forall c1 c2 k pos emitted,
  krun P k X pos (c1 ++ c2) emitted =
  match krun P k X pos c1 emitted with
  | Some (k1, pos1, em1) => krun P k1 X pos1 c2 em1
  | None => None
  end.
Proof.
  induction c1 as [|c t IH]; intros c2 k pos emitted; [reflexivity|].
  cbn [app CStreamModel.krun]. destruct (ko_ret _); [apply IH|reflexivity].
Qed.

(* ---------- round trip, given that the block compressor's chunks decode ---------- *)
Section Decode.
Variable D : bytes -> option bytes.          (* decoder of one complete frame *)
Variable Dp : bytes -> option bytes.         (* streaming decoder run on the prefix of a frame: what it regenerates *)
(* the single assumed property of the block compressor (discharged per run by R on the real output) *)
Hypothesis chunk_decodes :
  forall cs fc pl chunks, complete chunks -> D (outs (cs_begin cs fc pl) chunks) = Some (chunks_in chunks).
Hypothesis prefix_decodes :
  forall cs fc pl chunks, nolast chunks -> Dp (outs (cs_begin cs fc pl) chunks) = Some (chunks_in chunks).

Lemma done_frames_decode (L : list (CS * list (bytes * bool))) :
  (forall f, In f L -> (snd f = [] \/ complete (snd f)) /\ begun f) ->
  exists frames : list (bytes * bytes),
    frames_in L = concat (map fst frames) /\ frames_out L = concat (map snd frames) /\
    forall io, In io frames -> D (snd io) = Some (fst io).
Proof.
  induction L as [|f t IH]; intros H.
  - exists []. repeat split; try reflexivity. intros io [].
  - destruct IH as (fr & Hi & Ho & Hd); [intros g Hg; apply H; right; exact Hg|].
    destruct (H f (or_introl eq_refl)) as [Hc Hb]. destruct f as [cs ch]. unfold begun in Hb. cbn [fst snd] in *.
    destruct Hc as [->|Hc].
    + exists fr. unfold frames_in, frames_out in *. cbn. split; [exact Hi|split; [exact Ho|exact Hd]].
    + destruct Hb as [Hb|(cs' & fc & pl & ->)].
      * subst ch. destruct Hc as (pre & c & E & _). destruct pre; discriminate.
      * exists ((chunks_in ch, outs (cs_begin cs' fc pl) ch) :: fr).
        unfold frames_in, frames_out in *. cbn. rewrite Hi, Ho. repeat split; try reflexivity.
        intros io [<-|Hio]; [cbn; apply chunk_decodes; exact Hc|apply Hd; exact Hio].
Qed.

(* C02_stream_roundtrip: when a history ends with a completed frame, the emitted bytes are a concatenation of frames
   each of which decodes to the corresponding part of the consumed input *)
Theorem C02_stream_roundtrip P X cs calls k' pos' emitted' :
  calls_ok calls ->
  krun P (k_new cs) X 0 calls [] = Some (k', pos', emitted') ->
  k_stage k' = KInit -> k_frameEnded k' = true -> k_held k' = [] ->
  exists frames : list (bytes * bytes),
    tk pos' X = concat (map fst frames) /\ emitted' = concat (map snd frames) /\
    forall io, In io frames -> D (snd io) = Some (fst io).
Proof.
  intros Hok Hrun Hst Hfe Hh.
  destruct (krun_inv P X calls 0 [] (k_new cs) [] cs [] k' pos' emitted' (HInv_new P X cs) Hok Hrun) as (dones & cs0 & chunks & HI).
  destruct HI as [HS Hin Hpos Hout Hdone Hbeg].
  pose proof (si_ki _ _ _ _ HS) as K.
  pose proof (ki_init _ _ _ _ K Hst) as [Hop Hip].
  pose proof (ki_ended _ _ _ _ K Hfe) as [Hc _].
  destruct (done_frames_decode (dones ++ [(cs0, chunks)])) as (fr & Hi & Ho & Hd).
  - intros f Hf. apply in_app_or in Hf. destruct Hf as [Hf|[<-|[]]]; [apply Hdone; exact Hf|].
    split; [right; exact Hc|]. destruct Hbeg as [[_ Hb]|Hb]; [left; exact Hb|right; exact Hb].
  - exists fr. split; [|split; [|exact Hd]].
    + rewrite <- Hi, frames_in_snoc. cbn [snd]. rewrite Hin, Hip, Hh, !app_nil_r. reflexivity.
    + rewrite <- Ho, frames_out_snoc. cbn [fst snd]. rewrite Hout, Hop, app_nil_r. reflexivity.
Qed.

(* C10 flush_complete_decodable: when the last call of a history is a flush that returned 0, everything consumed went
   through the block compressor and everything it produced was emitted; so (first frame) the prefix decodes to the
   consumed input *)
Theorem flush_complete_decodable P X cs calls c k' pos' emitted' k1 pos1 em1 :
  calls_ok (calls ++ [c]) -> kc_dir c = DirFlush ->
  krun P (k_new cs) X 0 calls [] = Some (k1, pos1, em1) ->
  ko_ret (kstep P (kc_fc c) k1 (tk (kc_n c) (dr pos1 X)) (kc_cap c) DirFlush) = Some 0 ->
  krun P (k_new cs) X 0 (calls ++ [c]) [] = Some (k', pos', emitted') ->
  k_stage k' = KLoad ->
  exists dones cs0 chunks,
    tk pos' X = frames_in dones ++ chunks_in chunks /\
    emitted' = frames_out dones ++ outs cs0 chunks /\
    nolast chunks /\
    (dones = [] -> Dp emitted' = Some (tk pos' X)).
Proof.
  intros Hok Hdir Hrun1 Hret Hrun Hst.
  assert (Hok1 : calls_ok calls) by (unfold calls_ok in *; apply Forall_app in Hok; tauto).
  assert (Hc : 1 <= fc_maxBlock (kc_fc c)).
  { unfold calls_ok in Hok. apply Forall_app in Hok. destruct Hok as [_ H]. inversion H; assumption. }
  destruct (cstream_reachable_SI P X cs calls k1 pos1 em1 Hok1 Hrun1) as (cs1 & ch1 & S1).
  pose proof (cstream_flush_complete P (kc_fc c) cs1 ch1 k1 (tk (kc_n c) (dr pos1 X)) (kc_cap c) S1 Hc Hret) as (Hip & Hop & Hld).
  rewrite krun_app, Hrun1 in Hrun. cbn [CStreamModel.krun] in Hrun. rewrite Hdir, Hret in Hrun. inversion Hrun; subst k' pos' emitted'; clear Hrun.
  specialize (Hld Hst). destruct Hld as [Hh _].
  assert (Hrun' : krun P (k_new cs) X 0 (calls ++ [c]) [] =
                  Some (ko_k (kstep P (kc_fc c) k1 (tk (kc_n c) (dr pos1 X)) (kc_cap c) DirFlush),
                        Z.to_N (Z.of_N pos1 + ko_consumed (kstep P (kc_fc c) k1 (tk (kc_n c) (dr pos1 X)) (kc_cap c) DirFlush)),
                        em1 ++ ko_out (kstep P (kc_fc c) k1 (tk (kc_n c) (dr pos1 X)) (kc_cap c) DirFlush))).
  { rewrite krun_app, Hrun1. cbn [CStreamModel.krun]. rewrite Hdir, Hret. reflexivity. }
  destruct (krun_inv P X _ 0 [] (k_new cs) [] cs [] _ _ _ (HInv_new P X cs) Hok Hrun') as (dones & cs0 & chunks & HI).
  destruct HI as [HS Hin Hpos Hout Hdone Hbeg].
  pose proof (si_ki _ _ _ _ HS) as K.
  pose proof (ki_load _ _ _ _ K Hst) as [_ Hfe].
  pose proof (ki_nolast _ _ _ _ K Hfe) as Hnl.
  exists dones, cs0, chunks. split; [|split; [|split; [exact Hnl|]]].
  - rewrite Hin, Hip, Hh, !app_nil_r. reflexivity.
  - rewrite Hop, app_nil_r in Hout. symmetry. exact Hout.
  - intros ->. rewrite Hop, app_nil_r in Hout. rewrite <- Hout, Hin, Hip, Hh. cbn [frames_in frames_out map concat app]. rewrite !app_nil_r.
    destruct Hbeg as [[Hb _]|(cs' & fc & pl & ->)]; [congruence|]. apply prefix_decodes. exact Hnl.
Qed.

End Decode.

(* ---------- the same with a relation instead of a decoding function (used to compose with the streaming decoder) ---------- *)
Section DecodeRel.
Variable Q : bytes -> bytes -> Prop.         (* Q frame content *)
Hypothesis chunk_rel :
  forall cs fc pl chunks, complete chunks -> Q (outs (cs_begin cs fc pl) chunks) (chunks_in chunks).

Lemma done_frames_rel (L : list (CS * list (bytes * bool))) :
  (forall f, In f L -> (snd f = [] \/ complete (snd f)) /\ begun f) ->
  exists frames : list (bytes * bytes),
    frames_in L = concat (map fst frames) /\ frames_out L = concat (map snd frames) /\
    forall io, In io frames -> Q (snd io) (fst io).
Proof.
  induction L as [|f t IH]; intros H.
  - exists []. repeat split; try reflexivity. intros io [].
  - destruct IH as (fr & Hi & Ho & Hd); [intros g Hg; apply H; right; exact Hg|].
    destruct (H f (or_introl eq_refl)) as [Hc Hb]. destruct f as [cs ch]. unfold begun in Hb. cbn [fst snd] in *.
    destruct Hc as [->|Hc].
    + exists fr. unfold frames_in, frames_out in *. cbn. split; [exact Hi|split; [exact Ho|exact Hd]].
    + destruct Hb as [Hb|(cs' & fc & pl & ->)].
      * subst ch. destruct Hc as (pre & c & E & _). destruct pre; discriminate.
      * exists ((chunks_in ch, outs (cs_begin cs' fc pl) ch) :: fr).
        unfold frames_in, frames_out in *. cbn. rewrite Hi, Ho. repeat split; try reflexivity.
        intros io [<-|Hio]; [cbn; apply chunk_rel; exact Hc|apply Hd; exact Hio].
Qed.

Theorem stream_roundtrip_rel P X cs calls k' pos' emitted' :
  calls_ok calls ->
  krun P (k_new cs) X 0 calls [] = Some (k', pos', emitted') ->
  k_stage k' = KInit -> k_frameEnded k' = true -> k_held k' = [] ->
  exists frames : list (bytes * bytes),
    tk pos' X = concat (map fst frames) /\ emitted' = concat (map snd frames) /\
    forall io, In io frames -> Q (snd io) (fst io).
Proof.
  intros Hok Hrun Hst Hfe Hh.
  destruct (krun_inv P X calls 0 [] (k_new cs) [] cs [] k' pos' emitted' (HInv_new P X cs) Hok Hrun) as (dones & cs0 & chunks & HI).
  destruct HI as [HS Hin Hpos Hout Hdone Hbeg].
  pose proof (si_ki _ _ _ _ HS) as K.
  pose proof (ki_init _ _ _ _ K Hst) as [Hop Hip].
  pose proof (ki_ended _ _ _ _ K Hfe) as [Hc _].
  destruct (done_frames_rel (dones ++ [(cs0, chunks)])) as (fr & Hi & Ho & Hd).
  - intros f Hf. apply in_app_or in Hf. destruct Hf as [Hf|[<-|[]]]; [apply Hdone; exact Hf|].
    split; [right; exact Hc|]. destruct Hbeg as [[_ Hb]|Hb]; [left; exact Hb|right; exact Hb].
  - exists fr. split; [|split; [|exact Hd]].
    + rewrite <- Hi, frames_in_snoc. cbn [snd]. rewrite Hin, Hip, Hh, !app_nil_r. reflexivity.
    + rewrite <- Ho, frames_out_snoc. cbn [fst snd]. rewrite Hout, Hop, app_nil_r. reflexivity.
Qed.
End DecodeRel.

(* ---------- C10: ZSTD_e_end terminates (buffered input) ---------- *)
Definition ending (k : kstate) : N :=
  match k_stage k with KFlush => if k_frameEnded k then 0 else 1 | _ => 1 end.
Definition work_left (k : kstate) (R : bytes) : N := lenN R + lenN (k_inPend k) + ending k.

Lemma complete_not_nolast l : complete l -> nolast l -> False.
Proof.
  intros (pre & c & -> & _) H. specialize (H (c, true)). cbn in H.
  assert (In (c, true) (pre ++ [(c, true)])) by (apply in_or_app; right; left; reflexivity).
  specialize (H H0). discriminate.
Qed.

Lemma complete_app_more l more : complete l -> complete (l ++ more) -> more = [].
Proof.
  intros (p0 & c0 & -> & _) (p & c & E & Hnl).
  destruct more as [|x more] using rev_ind; [reflexivity|]. exfalso.
  rewrite app_assoc in E. apply app_inj_tail in E. destruct E as [E _].
  assert (Hin : In (c0, true) p) by (rewrite <- E; apply in_or_app; left; apply in_or_app; right; left; reflexivity).
  specialize (Hnl _ Hin). discriminate.
Qed.

(* an unfinished end call strictly decreases (bytes not yet compressed + frame-not-closed flag, bytes waiting in outBuff) *)
Lemma cstream_end_measure P fc cs0 chunks k R ocap r :
  SI P cs0 chunks k -> 1 <= fc_maxBlock fc -> kp_stableIn P = false -> 1 <= ocap ->
  let o := kstep P fc k R ocap DirEnd in
  ko_ret o = Some r -> r <> 0 ->
  let R' := dr (Z.to_N (ko_consumed o)) R in
  (exists cs1 chunks1, SI P cs1 chunks1 (ko_k o)) /\
  (work_left (ko_k o) R' < work_left k R \/
   (work_left (ko_k o) R' = work_left k R /\ lenN (k_outPend (ko_k o)) < lenN (k_outPend k))).
Proof.
  intros S Hmb HSI Hcap o Hret Hr0 R'.
  pose proof (kstep_spec P fc cs0 chunks k R ocap DirEnd S Hmb) as H.
  cbv zeta in H. fold o in H. rewrite Hret in H.
  destruct H as (cs1 & c1 & c2 & taken & rest & capleft & Hfr & S' & (more & Hmore & Hw) & Hsplit & Hcons & Hconv & (d & Hd & Hd') & Hout & Hr & Hstop).
  split; [exists cs1, c2; exact S'|].
  pose proof (si_held _ _ _ _ S HSI) as Hh. pose proof (si_held _ _ _ _ S' HSI) as Hh'.
  rewrite Hh in *. rewrite Hh' in *. cbn [app] in *. rewrite app_nil_r in Hconv. change (lenN (@nil N)) with 0 in Hcons.
  assert (HR' : R' = rest).
  { unfold R'. rewrite Hcons. replace (Z.to_N (Z.of_N (lenN taken) - Z.of_N 0)) with (lenN taken) by lia.
    rewrite Hsplit. apply dr_app_exact. }
  (* only CS_full is compatible with a non-zero return on end *)
  assert (Hfull : k_stage (ko_k o) = KFlush /\ capleft = 0).
  { destruct Hstop as [H1 H2 H3|H1 H2 H3 H4|H1 H2 H3 H4|H1 H2 H3 H4 H5 H6|H1 H2 H3 H4]; try discriminate.
    - split; assumption.
    - exfalso. apply Hr0. destruct Hr as [Hr|(_ & Hd0 & _)]; [|discriminate].
      pose proof (ki_out _ _ _ _ (si_ki _ _ _ _ S')) as Ho. rewrite H3 in Ho. cbn in Ho. lia. }
  destruct Hfull as [Hst' Hcl]. subst capleft.
  pose proof (si_ki _ _ _ _ S) as K. pose proof (si_ki _ _ _ _ S') as K'.
  (* bytes not yet compressed *)
  assert (Hbytes : lenN (chunks_in more) + lenN (k_inPend (ko_k o)) + lenN rest = lenN (k_inPend k) + lenN R).
  { rewrite Hmore, chunks_in_app, <- app_assoc in Hconv. apply app_inv_head in Hconv.
    apply (f_equal lenN) in Hconv. rewrite !lenN_app in Hconv. rewrite Hsplit, lenN_app. lia. }
  (* the frame in progress *)
  assert (Hend0 : ending k = 0 -> more = [] /\ ending (ko_k o) = 0).
  { unfold ending. intros E0. destruct (k_stage k) eqn:Est; try discriminate. destruct (k_frameEnded k) eqn:Efe; try discriminate.
    destruct Hfr as [(-> & -> & _)|(Est' & _)]; [|congruence].
    pose proof (ki_ended _ _ _ _ K Efe) as [Hc _].
    rewrite Hst'. destruct (k_frameEnded (ko_k o)) eqn:Efe'.
    - split; [|reflexivity]. pose proof (ki_ended _ _ _ _ K' Efe') as [Hc' _]. rewrite Hmore in Hc'.
      apply (complete_app_more _ _ Hc Hc').
    - exfalso. pose proof (ki_nolast _ _ _ _ K' Efe') as Hnl. apply (complete_not_nolast _ Hc).
      intros x Hx. apply Hnl. rewrite Hmore. apply in_or_app. left. exact Hx. }
  assert (Hend_le : ending (ko_k o) <= 1) by (unfold ending; destruct (k_stage (ko_k o)); try lia; destruct (k_frameEnded (ko_k o)); lia).
  assert (Hend_le0 : ending k <= 1) by (unfold ending; destruct (k_stage k); try lia; destruct (k_frameEnded k); lia).
  unfold work_left. rewrite HR'.
  destruct Hw as [Hm0|[Hm1|(c & Hm2)]].
  - (* no new chunk: pure flushing *)
    right. subst more. rewrite app_nil_r in Hmore. subst c2.
    assert (Hd0 : d = []).
    { rewrite <- (app_nil_r (outs cs1 c1)) in Hd at 1. apply app_inv_head in Hd. symmetry. exact Hd. }
    subst d. rewrite app_nil_r in Hd'. cbn [chunks_in map concat lenN] in Hbytes. change (lenN (@nil N)) with 0 in Hbytes.
    assert (Hq : lenN (ko_out o) + lenN (k_outPend (ko_k o)) = lenN (k_outPend k)).
    { apply (f_equal lenN) in Hd'. rewrite lenN_app in Hd'. exact Hd'. }
    split; [|lia].
    (* the flag cannot go up without a new chunk *)
    assert (ending (ko_k o) = ending k).
    { destruct (N.eq_dec (ending k) 0) as [E0|E1]; [destruct (Hend0 E0) as [_ E]; lia|].
      assert (Ek : ending k = 1) by lia. rewrite Ek.
      (* stage' = KFlush; frameEnded' = true would make c1 complete while the frame was open before *)
      unfold ending. rewrite Hst'. destruct (k_frameEnded (ko_k o)) eqn:Efe'; [|reflexivity]. exfalso.
      pose proof (ki_ended _ _ _ _ K' Efe') as [Hc' _].
      destruct Hfr as [(-> & -> & Hsame)|(Est & -> & _)].
      - (* same frame, open before: frameEnded k = false or stage <> KFlush *)
        unfold ending in Ek. destruct (k_stage k) eqn:Est.
        + (* same frame from KInit is the deferred path, which keeps the stage *)
          destruct (Hsame eq_refl) as [_ E]. congruence.
        + pose proof (ki_load _ _ _ _ K Est) as [_ Efe]. apply (complete_not_nolast _ Hc'). apply (ki_nolast _ _ _ _ K Efe).
        + destruct (k_frameEnded k) eqn:Efe; [discriminate|]. apply (complete_not_nolast _ Hc'). apply (ki_nolast _ _ _ _ K Efe).
      - destruct Hc' as (pre & c & E & _). destruct pre; discriminate. }
    lia.
  - (* some input byte was compressed *)
    left. assert (1 <= lenN (chunks_in more)).
    { destruct (chunks_in more) eqn:E; [congruence|]. rewrite lenN_cons. lia. }
    destruct (N.eq_dec (ending k) 0) as [E0|E1]; [destruct (Hend0 E0) as [-> _]; cbn in Hm1; congruence|]. lia.
  - (* the closing chunk went out: the frame is now closed *)
    left. destruct (N.eq_dec (ending k) 0) as [E0|E1]; [destruct (Hend0 E0) as [-> _]; destruct Hm2|].
    assert (E' : ending (ko_k o) = 0).
    { unfold ending. rewrite Hst'. destruct (k_frameEnded (ko_k o)) eqn:Efe'; [reflexivity|]. exfalso.
      pose proof (ki_nolast _ _ _ _ K' Efe') as Hnl. specialize (Hnl (c, true)). cbn in Hnl.
      assert (In (c, true) c2) by (rewrite Hmore; apply in_or_app; right; exact Hm2). specialize (Hnl H). discriminate. }
    lia.
Qed.

Notation kend_run := (kend_run CS cs_begin compress_chunk).

(* C10 cstream_terminates: with at least one byte of output room per call, driving ZSTD_e_end finishes (returns 0 or an
   error) after finitely many calls, whatever the block compressor does *)
Theorem cstream_terminates P fc caps :
  1 <= fc_maxBlock fc -> kp_stableIn P = false -> (forall i, 1 <= caps i) ->
  forall k R cs0 chunks i, SI P cs0 chunks k ->
  exists n, match kend_run P fc k R caps i n with EMore _ _ => False | _ => True end.
Proof.
  intros Hmb HSI Hcaps.
  assert (Hgen : forall a q k R cs0 chunks i, SI P cs0 chunks k ->
            (N.to_nat (work_left k R) <= a)%nat -> (N.to_nat (lenN (k_outPend k)) <= q)%nat ->
            exists n, match kend_run P fc k R caps i n with EMore _ _ => False | _ => True end).
  { induction a as [a IHa] using lt_wf_ind. induction q as [q IHq] using lt_wf_ind.
    intros k R cs0 chunks i HS0 Ha Hq.
    destruct (ko_ret (kstep P fc k R (caps i) DirEnd)) as [r|] eqn:Er.
    - destruct (N.eqb_spec r 0) as [->|Hr0].
      + exists 1%nat. cbn [CStreamModel.kend_run]. rewrite Er. cbn. exact I.
      + pose proof (cstream_end_measure P fc cs0 chunks k R (caps i) r HS0 Hmb HSI (Hcaps i) Er Hr0) as [(cs1 & c1 & S1) Hdec].
        cbv zeta in Hdec.
        set (k1 := ko_k (kstep P fc k R (caps i) DirEnd)) in *.
        set (R1 := dr (Z.to_N (ko_consumed (kstep P fc k R (caps i) DirEnd))) R) in *.
        assert (Hn : exists n, match kend_run P fc k1 R1 caps (S i) n with EMore _ _ => False | _ => True end).
        { destruct Hdec as [Hlt|[Heq Hlt]].
          - apply (IHa (N.to_nat (work_left k1 R1)) ltac:(lia) (N.to_nat (lenN (k_outPend k1))) k1 R1 cs1 c1 (S i) S1); lia.
          - apply (IHq (N.to_nat (lenN (k_outPend k1))) ltac:(lia) k1 R1 cs1 c1 (S i) S1); lia. }
        destruct Hn as [n Hn]. exists (S n). cbn [CStreamModel.kend_run]. rewrite Er.
        destruct (N.eqb_spec r 0); [contradiction|]. exact Hn.
    - exists 1%nat. cbn [CStreamModel.kend_run]. rewrite Er. exact I. }
  intros k R cs0 chunks i HS0. eapply Hgen; eauto.
Qed.


(* ---------- C02 cstream_out_capacity_independent (per loop iteration) ----------
   What the block compressor is handed (chunk, last flag, its state) and the whole input side of the buffering state
   after a load/compress iteration do not depend on the output capacity or on what was already written, as long as
   neither run fails.  PARTIAL: the ZSTD_e_end shortcut (inBuffPos = 0 and capacity >= compressBound(remaining input):
   one ZSTD_compressEnd call on everything) is excluded by [noshort]; there the chunking does depend on the capacity. *)
Definition in_side (g : gstate) :=
  (k_cs (g_k g), k_inBuffPos (g_k g), k_inToCompress (g_k g), k_inBuffTarget (g_k g), k_inPend (g_k g),
   k_frameEnded (g_k g), k_held (g_k g), g_in g, g_ip g).
Definition in_side_res (r : gres CS) :=
  match r with GErr _ => None | GCont g => Some (in_side g) | GStop g => Some (in_side g) end.

Lemma g_flush_in_side (g : gstate) : in_side_res (g_flush g) = Some (in_side g).
Proof.
  destruct g as [k gin gip gout gcap]. unfold CStreamModel.g_flush. ksimp.
  destruct (negb (k_outContent k - k_outFlushed k =? N.min gcap (k_outContent k - k_outFlushed k))); [reflexivity|].
  destruct (k_frameEnded k) eqn:E; cbn; unfold in_side; ksimp; rewrite ?E; reflexivity.
Qed.

Lemma g_compress_capacity_independent P dir (k : kstate) gin gip o1 o2 c1 c2 :
  let r1 := g_compress P dir (g_mk k gin gip o1 c1) in
  let r2 := g_compress P dir (g_mk k gin gip o2 c2) in
  in_side_res r1 <> None -> in_side_res r2 <> None -> in_side_res r1 = in_side_res r2.
Proof.
  cbv zeta. unfold CStreamModel.g_compress. ksimp.
  destruct (compress_chunk _ _ _) as [cs' cout].
  destruct (_ <? lenN cout); [intros H; exfalso; apply H; reflexivity|].
  destruct (_ <? lenN cout); [intros _ H; exfalso; apply H; reflexivity|].
  intros _ _.
  repeat match goal with
  | |- context [if ?b then _ else _] => destruct b eqn:?
  end; rewrite ?g_flush_in_side; cbn [in_side_res]; unfold in_side; ksimp; reflexivity.
Qed.

Definition noshort (dir : directive) (k : kstate) : Prop := dir <> DirEnd \/ k_inBuffPos k <> 0.

Theorem cstream_out_capacity_independent_partial P dir (k : kstate) gin gip o1 o2 c1 c2 :
  noshort dir k ->
  let r1 := g_load P dir (g_mk k gin gip o1 c1) in
  let r2 := g_load P dir (g_mk k gin gip o2 c2) in
  in_side_res r1 <> None -> in_side_res r2 <> None -> in_side_res r1 = in_side_res r2.
Proof.
  intros Hns. cbv zeta. unfold CStreamModel.g_load. ksimp.
  assert (Hs : forall c, andb (match dir with DirEnd => true | _ => false end)
                             (andb (orb (fits_bound c (lenN gin)) (kp_stableOut P)) (k_inBuffPos k =? 0)) = false).
  { intros c. destruct Hns as [Hd|Hp].
    - destruct dir; try reflexivity. congruence.
    - apply N.eqb_neq in Hp. rewrite Hp, !andb_false_r. reflexivity. }
  rewrite !Hs.
  destruct (negb (kp_stableIn P)).
  - destruct dir.
    + match goal with |- context [if ?c then GStop _ else _] => destruct c end; [intros; cbn [in_side_res]; unfold in_side; ksimp; reflexivity|]. apply g_compress_capacity_independent.
    + match goal with |- context [if ?c then GStop _ else _] => destruct c end; [intros; cbn [in_side_res]; unfold in_side; ksimp; reflexivity|]. apply g_compress_capacity_independent.
    + apply g_compress_capacity_independent.
  - destruct dir.
    + match goal with |- context [if ?c then GStop _ else _] => destruct c end; [intros; cbn [in_side_res]; unfold in_side; ksimp; reflexivity|]. apply g_compress_capacity_independent.
    + match goal with |- context [if ?c then GStop _ else _] => destruct c end; [intros; cbn [in_side_res]; unfold in_side; ksimp; reflexivity|]. apply g_compress_capacity_independent.
    + apply g_compress_capacity_independent.
Qed.

End CProofs.
