(* Proofs about the streaming-compression state machine (CStreamModel.v): C02 partition / round trip,
   C10 progress / termination / flush and end completion.  The block compressor is universally quantified. *)
From Coq Require Import NArith ZArith List Bool Lia PeanoNat.
From ZV.Codec Require Import Bytes ListLemmas.
From ZV.Stream Require Import DStreamModel CStreamModel StreamLemmas.
Import ListNotations.
Local Open Scope N_scope.

Ltac ksimp :=
  unfold k_session_reset, k_set_stage, k_set_in, k_set_out, k_set_cs, k_set_held, k_set_expect, g_mk in *;
  cbn [k_stage k_blockSize k_inBuffSize k_outBuffSize k_inBuffPos k_inToCompress k_inBuffTarget k_inPend k_outContent
       k_outFlushed k_outPend k_frameEnded k_held k_expectOut k_appliedSI k_cs g_k g_in g_ip g_out g_ocap] in *.

Section CProofs.
Variable CS : Type.
Variable cs_begin : CS -> fconf -> N -> CS.
Variable compress_chunk : CS -> bytes -> bool -> CS * bytes.

Notation kstate := (kstate CS).
Notation gstate := (gstate CS).
Notation g_flush := (@g_flush CS).
Notation g_compress := (g_compress CS compress_chunk).
Notation g_load := (g_load CS compress_chunk).
Notation g_iter := (g_iter CS compress_chunk).
Notation g_loop := (g_loop CS compress_chunk).
Notation kstep := (kstep CS cs_begin compress_chunk).

(* ---------- the block compressor run over a list of chunks ---------- *)
Fixpoint run_chunks (cs : CS) (l : list (bytes * bool)) : CS * bytes :=
  match l with
  | [] => (cs, [])
  | (c, b) :: t => let '(cs1, o) := compress_chunk cs c b in
                   let '(cs2, o2) := run_chunks cs1 t in (cs2, o ++ o2)
  end.
Definition st_of (cs0 : CS) (l : list (bytes * bool)) : CS := fst (run_chunks cs0 l).
Definition outs (cs0 : CS) (l : list (bytes * bool)) : bytes := snd (run_chunks cs0 l).
Definition chunks_in (l : list (bytes * bool)) : bytes := concat (map fst l).
Definition nolast (l : list (bytes * bool)) : Prop := forall c, In c l -> snd c = false.

Lemma run_chunks_snoc cs l c b :
  run_chunks cs (l ++ [(c, b)]) =
  (fst (compress_chunk (st_of cs l) c b), outs cs l ++ snd (compress_chunk (st_of cs l) c b)).
Proof.
  unfold st_of, outs. revert cs; induction l as [|[c1 b1] t IH]; intros cs; cbn [app run_chunks fst snd].
  - destruct (compress_chunk cs c b) as [cs1 o]. cbn. rewrite app_nil_r. reflexivity.
  - destruct (compress_chunk cs c1 b1) as [cs1 o1]. rewrite IH.
    destruct (run_chunks cs1 t) as [cs2 o2]. cbn [fst snd].
    destruct (compress_chunk cs2 c b) as [cs3 o3]. cbn [fst snd]. rewrite app_assoc. reflexivity.
Qed.
Lemma st_of_snoc cs l c b : st_of cs (l ++ [(c, b)]) = fst (compress_chunk (st_of cs l) c b).
Proof. unfold st_of at 1. rewrite run_chunks_snoc. reflexivity. Qed.
Lemma outs_snoc cs l c b : outs cs (l ++ [(c, b)]) = outs cs l ++ snd (compress_chunk (st_of cs l) c b).
Proof. unfold outs at 1. rewrite run_chunks_snoc. reflexivity. Qed.
Lemma chunks_in_snoc l c b : chunks_in (l ++ [(c, b)]) = chunks_in l ++ c.
Proof. unfold chunks_in. rewrite map_app, concat_app. cbn. rewrite app_nil_r. reflexivity. Qed.
Lemma nolast_snoc l c : nolast l -> nolast (l ++ [(c, false)]).
Proof. intros H x Hx. apply in_app_or in Hx. destruct Hx as [Hx|[<-|[]]]; [apply H; exact Hx|reflexivity]. Qed.

(* ---------- invariant of the buffering state (any stage) ---------- *)
Definition complete (l : list (bytes * bool)) : Prop := exists pre c, l = pre ++ [(c, true)] /\ nolast pre.

Record KI (P : kparams) (cs0 : CS) (chunks : list (bytes * bool)) (k : kstate) : Prop := {
  ki_cs : k_cs k = st_of cs0 chunks;
  ki_in : if kp_stableIn P then k_inPend k = []
          else k_inToCompress k + lenN (k_inPend k) = k_inBuffPos k /\ k_inBuffPos k <= k_inBuffTarget k;
  ki_out : k_outFlushed k + lenN (k_outPend k) = k_outContent k;
  ki_load : k_stage k = KLoad -> k_outContent k = 0 /\ k_frameEnded k = false /\
                                 (kp_stableIn P = false -> k_inBuffPos k < k_inBuffTarget k);
  ki_flush : k_stage k = KFlush -> kp_stableIn P = false -> k_frameEnded k = false -> k_inBuffPos k < k_inBuffTarget k;
  ki_nolast : k_frameEnded k = false -> nolast chunks;
  ki_ended : k_frameEnded k = true -> complete chunks /\ k_inPend k = [];
  ki_init : k_stage k = KInit -> k_outPend k = [] /\ k_inPend k = [];
  ki_bs : k_stage k <> KInit -> 1 <= k_blockSize k }.

(* potential bounding the number of loop iterations of one call *)
Definition phi (g : gstate) : N :=
  2 * lenN (g_in g) + (match k_stage (g_k g) with KFlush => 1 | _ => 0 end)
                    + (match k_inPend (g_k g) with [] => 0 | _ => 2 end).

(* what one step of the loop may do to the locals: input is taken from the front, output appended, and the two
   conservation laws (input: fed ++ pending ++ held ++ not-yet-read ; output: produced = written ++ pending) *)
Record GStep (cs0 : CS) (chunks chunks' : list (bytes * bool)) (g g' : gstate) : Prop := {
  gs_in : chunks_in chunks' ++ k_inPend (g_k g') ++ k_held (g_k g') ++ g_in g'
          = chunks_in chunks ++ k_inPend (g_k g) ++ k_held (g_k g) ++ g_in g;
  gs_out : exists d, outs cs0 chunks' = outs cs0 chunks ++ d /\
                     g_out g' ++ k_outPend (g_k g') = g_out g ++ k_outPend (g_k g) ++ d;
  gs_ip : g_ip g' + lenN (g_in g') = g_ip g + lenN (g_in g);
  gs_len : lenN (g_in g') <= lenN (g_in g);
  gs_cap : g_ocap g' + lenN (g_out g') = g_ocap g + lenN (g_out g);
  gs_outext : exists e, g_out g' = g_out g ++ e;
  gs_ext : exists more, chunks' = chunks ++ more }.

Lemma GStep_refl cs0 chunks g : GStep cs0 chunks chunks g g.
Proof.
  constructor; try reflexivity; try lia.
  - exists []. rewrite !app_nil_r. split; reflexivity.
  - exists []. rewrite app_nil_r. reflexivity.
  - exists []. rewrite app_nil_r. reflexivity.
Qed.
Lemma GStep_trans cs0 c1 c2 c3 g1 g2 g3 : GStep cs0 c1 c2 g1 g2 -> GStep cs0 c2 c3 g2 g3 -> GStep cs0 c1 c3 g1 g3.
Proof.
  intros [a1 [d1 [b1 b1']] e1 f1 h1 [x1 i1] [m1 j1]] [a2 [d2 [b2 b2']] e2 f2 h2 [x2 i2] [m2 j2]].
  constructor; try lia.
  - rewrite a2, a1. reflexivity.
  - exists (d1 ++ d2). split.
    + rewrite b2, b1, app_assoc. reflexivity.
    + rewrite b2', app_assoc, b1'. rewrite <- !app_assoc. reflexivity.
  - exists (x1 ++ x2). rewrite i2, i1, app_assoc. reflexivity.
  - exists (m1 ++ m2). rewrite j2, j1, app_assoc. reflexivity.
Qed.

(* why the loop of one call stopped *)
Inductive StopWhy (P : kparams) (dir : directive) (g' : gstate) : Prop :=
| SW_full : k_stage (g_k g') = KFlush -> g_ocap g' = 0 -> k_outFlushed (g_k g') < k_outContent (g_k g') -> StopWhy P dir g'
| SW_ended : k_stage (g_k g') = KInit -> k_frameEnded (g_k g') = true -> k_outPend (g_k g') = [] -> StopWhy P dir g'
| SW_cont : k_stage (g_k g') = KLoad -> dir = DirContinue -> g_in g' = [] -> StopWhy P dir g'
| SW_flushed : k_stage (g_k g') = KLoad -> dir = DirFlush -> g_in g' = [] -> k_inPend (g_k g') = [] -> k_held (g_k g') = [] ->
               StopWhy P dir g'.

Definition IterOK (P : kparams) (cs0 : CS) (dir : directive) (chunks : list (bytes * bool)) (g : gstate) (r : gres CS) : Prop :=
  match r with
  | GErr e => e = KdstSize_tooSmall
  | GCont g' => exists chunks', KI P cs0 chunks' (g_k g') /\ GStep cs0 chunks chunks' g g' /\ k_stage (g_k g') = KLoad /\
                                phi g' < phi g /\ k_held (g_k g') = []
  | GStop g' => exists chunks', KI P cs0 chunks' (g_k g') /\ GStep cs0 chunks chunks' g g' /\ StopWhy P dir g' /\
                                (kp_stableIn P = false -> k_held (g_k g') = [])
  end.

(* ---------- the flush stage ---------- *)
Lemma g_flush_spec P cs0 dir chunks g :
  KI P cs0 chunks (g_k g) -> k_stage (g_k g) = KFlush -> k_held (g_k g) = [] ->
  IterOK P cs0 dir chunks g (g_flush g).
Proof.
  intros K Hst Hh. destruct g as [k gin gip gout gcap]. ksimp.
  unfold CStreamModel.g_flush, IterOK. ksimp.
  pose proof (ki_out _ _ _ _ K) as Ho.
  set (toFlush := k_outContent k - k_outFlushed k).
  assert (HtF : toFlush = lenN (k_outPend k)) by (unfold toFlush; lia).
  destruct (N.eqb_spec toFlush (N.min gcap toFlush)) as [E|E]; cbn [negb].
  - (* flush completed *)
    assert (Hall : tk (N.min gcap toFlush) (k_outPend k) = k_outPend k) by (apply tk_all; lia).
    destruct (k_frameEnded k) eqn:Efe; ksimp; exists chunks.
    + (* frame ended: session reset *)
      refine (conj _ (conj _ (conj _ _))).
      * destruct K. constructor; ksimp; auto; try congruence; try lia.
        all: try (destruct (kp_stableIn P); auto; fail).
        intros _. split; [reflexivity|]. apply ki_ended0. exact Efe.
      * constructor; ksimp; try reflexivity; try lia.
        -- exists []. rewrite !app_nil_r, Hall. split; reflexivity.
        -- rewrite lenN_app, Hall. lia.
        -- eexists; reflexivity.
        -- exists []. rewrite app_nil_r. reflexivity.
      * apply SW_ended; ksimp; auto.
      * intros _. exact Hh.
    + refine (conj _ (conj _ (conj eq_refl (conj _ Hh)))).
      * destruct K. constructor; ksimp; auto; try congruence; try lia.
        all: try (intros; repeat split; auto; fail).
      * constructor; ksimp; try reflexivity; try lia.
        -- exists []. rewrite !app_nil_r, Hall. split; reflexivity.
        -- rewrite lenN_app, Hall. lia.
        -- eexists; reflexivity.
        -- exists []. rewrite app_nil_r. reflexivity.
      * unfold phi. ksimp. rewrite Hst. lia.
  - (* output full before the flush completes *)
    assert (Hmin : N.min gcap toFlush = gcap) by lia.
    rewrite Hmin. ksimp. exists chunks. refine (conj _ (conj _ (conj _ _))).
    + destruct K. constructor; ksimp; auto; try congruence.
      rewrite len_dr. lia.
    + constructor; ksimp; try reflexivity; try lia.
      * exists []. rewrite !app_nil_r. split; [reflexivity|]. rewrite <- app_assoc, tk_dr. reflexivity.
      * rewrite lenN_app, len_tk. lia.
      * eexists; reflexivity.
      * exists []. rewrite app_nil_r. reflexivity.
    + apply SW_full; ksimp; lia.
    + intros _. exact Hh.
Qed.

End CProofs.
