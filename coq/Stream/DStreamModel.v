(* Streaming decompression: executable model of
     lib/decompress/zstd_decompress.c : ZSTD_getFrameHeader_advanced, ZSTD_frameHeaderSize_internal,
       ZSTD_findFrameSizeInfo, ZSTD_decompressFrame / ZSTD_decompressMultiFrame (one-shot, used by the
       single-pass shortcut), ZSTD_decompressContinue (stage machine), ZSTD_decompressContinueStream,
       ZSTD_decompressStream (buffering state machine, hostage byte, no-forward-progress counter, hint).
   Block decoding is abstract (section variables); coq/Stream/StreamInst.v plugs in the reference decoder R.
   Model only - no proofs in this file.  Sizes are N; size_t wrap-around is not modelled: the only
   subtractions whose C operands could wrap are guarded by invariants proved in DStreamProofs.v
   ([Eimpossible] marks the guards). *)
From Coq Require Import NArith List Bool.
From ZV.Codec Require Import Bytes.
From ZV.Gen Require Import Gen_Stream.
Import ListNotations.
Local Open Scope N_scope.

(* ---------- constants (regenerated from the current headers) ---------- *)
Definition BHS : N := s_ZSTD_blockHeaderSize.
Definition UNKNOWN : N := s_ZSTD_CONTENTSIZE_UNKNOWN.
Definition BLOCKMAX : N := s_ZSTD_BLOCKSIZE_MAX.
Definition SKIPHDR : N := s_ZSTD_SKIPPABLEHEADERSIZE.
Definition ZMAGIC : N := s_ZSTD_MAGICNUMBER.
Definition SKIP_START : N := s_ZSTD_MAGIC_SKIPPABLE_START.
Definition SKIP_MASK : N := s_ZSTD_MAGIC_SKIPPABLE_MASK.
Definition WOVER : N := s_WILDCOPY_OVERLENGTH.
Definition NOPROGRESS_MAX : N := s_ZSTD_NO_FORWARD_PROGRESS_MAX.
Definition prefix_len (magicless : bool) : N := if magicless then s_PREFIX_magicless else s_PREFIX_zstd1.  (* ZSTD_startingInputLength *)
Definition hdr_min (magicless : bool) : N := if magicless then s_HDRMIN_magicless else s_HDRMIN_zstd1.    (* ZSTD_FRAMEHEADERSIZE_MIN *)

(* ---------- errors ---------- *)
Inductive derr :=
| Eprefix_unknown | EframeParameter_unsupported | EwindowTooLarge | Ecorruption | Echecksum_wrong
| EdstSize_tooSmall | EdstBuffer_wrong | EsrcSize_wrong | Edictionary_wrong
| EnoProgress_destFull | EnoProgress_inputEmpty
| Eblock (c : eclass) (site : N)     (* error reported by the block decoder *)
| Eimpossible (site : N).            (* C assert(0) / guard proved unreachable *)

Inductive mres (A : Type) := MOk (a : A) | MErr (e : derr).
Arguments MOk {A} a.
Arguments MErr {A} e.
Definition mbind {A B} (r : mres A) (f : A -> mres B) : mres B :=
  match r with MOk a => f a | MErr e => MErr e end.
Notation "'let*' x ':=' r 'in' k" := (mbind r (fun x => k)) (at level 200, x pattern, r at level 100, k at level 200).
Definition mguard (b : bool) (e : derr) : mres unit := if b then MErr e else MOk tt.
Notation "'fail_if' b 'with' e ';' k" := (mbind (mguard b e) (fun _ => k)) (at level 200, b at level 100, k at level 200).

(* ---------- byte helpers ---------- *)
Definition tk (n : N) (l : bytes) : bytes := firstn (N.to_nat n) l.
Definition dr (n : N) (l : bytes) : bytes := skipn (N.to_nat n) l.
Definition sub_le (src : bytes) (pos k : N) : N := le_val (tk k (dr pos src)).   (* MEM_readLE<8k>(src+pos) *)
Definition le32 (b : bytes) : N := sub_le b 0 4.
Definition is_skip_magic (m : N) : bool := N.land m SKIP_MASK =? SKIP_START.
Definition magic_bytes (m : N) : bytes := [m mod 256; (m / 256) mod 256; (m / 65536) mod 256; (m / 16777216) mod 256].
(* hbuf := LE32(base); memcpy(hbuf, src, MIN(4, srcSize)) *)
Definition overlay (src : bytes) (base : N) : N :=
  let s := firstn 4 src in le_val (s ++ skipn (length s) (magic_bytes base)).
Definition repeat_byte (v n : N) : bytes := repeatN v n [].

(* ---------- frame header (ZSTD_frameHeader) ---------- *)
Record fparams := {
  fp_fcs : N;             (* frameContentSize, UNKNOWN when absent; the user size for a skippable frame *)
  fp_window : N;
  fp_blockMax : N;
  fp_checksum : bool;
  fp_skippable : bool;    (* frameType == ZSTD_skippableFrame *)
  fp_hsize : N;
  fp_dictid : N }.
Definition fp_zero : fparams :=
  {| fp_fcs := 0; fp_window := 0; fp_blockMax := 0; fp_checksum := false; fp_skippable := false; fp_hsize := 0; fp_dictid := 0 |}.
Definition fp_set_window_block (p : fparams) (w b : N) : fparams :=
  {| fp_fcs := fp_fcs p; fp_window := w; fp_blockMax := b; fp_checksum := fp_checksum p; fp_skippable := fp_skippable p;
     fp_hsize := fp_hsize p; fp_dictid := fp_dictid p |}.

Inductive hres := HErr (e : derr) | HNeed (n : N) | HDone (p : fparams).

(* ZSTD_frameHeaderSize_internal; caller guarantees lenN src >= prefix_len *)
Definition frame_header_size (ml : bool) (src : bytes) : N :=
  let minIn := prefix_len ml in
  let fhd := nthN src (minIn - 1) 0 in
  let did := N.land fhd 3 in
  let single := N.testbit fhd 5 in
  let fcsId := N.shiftr fhd 6 in
  minIn + (if single then 0 else 1) + nthN s_did_fieldSize did 0 + nthN s_fcs_fieldSize fcsId 0
        + (if andb single (fcsId =? 0) then 1 else 0).

(* ZSTD_getFrameHeader_advanced *)
Definition get_fheader (ml : bool) (src : bytes) : hres :=
  let n := lenN src in
  let minIn := prefix_len ml in
  if n <? minIn then
    if andb (0 <? n) (negb ml) then
      if overlay src ZMAGIC =? ZMAGIC then HNeed minIn
      else if is_skip_magic (overlay src SKIP_START) then HNeed minIn
      else HErr Eprefix_unknown
    else HNeed minIn
  else if andb (negb ml) (negb (le32 src =? ZMAGIC)) then
    if is_skip_magic (le32 src) then
      if n <? SKIPHDR then HNeed SKIPHDR
      else HDone {| fp_fcs := sub_le src s_ZSTD_FRAMEIDSIZE 4; fp_window := 0; fp_blockMax := 0; fp_checksum := false;
                    fp_skippable := true; fp_hsize := 0; fp_dictid := 0 |}
    else HErr Eprefix_unknown
  else
    let fhs := frame_header_size ml src in
    if n <? fhs then HNeed fhs
    else
      let fhd := nthN src (minIn - 1) 0 in
      let didc := N.land fhd 3 in
      let cksum := N.testbit fhd 2 in
      let single := N.testbit fhd 5 in
      let fcsId := N.shiftr fhd 6 in
      if N.testbit fhd 3 then HErr EframeParameter_unsupported
      else
        let wl := nthN src minIn 0 in
        let wlog := N.shiftr wl 3 + s_ZSTD_WINDOWLOG_ABSOLUTEMIN in
        if andb (negb single) (s_ZSTD_WINDOWLOG_MAX <? wlog) then HErr EwindowTooLarge
        else
          let w0 := if single then 0 else pow2 wlog + N.shiftr (pow2 wlog) 3 * N.land wl 7 in
          let pos1 := minIn + (if single then 0 else 1) in
          let didsz := nthN s_did_fieldSize didc 0 in
          let did := sub_le src pos1 didsz in
          let pos2 := pos1 + didsz in
          let fcs := if fcsId =? 0 then (if single then sub_le src pos2 1 else UNKNOWN)
                     else if fcsId =? 1 then sub_le src pos2 2 + 256
                     else if fcsId =? 2 then sub_le src pos2 4
                     else sub_le src pos2 8 in
          let w := if single then fcs else w0 in
          HDone {| fp_fcs := fcs; fp_window := w; fp_blockMax := N.min w BLOCKMAX; fp_checksum := cksum;
                   fp_skippable := false; fp_hsize := fhs; fp_dictid := did |}.

(* ---------- block header (ZSTD_getcBlockSize on exactly ZSTD_blockHeaderSize bytes) ---------- *)
Inductive btype := BtRaw | BtRle | BtCompressed | BtReserved.
Record bprops := { bp_csize : N (* value returned: bytes that follow *); bp_type : btype; bp_orig : N; bp_last : bool }.
Definition getc_block (src : bytes) : mres bprops :=
  let h := sub_le src 0 3 in
  let cs := N.shiftr h 3 in
  let t := N.land (N.shiftr h 1) 3 in
  let last := N.testbit h 0 in
  if t =? 3 then MErr Ecorruption
  else if t =? 1 then MOk {| bp_csize := 1; bp_type := BtRle; bp_orig := cs; bp_last := last |}
  else MOk {| bp_csize := cs; bp_type := (if t =? 0 then BtRaw else BtCompressed); bp_orig := cs; bp_last := last |}.

(* ---------- decoder parameters (ZSTD_DCtx_setParameter) ---------- *)
Record dparams := {
  dp_magicless : bool;        (* ZSTD_d_format *)
  dp_maxWindow : N;           (* maxWindowSize = 2^windowLogMax (+1 for the default) *)
  dp_maxBlock : N;            (* ZSTD_d_maxBlockSize, 0 = unset *)
  dp_stableOut : bool;        (* ZSTD_d_stableOutBuffer *)
  dp_ignoreChecksum : bool }. (* ZSTD_d_forceIgnoreChecksum *)
Definition default_dparams : dparams :=
  {| dp_magicless := false; dp_maxWindow := s_ZSTD_MAXWINDOWSIZE_DEFAULT; dp_maxBlock := 0; dp_stableOut := false; dp_ignoreChecksum := false |}.

Section Decoder.
(* ---------- abstract block-level decoder ---------- *)
Variable H : Type.                                        (* entropy tables + history of the current frame *)
Variable b_init : H.                                      (* ZSTD_decompressBegin, no dictionary *)
Variable b_raw : H -> bytes -> H.                         (* a raw block was copied to the output *)
Variable b_rle : H -> N -> N -> H.                        (* an RLE block (byte, count) was written *)
Variable b_cblock : N -> N -> H -> bytes -> res (H * bytes).  (* window, blockSizeMax, state, block content -> regenerated bytes *)
Variable b_hash : bytes -> N.                             (* (U32) XXH64(content, 0) *)

Definition of_res {A} (r : res A) : mres A :=
  match r with Ok a => MOk a | Err c s => MErr (Eblock c s) end.

(* ================= one-shot path: ZSTD_decompressFrame / ZSTD_decompressMultiFrame =================
   [strict] = true adds the two block-size checks that only ZSTD_decompressContinue performs (RLE / regenerated
   size <= blockSizeMax, which the format requires) and the window limit of the streaming API: that is the
   specification [spec_decode] the streaming decoder is compared with.  [strict] = false is the C one-shot code. *)
Fixpoint frame_blocks (fuel : nat) (strict : bool) (fp : fparams) (h : H) (src : bytes) (cap : N) (acc : list bytes)
  : mres (list bytes * bytes (* rest *) * N (* cap left *)) :=
  match fuel with
  | O => MErr (Eimpossible 1)
  | S f =>
    fail_if (lenN src <? BHS) with EsrcSize_wrong;
    let* bp := getc_block (tk BHS src) in
    let rest := dr BHS src in
    fail_if (lenN rest <? bp_csize bp) with EsrcSize_wrong;
    let blk := tk (bp_csize bp) rest in
    let rest' := dr (bp_csize bp) rest in
    let* r :=
      match bp_type bp with
      | BtCompressed =>
          fail_if (fp_blockMax fp <? bp_csize bp) with (if strict then Ecorruption else EsrcSize_wrong);
          let* d := of_res (b_cblock (fp_window fp) (fp_blockMax fp) h blk) in
          fail_if (cap <? lenN (snd d)) with EdstSize_tooSmall;
          MOk d
      | BtRaw =>
          fail_if (andb strict (fp_blockMax fp <? bp_csize bp)) with Ecorruption;
          fail_if (cap <? bp_csize bp) with EdstSize_tooSmall;
          (* an empty raw block leaves the block-decoder state alone (as ZSTD_decompressContinue's block-header stage does) *)
          MOk ((if bp_csize bp =? 0 then h else b_raw h blk), blk)
      | BtRle =>
          fail_if (cap <? bp_orig bp) with EdstSize_tooSmall;
          MOk (b_rle h (nthN blk 0 0) (bp_orig bp), repeat_byte (nthN blk 0 0) (bp_orig bp))
      | BtReserved => MErr Ecorruption
      end in
    let '(h', out) := r in
    fail_if (andb strict (fp_blockMax fp <? lenN out)) with Ecorruption;
    if bp_last bp then MOk (rev' (out :: acc), rest', cap - lenN out)
    else frame_blocks f strict fp h' rest' (cap - lenN out) (out :: acc)
  end.

(* ZSTD_decodeFrameHeader on exactly [hs] bytes: header + dictID check (no dictionary is loaded in this model) *)
Definition decode_fheader (P : dparams) (hdr : bytes) : mres fparams :=
  match get_fheader (dp_magicless P) hdr with
  | HErr e => MErr e
  | HNeed _ => MErr EsrcSize_wrong
  | HDone fp => fail_if (negb (fp_dictid fp =? 0)) with Edictionary_wrong; MOk fp
  end.

Definition clamp_block (P : dparams) (fp : fparams) : fparams :=
  if dp_maxBlock P =? 0 then fp else fp_set_window_block fp (fp_window fp) (N.min (fp_blockMax fp) (dp_maxBlock P)).

(* ZSTD_decompressFrame: returns the regenerated chunks, the remaining input and the remaining capacity *)
Definition decompress_frame (strict : bool) (P : dparams) (src : bytes) (cap : N) : mres (list bytes * bytes * N) :=
  let ml := dp_magicless P in
  fail_if (lenN src <? hdr_min ml + BHS) with EsrcSize_wrong;
  let fhs := frame_header_size ml src in
  fail_if (lenN src <? fhs + BHS) with EsrcSize_wrong;
  let* fp0 := decode_fheader P (tk fhs src) in
  fail_if (andb strict (dp_maxWindow P <? N.max (fp_window fp0) (pow2 s_ZSTD_WINDOWLOG_ABSOLUTEMIN))) with EwindowTooLarge;
  let fp := clamp_block P fp0 in
  let body := dr fhs src in
  let* b := frame_blocks (S (length body)) strict fp b_init body cap [] in
  let '(chunks, rest, cap') := b in
  let out := concat chunks in
  fail_if (andb (negb (fp_fcs fp =? UNKNOWN)) (negb (lenN out =? fp_fcs fp))) with Ecorruption;
  if fp_checksum fp then
    fail_if (lenN rest <? 4) with Echecksum_wrong;
    fail_if (andb (negb (dp_ignoreChecksum P)) (negb (le32 rest =? b_hash out))) with Echecksum_wrong;
    MOk (chunks, dr 4 rest, cap')
  else MOk (chunks, rest, cap').

(* readSkippableFrameSize *)
Definition skippable_size (src : bytes) : mres N :=
  fail_if (lenN src <? SKIPHDR) with EsrcSize_wrong;
  let sz := sub_le src s_ZSTD_FRAMEIDSIZE 4 in
  fail_if (4294967296 <=? sz + SKIPHDR) with EframeParameter_unsupported;
  fail_if (lenN src <? sz + SKIPHDR) with EsrcSize_wrong;
  MOk (sz + SKIPHDR).

(* ZSTD_decompressMultiFrame (legacy frames are outside the model) *)
Fixpoint decompress_multi (fuel : nat) (strict : bool) (P : dparams) (src : bytes) (cap : N) (more : bool) (acc : list bytes)
  : mres (list bytes) :=
  match fuel with
  | O => MErr (Eimpossible 2)
  | S f =>
    if lenN src <? prefix_len (dp_magicless P) then
      fail_if (negb (lenN src =? 0)) with EsrcSize_wrong; MOk (rev' acc)
    else if andb (negb (dp_magicless P)) (andb (4 <=? lenN src) (is_skip_magic (le32 src))) then
      let* sk := skippable_size src in
      decompress_multi f strict P (dr sk src) cap more acc
    else
      match decompress_frame strict P src cap with
      | MErr e => MErr (match e with Eprefix_unknown => if more then EsrcSize_wrong else e | _ => e end)
      | MOk (chunks, rest, cap') => decompress_multi f strict P rest cap' true (rev_append chunks acc)
      end
  end.

(* ZSTD_decompress_usingDDict(dctx, dst, cap, src, |src|, NULL) *)
Definition oneshot (P : dparams) (src : bytes) (cap : N) : mres bytes :=
  let* c := decompress_multi (S (length src)) false P src cap false [] in MOk (concat c).

(* the specification: strict decoding with unlimited output capacity *)
Definition spec_decode (P : dparams) (src : bytes) : mres bytes :=
  let* c := decompress_multi (S (length src)) true P src (pow2 64) false [] in MOk (concat c).

(* ZSTD_findFrameCompressedSize_advanced; None = any error code (a value larger than every size) *)
Fixpoint walk_blocks (fuel : nat) (src : bytes) (consumed : N) : option (bytes * N) :=
  match fuel with
  | O => None
  | S f =>
    if lenN src <? BHS then None
    else match getc_block (tk BHS src) with
         | MErr _ => None
         | MOk bp =>
           if lenN src <? BHS + bp_csize bp then None
           else let rest := dr (BHS + bp_csize bp) src in
                if bp_last bp then Some (rest, consumed + BHS + bp_csize bp)
                else walk_blocks f rest (consumed + BHS + bp_csize bp)
         end
  end.
Definition find_csize (ml : bool) (src : bytes) : option N :=
  if andb (negb ml) (andb (SKIPHDR <=? lenN src) (is_skip_magic (le32 src))) then
    match skippable_size src with MOk n => Some n | MErr _ => None end
  else match get_fheader ml src with
       | HDone fp =>
         match walk_blocks (S (length src)) (dr (fp_hsize fp) src) (fp_hsize fp) with
         | Some (rest, n) => if fp_checksum fp then (if lenN rest <? 4 then None else Some (n + 4)) else Some n
         | None => None
         end
       | _ => None
       end.

(* ================= ZSTD_decompressContinue ================= *)
Inductive dstage := DGetFHSize | DDecodeFH | DDecodeBH | DBlock | DLastBlock | DChecksum | DSkipHdr | DSkipFrame.

Record cstate := {
  c_stage : dstage;
  c_expected : N;
  c_btype : btype;
  c_rleSize : N;
  c_fp : fparams;
  c_validate : bool;           (* validateChecksum *)
  c_decoded : N;               (* decodedSize *)
  c_fout : bytes;              (* regenerated bytes of the current frame, newest first (stands for xxhState) *)
  c_raw : bytes;               (* the part already seen of the raw block being streamed, newest first *)
  c_h : H;
  c_hdr : bytes;               (* headerBuffer as filled by the buffer-less API *)
  c_hdrSize : N }.

Definition c_begin (P : dparams) : cstate :=      (* ZSTD_decompressBegin *)
  {| c_stage := DGetFHSize; c_expected := prefix_len (dp_magicless P); c_btype := BtReserved; c_rleSize := 0;
     c_fp := fp_zero; c_validate := false; c_decoded := 0; c_fout := []; c_raw := []; c_h := b_init; c_hdr := []; c_hdrSize := 0 |}.

Definition c_goto (c : cstate) (st : dstage) (e : N) : cstate :=
  {| c_stage := st; c_expected := e; c_btype := c_btype c; c_rleSize := c_rleSize c; c_fp := c_fp c; c_validate := c_validate c;
     c_decoded := c_decoded c; c_fout := c_fout c; c_raw := c_raw c; c_h := c_h c; c_hdr := c_hdr c; c_hdrSize := c_hdrSize c |}.
Definition c_set_hdr (c : cstate) (hdr : bytes) (hs : N) : cstate :=
  {| c_stage := c_stage c; c_expected := c_expected c; c_btype := c_btype c; c_rleSize := c_rleSize c; c_fp := c_fp c;
     c_validate := c_validate c; c_decoded := c_decoded c; c_fout := c_fout c; c_raw := c_raw c; c_h := c_h c; c_hdr := hdr; c_hdrSize := hs |}.
Definition c_set_fp (P : dparams) (c : cstate) (fp : fparams) : cstate :=   (* tail of ZSTD_decodeFrameHeader *)
  {| c_stage := c_stage c; c_expected := c_expected c; c_btype := c_btype c; c_rleSize := c_rleSize c; c_fp := fp;
     c_validate := andb (fp_checksum fp) (negb (dp_ignoreChecksum P)); c_decoded := c_decoded c; c_fout := c_fout c; c_raw := c_raw c;
     c_h := c_h c; c_hdr := c_hdr c; c_hdrSize := c_hdrSize c |}.
Definition c_set_block (c : cstate) (st : dstage) (e : N) (bt : btype) (rle : N) : cstate :=
  {| c_stage := st; c_expected := e; c_btype := bt; c_rleSize := rle; c_fp := c_fp c; c_validate := c_validate c;
     c_decoded := c_decoded c; c_fout := c_fout c; c_raw := c_raw c; c_h := c_h c; c_hdr := c_hdr c; c_hdrSize := c_hdrSize c |}.
Definition c_after_block (c : cstate) (e : N) (out : bytes) (raw : bytes) (h : H) : cstate :=
  {| c_stage := c_stage c; c_expected := e; c_btype := c_btype c; c_rleSize := c_rleSize c; c_fp := c_fp c; c_validate := c_validate c;
     c_decoded := c_decoded c + lenN out; c_fout := rev_append out (c_fout c); c_raw := raw; c_h := h; c_hdr := c_hdr c; c_hdrSize := c_hdrSize c |}.

Definition frame_out (c : cstate) : bytes := rev' (c_fout c).
Definition is_block_stage (c : cstate) : bool :=
  match c_stage c with DBlock | DLastBlock => true | _ => false end.
Definition is_skip (c : cstate) : bool := match c_stage c with DSkipFrame => true | _ => false end.

(* ZSTD_nextSrcSizeToDecompressWithInputSize *)
Definition next_with_input (c : cstate) (inputSize : N) : N :=
  if is_block_stage c then
    match c_btype c with
    | BtRaw => N.max 1 (N.min inputSize (c_expected c))
    | _ => c_expected c
    end
  else c_expected c.

(* the switch(dctx->bType) of stages decompressBlock / decompressLastBlock:
   -> new block-decoder state, regenerated bytes, what remains expected of this block, raw bytes seen so far *)
Definition block_body (c : cstate) (dstCap : N) (src : bytes) (srcSize : N) : mres (H * bytes * N * bytes) :=
  match c_btype c with
  | BtCompressed =>
      let* d := of_res (b_cblock (fp_window (c_fp c)) (fp_blockMax (c_fp c)) (c_h c) src) in
      fail_if (dstCap <? lenN (snd d)) with EdstSize_tooSmall;
      MOk (fst d, snd d, 0, [])
  | BtRaw =>
      fail_if (dstCap <? srcSize) with EdstSize_tooSmall;
      let e' := c_expected c - srcSize in
      if e' =? 0 then MOk (b_raw (c_h c) (rev' (rev_append src (c_raw c))), src, 0, [])
      else MOk (c_h c, src, e', rev_append src (c_raw c))
  | BtRle =>
      fail_if (dstCap <? c_rleSize c) with EdstSize_tooSmall;
      MOk (b_rle (c_h c) (nthN src 0 0) (c_rleSize c), repeat_byte (nthN src 0 0) (c_rleSize c), 0, [])
  | BtReserved => MErr Ecorruption
  end.

(* the code after the switch: size check, accounting, next stage *)
Definition block_finish (c : cstate) (r : H * bytes * N * bytes) : mres (cstate * bytes) :=
  let '(h', out, e', raw') := r in
  fail_if (fp_blockMax (c_fp c) <? lenN out) with Ecorruption;
  let c1 := c_after_block c e' out raw' h' in
  if 0 <? e' then MOk (c1, out)
  else match c_stage c with
       | DLastBlock =>
           fail_if (andb (negb (fp_fcs (c_fp c) =? UNKNOWN)) (negb (c_decoded c1 =? fp_fcs (c_fp c)))) with Ecorruption;
           if fp_checksum (c_fp c) then MOk (c_goto c1 DChecksum 4, out) else MOk (c_goto c1 DGetFHSize 0, out)
       | _ => MOk (c_goto c1 DDecodeBH BHS, out)
       end.

(* ZSTD_decompressContinue(dctx, dst, dstCap, src, srcSize); [src] carries the bytes actually read
   (nothing is read in stage skipFrame, where only [srcSize] matters) *)
Definition dcontinue (P : dparams) (c : cstate) (dstCap : N) (src : bytes) (srcSize : N) : mres (cstate * bytes) :=
  fail_if (negb (srcSize =? next_with_input c srcSize)) with EsrcSize_wrong;
  match c_stage c with
  | DGetFHSize =>
      if andb (negb (dp_magicless P)) (is_skip_magic (le32 src)) then
        MOk (c_goto (c_set_hdr c src 0) DSkipHdr (SKIPHDR - srcSize), [])
      else
        let hs := frame_header_size (dp_magicless P) src in
        MOk (c_goto (c_set_hdr c src hs) DDecodeFH (hs - srcSize), [])
  | DDecodeFH =>
      let hdr := c_hdr c ++ src in
      let* fp := decode_fheader P (tk (c_hdrSize c) hdr) in
      MOk (c_goto (c_set_fp P (c_set_hdr c hdr (c_hdrSize c)) fp) DDecodeBH BHS, [])
  | DDecodeBH =>
      let* bp := getc_block src in
      (* an RLE block is 1 byte long whatever it regenerates: the limit applies to its regenerated size
         (/repo fix for the zero-window RLE frame 28b52ffd 20 00 030000 41) *)
      fail_if (fp_blockMax (c_fp c) <? (match bp_type bp with BtRle => bp_orig bp | _ => bp_csize bp end)) with Ecorruption;
      if negb (bp_csize bp =? 0) then
        MOk (c_set_block c (if bp_last bp then DLastBlock else DBlock) (bp_csize bp) (bp_type bp) (bp_orig bp), [])
      else if bp_last bp then
        (* empty last block: the content-size check of the frame end (/repo commit f70c502) *)
        fail_if (andb (negb (fp_fcs (c_fp c) =? UNKNOWN)) (negb (c_decoded c =? fp_fcs (c_fp c)))) with Ecorruption;
        if fp_checksum (c_fp c) then MOk (c_set_block c DChecksum 4 (bp_type bp) (bp_orig bp), [])
        else MOk (c_set_block c DGetFHSize 0 (bp_type bp) (bp_orig bp), [])
      else MOk (c_set_block c DDecodeBH BHS (bp_type bp) (bp_orig bp), [])
  | DBlock | DLastBlock =>
      let* r := block_body c dstCap src srcSize in block_finish c r
  | DChecksum =>
      fail_if (andb (c_validate c) (negb (le32 src =? b_hash (frame_out c)))) with Echecksum_wrong;
      MOk (c_goto c DGetFHSize 0, [])
  | DSkipHdr =>
      let hdr := c_hdr c ++ src in
      MOk (c_goto (c_set_hdr c hdr (c_hdrSize c)) DSkipFrame (sub_le hdr s_ZSTD_FRAMEIDSIZE 4), [])
  | DSkipFrame => MOk (c_goto c DGetFHSize 0, [])
  end.

(* ================= ZSTD_decompressStream ================= *)
Inductive sstage := ZInit | ZLoadHeader | ZRead | ZLoad | ZFlush.

Record zstate := {
  z_stage : sstage;
  z_lh : bytes;            (* headerBuffer[0 .. lhSize) *)
  z_inbuf : bytes;         (* inBuff[0 .. inPos) (empty while a skippable frame is being skipped) *)
  z_inPos : N;
  z_inBuffSize : N;
  z_outBuffSize : N;
  z_outStart : N;
  z_outEnd : N;
  z_pending : bytes;       (* outBuff[outStart .. outEnd) *)
  z_hostage : bool;
  z_noProgress : N;
  z_oversized : N;         (* oversizedDuration *)
  z_expect : N * N;        (* expectedOutBuffer (size, pos) *)
  z_c : cstate }.

Definition z_new (P : dparams) : zstate :=      (* ZSTD_createDCtx + parameters *)
  {| z_stage := ZInit; z_lh := []; z_inbuf := []; z_inPos := 0; z_inBuffSize := 0; z_outBuffSize := 0; z_outStart := 0; z_outEnd := 0;
     z_pending := []; z_hostage := false; z_noProgress := 0; z_oversized := 0; z_expect := (0, 0); z_c := c_goto (c_begin P) DGetFHSize 0 |}.

Definition z_upd (z : zstate) (st : sstage) (c : cstate) : zstate :=
  {| z_stage := st; z_lh := z_lh z; z_inbuf := z_inbuf z; z_inPos := z_inPos z; z_inBuffSize := z_inBuffSize z;
     z_outBuffSize := z_outBuffSize z; z_outStart := z_outStart z; z_outEnd := z_outEnd z; z_pending := z_pending z;
     z_hostage := z_hostage z; z_noProgress := z_noProgress z; z_oversized := z_oversized z; z_expect := z_expect z; z_c := c |}.
Definition z_set_stage (z : zstate) (st : sstage) : zstate := z_upd z st (z_c z).
Definition z_set_lh (z : zstate) (lh : bytes) : zstate :=
  {| z_stage := z_stage z; z_lh := lh; z_inbuf := z_inbuf z; z_inPos := z_inPos z; z_inBuffSize := z_inBuffSize z;
     z_outBuffSize := z_outBuffSize z; z_outStart := z_outStart z; z_outEnd := z_outEnd z; z_pending := z_pending z;
     z_hostage := z_hostage z; z_noProgress := z_noProgress z; z_oversized := z_oversized z; z_expect := z_expect z; z_c := z_c z |}.
Definition z_set_in (z : zstate) (buf : bytes) (pos : N) : zstate :=
  {| z_stage := z_stage z; z_lh := z_lh z; z_inbuf := buf; z_inPos := pos; z_inBuffSize := z_inBuffSize z;
     z_outBuffSize := z_outBuffSize z; z_outStart := z_outStart z; z_outEnd := z_outEnd z; z_pending := z_pending z;
     z_hostage := z_hostage z; z_noProgress := z_noProgress z; z_oversized := z_oversized z; z_expect := z_expect z; z_c := z_c z |}.
Definition z_set_out (z : zstate) (st : sstage) (os oe : N) (pend : bytes) : zstate :=
  {| z_stage := st; z_lh := z_lh z; z_inbuf := z_inbuf z; z_inPos := z_inPos z; z_inBuffSize := z_inBuffSize z;
     z_outBuffSize := z_outBuffSize z; z_outStart := os; z_outEnd := oe; z_pending := pend;
     z_hostage := z_hostage z; z_noProgress := z_noProgress z; z_oversized := z_oversized z; z_expect := z_expect z; z_c := z_c z |}.
Definition z_set_bufs (z : zstate) (ib ob ov : N) : zstate :=
  {| z_stage := z_stage z; z_lh := z_lh z; z_inbuf := z_inbuf z; z_inPos := z_inPos z; z_inBuffSize := ib;
     z_outBuffSize := ob; z_outStart := z_outStart z; z_outEnd := z_outEnd z; z_pending := z_pending z;
     z_hostage := z_hostage z; z_noProgress := z_noProgress z; z_oversized := ov; z_expect := z_expect z; z_c := z_c z |}.
Definition z_set_tail (z : zstate) (st : sstage) (host : bool) (np : N) (ex : N * N) : zstate :=
  {| z_stage := st; z_lh := z_lh z; z_inbuf := z_inbuf z; z_inPos := z_inPos z; z_inBuffSize := z_inBuffSize z;
     z_outBuffSize := z_outBuffSize z; z_outStart := z_outStart z; z_outEnd := z_outEnd z; z_pending := z_pending z;
     z_hostage := host; z_noProgress := np; z_oversized := z_oversized z; z_expect := ex; z_c := z_c z |}.
(* case zdss_init *)
Definition z_reset (z : zstate) (ex : N * N) : zstate :=
  {| z_stage := ZLoadHeader; z_lh := []; z_inbuf := []; z_inPos := 0; z_inBuffSize := z_inBuffSize z;
     z_outBuffSize := z_outBuffSize z; z_outStart := 0; z_outEnd := 0; z_pending := [];
     z_hostage := false; z_noProgress := z_noProgress z; z_oversized := z_oversized z; z_expect := ex; z_c := z_c z |}.

(* ZSTD_decodingBufferSize_internal *)
Definition decoding_buffer_size (window fcs blockMax : N) : N :=
  let blockSize := N.min (N.min window BLOCKMAX) blockMax in
  N.min fcs (window + blockSize * 2 + WOVER * 2).

(* local variables of one ZSTD_decompressStream call *)
Record lstate := {
  l_z : zstate;
  l_in : bytes;     (* [ip, iend) *)
  l_ip : N;         (* ip - istart *)
  l_out : bytes;    (* [ostart, op) *)
  l_ocap : N }.     (* oend - op *)
Definition l_mk (z : zstate) (i : bytes) (ip : N) (o : bytes) (oc : N) : lstate :=
  {| l_z := z; l_in := i; l_ip := ip; l_out := o; l_ocap := oc |}.
Definition l_setz (l : lstate) (z : zstate) : lstate := l_mk z (l_in l) (l_ip l) (l_out l) (l_ocap l).
Definition l_adv (l : lstate) (z : zstate) (n : N) : lstate := l_mk z (dr n (l_in l)) (l_ip l + n) (l_out l) (l_ocap l).
Definition l_emit (l : lstate) (z : zstate) (o : bytes) : lstate := l_mk z (l_in l) (l_ip l) (l_out l ++ o) (l_ocap l - lenN o).

Inductive ires :=
| ICont (l : lstate)                (* break; someMoreWork still 1 *)
| IStop (l : lstate)                (* someMoreWork = 0 *)
| IEarly (z : zstate) (hint : N)    (* the return inside zdss_loadHeader: input->pos = input->size, output->pos untouched *)
| IErr (e : derr).

(* ZSTD_decompressContinueStream *)
Definition cont_stream (P : dparams) (l : lstate) (src : bytes) (srcSize : N) : mres lstate :=
  let z := l_z l in
  let skip := is_skip (z_c z) in
  if dp_stableOut P then
    let* r := dcontinue P (z_c z) (if skip then 0 else l_ocap l) src srcSize in
    MOk (l_emit l (z_upd z ZRead (fst r)) (snd r))
  else
    let* r := dcontinue P (z_c z) (if skip then 0 else z_outBuffSize z - z_outStart z) src srcSize in
    let '(c', dec) := r in
    if andb (lenN dec =? 0) (negb skip) then MOk (l_setz l (z_upd z ZRead c'))
    else MOk (l_setz l (z_set_out (z_upd z ZFlush c') ZFlush (z_outStart z) (z_outStart z + lenN dec) dec)).

Definition iter_flush (l : lstate) : ires :=
  let z := l_z l in
  let toFlush := z_outEnd z - z_outStart z in
  let flushed := N.min (l_ocap l) toFlush in
  let chunk := tk flushed (z_pending z) in
  let os := z_outStart z + flushed in
  if flushed =? toFlush then
    let fp := c_fp (z_c z) in
    if andb (z_outBuffSize z <? fp_fcs fp) (z_outBuffSize z <? os + fp_blockMax fp)
    then ICont (l_emit l (z_set_out z ZRead 0 0 []) chunk)
    else ICont (l_emit l (z_set_out z ZRead os (z_outEnd z) (dr flushed (z_pending z))) chunk)
  else IStop (l_emit l (z_set_out z ZFlush os (z_outEnd z) (dr flushed (z_pending z))) chunk).

Definition iter_load (P : dparams) (l : lstate) : ires :=
  let z := l_z l in
  let needed := c_expected (z_c z) in
  let toLoad := needed - z_inPos z in
  let skip := is_skip (z_c z) in
  if andb (negb skip) (z_inBuffSize z - z_inPos z <? toLoad) then IErr Ecorruption
  else
    let loaded := N.min toLoad (lenN (l_in l)) in
    let buf := if skip then z_inbuf z else z_inbuf z ++ tk loaded (l_in l) in
    let l1 := l_adv l (z_set_in z buf (z_inPos z + loaded)) loaded in
    if loaded <? toLoad then IStop l1
    else match cont_stream P (l_setz l1 (z_set_in (l_z l1) [] 0)) buf needed with
         | MOk l2 => ICont l2
         | MErr e => IErr e
         end.

Definition iter_read (P : dparams) (l : lstate) : ires :=
  let z := l_z l in
  let avail := lenN (l_in l) in
  let needed := next_with_input (z_c z) avail in
  if needed =? 0 then IStop (l_setz l (z_set_stage z ZInit))
  else if needed <=? avail then
    match cont_stream P l (tk needed (l_in l)) needed with
    | MOk l1 => ICont (l_mk (l_z l1) (dr needed (l_in l1)) (l_ip l1 + needed) (l_out l1) (l_ocap l1))
    | MErr e => IErr e
    end
  else if avail =? 0 then IStop l
  else iter_load P (l_setz l (z_set_stage z ZLoad)).

(* stage zdss_loadHeader once the header is complete: shortcut, begin, buffer sizing; falls through to zdss_read *)
(* [old] = true is the code before /repo commit 81dbe9b (shortcut also tried when an earlier call had consumed part of
   the header); kept only for the refutation witnesses in DStreamProofs.v *)
Definition header_done (old : bool) (P : dparams) (inp0 : bytes) (l : lstate) (fp : fparams) : ires :=
  let z := l_z l in
  let ml := dp_magicless P in
  let shortcut :=
    if andb (negb (fp_fcs fp =? UNKNOWN)) (andb (negb (fp_skippable fp))
            (andb (orb old (l_ip l =? lenN (z_lh z))) (fp_fcs fp <=? l_ocap l))) then
      match find_csize ml inp0 with
      | Some cs => if cs <=? lenN inp0 then Some cs else None
      | None => None
      end
    else None in
  match shortcut with
  | Some cs =>
      match oneshot P (tk cs inp0) (l_ocap l) with
      | MErr e => IErr e
      | MOk dec =>
          (* the one-shot call re-initialised the context (ZSTD_decompressBegin) and decoded the frame header(s) *)
          let c' := c_goto (c_begin P) DGetFHSize 0 in
          IStop (l_mk (z_upd z ZInit c') (dr cs inp0) cs (l_out l ++ dec) (l_ocap l - lenN dec))
      end
  | None =>
      if andb (dp_stableOut P) (andb (negb (fp_skippable fp)) (andb (negb (fp_fcs fp =? UNKNOWN)) (l_ocap l <? fp_fcs fp)))
      then IErr EdstSize_tooSmall
      else
        let c0 := c_begin P in
        let hdr := z_lh z in
        let r :=
          if andb (negb ml) (is_skip_magic (le32 hdr)) then
            MOk (c_goto (c_set_fp P c0 fp) DSkipFrame (sub_le hdr s_ZSTD_FRAMEIDSIZE 4))
          else
            let* fp' := decode_fheader P hdr in
            MOk (c_goto (c_set_fp P c0 fp') DDecodeBH BHS) in
        match r with
        | MErr e => IErr e
        | MOk c1 =>
            let w := N.max (fp_window (c_fp c1)) (pow2 s_ZSTD_WINDOWLOG_ABSOLUTEMIN) in
            if dp_maxWindow P <? w then IErr EwindowTooLarge
            else
              let fp2 := clamp_block P (fp_set_window_block (c_fp c1) w (fp_blockMax (c_fp c1))) in
              let c2 := c_set_fp P c1 fp2 in
              let neededIn := N.max (fp_blockMax fp2) 4 in
              let neededOut := if dp_stableOut P then 0 else decoding_buffer_size (fp_window fp2) (fp_fcs fp2) (fp_blockMax fp2) in
              let ov := if (neededIn + neededOut) * s_ZSTD_WORKSPACETOOLARGE_FACTOR <=? z_inBuffSize z + z_outBuffSize z
                        then z_oversized z + 1 else 0 in
              let tooSmall := orb (z_inBuffSize z <? neededIn) (z_outBuffSize z <? neededOut) in
              let tooLarge := s_ZSTD_WORKSPACETOOLARGE_MAXDURATION <=? ov in
              let z1 := if orb tooSmall tooLarge then z_set_bufs z neededIn neededOut ov
                        else z_set_bufs z (z_inBuffSize z) (z_outBuffSize z) ov in
              iter_read P (l_setz l (z_upd z1 ZRead c2))
        end
  end.

Definition iter_loadHeader (old : bool) (P : dparams) (inp0 : bytes) (l : lstate) : ires :=
  let z := l_z l in
  let ml := dp_magicless P in
  match get_fheader ml (z_lh z) with
  | HErr e => IErr e
  | HNeed hSize =>
      let toLoad := hSize - lenN (z_lh z) in
      let remaining := lenN (l_in l) in
      if remaining <? toLoad then
        let lh' := z_lh z ++ l_in l in
        match get_fheader ml lh' with
        | HErr e => IErr e
        | _ =>
            (* return hint input size.  While the frame type is unknown (fewer than ZSTD_FRAMEIDSIZE bytes seen) or the
               frame is skippable only the rest of the header is asked for: no block header follows a skippable header
               and its content may be empty (/repo fix for the C10 hint overshoot) *)
            IEarly (z_set_lh z lh')
                   (if andb (negb ml) (orb (lenN lh' <? s_ZSTD_FRAMEIDSIZE) (is_skip_magic (le32 lh')))
                    then hSize - lenN lh'
                    else N.max (hdr_min ml) hSize - lenN lh' + BHS)
        end
      else ICont (l_adv l (z_set_lh z (z_lh z ++ tk toLoad (l_in l))) toLoad)
  | HDone fp => header_done old P inp0 l fp
  end.

Definition iter (old : bool) (P : dparams) (inp0 : bytes) (ex : N * N) (l : lstate) : ires :=
  match z_stage (l_z l) with
  | ZInit => iter_loadHeader old P inp0 (l_setz l (z_reset (l_z l) ex))
  | ZLoadHeader => iter_loadHeader old P inp0 l
  | ZRead => iter_read P l
  | ZLoad => iter_load P l
  | ZFlush => iter_flush l
  end.

Fixpoint dloop (fuel : nat) (old : bool) (P : dparams) (inp0 : bytes) (ex : N * N) (l : lstate) : ires :=
  match fuel with
  | O => IErr (Eimpossible 3)
  | S f => match iter old P inp0 ex l with
           | ICont l' => dloop f old P inp0 ex l'
           | r => r
           end
  end.

(* result of one ZSTD_decompressStream call *)
Record dout := {
  o_z : zstate;
  o_consumed : N;      (* input->pos after - before *)
  o_out : bytes;       (* bytes written at output->pos *)
  o_ret : mres N }.

(* ZSTD_nextInputType(zds) == ZSTDnit_block *)
Definition next_is_block (c : cstate) : bool := match c_stage c with DBlock => true | _ => false end.

Definition dfuel (inp : bytes) : nat := S (S (S (S (2 * length inp)))).

(* ZSTD_decompressStream(zds, {dst, osize, opos}, {inp, |inp|, 0}) *)
Definition dstep_gen (old : bool) (P : dparams) (z : zstate) (inp : bytes) (osize opos : N) : dout :=
  let fail e := {| o_z := z; o_consumed := 0; o_out := []; o_ret := MErr e |} in
  if osize <? opos then fail EdstSize_tooSmall
  else if andb (dp_stableOut P) (andb (match z_stage z with ZInit => false | _ => true end)
                                      (negb (andb (fst (z_expect z) =? osize) (snd (z_expect z) =? opos))))
  then fail EdstBuffer_wrong
  else
  match dloop (dfuel inp) old P inp (osize, opos) (l_mk z inp 0 [] (osize - opos)) with
  | IErr e => fail e
  | ICont _ => fail (Eimpossible 4)
  | IEarly z' hint => {| o_z := z'; o_consumed := lenN inp; o_out := []; o_ret := MOk hint |}
  | IStop l =>
      let z1 := l_z l in
      let consumed := l_ip l in
      let ex' := (osize, opos + lenN (l_out l)) in
      let noprog := andb (consumed =? 0) (lenN (l_out l) =? 0) in
      let np := if noprog then z_noProgress z1 + 1 else 0 in
      (* the code after the no-forward-progress test *)
      let tail :=
        let c := z_c z1 in
        if c_expected c =? 0 then
          if z_outEnd z1 =? z_outStart z1 then
            if z_hostage z1 then
              if lenN inp <=? consumed then
                {| o_z := z_set_tail z1 ZRead true np ex'; o_consumed := consumed; o_out := l_out l; o_ret := MOk 1 |}
              else
                {| o_z := z_set_tail z1 (z_stage z1) true np ex'; o_consumed := consumed + 1; o_out := l_out l; o_ret := MOk 0 |}
            else {| o_z := z_set_tail z1 (z_stage z1) false np ex'; o_consumed := consumed; o_out := l_out l; o_ret := MOk 0 |}
          else if z_hostage z1 then
            {| o_z := z_set_tail z1 (z_stage z1) true np ex'; o_consumed := consumed; o_out := l_out l; o_ret := MOk 1 |}
          else if consumed =? 0 then
            {| o_z := z_set_tail z1 (z_stage z1) true np ex'; o_consumed := 0; o_out := l_out l; o_ret := MErr (Eimpossible 6) |}
          else
            {| o_z := z_set_tail z1 (z_stage z1) true np ex'; o_consumed := consumed - 1; o_out := l_out l; o_ret := MOk 1 |}
        else
          let hint := c_expected c + (if next_is_block c then BHS else 0) in
          {| o_z := z_set_tail z1 (z_stage z1) (z_hostage z1) np ex'; o_consumed := consumed; o_out := l_out l;
             o_ret := if hint <? z_inPos z1 then MErr (Eimpossible 7) else MOk (hint - z_inPos z1) |} in
      if andb noprog (NOPROGRESS_MAX <=? np) then
        if l_ocap l =? 0 then
          {| o_z := z_set_tail z1 (z_stage z1) (z_hostage z1) np ex'; o_consumed := 0; o_out := []; o_ret := MErr EnoProgress_destFull |}
        else if lenN (l_in l) =? 0 then
          {| o_z := z_set_tail z1 (z_stage z1) (z_hostage z1) np ex'; o_consumed := 0; o_out := []; o_ret := MErr EnoProgress_inputEmpty |}
        else
          (* C: assert(0), a no-op in release builds: reachable when the call that could release the hostage byte comes after
             ZSTD_NO_FORWARD_PROGRESS_MAX - 1 calls without input; the code then carries on *)
          tail
      else tail
  end.

Definition dstep := dstep_gen false.          (* the current code *)
Definition dstep_pre81dbe9b := dstep_gen true.

(* ---------- a whole history: calls (input offered, output capacity) over the stream [src] ---------- *)
Record dcall := { dc_in : N; dc_cap : N }.
(* buffered mode: every call gets a fresh output buffer {size = cap, pos = 0} *)
Fixpoint drun (P : dparams) (z : zstate) (src : bytes) (calls : list dcall) (acc : list dout) : list dout * zstate * bytes :=
  match calls with
  | [] => (rev' acc, z, src)
  | k :: t =>
      let o := dstep P z (tk (dc_in k) src) (dc_cap k) 0 in
      match o_ret o with
      | MErr _ => (rev' (o :: acc), o_z o, src)
      | MOk _ => drun P (o_z o) (dr (o_consumed o) src) t (o :: acc)
      end
  end.

(* ---------- buffer-less API: ZSTD_decompressBegin + ZSTD_decompressContinue fed exactly nextSrcSizeToDecompress ---------- *)
Fixpoint crun (fuel : nat) (P : dparams) (c : cstate) (src : bytes) (acc : list bytes) : mres (cstate * list bytes * bytes) :=
  match fuel with
  | O => MErr (Eimpossible 8)
  | S f =>
    let n := c_expected c in
    if n =? 0 then MOk (c, rev' acc, src)
    else
      fail_if (lenN src <? n) with EsrcSize_wrong;
      let* r := dcontinue P c (pow2 64) (if is_skip c then [] else tk n src) n in
      crun f P (fst r) (dr n src) (snd r :: acc)
  end.

End Decoder.

Arguments c_stage {H} c. Arguments c_expected {H} c. Arguments c_btype {H} c. Arguments c_rleSize {H} c. Arguments c_fp {H} c.
Arguments c_validate {H} c. Arguments c_decoded {H} c. Arguments c_fout {H} c. Arguments c_raw {H} c. Arguments c_h {H} c.
Arguments c_hdr {H} c. Arguments c_hdrSize {H} c.
Arguments z_stage {H} z. Arguments z_lh {H} z. Arguments z_inbuf {H} z. Arguments z_inPos {H} z. Arguments z_inBuffSize {H} z.
Arguments z_outBuffSize {H} z. Arguments z_outStart {H} z. Arguments z_outEnd {H} z. Arguments z_pending {H} z.
Arguments z_hostage {H} z. Arguments z_noProgress {H} z. Arguments z_oversized {H} z. Arguments z_expect {H} z. Arguments z_c {H} z.
Arguments l_z {H} l. Arguments l_in {H} l. Arguments l_ip {H} l. Arguments l_out {H} l. Arguments l_ocap {H} l.
Arguments ICont {H} l. Arguments IStop {H} l. Arguments IEarly {H} z hint. Arguments IErr {H} e.
Arguments o_z {H} d. Arguments o_consumed {H} d. Arguments o_out {H} d. Arguments o_ret {H} d.
Arguments c_goto {H}. Arguments c_set_hdr {H}. Arguments c_set_fp {H}. Arguments c_set_block {H}. Arguments c_after_block {H}.
Arguments frame_out {H}. Arguments is_block_stage {H}. Arguments is_skip {H}. Arguments next_with_input {H}. Arguments next_is_block {H}.
Arguments z_upd {H}. Arguments z_set_stage {H}. Arguments z_set_lh {H}. Arguments z_set_in {H}. Arguments z_set_out {H}.
Arguments z_set_bufs {H}. Arguments z_set_tail {H}. Arguments z_reset {H}. Arguments l_mk {H}. Arguments l_setz {H}. Arguments l_adv {H}.
Arguments l_emit {H}. Arguments iter_flush {H}.
