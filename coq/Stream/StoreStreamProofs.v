(* The streaming layer (CStreamModel) around the store-only block compressor, decoded by the reference decoder R:
   the hypothesis of the C02 round-trip theorem is discharged for a concrete compressor, so the conclusion holds for
   every call history with no assumption left. *)
From Coq Require Import NArith List Bool Lia.
From ZV.Codec Require Import Bytes ListLemmas XXH64 Block Frame Encode EncodeProofs.
From ZV.Stream Require Import DStreamModel CStreamModel StreamLemmas CStreamProofs StoreStream.
Import ListNotations.
Local Open Scope N_scope.

Lemma enc_fheader_nocs p a b d : fp_contentSize p = false -> enc_fheader p a d = enc_fheader p b d.
Proof. intros H. unfold enc_fheader, fh_single_segment, fh_fcs_code. rewrite H. reflexivity. Qed.

Lemma enc_blocks_app a : forall b, b <> [] -> enc_blocks (a ++ b) = concat (map (enc_block false) a) ++ enc_blocks b.
Proof.
  induction a as [|x t IH]; intros b Hb; [reflexivity|].
  cbn [app map concat]. rewrite <- app_assoc, <- (IH b Hb).
  destruct (t ++ b) eqn:E; [|reflexivity].
  apply app_eq_nil in E. destruct E as [_ E]. contradiction.
Qed.

Lemma blocks_content_app a b : blocks_content (a ++ b) = blocks_content a ++ blocks_content b.
Proof. unfold blocks_content. rewrite map_app, concat_app. reflexivity. Qed.

Lemma chunks_spec bsize src : 1 <= bsize ->
  concat (chunks bsize src) = src /\ Forall (fun c => lenN c <= bsize) (chunks bsize src) /\ chunks bsize src <> [].
Proof.
  intros H. destruct (chunks_fuel_spec (length src) bsize src H (le_n _)) as (C & F & NE).
  split; [exact C|]. split; [|exact NE].
  eapply Forall_impl; [|exact F]. intros c [Hc _]. exact Hc.
Qed.

Lemma mid_blocks_content bsize data : 1 <= bsize -> blocks_content (mid_blocks bsize data) = data.
Proof.
  intros H. destruct data as [|a t]; [reflexivity|]. unfold mid_blocks.
  rewrite blocks_content_raw. apply (chunks_spec bsize (a :: t) H).
Qed.

Lemma mid_blocks_fit bsize data : 1 <= bsize -> Forall (block_fits bsize) (mid_blocks bsize data).
Proof.
  intros H. destruct data as [|a t]; [constructor|]. unfold mid_blocks.
  destruct (chunks_spec bsize (a :: t) H) as (_ & F & _).
  apply Forall_forall. intros b Hb. apply in_map_iff in Hb. destruct Hb as (c & <- & Hc).
  rewrite Forall_forall in F. exact (F c Hc).
Qed.

Lemma mid_blocks_simple bsize data : forallb simple_block (mid_blocks bsize data) = true.
Proof.
  destruct data as [|a t]; [reflexivity|]. unfold mid_blocks.
  induction (chunks bsize (a :: t)) as [|c l IH]; [reflexivity|exact IH].
Qed.

(* all blocks of a frame given by its chunk list *)
Definition frame_blocks (bsize : N) (pre : list (bytes * bool)) (c : bytes) : list eblock :=
  concat (map (fun ch => mid_blocks bsize (fst ch)) pre) ++ map EBRaw (chunks bsize c).

Lemma frame_blocks_content bsize pre c : 1 <= bsize ->
  blocks_content (frame_blocks bsize pre c) = chunks_in (pre ++ [(c, true)]).
Proof.
  intros H. unfold frame_blocks. rewrite blocks_content_app, blocks_content_raw.
  rewrite (proj1 (chunks_spec bsize c H)). rewrite chunks_in_snoc. f_equal.
  unfold chunks_in. induction pre as [|[d b] t IH]; [reflexivity|].
  cbn [map concat fst]. rewrite blocks_content_app, IH, mid_blocks_content by exact H. reflexivity.
Qed.

Lemma chunks_ne bsize src : chunks bsize src <> [].
Proof. unfold chunks. destruct (length src); cbn [chunks_fuel]; [discriminate|]. destruct (lenN src <=? bsize); discriminate. Qed.

Lemma frame_blocks_ne bsize pre c : frame_blocks bsize pre c <> [].
Proof.
  unfold frame_blocks. intros E. apply app_eq_nil in E. destruct E as [_ E].
  pose proof (chunks_ne bsize c). destruct (chunks bsize c); [congruence|discriminate].
Qed.

Lemma frame_blocks_props bsize pre c : 1 <= bsize ->
  forallb simple_block (frame_blocks bsize pre c) = true /\
  Forall (block_fits bsize) (frame_blocks bsize pre c).
Proof.
  intros H. destruct (chunks_spec bsize c H) as (_ & F & NE). unfold frame_blocks. repeat split.
  - rewrite forallb_app. apply andb_true_iff. split.
    + induction pre as [|[d b] t IH]; [reflexivity|]. cbn [map concat fst]. rewrite forallb_app, IH, mid_blocks_simple. reflexivity.
    + clear. induction (chunks bsize c) as [|x l IH]; [reflexivity|exact IH].
  - apply Forall_app. split.
    + induction pre as [|[d b] t IH]; [constructor|]. cbn [map concat fst]. apply Forall_app. split; [apply mid_blocks_fit; exact H|exact IH].
    + apply Forall_forall. intros b Hb. apply in_map_iff in Hb. destruct Hb as (x & <- & Hx).
      rewrite Forall_forall in F. exact (F x Hx).
Qed.

Lemma frame_blocks_cons bsize d b t c : frame_blocks bsize ((d, b) :: t) c = mid_blocks bsize d ++ frame_blocks bsize t c.
Proof. unfold frame_blocks. cbn [map concat fst]. rewrite app_assoc. reflexivity. Qed.
Lemma chunks_in_cons d b l : chunks_in ((d, b) :: l) = d ++ chunks_in l.
Proof. reflexivity. Qed.

(* the bytes emitted for a complete chunk list, from any state of the store compressor *)
Lemma store_outs : forall pre s c, nolast pre ->
  outs sst store_chunk s (pre ++ [(c, true)]) =
  (if s_first s then enc_fheader (s_p s) 0 0 else [])
  ++ enc_blocks (frame_blocks (s_bsize s) pre c)
  ++ write_le 4 (N.land (xxh64 (s_seen s ++ chunks_in (pre ++ [(c, true)])) 0) 4294967295).
Proof.
  induction pre as [|[d b] t IH]; intros s c Hnl.
  - unfold outs, frame_blocks, chunks_in. cbn. rewrite !app_nil_r. reflexivity.
  - assert (Hb : b = false) by (apply (Hnl (d, b)); left; reflexivity). subst b.
    assert (Hnl' : nolast t) by (intros x Hx; apply Hnl; right; exact Hx).
    unfold outs in *. cbn [app run_chunks].
    unfold store_chunk at 1. cbv zeta.
    set (s1 := {| s_first := false; s_p := s_p s; s_bsize := s_bsize s; s_seen := s_seen s ++ d |}).
    specialize (IH s1 c Hnl').
    destruct (run_chunks sst store_chunk s1 (t ++ [(c, true)])) as [s2 o2] eqn:E. cbn [snd] in *. subst o2.
    subst s1. cbn [s_first s_p s_bsize s_seen app].
    rewrite (frame_blocks_cons (s_bsize s) d false t c).
    rewrite (enc_blocks_app (mid_blocks (s_bsize s) d) (frame_blocks (s_bsize s) t c) (frame_blocks_ne _ _ _)).
    rewrite (chunks_in_cons d false (t ++ [(c, true)])).
    rewrite <- !app_assoc. reflexivity.
Qed.

Lemma store_params_ok fc n : params_ok (store_params fc) n 0.
Proof. unfold params_ok, store_params. cbn [fp_windowLog fp_contentSize]. repeat split; try lia; try discriminate. Qed.

Lemma store_bsize_bounds fc :
  1 <= store_bsize fc /\ store_bsize fc <= pow2 (fp_windowLog (store_params fc)) /\ store_bsize fc <= BLOCK_MAX.
Proof.
  unfold store_bsize. set (w := pow2 (fp_windowLog (store_params fc))).
  assert (1 <= w).
  { unfold w. rewrite pow2_pow. assert (2 ^ fp_windowLog (store_params fc) <> 0) by (apply N.pow_nonzero; discriminate). lia. }
  unfold BLOCK_MAX. lia.
Qed.

(* the hypothesis of C02_cstream_roundtrip for the store compressor and the reference decoder *)
Theorem store_stream_decodes : forall cs fc pl chunks, complete chunks ->
  R_whole (outs sst store_chunk (store_begin cs fc pl) chunks) = Some (chunks_in chunks).
Proof.
  intros cs fc pl chunks (pre & c & -> & Hnl).
  rewrite store_outs by exact Hnl.
  unfold store_begin. cbn [s_first s_p s_bsize s_seen app].
  destruct (store_bsize_bounds fc) as (B1 & B2 & B3).
  set (bs := frame_blocks (store_bsize fc) pre c).
  assert (Ec : blocks_content bs = chunks_in (pre ++ [(c, true)])) by (apply frame_blocks_content; exact B1).
  destruct (frame_blocks_props (store_bsize fc) pre c B1) as (Hs & Hf). fold bs in Hs, Hf.
  rewrite <- Ec.
  rewrite (enc_fheader_nocs (store_params fc) 0 (lenN (blocks_content bs)) 0) by reflexivity.
  assert (Ef : enc_fheader (store_params fc) (lenN (blocks_content bs)) 0 ++ enc_blocks bs ++
               write_le 4 (N.land (xxh64 (blocks_content bs) 0) 4294967295) = enc_frame (store_params fc) 0 bs ++ []).
  { unfold enc_frame. cbn [fp_checksum store_params]. rewrite app_nil_r. reflexivity. }
  rewrite Ef.
  assert (Hw : frame_window (store_params fc) (lenN (blocks_content bs)) = pow2 (fp_windowLog (store_params fc))) by reflexivity.
  destruct (decode_enc_frame_simple default_config None (store_params fc) 0 bs []) as (t & Ht).
  - apply store_params_ok.
  - apply frame_blocks_ne.
  - exact Hs.
  - rewrite Hw. eapply Forall_impl; [|exact Hf]. intros b Hb. cbn [c_block_max default_config].
    destruct b as [x|v n|p r]; cbn [block_fits] in *; lia.
  - reflexivity.
  - rewrite Hw. cbn [c_window_max default_config fp_windowLog store_params]. rewrite !pow2_pow.
    apply N.pow_le_mono_r; lia.
  - exact I.
  - unfold R_whole. rewrite Ht. reflexivity.
Qed.

(* end to end, no hypothesis about the compressor: any history of ZSTD_compressStream2 calls (any input slicing, any output
   capacities, any directives) that ends with a completed frame has emitted frames which R decodes to the consumed input *)
Theorem store_stream_roundtrip :
  forall (P : kparams) (X : bytes) (cs : sst) (calls : list (kcall)) (k' : kstate sst) (pos' : N) (emitted' : bytes),
  calls_ok calls ->
  krun sst store_begin store_chunk P (k_new cs) X 0 calls [] = Some (k', pos', emitted') ->
  k_stage k' = KInit -> k_frameEnded k' = true -> k_held k' = [] ->
  exists frames : list (bytes * bytes),
    tk pos' X = concat (map fst frames) /\ emitted' = concat (map snd frames) /\
    forall io, In io frames -> R_whole (snd io) = Some (fst io).
Proof.
  intros P X cs calls k' pos' emitted' Hc Hr H1 H2 H3.
  exact (C02_stream_roundtrip sst store_begin store_chunk R_whole store_stream_decodes P X cs calls k' pos' emitted' Hc Hr H1 H2 H3).
Qed.
