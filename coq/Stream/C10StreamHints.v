(* C10, part (c): ZSTD_decompressStream fed exactly its return value (reader [srun] of C10Hints.v), buffered output mode,
   a fresh output buffer of [cap] >= ZSTD_BLOCKSIZE_MAX bytes per call. *)
From Coq Require Import NArith ZArith List Bool Lia PeanoNat.
From ZV.Codec Require Import Bytes ListLemmas.
From ZV.Gen Require Import Gen_Stream.
From ZV.Stream Require Import DStreamModel StreamLemmas C10Hints C10HintsProofs.
Import ListNotations.
Local Open Scope N_scope.

Section StreamHints.
Variable H : Type.
Variable b_init : H.
Variable b_raw : H -> bytes -> H.
Variable b_rle : H -> N -> N -> H.
Variable b_cblock : N -> N -> H -> bytes -> res (H * bytes).
Variable b_hash : bytes -> N.

Notation dcontinue := (dcontinue H b_raw b_rle b_cblock b_hash).
Notation cont_stream := (cont_stream H b_raw b_rle b_cblock b_hash).
Notation iter_read := (iter_read H b_raw b_rle b_cblock b_hash).
Notation iter_load := (iter_load H b_raw b_rle b_cblock b_hash).
Notation iter_loadHeader := (iter_loadHeader H b_init b_raw b_rle b_cblock b_hash false).
Notation header_done := (header_done H b_init b_raw b_rle b_cblock b_hash false).
Notation iter := (iter H b_init b_raw b_rle b_cblock b_hash false).
Notation dloop := (dloop H b_init b_raw b_rle b_cblock b_hash).
Notation dstep := (dstep H b_init b_raw b_rle b_cblock b_hash).
Notation srun := (srun H b_init b_raw b_rle b_cblock b_hash).
Notation block_body := (block_body H b_raw b_rle b_cblock).
Notation block_finish := (@block_finish H).
Notation cstate := (cstate H).
Notation zstate := (zstate H).
Notation lstate := (lstate H).

Ltac zsimp :=
  unfold z_set_stage, l_setz, l_adv, l_emit in *; unfold z_upd, z_set_lh, z_set_in, z_set_out, z_set_bufs, z_set_tail, z_reset, l_mk in *;
  cbn [z_stage z_lh z_inbuf z_inPos z_inBuffSize z_outBuffSize z_outStart z_outEnd z_pending z_hostage z_noProgress
       z_oversized z_expect z_c l_z l_in l_ip l_out l_ocap fst snd] in *.

(* ---------- one iteration of the loop, as equations ---------- *)
Lemma dloop_step f P inp0 ex (l : lstate) :
  dloop (S f) false P inp0 ex l = match iter P inp0 ex l with ICont l' => dloop f false P inp0 ex l' | r => r end.
Proof. reflexivity. Qed.

Lemma iter_read_exact P (l : lstate) needed :
  next_with_input (z_c (l_z l)) (lenN (l_in l)) = needed -> needed <> 0 -> needed <= lenN (l_in l) ->
  iter_read P l = match cont_stream P l (tk needed (l_in l)) needed with
                  | MOk l1 => ICont (l_mk (l_z l1) (dr needed (l_in l1)) (l_ip l1 + needed) (l_out l1) (l_ocap l1))
                  | MErr e => IErr e
                  end.
Proof.
  intros Hn H0 Hle. unfold DStreamModel.iter_read. rewrite Hn.
  replace (needed =? 0) with false by (symmetry; apply N.eqb_neq; exact H0).
  replace (needed <=? lenN (l_in l)) with true by (symmetry; apply N.leb_le; exact Hle). reflexivity.
Qed.

Lemma iter_read_empty P (l : lstate) :
  lenN (l_in l) = 0 -> next_with_input (z_c (l_z l)) 0 <> 0 -> iter_read P l = IStop l.
Proof.
  intros Hl Hn. unfold DStreamModel.iter_read. rewrite Hl.
  replace (next_with_input (z_c (l_z l)) 0 =? 0) with false by (symmetry; apply N.eqb_neq; exact Hn).
  replace (next_with_input (z_c (l_z l)) 0 <=? 0) with false by (symmetry; apply N.leb_gt; lia).
  reflexivity.
Qed.

Lemma iter_read_end P (l : lstate) :
  next_with_input (z_c (l_z l)) (lenN (l_in l)) = 0 -> iter_read P l = IStop (l_setz l (z_set_stage (l_z l) ZInit)).
Proof. intros Hn. unfold DStreamModel.iter_read. rewrite Hn. reflexivity. Qed.

Lemma cont_stream_ns P (l : lstate) src n :
  dp_stableOut P = false ->
  cont_stream P l src n =
  (let z := l_z l in
   let skip := is_skip (z_c z) in
   let* r := dcontinue P (z_c z) (if skip then 0 else z_outBuffSize z - z_outStart z) src n in
   if andb (lenN (snd r) =? 0) (negb skip) then MOk (l_setz l (z_upd z ZRead (fst r)))
   else MOk (l_setz l (z_set_out (z_upd z ZFlush (fst r)) ZFlush (z_outStart z) (z_outStart z + lenN (snd r)) (snd r)))).
Proof.
  intros Hs. unfold DStreamModel.cont_stream. rewrite Hs. cbv zeta.
  destruct (dcontinue _ _ _ _ _) as [[c' dec]|e]; reflexivity.
Qed.

Lemma iter_flush_all (l : lstate) :
  z_outEnd (l_z l) - z_outStart (l_z l) <= l_ocap l -> z_outStart (l_z l) <= z_outEnd (l_z l) ->
  lenN (z_pending (l_z l)) = z_outEnd (l_z l) - z_outStart (l_z l) ->
  exists z', iter_flush l = ICont (l_emit l z' (z_pending (l_z l))) /\
             z_stage z' = ZRead /\ z_outStart z' = z_outEnd z' /\ z_c z' = z_c (l_z l) /\ z_inPos z' = z_inPos (l_z l) /\
             z_hostage z' = z_hostage (l_z l) /\ z_noProgress z' = z_noProgress (l_z l).
Proof.
  intros Hc Hle Hp. unfold iter_flush. cbv zeta.
  set (z := l_z l) in *.
  replace (N.min (l_ocap l) (z_outEnd z - z_outStart z)) with (z_outEnd z - z_outStart z) by lia.
  rewrite N.eqb_refl.
  replace (tk (z_outEnd z - z_outStart z) (z_pending z)) with (z_pending z) by (symmetry; apply tk_all; lia).
  destruct (andb _ _).
  - eexists. split; [reflexivity|]. zsimp. repeat split; reflexivity.
  - eexists. split; [reflexivity|]. zsimp. repeat split; try reflexivity. lia.
Qed.


(* ---------- what ZSTD_decompressContinue returns in the stages used below ---------- *)
Ltac csimp :=
  unfold c_goto, c_set_hdr, c_set_fp, c_set_block, c_after_block in *;
  cbn [c_stage c_expected c_btype c_rleSize c_fp c_validate c_decoded c_fout c_raw c_h c_hdr c_hdrSize fst snd] in *.

Lemma bh_stage_out P (c : cstate) cap src c' out :
  c_stage c = DDecodeBH -> c_expected c = BHS -> dcontinue P c cap src BHS = MOk (c', out) -> out = [].
Proof.
  intros Hs He Hd. unfold DStreamModel.dcontinue, next_with_input, is_block_stage in Hd.
  rewrite Hs, He, N.eqb_refl in Hd. cbn [negb mguard mbind] in Hd.
  destruct (getc_block src) as [bp|e]; cbn [mbind] in Hd; [|discriminate].
  destruct (fp_blockMax (c_fp c) <? _); cbn [mguard mbind] in Hd; [discriminate|].
  destruct (negb (bp_csize bp =? 0)); [inversion Hd; reflexivity|].
  destruct (bp_last bp); [|inversion Hd; reflexivity].
  destruct (andb _ _); cbn [mguard mbind] in Hd; [discriminate|].
  destruct (fp_checksum (c_fp c)); inversion Hd; reflexivity.
Qed.

Lemma block_stage_out_le P (c : cstate) cap src n c' out (last : bool) :
  c_stage c = (if last then DLastBlock else DBlock) -> c_expected c = n -> 1 <= n ->
  dcontinue P c cap src n = MOk (c', out) -> lenN out <= fp_blockMax (c_fp c).
Proof.
  intros Hs He Hn Hd. unfold DStreamModel.dcontinue in Hd.
  assert (Hnx : next_with_input c n = n).
  { unfold next_with_input, is_block_stage. rewrite Hs, He. destruct last; destruct (c_btype c); try reflexivity; lia. }
  rewrite Hnx, N.eqb_refl in Hd. cbn [negb mguard mbind] in Hd.
  assert (Hd2 : (let* r := block_body c cap src n in block_finish c r) = MOk (c', out)).
  { rewrite Hs in Hd. destruct last; exact Hd. }
  clear Hd. destruct (block_body c cap src n) as [[[[h' o] e'] raw']|] eqn:Eb; cbn [mbind] in Hd2; [|discriminate].
  unfold DStreamModel.block_finish in Hd2.
  destruct (fp_blockMax (c_fp c) <? lenN o) eqn:El; cbn [mguard mbind] in Hd2; [discriminate|]. apply N.ltb_ge in El.
  destruct (0 <? e'); [inversion Hd2; subst; exact El|].
  destruct (c_stage c); try (inversion Hd2; subst; exact El).
  destruct (andb _ _); cbn [mguard mbind] in Hd2; [discriminate|].
  destruct (fp_checksum (c_fp c)); inversion Hd2; subst; exact El.
Qed.

Lemma checksum_stage_next P (c : cstate) cap src c' out :
  c_stage c = DChecksum -> c_expected c = 4 -> dcontinue P c cap src 4 = MOk (c', out) ->
  out = [] /\ c_stage c' = DGetFHSize /\ c_expected c' = 0 /\ c_fp c' = c_fp c.
Proof.
  intros Hs He Hd. unfold DStreamModel.dcontinue, next_with_input, is_block_stage in Hd.
  rewrite Hs, He, N.eqb_refl in Hd. cbn [negb mguard mbind] in Hd.
  destruct (andb _ _); cbn [mguard mbind] in Hd; [discriminate|]. inversion Hd. csimp. auto.
Qed.

(* ---------- the return value of a call whose loop stopped with progress, nothing pending, no hostage ---------- *)
Lemma dstep_stop P (z : zstate) inp cap (l : lstate) :
  dp_stableOut P = false ->
  dloop (dfuel inp) false P inp (cap, 0) (l_mk z inp 0 [] cap) = IStop l ->
  0 < l_ip l -> z_inPos (l_z l) = 0 -> z_hostage (l_z l) = false -> z_outEnd (l_z l) = z_outStart (l_z l) ->
  let o := dstep P z inp cap 0 in
  let c := z_c (l_z l) in
  o_consumed o = l_ip l /\
  o_ret o = MOk (if c_expected c =? 0 then 0 else c_expected c + (if next_is_block c then BHS else 0)) /\
  o_z o = z_set_tail (l_z l) (z_stage (l_z l)) false 0 (cap, 0 + lenN (l_out l)).
Proof.
  intros Hso Hl Hip Hin Hho Hoe. cbv zeta. unfold DStreamModel.dstep, dstep_gen.
  replace (cap <? 0) with false by (symmetry; apply N.ltb_ge; lia).
  rewrite Hso. cbn [andb]. rewrite N.sub_0_r, Hl.
  replace (l_ip l =? 0) with false by (symmetry; apply N.eqb_neq; lia). cbn [andb].
  rewrite Hho, Hoe, N.eqb_refl, Hin.
  destruct (c_expected (z_c (l_z l)) =? 0).
  - cbn [o_consumed o_ret o_z]. auto.
  - replace (_ <? 0) with false by (symmetry; apply N.ltb_ge; lia). cbn [o_consumed o_ret o_z]. rewrite N.sub_0_r. auto.
Qed.


(* ---------- quiescent states between calls ---------- *)
Definition QZ (z : zstate) (st : dstage) (e : N) (fp : fparams) : Prop :=
  z_stage z = ZRead /\ z_inPos z = 0 /\ z_outStart z = z_outEnd z /\ z_hostage z = false /\
  c_stage (z_c z) = st /\ c_expected (z_c z) = e /\ c_fp (z_c z) = fp.

(* where the decoder is after the block header [bp] was processed *)
Definition hdr_next (fp : fparams) (bp : bprops) (z' : zstate) : Prop :=
  if bp_csize bp =? 0 then
    (if bp_last bp then (if fp_checksum fp then z_stage z' = ZRead /\ c_stage (z_c z') = DChecksum /\ c_expected (z_c z') = 4
                         else c_expected (z_c z') = 0)
     else z_stage z' = ZRead /\ c_stage (z_c z') = DDecodeBH /\ c_expected (z_c z') = BHS)
  else z_stage z' = ZRead /\ c_stage (z_c z') = (if bp_last bp then DLastBlock else DBlock) /\ c_expected (z_c z') = bp_csize bp.

Lemma nwi_nonblock (c : cstate) a : is_block_stage c = false -> next_with_input c a = c_expected c.
Proof. intros Hb. unfold next_with_input. rewrite Hb. reflexivity. Qed.

Lemma loop_header P inp0 ex f (l : lstate) fp bp :
  dp_stableOut P = false -> QZ (l_z l) DDecodeBH BHS fp -> lenN (l_in l) = BHS -> getc_block (l_in l) = MOk bp ->
  match dloop (S (S f)) false P inp0 ex l with
  | IErr _ => True
  | IStop l' =>
      l_ip l' = l_ip l + BHS /\ l_out l' = l_out l /\
      z_inPos (l_z l') = 0 /\ z_hostage (l_z l') = false /\ z_outEnd (l_z l') = z_outStart (l_z l') /\
      c_fp (z_c (l_z l')) = fp /\ hdr_next fp bp (l_z l')
  | _ => False
  end.
Proof.
  intros Hso (Hst & Hin & Hoe & Hho & Hcs & Hce & Hfp) Hlen Hg.
  assert (HB : BHS = 3) by reflexivity.
  rewrite dloop_step. unfold DStreamModel.iter. rewrite Hst.
  rewrite (iter_read_exact P l BHS); [| rewrite nwi_nonblock by (unfold is_block_stage; rewrite Hcs; reflexivity); exact Hce | lia | lia].
  rewrite cont_stream_ns by exact Hso. cbv zeta.
  replace (is_skip (z_c (l_z l))) with false by (unfold is_skip; rewrite Hcs; reflexivity).
  rewrite tk_all by lia.
  destruct (dcontinue P (z_c (l_z l)) (z_outBuffSize (l_z l) - z_outStart (l_z l)) (l_in l) BHS) as [[c' dec]|e] eqn:Ed;
    cbn [mbind]; [|exact I].
  pose proof (bh_stage_out _ _ _ _ _ _ Hcs Hce Ed) as ->.
  destruct (bh_stage_next H b_raw b_rle b_cblock b_hash _ _ _ _ _ _ _ Hcs Hce Hg Ed) as [Hfp' Hn].
  cbn [fst snd]. change (lenN (@nil N) =? 0) with true. cbn [negb andb].
  rewrite dloop_step. unfold DStreamModel.iter. zsimp.
  match goal with |- context [DStreamModel.iter_read _ _ _ _ _ _ ?x] => set (l2 := x) end.
  assert (Hl2 : lenN (l_in l2) = 0) by (unfold l2; cbn [l_in]; rewrite len_dr; lia).
  rewrite Hfp in Hn, Hfp'.
  unfold hdr_next.
  destruct (bp_csize bp =? 0) eqn:Ecs.
  - destruct (bp_last bp).
    + destruct (fp_checksum fp).
      * destruct Hn as [Hs' He'].
        rewrite iter_read_empty; [| exact Hl2 |].
        -- unfold l2. zsimp. repeat split; try assumption; try reflexivity; try lia.
        -- unfold l2. zsimp. rewrite nwi_nonblock by (unfold is_block_stage; rewrite Hs'; reflexivity). rewrite He'. discriminate.
      * destruct Hn as [Hs' He'].
        rewrite iter_read_end.
        -- unfold l2. zsimp. repeat split; try assumption; try reflexivity; try lia.
        -- unfold l2. zsimp. rewrite nwi_nonblock by (unfold is_block_stage; rewrite Hs'; reflexivity). exact He'.
    + destruct Hn as [Hs' He'].
      rewrite iter_read_empty; [| exact Hl2 |].
      * unfold l2. zsimp. repeat split; try assumption; try reflexivity; try lia.
      * unfold l2. zsimp. rewrite nwi_nonblock by (unfold is_block_stage; rewrite Hs'; reflexivity). rewrite He'. discriminate.
  - destruct Hn as [Hs' He']. apply N.eqb_neq in Ecs.
    rewrite iter_read_empty; [| exact Hl2 |].
    + unfold l2. zsimp. repeat split; try assumption; try reflexivity; try lia.
    + unfold l2. zsimp. unfold next_with_input, is_block_stage. rewrite Hs', He'.
      destruct (bp_last bp); destruct (c_btype c'); lia.
Qed.


(* the block stage inside a call: decode the block, flush it entirely to the caller's buffer *)
Lemma loop_block P inp0 ex f (l : lstate) fp cs (last : bool) :
  dp_stableOut P = false -> QZ (l_z l) (if last then DLastBlock else DBlock) cs fp -> 1 <= cs -> cs <= lenN (l_in l) ->
  fp_blockMax fp <= l_ocap l ->
  (exists e, dloop (S (S f)) false P inp0 ex l = IErr e) \/
  (exists l1 f1, (f1 = S f \/ f1 = f) /\ dloop (S (S f)) false P inp0 ex l = dloop f1 false P inp0 ex l1 /\
     l_in l1 = dr cs (l_in l) /\ l_ip l1 = l_ip l + cs /\
     z_stage (l_z l1) = ZRead /\ z_inPos (l_z l1) = 0 /\ z_outStart (l_z l1) = z_outEnd (l_z l1) /\ z_hostage (l_z l1) = false /\
     c_fp (z_c (l_z l1)) = fp /\
     (if last then (if fp_checksum fp then c_stage (z_c (l_z l1)) = DChecksum /\ c_expected (z_c (l_z l1)) = 4
                    else c_stage (z_c (l_z l1)) = DGetFHSize /\ c_expected (z_c (l_z l1)) = 0)
      else c_stage (z_c (l_z l1)) = DDecodeBH /\ c_expected (z_c (l_z l1)) = BHS)).
Proof.
  intros Hso (Hst & Hin & Hoe & Hho & Hcs & Hce & Hfp) H1 Hlen Hcap.
  rewrite dloop_step. unfold DStreamModel.iter. rewrite Hst.
  rewrite (iter_read_exact P l cs); [| | lia | lia].
  2:{ unfold next_with_input, is_block_stage. rewrite Hcs, Hce. destruct last; destruct (c_btype (z_c (l_z l))); try reflexivity; lia. }
  rewrite cont_stream_ns by exact Hso. cbv zeta.
  replace (is_skip (z_c (l_z l))) with false by (unfold is_skip; rewrite Hcs; destruct last; reflexivity).
  destruct (dcontinue P (z_c (l_z l)) (z_outBuffSize (l_z l) - z_outStart (l_z l)) (tk cs (l_in l)) cs) as [[c1 dec]|e] eqn:Ed;
    cbn [mbind]; [|left; exists e; reflexivity].
  right.
  destruct (block_stage_next H b_raw b_rle b_cblock b_hash _ _ _ _ _ _ _ last Hcs Hce H1 Ed) as [Hfp1 Hn1].
  pose proof (block_stage_out_le _ _ _ _ _ _ _ last Hcs Hce H1 Ed) as Hle.
  rewrite Hfp in Hfp1, Hn1, Hle.
  cbn [fst snd negb]. rewrite andb_true_r.
  destruct (lenN dec =? 0) eqn:Ez.
  - eexists. exists (S f). split; [left; reflexivity|]. split; [reflexivity|]. zsimp.
    repeat split; try assumption; try reflexivity.
  - rewrite dloop_step. unfold DStreamModel.iter. zsimp.
    match goal with |- context [iter_flush ?x] => set (l2 := x) end.
    destruct (iter_flush_all l2) as (z' & Hfl & Hs' & Hoe' & Hc' & Hin' & Hho' & Hnp').
    + unfold l2. zsimp. lia.
    + unfold l2. zsimp. lia.
    + unfold l2. zsimp. lia.
    + rewrite Hfl. eexists. exists f. split; [right; reflexivity|]. split; [reflexivity|].
      unfold l2 in *. zsimp. rewrite Hc'. zsimp.
      repeat split; try assumption; try reflexivity; try congruence.
Qed.

Lemma dstep_err P (z : zstate) inp cap e :
  dp_stableOut P = false -> dloop (dfuel inp) false P inp (cap, 0) (l_mk z inp 0 [] cap) = IErr e ->
  o_ret (dstep P z inp cap 0) = MErr e.
Proof.
  intros Hso Hl. unfold DStreamModel.dstep, dstep_gen.
  replace (cap <? 0) with false by (symmetry; apply N.ltb_ge; lia).
  rewrite Hso. cbn [andb]. rewrite N.sub_0_r, Hl. reflexivity.
Qed.

(* the state and hint after a call that ended by processing block header [bp] *)
Definition after_call (fp : fparams) (bp : bprops) (z' : zstate) (r : N) : Prop :=
  if bp_csize bp =? 0 then
    (if bp_last bp then (if fp_checksum fp then QZ z' DChecksum 4 fp /\ r = 4 else r = 0)
     else QZ z' DDecodeBH BHS fp /\ r = BHS)
  else QZ z' (if bp_last bp then DLastBlock else DBlock) (bp_csize bp) fp /\ r = bp_csize bp + (if bp_last bp then 0 else BHS).

Lemma after_header_call P (z : zstate) inp cap (l' : lstate) fp bp :
  dp_stableOut P = false ->
  dloop (dfuel inp) false P inp (cap, 0) (l_mk z inp 0 [] cap) = IStop l' ->
  0 < l_ip l' -> z_inPos (l_z l') = 0 -> z_hostage (l_z l') = false -> z_outEnd (l_z l') = z_outStart (l_z l') ->
  c_fp (z_c (l_z l')) = fp -> hdr_next fp bp (l_z l') ->
  o_consumed (dstep P z inp cap 0) = l_ip l' /\
  exists r, o_ret (dstep P z inp cap 0) = MOk r /\ after_call fp bp (o_z (dstep P z inp cap 0)) r.
Proof.
  intros Hso Hl Hip Hin Hho Hoe Hfp Hn.
  destruct (dstep_stop P z inp cap l' Hso Hl Hip Hin Hho Hoe) as (Hc & Hr & Hz). cbv zeta in Hr.
  split; [exact Hc|]. eexists. split; [exact Hr|]. rewrite Hz.
  unfold after_call, hdr_next, QZ in *. zsimp.
  destruct (bp_csize bp =? 0) eqn:Ecs.
  - destruct (bp_last bp).
    + destruct (fp_checksum fp).
      * destruct Hn as (Hs & Hcs & He). rewrite He. unfold next_is_block. rewrite Hcs. cbn [N.eqb].
        repeat split; try assumption; try reflexivity; try congruence; lia.
      * rewrite Hn. reflexivity.
    + destruct Hn as (Hs & Hcs & He). rewrite He. unfold next_is_block. rewrite Hcs.
      replace (BHS =? 0) with false by reflexivity.
      repeat split; try assumption; try reflexivity; try congruence; lia.
  - apply N.eqb_neq in Ecs. destruct Hn as (Hs & Hcs & He). rewrite He. unfold next_is_block. rewrite Hcs.
    replace (bp_csize bp =? 0) with false by (symmetry; apply N.eqb_neq; exact Ecs).
    destruct (bp_last bp); repeat split; try assumption; try reflexivity; try congruence; lia.
Qed.


(* ---------- whole calls from a quiescent state, fed exactly the hint ---------- *)
Definition call_ok (o : dout H) (n : N) (Q : zstate -> N -> Prop) : Prop :=
  match o_ret o with
  | MErr _ => True
  | MOk r => o_consumed o = n /\ Q (o_z o) r
  end.

Lemma QZ_lmk (z : zstate) inp cap st e fp : QZ z st e fp -> QZ (l_z (l_mk z inp 0 [] cap)) st e fp.
Proof. intros Q. exact Q. Qed.

(* (DDecodeBH, 3): the call reads one block header *)
Lemma call_A P (z : zstate) inp cap fp bp :
  dp_stableOut P = false -> QZ z DDecodeBH BHS fp -> lenN inp = BHS -> getc_block inp = MOk bp ->
  call_ok (dstep P z inp cap 0) BHS (after_call fp bp).
Proof.
  intros Hso Q Hlen Hg. unfold call_ok.
  pose proof (loop_header P inp (cap, 0) (S (S (2 * length inp))) (l_mk z inp 0 [] cap) fp bp Hso (QZ_lmk _ _ _ _ _ _ Q) Hlen Hg) as Hl.
  change (S (S (S (S (2 * length inp))))) with (dfuel inp) in Hl.
  destruct (dloop (dfuel inp) false P inp (cap, 0) (l_mk z inp 0 [] cap)) as [l0|l'|z0 h0|e] eqn:El; try contradiction.
  - destruct Hl as (Hip & Hout & Hin & Hho & Hoe & Hfp & Hn). cbn [l_ip l_mk] in Hip.
    destruct (after_header_call P z inp cap l' fp bp Hso El ltac:(assert (BHS = 3) by reflexivity; lia) Hin Hho Hoe Hfp Hn) as (Hc & r & Hr & Ha).
    rewrite Hr. split; [lia|exact Ha].
  - rewrite (dstep_err P z inp cap e Hso El). exact I.
Qed.

(* (DBlock, cs): the call decodes the block, flushes it, and reads the next block header *)
Lemma call_B_next P (z : zstate) inp cap fp cs bp :
  dp_stableOut P = false -> fp_blockMax fp <= cap ->
  QZ z DBlock cs fp -> 1 <= cs -> lenN inp = cs + BHS -> getc_block (dr cs inp) = MOk bp ->
  call_ok (dstep P z inp cap 0) (cs + BHS) (after_call fp bp).
Proof.
  intros Hso Hcap Q H1 Hlen Hg. unfold call_ok.
  destruct (loop_block P inp (cap, 0) (S (S (2 * length inp))) (l_mk z inp 0 [] cap) fp cs false Hso (QZ_lmk _ _ _ _ _ _ Q) H1
              ltac:(cbn [l_in l_mk]; lia) Hcap) as [[e He]|(l1 & f1 & Hf1 & Hd & Hin1 & Hip1 & Hs1 & Hp1 & Hoe1 & Hho1 & Hfp1 & Hc1)].
  - change (S (S (S (S (2 * length inp))))) with (dfuel inp) in He. rewrite (dstep_err P z inp cap e Hso He). exact I.
  - change (S (S (S (S (2 * length inp))))) with (dfuel inp) in Hd. cbn [l_in l_ip l_mk] in Hin1, Hip1.
    assert (Hq : QZ (l_z l1) DDecodeBH BHS fp) by (unfold QZ; tauto).
    assert (Hl1 : lenN (l_in l1) = BHS) by (rewrite Hin1, len_dr; lia).
    assert (Hg1 : getc_block (l_in l1) = MOk bp) by (rewrite Hin1; exact Hg).
    assert (Hl : match dloop f1 false P inp (cap, 0) l1 with
                 | IErr _ => True
                 | IStop l' => l_ip l' = l_ip l1 + BHS /\ l_out l' = l_out l1 /\ z_inPos (l_z l') = 0 /\ z_hostage (l_z l') = false /\
                               z_outEnd (l_z l') = z_outStart (l_z l') /\ c_fp (z_c (l_z l')) = fp /\ hdr_next fp bp (l_z l')
                 | _ => False end).
    { destruct Hf1 as [->| ->]; apply loop_header; assumption. }
    rewrite <- Hd in Hl.
    destruct (dloop (dfuel inp) false P inp (cap, 0) (l_mk z inp 0 [] cap)) as [l0|l'|z0 h0|e] eqn:El; try contradiction.
    + destruct Hl as (Hip & Hout & Hin & Hho & Hoe & Hfp & Hn).
      destruct (after_header_call P z inp cap l' fp bp Hso El ltac:(lia) Hin Hho Hoe Hfp Hn) as (Hc & r & Hr & Ha).
      rewrite Hr. split; [lia|exact Ha].
    + rewrite (dstep_err P z inp cap e Hso El). exact I.
Qed.

(* the end of the frame: after the last block either the checksum is asked for, or the frame is complete *)
Definition after_last (fp : fparams) (z' : zstate) (r : N) : Prop :=
  if fp_checksum fp then QZ z' DChecksum 4 fp /\ r = 4 else r = 0.

Lemma call_B_last P (z : zstate) inp cap fp cs :
  dp_stableOut P = false -> fp_blockMax fp <= cap ->
  QZ z DLastBlock cs fp -> 1 <= cs -> lenN inp = cs ->
  call_ok (dstep P z inp cap 0) cs (after_last fp).
Proof.
  intros Hso Hcap Q H1 Hlen. unfold call_ok.
  destruct (loop_block P inp (cap, 0) (S (S (2 * length inp))) (l_mk z inp 0 [] cap) fp cs true Hso (QZ_lmk _ _ _ _ _ _ Q) H1
              ltac:(cbn [l_in l_mk]; lia) Hcap) as [[e He]|(l1 & f1 & Hf1 & Hd & Hin1 & Hip1 & Hs1 & Hp1 & Hoe1 & Hho1 & Hfp1 & Hc1)].
  - change (S (S (S (S (2 * length inp))))) with (dfuel inp) in He. rewrite (dstep_err P z inp cap e Hso He). exact I.
  - change (S (S (S (S (2 * length inp))))) with (dfuel inp) in Hd. cbn [l_in l_ip l_mk] in Hin1, Hip1.
    assert (Hl1 : lenN (l_in l1) = 0) by (rewrite Hin1, len_dr; lia).
    assert (Hf : exists f2, f1 = S f2) by (destruct Hf1 as [->| ->]; eexists; reflexivity).
    destruct Hf as [f2 ->]. rewrite dloop_step in Hd. unfold DStreamModel.iter in Hd. rewrite Hs1 in Hd.
    unfold after_last. destruct (fp_checksum fp).
    + destruct Hc1 as [Hcs1 He1].
      rewrite iter_read_empty in Hd; [| exact Hl1 |].
      2:{ rewrite nwi_nonblock by (unfold is_block_stage; rewrite Hcs1; reflexivity). rewrite He1. discriminate. }
      destruct (dstep_stop P z inp cap l1 Hso Hd ltac:(lia) Hp1 Hho1 (eq_sym Hoe1)) as (Hc & Hr & Hz). cbv zeta in Hr.
      rewrite Hr, He1. cbn [N.eqb]. unfold next_is_block. rewrite Hcs1. split; [lia|]. rewrite Hz. unfold QZ. zsimp.
      repeat split; try assumption; try reflexivity.
    + destruct Hc1 as [Hcs1 He1].
      rewrite iter_read_end in Hd.
      2:{ rewrite nwi_nonblock by (unfold is_block_stage; rewrite Hcs1; reflexivity). exact He1. }
      destruct (dstep_stop P z inp cap _ Hso Hd) as (Hc & Hr & Hz); zsimp; try assumption; try lia; try congruence.
      cbv zeta in Hr. zsimp. rewrite Hr, He1. cbn [N.eqb]. split; [lia|reflexivity].
Qed.

Lemma call_C P (z : zstate) inp cap fp :
  dp_stableOut P = false -> QZ z DChecksum 4 fp -> lenN inp = 4 ->
  call_ok (dstep P z inp cap 0) 4 (fun _ r => r = 0).
Proof.
  intros Hso (Hst & Hin & Hoe & Hho & Hcs & Hce & Hfp) Hlen. unfold call_ok.
  assert (Hd : (exists e, dloop (dfuel inp) false P inp (cap, 0) (l_mk z inp 0 [] cap) = IErr e) \/
               (exists l', dloop (dfuel inp) false P inp (cap, 0) (l_mk z inp 0 [] cap) = IStop l' /\ l_ip l' = 4 /\
                  z_inPos (l_z l') = 0 /\ z_hostage (l_z l') = false /\ z_outEnd (l_z l') = z_outStart (l_z l') /\
                  c_expected (z_c (l_z l')) = 0)).
  { unfold dfuel. rewrite dloop_step. unfold DStreamModel.iter. zsimp. rewrite Hst.
    rewrite (iter_read_exact P _ 4); zsimp; [| | lia | lia].
    2:{ rewrite nwi_nonblock by (unfold is_block_stage; rewrite Hcs; reflexivity). exact Hce. }
    rewrite cont_stream_ns by exact Hso. cbv zeta. zsimp.
    replace (is_skip (z_c z)) with false by (unfold is_skip; rewrite Hcs; reflexivity).
    rewrite tk_all by lia.
    destruct (dcontinue P (z_c z) (z_outBuffSize z - z_outStart z) inp 4) as [[c' dec]|e] eqn:Ed; cbn [mbind]; [|left; exists e; reflexivity].
    destruct (checksum_stage_next _ _ _ _ _ _ Hcs Hce Ed) as (-> & Hs' & He' & Hfp').
    cbn [fst snd]. change (lenN (@nil N) =? 0) with true. cbn [negb andb]. zsimp.
    rewrite dloop_step. unfold DStreamModel.iter. zsimp.
    rewrite iter_read_end.
    2:{ zsimp. rewrite nwi_nonblock by (unfold is_block_stage; rewrite Hs'; reflexivity). exact He'. }
    right. eexists. split; [reflexivity|]. zsimp. repeat split; try assumption; try reflexivity; try congruence. }
  destruct Hd as [[e He]|(l' & Hl & Hip & Hin' & Hho' & Hoe' & He')].
  - rewrite (dstep_err P z inp cap e Hso He). exact I.
  - destruct (dstep_stop P z inp cap l' Hso Hl ltac:(lia) Hin' Hho' Hoe') as (Hc & Hr & Hz). cbv zeta in Hr.
    rewrite Hr, He'. cbn [N.eqb]. split; [lia|reflexivity].
Qed.


(* ---------- the reader over the blocks of a frame ---------- *)
Lemma srun_step f P (z : zstate) src cap limit pos req asked :
  srun (S f) P z src cap limit pos req asked =
  if limit <? pos + req then RBeyond pos req
  else let o := dstep P z (tk req (dr pos src)) cap 0 in
       match o_ret o with
       | MErr e => RFail e
       | MOk r => if o_consumed o <? req then RShort (pos + o_consumed o)
                  else if r =? 0 then RDone (pos + req) (rev' (req :: asked))
                  else srun f P (o_z o) src cap limit (pos + req) r (req :: asked)
       end.
Proof. reflexivity. Qed.

Lemma walk_blocks_mono : forall f s c r, walk_blocks f s c = Some r -> walk_blocks (S f) s c = Some r.
Proof.
  induction f as [|f IH]; intros s c r Hw; [discriminate|].
  rewrite walk_blocks_step in Hw. rewrite walk_blocks_step.
  destruct (lenN s <? BHS); [discriminate|].
  destruct (getc_block (tk BHS s)) as [bp|e]; [|discriminate].
  destruct (lenN s <? BHS + bp_csize bp); [discriminate|]. cbv zeta in *.
  destruct (bp_last bp); [exact Hw|]. apply IH. exact Hw.
Qed.

Lemma walk_blocks_inv f s c r m :
  walk_blocks (S f) s c = Some (r, m) ->
  exists bp, getc_block (tk BHS s) = MOk bp /\ BHS + bp_csize bp <= lenN s /\
    (if bp_last bp then r = dr (BHS + bp_csize bp) s /\ m = c + BHS + bp_csize bp
     else walk_blocks f (dr (BHS + bp_csize bp) s) (c + BHS + bp_csize bp) = Some (r, m)).
Proof.
  rewrite walk_blocks_step. intros Hw.
  destruct (lenN s <? BHS); [discriminate|].
  destruct (getc_block (tk BHS s)) as [bp|e]; [|discriminate].
  destruct (lenN s <? BHS + bp_csize bp) eqn:E; [discriminate|]. apply N.ltb_ge in E. cbv zeta in Hw.
  exists bp. split; [reflexivity|]. split; [exact E|].
  destruct (bp_last bp); [inversion Hw; auto|exact Hw].
Qed.

Lemma walk_blocks_ge3 f s c r m : walk_blocks f s c = Some (r, m) -> c + BHS <= m.
Proof.
  destruct f; [discriminate|]. intros Hw. apply walk_blocks_inv in Hw. destruct Hw as (bp & _ & _ & Hw).
  destruct (bp_last bp); [lia|]. apply walk_blocks_ge in Hw. lia.
Qed.

Lemma dr_tk (a b : N) (l : bytes) : dr a (tk (a + b) l) = tk b (dr a l).
Proof. unfold dr, tk. rewrite skipn_firstn_comm. f_equal. lia. Qed.

Section Blocks.
Variable P : dparams.
Variable src : bytes.
Variable cap limit : N.
Variable fp : fparams.
Hypothesis Hso : dp_stableOut P = false.
Hypothesis Hcap : fp_blockMax fp <= cap.
Hypothesis Hlim : limit <= lenN src.

Lemma len_tk_dr pos req : pos + req <= limit -> lenN (tk req (dr pos src)) = req.
Proof. intros Hle. rewrite len_tk, len_dr. lia. Qed.

Lemma srun_C (z : zstate) pos : QZ z DChecksum 4 fp -> limit = pos + 4 ->
  forall fuel asked, ok_res limit (srun fuel P z src cap limit pos 4 asked).
Proof.
  intros Q Hl fuel asked. destruct fuel as [|f]; [exact I|]. rewrite srun_step.
  replace (limit <? pos + 4) with false by (symmetry; apply N.ltb_ge; lia). cbv zeta.
  pose proof (call_C P z (tk 4 (dr pos src)) cap fp Hso Q (len_tk_dr pos 4 ltac:(lia))) as Hc. unfold call_ok in Hc.
  destruct (o_ret (dstep P z (tk 4 (dr pos src)) cap 0)) as [r|e]; [|exact I].
  destruct Hc as [Hc ->]. rewrite Hc. cbn. lia.
Qed.

Definition ck4 : N := if fp_checksum fp then 4 else 0.
Definition PA (w : nat) : Prop :=
  forall pos (z : zstate) rest m, walk_blocks w (dr pos src) pos = Some (rest, m) -> limit = m + ck4 ->
    QZ z DDecodeBH BHS fp -> forall fuel asked, ok_res limit (srun fuel P z src cap limit pos BHS asked).
Definition PB (w : nat) : Prop :=
  forall pos (z : zstate) rest m bp, walk_blocks w (dr pos src) pos = Some (rest, m) -> limit = m + ck4 ->
    getc_block (tk BHS (dr pos src)) = MOk bp -> bp_csize bp <> 0 ->
    QZ z (if bp_last bp then DLastBlock else DBlock) (bp_csize bp) fp ->
    forall fuel asked, ok_res limit (srun fuel P z src cap limit (pos + BHS) (bp_csize bp + (if bp_last bp then 0 else BHS)) asked).

Lemma PA_down w : PA (S w) -> PA w.
Proof. intros HA pos z rest m Hw. apply (HA pos z rest m). apply walk_blocks_mono. exact Hw. Qed.

(* after a call that ended by processing the header of the block at [q] *)
Lemma dispatch w : PA w -> PB (S w) ->
  forall q (z' : zstate) r rest m bp fuel asked a0,
  walk_blocks (S w) (dr q src) q = Some (rest, m) -> limit = m + ck4 ->
  getc_block (tk BHS (dr q src)) = MOk bp -> after_call fp bp z' r ->
  ok_res limit (if r =? 0 then RDone (q + BHS) a0 else srun fuel P z' src cap limit (q + BHS) r asked).
Proof.
  intros HA HB q z' r rest m bp fuel asked a0 Hw Hl Hg Ha.
  pose proof Hw as Hw0.
  apply walk_blocks_inv in Hw. destruct Hw as (bp' & Hg' & Hlen & Hw). rewrite Hg in Hg'. inversion Hg'; subst bp'; clear Hg'.
  assert (HB3 : BHS = 3) by reflexivity.
  unfold after_call in Ha. unfold ck4 in *.
  destruct (bp_csize bp =? 0) eqn:Ecs.
  - apply N.eqb_eq in Ecs. rewrite Ecs in *.
    destruct (bp_last bp).
    + destruct Hw as [_ Hm]. destruct (fp_checksum fp).
      * destruct Ha as [Q ->]. cbn [N.eqb]. apply srun_C; [exact Q|lia].
      * subst r. cbn. lia.
    + destruct Ha as [Q ->]. replace (BHS =? 0) with false by reflexivity.
      rewrite dr_dr in Hw. replace (q + (BHS + 0)) with (q + BHS) in Hw by lia. replace (q + BHS + 0) with (q + BHS) in Hw by lia.
      apply (HA _ _ _ _ Hw); [unfold ck4; exact Hl|exact Q].
  - apply N.eqb_neq in Ecs. destruct Ha as [Q ->].
    replace (bp_csize bp + (if bp_last bp then 0 else BHS) =? 0) with false by (symmetry; apply N.eqb_neq; lia).
    apply (HB _ _ _ _ _ Hw0); [unfold ck4; exact Hl|exact Hg|exact Ecs|exact Q].
Qed.

Lemma PB_step w : PA w -> PB w -> PB (S w).
Proof.
  intros HA HB pos z rest m bp Hw Hl Hg Hcs Q fuel asked.
  apply walk_blocks_inv in Hw. destruct Hw as (bp' & Hg' & Hlen & Hw). rewrite Hg in Hg'. inversion Hg'; subst bp'; clear Hg'.
  rewrite len_dr in Hlen.
  assert (HB3 : BHS = 3) by reflexivity.
  destruct fuel as [|f]; [exact I|]. rewrite srun_step.
  destruct (bp_last bp) eqn:Elast.
  - (* last block *)
    destruct Hw as [_ Hm].
    replace (limit <? pos + BHS + (bp_csize bp + 0)) with false by (symmetry; apply N.ltb_ge; unfold ck4 in *; destruct (fp_checksum fp); lia).
    cbv zeta. rewrite N.add_0_r.
    pose proof (call_B_last P z (tk (bp_csize bp) (dr (pos + BHS) src)) cap fp (bp_csize bp) Hso Hcap Q ltac:(lia)
                  (len_tk_dr (pos + BHS) (bp_csize bp) ltac:(unfold ck4 in *; destruct (fp_checksum fp); lia))) as Hc.
    unfold call_ok in Hc.
    destruct (o_ret (dstep P z (tk (bp_csize bp) (dr (pos + BHS) src)) cap 0)) as [r|e]; [|exact I].
    destruct Hc as [Hc Ha]. rewrite Hc, N.ltb_irrefl. unfold after_last in Ha. unfold ck4 in *.
    destruct (fp_checksum fp).
    + destruct Ha as [Q' ->]. cbn [N.eqb]. apply srun_C; [exact Q'|lia].
    + subst r. cbn. lia.
  - (* a block followed by another block header *)
    rewrite dr_dr in Hw. replace (pos + (BHS + bp_csize bp)) with (pos + BHS + bp_csize bp) in Hw by lia.
    pose proof (walk_blocks_ge3 _ _ _ _ _ Hw) as Hm3.
    destruct w as [|w0]; [discriminate|].
    pose proof Hw as Hw1. apply walk_blocks_inv in Hw1. destruct Hw1 as (bp1 & Hg1 & Hlen1 & _).
    replace (limit <? pos + BHS + (bp_csize bp + BHS)) with false by (symmetry; apply N.ltb_ge; lia).
    cbv zeta.
    assert (Hgi : getc_block (dr (bp_csize bp) (tk (bp_csize bp + BHS) (dr (pos + BHS) src))) = MOk bp1).
    { rewrite dr_tk, dr_dr. exact Hg1. }
    pose proof (call_B_next P z (tk (bp_csize bp + BHS) (dr (pos + BHS) src)) cap fp (bp_csize bp) bp1 Hso Hcap Q ltac:(lia)
                  (len_tk_dr (pos + BHS) (bp_csize bp + BHS) ltac:(lia)) Hgi) as Hc.
    unfold call_ok in Hc.
    destruct (o_ret (dstep P z (tk (bp_csize bp + BHS) (dr (pos + BHS) src)) cap 0)) as [r|e]; [|exact I].
    destruct Hc as [Hc Ha]. rewrite Hc, N.ltb_irrefl.
    replace (pos + BHS + (bp_csize bp + BHS)) with (pos + BHS + bp_csize bp + BHS) by lia.
    apply (dispatch w0 (PA_down _ HA) HB _ _ _ _ _ _ _ _ _ Hw Hl Hg1 Ha).
Qed.

Lemma PA_step w : PA w -> PB (S w) -> PA (S w).
Proof.
  intros HA HB pos z rest m Hw Hl Q fuel asked.
  pose proof Hw as Hw1. apply walk_blocks_inv in Hw1. destruct Hw1 as (bp & Hg & Hlen & _). rewrite len_dr in Hlen.
  pose proof (walk_blocks_ge3 _ _ _ _ _ Hw) as Hm3.
  destruct fuel as [|f]; [exact I|]. rewrite srun_step.
  replace (limit <? pos + BHS) with false by (symmetry; apply N.ltb_ge; lia). cbv zeta.
  pose proof (call_A P z (tk BHS (dr pos src)) cap fp bp Hso Q (len_tk_dr pos BHS ltac:(lia)) Hg) as Hc. unfold call_ok in Hc.
  destruct (o_ret (dstep P z (tk BHS (dr pos src)) cap 0)) as [r|e]; [|exact I].
  destruct Hc as [Hc Ha]. rewrite Hc, N.ltb_irrefl.
  apply (dispatch w HA HB _ _ _ _ _ _ _ _ _ Hw Hl Hg Ha).
Qed.

Lemma PAB : forall w, PA w /\ PB w.
Proof.
  induction w as [|w [HA HB]].
  - split; intros pos z rest m; [|intros bp]; intros Hw; discriminate.
  - pose proof (PB_step w HA HB) as HB'. split; [apply PA_step; assumption|exact HB'].
Qed.

End Blocks.


(* ---------- the header phase ---------- *)
Lemma get_fheader_nil ml : get_fheader ml [] = HNeed (prefix_len ml).
Proof. destruct ml; reflexivity. Qed.

Lemma iter_init P inp0 ex (l : lstate) :
  z_stage (l_z l) = ZInit -> iter P inp0 ex l = iter_loadHeader P inp0 (l_setz l (z_reset (l_z l) ex)).
Proof. intros Hs. unfold DStreamModel.iter. rewrite Hs. reflexivity. Qed.
Lemma iter_lh P inp0 ex (l : lstate) :
  z_stage (l_z l) = ZLoadHeader -> iter P inp0 ex l = iter_loadHeader P inp0 l.
Proof. intros Hs. unfold DStreamModel.iter. rewrite Hs. reflexivity. Qed.
Lemma iter_rd P inp0 ex (l : lstate) :
  z_stage (l_z l) = ZRead -> iter P inp0 ex l = iter_read P l.
Proof. intros Hs. unfold DStreamModel.iter. rewrite Hs. reflexivity. Qed.

Lemma iter_lh_load P inp0 (l : lstate) hSize :
  get_fheader (dp_magicless P) (z_lh (l_z l)) = HNeed hSize -> hSize - lenN (z_lh (l_z l)) <= lenN (l_in l) ->
  iter_loadHeader P inp0 l =
  ICont (l_adv l (z_set_lh (l_z l) (z_lh (l_z l) ++ tk (hSize - lenN (z_lh (l_z l))) (l_in l))) (hSize - lenN (z_lh (l_z l)))).
Proof.
  intros Hg Hle. unfold DStreamModel.iter_loadHeader. rewrite Hg. cbv zeta.
  replace (lenN (l_in l) <? hSize - lenN (z_lh (l_z l))) with false by (symmetry; apply N.ltb_ge; exact Hle). reflexivity.
Qed.

Definition early_hint (ml : bool) (lh' : bytes) (hSize : N) : N :=
  if andb (negb ml) (orb (lenN lh' <? s_ZSTD_FRAMEIDSIZE) (is_skip_magic (le32 lh')))
  then hSize - lenN lh' else N.max (hdr_min ml) hSize - lenN lh' + BHS.

Lemma iter_lh_early P inp0 (l : lstate) hSize k :
  get_fheader (dp_magicless P) (z_lh (l_z l)) = HNeed hSize -> lenN (l_in l) < hSize - lenN (z_lh (l_z l)) ->
  get_fheader (dp_magicless P) (z_lh (l_z l) ++ l_in l) = HNeed k ->
  iter_loadHeader P inp0 l =
  IEarly (z_set_lh (l_z l) (z_lh (l_z l) ++ l_in l)) (early_hint (dp_magicless P) (z_lh (l_z l) ++ l_in l) hSize).
Proof.
  intros Hg Hlt Hg2. unfold DStreamModel.iter_loadHeader. rewrite Hg. cbv zeta.
  replace (lenN (l_in l) <? hSize - lenN (z_lh (l_z l))) with true by (symmetry; apply N.ltb_lt; exact Hlt).
  rewrite Hg2. reflexivity.
Qed.

Lemma dstep_early P (z : zstate) inp cap z' hint :
  dp_stableOut P = false -> dloop (dfuel inp) false P inp (cap, 0) (l_mk z inp 0 [] cap) = IEarly z' hint ->
  dstep P z inp cap 0 = {| o_z := z'; o_consumed := lenN inp; o_out := []; o_ret := MOk hint |}.
Proof.
  intros Hso Hl. unfold DStreamModel.dstep, dstep_gen.
  replace (cap <? 0) with false by (symmetry; apply N.ltb_ge; lia).
  rewrite Hso. cbn [andb]. rewrite N.sub_0_r, Hl. reflexivity.
Qed.

(* the state while the frame header is being collected *)
Definition QH (z : zstate) (h : bytes) : Prop :=
  z_stage z = ZLoadHeader /\ z_lh z = h /\ z_inPos z = 0 /\ z_outStart z = 0 /\ z_outEnd z = 0 /\ z_hostage z = false.

Notation z_new := (z_new H b_init).

(* first call of a frame: exactly the starting length is presented, the header is not complete *)
Lemma call_first P inp cap hSize :
  dp_stableOut P = false -> lenN inp = prefix_len (dp_magicless P) ->
  get_fheader (dp_magicless P) inp = HNeed hSize -> lenN inp < hSize ->
  let o := dstep P (z_new P) inp cap 0 in
  o_ret o = MOk (early_hint (dp_magicless P) inp hSize) /\ o_consumed o = lenN inp /\ QH (o_z o) inp.
Proof.
  intros Hso Hlen Hg Hlt. cbv zeta.
  set (ml := dp_magicless P) in *.
  pose proof (prefix_len_pos ml) as Hp1.
  assert (Hd : dloop (dfuel inp) false P inp (cap, 0) (l_mk (z_new P) inp 0 [] cap) =
               IEarly (z_set_lh (z_reset (z_new P) (cap, 0)) inp) (early_hint ml inp hSize)).
  { unfold dfuel. rewrite dloop_step, iter_init by reflexivity.
    rewrite (iter_lh_load P inp _ (prefix_len ml)); zsimp; [| apply get_fheader_nil | change (lenN (@nil N)) with 0; fold ml; lia ].
    change (lenN (@nil N)) with 0. rewrite N.sub_0_r. fold ml. rewrite <- Hlen, tk_all, dr_all by lia. cbn [app].
    rewrite dloop_step, iter_lh by reflexivity.
    rewrite (iter_lh_early P inp _ hSize hSize); zsimp; try rewrite app_nil_r; try assumption.
    - reflexivity.
    - change (lenN (@nil N)) with 0. lia. }
  rewrite (dstep_early P _ inp cap _ _ Hso Hd). cbn [o_ret o_consumed o_z]. unfold QH. zsimp.
  repeat split; reflexivity.
Qed.


Notation c_begin := (c_begin H b_init).

Lemma header_done_zstd P inp0 (l : lstate) fp0 :
  dp_stableOut P = false -> (l_ip l =? lenN (z_lh (l_z l))) = false ->
  andb (negb (dp_magicless P)) (is_skip_magic (le32 (z_lh (l_z l)))) = false ->
  get_fheader (dp_magicless P) (z_lh (l_z l)) = HDone fp0 -> fp_skippable fp0 = false ->
  (exists e, header_done P inp0 l fp0 = IErr e) \/
  (exists (z1 : zstate) (c2 : cstate), header_done P inp0 l fp0 = iter_read P (l_setz l (z_upd z1 ZRead c2)) /\
     c_stage c2 = DDecodeBH /\ c_expected c2 = BHS /\ fp_blockMax (c_fp c2) <= fp_blockMax fp0 /\
     fp_checksum (c_fp c2) = fp_checksum fp0 /\
     z_inPos z1 = z_inPos (l_z l) /\ z_outStart z1 = z_outStart (l_z l) /\ z_outEnd z1 = z_outEnd (l_z l) /\
     z_hostage z1 = z_hostage (l_z l)).
Proof.
  intros Hso Hip Hns Hg Hsk. unfold DStreamModel.header_done. cbv zeta.
  rewrite Hip, Hsk, Hso, Hns. cbn [orb negb andb].
  rewrite andb_false_r.
  unfold decode_fheader. rewrite Hg.
  destruct (negb (fp_dictid fp0 =? 0)); cbn [mguard mbind]; [left; eexists; reflexivity|].
  csimp.
  match goal with |- context [if ?b then IErr EwindowTooLarge else _] => destruct b end; [left; eexists; reflexivity|].
  right.
  match goal with |- context [if ?b then z_set_bufs _ _ _ _ else _] => destruct b end.
  - eexists. eexists. split; [reflexivity|]. csimp. zsimp.
    repeat split; try reflexivity.
    + unfold clamp_block, fp_set_window_block. destruct (dp_maxBlock P =? 0); cbn [fp_blockMax]; lia.
    + unfold clamp_block, fp_set_window_block. destruct (dp_maxBlock P =? 0); reflexivity.
  - eexists. eexists. split; [reflexivity|]. csimp. zsimp.
    repeat split; try reflexivity.
    + unfold clamp_block, fp_set_window_block. destruct (dp_maxBlock P =? 0); cbn [fp_blockMax]; lia.
    + unfold clamp_block, fp_set_window_block. destruct (dp_maxBlock P =? 0); reflexivity.
Qed.

Lemma header_done_skip P inp0 (l : lstate) fp0 :
  dp_stableOut P = false ->
  andb (negb (dp_magicless P)) (is_skip_magic (le32 (z_lh (l_z l)))) = true ->
  fp_skippable fp0 = true ->
  (exists e, header_done P inp0 l fp0 = IErr e) \/
  (exists (z1 : zstate) (c2 : cstate), header_done P inp0 l fp0 = iter_read P (l_setz l (z_upd z1 ZRead c2)) /\
     c_stage c2 = DSkipFrame /\ c_expected c2 = sub_le (z_lh (l_z l)) s_ZSTD_FRAMEIDSIZE 4 /\
     z_inPos z1 = z_inPos (l_z l) /\ z_outStart z1 = z_outStart (l_z l) /\ z_outEnd z1 = z_outEnd (l_z l) /\
     z_hostage z1 = z_hostage (l_z l)).
Proof.
  intros Hso Hns Hsk. unfold DStreamModel.header_done. cbv zeta.
  rewrite Hsk, Hso, Hns. cbn [orb negb andb].
  rewrite andb_false_r.
  csimp.
  match goal with |- context [if ?b then IErr EwindowTooLarge else _] => destruct b end; [left; eexists; reflexivity|].
  right.
  match goal with |- context [if ?b then z_set_bufs _ _ _ _ else _] => destruct b end.
  - eexists. eexists. split; [reflexivity|]. csimp. zsimp. repeat split; reflexivity.
  - eexists. eexists. split; [reflexivity|]. csimp. zsimp. repeat split; reflexivity.
Qed.


(* second call of a Zstandard frame: the rest of the header and the first block header *)
Lemma call_header P (z : zstate) h inp cap hs bp :
  dp_stableOut P = false -> QH z h -> 1 <= lenN h -> lenN h < hs ->
  get_fheader (dp_magicless P) h = HNeed hs ->
  lenN inp = hs - lenN h + BHS ->
  andb (negb (dp_magicless P)) (is_skip_magic (le32 (h ++ tk (hs - lenN h) inp))) = false ->
  getc_block (dr (hs - lenN h) inp) = MOk bp ->
  match get_fheader (dp_magicless P) (h ++ tk (hs - lenN h) inp) with
  | HDone fp0 => fp_skippable fp0 = false ->
      call_ok (dstep P z inp cap 0) (lenN inp)
        (fun z' r => exists fp2, fp_blockMax fp2 <= fp_blockMax fp0 /\ fp_checksum fp2 = fp_checksum fp0 /\ after_call fp2 bp z' r)
  | HErr e => o_ret (dstep P z inp cap 0) = MErr e
  | HNeed _ => True
  end.
Proof.
  intros Hso (Hst & Hlh & Hin & Hos & Hoe & Hho) H1 Hlt Hg Hlen Hns Hgb.
  assert (HB3 : BHS = 3) by reflexivity.
  set (k := hs - lenN h) in *.
  set (hdr := h ++ tk k inp) in *.
  set (l0 := l_mk z inp 0 [] cap).
  set (la := l_adv l0 (z_set_lh z hdr) k).
  assert (E1 : dloop (dfuel inp) false P inp (cap, 0) l0 = dloop (S (S (S (2 * length inp)))) false P inp (cap, 0) la).
  { unfold dfuel. rewrite dloop_step, iter_lh by exact Hst.
    rewrite (iter_lh_load P inp l0 hs); unfold l0; zsimp; rewrite ?Hlh; [reflexivity|exact Hg|fold k; lia]. }
  assert (Hsa : z_stage (l_z la) = ZLoadHeader) by (unfold la, l0; zsimp; exact Hst).
  assert (Hla : z_lh (l_z la) = hdr) by reflexivity.
  assert (E2 : dloop (S (S (S (2 * length inp)))) false P inp (cap, 0) la =
               match iter_loadHeader P inp la with ICont l' => dloop (S (S (2 * length inp))) false P inp (cap, 0) l' | r => r end).
  { rewrite dloop_step, iter_lh by exact Hsa. reflexivity. }
  destruct (get_fheader (dp_magicless P) hdr) as [e|k'|fp0] eqn:Eg.
  - (* header error *)
    apply dstep_err; [exact Hso|]. fold l0. rewrite E1, E2. unfold DStreamModel.iter_loadHeader. rewrite Hla, Eg. reflexivity.
  - exact I.
  - intros Hsk. unfold call_ok.
    assert (E3 : iter_loadHeader P inp la = header_done P inp la fp0).
    { unfold DStreamModel.iter_loadHeader. rewrite Hla, Eg. reflexivity. }
    destruct (header_done_zstd P inp la fp0 Hso) as [[e He]|(z1 & c2 & Hhd & Hcs2 & Hce2 & Hbm & Hck & Hin1 & Hos1 & Hoe1 & Hho1)];
      try (rewrite ?Hla; assumption).
    + unfold la, l0. zsimp. apply N.eqb_neq. unfold hdr. rewrite lenN_app, len_tk. lia.
    + rewrite (dstep_err P z inp cap e Hso); [exact I|]. fold l0. rewrite E1, E2, E3, He. reflexivity.
    + set (lX := l_setz la (z_upd z1 ZRead c2)) in *.
      assert (E4 : dloop (S (S (S (2 * length inp)))) false P inp (cap, 0) la = dloop (S (S (S (2 * length inp)))) false P inp (cap, 0) lX).
      { rewrite E2, E3, Hhd. rewrite (dloop_step _ _ _ _ lX), iter_rd by reflexivity. reflexivity. }
      assert (Q : QZ (l_z lX) DDecodeBH BHS (c_fp c2)).
      { unfold QZ, lX, la, l0 in *. zsimp. repeat split; try assumption; try reflexivity; congruence. }
      assert (HlX : lenN (l_in lX) = BHS) by (unfold lX, la, l0; zsimp; rewrite len_dr; lia).
      assert (HgX : getc_block (l_in lX) = MOk bp) by exact Hgb.
      pose proof (loop_header P inp (cap, 0) (S (2 * length inp)) lX (c_fp c2) bp Hso Q HlX HgX) as Hl.
      rewrite <- E4, <- E1 in Hl.
      destruct (dloop (dfuel inp) false P inp (cap, 0) l0) as [l9|l'|z9 h9|e] eqn:El; try contradiction.
      * destruct Hl as (Hip & Hout & Hin' & Hho' & Hoe' & Hfp & Hn).
        assert (HipX : l_ip lX = k) by (unfold lX, la, l0; zsimp; lia).
        destruct (after_header_call P z inp cap l' (c_fp c2) bp Hso El ltac:(lia) Hin' Hho' Hoe' Hfp Hn) as (Hc & r & Hr & Ha).
        rewrite Hr. split; [lia|]. exists (c_fp c2). auto.
      * rewrite (dstep_err P z inp cap e Hso El). exact I.
Qed.


(* ---------- skippable frames: second call (rest of the 8-byte header), third call (the payload) ---------- *)
Lemma call_skip2 P (z : zstate) h inp cap fp0 :
  dp_stableOut P = false -> QH z h -> 1 <= lenN h -> lenN h < SKIPHDR ->
  get_fheader (dp_magicless P) h = HNeed SKIPHDR -> lenN inp = SKIPHDR - lenN h ->
  andb (negb (dp_magicless P)) (is_skip_magic (le32 (h ++ inp))) = true ->
  get_fheader (dp_magicless P) (h ++ inp) = HDone fp0 -> fp_skippable fp0 = true ->
  call_ok (dstep P z inp cap 0) (lenN inp)
    (fun z' r => let sz := sub_le (h ++ inp) s_ZSTD_FRAMEIDSIZE 4 in
                 if sz =? 0 then r = 0 else r = sz /\ exists fp', QZ z' DSkipFrame sz fp').
Proof.
  intros Hso (Hst & Hlh & Hin & Hos & Hoe & Hho) H1 Hlt Hg Hlen Hns Hg2 Hsk.
  set (k := SKIPHDR - lenN h) in *.
  set (l0 := l_mk z inp 0 [] cap).
  set (la := l_adv l0 (z_set_lh z (h ++ inp)) k).
  assert (E1 : dloop (dfuel inp) false P inp (cap, 0) l0 = dloop (S (S (S (2 * length inp)))) false P inp (cap, 0) la).
  { unfold dfuel. rewrite dloop_step, iter_lh by exact Hst.
    rewrite (iter_lh_load P inp l0 SKIPHDR); unfold l0; zsimp; rewrite ?Hlh; [|exact Hg|fold k; lia].
    fold k. rewrite tk_all by lia. reflexivity. }
  assert (Hsa : z_stage (l_z la) = ZLoadHeader) by (unfold la, l0; zsimp; exact Hst).
  assert (Hla : z_lh (l_z la) = h ++ inp) by reflexivity.
  assert (E2 : dloop (S (S (S (2 * length inp)))) false P inp (cap, 0) la = header_done P inp la fp0 \/
               exists l', header_done P inp la fp0 = ICont l').
  { rewrite dloop_step, iter_lh by exact Hsa. unfold DStreamModel.iter_loadHeader. rewrite Hla, Hg2.
    destruct (header_done P inp la fp0) eqn:Eh; try (left; reflexivity). right. eexists. reflexivity. }
  unfold call_ok.
  destruct (header_done_skip P inp la fp0 Hso) as [[e He]|(z1 & c2 & Hhd & Hcs2 & Hce2 & Hin1 & Hos1 & Hoe1 & Hho1)];
    try (rewrite ?Hla; assumption).
  - destruct E2 as [E2|[l' E2]]; [|congruence].
    rewrite (dstep_err P z inp cap e Hso); [exact I|]. fold l0. rewrite E1, E2, He. reflexivity.
  - set (lX := l_setz la (z_upd z1 ZRead c2)) in *.
    rewrite Hla in Hce2.
    assert (HlX : lenN (l_in lX) = 0) by (unfold lX, la, l0; zsimp; rewrite len_dr; lia).
    assert (HipX : l_ip lX = k) by (unfold lX, la, l0; zsimp; lia).
    assert (HnX : next_with_input (z_c (l_z lX)) (lenN (l_in lX)) = sub_le (h ++ inp) s_ZSTD_FRAMEIDSIZE 4).
    { unfold lX. zsimp. rewrite nwi_nonblock by (unfold is_block_stage; rewrite Hcs2; reflexivity). exact Hce2. }
    cbv zeta. destruct (sub_le (h ++ inp) s_ZSTD_FRAMEIDSIZE 4 =? 0) eqn:Ez.
    + apply N.eqb_eq in Ez. rewrite Ez in HnX.
      rewrite (iter_read_end P lX HnX) in Hhd.
      destruct E2 as [E2|[l' E2]]; [|congruence]. rewrite Hhd in E2. rewrite <- E1 in E2.
      destruct (dstep_stop P z inp cap _ Hso E2) as (Hc & Hr & Hz); unfold lX, la, l0 in *; zsimp; try lia; try congruence.
      cbv zeta in Hr. zsimp. rewrite Hr, Hce2, Ez. cbn [N.eqb]. split; [lia|reflexivity].
    + apply N.eqb_neq in Ez.
      rewrite HlX in HnX.
      rewrite (iter_read_empty P lX HlX) in Hhd by (rewrite HnX; exact Ez).
      destruct E2 as [E2|[l' E2]]; [|congruence]. rewrite Hhd in E2. rewrite <- E1 in E2.
      destruct (dstep_stop P z inp cap _ Hso E2) as (Hc & Hr & Hz); unfold lX, la, l0 in *; zsimp; try lia; try congruence.
      cbv zeta in Hr. zsimp. rewrite Hr, Hce2. unfold next_is_block. rewrite Hcs2.
      replace (sub_le (h ++ inp) s_ZSTD_FRAMEIDSIZE 4 =? 0) with false by (symmetry; apply N.eqb_neq; exact Ez).
      split; [lia|]. split; [lia|]. exists (c_fp c2). rewrite Hz. unfold QZ. zsimp.
      repeat split; try assumption; try reflexivity; congruence.
Qed.

Lemma call_skip3 P (z : zstate) inp cap sz fp :
  dp_stableOut P = false -> QZ z DSkipFrame sz fp -> 1 <= sz -> lenN inp = sz ->
  call_ok (dstep P z inp cap 0) sz (fun _ r => r = 0).
Proof.
  intros Hso (Hst & Hin & Hoe & Hho & Hcs & Hce & Hfp) H1 Hlen. unfold call_ok.
  assert (Hd : exists l', dloop (dfuel inp) false P inp (cap, 0) (l_mk z inp 0 [] cap) = IStop l' /\ l_ip l' = sz /\
                  z_inPos (l_z l') = 0 /\ z_hostage (l_z l') = false /\ z_outEnd (l_z l') = z_outStart (l_z l') /\
                  c_expected (z_c (l_z l')) = 0).
  { unfold dfuel. rewrite dloop_step, iter_rd by exact Hst.
    rewrite (iter_read_exact P _ sz); zsimp; [| | lia | lia].
    2:{ rewrite nwi_nonblock by (unfold is_block_stage; rewrite Hcs; reflexivity). exact Hce. }
    rewrite cont_stream_ns by exact Hso. cbv zeta. zsimp.
    replace (is_skip (z_c z)) with true by (unfold is_skip; rewrite Hcs; reflexivity).
    rewrite (dc_skipframe H b_raw b_rle b_cblock b_hash P (z_c z) 0 _ sz Hcs Hce). cbn [mbind fst snd negb].
    rewrite andb_false_r. zsimp.
    rewrite dloop_step. unfold DStreamModel.iter. zsimp.
    match goal with |- context [iter_flush ?x] => set (l2 := x) end.
    destruct (iter_flush_all l2) as (z' & Hfl & Hs' & Hoe' & Hc' & Hin' & Hho' & Hnp').
    { unfold l2. zsimp. change (lenN (@nil N)) with 0. lia. }
    { unfold l2. zsimp. lia. }
    { unfold l2. zsimp. change (lenN (@nil N)) with 0. lia. }
    rewrite Hfl. rewrite dloop_step, iter_rd by (zsimp; exact Hs').
    rewrite iter_read_end.
    2:{ zsimp. rewrite Hc'. unfold l2. zsimp. csimp. reflexivity. }
    eexists. split; [reflexivity|]. unfold l2 in *. zsimp. rewrite Hc'. zsimp. csimp.
    repeat split; try reflexivity; try congruence; try lia. }
  destruct Hd as (l' & Hl & Hip & Hin' & Hho' & Hoe' & He').
  destruct (dstep_stop P z inp cap l' Hso Hl ltac:(lia) Hin' Hho' Hoe') as (Hc & Hr & Hz). cbv zeta in Hr.
  rewrite Hr, He'. cbn [N.eqb]. split; [lia|reflexivity].
Qed.


(* ---------- facts about ZSTD_getFrameHeader on the prefixes the reader collects ---------- *)
Lemma skip_not_zmagic m : is_skip_magic m = true -> (m =? ZMAGIC) = false.
Proof.
  intros Hs. destruct (m =? ZMAGIC) eqn:E; [|reflexivity]. apply N.eqb_eq in E. subst m.
  vm_compute in Hs. discriminate.
Qed.

Lemma gfh_skip_short s : lenN s = 5 -> is_skip_magic (le32 s) = true -> get_fheader false s = HNeed SKIPHDR.
Proof.
  intros Hl Hs. unfold get_fheader. rewrite Hl. cbn [prefix_len]. change (5 <? s_PREFIX_zstd1) with false. cbv iota.
  rewrite (skip_not_zmagic _ Hs), Hs. cbn [negb andb]. reflexivity.
Qed.

Lemma gfh_skip_full s : lenN s = 8 -> is_skip_magic (le32 s) = true ->
  exists fp, get_fheader false s = HDone fp /\ fp_skippable fp = true.
Proof.
  intros Hl Hs. unfold get_fheader. rewrite Hl. cbn [prefix_len]. change (8 <? s_PREFIX_zstd1) with false. cbv iota.
  rewrite (skip_not_zmagic _ Hs), Hs. cbn [negb andb]. change (8 <? SKIPHDR) with false. cbv iota.
  eexists. split; reflexivity.
Qed.

(* a Zstandard frame: [s] = exactly the starting length *)
Lemma gfh_prefix ml s :
  lenN s = prefix_len ml -> (ml = true \/ is_skip_magic (le32 s) = false) -> prefix_len ml < frame_header_size ml s ->
  (exists e, get_fheader ml s = HErr e) \/ get_fheader ml s = HNeed (frame_header_size ml s).
Proof.
  intros Hl Hns Hlt. unfold get_fheader. rewrite Hl, N.ltb_irrefl.
  destruct (andb (negb ml) (negb (le32 s =? ZMAGIC))) eqn:Em.
  - destruct Hns as [->|Hns]; [discriminate|]. rewrite Hns. left. eexists. reflexivity.
  - replace (prefix_len ml <? frame_header_size ml s) with true by (symmetry; apply N.ltb_lt; exact Hlt). right. reflexivity.
Qed.

(* ... and exactly the whole header *)
Lemma gfh_full ml s :
  lenN s = frame_header_size ml s -> prefix_len ml <= lenN s -> (ml = true \/ is_skip_magic (le32 s) = false) ->
  (exists e, get_fheader ml s = HErr e) \/
  (exists fp, get_fheader ml s = HDone fp /\ fp_skippable fp = false /\ fp_blockMax fp <= BLOCKMAX /\
              fp_checksum fp = N.testbit (nthN s (prefix_len ml - 1) 0) 2).
Proof.
  intros Hl Hp Hns. unfold get_fheader.
  replace (lenN s <? prefix_len ml) with false by (symmetry; apply N.ltb_ge; exact Hp).
  destruct (andb (negb ml) (negb (le32 s =? ZMAGIC))) eqn:Em.
  - destruct Hns as [->|Hns]; [discriminate|]. rewrite Hns. left. eexists. reflexivity.
  - rewrite <- Hl, N.ltb_irrefl.
    destruct (N.testbit _ 3); [left; eexists; reflexivity|].
    match goal with |- context [if ?b then HErr EwindowTooLarge else _] => destruct b end; [left; eexists; reflexivity|].
    right. eexists. split; [reflexivity|]. cbn [fp_skippable fp_blockMax fp_checksum]. repeat split. lia.
Qed.

Lemma early_hint_zstd ml lh' hSize :
  (ml = true \/ (4 <= lenN lh' /\ is_skip_magic (le32 lh') = false)) -> hdr_min ml <= hSize ->
  early_hint ml lh' hSize = hSize - lenN lh' + BHS.
Proof.
  intros Hns Hm. unfold early_hint.
  replace (andb (negb ml) (orb (lenN lh' <? s_ZSTD_FRAMEIDSIZE) (is_skip_magic (le32 lh')))) with false.
  - f_equal. f_equal. lia.
  - symmetry. destruct Hns as [->|[H4 Hs]]; [reflexivity|]. rewrite Hs.
    replace (lenN lh' <? s_ZSTD_FRAMEIDSIZE) with false by (symmetry; apply N.ltb_ge; exact H4).
    destruct ml; reflexivity.
Qed.

Lemma early_hint_skip lh' hSize :
  4 <= lenN lh' -> is_skip_magic (le32 lh') = true -> early_hint false lh' hSize = hSize - lenN lh'.
Proof. intros H4 Hs. unfold early_hint. rewrite Hs, orb_true_r. reflexivity. Qed.

Lemma call_first_err P inp cap e :
  dp_stableOut P = false -> lenN inp = prefix_len (dp_magicless P) -> get_fheader (dp_magicless P) inp = HErr e ->
  o_ret (dstep P (z_new P) inp cap 0) = MErr e.
Proof.
  intros Hso Hlen Hg. apply dstep_err; [exact Hso|].
  set (ml := dp_magicless P) in *. pose proof (prefix_len_pos ml) as Hp1.
  unfold dfuel. rewrite dloop_step, iter_init by reflexivity.
  rewrite (iter_lh_load P inp _ (prefix_len ml)); zsimp; [| apply get_fheader_nil | change (lenN (@nil N)) with 0; fold ml; lia ].
  change (lenN (@nil N)) with 0. rewrite N.sub_0_r. fold ml. rewrite <- Hlen, tk_all, dr_all by lia. cbn [app].
  rewrite dloop_step, iter_lh by reflexivity.
  unfold DStreamModel.iter_loadHeader. zsimp. fold ml. rewrite Hg. reflexivity.
Qed.

Lemma walk_blocks_rest : forall f s c r m, walk_blocks f s c = Some (r, m) -> lenN r + (m - c) = lenN s /\ c <= m.
Proof.
  induction f as [|f IH]; intros s c r m Hw; [discriminate|].
  apply walk_blocks_inv in Hw. destruct Hw as (bp & _ & Hlen & Hw).
  destruct (bp_last bp).
  - destruct Hw as [-> ->]. rewrite len_dr. lia.
  - apply IH in Hw. rewrite len_dr in Hw. lia.
Qed.

(* ---------- the reader terminates; its position is the sum of its requests ---------- *)
Lemma srun_fuel P src cap limit : forall fuel (z : zstate) pos req asked,
  1 <= req -> pos <= limit -> (N.to_nat (limit - pos) < fuel)%nat -> srun fuel P z src cap limit pos req asked <> RFuel.
Proof.
  induction fuel as [|f IH]; intros z pos req asked Hr Hp Hf; [lia|].
  rewrite srun_step.
  destruct (limit <? pos + req) eqn:El; [discriminate|]. apply N.ltb_ge in El. cbv zeta.
  destruct (o_ret _) as [r|e]; [|discriminate].
  destruct (_ <? req); [discriminate|].
  destruct (r =? 0) eqn:E0; [discriminate|]. apply N.eqb_neq in E0.
  apply IH; lia.
Qed.

Lemma srun_sum P src cap limit : forall fuel (z : zstate) pos req asked p a,
  srun fuel P z src cap limit pos req asked = RDone p a -> p = pos + (sumN a - sumN asked) /\ sumN asked <= sumN a.
Proof.
  induction fuel as [|f IH]; intros z pos req asked p a Hr; [discriminate|].
  rewrite srun_step in Hr.
  destruct (limit <? pos + req); [discriminate|]. cbv zeta in Hr.
  destruct (o_ret _) as [r|e]; [|discriminate].
  destruct (_ <? req); [discriminate|].
  destruct (r =? 0).
  - inversion Hr; subst. rewrite rev'_rev, sumN_rev. cbn [sumN]. lia.
  - apply IH in Hr. cbn [sumN] in Hr. lia.
Qed.


(* ---------- the whole frame ---------- *)
Lemma hdr_min_prefix b : hdr_min b = prefix_len b + 1.
Proof. destruct b; reflexivity. Qed.

Theorem stream_hints_exact P src n cap :
  wf_bytes src -> dp_stableOut P = false -> BLOCKMAX <= cap ->
  frame_extent (dp_magicless P) src = Some n ->
  forall fuel, ok_res n (srun fuel P (z_new P) src cap n 0 (prefix_len (dp_magicless P)) []).
Proof.
  intros W Hso Hcap Hx fuel. unfold frame_extent in Hx.
  set (ml := dp_magicless P) in *.
  assert (HB : BHS = 3) by reflexivity. assert (HK : SKIPHDR = 8) by reflexivity.
  set (p := prefix_len ml) in *.
  assert (Hp1 : 1 <= p) by apply prefix_len_pos.
  destruct (andb (negb ml) (andb (SKIPHDR <=? lenN src) (is_skip_magic (le32 src)))) eqn:Esk.
  - (* skippable frame *)
    apply andb_true_iff in Esk. destruct Esk as [Eml Esk]. apply andb_true_iff in Esk. destruct Esk as [Elen Emag].
    apply negb_true_iff in Eml. apply N.leb_le in Elen.
    cbv zeta in Hx. destruct (lenN src <? _) eqn:El; [discriminate|]. apply N.ltb_ge in El. inversion Hx; subst n; clear Hx.
    assert (Hp : p = 5) by (unfold p; rewrite Eml; reflexivity).
    set (sz := sub_le src s_ZSTD_FRAMEIDSIZE 4) in *.
    assert (Hml : dp_magicless P = false) by exact Eml.
    (* call 1 *)
    destruct fuel as [|f]; [exact I|]. rewrite srun_step.
    replace (sz + SKIPHDR <? 0 + p) with false by (symmetry; apply N.ltb_ge; lia). cbv zeta. rewrite dr_0.
    assert (Hl1 : lenN (tk p src) = 5) by (rewrite len_tk; lia).
    assert (Hm1 : is_skip_magic (le32 (tk p src)) = true) by (rewrite le32_tk by lia; exact Emag).
    destruct (call_first P (tk p src) cap SKIPHDR Hso) as (Hr1 & Hc1 & Q1).
    { rewrite Hl1, Hml. reflexivity. }
    { rewrite Hml. apply gfh_skip_short; assumption. }
    { lia. }
    rewrite Hr1, Hc1, Hl1, Hml, early_hint_skip by (try assumption; lia). rewrite Hl1.
    replace (5 <? p) with false by (symmetry; apply N.ltb_ge; lia).
    replace (SKIPHDR - 5 =? 0) with false by reflexivity.
    set (z1 := o_z (dstep P (z_new P) (tk p src) cap 0)) in *.
    (* call 2 *)
    destruct f as [|f]; [exact I|]. rewrite srun_step.
    replace (sz + SKIPHDR <? 0 + p + (SKIPHDR - 5)) with false by (symmetry; apply N.ltb_ge; lia). cbv zeta.
    set (inp2 := tk (SKIPHDR - 5) (dr (0 + p) src)).
    assert (Hl2 : lenN inp2 = 3) by (unfold inp2; rewrite len_tk, len_dr; lia).
    assert (Hh2 : tk p src ++ inp2 = tk 8 src).
    { unfold inp2. rewrite N.add_0_l, (tk_tk_dr p (SKIPHDR - 5) src). f_equal. lia. }
    assert (Hl8 : lenN (tk 8 src) = 8) by (rewrite len_tk; lia).
    assert (Hm8 : is_skip_magic (le32 (tk 8 src)) = true) by (rewrite le32_tk by lia; exact Emag).
    destruct (gfh_skip_full (tk 8 src) Hl8 Hm8) as (fp0 & Hg8 & Hsk8).
    pose proof (call_skip2 P z1 (tk p src) inp2 cap fp0 Hso Q1 ltac:(lia) ltac:(lia)) as Hc2.
    rewrite Hml, Hh2, Hl1 in Hc2.
    specialize (Hc2 (gfh_skip_short _ Hl1 Hm1) ltac:(lia) ltac:(rewrite Hm8; reflexivity) Hg8 Hsk8).
    unfold call_ok in Hc2. cbv zeta in Hc2. rewrite sub_le_tk in Hc2 by (vm_compute; discriminate). fold sz in Hc2.
    destruct (o_ret (dstep P z1 inp2 cap 0)) as [r2|e2]; [|exact I].
    destruct Hc2 as [Hcc2 Ha2]. rewrite Hcc2, Hl2.
    replace (3 <? SKIPHDR - 5) with false by reflexivity.
    destruct (sz =? 0) eqn:Ez.
    + subst r2. cbn [N.eqb]. apply N.eqb_eq in Ez. unfold ok_res. lia.
    + destruct Ha2 as [-> [fp' Q2]]. rewrite Ez. apply N.eqb_neq in Ez.
      (* call 3 *)
      destruct f as [|f]; [exact I|]. rewrite srun_step.
      replace (sz + SKIPHDR <? 0 + p + (SKIPHDR - 5) + sz) with false by (symmetry; apply N.ltb_ge; lia). cbv zeta.
      pose proof (call_skip3 P _ (tk sz (dr (0 + p + (SKIPHDR - 5)) src)) cap sz fp' Hso Q2 ltac:(lia)
                    ltac:(rewrite len_tk, len_dr; lia)) as Hc3.
      unfold call_ok in Hc3.
      destruct (o_ret (dstep P _ (tk sz (dr (0 + p + (SKIPHDR - 5)) src)) cap 0)) as [r3|e3]; [|exact I].
      destruct Hc3 as [Hcc3 ->]. rewrite Hcc3, N.ltb_irrefl. cbn [N.eqb]. unfold ok_res. lia.
  - (* Zstandard frame *)
    destruct (lenN src <? p) eqn:Ep; [discriminate|]. apply N.ltb_ge in Ep. cbv zeta in Hx.
    set (hs := frame_header_size ml src) in *.
    destruct (lenN src <? hs) eqn:Eh; [discriminate|]. apply N.ltb_ge in Eh.
    destruct (walk_blocks (S (length src)) (dr hs src) hs) as [[rest m]|] eqn:Ew; [|discriminate].
    assert (Hlow : p + 1 <= hs) by (apply frame_header_size_lower; exact W).
    pose proof (walk_blocks_ge3 _ _ _ _ _ Ew) as Hm3.
    destruct (walk_blocks_rest _ _ _ _ _ Ew) as [Hrest _]. rewrite len_dr in Hrest.
    set (ck := N.testbit (nthN src (p - 1) 0) 2) in *.
    assert (Hn : n = m + (if ck then 4 else 0) /\ n <= lenN src).
    { destruct ck; [destruct (lenN rest <? 4) eqn:E4; [discriminate|apply N.ltb_ge in E4]|]; inversion Hx; lia. }
    destruct Hn as [Hn Hnl]. clear Hx.
    assert (Hnoskip : ml = true \/ (p = 5 /\ is_skip_magic (le32 src) = false)).
    { destruct ml eqn:Eml; [left; reflexivity|right]. cbn [negb andb] in Esk.
      assert (p = 5) by reflexivity. split; [assumption|].
      replace (SKIPHDR <=? lenN src) with true in Esk by (symmetry; apply N.leb_le; lia). exact Esk. }
    (* call 1 *)
    destruct fuel as [|f]; [exact I|]. rewrite srun_step.
    replace (n <? 0 + p) with false by (symmetry; apply N.ltb_ge; destruct ck; lia). cbv zeta. rewrite dr_0.
    assert (Hl1 : lenN (tk p src) = p) by (rewrite len_tk; lia).
    assert (Hhs1 : frame_header_size ml (tk p src) = hs) by (apply frame_header_size_tk; fold p; lia).
    assert (Hns1 : ml = true \/ is_skip_magic (le32 (tk p src)) = false).
    { destruct Hnoskip as [->|[H5 Hs]]; [left; reflexivity|right]. rewrite le32_tk by lia. exact Hs. }
    destruct (gfh_prefix ml (tk p src) Hl1 Hns1 ltac:(rewrite Hhs1; fold p; lia)) as [[e He]|Hg1].
    { rewrite (call_first_err P (tk p src) cap e Hso Hl1 He). exact I. }
    rewrite Hhs1 in Hg1.
    destruct (call_first P (tk p src) cap hs Hso Hl1 Hg1 ltac:(lia)) as (Hr1 & Hc1 & Q1).
    fold ml in Hr1. rewrite early_hint_zstd in Hr1.
    2:{ destruct Hnoskip as [->|[H5 Hs]]; [left; reflexivity|right]. rewrite Hl1, le32_tk by lia. split; [lia|exact Hs]. }
    2:{ rewrite hdr_min_prefix. fold p. lia. }
    rewrite Hr1, Hc1, Hl1, N.ltb_irrefl.
    replace (hs - p + BHS =? 0) with false by (symmetry; apply N.eqb_neq; lia).
    set (z1 := o_z (dstep P (z_new P) (tk p src) cap 0)) in *.
    (* call 2 *)
    destruct f as [|f]; [exact I|]. rewrite srun_step.
    replace (n <? 0 + p + (hs - p + BHS)) with false by (symmetry; apply N.ltb_ge; destruct ck; lia). cbv zeta.
    set (inp2 := tk (hs - p + BHS) (dr (0 + p) src)).
    assert (Hl2 : lenN inp2 = hs - p + BHS) by (unfold inp2; rewrite len_tk, len_dr; destruct ck; lia).
    assert (Hh2 : tk p src ++ tk (hs - p) inp2 = tk hs src).
    { unfold inp2. rewrite N.add_0_l, tk_tk by lia. rewrite (tk_tk_dr p (hs - p) src). f_equal. lia. }
    apply walk_blocks_inv in Ew as Ew'. destruct Ew' as (bp & Hgb & _ & _).
    assert (Hgb2 : getc_block (dr (hs - p) inp2) = MOk bp).
    { unfold inp2. rewrite N.add_0_l, dr_tk, dr_dr. replace (p + (hs - p)) with hs by lia. exact Hgb. }
    assert (Hlhs : lenN (tk hs src) = hs) by (rewrite len_tk; lia).
    assert (Hnsh : ml = true \/ is_skip_magic (le32 (tk hs src)) = false).
    { destruct Hnoskip as [->|[H5 Hs]]; [left; reflexivity|right]. rewrite le32_tk by lia. exact Hs. }
    pose proof (call_header P z1 (tk p src) inp2 cap hs bp Hso Q1) as Hc2.
    rewrite Hl1 in Hc2. fold ml in Hc2. rewrite Hh2 in Hc2.
    specialize (Hc2 ltac:(lia) ltac:(lia) Hg1 Hl2).
    assert (Hns2 : andb (negb ml) (is_skip_magic (le32 (tk hs src))) = false).
    { destruct Hnsh as [->|Hs]; [reflexivity|]. rewrite Hs. apply andb_false_r. }
    specialize (Hc2 Hns2 Hgb2).
    destruct (gfh_full ml (tk hs src)) as [[e He]|(fp0 & Hg0 & Hsk0 & Hbm0 & Hck0)]; try assumption.
    { rewrite Hlhs. symmetry. apply frame_header_size_tk. fold p. lia. }
    { rewrite Hlhs. fold p. lia. }
    { rewrite He in Hc2. rewrite Hc2. exact I. }
    rewrite Hg0 in Hc2. specialize (Hc2 Hsk0). unfold call_ok in Hc2.
    destruct (o_ret (dstep P z1 inp2 cap 0)) as [r2|e2]; [|exact I].
    destruct Hc2 as [Hcc2 (fp2 & Hbm2 & Hck2 & Ha2)]. rewrite Hcc2, Hl2, N.ltb_irrefl.
    replace (0 + p + (hs - p + BHS)) with (hs + BHS) by lia.
    assert (Hck : fp_checksum fp2 = ck).
    { rewrite Hck2, Hck0. fold p. rewrite nthN_tk by lia. reflexivity. }
    destruct (PAB P src cap n fp2 Hso ltac:(lia) Hnl (length src)) as [HA HBk].
    pose proof (PB_step P src cap n fp2 Hso ltac:(lia) Hnl (length src) HA HBk) as HB1.
    apply (dispatch P src cap n fp2 Hso ltac:(lia) Hnl (length src) HA HB1 hs _ r2 rest m bp f _ _ Ew); try assumption.
    unfold ck4. rewrite Hck. exact Hn.
Qed.

(* C10 (c), streaming API: a reader that gives ZSTD_decompressStream (buffered output, a fresh output buffer of at least one
   maximal block per call) exactly ZSTD_startingInputLength bytes and then exactly the last return value, and never sees a
   byte past the end of the frame, either gets an error from the decoder or is told 0 exactly at the frame end; every
   call consumed all it was given, the hints sum to the frame size, and no hint reaches beyond the frame *)
Theorem stream_read_exact P src n cap :
  wf_bytes src -> dp_stableOut P = false -> BLOCKMAX <= cap ->
  frame_extent (dp_magicless P) src = Some n ->
  match sread H b_init b_raw b_rle b_cblock b_hash P src cap n with
  | RDone p asked => p = n /\ sumN asked = n
  | RFail _ => True
  | RBeyond _ _ | RShort _ | RFuel => False
  end.
Proof.
  intros W Hso Hcap Hx. unfold sread.
  pose proof (stream_hints_exact P src n cap W Hso Hcap Hx (S (S (N.to_nat n)))) as Hok.
  pose proof (srun_fuel P src cap n (S (S (N.to_nat n))) (z_new P) 0 (prefix_len (dp_magicless P)) []
                (prefix_len_pos _) ltac:(lia) ltac:(lia)) as Hfu.
  destruct (srun _ P (z_new P) src cap n 0 _ []) as [p a|? ?|?|?|] eqn:Er; cbn in Hok; try tauto.
  split; [exact Hok|]. apply srun_sum in Er. cbn [sumN] in Er. lia.
Qed.

End StreamHints.

(* ---------- the hypotheses are satisfiable: concrete frames through both readers (trivial block decoder) ---------- *)
Definition ex_cblock (_ _ : N) (h : unit) (_ : bytes) : res (unit * bytes) := Err Eformat 0.
Definition ex_hread := hread unit tt (fun h _ => h) (fun h _ _ => h) ex_cblock (fun _ => 0) default_dparams.
Definition ex_sread := sread unit tt (fun h _ => h) (fun h _ _ => h) ex_cblock (fun _ => 0) default_dparams.
(* single-segment frame, one raw last block "A" *)
Definition ex_frame1 : bytes := [40; 181; 47; 253; 32; 1; 9; 0; 0; 65].
(* window descriptor, raw block "hi" (not last), RLE last block 3 x 'x', followed by two foreign bytes *)
Definition ex_frame2 : bytes := [40; 181; 47; 253; 0; 0; 16; 0; 0; 104; 105; 27; 0; 0; 120; 7; 7].
(* skippable frame with an empty payload, followed by a foreign byte *)
Definition ex_frame3 : bytes := [80; 42; 77; 24; 0; 0; 0; 0; 9].

Example ex_extents : frame_extent false ex_frame1 = Some 10 /\ frame_extent false ex_frame2 = Some 15 /\ frame_extent false ex_frame3 = Some 8.
Proof. vm_compute. auto. Qed.
Example ex_wf : wf_bytes ex_frame1 /\ wf_bytes ex_frame2 /\ wf_bytes ex_frame3.
Proof. unfold wf_bytes. repeat split; repeat constructor. Qed.
Example ex_bufferless :
  ex_hread ex_frame1 10 = RDone 10 [5; 1; 3; 1] /\ ex_hread ex_frame2 15 = RDone 15 [5; 1; 3; 2; 3; 1] /\ ex_hread ex_frame3 8 = RDone 8 [5; 3].
Proof. vm_compute. auto. Qed.
Example ex_stream :
  ex_sread ex_frame1 131072 10 = RDone 10 [5; 4; 1] /\ ex_sread ex_frame2 131072 15 = RDone 15 [5; 4; 5; 1] /\
  ex_sread ex_frame3 131072 8 = RDone 8 [5; 3].
Proof. vm_compute. auto. Qed.
