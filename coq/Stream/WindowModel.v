(* The match-state window of the compressor (lib/compress/zstd_compress_internal.h): ZSTD_window_init, ZSTD_window_clear,
   ZSTD_window_update.  Addresses are Z (any origin), indices N.  An index i is valid when lowLimit <= i < nextSrc - base;
   it stands for the byte at address dictBase + i when i < dictLimit (external-dictionary segment) and base + i
   otherwise (prefix segment).  U32 truncation of indices is not modelled (index overflow correction belongs to C15).
   Model only - no proofs in this file. *)
From Coq Require Import NArith ZArith List Bool.
From ZV.Codec Require Import Bytes.
From ZV.Gen Require Import Gen_Stream.
Import ListNotations.
Local Open Scope Z_scope.

Record wstate := {
  w_base : Z;
  w_dictBase : Z;
  w_dictLimit : N;
  w_lowLimit : N;
  w_nextSrc : Z }.

(* ZSTD_window_init: both bases point at a static one-byte string at address [a0] *)
Definition w_init (a0 : Z) : wstate :=
  {| w_base := a0; w_dictBase := a0; w_dictLimit := s_ZSTD_WINDOW_START_INDEX; w_lowLimit := s_ZSTD_WINDOW_START_INDEX;
     w_nextSrc := a0 + Z.of_N s_ZSTD_WINDOW_START_INDEX |}.

Definition w_end (w : wstate) : N := Z.to_N (w_nextSrc w - w_base w).

(* ZSTD_window_clear *)
Definition w_clear (w : wstate) : wstate :=
  {| w_base := w_base w; w_dictBase := w_dictBase w; w_dictLimit := w_end w; w_lowLimit := w_end w; w_nextSrc := w_nextSrc w |}.

(* ZSTD_window_update(window, src = ip, srcSize = n, forceNonContiguous) -> new window, "contiguous" *)
Definition w_update (w : wstate) (ip : Z) (n : N) (force : bool) : wstate * bool :=
  if (n =? 0)%N then (w, true)
  else
    let '(w1, contiguous) :=
      if orb (negb (ip =? w_nextSrc w)) force then
        let dist := w_end w in
        let low := w_dictLimit w in
        ({| w_base := ip - Z.of_N dist; w_dictBase := w_base w; w_dictLimit := dist;
            w_lowLimit := if (dist - low <? s_HASH_READ_SIZE)%N then dist else low;
            w_nextSrc := w_nextSrc w |}, false)
      else (w, true) in
    let hi := ip + Z.of_N n in
    let low2 :=
      if andb (w_dictBase w1 + Z.of_N (w_lowLimit w1) <? hi) (ip <? w_dictBase w1 + Z.of_N (w_dictLimit w1))
      then (let highInputIdx := Z.to_N (hi - w_dictBase w1) in
            if (w_dictLimit w1 <? highInputIdx)%N then w_dictLimit w1 else highInputIdx)
      else w_lowLimit w1 in
    ({| w_base := w_base w1; w_dictBase := w_dictBase w1; w_dictLimit := w_dictLimit w1; w_lowLimit := low2; w_nextSrc := hi |},
     contiguous).

(* ZSTD_window_enforceMaxDist(window, blockEnd, maxDist, loadedDictEnd = 0): [idx] = blockEnd - base *)
Definition w_enforce (w : wstate) (idx maxDist : N) : wstate :=
  if (maxDist <? idx)%N then
    let low := N.max (w_lowLimit w) (idx - maxDist) in
    {| w_base := w_base w; w_dictBase := w_dictBase w; w_dictLimit := N.max (w_dictLimit w) low; w_lowLimit := low;
       w_nextSrc := w_nextSrc w |}
  else w.

(* the block loop of ZSTD_compress_frameChunk as far as the window is concerned: before each block of at most [bs] bytes
   the maximum distance is enforced from the start of the block *)
Fixpoint w_blocks (fuel : nat) (w : wstate) (idx remaining bs maxDist : N) : wstate :=
  match fuel with
  | O => w
  | S f => if (remaining =? 0)%N then w
           else let b := N.min remaining bs in
                w_blocks f (w_enforce w idx maxDist) (idx + b) (remaining - b) bs maxDist
  end.

(* ZSTD_compressContinue_internal on a segment of n bytes at [ip]: window update, then the block loop *)
Definition w_chunk (w : wstate) (ip : Z) (n : N) (force : bool) (bs maxDist : N) : wstate :=
  let w1 := fst (w_update w ip n force) in
  w_blocks (S (N.to_nat n)) w1 (w_end w1 - n) n (N.max 1 bs) maxDist.

(* address of a valid index *)
Definition w_addr (w : wstate) (i : N) : Z :=
  if (i <? w_dictLimit w)%N then w_dictBase w + Z.of_N i else w_base w + Z.of_N i.

(* ---------- ghost state: the memory and the logical history the indices stand for ---------- *)
Definition mem := Z -> option N.
Definition hist := N -> option N.

Fixpoint write (m : mem) (a : Z) (d : bytes) : mem :=
  match d with
  | [] => m
  | b :: t => write (fun x => if x =? a then Some b else m x) (a + 1) t
  end.
Fixpoint record (h : hist) (i : N) (d : bytes) : hist :=
  match d with
  | [] => h
  | b :: t => record (fun x => if (x =? i)%N then Some b else h x) (i + 1)%N t
  end.

(* one segment handed to the compressor: the source was written at [ip], then ZSTD_window_update is called on it *)
Record seg := { sg_ip : Z; sg_data : bytes; sg_force : bool }.

Definition w_step (bs maxDist : N) (st : wstate * mem * hist) (s : seg) : wstate * mem * hist :=
  let '(w, m, h) := st in
  let n := lenN (sg_data s) in
  let w' := w_chunk w (sg_ip s) n (sg_force s) bs maxDist in
  (w', write m (sg_ip s) (sg_data s), record h (w_end w' - n)%N (sg_data s)).

Definition w_run (a0 : Z) (bs maxDist : N) (segs : list seg) : wstate * mem * hist :=
  fold_left (w_step bs maxDist) segs (w_init a0, (fun _ => None), (fun _ => None)).
