(* Facts about the instantiation of the streaming-decoder model with the reference decoder R (StreamInst.v). *)
From Coq Require Import NArith List Bool Lia.
From ZV.Codec Require Import Bytes XXH64 Fse Huf Block Frame.
From ZV.Stream Require Import DStreamModel StreamInst.
Import ListNotations.
Local Open Scope N_scope.

(* without the strict window rule the block decoder does not look at the window size *)
Lemma offset_ok_ns w1 w2 x off : offset_ok false w1 x off = offset_ok false w2 x off.
Proof. reflexivity. Qed.

Lemma exec_seq_ns w1 w2 bm x lits ll ml off : exec_seq false w1 bm x lits ll ml off = exec_seq false w2 bm x lits ll ml off.
Proof. unfold exec_seq. destruct (of_opt (splitN ll lits) Esafety 340); cbn [bind]; reflexivity. Qed.

Lemma seq_loop_ns w1 w2 bm tll tof tml : forall n stll stof stml s rep x lits acc,
  seq_loop n false w1 bm tll tof tml stll stof stml s rep x lits acc =
  seq_loop n false w2 bm tll tof tml stll stof stml s rep x lits acc.
Proof.
  induction n as [|n IH]; intros; [reflexivity|].
  cbn [seq_loop].
  repeat match goal with
  | |- bind (exec_seq false w1 ?a ?b ?c ?d ?e ?f) _ = _ => rewrite (exec_seq_ns w1 w2 a b c d e f)
  | |- bind ?a _ = bind ?a _ => destruct a as [?v|? ?]; cbn [bind]; [|reflexivity]
  | |- (let '(_, _) := ?p in _) = _ => destruct p
  | |- match ?n' with O => _ | S _ => _ end = _ => destruct n'
  end; try reflexivity; try apply IH.
Qed.

Lemma decode_cblock_ns w1 w2 bm e x src : decode_cblock false w1 bm e x src = decode_cblock false w2 bm e x src.
Proof.
  unfold decode_cblock.
  repeat match goal with
  | |- bind ?a _ = bind ?a _ => destruct a as [?v|? ?]; cbn [bind]; [|reflexivity]
  | |- (let '(_, _) := ?p in _) = _ => destruct p
  | |- (if ?b then _ else _) = _ => destruct b
  | |- match ?l with [] => _ | _ :: _ => _ end = _ => destruct l
  end; try reflexivity.
  all: try (rewrite (seq_loop_ns w1 w2); reflexivity).
Qed.

Theorem r_cblock_window w1 w2 bm h s : r_cblock w1 bm h s = r_cblock w2 bm h s.
Proof. unfold r_cblock. rewrite (decode_cblock_ns w1 w2). reflexivity. Qed.

(* a compressed block needs at least two bytes *)
Theorem r_cblock_empty w bm h : exists c s, r_cblock w bm h [] = Err c s.
Proof. unfold r_cblock, decode_cblock. cbn. eauto. Qed.
