(* A concrete block compressor for the streaming model: the store-only compressor of Codec/Encode.v used chunk by chunk
   (frame header before the first chunk, raw blocks of at most the block size, last-block bit and checksum at the end).
   It is what ZSTD_compressContinue / ZSTD_compressEnd emit for incompressible data.  Plugging it into the buffering
   layer of CStreamModel.v and decoding with the reference decoder R gives a closed end-to-end statement with no
   hypothesis about the compressor (StoreStreamProofs.v).  No proofs here. *)
From Coq Require Import NArith List Bool.
From ZV.Codec Require Import Bytes XXH64 Block Frame Encode.
From ZV.Stream Require Import CStreamModel.
Import ListNotations.
Local Open Scope N_scope.

Record sst := {
  s_first : bool;       (* the frame header has not been written yet *)
  s_p : fparams;
  s_bsize : N;
  s_seen : bytes }.     (* content of the current frame so far (what the running XXH64 state stands for) *)

Definition store_params (fc : fconf) : fparams :=
  {| fp_windowLog := N.max 10 (N.min 27 (fc_windowLog fc)); fp_contentSize := false; fp_checksum := true;
     fp_noDictID := true; fp_magicless := false |}.

Definition store_bsize (fc : fconf) : N :=
  N.max 1 (N.min (fc_maxBlock fc) (N.min (pow2 (fp_windowLog (store_params fc))) BLOCK_MAX)).

Definition store_begin (_ : sst) (fc : fconf) (_ : N) : sst :=
  {| s_first := true; s_p := store_params fc; s_bsize := store_bsize fc; s_seen := [] |}.

Definition store_new : sst := {| s_first := true; s_p := store_params {| fc_windowLog := 10; fc_maxBlock := 1; fc_pledge := 0 |};
                                 s_bsize := 1; s_seen := [] |}.

(* blocks of a chunk that does not end the frame: none for an empty chunk *)
Definition mid_blocks (bsize : N) (data : bytes) : list eblock :=
  match data with [] => [] | _ => map EBRaw (chunks bsize data) end.

Definition store_chunk (s : sst) (data : bytes) (last : bool) : sst * bytes :=
  let hdr := if s_first s then enc_fheader (s_p s) 0 0 else [] in
  let seen := s_seen s ++ data in
  let s' := {| s_first := false; s_p := s_p s; s_bsize := s_bsize s; s_seen := seen |} in
  if last
  then (s', hdr ++ enc_blocks (map EBRaw (chunks (s_bsize s) data))
               ++ write_le 4 (N.land (xxh64 seen 0) 4294967295))
  else (s', hdr ++ concat (map (enc_block false) (mid_blocks (s_bsize s) data))).

(* the decoder side: one whole frame, nothing left over *)
Definition R_whole (b : bytes) : option bytes :=
  match decode_frame default_config None b with
  | Ok (out, _, []) => Some out
  | _ => None
  end.

(* instances for extraction (correspondence run on incompressible data) *)
Definition Sk_new : kstate sst := @k_new sst store_new.
Definition Skstep := kstep sst store_begin store_chunk.
