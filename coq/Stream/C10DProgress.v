(* C10, part (a), decoder side: every ZSTD_decompressStream call (round 3: buffered output or ZSTD_d_stableOutBuffer,
   any output buffer {dst, size, pos}; round 1 had buffered output and a fresh buffer per call only)
   that is given input and output room consumes input, produces output, or reports an error - from every state reachable
   by any call history.  Proved with an invariant [DInv] of the state between calls that is derived from the loop's own
   stop conditions; block decoding stays abstract. *)
From Coq Require Import NArith ZArith List Bool Lia PeanoNat.
From ZV.Codec Require Import Bytes ListLemmas.
From ZV.Gen Require Import Gen_Stream.
From ZV.Stream Require Import DStreamModel StreamLemmas C10Hints C10HintsProofs C10StreamHints.
Import ListNotations.
Local Open Scope N_scope.

Lemma get_fheader_need_gt ml s k : get_fheader ml s = HNeed k -> lenN s < k.
Proof.
  unfold get_fheader. intros Hg.
  destruct (lenN s <? prefix_len ml) eqn:E0.
  - apply N.ltb_lt in E0.
    destruct (andb (0 <? lenN s) (negb ml)).
    + destruct (_ =? ZMAGIC); [inversion Hg; subst; exact E0|].
      destruct (is_skip_magic _); [inversion Hg; subst; exact E0|discriminate].
    + inversion Hg; subst; exact E0.
  - destruct (andb (negb ml) (negb (le32 s =? ZMAGIC))).
    + destruct (is_skip_magic (le32 s)); [|discriminate].
      destruct (lenN s <? SKIPHDR) eqn:E1; [|discriminate]. apply N.ltb_lt in E1. inversion Hg; subst; exact E1.
    + destruct (lenN s <? frame_header_size ml s) eqn:E1.
      * apply N.ltb_lt in E1. inversion Hg; subst; exact E1.
      * destruct (N.testbit _ 3); [discriminate|].
        match type of Hg with (if ?b then _ else _) = _ => destruct b end; discriminate.
Qed.

Lemma nthN_app_l (s x : bytes) i d : i < lenN s -> nthN (s ++ x) i d = nthN s i d.
Proof. intros Hi. unfold nthN. apply app_nth1. rewrite lenN_length in Hi. lia. Qed.

Lemma le32_app (s x : bytes) : 4 <= lenN s -> le32 (s ++ x) = le32 s.
Proof.
  intros H4. unfold le32, sub_le. rewrite !dr_0. f_equal. unfold tk. rewrite firstn_app.
  rewrite lenN_length in H4. replace (N.to_nat 4 - length s)%nat with 0%nat by lia. cbn [firstn]. apply app_nil_r.
Qed.

Lemma get_fheader_app_need ml s x k :
  get_fheader ml s = HNeed k -> lenN (s ++ x) < k -> forall fp, get_fheader ml (s ++ x) <> HDone fp.
Proof.
  intros Hg Hlt fp. pose proof (prefix_len_pos ml) as Hp1.
  assert (Hlen : lenN s <= lenN (s ++ x)) by (rewrite lenN_app; lia).
  unfold get_fheader in Hg.
  destruct (lenN s <? prefix_len ml) eqn:E0.
  - (* still inside the prefix: k is the prefix length *)
    assert (Hk : k = prefix_len ml).
    { repeat match type of Hg with (if ?b then _ else _) = _ => destruct b end; try discriminate; inversion Hg; reflexivity. }
    subst k. unfold get_fheader.
    replace (lenN (s ++ x) <? prefix_len ml) with true by (symmetry; apply N.ltb_lt; exact Hlt).
    repeat match goal with |- (if ?b then _ else _) <> _ => destruct b end; discriminate.
  - apply N.ltb_ge in E0.
    assert (Hfhs : frame_header_size ml (s ++ x) = frame_header_size ml s).
    { rewrite !fhs_unfold. rewrite nthN_app_l by lia. reflexivity. }
    assert (Hmag : andb (negb ml) (negb (le32 (s ++ x) =? ZMAGIC)) = andb (negb ml) (negb (le32 s =? ZMAGIC)) /\
                   (ml = false -> le32 (s ++ x) = le32 s)).
    { destruct ml; [split; [reflexivity|discriminate]|]. assert (prefix_len false = 5) by reflexivity.
      rewrite le32_app by lia. split; reflexivity. }
    destruct Hmag as [Hmag Hle]. unfold get_fheader.
    replace (lenN (s ++ x) <? prefix_len ml) with false by (symmetry; apply N.ltb_ge; lia).
    rewrite Hmag.
    destruct (andb (negb ml) (negb (le32 s =? ZMAGIC))) eqn:Em.
    + assert (Eml : ml = false) by (destruct ml; [discriminate|reflexivity]). rewrite (Hle Eml).
      destruct (is_skip_magic (le32 s)); [|discriminate].
      destruct (lenN s <? SKIPHDR); [|discriminate]. inversion Hg; subst k.
      replace (lenN (s ++ x) <? SKIPHDR) with true by (symmetry; apply N.ltb_lt; exact Hlt). discriminate.
    + rewrite Hfhs. destruct (lenN s <? frame_header_size ml s).
      * inversion Hg; subst k.
        replace (lenN (s ++ x) <? frame_header_size ml s) with true by (symmetry; apply N.ltb_lt; exact Hlt). discriminate.
      * destruct (N.testbit _ 3); [discriminate|].
        match type of Hg with (if ?b then _ else _) = _ => destruct b end; discriminate.
Qed.

Lemma find_csize_pos ml s n : find_csize ml s = Some n -> 0 < n.
Proof.
  unfold find_csize. intros Hf. assert (HK : SKIPHDR = 8) by reflexivity. assert (HB : BHS = 3) by reflexivity.
  destruct (andb _ _).
  - unfold skippable_size in Hf.
    destruct (lenN s <? SKIPHDR); cbn [mguard mbind] in Hf; [discriminate|].
    destruct (4294967296 <=? _); cbn [mguard mbind] in Hf; [discriminate|].
    destruct (lenN s <? _); cbn [mguard mbind] in Hf; [discriminate|]. inversion Hf. lia.
  - destruct (get_fheader ml s) as [e|k|fp]; try discriminate.
    destruct (walk_blocks _ _ _) as [[rest m]|] eqn:Ew; [|discriminate].
    apply walk_blocks_ge3 in Ew.
    destruct (fp_checksum fp); [destruct (lenN rest <? 4); [discriminate|]|]; inversion Hf; lia.
Qed.

Section DProgress.
Variable H : Type.
Variable b_init : H.
Variable b_raw : H -> bytes -> H.
Variable b_rle : H -> N -> N -> H.
Variable b_cblock : N -> N -> H -> bytes -> res (H * bytes).
Variable b_hash : bytes -> N.

Notation dcontinue := (dcontinue H b_raw b_rle b_cblock b_hash).
Notation cont_stream := (cont_stream H b_raw b_rle b_cblock b_hash).
Notation iter_read := (iter_read H b_raw b_rle b_cblock b_hash).
Notation iter_load := (iter_load H b_raw b_rle b_cblock b_hash).
Notation iter_loadHeader := (iter_loadHeader H b_init b_raw b_rle b_cblock b_hash false).
Notation header_done := (header_done H b_init b_raw b_rle b_cblock b_hash false).
Notation iter := (iter H b_init b_raw b_rle b_cblock b_hash false).
Notation dloop := (dloop H b_init b_raw b_rle b_cblock b_hash).
Notation dstep := (dstep H b_init b_raw b_rle b_cblock b_hash).
Notation z_new := (z_new H b_init).
Notation cstate := (cstate H).
Notation zstate := (zstate H).
Notation lstate := (lstate H).

Ltac zsimp :=
  unfold z_set_stage, l_setz, l_adv, l_emit in *; unfold z_upd, z_set_lh, z_set_in, z_set_out, z_set_bufs, z_set_tail, z_reset, l_mk in *;
  cbn [z_stage z_lh z_inbuf z_inPos z_inBuffSize z_outBuffSize z_outStart z_outEnd z_pending z_hostage z_noProgress
       z_oversized z_expect z_c l_z l_in l_ip l_out l_ocap fst snd] in *.

(* ---------- invariants ---------- *)
(* facts that hold of the streaming state at every loop iteration *)
Definition CI (z : zstate) : Prop :=
  (z_stage z <> ZFlush -> z_outStart z = z_outEnd z) /\
  (z_stage z = ZFlush -> z_outStart z <= z_outEnd z /\ lenN (z_pending z) = z_outEnd z - z_outStart z) /\
  (z_stage z <> ZLoad -> z_inPos z = 0).

(* ... and between calls *)
Definition nwi_pos (c : cstate) : Prop := forall a, next_with_input c a <> 0.
Definition DInv (P : dparams) (z : zstate) : Prop :=
  CI z /\
  match z_stage z with
  | ZInit => True
  | ZLoadHeader => forall fp, get_fheader (dp_magicless P) (z_lh z) <> HDone fp
  | ZRead => nwi_pos (z_c z) \/ z_hostage z = true
  | ZLoad => z_inPos z < c_expected (z_c z)
  | ZFlush => z_outStart z < z_outEnd z
  end.

Lemma nwi_pos_of_0 (c : cstate) : next_with_input c 0 <> 0 -> nwi_pos c.
Proof.
  unfold nwi_pos, next_with_input. intros H0 a. destruct (is_block_stage c); [|exact H0].
  destruct (c_btype c); try exact H0. lia.
Qed.

Lemma DInv_new P : DInv P (z_new P).
Proof. unfold DInv, CI, DStreamModel.z_new. cbn. split; [split; [|split]|]; intros; try reflexivity; try discriminate; exact I. Qed.

(* progress of the locals of a call *)
Definition Prog (l : lstate) : Prop := 0 < l_ip l \/ l_out l <> [].
(* nothing emitted yet => the output room is untouched *)
Definition Room (cap : N) (l : lstate) : Prop := l_out l = [] -> l_ocap l = cap.


Definition LI (cap : N) (l : lstate) : Prop := CI (l_z l) /\ Room cap l.

(* what holds when the loop stops *)
Definition StopOK (cap : N) (l : lstate) : Prop :=
  LI cap l /\
  match z_stage (l_z l) with
  | ZInit => True
  | ZLoadHeader => False
  | ZRead => nwi_pos (z_c (l_z l))
  | ZLoad => z_inPos (l_z l) < c_expected (z_c (l_z l))
  | ZFlush => z_outStart (l_z l) < z_outEnd (l_z l) /\ (0 < cap -> l_out l <> [])
  end.

Definition EarlyOK (P : dparams) (z : zstate) : Prop :=
  CI z /\ z_stage z = ZLoadHeader /\ forall fp, get_fheader (dp_magicless P) (z_lh z) <> HDone fp.

(* outcome of one iteration (or of the whole loop) started from [l] *)
Definition StepOK (P : dparams) (cap : N) (l : lstate) (r : ires H) : Prop :=
  match r with
  | IErr _ => True
  | IEarly z' _ => EarlyOK P z'
  | ICont l' => LI cap l' /\ (Prog l -> Prog l')
  | IStop l' => StopOK cap l' /\ (Prog l -> Prog l')
  end.

(* ---------- ZSTD_decompressContinueStream, buffered and stable output ---------- *)
Lemma cont_stream_ok P cap (l : lstate) src n l2 :
  LI cap l -> z_stage (l_z l) <> ZFlush -> z_inPos (l_z l) = 0 ->
  cont_stream P l src n = MOk l2 ->
  LI cap l2 /\ l_in l2 = l_in l /\ l_ip l2 = l_ip l /\ (l_out l <> [] -> l_out l2 <> []) /\
  (z_stage (l_z l2) = ZRead \/ z_stage (l_z l2) = ZFlush).
Proof.
  intros [[Hc1 [Hc2 Hc3]] Hr] Hnf Hin Hcs. unfold DStreamModel.cont_stream in Hcs.
  destruct (dp_stableOut P).
  - (* stable output: the block is decoded straight into the caller's buffer, no flush stage *)
    destruct (dcontinue P (z_c (l_z l)) _ src n) as [[c' dec]|e]; cbn [mbind] in Hcs; [|discriminate].
    inversion Hcs; subst l2; clear Hcs. cbn [fst snd]. zsimp.
    unfold LI, CI, Room. zsimp. repeat split; auto; try discriminate; intros; auto.
    + apply app_eq_nil in H0. destruct H0 as [Ho1 Ho2]. rewrite Ho2. change (lenN (@nil N)) with 0. rewrite N.sub_0_r. apply Hr. exact Ho1.
    + intros E. apply app_eq_nil in E. tauto.
  - destruct (dcontinue P (z_c (l_z l)) _ src n) as [[c' dec]|e]; cbn [mbind] in Hcs; [|discriminate].
    destruct (andb (lenN dec =? 0) (negb (is_skip (z_c (l_z l))))); inversion Hcs; subst l2; clear Hcs; zsimp.
    + unfold LI, CI, Room. zsimp. repeat split; auto; try discriminate; intros; auto.
    + unfold LI, CI, Room. zsimp. repeat split; auto; try discriminate; intros; try lia; auto.
      congruence.
Qed.


(* ---------- zdss_flush ---------- *)
Lemma iter_flush_ok P cap (l : lstate) :
  LI cap l -> z_stage (l_z l) = ZFlush -> StepOK P cap l (iter_flush l).
Proof.
  intros [[Hc1 [Hc2 Hc3]] Hr] Hst. destruct (Hc2 Hst) as [Hle Hpl]. assert (Hin : z_inPos (l_z l) = 0) by (apply Hc3; rewrite Hst; discriminate).
  unfold iter_flush. cbv zeta.
  set (z := l_z l) in *. set (toFlush := z_outEnd z - z_outStart z) in *.
  set (flushed := N.min (l_ocap l) toFlush).
  assert (Hch : lenN (tk flushed (z_pending z)) = flushed) by (rewrite len_tk; unfold flushed; lia).
  destruct (flushed =? toFlush) eqn:Ef.
  - apply N.eqb_eq in Ef.
    assert (Hroom : forall z', Room cap (l_emit l z' (tk flushed (z_pending z)))).
    { intros z' Ho. zsimp. apply app_eq_nil in Ho. destruct Ho as [Ho1 Ho2]. rewrite Ho2 in Hch. change (lenN (@nil N)) with 0 in Hch.
      rewrite <- Hch, N.sub_0_r. apply Hr. exact Ho1. }
    assert (Hprog : forall z', Prog l -> Prog (l_emit l z' (tk flushed (z_pending z)))).
    { intros z' [Hp|Hp]; [left; exact Hp|right]. zsimp. intros E. apply app_eq_nil in E. tauto. }
    destruct (andb _ _); cbn [StepOK]; (split; [split; [|apply Hroom]|apply Hprog]); unfold CI; zsimp;
      repeat split; intros; try discriminate; try reflexivity; try lia; auto.
  - apply N.eqb_neq in Ef.
    assert (Hlt : flushed < toFlush) by (unfold flushed in *; lia).
    set (l' := l_emit l (z_set_out z ZFlush (z_outStart z + flushed) (z_outEnd z) (dr flushed (z_pending z))) (tk flushed (z_pending z))).
    assert (HCI : CI (l_z l')).
    { unfold l', CI. zsimp. repeat split; intros; try discriminate; try congruence; try lia; auto. rewrite len_dr. lia. }
    assert (HRoom : Room cap l').
    { unfold l', Room. zsimp. intros Ho. apply app_eq_nil in Ho. destruct Ho as [Ho1 Ho2]. rewrite Ho2 in Hch.
      change (lenN (@nil N)) with 0 in Hch. rewrite <- Hch, N.sub_0_r. apply Hr. exact Ho1. }
    assert (Hout : 0 < cap -> l_out l' <> []).
    { unfold l'. zsimp. intros Hcap E. apply app_eq_nil in E. destruct E as [Ho1 Ho2]. rewrite Ho2 in Hch.
      change (lenN (@nil N)) with 0 in Hch. specialize (Hr Ho1). unfold flushed in Hch. lia. }
    assert (Hprog : Prog l -> Prog l').
    { unfold l', Prog. zsimp. intros [Hp|Hp]; [left; exact Hp|right]. intros E. apply app_eq_nil in E. tauto. }
    cbn [StepOK]. fold l'. split; [|exact Hprog]. unfold StopOK. split; [split; assumption|].
    unfold l'. zsimp. split; [lia|exact Hout].
Qed.

(* ---------- zdss_load ---------- *)
Lemma iter_load_ok P cap (l : lstate) :
  LI cap l -> z_stage (l_z l) = ZLoad -> StepOK P cap l (iter_load P l).
Proof.
  intros [[Hc1 [Hc2 Hc3]] Hr] Hst.
  assert (Hoe : z_outStart (l_z l) = z_outEnd (l_z l)) by (apply Hc1; rewrite Hst; discriminate).
  unfold DStreamModel.iter_load. cbv zeta.
  destruct (andb _ _); [exact I|].
  set (loaded := N.min (c_expected (z_c (l_z l)) - z_inPos (l_z l)) (lenN (l_in l))).
  destruct (loaded <? c_expected (z_c (l_z l)) - z_inPos (l_z l)) eqn:El.
  - apply N.ltb_lt in El. cbn [StepOK].
    match goal with |- StopOK cap ?x /\ _ => set (l' := x) end.
    assert (HCI : CI (l_z l')).
    { unfold l', CI. zsimp. rewrite Hst. repeat split; intros; try discriminate; auto. exfalso; apply H0; reflexivity. }
    assert (HRoom : Room cap l') by (unfold l', Room; zsimp; exact Hr).
    split.
    + unfold StopOK. split; [split; assumption|]. unfold l'. zsimp. rewrite Hst. fold loaded. lia.
    + unfold l', Prog. zsimp. intros [Hp|Hp]; [left; lia|right; exact Hp].
  - match goal with |- context [cont_stream P ?x ?b ?n] => destruct (cont_stream P x b n) as [l2|e] eqn:Ec end; [|exact I].
    apply cont_stream_ok with (cap := cap) in Ec; zsimp; try assumption; try (rewrite Hst; discriminate); try reflexivity.
    + destruct Ec as (HL & Hi & Hp & Ho & _). cbn [StepOK]. split; [exact HL|].
      unfold Prog. rewrite Hp. zsimp. intros [Hq|Hq]; [left; lia|right; exact (Ho Hq)].
    + unfold LI, CI, Room. zsimp. rewrite Hst. repeat split; intros; try discriminate; auto;
        try (match goal with Hx : _ <> _ |- _ => exfalso; apply Hx; reflexivity end).
Qed.


(* ---------- zdss_read ---------- *)
Lemma iter_read_ok P cap (l : lstate) :
  LI cap l -> z_stage (l_z l) = ZRead -> StepOK P cap l (iter_read P l).
Proof.
  intros HL Hst. pose proof HL as [[Hc1 [Hc2 Hc3]] Hr].
  assert (Hoe : z_outStart (l_z l) = z_outEnd (l_z l)) by (apply Hc1; rewrite Hst; discriminate).
  assert (Hin : z_inPos (l_z l) = 0) by (apply Hc3; rewrite Hst; discriminate).
  unfold DStreamModel.iter_read. cbv zeta.
  destruct (next_with_input (z_c (l_z l)) (lenN (l_in l)) =? 0) eqn:E0.
  - (* frame complete *)
    cbn [StepOK]. split; [|unfold Prog; zsimp; tauto].
    unfold StopOK, LI, CI, Room. zsimp. repeat split; intros; try discriminate; try congruence; auto;
      try (match goal with Hx : _ <> _ |- _ => exfalso; apply Hx; reflexivity end).
  - apply N.eqb_neq in E0.
    destruct (next_with_input (z_c (l_z l)) (lenN (l_in l)) <=? lenN (l_in l)) eqn:E1.
    + match goal with |- context [cont_stream P ?x ?b ?n] => destruct (cont_stream P x b n) as [l1|e] eqn:Ec end; [|exact I].
      apply cont_stream_ok with (cap := cap) in Ec; try assumption; try (rewrite Hst; discriminate).
      destruct Ec as ([HCI HRm] & Hi & Hp & Ho & _). cbn [StepOK]. split.
      * split; [exact HCI|]. unfold Room in *. zsimp. exact HRm.
      * unfold Prog. zsimp. rewrite Hp. intros [Hq|Hq]; [left; lia|right; exact (Ho Hq)].
    + destruct (lenN (l_in l) =? 0) eqn:E2.
      * apply N.eqb_eq in E2. rewrite E2 in E0. cbn [StepOK]. split; [|tauto].
        unfold StopOK. split; [exact HL|]. rewrite Hst. apply nwi_pos_of_0. exact E0.
      * pose proof (iter_load_ok P cap (l_setz l (z_set_stage (l_z l) ZLoad))) as Hld.
        assert (HL' : LI cap (l_setz l (z_set_stage (l_z l) ZLoad))).
        { unfold LI, CI, Room. zsimp. repeat split; intros; try discriminate; try congruence; auto;
            try (match goal with Hx : _ <> _ |- _ => exfalso; apply Hx; reflexivity end). }
        specialize (Hld HL' eq_refl).
        destruct (iter_load P (l_setz l (z_set_stage (l_z l) ZLoad))) as [l'|l'|z' h'|e]; cbn [StepOK] in *; try exact Hld.
Qed.


Lemma StepOK_from P cap (l l2 : lstate) r : (Prog l -> Prog l2) -> StepOK P cap l2 r -> StepOK P cap l r.
Proof. intros Hp. destruct r; cbn [StepOK]; tauto. Qed.

(* ---------- zdss_loadHeader ---------- *)
Lemma iter_lh_ok P cap inp0 (l : lstate) :
  LI cap l -> z_stage (l_z l) = ZLoadHeader -> StepOK P cap l (iter_loadHeader P inp0 l).
Proof.
  intros HL Hst. pose proof HL as [[Hc1 [Hc2 Hc3]] Hr].
  assert (Hoe : z_outStart (l_z l) = z_outEnd (l_z l)) by (apply Hc1; rewrite Hst; discriminate).
  assert (Hin : z_inPos (l_z l) = 0) by (apply Hc3; rewrite Hst; discriminate).
  unfold DStreamModel.iter_loadHeader. cbv zeta.
  destruct (get_fheader (dp_magicless P) (z_lh (l_z l))) as [e|hSize|fp] eqn:Eg.
  - exact I.
  - destruct (lenN (l_in l) <? hSize - lenN (z_lh (l_z l))) eqn:El.
    + apply N.ltb_lt in El.
      assert (Hnd : forall fp, get_fheader (dp_magicless P) (z_lh (l_z l) ++ l_in l) <> HDone fp).
      { apply (get_fheader_app_need _ _ _ hSize Eg). rewrite lenN_app. lia. }
      destruct (get_fheader (dp_magicless P) (z_lh (l_z l) ++ l_in l)) as [e2|k2|fp2] eqn:Eg2; [exact I| |];
        (cbn [StepOK]; unfold EarlyOK, CI; zsimp; rewrite Hst;
         repeat split; intros; try discriminate; try congruence; auto).
    + cbn [StepOK]. split.
      * unfold LI, CI, Room. zsimp. rewrite Hst. repeat split; intros; try discriminate; try congruence; auto.
      * unfold Prog. zsimp. intros [Hp|Hp]; [left; lia|right; exact Hp].
  - unfold DStreamModel.header_done. cbv zeta.
    match goal with |- StepOK P cap l (match ?sc with Some _ => _ | None => _ end) => destruct sc as [cs|] eqn:Esc end.
    + assert (Hcs : 0 < cs).
      { destruct (andb _ _) in Esc; [|discriminate].
        destruct (find_csize (dp_magicless P) inp0) as [cs'|] eqn:Ef; [|discriminate].
        destruct (cs' <=? lenN inp0); inversion Esc; subst cs'. apply (find_csize_pos _ _ _ Ef). }
      destruct (oneshot _ _ _ _ _ _ _ _ _) as [dec|e]; [|exact I].
      cbn [StepOK]. split.
      * unfold StopOK, LI, CI, Room. zsimp. repeat split; intros; try discriminate; try congruence; auto;
          try (match goal with Hx : _ <> _ |- _ => exfalso; apply Hx; reflexivity end).
        apply app_eq_nil in H0. destruct H0 as [Ho1 ->]. change (lenN (@nil N)) with 0. rewrite N.sub_0_r. apply Hr. exact Ho1.
      * intros _. left. zsimp. exact Hcs.
    + match goal with |- StepOK P cap l (if ?b then IErr EdstSize_tooSmall else _) => destruct b end; [exact I|].
      match goal with |- StepOK P cap l (match ?r with MOk _ => _ | MErr _ => _ end) => destruct r as [c1|e] eqn:Er end; [|exact I].
      match goal with |- context [if ?b then IErr EwindowTooLarge else _] => destruct b end; [exact I|].
      match goal with |- StepOK P cap l (iter_read P ?x) => set (lX := x) end.
      apply (StepOK_from P cap l lX); [unfold lX, Prog; zsimp; tauto|].
      apply iter_read_ok; [|reflexivity].
      unfold lX.
      match goal with |- context [if ?b then z_set_bufs _ _ _ _ else _] => destruct b end; unfold LI, CI, Room; zsimp;
        repeat split; intros; try discriminate; try congruence; auto.
Qed.

Lemma iter_ok P cap inp0 ex (l : lstate) :
  LI cap l -> StepOK P cap l (iter P inp0 ex l).
Proof.
  intros HL. unfold DStreamModel.iter. destruct (z_stage (l_z l)) eqn:Hst.
  - (* zdss_init *)
    apply (StepOK_from P cap l (l_setz l (z_reset (l_z l) ex))); [unfold Prog; zsimp; tauto|].
    apply iter_lh_ok; [|reflexivity].
    destruct HL as [_ Hr]. unfold LI, CI, Room. zsimp. repeat split; intros; try discriminate; try congruence; auto.
  - apply iter_lh_ok; assumption.
  - apply iter_read_ok; assumption.
  - apply iter_load_ok; assumption.
  - apply iter_flush_ok; assumption.
Qed.

Lemma dloop_ok P cap inp0 ex : forall fuel (l : lstate),
  LI cap l -> StepOK P cap l (dloop fuel false P inp0 ex l) /\ (forall l', dloop fuel false P inp0 ex l <> ICont l').
Proof.
  induction fuel as [|f IH]; intros l HL.
  - cbn. split; [exact I|discriminate].
  - cbn [DStreamModel.dloop]. pose proof (iter_ok P cap inp0 ex l HL) as Hi.
    destruct (iter P inp0 ex l) as [l1|l1|z1 h1|e] eqn:Ei.
    + destruct Hi as [HL1 Hp1]. destruct (IH l1 HL1) as [Hd Hn]. split; [|exact Hn].
      apply (StepOK_from P cap l l1 _ Hp1 Hd).
    + split; [exact Hi|discriminate].
    + split; [exact Hi|discriminate].
    + split; [exact I|discriminate].
Qed.


(* ---------- the first iteration of a call that is given input and output room makes progress ---------- *)
Definition HostageCase (l' : lstate) : Prop :=
  z_hostage (l_z l') = true /\ c_expected (z_c (l_z l')) = 0 /\ z_outEnd (l_z l') = z_outStart (l_z l') /\
  l_ip l' = 0 /\ l_out l' = [].

Lemma nwi_zero_expected (c : cstate) a : next_with_input c a = 0 -> c_expected c = 0.
Proof.
  unfold next_with_input. destruct (is_block_stage c); [|auto]. destruct (c_btype c); auto. lia.
Qed.

Lemma first_iter_prog P cap inp ex (z : zstate) :
  DInv P z -> inp <> [] -> 0 < cap ->
  match iter P inp ex (l_mk z inp 0 [] cap) with
  | ICont l' => Prog l'
  | IStop l' => Prog l' \/ HostageCase l'
  | _ => True
  end.
Proof.
  intros [[Hc1 [Hc2 Hc3]] HD] Hinp Hcap.
  assert (Hlen : 0 < lenN inp) by (destruct inp; [congruence|rewrite lenN_cons; lia]).
  unfold DStreamModel.iter. zsimp.
  destruct (z_stage z) eqn:Hst.
  - (* zdss_init *)
    unfold DStreamModel.iter_loadHeader. zsimp. rewrite get_fheader_nil. cbv zeta. change (lenN (@nil N)) with 0. rewrite N.sub_0_r.
    pose proof (prefix_len_pos (dp_magicless P)) as Hp.
    destruct (lenN inp <? prefix_len (dp_magicless P)).
    + destruct (get_fheader _ _); exact I.
    + left. zsimp. lia.
  - (* zdss_loadHeader *)
    unfold DStreamModel.iter_loadHeader. zsimp.
    destruct (get_fheader (dp_magicless P) (z_lh z)) as [e|hSize|fp] eqn:Eg; [exact I| |exfalso; exact (HD fp eq_refl)].
    cbv zeta. apply get_fheader_need_gt in Eg.
    destruct (lenN inp <? hSize - lenN (z_lh z)).
    + destruct (get_fheader _ _); exact I.
    + left. zsimp. lia.
  - (* zdss_read *)
    assert (Hoe : z_outStart z = z_outEnd z) by (apply Hc1; discriminate).
    assert (Hin : z_inPos z = 0) by (apply Hc3; discriminate).
    unfold DStreamModel.iter_read. zsimp. cbv zeta.
    destruct (next_with_input (z_c z) (lenN inp) =? 0) eqn:E0.
    + apply N.eqb_eq in E0. right. unfold HostageCase. zsimp.
      destruct HD as [HD|HD]; [exfalso; exact (HD _ E0)|].
      repeat split; auto. apply (nwi_zero_expected _ _ E0).
    + apply N.eqb_neq in E0.
      destruct (next_with_input (z_c z) (lenN inp) <=? lenN inp) eqn:E1.
      * destruct (cont_stream P _ _ _) as [l1|e]; [|exact I]. left. zsimp. lia.
      * apply N.leb_gt in E1.
        replace (lenN inp =? 0) with false by (symmetry; apply N.eqb_neq; lia).
        assert (Hexp : lenN inp < c_expected (z_c z)).
        { unfold next_with_input in E1. destruct (is_block_stage (z_c z)); [|exact E1].
          destruct (c_btype (z_c z)); try exact E1. lia. }
        unfold DStreamModel.iter_load. zsimp. cbv zeta. rewrite Hin, !N.sub_0_r.
        destruct (andb _ _); [exact I|].
        replace (N.min (c_expected (z_c z)) (lenN inp)) with (lenN inp) by lia.
        replace (lenN inp <? c_expected (z_c z)) with true by (symmetry; apply N.ltb_lt; exact Hexp).
        cbv iota. left. left. zsimp. lia.
  - (* zdss_load *)
    unfold DStreamModel.iter_load. zsimp. cbv zeta.
    destruct (andb _ _); [exact I|].
    set (loaded := N.min (c_expected (z_c z) - z_inPos z) (lenN inp)).
    assert (Hl : 0 < loaded) by (unfold loaded; lia).
    destruct (loaded <? c_expected (z_c z) - z_inPos z).
    + left. left. zsimp. lia.
    + match goal with |- context [cont_stream P ?x ?b ?n] => destruct (cont_stream P x b n) as [l2|e] eqn:Ec end; [|exact I].
      apply cont_stream_ok with (cap := cap) in Ec; zsimp; try assumption; try (rewrite Hst; discriminate); try reflexivity.
      * destruct Ec as (_ & _ & Hp & _). left. rewrite Hp. lia.
      * unfold LI, CI, Room. zsimp. rewrite Hst. repeat split; intros; try discriminate; try congruence; auto;
          try (apply Hc1; rewrite Hst; discriminate).
  - (* zdss_flush *)
    destruct (Hc2 eq_refl) as [Hle Hpl].
    unfold iter_flush. zsimp. cbv zeta.
    set (flushed := N.min cap (z_outEnd z - z_outStart z)).
    assert (Hf : 0 < flushed) by (unfold flushed; lia).
    assert (Hch : tk flushed (z_pending z) <> []).
    { intros E. apply (f_equal lenN) in E. rewrite len_tk in E. change (lenN (@nil N)) with 0 in E. unfold flushed in *. lia. }
    destruct (flushed =? z_outEnd z - z_outStart z).
    + destruct (andb _ _); right; zsimp; exact Hch.
    + left. right. zsimp. exact Hch.
Qed.


(* ---------- the loop of a whole call ---------- *)
Lemma dloop_S f P inp0 ex (l : lstate) :
  dloop (S f) false P inp0 ex l = match iter P inp0 ex l with ICont l' => dloop f false P inp0 ex l' | r => r end.
Proof. reflexivity. Qed.

Lemma LI_start cap P (z : zstate) inp : DInv P z -> LI cap (l_mk z inp 0 [] cap).
Proof. intros [HC _]. split; [exact HC|]. unfold Room. zsimp. reflexivity. Qed.

Lemma dloop_call P cap inp ex (z : zstate) :
  DInv P z ->
  match dloop (dfuel inp) false P inp ex (l_mk z inp 0 [] cap) with
  | IErr _ => True
  | IEarly z' _ => EarlyOK P z'
  | IStop l' => StopOK cap l' /\ (inp <> [] -> 0 < cap -> Prog l' \/ HostageCase l')
  | ICont _ => False
  end.
Proof.
  intros HD. set (l0 := l_mk z inp 0 [] cap).
  pose proof (LI_start cap P z inp HD) as HL0. fold l0 in HL0.
  destruct (dloop_ok P cap inp ex (dfuel inp) l0 HL0) as [Hok Hnc].
  unfold dfuel in *. rewrite dloop_S in *.
  pose proof (iter_ok P cap inp ex l0 HL0) as Hi.
  destruct (iter P inp ex l0) as [l1|l1|z1 h1|e] eqn:Ei.
  - (* the loop goes on after the first iteration *)
    destruct Hi as [HL1 _].
    destruct (dloop_ok P cap inp ex (S (S (S (2 * length inp)))) l1 HL1) as [Hok1 _].
    destruct (dloop (S (S (S (2 * length inp)))) false P inp ex l1) as [l2|l2|z2 h2|e2] eqn:Ed.
    + exact (Hnc l2 eq_refl).
    + cbn [StepOK] in Hok1. destruct Hok1 as [Hs Hp]. split; [exact Hs|]. intros Hinp Hcap. left. apply Hp.
      pose proof (first_iter_prog P cap inp ex z HD Hinp Hcap) as Hf. fold l0 in Hf. rewrite Ei in Hf. exact Hf.
    + exact Hok1.
    + exact I.
  - cbn [StepOK] in Hi. destruct Hi as [Hs _]. split; [exact Hs|]. intros Hinp Hcap.
    pose proof (first_iter_prog P cap inp ex z HD Hinp Hcap) as Hf. fold l0 in Hf. rewrite Ei in Hf. exact Hf.
  - exact Hi.
  - exact I.
Qed.

(* ---------- the return code ---------- *)
Lemma DInv_tail P cap (l' : lstate) h np ex :
  StopOK cap l' -> DInv P (z_set_tail (l_z l') (z_stage (l_z l')) h np ex).
Proof.
  intros [[[Hc1 [Hc2 Hc3]] _] Hs]. unfold DInv, CI. zsimp. split; [split; [exact Hc1|split; [exact Hc2|exact Hc3]]|].
  destruct (z_stage (l_z l')); auto; try tauto.
Qed.

(* any output mode (buffered or ZSTD_d_stableOutBuffer), any output buffer {dst, osize, opos}: room = osize - opos *)
Theorem dstream_call_gen P (z : zstate) inp osize opos :
  DInv P z ->
  let o := dstep P z inp osize opos in
  match o_ret o with
  | MErr _ => True
  | MOk _ => DInv P (o_z o) /\ (inp <> [] -> opos < osize -> 0 < o_consumed o \/ o_out o <> [])
  end.
Proof.
  intros HD. cbv zeta. set (cap := osize - opos).
  pose proof (dloop_call P cap inp (osize, opos) z HD) as Hl.
  unfold DStreamModel.dstep, dstep_gen.
  destruct (osize <? opos) eqn:Eso; [cbn [o_ret]; exact I|]. apply N.ltb_ge in Eso.
  match goal with |- match o_ret (if ?b then _ else _) with MOk _ => _ | MErr _ => _ end => destruct b end; [cbn [o_ret]; exact I|].
  fold cap.
  assert (Hlt : opos < osize -> 0 < cap) by (unfold cap; lia).
  destruct (dloop (dfuel inp) false P inp (osize, opos) (l_mk z inp 0 [] cap)) as [l0|l'|z' h'|e]; try contradiction.
  - (* the loop stopped *)
    destruct Hl as [Hs Hp].
    pose proof Hs as [[[Hc1 [Hc2 Hc3]] Hroom] Hst].
    set (z1 := l_z l') in *. set (consumed := l_ip l') in *. set (out := l_out l') in *.
    cbv zeta.
    match goal with
    | |- match o_ret (if _ then (if _ then _ else if _ then _ else ?t) else _) with MOk _ => _ | MErr _ => _ end => set (TAIL := t)
    end.
    assert (HT : match o_ret TAIL with
                 | MErr _ => True
                 | MOk _ => DInv P (o_z TAIL) /\ (inp <> [] -> opos < osize -> 0 < o_consumed TAIL \/ o_out TAIL <> [])
                 end).
    { unfold TAIL. fold z1. fold consumed. fold out.
    assert (Hprog : inp <> [] -> opos < osize -> ~ HostageCase l' -> 0 < consumed \/ out <> []).
    { intros Hi Hc Hnh. destruct (Hp Hi (Hlt Hc)) as [Hq|Hq]; [exact Hq|contradiction]. }
    destruct (c_expected (z_c z1) =? 0) eqn:Ee.
    + apply N.eqb_eq in Ee.
      destruct (z_outEnd z1 =? z_outStart z1) eqn:Eo.
      * apply N.eqb_eq in Eo.
        destruct (z_hostage z1) eqn:Eh.
        -- destruct (lenN inp <=? consumed) eqn:Ei; cbn [o_ret o_z o_consumed o_out].
           ++ (* the hostage byte cannot be released: no input left *)
              apply N.leb_le in Ei. split.
              ** unfold DInv, CI. zsimp. split; [|right; reflexivity].
                 assert (Hnl : z_stage z1 <> ZLoad) by (intros E; unfold z1 in *; rewrite E in Hst; lia).
                 repeat split; intros; try discriminate; try congruence; auto.
              ** intros Hi Hc. destruct (Hp Hi (Hlt Hc)) as [Hq|(_ & _ & _ & Hq & _)]; [exact Hq|].
                 exfalso. fold consumed in Hq. destruct inp; [congruence|]. rewrite lenN_cons in Ei. lia.
           ++ split; [apply (DInv_tail P cap l'); exact Hs|]. intros _ _. left. lia.
        -- cbn [o_ret o_z o_consumed o_out]. split; [apply (DInv_tail P cap l'); exact Hs|].
           intros Hi Hc. apply Hprog; auto. intros (Hh & _). unfold z1 in Eh. congruence.
      * apply N.eqb_neq in Eo.
        destruct (z_hostage z1) eqn:Eh.
        -- cbn [o_ret o_z o_consumed o_out]. split; [apply (DInv_tail P cap l'); exact Hs|].
           intros Hi Hc. apply Hprog; auto. intros (_ & _ & Hh & _). unfold z1 in Eo. congruence.
        -- destruct (consumed =? 0) eqn:Ec; cbn [o_ret o_z o_consumed o_out]; [exact I|].
           split; [apply (DInv_tail P cap l'); exact Hs|].
           intros Hi Hc. right.
           (* output is pending: the loop stopped in zdss_flush with the caller's buffer full *)
           assert (Hfl : z_stage z1 = ZFlush).
           { destruct (z_stage z1) eqn:E; try reflexivity; exfalso; apply Eo; symmetry; apply Hc1; discriminate. }
           rewrite Hfl in Hst. destruct Hst as [_ Ho]. exact (Ho (Hlt Hc)).
    + apply N.eqb_neq in Ee. cbn [o_ret o_z o_consumed o_out].
      match goal with |- context [if ?b then MErr (Eimpossible 7) else _] => destruct b end; [exact I|].
      split; [apply (DInv_tail P cap l'); exact Hs|].
      intros Hi Hc. apply Hprog; auto. intros (_ & He & _). unfold z1 in Ee. congruence. }
    match goal with |- match o_ret (if ?c then _ else _) with MOk _ => _ | MErr _ => _ end => destruct c end; [|exact HT].
    destruct (l_ocap l' =? 0); [cbn [o_ret]; exact I|].
    destruct (lenN (l_in l') =? 0); [cbn [o_ret]; exact I|exact HT].
  - (* the header is not complete: all the input was taken *)
    cbn [o_ret o_z o_consumed o_out]. destruct Hl as (HC & Hs & Hn). split.
    + unfold DInv. split; [exact HC|]. rewrite Hs. exact Hn.
    + intros Hi _. left. destruct inp; [congruence|]. rewrite lenN_cons. lia.
  - exact I.
Qed.

(* the buffered-output statement of round 1: a fresh output buffer {dst, cap, 0} per call *)
Theorem dstream_call P (z : zstate) inp cap :
  dp_stableOut P = false -> DInv P z ->
  let o := dstep P z inp cap 0 in
  match o_ret o with
  | MErr _ => True
  | MOk _ => DInv P (o_z o) /\ (inp <> [] -> 0 < cap -> 0 < o_consumed o \/ o_out o <> [])
  end.
Proof. intros _ HD. exact (dstream_call_gen P z inp cap 0 HD). Qed.

(* ---------- every call of every history ---------- *)
Fixpoint all_progress (P : dparams) (z : zstate) (src : bytes) (calls : list dcall) : Prop :=
  match calls with
  | [] => True
  | k :: t =>
      let inp := tk (dc_in k) src in
      let o := dstep P z inp (dc_cap k) 0 in
      match o_ret o with
      | MErr _ => True
      | MOk _ => (inp <> [] -> 0 < dc_cap k -> 0 < o_consumed o \/ o_out o <> []) /\
                 all_progress P (o_z o) (dr (o_consumed o) src) t
      end
  end.

Theorem dstream_progress_history P : dp_stableOut P = false ->
  forall calls (z : zstate) src, DInv P z -> all_progress P z src calls.
Proof.
  intros Hso. induction calls as [|k t IH]; intros z src HD; [exact I|].
  cbn [all_progress]. cbv zeta.
  pose proof (dstream_call P z (tk (dc_in k) src) (dc_cap k) Hso HD) as Hc. cbv zeta in Hc.
  destruct (o_ret (dstep P z (tk (dc_in k) src) (dc_cap k) 0)); [|exact I].
  destruct Hc as [HD' Hp]. split; [exact Hp|]. apply IH. exact HD'.
Qed.

Corollary dstream_progress_from_new P src calls : dp_stableOut P = false -> all_progress P (z_new P) src calls.
Proof. intros Hso. apply dstream_progress_history; [exact Hso|apply DInv_new]. Qed.

(* ---------- round 3: every output mode, every output buffer ----------
   A call presents [gc_in] bytes of the stream and the output buffer {dst, gc_osize, gc_opos}.  In buffered mode any
   buffer may come with any call; with ZSTD_d_stableOutBuffer the caller has to come back with the buffer as the previous
   call left it (size unchanged, pos advanced by what was produced) - a call that does not is refused with dstBuffer_wrong,
   which is a failure, so the statement needs no hypothesis about the buffers. *)
Record gcall := { gc_in : N; gc_osize : N; gc_opos : N }.

Fixpoint all_progress_gen (P : dparams) (z : zstate) (src : bytes) (calls : list gcall) : Prop :=
  match calls with
  | [] => True
  | k :: t =>
      let inp := tk (gc_in k) src in
      let o := dstep P z inp (gc_osize k) (gc_opos k) in
      match o_ret o with
      | MErr _ => True
      | MOk _ => (inp <> [] -> gc_opos k < gc_osize k -> 0 < o_consumed o \/ o_out o <> []) /\
                 all_progress_gen P (o_z o) (dr (o_consumed o) src) t
      end
  end.

Theorem dstream_progress_history_gen P :
  forall calls (z : zstate) src, DInv P z -> all_progress_gen P z src calls.
Proof.
  induction calls as [|k t IH]; intros z src HD; [exact I|].
  cbn [all_progress_gen]. cbv zeta.
  pose proof (dstream_call_gen P z (tk (gc_in k) src) (gc_osize k) (gc_opos k) HD) as Hc. cbv zeta in Hc.
  destruct (o_ret (dstep P z (tk (gc_in k) src) (gc_osize k) (gc_opos k))); [|exact I].
  destruct Hc as [HD' Hp]. split; [exact Hp|]. apply IH. exact HD'.
Qed.

Corollary dstream_progress_gen_from_new P src calls : all_progress_gen P (z_new P) src calls.
Proof. apply dstream_progress_history_gen. apply DInv_new. Qed.

End DProgress.

(* ---------- the statement covers successful stable-output histories (trivial block decoder, frame 2 of C10StreamHints:
   raw block "hi" + RLE last block 3 x 'x'): two calls on the one buffer {dst, 100, pos}; a call that comes back with
   another position or size is refused ---------- *)
Definition ex_so_params : dparams :=
  {| dp_magicless := false; dp_maxWindow := dp_maxWindow default_dparams; dp_maxBlock := 0; dp_stableOut := true; dp_ignoreChecksum := false |}.
Definition ex_so_step := dstep unit tt (fun h _ => h) (fun h _ _ => h) ex_cblock (fun _ => 0) ex_so_params.
Definition ex_so_o1 := ex_so_step (z_new unit tt ex_so_params) (tk 11 ex_frame2) 100 0.
Definition ex_so_o2 := ex_so_step (o_z ex_so_o1) (dr 11 (tk 15 ex_frame2)) 100 2.
Example ex_stable_out :
  (o_consumed ex_so_o1, o_out ex_so_o1, o_ret ex_so_o1) = (11, [104; 105], MOk 3) /\
  (o_consumed ex_so_o2, o_out ex_so_o2, o_ret ex_so_o2) = (4, [120; 120; 120], MOk 0) /\
  o_ret (ex_so_step (o_z ex_so_o1) (dr 11 (tk 15 ex_frame2)) 100 0) = MErr EdstBuffer_wrong /\
  o_ret (ex_so_step (o_z ex_so_o1) (dr 11 (tk 15 ex_frame2)) 4 2) = MErr EdstBuffer_wrong.
Proof. vm_compute. auto. Qed.
