(* Round 3: "repeated calls finish any finite stream in finitely many steps" at the level of the public entry points, in
   every input mode: from every state of an API-level history (AInv), driving ZSTD_endStream with at least one byte of
   output room per call reaches the return value 0 (or an error) after finitely many calls.  C10_cstream_terminates of round 1
   had this for ZSTD_compressStream2(ZSTD_e_end) in buffered-input mode only; here the stable-input mode (bytes deferred by
   earlier calls, bytes handed back by ZSTD_keepCallerPosition, input that the recorded buffer still presents) is covered.
   The measure is the one of round 1 - (bytes not yet compressed + frame-not-closed flag, bytes waiting in outBuff), ordered
   lexicographically - taken on the state with the held bytes presented again in front of the input (norm). *)
From Coq Require Import NArith ZArith List Bool Lia PeanoNat Wf_nat.
From ZV.Codec Require Import Bytes ListLemmas.
From ZV.Stream Require Import DStreamModel CStreamModel StreamLemmas CStreamProofs.
From ZV.Stream Require Import C10Api C10ApiProofs.
Import ListNotations.
Local Open Scope N_scope.

Section Term.
Variable CS : Type.
Variable cs_begin : CS -> fconf -> N -> CS.
Variable compress_chunk : CS -> bytes -> bool -> CS * bytes.

Notation kstate := (kstate CS).
Notation kstep := (kstep CS cs_begin compress_chunk).
Notation SI := (SI CS compress_chunk).
Notation HInv := (HInv CS cs_begin compress_chunk).
Notation AInv := (AInv CS cs_begin compress_chunk).
Notation norm := (norm CS).
Notation work_left := (work_left CS).
Notation ending := (ending CS).
Notation aend_run := (aend_run CS cs_begin compress_chunk).
Notation acend_run := (acend_run CS cs_begin compress_chunk).

(* cstream_end_measure of CStreamProofs without "buffered input": it is enough that the state holds nothing back *)
Lemma end_measure_gen P fc cs0 chunks (k : kstate) R ocap r :
  SI P cs0 chunks k -> 1 <= fc_maxBlock fc -> k_held k = [] -> 1 <= ocap ->
  let o := kstep P fc k R ocap DirEnd in
  ko_ret o = Some r -> r <> 0 ->
  let R' := dr (Z.to_N (ko_consumed o)) R in
  (0 <= ko_consumed o)%Z /\ k_held (ko_k o) = [] /\ k_stage (ko_k o) = KFlush /\
  (work_left (ko_k o) R' < work_left k R \/
   (work_left (ko_k o) R' = work_left k R /\ lenN (k_outPend (ko_k o)) < lenN (k_outPend k))).
Proof.
  intros S Hmb Hh Hcap o Hret Hr0 R'.
  pose proof (kstep_spec CS cs_begin compress_chunk P fc cs0 chunks k R ocap DirEnd S Hmb) as H.
  cbv zeta in H. fold o in H. rewrite Hret in H.
  destruct H as (cs1 & c1 & c2 & taken & rest & capleft & Hfr & S' & (more & Hmore & Hw) & Hsplit & Hcons & Hconv & (d & Hd & Hd') & Hout & Hr & Hstop).
  (* only CS_full is compatible with a non-zero return on end *)
  assert (Hfull : k_stage (ko_k o) = KFlush /\ capleft = 0).
  { destruct Hstop as [H1 H2 H3|H1 H2 H3 H4|H1 H2 H3 H4|H1 H2 H3 H4 H5 H6|H1 H2 H3 H4]; try discriminate.
    - split; assumption.
    - exfalso. apply Hr0. destruct Hr as [Hr|(_ & Hd0 & _)]; [|discriminate].
      pose proof (ki_out _ _ _ _ _ _ (si_ki _ _ _ _ _ _ S')) as Ho. rewrite H3 in Ho. cbn in Ho. lia. }
  destruct Hfull as [Hst' Hcl]. subst capleft.
  pose proof (proj2 (si_flush _ _ _ _ _ _ S' Hst')) as Hh'.
  rewrite Hh in *. rewrite Hh' in *. cbn [app] in *. rewrite app_nil_r in Hconv. change (lenN (@nil N)) with 0 in Hcons.
  assert (HR' : R' = rest).
  { unfold R'. rewrite Hcons. replace (Z.to_N (Z.of_N (lenN taken) - Z.of_N 0)) with (lenN taken) by lia.
    rewrite Hsplit. apply dr_app_exact. }
  split; [lia|]. split; [reflexivity|]. split; [exact Hst'|].
  pose proof (si_ki _ _ _ _ _ _ S) as K. pose proof (si_ki _ _ _ _ _ _ S') as K'.
  (* bytes not yet compressed *)
  assert (Hbytes : lenN (chunks_in more) + lenN (k_inPend (ko_k o)) + lenN rest = lenN (k_inPend k) + lenN R).
  { rewrite Hmore, chunks_in_app, <- app_assoc in Hconv. apply app_inv_head in Hconv.
    apply (f_equal lenN) in Hconv. rewrite !lenN_app in Hconv. rewrite Hsplit, lenN_app. lia. }
  (* the frame in progress *)
  assert (Hend0 : ending k = 0 -> more = [] /\ ending (ko_k o) = 0).
  { unfold CStreamProofs.ending. intros E0. destruct (k_stage k) eqn:Est; try discriminate. destruct (k_frameEnded k) eqn:Efe; try discriminate.
    destruct Hfr as [(-> & -> & _)|(Est' & _)]; [|congruence].
    pose proof (ki_ended _ _ _ _ _ _ K Efe) as [Hc _].
    rewrite Hst'. destruct (k_frameEnded (ko_k o)) eqn:Efe'.
    - split; [|reflexivity]. pose proof (ki_ended _ _ _ _ _ _ K' Efe') as [Hc' _]. rewrite Hmore in Hc'.
      apply (complete_app_more _ _ Hc Hc').
    - exfalso. pose proof (ki_nolast _ _ _ _ _ _ K' Efe') as Hnl. apply (complete_not_nolast _ Hc).
      intros x Hx. apply Hnl. rewrite Hmore. apply in_or_app. left. exact Hx. }
  assert (Hend_le : ending (ko_k o) <= 1) by (unfold CStreamProofs.ending; destruct (k_stage (ko_k o)); try lia; destruct (k_frameEnded (ko_k o)); lia).
  assert (Hend_le0 : ending k <= 1) by (unfold CStreamProofs.ending; destruct (k_stage k); try lia; destruct (k_frameEnded k); lia).
  unfold CStreamProofs.work_left. rewrite HR'.
  destruct Hw as [Hm0|[Hm1|(c & Hm2)]].
  - (* no new chunk: pure flushing *)
    right. subst more. rewrite app_nil_r in Hmore. subst c2.
    assert (Hd0 : d = []).
    { rewrite <- (app_nil_r (outs CS compress_chunk cs1 c1)) in Hd at 1. apply app_inv_head in Hd. symmetry. exact Hd. }
    subst d. rewrite app_nil_r in Hd'. cbn [chunks_in map concat lenN] in Hbytes. change (lenN (@nil N)) with 0 in Hbytes.
    assert (Hq : lenN (ko_out o) + lenN (k_outPend (ko_k o)) = lenN (k_outPend k)).
    { apply (f_equal lenN) in Hd'. rewrite lenN_app in Hd'. exact Hd'. }
    split; [|lia].
    assert (ending (ko_k o) = ending k).
    { destruct (N.eq_dec (ending k) 0) as [E0|E1]; [destruct (Hend0 E0) as [_ E]; lia|].
      assert (Ek : ending k = 1) by lia. rewrite Ek.
      unfold CStreamProofs.ending. rewrite Hst'. destruct (k_frameEnded (ko_k o)) eqn:Efe'; [|reflexivity]. exfalso.
      pose proof (ki_ended _ _ _ _ _ _ K' Efe') as [Hc' _].
      destruct Hfr as [(-> & -> & Hsame)|(Est & -> & _)].
      - unfold CStreamProofs.ending in Ek. destruct (k_stage k) eqn:Est.
        + destruct (Hsame eq_refl) as [_ E]. congruence.
        + pose proof (ki_load _ _ _ _ _ _ K Est) as [_ Efe]. apply (complete_not_nolast _ Hc'). apply (ki_nolast _ _ _ _ _ _ K Efe).
        + destruct (k_frameEnded k) eqn:Efe; [discriminate|]. apply (complete_not_nolast _ Hc'). apply (ki_nolast _ _ _ _ _ _ K Efe).
      - destruct Hc' as (pre & c & E & _). destruct pre; discriminate. }
    lia.
  - (* some input byte was compressed *)
    left. assert (1 <= lenN (chunks_in more)).
    { destruct (chunks_in more) eqn:E; [congruence|]. rewrite lenN_cons. lia. }
    destruct (N.eq_dec (ending k) 0) as [E0|E1]; [destruct (Hend0 E0) as [-> _]; cbn in Hm1; congruence|]. lia.
  - (* the closing chunk went out: the frame is now closed *)
    left. destruct (N.eq_dec (ending k) 0) as [E0|E1]; [destruct (Hend0 E0) as [-> _]; destruct Hm2|].
    assert (E' : ending (ko_k o) = 0).
    { unfold CStreamProofs.ending. rewrite Hst'. destruct (k_frameEnded (ko_k o)) eqn:Efe'; [reflexivity|]. exfalso.
      pose proof (ki_nolast _ _ _ _ _ _ K' Efe') as Hnl. specialize (Hnl (c, true)). cbn in Hnl.
      assert (In (c, true) c2) by (rewrite Hmore; apply in_or_app; right; exact Hm2). specialize (Hnl H). discriminate. }
    lia.
Qed.

Lemma keep_caller_applied (h : bytes) (o : kout CS) : k_appliedSI (keep_caller h o) = k_appliedSI (ko_k o).
Proof.
  unfold keep_caller. cbv zeta. destruct (is_init (ko_k o)); [reflexivity|].
  destruct (negb (k_appliedSI (ko_k o))); [reflexivity|]. destruct (_ <? _)%Z; reflexivity.
Qed.

Lemma tk_len_tk (n : N) (l : bytes) : tk (lenN (tk n l)) l = tk n l.
Proof.
  rewrite len_tk. destruct (N.le_ge_cases n (lenN l)) as [H|H].
  - rewrite N.min_l by exact H. reflexivity.
  - rewrite N.min_r by exact H. rewrite (tk_all n l H). apply tk_all. lia.
Qed.

(* an end call that returns 0 has closed the frame *)
Lemma end_zero_closed P fc cs0 chunks (k : kstate) R ocap :
  SI P cs0 chunks k -> 1 <= fc_maxBlock fc ->
  let o := kstep P fc k R ocap DirEnd in
  ko_ret o = Some 0 -> k_stage (ko_k o) = KInit /\ k_frameEnded (ko_k o) = true.
Proof.
  intros S Hmb o Hret.
  pose proof (kstep_spec CS cs_begin compress_chunk P fc cs0 chunks k R ocap DirEnd S Hmb) as H.
  cbv zeta in H. fold o in H. rewrite Hret in H.
  destruct H as (cs1 & c1 & c2 & taken & rest & capleft & _ & S' & _ & _ & _ & _ & _ & _ & Hr & Hstop).
  destruct Hstop as [H1 H2 H3|H1 H2 H3 H4|H1 H2 H3 H4|H1 H2 H3 H4 H5 H6|H1 H2 H3 H4]; try discriminate.
  - exfalso. destruct Hr as [Hr|(_ & Hd0 & _)]; [lia|discriminate].
  - split; assumption.
Qed.

(* ---------- the measure of an API state: what ZSTD_endStream still has to compress, and what waits in outBuff ---------- *)
(* what the next ZSTD_endStream call presents (C10Api.a_endStream): that many bytes of X from the caller's position *)
Definition end_n (a : astate CS) : N :=
  if wview (a_k a) then (if a_null a then 0 else a_size a - a_pos a) else 0.
Definition end_input (X : bytes) (a : astate CS) : bytes := tk (end_n a) (dr (a_pos a) X).
Definition awork (X : bytes) (a : astate CS) : N :=
  lenN (k_held (a_k a)) + lenN (end_input X a) + lenN (k_inPend (a_k a)) + ending (a_k a).
Definition apend (a : astate CS) : N := lenN (k_outPend (a_k a)).

Lemma norm_fields (k : kstate) :
  k_inPend (norm k) = k_inPend k /\ k_outPend (norm k) = k_outPend k /\ ending (norm k) = ending k.
Proof. unfold C10ApiProofs.norm, CStreamProofs.ending, k_set_held. cbn. auto. Qed.

(* one unfinished ZSTD_endStream call decreases (awork, apend) lexicographically *)
Lemma endStream_measure P X (a : astate CS) em dones cs0 chunks fc cap ck r :
  AInv P X a em dones cs0 chunks -> 1 <= fc_maxBlock fc -> 1 <= cap ->
  let o := a_endStream CS cs_begin compress_chunk P fc X a cap ck in
  ao_ret o = Some r -> r <> 0 ->
  awork X (ao_a o) < awork X a \/ (awork X (ao_a o) = awork X a /\ apend (ao_a o) < apend a).
Proof.
  intros A Hmb Hcap. unfold a_endStream. cbv zeta.
  pose proof (ai_h _ _ _ _ _ _ _ _ _ _ A) as HH. pose proof (hi_si _ _ _ _ _ _ _ _ _ _ _ HH) as Sn.
  destruct (norm_fields (a_k a)) as (Nf1 & Nf2 & Nf3).
  destruct (wview (a_k a)) eqn:Hv.
  - (* the recorded stable buffer *)
    set (n := if a_null a then 0 else a_size a - a_pos a).
    replace (if a_null a then [] else tk (a_size a - a_pos a) (dr (a_pos a) X)) with (tk n (dr (a_pos a) X))
      by (unfold n; destruct (a_null a); [apply tk_0|reflexivity]).
    set (inp := tk n (dr (a_pos a) X)).
    set (k := a_k a) in *. set (h := k_held k) in *.
    set (o := kstep P fc k inp cap DirEnd).
    destruct (ko_ret o) as [r'|] eqn:Er; [|rewrite a_kfail_ret; discriminate].
    cbn [ao_ret ao_a]. intros Hr Hr0. inversion Hr as [Hr1]. clear Hr.
    (* the same call on the normalised state *)
    destruct (norm_call CS cs_begin compress_chunk P X a em dones cs0 chunks fc inp cap DirEnd A) as (E1 & _ & _ & E4).
    fold k h o in E1, E4. set (o' := kstep P fc (norm k) (h ++ inp) cap DirEnd) in *.
    rewrite Er in E1. destruct (E4 ltac:(congruence)) as [Ek Ec].
    assert (Hr'0 : r' <> 0).
    { intros ->. destruct (end_zero_closed P fc cs0 chunks (norm k) (h ++ inp) cap Sn Hmb E1) as [Hi Hf].
      fold o' in Hi, Hf. rewrite Ek in Hi, Hf. apply Hr0. rewrite <- Hr1. unfold end_ret.
      assert (Ekc : keep_caller h o = ko_k o) by (unfold keep_caller; cbv zeta; unfold is_init; rewrite Hi; reflexivity).
      rewrite Ekc, Hf. reflexivity. }
    destruct (end_measure_gen P fc cs0 chunks (norm k) (h ++ inp) cap r' Sn Hmb eq_refl Hcap E1 Hr'0) as (Hc0 & Hh' & Hst' & Hdec).
    fold o' in Hc0, Hh', Hst', Hdec. rewrite Ek in Hh', Hst', Hdec. rewrite Ec in Hc0, Hdec.
    (* the state the wrapper leaves *)
    set (k2 := keep_caller h o).
    assert (Hk2 : k_inPend k2 = k_inPend (ko_k o) /\ k_outPend k2 = k_outPend (ko_k o) /\ ending k2 = ending (ko_k o) /\ k_stage k2 = KFlush).
    { destruct (keep_caller_fields CS h o) as (F1 & F2 & F3 & F4). fold k2 in F1, F2, F3, F4.
      unfold CStreamProofs.ending. rewrite F1, F2, F3, F4, Hst'. auto. }
    destruct Hk2 as (G1 & G2 & G3 & G4).
    assert (Hview2 : wview k2 = k_appliedSI (ko_k o)).
    { unfold wview, is_init. rewrite G4. apply keep_caller_applied. }
    (* bounds of the call *)
    assert (Einp : tk (lenN inp) (dr (a_pos a) X) = inp) by (unfold inp; apply tk_len_tk).
    assert (Hlinp : lenN inp = N.min n (lenN X - a_pos a)) by (unfold inp; rewrite len_tk, len_dr; reflexivity).
    assert (Er0 : ko_ret (kstep P fc (a_k a) (tk (lenN inp) (dr (a_pos a) X)) cap DirEnd) = Some r').
    { fold k. rewrite Einp. exact Er. }
    pose proof (ai_le _ _ _ _ _ _ _ _ _ _ A) as Hle. pose proof (ai_pos _ _ _ _ _ _ _ _ _ _ A) as Hpos. fold k h in Hle.
    (* length of what remains to be compressed *)
    assert (HlenR : lenN (dr (Z.to_N (ko_consumed o + Z.of_N (lenN h))) (h ++ inp)) = lenN h + lenN inp - Z.to_N (ko_consumed o + Z.of_N (lenN h)))
      by (rewrite len_dr, lenN_app; reflexivity).
    assert (Hcons_le : (ko_consumed o <= Z.of_N (lenN inp))%Z).
    { destruct (AInv_kstep CS cs_begin compress_chunk P X a em dones cs0 chunks fc (lenN inp) cap DirEnd r' A Hmb Er0) as (_ & Hb & _).
      fold k h in Hb. rewrite Einp in Hb. fold o in Hb. lia. }
    (* the new measure *)
    assert (Hnew : awork X {| a_k := k2; a_pos := if (ko_consumed o <? 0)%Z then a_pos a else Z.to_N (Z.of_N (a_pos a) + ko_consumed o);
                             a_size := a_size a; a_null := a_null a |}
                   = work_left (ko_k o) (dr (Z.to_N (ko_consumed o + Z.of_N (lenN h))) (h ++ inp))).
    { unfold awork, end_input, end_n, CStreamProofs.work_left. cbn [a_k a_pos a_size a_null]. rewrite Hview2, G1, G3, HlenR.
      rewrite len_tk, len_dr.
      unfold k2, keep_caller. cbv zeta. unfold is_init. rewrite Hst'.
      destruct (k_appliedSI (ko_k o)) eqn:Eap; cbn [negb].
      - destruct (Z.ltb_spec (ko_consumed o) 0) as [Hneg|Hge].
        + unfold k_set_held. cbn [k_held]. rewrite len_dr. fold n. lia.
        + rewrite Hh', lenN_nil. unfold n in *. destruct (a_null a); lia.
      - (* buffered frame: nothing is ever held *)
        assert (Hh0 : h = []).
        { apply (ai_stable _ _ _ _ _ _ _ _ _ _ A).
          rewrite <- (applied_after CS cs_begin compress_chunk P X a em dones cs0 chunks fc inp cap DirEnd r' A Er) by (fold k o; rewrite Hst'; discriminate).
          fold k o. exact Eap. }
        (* ... so the wrapper would not have presented the recorded buffer *)
        exfalso. assert (HPf : kp_stableIn P = false).
        { rewrite <- (applied_after CS cs_begin compress_chunk P X a em dones cs0 chunks fc inp cap DirEnd r' A Er) by (fold k o; rewrite Hst'; discriminate).
          fold k o. exact Eap. }
        pose proof (ai_applied _ _ _ _ _ _ _ _ _ _ A) as Hap. fold k in Hap.
        unfold wview, is_init in Hv. fold k in Hv. destruct (k_stage k) eqn:Estk.
        * fold h in Hv. rewrite Hh0, lenN_nil in Hv. discriminate.
        * rewrite Hap in Hv by discriminate. congruence.
        * rewrite Hap in Hv by discriminate. congruence. }
    rewrite Hnew.
    assert (Hold : awork X a = work_left (norm k) (h ++ inp)).
    { unfold awork, end_input, end_n, CStreamProofs.work_left. fold k. rewrite Hv, Nf1, Nf3, lenN_app. fold h n inp. lia. }
    rewrite Hold. unfold apend. cbn [a_k]. rewrite G2. fold k. rewrite <- Nf2.
    destruct Hdec as [Hd|[Hd1 Hd2]]; [left; exact Hd|right; split; assumption].
  - (* {NULL,0,0} *)
    pose proof (wrappers_keep_deferred CS cs_begin compress_chunk P X a em dones cs0 chunks A Hv) as Hh0.
    set (k := a_k a) in *.
    assert (Ekn : k_set_held k [] = norm k) by reflexivity. rewrite Ekn.
    set (o := kstep P fc (norm k) [] cap DirEnd).
    destruct (ko_ret o) as [r'|] eqn:Er; [|rewrite a_kfail_ret; discriminate].
    cbn [ao_ret ao_a]. intros Hr Hr0. inversion Hr as [Hr1]. clear Hr.
    assert (Hr'0 : r' <> 0).
    { intros ->. destruct (end_zero_closed P fc cs0 chunks (norm k) [] cap Sn Hmb Er) as [Hi Hf].
      fold o in Hf. apply Hr0. rewrite <- Hr1. unfold end_ret. rewrite Hf. reflexivity. }
    destruct (end_measure_gen P fc cs0 chunks (norm k) [] cap r' Sn Hmb eq_refl Hcap Er Hr'0) as (Hc0 & Hh' & Hst' & Hdec).
    fold o in Hc0, Hh', Hst', Hdec.
    assert (Hdr : dr (Z.to_N (ko_consumed o)) (@nil N) = []) by (apply dr_all; change (lenN (@nil N)) with 0; lia).
    rewrite Hdr in Hdec.
    assert (Hnew : awork X {| a_k := ko_k o; a_pos := a_pos a; a_size := a_size a; a_null := true |} = work_left (ko_k o) []).
    { unfold awork, end_input, end_n, CStreamProofs.work_left. cbn [a_k a_null a_pos]. rewrite Hh'. destruct (wview (ko_k o)); rewrite ?tk_0; change (lenN (@nil N)) with 0; lia. }
    assert (Hold : awork X a = work_left (norm k) []).
    { unfold awork, end_input, end_n, CStreamProofs.work_left. fold k. rewrite Hv, Hh0, Nf1, Nf3, tk_0. change (lenN (@nil N)) with 0. lia. }
    rewrite Hnew, Hold. unfold apend. cbn [a_k]. fold k. rewrite <- Nf2.
    destruct Hdec as [Hd|[Hd1 Hd2]]; [left; exact Hd|right; split; assumption].
Qed.

(* ---------- driving ZSTD_endStream terminates ---------- *)
Theorem api_endStream_terminates P X fc ck (caps : nat -> N) :
  1 <= fc_maxBlock fc -> (forall i, 1 <= caps i) ->
  forall (a : astate CS) em dones cs0 chunks i, AInv P X a em dones cs0 chunks ->
  exists n, match aend_run P fc X a caps ck i n with AEMore _ => False | _ => True end.
Proof.
  intros Hmb Hcaps.
  assert (Hgen : forall w q (a : astate CS) em dones cs0 chunks i, AInv P X a em dones cs0 chunks ->
            (N.to_nat (awork X a) <= w)%nat -> (N.to_nat (apend a) <= q)%nat ->
            exists n, match aend_run P fc X a caps ck i n with AEMore _ => False | _ => True end).
  { induction w as [w IHw] using lt_wf_ind. induction q as [q IHq] using lt_wf_ind.
    intros a em dones cs0 chunks i A Hw Hq.
    destruct (ao_ret (a_endStream CS cs_begin compress_chunk P fc X a (caps i) ck)) as [r|] eqn:Er.
    - destruct (N.eqb_spec r 0) as [->|Hr0].
      + exists 1%nat. cbn [C10Api.aend_run]. rewrite Er. cbn. exact I.
      + pose proof (endStream_measure P X a em dones cs0 chunks fc (caps i) ck r A Hmb (Hcaps i) Er Hr0) as Hdec.
        destruct (AInv_endStream CS cs_begin compress_chunk P X a em dones cs0 chunks fc (caps i) ck r A Hmb Er) as (d1 & c1 & ch1 & A1).
        set (a1 := ao_a (a_endStream CS cs_begin compress_chunk P fc X a (caps i) ck)) in *.
        assert (Hn : exists n, match aend_run P fc X a1 caps ck (S i) n with AEMore _ => False | _ => True end).
        { destruct Hdec as [Hlt|[Heq Hlt]].
          - apply (IHw (N.to_nat (awork X a1)) ltac:(lia) (N.to_nat (apend a1)) a1 _ d1 c1 ch1 (S i) A1); lia.
          - apply (IHq (N.to_nat (apend a1)) ltac:(lia) a1 _ d1 c1 ch1 (S i) A1); lia. }
        destruct Hn as [n Hn]. exists (S n). cbn [C10Api.aend_run]. rewrite Er.
        destruct (N.eqb_spec r 0); [contradiction|]. exact Hn.
    - exists 1%nat. cbn [C10Api.aend_run]. rewrite Er. exact I. }
  intros a em dones cs0 chunks i A. eapply Hgen; eauto.
Qed.

(* ---------- the same for ZSTD_compressStream2(ZSTD_e_end) presenting all that remains (any input mode) ---------- *)
Definition cwork (X : bytes) (a : astate CS) : N :=
  lenN (k_held (a_k a)) + (lenN X - a_pos a) + lenN (k_inPend (a_k a)) + ending (a_k a).

Lemma end_call_measure P X (a : astate CS) em dones cs0 chunks fc cap r :
  AInv P X a em dones cs0 chunks -> 1 <= fc_maxBlock fc -> 1 <= cap ->
  let o := a_call CS cs_begin compress_chunk P fc X a (lenN X) cap DirEnd in
  ao_ret o = Some r -> r <> 0 ->
  cwork X (ao_a o) < cwork X a \/ (cwork X (ao_a o) = cwork X a /\ apend (ao_a o) < apend a).
Proof.
  intros A Hmb Hcap. unfold a_call. cbv zeta.
  pose proof (ai_h _ _ _ _ _ _ _ _ _ _ A) as HH. pose proof (hi_si _ _ _ _ _ _ _ _ _ _ _ HH) as Sn.
  destruct (norm_fields (a_k a)) as (Nf1 & Nf2 & Nf3).
  set (inp := tk (lenN X) (dr (a_pos a) X)).
  set (k := a_k a) in *. set (h := k_held k) in *.
  set (o := kstep P fc k inp cap DirEnd).
  destruct (ko_ret o) as [r'|] eqn:Er; [|rewrite a_kfail_ret; discriminate].
  cbn [ao_ret ao_a]. intros Hr Hr0. inversion Hr; subst r'. clear Hr.
  destruct (norm_call CS cs_begin compress_chunk P X a em dones cs0 chunks fc inp cap DirEnd A) as (E1 & _ & _ & E4).
  fold k h o in E1, E4. set (o' := kstep P fc (norm k) (h ++ inp) cap DirEnd) in *.
  rewrite Er in E1. destruct (E4 ltac:(congruence)) as [Ek Ec].
  destruct (end_measure_gen P fc cs0 chunks (norm k) (h ++ inp) cap r Sn Hmb eq_refl Hcap E1 Hr0) as (Hc0 & Hh' & Hst' & Hdec).
  fold o' in Hc0, Hh', Hst', Hdec. rewrite Ek in Hh', Hst', Hdec. rewrite Ec in Hc0, Hdec.
  pose proof (ai_le _ _ _ _ _ _ _ _ _ _ A) as Hle. pose proof (ai_pos _ _ _ _ _ _ _ _ _ _ A) as Hpos. fold k h in Hle.
  assert (Hlinp : lenN inp = lenN X - a_pos a) by (unfold inp; rewrite len_tk, len_dr; lia).
  assert (Hcons_le : (ko_consumed o <= Z.of_N (lenN inp))%Z).
  { destruct (AInv_kstep CS cs_begin compress_chunk P X a em dones cs0 chunks fc (lenN X) cap DirEnd r A Hmb Er) as (_ & Hb & _).
    fold k h inp o in Hb. lia. }
  assert (Hnew : cwork X {| a_k := ko_k o; a_pos := Z.to_N (Z.of_N (a_pos a) + ko_consumed o); a_size := a_pos a + lenN inp; a_null := false |}
                 = work_left (ko_k o) (dr (Z.to_N (ko_consumed o + Z.of_N (lenN h))) (h ++ inp))).
  { unfold cwork, CStreamProofs.work_left. cbn [a_k a_pos]. rewrite Hh', len_dr, lenN_app. change (lenN (@nil N)) with 0. lia. }
  assert (Hold : cwork X a = work_left (norm k) (h ++ inp)).
  { unfold cwork, CStreamProofs.work_left. fold k h. rewrite Nf1, Nf3, lenN_app. lia. }
  rewrite Hnew, Hold. unfold apend. cbn [a_k]. fold k. rewrite <- Nf2.
  destruct Hdec as [Hd|[Hd1 Hd2]]; [left; exact Hd|right; split; assumption].
Qed.

Theorem api_end_call_terminates P X fc (caps : nat -> N) :
  1 <= fc_maxBlock fc -> (forall i, 1 <= caps i) ->
  forall (a : astate CS) em dones cs0 chunks i, AInv P X a em dones cs0 chunks ->
  exists n, match acend_run P fc X a caps i n with AEMore _ => False | _ => True end.
Proof.
  intros Hmb Hcaps.
  assert (Hgen : forall w q (a : astate CS) em dones cs0 chunks i, AInv P X a em dones cs0 chunks ->
            (N.to_nat (cwork X a) <= w)%nat -> (N.to_nat (apend a) <= q)%nat ->
            exists n, match acend_run P fc X a caps i n with AEMore _ => False | _ => True end).
  { induction w as [w IHw] using lt_wf_ind. induction q as [q IHq] using lt_wf_ind.
    intros a em dones cs0 chunks i A Hw Hq.
    destruct (ao_ret (a_call CS cs_begin compress_chunk P fc X a (lenN X) (caps i) DirEnd)) as [r|] eqn:Er.
    - destruct (N.eqb_spec r 0) as [->|Hr0].
      + exists 1%nat. cbn [C10Api.acend_run]. rewrite Er. cbn. exact I.
      + pose proof (end_call_measure P X a em dones cs0 chunks fc (caps i) r A Hmb (Hcaps i) Er Hr0) as Hdec.
        destruct (AInv_call CS cs_begin compress_chunk P X a em dones cs0 chunks fc (lenN X) (caps i) DirEnd r A Hmb Er) as (d1 & c1 & ch1 & A1).
        set (a1 := ao_a (a_call CS cs_begin compress_chunk P fc X a (lenN X) (caps i) DirEnd)) in *.
        assert (Hn : exists n, match acend_run P fc X a1 caps (S i) n with AEMore _ => False | _ => True end).
        { destruct Hdec as [Hlt|[Heq Hlt]].
          - apply (IHw (N.to_nat (cwork X a1)) ltac:(lia) (N.to_nat (apend a1)) a1 _ d1 c1 ch1 (S i) A1); lia.
          - apply (IHq (N.to_nat (apend a1)) ltac:(lia) a1 _ d1 c1 ch1 (S i) A1); lia. }
        destruct Hn as [n Hn]. exists (S n). cbn [C10Api.acend_run]. rewrite Er.
        destruct (N.eqb_spec r 0); [contradiction|]. exact Hn.
    - exists 1%nat. cbn [C10Api.acend_run]. rewrite Er. exact I. }
  intros a em dones cs0 chunks i A. eapply Hgen; eauto.
Qed.

End Term.
