(* The public entry points of streaming compression around ZSTD_compressStream2 (lib/compress/zstd_compress.c):
     ZSTD_compressStream (old API: same call with ZSTD_e_continue, returns the input size hint),
     ZSTD_flushStream / ZSTD_endStream (no input argument: inBuffer_forEndFlush decides which input buffer the call
     presents, ZSTD_keepCallerPosition gives back to stableIn_notConsumed what the call could not compress of the bytes
     it went back over), ZSTD_CCtx_reset(session_only) as far as the buffering layer sees it, and the input-buffer half
     of ZSTD_checkBufferStability (a frame started by a wrapper in stable-input mode records the fabricated {NULL,0,0};
     since fix 9a6b24a that record accepts the first real buffer).
   Built on CStreamModel.kstep (= ZSTD_compressStream2 itself); the block compressor stays a section variable.
   What the caller holds besides the context is part of the state: the position of its ZSTD_inBuffer in the one input
   array X, and how far the last call presented that array (expectedInBuffer.size).
   Model only - no proofs in this file. *)
From Coq Require Import NArith ZArith List Bool.
From ZV.Codec Require Import Bytes.
From ZV.Stream Require Import DStreamModel CStreamModel.
Import ListNotations.
Local Open Scope N_scope.

Inductive aerr := AK (e : kerr) | AStability.       (* AStability: ZSTD_checkBufferStability, input half - produced by the layer of C10Stab.v only *)

Section Api.
Variable CS : Type.
Variable cs_begin : CS -> fconf -> N -> CS.
Variable compress_chunk : CS -> bytes -> bool -> CS * bytes.
Notation kstate := (kstate CS).
Notation kstep := (kstep CS cs_begin compress_chunk).

Record astate := {
  a_k : kstate;
  a_pos : N;        (* input->pos of the caller's ZSTD_inBuffer *)
  a_size : N;       (* expectedInBuffer.size : how far the array was presented by the last call *)
  a_null : bool }.  (* the recorded expectedInBuffer is the fabricated {NULL,0,0} *)

Definition a_new (cs : CS) : astate := {| a_k := k_new cs; a_pos := 0; a_size := 0; a_null := true |}.

Definition is_init (k : kstate) : bool := match k_stage k with KInit => true | _ => false end.

(* inBuffer_forEndFlush (after fix 13b2cf8): true = the wrapper presents the recorded stable buffer, false = {NULL,0,0}.
   Before the frame starts appliedParams still describes the previous frame: deferred input tells a stable buffer is in use *)
Definition wview (k : kstate) : bool :=
  if is_init k then negb (lenN (k_held k) =? 0) else k_appliedSI k.
(* the decision of the code before 13b2cf8, kept for the counter-example of the theorem file *)
Definition wview_applied_only (k : kstate) : bool := k_appliedSI k.

(* ZSTD_keepCallerPosition (fix 62dea3d): [held] = the stableIn_notConsumed bytes before the call, [o] = the result of the
   ZSTD_compressStream2 call made on the private copy.  ko_consumed < 0 = the private position ended below the caller's *)
Definition keep_caller (held : bytes) (o : kout CS) : kstate :=
  let k' := ko_k o in
  if is_init k' then k'
  else if negb (k_appliedSI k') then k'
  else if (ko_consumed o <? 0)%Z then k_set_held k' (dr (lenN held - Z.to_N (- ko_consumed o)) held)
  else k'.

Record aout := {
  ao_a : astate;
  ao_consumed : Z;        (* what the caller sees on its ZSTD_inBuffer (0 for the wrappers: they have no input argument) *)
  ao_out : bytes;
  ao_ret : option N;
  ao_err : option aerr }.

Definition a_fail (a : astate) (e : aerr) : aout :=
  {| ao_a := a; ao_consumed := 0%Z; ao_out := []; ao_ret := None; ao_err := Some e |}.
Definition a_kfail (a : astate) (o : kout CS) : aout :=
  match ko_err o with Some e => a_fail a (AK e) | None => a_fail a (AK (Kimpossible 9)) end.

(* ZSTD_compressStream2(cctx, out, {X, pos + n, pos}, dir) *)
Definition a_call (P : kparams) (fc : fconf) (X : bytes) (a : astate) (n cap : N) (dir : directive) : aout :=
  let k := a_k a in
  let inp := tk n (dr (a_pos a) X) in
  (* ZSTD_checkBufferStability, input half: the caller presents its one array at the position it holds, which is what
     the last call recorded; since fix 9a6b24a a recorded {NULL,0,0} (frame started by a wrapper, [a_null]) accepts the
     first buffer the caller shows, so the check never refuses a call of these histories *)
    let o := kstep P fc k inp cap dir in
    match ko_ret o with
    | None => a_kfail a o
    | Some r =>
        {| ao_a := {| a_k := ko_k o; a_pos := Z.to_N (Z.of_N (a_pos a) + ko_consumed o); a_size := a_pos a + lenN inp; a_null := false |};
           ao_consumed := ko_consumed o; ao_out := ko_out o; ao_ret := Some r; ao_err := None |}
    end.

(* ZSTD_compressStream: the same call with ZSTD_e_continue; a success returns ZSTD_nextInputSizeHint *)
Definition a_stream (P : kparams) (fc : fconf) (X : bytes) (a : astate) (n cap : N) : aout :=
  let o := a_call P fc X a n cap DirContinue in
  match ao_ret o with
  | None => o
  | Some _ => {| ao_a := ao_a o; ao_consumed := ao_consumed o; ao_out := ao_out o; ao_ret := Some (k_hint (a_k (ao_a o))); ao_err := None |}
  end.

(* ZSTD_flushStream(zcs, out) *)
Definition a_flushStream (P : kparams) (fc : fconf) (X : bytes) (a : astate) (cap : N) : aout :=
  let k := a_k a in
  if wview k then
    (* the recorded buffer with size := pos: no new byte, but the stableIn_notConsumed bytes before pos are reachable *)
    let o := kstep P fc k [] cap DirFlush in
    match ko_ret o with
    | None => a_kfail a o
    | Some r =>
        {| ao_a := {| a_k := keep_caller (k_held k) o; a_pos := a_pos a; a_size := a_pos a; a_null := a_null a |};
           ao_consumed := 0%Z; ao_out := ko_out o; ao_ret := Some r; ao_err := None |}
    end
  else
    (* {NULL,0,0}: nothing before pos is reachable (stableIn_notConsumed bytes, if any, are lost) *)
    let o := kstep P fc (k_set_held k []) [] cap DirFlush in
    match ko_ret o with
    | None => a_kfail a o
    | Some r =>
        {| ao_a := {| a_k := ko_k o; a_pos := a_pos a; a_size := a_size a; a_null := true |};
           ao_consumed := 0%Z; ao_out := ko_out o; ao_ret := Some r; ao_err := None |}
    end.

(* the return value of ZSTD_endStream, single-threaded: remaining to flush + last block header + checksum *)
Definition end_ret (k' : kstate) (r ck : N) : N := if k_frameEnded k' then r else r + 3 + 4 * ck.

(* ZSTD_endStream(zcs, out); [ck] = appliedParams.fParams.checksumFlag *)
Definition a_endStream (P : kparams) (fc : fconf) (X : bytes) (a : astate) (cap ck : N) : aout :=
  let k := a_k a in
  if wview k then
    (* the recorded buffer as it is: what the last call presented and did not consume is ingested *)
    let inp := if a_null a then [] else tk (a_size a - a_pos a) (dr (a_pos a) X) in
    let o := kstep P fc k inp cap DirEnd in
    match ko_ret o with
    | None => a_kfail a o
    | Some r =>
        let k' := keep_caller (k_held k) o in
        {| ao_a := {| a_k := k';
                      a_pos := if (ko_consumed o <? 0)%Z then a_pos a else Z.to_N (Z.of_N (a_pos a) + ko_consumed o);
                      a_size := a_size a; a_null := a_null a |};
           ao_consumed := 0%Z; ao_out := ko_out o; ao_ret := Some (end_ret k' r ck); ao_err := None |}
    end
  else
    let o := kstep P fc (k_set_held k []) [] cap DirEnd in
    match ko_ret o with
    | None => a_kfail a o
    | Some r =>
        {| ao_a := {| a_k := ko_k o; a_pos := a_pos a; a_size := a_size a; a_null := true |};
           ao_consumed := 0%Z; ao_out := ko_out o; ao_ret := Some (end_ret (ko_k o) r ck); ao_err := None |}
    end.

(* ZSTD_CCtx_reset(cctx, ZSTD_reset_session_only) (after fix 177647f: the deferred input is forgotten) *)
Definition a_reset (a : astate) : astate :=
  {| a_k := k_set_held (k_session_reset (a_k a)) []; a_pos := a_pos a; a_size := a_size a; a_null := a_null a |}.
(* the code before 177647f, kept for the counter-example of the theorem file *)
Definition a_reset_keeps_held (a : astate) : astate :=
  {| a_k := k_session_reset (a_k a); a_pos := a_pos a; a_size := a_size a; a_null := a_null a |}.

(* ---------- histories over the one input array X ---------- *)
Inductive aop :=
| OCall (n cap : N) (dir : directive) (fc : fconf)
| OStream (n cap : N) (fc : fconf)
| OFlush (cap : N) (fc : fconf)
| OEnd (cap ck : N) (fc : fconf).

Definition aop_fc (op : aop) : fconf :=
  match op with OCall _ _ _ fc => fc | OStream _ _ fc => fc | OFlush _ fc => fc | OEnd _ _ fc => fc end.

Definition astep (P : kparams) (X : bytes) (a : astate) (op : aop) : aout :=
  match op with
  | OCall n cap dir fc => a_call P fc X a n cap dir
  | OStream n cap fc => a_stream P fc X a n cap
  | OFlush cap fc => a_flushStream P fc X a cap
  | OEnd cap ck fc => a_endStream P fc X a cap ck
  end.

Fixpoint arun (P : kparams) (X : bytes) (a : astate) (ops : list aop) (emitted : bytes) : option (astate * bytes) :=
  match ops with
  | [] => Some (a, emitted)
  | op :: t =>
      let o := astep P X a op in
      match ao_ret o with
      | None => None
      | Some _ => arun P X (ao_a o) t (emitted ++ ao_out o)
      end
  end.

(* ---------- driving ZSTD_endStream to completion: call i gets the output capacity [caps i] (round 3) ---------- *)
Inductive aendres := AEDone (ncalls : nat) | AEErr | AEMore (a : astate).
Fixpoint aend_run (P : kparams) (fc : fconf) (X : bytes) (a : astate) (caps : nat -> N) (ck : N) (i n : nat) : aendres :=
  match n with
  | O => AEMore a
  | S n' =>
      let o := a_endStream P fc X a (caps i) ck in
      match ao_ret o with
      | None => AEErr
      | Some r => if r =? 0 then AEDone (S i) else aend_run P fc X (ao_a o) caps ck (S i) n'
      end
  end.

(* driving ZSTD_compressStream2(ZSTD_e_end): call i presents all that remains of X and gets capacity [caps i] *)
Fixpoint acend_run (P : kparams) (fc : fconf) (X : bytes) (a : astate) (caps : nat -> N) (i n : nat) : aendres :=
  match n with
  | O => AEMore a
  | S n' =>
      let o := a_call P fc X a (lenN X) (caps i) DirEnd in
      match ao_ret o with
      | None => AEErr
      | Some r => if r =? 0 then AEDone (S i) else acend_run P fc X (ao_a o) caps (S i) n'
      end
  end.

End Api.

Arguments a_k {CS} a. Arguments a_pos {CS} a. Arguments a_size {CS} a. Arguments a_null {CS} a.
Arguments ao_a {CS} a. Arguments ao_consumed {CS} a. Arguments ao_out {CS} a. Arguments ao_ret {CS} a. Arguments ao_err {CS} a.
Arguments wview {CS} k. Arguments wview_applied_only {CS} k. Arguments is_init {CS} k. Arguments keep_caller {CS}.
Arguments AEDone {CS} ncalls. Arguments AEErr {CS}. Arguments AEMore {CS} a.
Arguments a_new {CS}. Arguments a_reset {CS}. Arguments a_reset_keeps_held {CS}. Arguments end_ret {CS}.
