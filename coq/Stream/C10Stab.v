(* Round 3: the input half of ZSTD_checkBufferStability (lib/compress/zstd_compress.c) on top of the API model C10Api.v.
   C10Api.astate knows the position the caller holds (a_pos) and whether the recorded expectedInBuffer is the fabricated
   {NULL,0,0} (a_null); here the recorded position expectedInBuffer.pos itself is added (s_epos), updated as the code does:
     - ZSTD_compressStream2: the deferral branch records *input (pos = size); otherwise ZSTD_setBufferExpectations records
       *input after the call when appliedParams.inBufferMode is stable;
     - ZSTD_flushStream / ZSTD_endStream: the same on their private copy of the recorded buffer, then
       ZSTD_keepCallerPosition puts the recorded position back to the caller's when the call ended below it (fix 62dea3d);
   and the check itself: a ZSTD_compressStream2 / ZSTD_compressStream call in a frame in progress whose applied input mode is
   stable is refused with stabilityCondition_notRespected unless the recorded buffer is still {NULL,0,0} (fix 9a6b24a:
   noBufferYet) or the recorded position is the one presented (the source pointer is the one input array throughout);
   and the two controls of the transparent-initialisation stage that apply while input is deferred (fix 0548f83).
   The two variants of the code that the repairs replaced are kept as parameters for the counter-examples of the theorem
   file.  Model only - no proofs in this file. *)
From Coq Require Import NArith ZArith List Bool.
From ZV.Codec Require Import Bytes.
From ZV.Stream Require Import DStreamModel CStreamModel C10Api.
Import ListNotations.
Local Open Scope N_scope.

Inductive checkver := CheckNow | CheckPre9a6b24a.     (* ZSTD_checkBufferStability with / without the noBufferYet exemption *)
Inductive keepver := KeepNow | KeepNoPos.             (* ZSTD_keepCallerPosition with / without "expectedInBuffer.pos = callerPos" *)

Section Stab.
Variable CS : Type.
Variable cs_begin : CS -> fconf -> N -> CS.
Variable compress_chunk : CS -> bytes -> bool -> CS * bytes.
Notation kstate := (kstate CS).
Notation kstep := (kstep CS cs_begin compress_chunk).
Notation astate := (astate CS).

Record sstate := { s_a : astate; s_epos : N }.        (* s_epos = expectedInBuffer.pos *)
Definition s_new (cs : CS) : sstate := {| s_a := a_new cs; s_epos := 0 |}.

(* the deferral test of the transparent-initialisation stage of ZSTD_compressStream2 (the expression of CStreamModel.kstep) *)
Definition deferred (P : kparams) (k : kstate) (inp : bytes) (dir : directive) : bool :=
  match k_stage k with
  | KInit => andb (kp_stableIn P) (andb (match dir with DirContinue => true | _ => false end) (lenN inp + lenN (k_held k) <? BLOCKMAX))
  | _ => false
  end.

(* ZSTD_checkBufferStability, input half, for a call that presents {X, ., a_pos}: true = stabilityCondition_notRespected.
   A call that initialises the frame records its own input first, so the check can only refuse in a frame in progress *)
Definition check_refuses (v : checkver) (s : sstate) : bool :=
  let a := s_a s in
  let k := a_k a in
  andb (negb (is_init k)) (andb (k_appliedSI k)
       (if a_null a then match v with CheckNow => false | CheckPre9a6b24a => true end
        else negb (s_epos s =? a_pos a))).

(* the two controls of the transparent-initialisation stage of ZSTD_compressStream2 (since fix 0548f83 for every call made
   while input is deferred, not only for the calls that defer again): same source pointer, and input->pos ==
   expectedInBuffer.size.  A ZSTD_compressStream2 / ZSTD_compressStream call presents {X, ., a_pos}; the wrappers present their
   copy of the recorded buffer, whose position is s_epos (the source pointer is then the recorded one by construction) *)
Definition init_refuses_call (s : sstate) : bool :=
  let a := s_a s in
  let k := a_k a in
  andb (is_init k) (andb (negb (lenN (k_held k) =? 0)) (orb (a_null a) (negb (a_pos a =? a_size a)))).
Definition init_refuses_wrapper (s : sstate) : bool :=
  let a := s_a s in
  let k := a_k a in
  andb (is_init k) (andb (negb (lenN (k_held k) =? 0)) (negb (s_epos s =? a_size a))).
(* any of the three controls would refuse the caller's next call / the next wrapper call *)
Definition refuses_any (v : checkver) (s : sstate) : bool :=
  orb (check_refuses v s) (orb (init_refuses_call s) (init_refuses_wrapper s)).

Record sout := { so_s : sstate; so_o : aout CS; so_refused : bool }.

(* ZSTD_compressStream2 / ZSTD_compressStream *)
Definition s_call_gen (stream : bool) (v : checkver) (P : kparams) (fc : fconf) (X : bytes) (s : sstate) (n cap : N) (dir : directive) : sout :=
  let a := s_a s in
  let inp := tk n (dr (a_pos a) X) in
  if orb (check_refuses v s) (init_refuses_call s) then {| so_s := s; so_o := a_fail CS a AStability; so_refused := true |}
  else
    let o := if stream then a_stream CS cs_begin compress_chunk P fc X a n cap else a_call CS cs_begin compress_chunk P fc X a n cap dir in
    match ao_ret o with
    | None => {| so_s := s; so_o := o; so_refused := false |}
    | Some _ =>
        let a' := ao_a o in
        let recorded := orb (deferred P (a_k a) inp dir) (k_appliedSI (a_k a')) in
        {| so_s := {| s_a := a'; s_epos := if recorded then a_pos a' else s_epos s |}; so_o := o; so_refused := false |}
    end.

(* what the wrappers leave in expectedInBuffer.pos: [ko] = the ZSTD_compressStream2 call made on the private copy of the
   recorded buffer, whose position [base] is the caller's (a_pos), or 0 when the recorded buffer is still {NULL,0,0};
   [p'] = where that copy ended *)
Definition wrapper_epos (kv : keepver) (s : sstate) (ko : kout CS) : N :=
  let a := s_a s in
  let k1 := ko_k ko in
  let base := if a_null a then 0 else a_pos a in
  let p' := Z.to_N (Z.of_N base + ko_consumed ko) in
  let e1 := if k_appliedSI k1 then p' else s_epos s in            (* ZSTD_setBufferExpectations on the private copy *)
  if andb (negb (is_init k1)) (andb (k_appliedSI k1) (p' <? base))
  then match kv with KeepNow => base | KeepNoPos => e1 end          (* ZSTD_keepCallerPosition *)
  else e1.

(* ZSTD_flushStream: it presents the recorded buffer itself, so only the init-stage control on the position applies *)
Definition s_flushStream (kv : keepver) (P : kparams) (fc : fconf) (X : bytes) (s : sstate) (cap : N) : sout :=
  let a := s_a s in
  if init_refuses_wrapper s then {| so_s := s; so_o := a_fail CS a AStability; so_refused := true |} else
  let o := a_flushStream CS cs_begin compress_chunk P fc X a cap in
  match ao_ret o with
  | None => {| so_s := s; so_o := o; so_refused := false |}
  | Some _ =>
      let ep := if wview (a_k a) then wrapper_epos kv s (kstep P fc (a_k a) [] cap DirFlush)
                else 0 in                                             (* {NULL,0,0} *)
      {| so_s := {| s_a := ao_a o; s_epos := ep |}; so_o := o; so_refused := false |}
  end.

(* ZSTD_endStream *)
Definition s_endStream (kv : keepver) (P : kparams) (fc : fconf) (X : bytes) (s : sstate) (cap ck : N) : sout :=
  let a := s_a s in
  if init_refuses_wrapper s then {| so_s := s; so_o := a_fail CS a AStability; so_refused := true |} else
  let o := a_endStream CS cs_begin compress_chunk P fc X a cap ck in
  match ao_ret o with
  | None => {| so_s := s; so_o := o; so_refused := false |}
  | Some _ =>
      let inp := if a_null a then [] else tk (a_size a - a_pos a) (dr (a_pos a) X) in
      let ep := if wview (a_k a) then wrapper_epos kv s (kstep P fc (a_k a) inp cap DirEnd)
                else 0 in
      {| so_s := {| s_a := ao_a o; s_epos := ep |}; so_o := o; so_refused := false |}
  end.

Definition sstep (v : checkver) (kv : keepver) (P : kparams) (X : bytes) (s : sstate) (op : aop) : sout :=
  match op with
  | OCall n cap dir fc => s_call_gen false v P fc X s n cap dir
  | OStream n cap fc => s_call_gen true v P fc X s n cap DirContinue
  | OFlush cap fc => s_flushStream kv P fc X s cap
  | OEnd cap ck fc => s_endStream kv P fc X s cap ck
  end.

(* a history: None = some call failed for another reason (the history stops there); Some (s, refused) = final state and
   whether any call was refused by the stability check *)
Fixpoint srun (v : checkver) (kv : keepver) (P : kparams) (X : bytes) (s : sstate) (ops : list aop) : option (sstate * bool) :=
  match ops with
  | [] => Some (s, false)
  | op :: t =>
      let r := sstep v kv P X s op in
      if so_refused r then Some (s, true)
      else match ao_ret (so_o r) with
           | None => None
           | Some _ => srun v kv P X (so_s r) t
           end
  end.

End Stab.

Arguments s_a {CS} s. Arguments s_epos {CS} s. Arguments s_new {CS}. Arguments check_refuses {CS}.
Arguments init_refuses_call {CS}. Arguments init_refuses_wrapper {CS}. Arguments refuses_any {CS}.
Arguments so_s {CS} s. Arguments so_o {CS} s. Arguments so_refused {CS} s. Arguments deferred {CS}.
