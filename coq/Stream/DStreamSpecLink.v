(* The executable stream specification of DStreamModel.v ([spec_decode] = strict one-shot decoding of every frame,
   unlimited output) accepts only streams that satisfy the declarative specification [SValid], with the same content. *)
From Coq Require Import NArith ZArith List Bool Lia PeanoNat.
From ZV.Codec Require Import Bytes ListLemmas.
From ZV.Gen Require Import Gen_Stream.
From ZV.Stream Require Import DStreamModel StreamLemmas.
From ZV.Stream Require Import DStreamSpec DStreamHeader DStreamSV DStreamShortcut.
Import ListNotations.
Local Open Scope N_scope.

Ltac Zify.zify_post_hook ::= Z.div_mod_to_equations.

Section Link.
Variable H : Type.
Variable b_init : H.
Variable b_raw : H -> bytes -> H.
Variable b_rle : H -> N -> N -> H.
Variable b_cblock : N -> N -> H -> bytes -> res (H * bytes).
Variable b_hash : bytes -> N.
Hypothesis b_cblock_window : forall w1 w2 bm h s, b_cblock w1 bm h s = b_cblock w2 bm h s.
(* a compressed block has at least a literals header and a sequence count: the block decoder refuses an empty payload *)
Hypothesis b_cblock_empty : forall w bm h, exists c s, b_cblock w bm h [] = Err c s.

Notation block_at := (block_at H b_raw b_rle b_cblock).
Notation blocks := (blocks H b_raw b_rle b_cblock).
Notation SValid := (SValid H b_init b_raw b_rle b_cblock b_hash).
Notation frame_blocks := (frame_blocks H b_raw b_rle b_cblock).
Notation decompress_frame := (decompress_frame H b_init b_raw b_rle b_cblock b_hash).
Notation decompress_multi := (decompress_multi H b_init b_raw b_rle b_cblock b_hash).
Notation spec_decode := (spec_decode H b_init b_raw b_rle b_cblock b_hash).

(* the strict block loop yields the declarative block list *)
Lemma frame_blocks_blocks fpS fp : fp_blockMax fp = fp_blockMax fpS ->
  forall fuel h src cap acc l rest cap',
    frame_blocks fuel true fp h src cap acc = MOk (l, rest, cap') ->
    exists chunks, l = rev acc ++ chunks /\ blocks fpS h src chunks rest.
Proof.
  intros Hbm. induction fuel as [|f IH]; intros h src cap acc l rest cap' Hrun; [discriminate|].
  cbn [DStreamModel.frame_blocks] in Hrun. minv Hrun.
  apply N.ltb_ge in G.
  rename a into bp. apply N.ltb_ge in G0.
  set (pl := tk (bp_csize bp) (dr BHS src)) in *. set (rest0 := dr (bp_csize bp) (dr BHS src)) in *.
  destruct a0 as [h' out]. minv Hrun. rename G1 into Gs.
  cbn [andb] in Gs. apply N.ltb_ge in Gs.
  assert (Hfacts : (match bp_type bp with BtRle => bp_orig bp | _ => bp_csize bp end) <= fp_blockMax fpS /\
            match bp_type bp with
            | BtCompressed => bp_csize bp <> 0 /\ b_cblock (fp_window fpS) (fp_blockMax fpS) h pl = Ok (h', out)
            | BtRaw => h' = (if bp_csize bp =? 0 then h else b_raw h pl) /\ out = pl
            | BtRle => h' = b_rle h (nthN pl 0 0) (bp_orig bp) /\ out = repeat_byte (nthN pl 0 0) (bp_orig bp)
            | BtReserved => False
            end).
  { destruct (bp_type bp) eqn:Et.
    - cbn [andb] in E0. minv E0. inversion E0; subst h' out. apply N.ltb_ge in G1. rewrite <- Hbm. split; [exact G1|split; reflexivity].
    - minv E0. inversion E0; subst h' out. rewrite repeat_byte_len in Gs. rewrite <- Hbm. split; [exact Gs|split; reflexivity].
    - minv E0. apply N.ltb_ge in G1. destruct a as [h2 o2]. cbn [snd] in *. inversion E0; subst h2 o2.
      unfold of_res in E1. destruct (b_cblock (fp_window fp) (fp_blockMax fp) h pl) as [[h3 o3]|c s] eqn:Eb; [|discriminate].
      inversion E1; subst h3 o3. rewrite <- Hbm. split; [exact G1|]. split.
      + intros Hz. assert (Hpl0 : pl = []) by (unfold pl; rewrite Hz; reflexivity).
        rewrite Hpl0 in Eb. destruct (b_cblock_empty (fp_window fp) (fp_blockMax fp) h) as (c & s & Ee). rewrite Ee in Eb. discriminate.
      + rewrite (b_cblock_window (fp_window fpS) (fp_window fp)). exact Eb.
    - discriminate. }
  destruct Hfacts as [Hcm Hbody].
  assert (BA : block_at fpS h src bp pl out h' rest0).
  { constructor; auto. rewrite <- Hbm. exact Gs. }
  destruct (bp_last bp) eqn:El.
  - inversion Hrun; subst. exists [out]. rewrite rev'_rev. cbn [rev]. split; [reflexivity|].
    eapply blocks_last; eauto.
  - destruct (IH _ _ _ _ _ _ _ Hrun) as (chunks & Hl & HB). exists (out :: chunks). split.
    + rewrite Hl. cbn [rev]. rewrite <- app_assoc. reflexivity.
    + eapply blocks_more; eauto.
Qed.

Lemma fhs_app ml (x y : bytes) : prefix_len ml <= lenN x -> frame_header_size ml (x ++ y) = frame_header_size ml x.
Proof.
  intros Hl. unfold frame_header_size. rewrite nthN_app_l; [reflexivity|]. destruct ml; cbv [prefix_len s_PREFIX_magicless s_PREFIX_zstd1] in *; lia.
Qed.

(* the strict multi-frame loop accepts only valid streams *)
Lemma multi_svalid P : forall fuel src cap more acc l,
  decompress_multi fuel true P src cap more acc = MOk l ->
  exists content, SValid P src content /\ concat l = concat (rev acc) ++ content.
Proof.
  induction fuel as [|f IH]; intros src cap more acc l Hrun; [discriminate|].
  cbn [DStreamModel.decompress_multi] in Hrun.
  set (ml := dp_magicless P) in *.
  destruct (lenN src <? prefix_len ml) eqn:Epl.
  - (* end of the stream *)
    minv Hrun. apply negb_false_iff, N.eqb_eq, lenN_zero_nil in G. subst src. inversion Hrun; subst l.
    exists []. split; [apply SV_nil|]. rewrite rev'_rev, app_nil_r. reflexivity.
  - apply N.ltb_ge in Epl.
    destruct (andb (negb ml) (andb (4 <=? lenN src) (is_skip_magic (le32 src)))) eqn:Esk.
    + (* skippable frame *)
      apply andb_prop in Esk. destruct Esk as [Eml Esk]. apply andb_prop in Esk. destruct Esk as [_ Emagic].
      apply negb_true_iff in Eml.
      minv Hrun. unfold skippable_size in E. minv E. inversion E; subst a. clear E.
      apply N.ltb_ge in G, G1.
      destruct (IH _ _ _ _ _ Hrun) as (content & HS & Hc).
      exists content. split; [|exact Hc].
      eapply SV_skip with (n := sub_le src s_ZSTD_FRAMEIDSIZE 4); auto.
    + (* Zstandard frame *)
      destruct (decompress_frame true P src cap) as [[[chunks rest] cap1]|e] eqn:Ef; [|discriminate].
      destruct (IH _ _ _ _ _ Hrun) as (content & HS & Hc).
      unfold DStreamModel.decompress_frame in Ef. fold ml in Ef. minv Ef.
      apply N.ltb_ge in G, G0. rename a into fp0. destruct a0 as [[chunks0 rest0] cap0]. cbn [andb] in G1.
      apply mguard_ok in Ef. destruct Ef as [G3 Ef].
      apply N.ltb_ge in G1.
      unfold decode_fheader in E. fold ml in E.
      destruct (get_fheader ml (tk (frame_header_size ml src) src)) as [e|n|fpx] eqn:Eg; try discriminate.
      minv E. inversion E; subst fpx. apply negb_false_iff, N.eqb_eq in G2.
      set (hs := frame_header_size ml src) in *.
      pose proof (fhs_ge ml src) as Hge. fold hs in Hge.
      (* the magic number *)
      assert (Hmagic : ml = false -> le32 src = ZMAGIC).
      { intros Eml. rewrite Eml in *. change (prefix_len false) with 5 in *.
        assert (Hns : is_skip_magic (le32 src) = false).
        { cbn [negb andb] in Esk. replace (4 <=? lenN src) with true in Esk by (symmetry; apply N.leb_le; lia). exact Esk. }
        unfold get_fheader in Eg. rewrite len_tk in Eg.
        replace (N.min hs (lenN src) <? prefix_len false) with false in Eg by (symmetry; apply N.ltb_ge; change (prefix_len false) with 5; lia).
        rewrite le32_tk in Eg by lia. cbn [negb andb] in Eg.
        destruct (le32 src =? ZMAGIC) eqn:Em; [apply N.eqb_eq; exact Em|]. cbn [negb] in Eg. rewrite Hns in Eg. discriminate. }
      destruct (frame_blocks_blocks (sfp P fp0) (clamp_block P fp0) (clamp_blockMax P fp0) _ _ _ _ _ _ _ _ E0) as (chunks1 & Hl1 & HB).
      cbn [rev app] in Hl1. subst chunks0.
      destruct (clamp_fcs P fp0) as (Ef1 & Ef2 & Ec1 & Ec2).
      (* end of the frame *)
      assert (HFE : exists crest1, frame_end b_hash (SValid P) P (sfp P fp0) (concat chunks1) rest0 crest1 /\
                      crest1 = content /\ chunks = chunks1).
      { rewrite Ef1 in G3. rewrite Ec1 in Ef.
        assert (Hfcs : fp_fcs fp0 = UNKNOWN \/ lenN (concat chunks1) = fp_fcs fp0).
        { apply andb_false_iff in G3. destruct G3 as [X|X].
          - left. apply negb_false_iff, N.eqb_eq in X. exact X.
          - right. apply negb_false_iff, N.eqb_eq in X. exact X. }
        destruct (fp_checksum fp0) eqn:Eck.
        - apply mguard_ok in Ef. destruct Ef as [G4 Ef]. apply mguard_ok in Ef. destruct Ef as [G5 Ef].
          inversion Ef; subst chunks rest cap1. apply N.ltb_ge in G4.
          exists content. split; [|split; reflexivity].
          split; [rewrite Ef2; exact Hfcs|]. exists (dr 4 rest0). rewrite Ec2. split; [|exact HS].
          split; [exact G4|]. split; [reflexivity|].
          apply andb_false_iff in G5. destruct G5 as [X|X].
          + left. apply negb_false_iff in X. exact X.
          + right. apply negb_false_iff, N.eqb_eq in X. exact X.
        - inversion Ef; subst chunks rest cap1. exists content. split; [|split; reflexivity].
          split; [rewrite Ef2; exact Hfcs|]. exists rest0. rewrite Ec2. split; [reflexivity|exact HS]. }
      destruct HFE as (crest1 & HFE & -> & ->).
      exists (concat chunks1 ++ content). split.
      * eapply SV_frame with (fp0 := fp0); fold ml; fold hs; eauto; try lia; try (unfold BHS in *; lia).
      * rewrite Hc, rev_append_rev, rev_app_distr, rev_involutive, concat_app, <- app_assoc. reflexivity.
Qed.

(* SPEC: whatever the executable specification accepts is a valid stream with that content *)
Theorem spec_decode_svalid P src content : spec_decode P src = MOk content -> SValid P src content.
Proof.
  unfold DStreamModel.spec_decode. intros Hs. minv Hs. inversion Hs; subst content.
  destruct (multi_svalid P _ _ _ _ _ _ E) as (c & HS & Hc). cbn [rev concat app] in Hc. rewrite Hc. exact HS.
Qed.

End Link.
