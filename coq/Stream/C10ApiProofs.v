(* Proofs about the public entry points of streaming compression (C10Api.v): the wrappers never drop input that was
   reported as consumed, a completed ZSTD_flushStream / ZSTD_endStream leaves nothing behind, histories mixing the four
   entry points keep the partition invariant of CStreamProofs (so a completed flush is decodable at the API level too). *)
From Coq Require Import NArith ZArith List Bool Lia PeanoNat.
From ZV.Codec Require Import Bytes ListLemmas.
From ZV.Stream Require Import DStreamModel CStreamModel StreamLemmas CStreamProofs.
From ZV.Stream Require Import C10Api.
Import ListNotations.
Local Open Scope N_scope.

Section ApiProofs.
Variable CS : Type.
Variable cs_begin : CS -> fconf -> N -> CS.
Variable compress_chunk : CS -> bytes -> bool -> CS * bytes.

Notation kstate := (kstate CS).
Notation kstep := (kstep CS cs_begin compress_chunk).
Notation SI := (SI CS compress_chunk).
Notation HInv := (HInv CS cs_begin compress_chunk).

(* the state with the stableIn_notConsumed bytes taken out: they are presented again in front of the input instead *)
Definition norm (k : kstate) : kstate := k_set_held k [].

(* ---------- in stable-input mode, bytes held back are just input presented again ---------- *)
Lemma norm_stage (k : kstate) : k_stage (norm k) = k_stage k. Proof. reflexivity. Qed.
Lemma norm_held (k : kstate) : k_held (norm k) = []. Proof. reflexivity. Qed.
Lemma norm_expect (k : kstate) : k_expectOut (norm k) = k_expectOut k. Proof. reflexivity. Qed.
Lemma norm_set_held (k : kstate) x : k_set_held (norm k) x = k_set_held k x. Proof. reflexivity. Qed.
Lemma init_norm P fc pl (k : kstate) c x :
  k_set_held (k_set_expect (k_init CS cs_begin P fc pl (norm k)) c) x = k_set_held (k_set_expect (k_init CS cs_begin P fc pl k) c) x.
Proof. reflexivity. Qed.
Lemma init_held P fc pl (k : kstate) c : k_held (k_set_expect (k_init CS cs_begin P fc pl k) c) = k_held k.
Proof. reflexivity. Qed.
Lemma init_expect P fc pl (k : kstate) c : k_expectOut (k_set_expect (k_init CS cs_begin P fc pl k) c) = c.
Proof. reflexivity. Qed.

Lemma kstep_norm P fc (k : kstate) inp cap dir :
  kp_stableIn P = true ->
  let o := kstep P fc k inp cap dir in
  let o' := kstep P fc (norm k) (k_held k ++ inp) cap dir in
  ko_ret o' = ko_ret o /\ ko_out o' = ko_out o /\ ko_err o' = ko_err o /\
  (ko_ret o <> None -> ko_k o' = ko_k o /\ ko_consumed o' = (ko_consumed o + Z.of_N (lenN (k_held k)))%Z).
Proof.
  intros HP. unfold CStreamModel.kstep. cbv zeta.
  rewrite norm_stage, norm_held, HP.
  replace (lenN (k_held k ++ inp) + lenN (@nil N)) with (lenN inp + lenN (k_held k))
    by (rewrite lenN_app; change (lenN (@nil N)) with 0; lia).
  destruct (k_stage k) eqn:Est.
  - (* KInit *)
    cbn [andb].
    destruct (match dir with DirContinue => true | _ => false end && (lenN inp + lenN (k_held k) <? BLOCKMAX)) eqn:Eearly.
    + cbn [ko_ret ko_out ko_err ko_k ko_consumed]. rewrite norm_set_held. cbn [app].
      repeat split; try reflexivity; try congruence; rewrite lenN_app; lia.
    + set (pl := if match dir with DirEnd => true | _ => false end then lenN inp + lenN (k_held k) else fc_pledge fc).
      rewrite !init_expect, !init_held, norm_held, init_norm. cbn [app].
      destruct (kp_stableOut P && negb (cap =? cap)).
      * cbn [ko_ret ko_out ko_err]. repeat split; try reflexivity; try congruence.
      * destruct (CStreamModel.g_loop CS compress_chunk _ P dir _) as [g|g|e]; cbn [ko_ret ko_out ko_err ko_k ko_consumed].
        -- repeat split; try reflexivity; try congruence.
        -- repeat split; try reflexivity; try congruence. rewrite ?lenN_nil; lia.
        -- repeat split; try reflexivity; try congruence.
  - (* KLoad *)
    rewrite norm_expect, norm_set_held, ?norm_held. cbn [app].
    destruct (kp_stableOut P && negb (k_expectOut k =? cap)).
    + cbn [ko_ret ko_out ko_err]. repeat split; try reflexivity; try congruence.
    + destruct (CStreamModel.g_loop CS compress_chunk _ P dir _) as [g|g|e]; cbn [ko_ret ko_out ko_err ko_k ko_consumed].
      * repeat split; try reflexivity; try congruence.
      * repeat split; try reflexivity; try congruence; rewrite ?lenN_nil; lia.
      * repeat split; try reflexivity; try congruence.
  - (* KFlush *)
    rewrite norm_expect, norm_set_held, ?norm_held. cbn [app].
    destruct (kp_stableOut P && negb (k_expectOut k =? cap)).
    + cbn [ko_ret ko_out ko_err]. repeat split; try reflexivity; try congruence.
    + destruct (CStreamModel.g_loop CS compress_chunk _ P dir _) as [g|g|e]; cbn [ko_ret ko_out ko_err ko_k ko_consumed].
      * repeat split; try reflexivity; try congruence.
      * repeat split; try reflexivity; try congruence; rewrite ?lenN_nil; lia.
      * repeat split; try reflexivity; try congruence.
Qed.

Lemma kstep_norm_nil P fc (k : kstate) inp cap dir :
  k_held k = [] ->
  let o := kstep P fc k inp cap dir in
  let o' := kstep P fc (norm k) (k_held k ++ inp) cap dir in
  ko_ret o' = ko_ret o /\ ko_out o' = ko_out o /\ ko_err o' = ko_err o /\
  (ko_ret o <> None -> ko_k o' = ko_k o /\ ko_consumed o' = (ko_consumed o + Z.of_N (lenN (k_held k)))%Z).
Proof.
  intros Hh. unfold CStreamModel.kstep. cbv zeta.
  rewrite norm_stage, norm_held, Hh. cbn [app].
  destruct (k_stage k) eqn:Est.
  - destruct (kp_stableIn P && _) eqn:Eearly.
    + cbn [ko_ret ko_out ko_err ko_k ko_consumed]. rewrite norm_set_held.
      repeat split; try reflexivity; try congruence; rewrite ?lenN_nil; lia.
    + rewrite !init_expect, !init_held, norm_held, init_norm, Hh. cbn [app].
      destruct (kp_stableOut P && negb (cap =? cap)).
      * cbn [ko_ret ko_out ko_err]. repeat split; try reflexivity; try congruence.
      * replace (if kp_stableIn P then inp else inp) with inp by (destruct (kp_stableIn P); reflexivity).
        destruct (CStreamModel.g_loop CS compress_chunk _ P dir _) as [g|g|e]; cbn [ko_ret ko_out ko_err ko_k ko_consumed].
        -- repeat split; try reflexivity; try congruence.
        -- repeat split; try reflexivity; try congruence; rewrite ?lenN_nil; lia.
        -- repeat split; try reflexivity; try congruence.
  - rewrite norm_expect, norm_set_held, ?norm_held, Hh. cbn [app].
    destruct (kp_stableOut P && negb (k_expectOut k =? cap)).
    + cbn [ko_ret ko_out ko_err]. repeat split; try reflexivity; try congruence.
    + replace (if kp_stableIn P then inp else inp) with inp by (destruct (kp_stableIn P); reflexivity).
      destruct (CStreamModel.g_loop CS compress_chunk _ P dir _) as [g|g|e]; cbn [ko_ret ko_out ko_err ko_k ko_consumed].
      * repeat split; try reflexivity; try congruence.
      * repeat split; try reflexivity; try congruence; rewrite ?lenN_nil; lia.
      * repeat split; try reflexivity; try congruence.
  - rewrite norm_expect, norm_set_held, ?norm_held, Hh. cbn [app].
    destruct (kp_stableOut P && negb (k_expectOut k =? cap)).
    + cbn [ko_ret ko_out ko_err]. repeat split; try reflexivity; try congruence.
    + replace (if kp_stableIn P then inp else inp) with inp by (destruct (kp_stableIn P); reflexivity).
      destruct (CStreamModel.g_loop CS compress_chunk _ P dir _) as [g|g|e]; cbn [ko_ret ko_out ko_err ko_k ko_consumed].
      * repeat split; try reflexivity; try congruence.
      * repeat split; try reflexivity; try congruence; rewrite ?lenN_nil; lia.
      * repeat split; try reflexivity; try congruence.
Qed.

(* ---------- simple facts about one call, independent of the buffering invariant ---------- *)
Notation gstate := (gstate CS).
Notation g_flush := (@g_flush CS).
Notation g_compress := (g_compress CS compress_chunk).
Notation g_load := (g_load CS compress_chunk).
Notation g_iter := (g_iter CS compress_chunk).
Notation g_loop := (g_loop CS compress_chunk).

(* a frame that is closed has taken all the input of the call *)
Definition J (g : gstate) : Prop := k_frameEnded (g_k g) = true -> g_in g = [].

Definition res_core (jin : Prop) (b : bool) (ipsum : N) (g' : gstate) : Prop :=
  k_appliedSI (g_k g') = b /\ (jin -> J g') /\ g_ip g' + lenN (g_in g') = ipsum.
(* [hd]: the held bytes are touched by a ZSTD_e_continue stop only *)
Definition res_ok (jin : Prop) (b : bool) (ipsum : N) (dir : directive) (hd : bytes) (r : gres CS) : Prop :=
  match r with
  | GCont g' => res_core jin b ipsum g' /\ k_stage (g_k g') <> KInit /\ k_held (g_k g') = hd
  | GStop g' => res_core jin b ipsum g' /\ (k_stage (g_k g') = KInit -> k_frameEnded (g_k g') = true) /\
                (dir <> DirContinue -> k_held (g_k g') = hd)
  | GErr _ => True
  end.
Lemma res_ok_weaken (j1 j2 : Prop) b s dir hd r : (j2 -> j1) -> res_ok j1 b s dir hd r -> res_ok j2 b s dir hd r.
Proof. intros H. destruct r; cbn [res_ok]; unfold res_core; tauto. Qed.

Ltac res_close := cbn [res_ok]; unfold res_core, J in *; ksimp; repeat split; auto; try congruence; try (intros; discriminate).

Lemma g_flush_ok (g : gstate) :
  k_stage (g_k g) <> KInit -> forall dir, res_ok (J g) (k_appliedSI (g_k g)) (g_ip g + lenN (g_in g)) dir (k_held (g_k g)) (g_flush g).
Proof.
  intros Hst dir. unfold CStreamModel.g_flush. cbv zeta.
  destruct (negb _); [res_close|].
  destruct (k_frameEnded (g_k g)) eqn:Efe; res_close.
Qed.

Lemma g_compress_ok P dir (g : gstate) :
  k_stage (g_k g) <> KInit -> res_ok True (k_appliedSI (g_k g)) (g_ip g + lenN (g_in g)) dir (k_held (g_k g)) (g_compress P dir g).
Proof.
  intros Hst. unfold CStreamModel.g_compress. cbv zeta.
  set (buffered := negb (kp_stableIn P)).
  set (iSize := if buffered then k_inBuffPos (g_k g) - k_inToCompress (g_k g) else N.min (lenN (g_in g)) (k_blockSize (g_k g))).
  set (rest := if buffered then g_in g else dr iSize (g_in g)).
  set (ip' := if buffered then g_ip g else g_ip g + iSize).
  set (isEnd := match dir with DirEnd => true | _ => false end).
  set (lastBlock := isEnd && (lenN rest =? 0)).
  assert (Hsum : ip' + lenN rest = g_ip g + lenN (g_in g)).
  { unfold ip', rest, iSize. destruct buffered; [reflexivity|]. rewrite len_dr. lia. }
  assert (HJr : lastBlock = true -> rest = []).
  { unfold lastBlock. intros E. apply andb_prop in E. destruct E as [_ E]. apply N.eqb_eq in E. apply lenN_zero_nil. exact E. }
  clearbody lastBlock ip' rest.
  destruct (compress_chunk (k_cs (g_k g)) (if buffered then k_inPend (g_k g) else tk iSize (g_in g)) lastBlock) as [cs' cout].
  destruct (_ <? lenN cout); [exact I|].
  match goal with |- context [if fits_bound _ _ || _ then (if lastBlock then GStop (g_mk (k_session_reset ?K) _ _ _ _) else _) else _] => set (k2 := K) end.
  assert (Hk2 : k_appliedSI k2 = k_appliedSI (g_k g) /\ k_frameEnded k2 = lastBlock /\ k_stage k2 = k_stage (g_k g) /\ k_held k2 = k_held (g_k g)).
  { unfold k2. destruct buffered; [destruct (_ <? _)|]; ksimp; repeat split; reflexivity. }
  destruct Hk2 as (Ha2 & Hf2 & Hs2 & Hh2). clearbody k2.
  destruct (fits_bound (g_ocap g) iSize || kp_stableOut P).
  - destruct lastBlock eqn:El; res_close.
  - set (G := g_mk (k_set_out k2 KFlush (lenN cout) 0 cout) rest ip' (g_out g) (g_ocap g)).
    assert (HstG : k_stage (g_k G) <> KInit) by (unfold G; ksimp; discriminate).
    pose proof (g_flush_ok G HstG dir) as H.
    change (k_appliedSI (g_k G)) with (k_appliedSI k2) in H.
    change (g_ip G + lenN (g_in G)) with (ip' + lenN rest) in H.
    change (k_held (g_k G)) with (k_held k2) in H.
    rewrite Ha2, Hsum, Hh2 in H. apply res_ok_weaken with (j1 := J G); [|exact H].
    intros _. unfold J, G. ksimp. rewrite Hf2. exact HJr.
Qed.

Lemma g_load_ok P dir (g : gstate) :
  k_stage (g_k g) = KLoad -> res_ok (J g) (k_appliedSI (g_k g)) (g_ip g + lenN (g_in g)) dir (k_held (g_k g)) (g_load P dir g).
Proof.
  intros Hst. assert (Hne : k_stage (g_k g) <> KInit) by congruence.
  unfold CStreamModel.g_load. cbv zeta.
  destruct (_ && (_ && (k_inBuffPos (g_k g) =? 0))).
  - (* shortcut *)
    destruct (compress_chunk (k_cs (g_k g)) (g_in g) true) as [cs' cout].
    destruct (_ <? lenN cout); [exact I|]. res_close. rewrite ?lenN_nil. lia.
  - destruct (negb (kp_stableIn P)).
    + set (loaded := N.min (k_inBuffTarget (g_k g) - k_inBuffPos (g_k g)) (lenN (g_in g))).
      set (g1 := g_mk (k_set_in (g_k g) (k_inBuffPos (g_k g) + loaded) (k_inToCompress (g_k g)) (k_inBuffTarget (g_k g))
                          (k_inPend (g_k g) ++ tk loaded (g_in g))) (dr loaded (g_in g)) (g_ip g + loaded) (g_out g) (g_ocap g)).
      assert (Hs1 : g_ip g1 + lenN (g_in g1) = g_ip g + lenN (g_in g)).
      { unfold g1. ksimp. rewrite len_dr. unfold loaded. lia. }
      assert (Ha1 : k_appliedSI (g_k g1) = k_appliedSI (g_k g)) by reflexivity.
      assert (Hst1 : k_stage (g_k g1) = k_stage (g_k g)) by reflexivity.
      assert (HJ1 : J g -> J g1).
      { unfold J, g1 in *. ksimp. intros HJ E. rewrite (HJ E). unfold dr. destruct (N.to_nat loaded); reflexivity. }
      assert (Hh1 : k_held (g_k g1) = k_held (g_k g)) by reflexivity.
      assert (H1 : res_ok (J g) (k_appliedSI (g_k g)) (g_ip g + lenN (g_in g)) dir (k_held (g_k g)) (GStop g1)).
      { cbn [res_ok]. unfold res_core. rewrite Ha1, Hs1, Hst1, Hh1. repeat split; auto; try congruence. }
      assert (H2 : res_ok (J g) (k_appliedSI (g_k g)) (g_ip g + lenN (g_in g)) dir (k_held (g_k g)) (g_compress P dir g1)).
      { rewrite <- Ha1, <- Hs1, <- Hh1. apply res_ok_weaken with (j1 := True); [auto|]. apply g_compress_ok. rewrite Hst1. exact Hne. }
      clearbody g1.
      destruct dir; [destruct (_ <? _)|destruct (_ =? _)|]; assumption.
    + assert (H2 : res_ok (J g) (k_appliedSI (g_k g)) (g_ip g + lenN (g_in g)) dir (k_held (g_k g)) (g_compress P dir g)).
      { apply res_ok_weaken with (j1 := True); [auto|]. apply g_compress_ok; exact Hne. }
      destruct dir; [destruct (_ <? _)|destruct (_ =? _)|]; try assumption.
      * res_close. rewrite ?lenN_nil. lia.
      * res_close.
Qed.

Lemma g_iter_ok P dir (g : gstate) :
  k_stage (g_k g) <> KInit -> res_ok (J g) (k_appliedSI (g_k g)) (g_ip g + lenN (g_in g)) dir (k_held (g_k g)) (g_iter P dir g).
Proof.
  intros Hst. unfold CStreamModel.g_iter. destruct (k_stage (g_k g)) eqn:E; [congruence| |].
  - apply g_load_ok; assumption.
  - apply g_flush_ok; congruence.
Qed.

Lemma g_loop_ok P dir : forall fuel (g : gstate),
  k_stage (g_k g) <> KInit -> res_ok (J g) (k_appliedSI (g_k g)) (g_ip g + lenN (g_in g)) dir (k_held (g_k g)) (g_loop fuel P dir g).
Proof.
  induction fuel as [|f IH]; intros g Hst; [exact I|].
  cbn [CStreamModel.g_loop]. pose proof (g_iter_ok P dir g Hst) as H.
  destruct (g_iter P dir g) as [g'|g'|e]; [|exact H|exact I].
  cbn [res_ok] in H. destruct H as ((Ha & HJ' & Hs) & Hi & Hh).
  rewrite <- Ha, <- Hs, <- Hh. apply res_ok_weaken with (j1 := J g'); [exact HJ'|]. apply IH; assumption.
Qed.

(* what a successful ZSTD_compressStream2 call does to the facts the wrappers rely on *)
Lemma kstep_facts P fc (k : kstate) inp cap dir r :
  let o := kstep P fc k inp cap dir in
  ko_ret o = Some r ->
  (k_stage (ko_k o) <> KInit -> k_appliedSI (ko_k o) = if is_init k then kp_stableIn P else k_appliedSI k) /\
  ((k_stage k <> KInit -> k_frameEnded k = true -> k_held k = []) ->
   k_stage (ko_k o) = KInit \/ k_frameEnded (ko_k o) = true -> (0 <= ko_consumed o)%Z) /\
  (dir <> DirContinue -> k_held (ko_k o) = []).
Proof.
  unfold CStreamModel.kstep. cbv zeta.
  set (total := lenN inp + lenN (k_held k)).
  destruct (match k_stage k with KInit => _ | _ => false end) eqn:Eearly.
  - (* deferred *)
    cbn [ko_ret ko_k ko_consumed]. intros _. destruct (k_stage k) eqn:Est; try discriminate.
    split; [ksimp; congruence|]. split; [intros _ _; lia|].
    intros Hd. apply andb_prop in Eearly. destruct Eearly as [_ E]. apply andb_prop in E. destruct E as [E _].
    destruct dir; congruence.
  - set (k0 := match k_stage k with KInit => _ | _ => k end).
    destruct (kp_stableOut P && negb (k_expectOut k0 =? cap)); [discriminate|].
    set (I0 := if kp_stableIn P then k_held k0 ++ inp else inp).
    set (g0 := g_mk (k_set_held k0 []) I0 0 [] cap).
    assert (Hst0 : k_stage (g_k g0) <> KInit).
    { unfold g0, k0, k_init. ksimp. destruct (k_stage k) eqn:Est; ksimp; congruence. }
    assert (Ha0 : k_appliedSI (g_k g0) = if is_init k then kp_stableIn P else k_appliedSI k).
    { unfold g0, k0, is_init, k_init. ksimp. destruct (k_stage k); reflexivity. }
    assert (Hh0 : k_held k0 = k_held k).
    { unfold k0. destruct (k_stage k); reflexivity. }
    assert (Hf0 : k_frameEnded (g_k g0) = true -> k_stage k <> KInit /\ k_frameEnded k = true).
    { unfold g0, k0, k_init. ksimp. destruct (k_stage k) eqn:Est; ksimp; intros E; try discriminate; split; congruence. }
    assert (HI0 : lenN (if kp_stableIn P then k_held k0 else []) <= lenN I0).
    { unfold I0. destruct (kp_stableIn P); [rewrite lenN_app|rewrite lenN_nil]; lia. }
    pose proof (g_loop_ok P dir (kfuel (length (g_in g0))) g0 Hst0) as HL.
    change (g_ip g0 + lenN (g_in g0)) with (0 + lenN I0) in HL.
    match goal with |- context [CStreamModel.g_loop CS compress_chunk ?f P dir ?g] =>
      change (CStreamModel.g_loop CS compress_chunk f P dir g) with (g_loop (kfuel (length (g_in g0))) P dir g0) end.
    destruct (g_loop (kfuel (length (g_in g0))) P dir g0) as [g'|g'|e]; try discriminate.
    cbn [res_ok] in HL. destruct HL as ((Ha & HJ & Hs) & Hi & Hhd).
    cbn [ko_ret ko_k ko_consumed]. intros _. split; [|split].
    + intros _. ksimp. rewrite Ha. exact Ha0.
    + intros HF Hend. ksimp.
      destruct (k_frameEnded (g_k g0)) eqn:Efe0.
      * destruct (Hf0 eq_refl) as [Hne Hfe]. rewrite Hh0, (HF Hne Hfe).
        destruct (kp_stableIn P); rewrite ?lenN_nil; lia.
      * assert (HJ' : J g') by (apply HJ; unfold J; rewrite Efe0; discriminate).
        assert (Hfe' : k_frameEnded (g_k g') = true) by (destruct Hend as [E|E]; [apply Hi; exact E|exact E]).
        rewrite (HJ' Hfe'), lenN_nil in Hs.
        destruct (kp_stableIn P); rewrite ?lenN_nil in *; lia.
    + intros Hd. ksimp. rewrite (Hhd Hd). unfold g0. ksimp. reflexivity.
Qed.

(* ---------- list facts ---------- *)
Lemma prefix_of_tk (X A B : bytes) pos : tk pos X = A ++ B -> pos <= lenN X -> tk (lenN A) X = A /\ lenN A + lenN B = pos.
Proof.
  intros E Hle. assert (Hl : lenN A + lenN B = pos).
  { apply (f_equal lenN) in E. rewrite len_tk, lenN_app in E. lia. }
  split; [|exact Hl].
  rewrite <- (tk_dr pos X), E, <- app_assoc. apply tk_app_exact.
Qed.
Lemma dr_of_tk (X h : bytes) l pos : tk pos X = tk l X ++ h -> l <= lenN X -> dr l X = h ++ dr pos X.
Proof.
  intros E Hl. pose proof (tk_dr pos X) as E1. rewrite E, <- app_assoc in E1.
  pose proof (tk_dr l X) as E2. rewrite <- E2 in E1 at 3. apply app_inv_head in E1. symmetry. exact E1.
Qed.
Lemma tk_app_more (a b : bytes) n : tk (lenN a + n) (a ++ b) = a ++ tk n b.
Proof. rewrite <- (tk_tk_dr (lenN a) n (a ++ b)), tk_app_exact, dr_app_exact. reflexivity. Qed.

(* ---------- the buffering invariants survive taking the held bytes out ---------- *)
Lemma SI_norm P cs0 chunks (k : kstate) : SI P cs0 chunks k -> SI P cs0 chunks (norm k).
Proof.
  intros [K HS Hh Hf]. unfold norm. constructor; ksimp; auto.
  - destruct K. constructor; ksimp; auto.
  - intros E. split; [apply Hf; exact E|reflexivity].
Qed.

Lemma HInv_norm P X pos em (k : kstate) dones cs0 chunks :
  HInv P X pos em k dones cs0 chunks ->
  HInv P X (pos - lenN (k_held k)) em (norm k) dones cs0 chunks /\
  tk pos X = tk (pos - lenN (k_held k)) X ++ k_held k /\ lenN (k_held k) <= pos.
Proof.
  intros [HS Hin Hpos Hout Hdone Hbeg].
  set (A := frames_in CS dones ++ chunks_in chunks ++ k_inPend k).
  assert (HA : tk pos X = A ++ k_held k) by (unfold A; rewrite Hin, <- !app_assoc; reflexivity).
  destruct (prefix_of_tk X A (k_held k) pos HA Hpos) as [HtA Hl].
  assert (Hp : pos - lenN (k_held k) = lenN A) by lia.
  rewrite Hp. split; [|split; [rewrite HtA; exact HA|lia]].
  constructor; auto.
  - apply SI_norm. exact HS.
  - rewrite HtA. unfold A, norm. ksimp. rewrite app_nil_r. reflexivity.
  - lia.
Qed.

(* ---------- the invariant of API-level histories ---------- *)
Record AInv (P : kparams) (X : bytes) (a : astate CS) (em : bytes)
            (dones : list (CS * list (bytes * bool))) (cs0 : CS) (chunks : list (bytes * bool)) : Prop := {
  ai_h : HInv P X (a_pos a - lenN (k_held (a_k a))) em (norm (a_k a)) dones cs0 chunks;
  ai_held : tk (a_pos a) X = tk (a_pos a - lenN (k_held (a_k a))) X ++ k_held (a_k a);
  ai_le : lenN (k_held (a_k a)) <= a_pos a;
  ai_pos : a_pos a <= lenN X;
  ai_stable : kp_stableIn P = false -> k_held (a_k a) = [];
  ai_applied : k_stage (a_k a) <> KInit -> k_appliedSI (a_k a) = kp_stableIn P;
  ai_ended : k_stage (a_k a) <> KInit -> k_frameEnded (a_k a) = true -> k_held (a_k a) = [] }.

Lemma AInv_new P X cs : AInv P X (a_new cs) [] [] cs [].
Proof.
  pose proof (HInv_new CS cs_begin compress_chunk P X cs) as H.
  destruct (HInv_norm _ _ _ _ _ _ _ _ H) as (H1 & H2 & H3).
  constructor; cbn [a_new a_k a_pos]; auto; try (cbn; congruence).
  cbn. lia.
Qed.

Lemma AInv_of_HInv P X p em (k : kstate) dones cs0 chunks sz nl :
  HInv P X p em k dones cs0 chunks ->
  (k_stage k <> KInit -> k_appliedSI k = kp_stableIn P) ->
  AInv P X {| a_k := k; a_pos := p; a_size := sz; a_null := nl |} em dones cs0 chunks.
Proof.
  intros H Ha. destruct (HInv_norm _ _ _ _ _ _ _ _ H) as (H1 & H2 & H3).
  destruct H as [HS Hin Hpos Hout Hdone Hbeg].
  constructor; cbn [a_k a_pos]; auto.
  - apply (si_held _ _ _ _ _ _ HS).
  - intros Hne Hfe. destruct (k_stage k) eqn:Est; [congruence| |].
    + pose proof (ki_load _ _ _ _ _ _ (si_ki _ _ _ _ _ _ HS) Est) as [_ E]. congruence.
    + apply (si_flush _ _ _ _ _ _ HS Est).
Qed.

(* one ZSTD_compressStream2 call from a state of an API-level history *)
Lemma AInv_kstep P X (a : astate CS) em dones cs0 chunks fc n cap dir r :
  AInv P X a em dones cs0 chunks -> 1 <= fc_maxBlock fc ->
  let inp := tk n (dr (a_pos a) X) in
  let o := kstep P fc (a_k a) inp cap dir in
  ko_ret o = Some r ->
  (exists dones' cs0' chunks',
     HInv P X (Z.to_N (Z.of_N (a_pos a) + ko_consumed o)) (em ++ ko_out o) (ko_k o) dones' cs0' chunks') /\
  (- Z.of_N (lenN (k_held (a_k a))) <= ko_consumed o <= Z.of_N (lenN inp))%Z /\
  (dir <> DirContinue -> k_stage (ko_k o) <> KInit -> k_held (ko_k o) = []).
Proof.
  intros [Hh Hheld Hle Hpos Hst Happ Hend] Hmb inp o Hret.
  set (k := a_k a) in *. set (h := k_held k) in *. set (l := a_pos a - lenN h) in *.
  (* the same call on the normalised state *)
  assert (Hn : let o' := kstep P fc (norm k) (h ++ inp) cap dir in
               ko_ret o' = ko_ret o /\ ko_out o' = ko_out o /\ ko_err o' = ko_err o /\
               (ko_ret o <> None -> ko_k o' = ko_k o /\ ko_consumed o' = (ko_consumed o + Z.of_N (lenN h))%Z)).
  { destruct (kp_stableIn P) eqn:HP.
    - apply kstep_norm. exact HP.
    - apply kstep_norm_nil. apply Hst. reflexivity. }
  cbv zeta in Hn. set (o' := kstep P fc (norm k) (h ++ inp) cap dir) in *.
  destruct Hn as (Er & Eo & _ & Ek). rewrite Hret in Er. destruct (Ek ltac:(congruence)) as [Ekk Ec].
  assert (Hl : l <= lenN X) by (unfold l; lia).
  assert (Hinp : tk (lenN h + n) (dr l X) = h ++ inp).
  { rewrite (dr_of_tk X h l (a_pos a) Hheld Hl). apply tk_app_more. }
  (* the history invariant *)
  pose proof (HInv_step CS cs_begin compress_chunk P X l em (norm k) dones cs0 chunks
                {| kc_n := lenN h + n; kc_cap := cap; kc_dir := dir; kc_fc := fc |} r Hh Hmb) as HS.
  cbn [kc_n kc_cap kc_dir kc_fc] in HS. rewrite Hinp in HS. fold o' in HS. specialize (HS Er).
  destruct HS as (d1 & c1 & ch1 & HI).
  rewrite Ekk, Eo in HI.
  replace (Z.to_N (Z.of_N l + ko_consumed o')) with (Z.to_N (Z.of_N (a_pos a) + ko_consumed o)) in HI by (rewrite Ec; unfold l; lia).
  split; [exists d1, c1, ch1; exact HI|].
  (* bounds and the stop reason, from the per-call specification *)
  pose proof (kstep_spec CS cs_begin compress_chunk P fc cs0 chunks (norm k) (h ++ inp) cap dir
                (hi_si _ _ _ _ _ _ _ _ _ _ _ Hh) Hmb) as HK.
  cbv zeta in HK. fold o' in HK. rewrite Er in HK.
  destruct HK as (cs1 & c1' & c2 & taken & rest & capleft & _ & S' & _ & Hsplit & Hcons & _ & _ & _ & _ & Hstop).
  rewrite norm_held in Hsplit, Hcons. cbn [app] in Hsplit. rewrite lenN_nil in Hcons.
  assert (Hlen : lenN taken + lenN rest = lenN h + lenN inp).
  { apply (f_equal lenN) in Hsplit. rewrite !lenN_app in Hsplit. lia. }
  split; [lia|].
  intros Hd Hne. rewrite <- Ekk.
  destruct Hstop as [H1 H2 H3|H1 H2 H3 H4|H1 H2 H3 H4|H1 H2 H3 H4 H5 H6|H1 H2 H3 H4]; try congruence.
  apply (si_flush _ _ _ _ _ _ S' H1).
Qed.

(* ---------- W1: the wrappers never present {NULL,0,0} while input reported as consumed is still owed ---------- *)
Theorem wrappers_keep_deferred P X (a : astate CS) em dones cs0 chunks :
  AInv P X a em dones cs0 chunks -> wview (a_k a) = false -> k_held (a_k a) = [].
Proof.
  intros A Hv. unfold wview, is_init in Hv. destruct (k_stage (a_k a)) eqn:Est.
  - apply negb_false_iff in Hv. apply N.eqb_eq in Hv. apply lenN_zero_nil. exact Hv.
  - apply (ai_stable _ _ _ _ _ _ _ A). rewrite <- (ai_applied _ _ _ _ _ _ _ A) by congruence. exact Hv.
  - apply (ai_stable _ _ _ _ _ _ _ A). rewrite <- (ai_applied _ _ _ _ _ _ _ A) by congruence. exact Hv.
Qed.

Lemma applied_after P X (a : astate CS) em dones cs0 chunks fc inp cap dir r :
  AInv P X a em dones cs0 chunks ->
  let o := kstep P fc (a_k a) inp cap dir in
  ko_ret o = Some r -> k_stage (ko_k o) <> KInit -> k_appliedSI (ko_k o) = kp_stableIn P.
Proof.
  intros A o Hret Hne. destruct (kstep_facts P fc (a_k a) inp cap dir r Hret) as [Fa _].
  fold o in Fa. rewrite (Fa Hne). unfold is_init. destruct (k_stage (a_k a)) eqn:Est; [reflexivity| |];
    apply (ai_applied _ _ _ _ _ _ _ A); congruence.
Qed.

Lemma a_kfail_ret (a : astate CS) (o : kout CS) : ao_ret (a_kfail CS a o) = None.
Proof. unfold a_kfail. destruct (ko_err o); reflexivity. Qed.

(* ZSTD_compressStream2 / ZSTD_compressStream *)
Lemma AInv_call P X (a : astate CS) em dones cs0 chunks fc n cap dir r :
  AInv P X a em dones cs0 chunks -> 1 <= fc_maxBlock fc ->
  let o := a_call CS cs_begin compress_chunk P fc X a n cap dir in
  ao_ret o = Some r ->
  exists dones' cs0' chunks', AInv P X (ao_a o) (em ++ ao_out o) dones' cs0' chunks'.
Proof.
  intros A Hmb. unfold a_call. cbv zeta.
  destruct (ko_ret (kstep P fc (a_k a) (tk n (dr (a_pos a) X)) cap dir)) as [r'|] eqn:Er; [|rewrite a_kfail_ret; discriminate].
  cbn [ao_ret ao_a ao_out]. intros _.
  destruct (AInv_kstep P X a em dones cs0 chunks fc n cap dir r' A Hmb Er) as ((d1 & c1 & ch1 & HI) & _ & _).
  exists d1, c1, ch1. apply AInv_of_HInv; [exact HI|].
  apply (applied_after P X a em dones cs0 chunks fc _ cap dir r' A Er).
Qed.

(* ZSTD_keepCallerPosition gives back [m] bytes of the held input: the invariant at the caller's position *)
Lemma rehold P X (a : astate CS) em dones cs0 chunks (k' : kstate) em' d1 c1 ch1 m sz nl :
  AInv P X a em dones cs0 chunks ->
  HInv P X (a_pos a - m) em' k' d1 c1 ch1 -> k_held k' = [] ->
  m <= lenN (k_held (a_k a)) ->
  k_appliedSI k' = kp_stableIn P -> kp_stableIn P = true -> k_frameEnded k' = false ->
  AInv P X {| a_k := k_set_held k' (dr (lenN (k_held (a_k a)) - m) (k_held (a_k a))); a_pos := a_pos a; a_size := sz; a_null := nl |}
       em' d1 c1 ch1.
Proof.
  intros [Hh Hheld Hle Hpos Hst Happ Hend] HI Hh' Hm Hap HP Hfe.
  set (h := k_held (a_k a)) in *. set (owed := dr (lenN h - m) h).
  assert (Hlo : lenN owed = m) by (unfold owed; rewrite len_dr; lia).
  destruct (HInv_norm _ _ _ _ _ _ _ _ HI) as (HIn & _ & _). rewrite Hh', lenN_nil, N.sub_0_r in HIn.
  set (A := tk (a_pos a - lenN h) X ++ tk (lenN h - m) h).
  assert (HA : tk (a_pos a) X = A ++ owed).
  { unfold A, owed. rewrite <- app_assoc, tk_dr. exact Hheld. }
  destruct (prefix_of_tk X A owed (a_pos a) HA Hpos) as [HtA HlA].
  assert (HlA' : lenN A = a_pos a - m) by lia.
  constructor; cbn [a_k a_pos]; ksimp; fold owed.
  - rewrite Hlo. exact HIn.
  - rewrite Hlo, <- HlA', HtA. exact HA.
  - lia.
  - exact Hpos.
  - congruence.
  - intros _. exact Hap.
  - intros _ E. congruence.
Qed.

(* the common part of ZSTD_flushStream / ZSTD_endStream when they present the recorded stable buffer *)
Lemma keep_step P X (a : astate CS) em dones cs0 chunks fc n cap dir r sz nl :
  AInv P X a em dones cs0 chunks -> 1 <= fc_maxBlock fc -> dir <> DirContinue ->
  let o := kstep P fc (a_k a) (tk n (dr (a_pos a) X)) cap dir in
  ko_ret o = Some r ->
  exists dones' cs0' chunks',
    AInv P X {| a_k := keep_caller (k_held (a_k a)) o;
                a_pos := if (ko_consumed o <? 0)%Z then a_pos a else Z.to_N (Z.of_N (a_pos a) + ko_consumed o);
                a_size := sz; a_null := nl |} (em ++ ko_out o) dones' cs0' chunks'.
Proof.
  intros A Hmb Hdir o Hret.
  destruct (AInv_kstep P X a em dones cs0 chunks fc n cap dir r A Hmb Hret) as ((d1 & c1 & ch1 & HI) & Hb & Hh0).
  fold o in HI, Hb, Hh0. specialize (Hh0 Hdir).
  destruct (kstep_facts P fc (a_k a) _ cap dir r Hret) as (_ & Fe & _). fold o in Fe.
  specialize (Fe (ai_ended _ _ _ _ _ _ _ A)).
  pose proof (applied_after P X a em dones cs0 chunks fc _ cap dir r A Hret) as Fa. fold o in Fa.
  exists d1, c1, ch1.
  assert (Hplain : (0 <= ko_consumed o)%Z ->
            AInv P X {| a_k := ko_k o; a_pos := if (ko_consumed o <? 0)%Z then a_pos a else Z.to_N (Z.of_N (a_pos a) + ko_consumed o);
                        a_size := sz; a_null := nl |} (em ++ ko_out o) d1 c1 ch1).
  { intros H0. destruct (Z.ltb_spec (ko_consumed o) 0); [lia|]. apply AInv_of_HInv; assumption. }
  assert (Hre : k_stage (ko_k o) <> KInit -> k_appliedSI (ko_k o) = true -> (ko_consumed o < 0)%Z ->
            AInv P X {| a_k := k_set_held (ko_k o) (dr (lenN (k_held (a_k a)) - Z.to_N (- ko_consumed o)) (k_held (a_k a)));
                        a_pos := a_pos a; a_size := sz; a_null := nl |} (em ++ ko_out o) d1 c1 ch1).
  { intros Hne Eap Hneg. apply rehold with (em := em) (dones := dones) (cs0 := cs0) (chunks := chunks).
    - exact A.
    - replace (a_pos a - Z.to_N (- ko_consumed o)) with (Z.to_N (Z.of_N (a_pos a) + ko_consumed o)) by lia. exact HI.
    - apply Hh0. exact Hne.
    - lia.
    - apply Fa. exact Hne.
    - rewrite <- (Fa Hne). exact Eap.
    - destruct (k_frameEnded (ko_k o)) eqn:Efe; [|reflexivity]. specialize (Fe (or_intror eq_refl)). lia. }
  unfold keep_caller. cbv zeta. unfold is_init.
  destruct (k_stage (ko_k o)) eqn:Est'.
  - apply Hplain. apply Fe. left. reflexivity.
  - destruct (k_appliedSI (ko_k o)) eqn:Eap; cbn [negb].
    2:{ apply Hplain. rewrite (ai_stable _ _ _ _ _ _ _ A) in Hb by (rewrite <- Fa by congruence; reflexivity). rewrite lenN_nil in Hb. lia. }
    destruct (Z.ltb_spec (ko_consumed o) 0) as [Hneg|Hpos].
    + apply Hre; [congruence|reflexivity|exact Hneg].
    + specialize (Hplain Hpos). destruct (Z.ltb_spec (ko_consumed o) 0); [lia|exact Hplain].
  - destruct (k_appliedSI (ko_k o)) eqn:Eap; cbn [negb].
    2:{ apply Hplain. rewrite (ai_stable _ _ _ _ _ _ _ A) in Hb by (rewrite <- Fa by congruence; reflexivity). rewrite lenN_nil in Hb. lia. }
    destruct (Z.ltb_spec (ko_consumed o) 0) as [Hneg|Hpos].
    + apply Hre; [congruence|reflexivity|exact Hneg].
    + specialize (Hplain Hpos). destruct (Z.ltb_spec (ko_consumed o) 0); [lia|exact Hplain].
Qed.

(* the state with nothing held (what the wrappers act on when they present {NULL,0,0}) is a state of the history as well *)
Lemma AInv_nothing_held P X (a : astate CS) em dones cs0 chunks :
  AInv P X a em dones cs0 chunks -> k_held (a_k a) = [] ->
  AInv P X {| a_k := k_set_held (a_k a) []; a_pos := a_pos a; a_size := a_size a; a_null := a_null a |} em dones cs0 chunks.
Proof.
  intros [Hh Hheld Hle Hpos Hst Happ Hend] E. rewrite E in *.
  constructor; cbn [a_k a_pos]; ksimp; auto.
Qed.

Lemma null_step P X (a : astate CS) em dones cs0 chunks fc cap dir r sz nl :
  AInv P X a em dones cs0 chunks -> 1 <= fc_maxBlock fc -> wview (a_k a) = false ->
  let o := kstep P fc (k_set_held (a_k a) []) [] cap dir in
  ko_ret o = Some r ->
  exists dones' cs0' chunks',
    AInv P X {| a_k := ko_k o; a_pos := a_pos a; a_size := sz; a_null := nl |} (em ++ ko_out o) dones' cs0' chunks'.
Proof.
  intros A Hmb Hv o Hret.
  pose proof (AInv_nothing_held P X a em dones cs0 chunks A (wrappers_keep_deferred P X a em dones cs0 chunks A Hv)) as A0.
  set (a0 := {| a_k := k_set_held (a_k a) []; a_pos := a_pos a; a_size := a_size a; a_null := a_null a |}) in *.
  assert (Hret0 : ko_ret (kstep P fc (a_k a0) (tk 0 (dr (a_pos a0) X)) cap dir) = Some r) by (rewrite tk_0; exact Hret).
  destruct (AInv_kstep P X a0 em dones cs0 chunks fc 0 cap dir r A0 Hmb Hret0) as ((d1 & c1 & ch1 & HI) & Hb & _).
  rewrite tk_0 in HI, Hb. cbn [a0 a_k a_pos] in HI, Hb. ksimp. fold o in HI, Hb. rewrite lenN_nil in Hb.
  assert (E0 : ko_consumed o = 0%Z) by lia. rewrite E0, Z.add_0_r, N2Z.id in HI.
  exists d1, c1, ch1. apply AInv_of_HInv; [exact HI|].
  apply (applied_after P X a0 em dones cs0 chunks fc [] cap dir r A0 Hret).
Qed.

(* ZSTD_flushStream *)
Lemma AInv_flushStream P X (a : astate CS) em dones cs0 chunks fc cap r :
  AInv P X a em dones cs0 chunks -> 1 <= fc_maxBlock fc ->
  let o := a_flushStream CS cs_begin compress_chunk P fc X a cap in
  ao_ret o = Some r ->
  exists dones' cs0' chunks', AInv P X (ao_a o) (em ++ ao_out o) dones' cs0' chunks'.
Proof.
  intros A Hmb. unfold a_flushStream. cbv zeta. destruct (wview (a_k a)) eqn:Hv.
  - destruct (ko_ret (kstep P fc (a_k a) [] cap DirFlush)) as [r'|] eqn:Er; [|rewrite a_kfail_ret; discriminate].
    cbn [ao_ret ao_a ao_out]. intros _.
    assert (Er0 : ko_ret (kstep P fc (a_k a) (tk 0 (dr (a_pos a) X)) cap DirFlush) = Some r') by (rewrite tk_0; exact Er).
    destruct (keep_step P X a em dones cs0 chunks fc 0 cap DirFlush r' (a_pos a) (a_null a) A Hmb ltac:(discriminate) Er0) as (d1 & c1 & ch1 & A1).
    destruct (AInv_kstep P X a em dones cs0 chunks fc 0 cap DirFlush r' A Hmb Er0) as (_ & Hb & _).
    rewrite tk_0 in A1, Hb. rewrite lenN_nil in Hb.
    replace (if (ko_consumed (kstep P fc (a_k a) [] cap DirFlush) <? 0)%Z then a_pos a
             else Z.to_N (Z.of_N (a_pos a) + ko_consumed (kstep P fc (a_k a) [] cap DirFlush))) with (a_pos a) in A1
      by (destruct (Z.ltb_spec (ko_consumed (kstep P fc (a_k a) [] cap DirFlush)) 0); lia).
    exists d1, c1, ch1. exact A1.
  - destruct (ko_ret (kstep P fc (k_set_held (a_k a) []) [] cap DirFlush)) as [r'|] eqn:Er; [|rewrite a_kfail_ret; discriminate].
    cbn [ao_ret ao_a ao_out]. intros _.
    apply (null_step P X a em dones cs0 chunks fc cap DirFlush r' (a_size a) true A Hmb Hv Er).
Qed.

(* ZSTD_endStream *)
Lemma AInv_endStream P X (a : astate CS) em dones cs0 chunks fc cap ck r :
  AInv P X a em dones cs0 chunks -> 1 <= fc_maxBlock fc ->
  let o := a_endStream CS cs_begin compress_chunk P fc X a cap ck in
  ao_ret o = Some r ->
  exists dones' cs0' chunks', AInv P X (ao_a o) (em ++ ao_out o) dones' cs0' chunks'.
Proof.
  intros A Hmb. unfold a_endStream. cbv zeta. destruct (wview (a_k a)) eqn:Hv.
  - set (n := if a_null a then 0 else a_size a - a_pos a).
    replace (if a_null a then [] else tk (a_size a - a_pos a) (dr (a_pos a) X)) with (tk n (dr (a_pos a) X))
      by (unfold n; destruct (a_null a); [apply tk_0|reflexivity]).
    destruct (ko_ret (kstep P fc (a_k a) (tk n (dr (a_pos a) X)) cap DirEnd)) as [r'|] eqn:Er; [|rewrite a_kfail_ret; discriminate].
    cbn [ao_ret ao_a ao_out]. intros _.
    apply (keep_step P X a em dones cs0 chunks fc n cap DirEnd r' (a_size a) (a_null a) A Hmb ltac:(discriminate) Er).
  - destruct (ko_ret (kstep P fc (k_set_held (a_k a) []) [] cap DirEnd)) as [r'|] eqn:Er; [|rewrite a_kfail_ret; discriminate].
    cbn [ao_ret ao_a ao_out]. intros _.
    apply (null_step P X a em dones cs0 chunks fc cap DirEnd r' (a_size a) true A Hmb Hv Er).
Qed.

(* ---------- every history mixing the four entry points keeps the invariant ---------- *)
Definition ops_ok (ops : list aop) : Prop := Forall (fun op => 1 <= fc_maxBlock (aop_fc op)) ops.
Notation astep := (astep CS cs_begin compress_chunk).
Notation arun := (arun CS cs_begin compress_chunk).

Lemma AInv_step P X (a : astate CS) em dones cs0 chunks op r :
  AInv P X a em dones cs0 chunks -> 1 <= fc_maxBlock (aop_fc op) ->
  ao_ret (astep P X a op) = Some r ->
  exists dones' cs0' chunks', AInv P X (ao_a (astep P X a op)) (em ++ ao_out (astep P X a op)) dones' cs0' chunks'.
Proof.
  intros A Hmb. destruct op as [n cap dir fc|n cap fc|cap fc|cap ck fc]; cbn [C10Api.astep aop_fc] in *.
  - intros Hr. apply (AInv_call P X a em dones cs0 chunks fc n cap dir r A Hmb Hr).
  - unfold a_stream. cbv zeta.
    destruct (ao_ret (a_call CS cs_begin compress_chunk P fc X a n cap DirContinue)) as [r'|] eqn:Er; [|congruence].
    cbn [ao_ret ao_a ao_out]. intros _. apply (AInv_call P X a em dones cs0 chunks fc n cap DirContinue r' A Hmb Er).
  - intros Hr. apply (AInv_flushStream P X a em dones cs0 chunks fc cap r A Hmb Hr).
  - intros Hr. apply (AInv_endStream P X a em dones cs0 chunks fc cap ck r A Hmb Hr).
Qed.

Theorem api_invariant P X : forall ops (a : astate CS) em dones cs0 chunks a' em',
  AInv P X a em dones cs0 chunks -> ops_ok ops ->
  arun P X a ops em = Some (a', em') ->
  exists dones' cs0' chunks', AInv P X a' em' dones' cs0' chunks'.
Proof.
  induction ops as [|op t IH]; intros a em dones cs0 chunks a' em' A Hok Hrun.
  - cbn in Hrun. inversion Hrun; subst. eauto.
  - cbn [C10Api.arun] in Hrun. inversion Hok as [|op' t' Hop Ht]; subst.
    destruct (ao_ret (astep P X a op)) as [r|] eqn:Er; [|discriminate].
    destruct (AInv_step P X a em dones cs0 chunks op r A Hop Er) as (d1 & c1 & ch1 & A1).
    eapply IH; eauto.
Qed.

(* ---------- per-call theorems at the level of the public entry points ---------- *)

(* the same call on the state with the held bytes presented again (any input mode) *)
Lemma norm_call P X (a : astate CS) em dones cs0 chunks fc inp cap dir :
  AInv P X a em dones cs0 chunks ->
  let o := kstep P fc (a_k a) inp cap dir in
  let o' := kstep P fc (norm (a_k a)) (k_held (a_k a) ++ inp) cap dir in
  ko_ret o' = ko_ret o /\ ko_out o' = ko_out o /\ ko_err o' = ko_err o /\
  (ko_ret o <> None -> ko_k o' = ko_k o /\ ko_consumed o' = (ko_consumed o + Z.of_N (lenN (k_held (a_k a))))%Z).
Proof.
  intros A. destruct (kp_stableIn P) eqn:HP.
  - apply kstep_norm. exact HP.
  - apply kstep_norm_nil. apply (ai_stable _ _ _ _ _ _ _ A). exact HP.
Qed.

Lemma keep_caller_same (h : bytes) (o : kout CS) : (0 <= ko_consumed o)%Z -> keep_caller h o = ko_k o.
Proof.
  intros H. unfold keep_caller. cbv zeta. destruct (is_init (ko_k o)); [reflexivity|].
  destruct (negb (k_appliedSI (ko_k o))); [reflexivity|]. destruct (Z.ltb_spec (ko_consumed o) 0); [lia|reflexivity].
Qed.
Lemma keep_caller_fields (h : bytes) (o : kout CS) :
  k_inPend (keep_caller h o) = k_inPend (ko_k o) /\ k_outPend (keep_caller h o) = k_outPend (ko_k o) /\
  k_stage (keep_caller h o) = k_stage (ko_k o) /\ k_frameEnded (keep_caller h o) = k_frameEnded (ko_k o).
Proof.
  unfold keep_caller. cbv zeta. destruct (is_init (ko_k o)); [auto|].
  destruct (negb (k_appliedSI (ko_k o))); [auto|]. destruct (_ <? _)%Z; ksimp; auto.
Qed.

(* a ZSTD_compressStream2 / ZSTD_compressStream call that is given input and room takes input (possibly input that was
   reported as consumed before and is only compressed now), or produces output, or completes the frame *)
Theorem api_call_progress P X (a : astate CS) em dones cs0 chunks fc n cap dir r :
  AInv P X a em dones cs0 chunks -> 1 <= fc_maxBlock fc ->
  tk n (dr (a_pos a) X) <> [] -> 0 < cap ->
  let o := a_call CS cs_begin compress_chunk P fc X a n cap dir in
  ao_ret o = Some r ->
  (0 < ao_consumed o + Z.of_N (lenN (k_held (a_k a))))%Z \/ ao_out o <> [] \/
  (k_stage (a_k (ao_a o)) = KInit /\ k_frameEnded (a_k (ao_a o)) = true).
Proof.
  intros A Hmb Hinp Hcap. unfold a_call. cbv zeta.
  set (inp := tk n (dr (a_pos a) X)) in *.
  destruct (ko_ret (kstep P fc (a_k a) inp cap dir)) as [r'|] eqn:Er; [|rewrite a_kfail_ret; discriminate].
  cbn [ao_ret ao_a ao_out ao_consumed a_k]. intros _.
  destruct (norm_call P X a em dones cs0 chunks fc inp cap dir A) as (E1 & E2 & _ & E4).
  rewrite Er in E1. destruct (E4 ltac:(congruence)) as [Ek Ec].
  pose proof (cstream_progress CS cs_begin compress_chunk P fc cs0 chunks (norm (a_k a)) (k_held (a_k a) ++ inp) cap dir r'
                (hi_si _ _ _ _ _ _ _ _ _ _ _ (ai_h _ _ _ _ _ _ _ A)) Hmb) as HP.
  cbv zeta in HP. rewrite Ek, E2, Ec in HP. apply HP; [|exact Hcap|exact E1].
  intros E. apply app_eq_nil in E. tauto.
Qed.

(* ZSTD_flushStream returned 0: nothing is pending on either side and nothing that was reported as consumed is still owed *)
Theorem api_flushStream_complete P X (a : astate CS) em dones cs0 chunks fc cap :
  AInv P X a em dones cs0 chunks -> 1 <= fc_maxBlock fc ->
  let o := a_flushStream CS cs_begin compress_chunk P fc X a cap in
  ao_ret o = Some 0 ->
  k_inPend (a_k (ao_a o)) = [] /\ k_outPend (a_k (ao_a o)) = [] /\
  (k_stage (a_k (ao_a o)) = KLoad -> k_held (a_k (ao_a o)) = []).
Proof.
  intros A Hmb. unfold a_flushStream. cbv zeta. destruct (wview (a_k a)) eqn:Hv.
  - destruct (ko_ret (kstep P fc (a_k a) [] cap DirFlush)) as [r'|] eqn:Er; [|rewrite a_kfail_ret; discriminate].
    cbn [ao_ret ao_a a_k]. intros E. inversion E; subst r'.
    destruct (norm_call P X a em dones cs0 chunks fc [] cap DirFlush A) as (E1 & _ & _ & E4).
    rewrite Er in E1. destruct (E4 ltac:(congruence)) as [Ek Ec].
    pose proof (cstream_flush_complete CS cs_begin compress_chunk P fc cs0 chunks (norm (a_k a)) (k_held (a_k a) ++ []) cap
                  (hi_si _ _ _ _ _ _ _ _ _ _ _ (ai_h _ _ _ _ _ _ _ A)) Hmb E1) as (Hi & Ho & Hl).
    rewrite Ek in Hi, Ho, Hl.
    destruct (keep_caller_fields (k_held (a_k a)) (kstep P fc (a_k a) [] cap DirFlush)) as (F1 & F2 & F3 & _).
    rewrite F1, F2, F3. split; [exact Hi|split; [exact Ho|]].
    intros Est. destruct (Hl Est) as [Hh Hc]. rewrite Ec, app_nil_r in Hc.
    rewrite keep_caller_same by lia. exact Hh.
  - destruct (ko_ret (kstep P fc (k_set_held (a_k a) []) [] cap DirFlush)) as [r'|] eqn:Er; [|rewrite a_kfail_ret; discriminate].
    cbn [ao_ret ao_a a_k]. intros E. inversion E; subst r'.
    pose proof (cstream_flush_complete CS cs_begin compress_chunk P fc cs0 chunks (norm (a_k a)) [] cap
                  (hi_si _ _ _ _ _ _ _ _ _ _ _ (ai_h _ _ _ _ _ _ _ A)) Hmb Er) as (Hi & Ho & Hl).
    split; [exact Hi|split; [exact Ho|]]. intros Est. apply Hl. exact Est.
Qed.

(* an unfinished ZSTD_endStream call has filled the whole output buffer it was given *)
Theorem api_endStream_fills_output P X (a : astate CS) em dones cs0 chunks fc cap ck r :
  AInv P X a em dones cs0 chunks -> 1 <= fc_maxBlock fc ->
  let o := a_endStream CS cs_begin compress_chunk P fc X a cap ck in
  ao_ret o = Some r -> r <> 0 -> lenN (ao_out o) = cap.
Proof.
  intros A Hmb. unfold a_endStream. cbv zeta. destruct (wview (a_k a)) eqn:Hv.
  - set (inp := if a_null a then [] else tk (a_size a - a_pos a) (dr (a_pos a) X)).
    destruct (ko_ret (kstep P fc (a_k a) inp cap DirEnd)) as [r'|] eqn:Er; [|rewrite a_kfail_ret; discriminate].
    cbn [ao_ret ao_out]. intros E Hr. inversion E as [E']; clear E.
    destruct (norm_call P X a em dones cs0 chunks fc inp cap DirEnd A) as (E1 & E2 & _ & E4).
    rewrite Er in E1. destruct (E4 ltac:(congruence)) as [Ek Ec].
    pose proof (hi_si _ _ _ _ _ _ _ _ _ _ _ (ai_h _ _ _ _ _ _ _ A)) as S.
    rewrite <- E2.
    destruct (N.eq_dec r' 0) as [->|Hr'].
    + exfalso. apply Hr. rewrite <- E'.
      destruct (cstream_end_complete CS cs_begin compress_chunk P fc cs0 chunks (norm (a_k a)) _ cap S Hmb E1)
        as (cs1 & ch2 & _ & _ & Hst & Hfe & _).
      rewrite Ek in Hst, Hfe. unfold end_ret.
      destruct (keep_caller_fields (k_held (a_k a)) (kstep P fc (a_k a) inp cap DirEnd)) as (_ & _ & _ & F4).
      rewrite F4, Hfe. reflexivity.
    + apply (cstream_end_fills_output CS cs_begin compress_chunk P fc cs0 chunks (norm (a_k a)) _ cap r' S Hmb E1 Hr').
  - destruct (ko_ret (kstep P fc (k_set_held (a_k a) []) [] cap DirEnd)) as [r'|] eqn:Er; [|rewrite a_kfail_ret; discriminate].
    cbn [ao_ret ao_out]. intros E Hr. inversion E as [E']; clear E.
    pose proof (hi_si _ _ _ _ _ _ _ _ _ _ _ (ai_h _ _ _ _ _ _ _ A)) as S.
    destruct (N.eq_dec r' 0) as [->|Hr'].
    + exfalso. apply Hr. rewrite <- E'.
      destruct (cstream_end_complete CS cs_begin compress_chunk P fc cs0 chunks (norm (a_k a)) _ cap S Hmb Er)
        as (cs1 & ch2 & _ & _ & Hst & Hfe & _).
      unfold norm in Hfe. unfold end_ret. rewrite Hfe. reflexivity.
    + apply (cstream_end_fills_output CS cs_begin compress_chunk P fc cs0 chunks (norm (a_k a)) _ cap r' S Hmb Er Hr').
Qed.

(* ZSTD_endStream returned 0: the frame is closed, nothing is pending, nothing is owed *)
Theorem api_endStream_complete P X (a : astate CS) em dones cs0 chunks fc cap ck :
  AInv P X a em dones cs0 chunks -> 1 <= fc_maxBlock fc ->
  let o := a_endStream CS cs_begin compress_chunk P fc X a cap ck in
  ao_ret o = Some 0 ->
  k_stage (a_k (ao_a o)) = KInit /\ k_frameEnded (a_k (ao_a o)) = true /\ k_held (a_k (ao_a o)) = [].
Proof.
  intros A Hmb. unfold a_endStream. cbv zeta.
  pose proof (hi_si _ _ _ _ _ _ _ _ _ _ _ (ai_h _ _ _ _ _ _ _ A)) as S.
  assert (Hz : forall (k' : kstate) r', end_ret k' r' ck = 0 -> r' = 0).
  { intros k' r'. unfold end_ret. destruct (k_frameEnded k'); lia. }
  destruct (wview (a_k a)) eqn:Hv.
  - set (inp := if a_null a then [] else tk (a_size a - a_pos a) (dr (a_pos a) X)).
    destruct (ko_ret (kstep P fc (a_k a) inp cap DirEnd)) as [r'|] eqn:Er; [|rewrite a_kfail_ret; discriminate].
    cbn [ao_ret ao_a a_k]. intros E. inversion E as [E']. apply Hz in E'. subst r'.
    destruct (norm_call P X a em dones cs0 chunks fc inp cap DirEnd A) as (E1 & _ & _ & E4).
    rewrite Er in E1. destruct (E4 ltac:(congruence)) as [Ek Ec].
    destruct (cstream_end_complete CS cs_begin compress_chunk P fc cs0 chunks (norm (a_k a)) _ cap S Hmb E1)
      as (cs1 & ch2 & _ & _ & Hst & Hfe & _).
    rewrite Ek in Hst, Hfe.
    destruct (kstep_facts P fc (a_k a) inp cap DirEnd 0 Er) as (_ & _ & Fh).
    unfold keep_caller. cbv zeta. unfold is_init. rewrite Hst. repeat split; auto. apply Fh. discriminate.
  - destruct (ko_ret (kstep P fc (k_set_held (a_k a) []) [] cap DirEnd)) as [r'|] eqn:Er; [|rewrite a_kfail_ret; discriminate].
    cbn [ao_ret ao_a a_k]. intros E. inversion E as [E']. apply Hz in E'. subst r'.
    destruct (cstream_end_complete CS cs_begin compress_chunk P fc cs0 chunks (norm (a_k a)) _ cap S Hmb Er)
      as (cs1 & ch2 & _ & _ & Hst & Hfe & _).
    unfold norm in Hst, Hfe.
    destruct (kstep_facts P fc (k_set_held (a_k a) []) [] cap DirEnd 0 Er) as (_ & _ & Fh).
    repeat split; auto. apply Fh. discriminate.
Qed.

(* ZSTD_CCtx_reset(session_only) forgets the input deferred by the abandoned frame start *)
Theorem api_reset_forgets (a : astate CS) : k_held (a_k (a_reset a)) = [] /\ k_stage (a_k (a_reset a)) = KInit.
Proof. split; reflexivity. Qed.

(* ---------- whole histories: a completed flush is decodable, a completed end closes a decodable frame ---------- *)
Section ApiDecode.
Variable D : bytes -> option bytes.
Variable Dp : bytes -> option bytes.
Hypothesis chunk_decodes :
  forall cs fc pl chunks, complete chunks -> D (outs CS compress_chunk (cs_begin cs fc pl) chunks) = Some (chunks_in chunks).
Hypothesis prefix_decodes :
  forall cs fc pl chunks, nolast chunks -> Dp (outs CS compress_chunk (cs_begin cs fc pl) chunks) = Some (chunks_in chunks).

(* after any history of the four entry points, when ZSTD_flushStream (or a ZSTD_compressStream2 flush: OCall .. DirFlush)
   has just left the state "nothing pending, nothing owed", the input up to the position the caller holds is exactly what
   went through the block compressor and the bytes emitted are exactly what it produced *)
Theorem api_flushed_prefix_decodable P X (a : astate CS) em dones cs0 chunks :
  AInv P X a em dones cs0 chunks ->
  k_stage (a_k a) = KLoad -> k_inPend (a_k a) = [] -> k_outPend (a_k a) = [] -> k_held (a_k a) = [] ->
  tk (a_pos a) X = frames_in CS dones ++ chunks_in chunks /\
  em = frames_out CS compress_chunk dones ++ outs CS compress_chunk cs0 chunks /\
  nolast chunks /\
  (dones = [] -> Dp em = Some (tk (a_pos a) X)).
Proof.
  intros [Hh Hheld Hle Hpos Hst Happ Hend] Est Hi Ho Hhe.
  rewrite Hhe, lenN_nil, N.sub_0_r in Hh. destruct Hh as [HS Hin Hp Hout Hdone Hbeg].
  unfold norm in *. ksimp. rewrite Hi, !app_nil_r in Hin. rewrite Ho, app_nil_r in Hout.
  pose proof (si_ki _ _ _ _ _ _ HS) as K.
  assert (Hnl : nolast chunks).
  { apply (ki_nolast _ _ _ _ _ _ K). ksimp. destruct (ki_load _ _ _ _ _ _ K) as [_ E]; [ksimp; exact Est|]. ksimp. exact E. }
  split; [exact Hin|split; [symmetry; exact Hout|split; [exact Hnl|]]].
  intros ->. rewrite <- Hout, Hin. cbn [frames_in frames_out map concat app].
  destruct Hbeg as [[Hb _]|(cs' & fc & pl & ->)]; [ksimp; congruence|]. apply prefix_decodes. exact Hnl.
Qed.

(* when a frame has just been completed (ZSTD_endStream or a ZSTD_compressStream2 end returned 0) the emitted bytes are a
   concatenation of frames, each of which decodes to its part of the input up to the position the caller holds *)
Theorem api_ended_roundtrip P X (a : astate CS) em dones cs0 chunks :
  AInv P X a em dones cs0 chunks ->
  k_stage (a_k a) = KInit -> k_frameEnded (a_k a) = true -> k_held (a_k a) = [] ->
  exists frames : list (bytes * bytes),
    tk (a_pos a) X = concat (map fst frames) /\ em = concat (map snd frames) /\
    forall io, In io frames -> D (snd io) = Some (fst io).
Proof.
  intros [Hh Hheld Hle Hpos Hst Happ Hend] Est Hfe Hhe.
  rewrite Hhe, lenN_nil, N.sub_0_r in Hh. destruct Hh as [HS Hin Hp Hout Hdone Hbeg].
  pose proof (si_ki _ _ _ _ _ _ HS) as K. unfold norm in *. ksimp.
  destruct (ki_init _ _ _ _ _ _ K) as [Hop Hip]; [ksimp; exact Est|]. ksimp.
  destruct (ki_ended _ _ _ _ _ _ K) as [Hc _]; [ksimp; exact Hfe|].
  destruct (done_frames_decode CS cs_begin compress_chunk D chunk_decodes (dones ++ [(cs0, chunks)])) as (fr & Hi & Ho & Hd).
  - intros f Hf. apply in_app_or in Hf. destruct Hf as [Hf|[<-|[]]]; [apply Hdone; exact Hf|].
    split; [right; exact Hc|]. destruct Hbeg as [[_ Hb]|Hb]; [left; exact Hb|right; exact Hb].
  - exists fr. split; [|split; [|exact Hd]].
    + rewrite <- Hi, frames_in_snoc. cbn [snd]. rewrite Hin, Hip, !app_nil_r. reflexivity.
    + rewrite <- Ho, frames_out_snoc. cbn [fst snd]. rewrite Hout, Hop, app_nil_r. reflexivity.
Qed.
End ApiDecode.

(* ---------- the input size hint (ZSTD_nextInputSizeHint, what ZSTD_compressStream returns) ---------- *)
(* buffered input: the load target is never more than one block (+ 1 when the pledged size is exactly one block) away *)
Definition Tgt (P : kparams) (k : kstate) : Prop :=
  kp_stableIn P = false -> k_inBuffTarget k <= k_inToCompress k + k_blockSize k + 1.
Definition res_tgt (P : kparams) (bs : N) (r : gres CS) : Prop :=
  match r with
  | GCont g' | GStop g' => Tgt P (g_k g') /\ k_blockSize (g_k g') = bs
  | GErr _ => True
  end.

Lemma g_flush_tgt P (g : gstate) : Tgt P (g_k g) -> res_tgt P (k_blockSize (g_k g)) (g_flush g).
Proof.
  intros HT. unfold CStreamModel.g_flush. cbv zeta.
  destruct (negb _); [cbn [res_tgt]; unfold Tgt in *; ksimp; auto|].
  destruct (k_frameEnded (g_k g)); cbn [res_tgt]; unfold Tgt in *; ksimp; auto.
Qed.

Lemma g_compress_tgt P dir (g : gstate) : Tgt P (g_k g) -> res_tgt P (k_blockSize (g_k g)) (g_compress P dir g).
Proof.
  intros HT. unfold CStreamModel.g_compress. cbv zeta.
  destruct (compress_chunk _ _ _) as [cs' cout].
  destruct (_ <? lenN cout); [exact I|].
  match goal with |- context [if fits_bound _ _ || _ then (if ?LB then GStop (g_mk (k_session_reset ?K) _ _ _ _) else _) else _] =>
    set (k2 := K); set (lb := LB) end.
  assert (Hk2 : Tgt P k2 /\ k_blockSize k2 = k_blockSize (g_k g)).
  { unfold k2, Tgt in *. destruct (negb (kp_stableIn P)) eqn:Eb; [destruct (_ <? _)|]; ksimp; split; auto; intros; try lia. }
  destruct Hk2 as [HT2 Hb2]. clearbody k2 lb.
  destruct (fits_bound _ _ || kp_stableOut P).
  - destruct lb; cbn [res_tgt]; unfold Tgt in *; ksimp; auto.
  - match goal with |- res_tgt P _ (g_flush ?G0) => set (G := G0) end.
    pose proof (g_flush_tgt P G) as H.
    change (k_blockSize (g_k G)) with (k_blockSize k2) in H. rewrite Hb2 in H. apply H.
    unfold G, Tgt in *. ksimp. exact HT2.
Qed.

Lemma g_load_tgt P dir (g : gstate) : Tgt P (g_k g) -> res_tgt P (k_blockSize (g_k g)) (g_load P dir g).
Proof.
  intros HT. unfold CStreamModel.g_load. cbv zeta.
  destruct (_ && (_ && (k_inBuffPos (g_k g) =? 0))).
  - destruct (compress_chunk _ _ _) as [cs' cout]. destruct (_ <? lenN cout); [exact I|].
    cbn [res_tgt]. unfold Tgt in *. ksimp. auto.
  - destruct (negb (kp_stableIn P)).
    + match goal with |- context [g_compress P dir ?G1] => set (g1 := G1) end.
      assert (H1 : Tgt P (g_k g1) /\ k_blockSize (g_k g1) = k_blockSize (g_k g)) by (unfold g1, Tgt in *; ksimp; auto).
      destruct H1 as [HT1 Hb1].
      assert (HS : res_tgt P (k_blockSize (g_k g)) (GStop g1)) by (cbn [res_tgt]; auto).
      assert (HC : res_tgt P (k_blockSize (g_k g)) (g_compress P dir g1)) by (rewrite <- Hb1; apply g_compress_tgt; exact HT1).
      clearbody g1. destruct dir; [destruct (_ <? _)|destruct (_ =? _)|]; assumption.
    + assert (HC : res_tgt P (k_blockSize (g_k g)) (g_compress P dir g)) by (apply g_compress_tgt; exact HT).
      destruct dir; [destruct (_ <? _)|destruct (_ =? _)|]; try assumption; cbn [res_tgt]; unfold Tgt in *; ksimp; auto.
Qed.

Lemma g_loop_tgt P dir : forall fuel (g : gstate), Tgt P (g_k g) -> res_tgt P (k_blockSize (g_k g)) (g_loop fuel P dir g).
Proof.
  induction fuel as [|f IH]; intros g HT; [exact I|].
  cbn [CStreamModel.g_loop].
  assert (H : res_tgt P (k_blockSize (g_k g)) (g_iter P dir g)).
  { unfold CStreamModel.g_iter. destruct (k_stage (g_k g)); [exact I|apply g_load_tgt; exact HT|apply g_flush_tgt; exact HT]. }
  destruct (g_iter P dir g) as [g'|g'|e]; [|exact H|exact I].
  cbn [res_tgt] in H. destruct H as [HT' Hb]. rewrite <- Hb. apply IH. exact HT'.
Qed.

Lemma kstep_tgt P fc (k : kstate) inp cap dir r :
  Tgt P k -> ko_ret (kstep P fc k inp cap dir) = Some r -> Tgt P (ko_k (kstep P fc k inp cap dir)).
Proof.
  intros HT. unfold CStreamModel.kstep. cbv zeta.
  destruct (match k_stage k with KInit => _ | _ => false end).
  - cbn [ko_ret ko_k]. intros _. unfold Tgt in *. ksimp. exact HT.
  - set (k0 := match k_stage k with KInit => _ | _ => k end).
    assert (HT0 : Tgt P k0).
    { unfold k0. destruct (k_stage k); try exact HT. unfold Tgt, k_init. ksimp. intros E. rewrite E.
      destruct (_ =? _); lia. }
    destruct (kp_stableOut P && negb (k_expectOut k0 =? cap)); [discriminate|].
    match goal with |- context [CStreamModel.g_loop CS compress_chunk ?f P dir ?g] =>
      pose proof (g_loop_tgt P dir f g) as HL; destruct (CStreamModel.g_loop CS compress_chunk f P dir g) as [g'|g'|e] end; try discriminate.
    cbn [ko_ret ko_k]. intros _. cbn [res_tgt] in HL. destruct HL as [HT' _]; [unfold Tgt in *; ksimp; exact HT0|].
    unfold Tgt in *. ksimp. exact HT'.
Qed.

(* in a frame in progress the hint is between 1 and one block (+ 1) *)
Theorem hint_bounds P cs0 chunks (k : kstate) :
  SI P cs0 chunks (norm k) -> Tgt P k -> k_appliedSI k = kp_stableIn P -> k_stage k <> KInit ->
  1 <= k_hint k <= k_blockSize k + 1.
Proof.
  intros S HT Ha Hne. pose proof (si_ki _ _ _ _ _ _ S) as K.
  pose proof (ki_bs _ _ _ _ _ _ K) as Hbs. pose proof (ki_in _ _ _ _ _ _ K) as Hin. unfold norm in *. ksimp.
  specialize (Hbs Hne). unfold k_hint. rewrite Ha.
  destruct (kp_stableIn P) eqn:HP.
  - destruct (N.ltb_spec (lenN (k_held k)) (k_blockSize k)); lia.
  - destruct Hin as [Hi1 Hi2]. unfold Tgt in HT. specialize (HT HP).
    destruct (N.eqb_spec (k_inBuffTarget k - k_inBuffPos k) 0); lia.
Qed.

Lemma keep_caller_tgt P (h : bytes) (o : kout CS) : Tgt P (ko_k o) -> Tgt P (keep_caller h o).
Proof.
  intros HT. unfold keep_caller. cbv zeta. destruct (is_init (ko_k o)); [exact HT|].
  destruct (negb (k_appliedSI (ko_k o))); [exact HT|]. destruct (_ <? _)%Z; [|exact HT]. unfold Tgt in *. ksimp. exact HT.
Qed.

Lemma a_call_tgt P X (a : astate CS) fc n cap dir r :
  Tgt P (a_k a) -> ao_ret (a_call CS cs_begin compress_chunk P fc X a n cap dir) = Some r ->
  Tgt P (a_k (ao_a (a_call CS cs_begin compress_chunk P fc X a n cap dir))).
Proof.
  intros HT. unfold a_call. cbv zeta.
  destruct (ko_ret (kstep P fc (a_k a) _ cap dir)) as [r'|] eqn:Er; [|rewrite a_kfail_ret; discriminate].
  cbn [ao_ret ao_a a_k]. intros _. apply (kstep_tgt P fc (a_k a) _ cap dir r' HT Er).
Qed.

Lemma astep_tgt P X (a : astate CS) op r :
  Tgt P (a_k a) -> ao_ret (astep P X a op) = Some r -> Tgt P (a_k (ao_a (astep P X a op))).
Proof.
  intros HT. destruct op as [n cap dir fc|n cap fc|cap fc|cap ck fc]; cbn [C10Api.astep].
  - apply a_call_tgt. exact HT.
  - unfold a_stream. cbv zeta.
    destruct (ao_ret (a_call CS cs_begin compress_chunk P fc X a n cap DirContinue)) as [r'|] eqn:Er; [|congruence].
    cbn [ao_ret ao_a]. intros _. apply (a_call_tgt P X a fc n cap DirContinue r' HT Er).
  - unfold a_flushStream. cbv zeta. destruct (wview (a_k a)).
    + destruct (ko_ret (kstep P fc (a_k a) [] cap DirFlush)) as [r'|] eqn:Er; [|rewrite a_kfail_ret; discriminate].
      cbn [ao_ret ao_a a_k]. intros _. apply keep_caller_tgt. apply (kstep_tgt P fc (a_k a) _ cap DirFlush r' HT Er).
    + destruct (ko_ret (kstep P fc (k_set_held (a_k a) []) [] cap DirFlush)) as [r'|] eqn:Er; [|rewrite a_kfail_ret; discriminate].
      cbn [ao_ret ao_a a_k]. intros _. apply (kstep_tgt P fc _ _ cap DirFlush r'); [unfold Tgt in *; ksimp; exact HT|exact Er].
  - unfold a_endStream. cbv zeta. destruct (wview (a_k a)).
    + destruct (ko_ret (kstep P fc (a_k a) _ cap DirEnd)) as [r'|] eqn:Er; [|rewrite a_kfail_ret; discriminate].
      cbn [ao_ret ao_a a_k]. intros _. apply keep_caller_tgt. apply (kstep_tgt P fc (a_k a) _ cap DirEnd r' HT Er).
    + destruct (ko_ret (kstep P fc (k_set_held (a_k a) []) [] cap DirEnd)) as [r'|] eqn:Er; [|rewrite a_kfail_ret; discriminate].
      cbn [ao_ret ao_a a_k]. intros _. apply (kstep_tgt P fc _ _ cap DirEnd r'); [unfold Tgt in *; ksimp; exact HT|exact Er].
Qed.

(* after any history of the four entry points from a fresh context: in a frame in progress ZSTD_nextInputSizeHint - what
   ZSTD_compressStream returns - is at least 1 and at most one block + 1 *)
Theorem api_hint_bounds P X cs : forall ops (a' : astate CS) em',
  ops_ok ops -> arun P X (a_new cs) ops [] = Some (a', em') ->
  k_stage (a_k a') <> KInit -> 1 <= k_hint (a_k a') <= k_blockSize (a_k a') + 1.
Proof.
  intros ops a' em' Hok Hrun Hne.
  destruct (api_invariant P X ops (a_new cs) [] [] cs [] a' em' (AInv_new P X cs) Hok Hrun) as (d & c & ch & A).
  assert (HT : Tgt P (a_k a')).
  { clear A Hne. assert (H0 : Tgt P (a_k (a_new cs))) by (unfold Tgt; cbn; lia).
    revert Hrun H0. generalize (a_new cs) (@nil N). clear Hok.
    induction ops as [|op t IH]; intros a em Hrun H0.
    - cbn in Hrun. inversion Hrun; subst. exact H0.
    - cbn [C10Api.arun] in Hrun. destruct (ao_ret (astep P X a op)) as [r|] eqn:Er; [|discriminate].
      apply (IH _ _ Hrun). apply (astep_tgt P X a op r H0 Er). }
  apply (hint_bounds P c ch (a_k a')); auto.
  - apply (hi_si _ _ _ _ _ _ _ _ _ _ _ (ai_h _ _ _ _ _ _ _ A)).
  - apply (ai_applied _ _ _ _ _ _ _ A). exact Hne.
Qed.

End ApiProofs.
