(* C02, round 2: the streaming-decoder model instantiated with the reference decoder R STARTING EVERY FRAME FROM A DICTIONARY
   (what ZSTD_decompressBegin_usingDDict does when a dictionary is attached with ZSTD_use_indefinitely): the state a frame
   starts from is R's block-decoder state after loading dictionary d - entropy tables and repeat offsets of a structured
   dictionary (none for raw content), history = dictionary content, nothing produced yet (x0 / e0 of Codec/Frame.v
   decode_frame).  Model only. *)
From Coq Require Import NArith List Bool.
From ZV.Codec Require Import Bytes Block Frame.
From ZV.Stream Require Import DStreamModel StreamInst.
Import ListNotations.
Local Open Scope N_scope.

Definition r_init_dict (d : dict) : RH :=
  (match d_entropy d with Some e => e | None => no_entropy end,
   {| x_hist := rev' (d_content d); x_marks := []; x_avail := lenN (d_content d); x_pos := 0; x_blk := 0 |}).

Definition Rz_new_d (d : dict) := z_new RH (r_init_dict d).
Definition Rdstep_d (d : dict) := dstep RH (r_init_dict d) r_raw r_rle r_cblock r_hash.
Definition Rspec_decode_d (d : dict) := spec_decode RH (r_init_dict d) r_raw r_rle r_cblock r_hash.
(* dictionary bytes -> dictionary (ZSTD_dct_auto: structured when it starts with the dictionary magic, raw content otherwise);
   None when a structured dictionary is malformed (the C loader refuses it: dictionary_corrupted) *)
Definition dict_of_bytes (b : bytes) : option dict := match parse_dict b with Ok d => Some d | Err _ _ => None end.
