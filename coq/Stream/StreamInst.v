(* Instantiation of the streaming-decoder model with the reference decoder R (coq/Codec): block decoding,
   history and checksum are R's.  Model only. *)
From Coq Require Import NArith List Bool.
From ZV.Codec Require Import Bytes XXH64 Fse Huf Block Frame.
From ZV.Stream Require Import DStreamModel.
Import ListNotations.
Local Open Scope N_scope.

Definition RH : Type := (entropy * Block.xstate)%type.
Definition r_init : RH :=
  (no_entropy, {| x_hist := []; x_marks := []; x_avail := 0; x_pos := 0; x_blk := 0 |}).
Definition r_raw (h : RH) (b : bytes) : RH := (fst h, push_fwd (snd h) b (lenN b)).
Definition r_rle (h : RH) (v n : N) : RH := (fst h, push_rev (snd h) (repeatN v n []) n).
Definition r_cblock (window blockMax : N) (h : RH) (src : bytes) : res (RH * bytes) :=
  do r <- decode_cblock false window blockMax (fst h) (snd h) src;
  let '(e', x', _) := r in
  Ok ((e', x'), takeN_rev (x_hist x') (x_blk x') []).
Definition r_hash (out : bytes) : N := N.land (xxh64 out 0) 4294967295.

Definition Rz_new := z_new RH r_init.
Definition Rdstep := dstep RH r_init r_raw r_rle r_cblock r_hash.
Definition Rdstep_old := dstep_pre81dbe9b RH r_init r_raw r_rle r_cblock r_hash.
Definition Rspec_decode := spec_decode RH r_init r_raw r_rle r_cblock r_hash.
Definition Roneshot := oneshot RH r_init r_raw r_rle r_cblock r_hash.
Definition Rc_begin := c_begin RH r_init.
Definition Rdcontinue := dcontinue RH r_raw r_rle r_cblock r_hash.

(* ---------- the block compressor as a tape reader ----------
   The correspondence run cannot predict the bytes a match finder emits; it reads, from the reference decoder's
   trace of the real output, the size of every block (encoded size, regenerated size) and replays them:
   [tape_chunk] answers "the compressor was handed n bytes (last or not)" with the next run of real blocks that
   regenerates exactly n bytes (+ frame header on the first call of a frame, + epilogue on the last).
   A run that does not align with the chunk boundaries marks the tape bad. *)
From ZV.Stream Require Import CStreamModel.

Record tframe := { tf_hsize : N; tf_cksum : bool; tf_blocks : list (N * N) (* encoded size incl. 3-byte header, regenerated size *) }.
Record tape := {
  t_bytes : bytes;               (* real compressed stream not yet handed out *)
  t_hsize : N;                   (* frame header still to emit (0 once emitted) *)
  t_cksum : bool;
  t_blocks : list (N * N);       (* remaining blocks of the current frame *)
  t_frames : list tframe;        (* following frames *)
  t_bad : bool;
  t_chunks : list (N * bool * N) (* log, newest first: (input bytes, last, output bytes) *) }.

Definition tape_begin (t : tape) (_ : fconf) (_ : N) : tape :=
  match t_frames t with
  | [] => {| t_bytes := t_bytes t; t_hsize := 0; t_cksum := false; t_blocks := []; t_frames := []; t_bad := true; t_chunks := t_chunks t |}
  | f :: r => {| t_bytes := t_bytes t; t_hsize := tf_hsize f; t_cksum := tf_cksum f; t_blocks := tf_blocks f; t_frames := r;
                 t_bad := t_bad t; t_chunks := t_chunks t |}
  end.

(* consume blocks regenerating exactly n bytes: returns (encoded bytes, remaining blocks, aligned?) *)
Fixpoint take_blocks (bl : list (N * N)) (n : N) (acc : N) : N * list (N * N) * bool :=
  if n =? 0 then (acc, bl, true)
  else match bl with
       | [] => (acc, [], false)
       | (cs, rs) :: t => if n <? rs then (acc, bl, false) else take_blocks t (n - rs) (acc + cs)
       end.
Fixpoint sum_blocks (bl : list (N * N)) (c r : N) : N * N :=
  match bl with [] => (c, r) | (cs, rs) :: t => sum_blocks t (c + cs) (r + rs) end.

Definition tape_chunk (t : tape) (chunk : bytes) (last : bool) : tape * bytes :=
  let n := lenN chunk in
  let '(enc, rest, ok) := take_blocks (t_blocks t) n 0 in
  let '(enc2, rest2, ok2) :=
    if last then let '(c, r) := sum_blocks rest 0 0 in (enc + c + (if t_cksum t then 4 else 0), [], andb ok (r =? 0))
    else (enc, rest, ok) in
  let total := t_hsize t + enc2 in
  let out := tk total (t_bytes t) in
  ({| t_bytes := dr total (t_bytes t); t_hsize := 0; t_cksum := t_cksum t; t_blocks := rest2; t_frames := t_frames t;
      t_bad := orb (t_bad t) (orb (negb ok2) (negb (lenN out =? total))); t_chunks := (n, last, total) :: t_chunks t |}, out).

Definition Tk_new (t : tape) := @k_new tape t.
Definition Tkstep := kstep tape tape_begin tape_chunk.
Definition Tk_hint := @k_hint tape.
