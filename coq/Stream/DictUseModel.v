(* C02, round 2: which dictionary a frame is decoded with - executable model of the dictionary-selection state of a ZSTD_DCtx
   (lib/decompress/zstd_decompress.c: dctx->ddict, dctx->dictUses; ZSTD_clearDict, ZSTD_getDDict, ZSTD_DCtx_loadDictionary*,
   ZSTD_DCtx_refDDict, ZSTD_DCtx_refPrefix, ZSTD_initDStream*, ZSTD_resetDStream, ZSTD_DCtx_reset, and the places that fetch
   the dictionary: zdss_loadHeader of ZSTD_decompressStream - once per Zstandard (or legacy) frame, single-pass shortcut or
   not, NOT for a skippable frame (fix d9e9175) - and ZSTD_decompressDCtx - once per call, for all the frames of the call).
   ZSTD_d_refMultipleDDicts is outside (C16).  Model only - no proofs in this file. *)
From Coq Require Import List Bool.
Import ListNotations.

Section DictUse.
Variable D : Type.                       (* a digested dictionary (ZSTD_DDict) *)

Inductive duses := DontUse | UseOnce | UseIndef.          (* ZSTD_dictUses_e : ZSTD_dont_use 0, ZSTD_use_once 1, ZSTD_use_indefinitely -1 *)
Record dd := { dd_dict : option D (* dctx->ddict *); dd_uses : duses (* dctx->dictUses *) }.

Definition dd_clear : dd := {| dd_dict := None; dd_uses := DontUse |}.      (* ZSTD_clearDict *)
Definition dd_new : dd := dd_clear.                                          (* ZSTD_initDCtx_internal *)

(* ZSTD_getDDict : a single-use dictionary is handed out once; its pointer stays behind, marked dont_use, until the next fetch *)
Definition get_ddict (s : dd) : dd * option D :=
  match dd_uses s with
  | DontUse => (dd_clear, None)
  | UseIndef => (s, dd_dict s)
  | UseOnce => ({| dd_dict := dd_dict s; dd_uses := DontUse |}, dd_dict s)
  end.

Inductive dop :=
| OpLoad (d : option D)       (* ZSTD_DCtx_loadDictionary / _byReference / _advanced, ZSTD_initDStream_usingDict ; None = NULL or size 0 *)
| OpRefDDict (d : option D)   (* ZSTD_DCtx_refDDict, ZSTD_initDStream_usingDDict ; ZSTD_initDStream = OpRefDDict None *)
| OpRefPrefix (d : option D)  (* ZSTD_DCtx_refPrefix / _advanced *)
| OpResetSession              (* ZSTD_DCtx_reset(session_only), ZSTD_resetDStream *)
| OpResetParams               (* ZSTD_DCtx_reset(parameters) / (session_and_parameters) *)
| OpFrame                     (* ZSTD_decompressStream has loaded the header of a Zstandard (or legacy) frame *)
| OpSkippable                 (* ZSTD_decompressStream has loaded the header of a skippable frame *)
| OpOneShot (n : nat).        (* one ZSTD_decompressDCtx call over n Zstandard frames (and any number of skippable frames) *)

(* one API event -> new state, dictionaries given to the Zstandard frames decoded by this event (in order) *)
Definition dd_step (s : dd) (op : dop) : dd * list (option D) :=
  match op with
  | OpLoad d | OpRefDDict d =>
      (match d with Some _ => {| dd_dict := d; dd_uses := UseIndef |} | None => dd_clear end, [])
  | OpRefPrefix d => ({| dd_dict := d; dd_uses := UseOnce |}, [])      (* loadDictionary_advanced, then dictUses = ZSTD_use_once *)
  | OpResetSession => (s, [])
  | OpResetParams => (dd_clear, [])
  | OpFrame => let '(s', o) := get_ddict s in (s', [o])
  | OpSkippable => (s, [])
  | OpOneShot n => let '(s', o) := get_ddict s in (s', repeat o n)
  end.

Fixpoint dd_run (s : dd) (ops : list dop) : dd * list (option D) :=
  match ops with
  | [] => (s, [])
  | op :: r => let '(s1, l1) := dd_step s op in let '(s2, l2) := dd_run s1 r in (s2, l1 ++ l2)
  end.

(* ---------- the documented meaning ---------- *)
(* a dictionary attached with load / ref stays until replaced; a prefix is for the next Zstandard frame only (or for the next
   single-call decompression); session resets keep both; a parameter reset drops both; skippable frames use nothing *)
Inductive dspec := Sticky (o : option D) | Pending (o : option D).
Definition spec_step (s : dspec) (op : dop) : dspec * list (option D) :=
  match op with
  | OpLoad d | OpRefDDict d => (Sticky d, [])
  | OpRefPrefix d => (Pending d, [])
  | OpResetSession => (s, [])
  | OpResetParams => (Sticky None, [])
  | OpFrame => match s with Sticky o => (s, [o]) | Pending o => (Sticky None, [o]) end
  | OpSkippable => (s, [])
  | OpOneShot n => match s with Sticky o => (s, repeat o n) | Pending o => (Sticky None, repeat o n) end
  end.
Fixpoint spec_run (s : dspec) (ops : list dop) : dspec * list (option D) :=
  match ops with
  | [] => (s, [])
  | op :: r => let '(s1, l1) := spec_step s op in let '(s2, l2) := spec_run s1 r in (s2, l1 ++ l2)
  end.
End DictUse.
