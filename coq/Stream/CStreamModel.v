(* Streaming compression: executable model of lib/compress/zstd_compress.c :
     ZSTD_compressStream2 (transparent initialisation, stable-buffer checks, return value),
     ZSTD_CCtx_init_compressStream2 (buffer geometry: blockSize, inBuffSize, outBuffSize, inBuffTarget),
     ZSTD_compressStream_generic (load / compress / flush state machine), ZSTD_nextInputSizeHint.
   The block compressor (ZSTD_compressContinue_public / ZSTD_compressEnd_public: match finding, entropy coding,
   frame header on the first call, epilogue on the last) is a section variable [compress_chunk].
   nbWorkers >= 1 is outside this model (zstdmt_compress.c belongs to C11).
   Model only - no proofs in this file. *)
From Coq Require Import NArith ZArith List Bool.
From ZV.Codec Require Import Bytes.
From ZV.Gen Require Import Gen_Stream Gen_Tables.
From ZV.Stream Require Import DStreamModel.
Import ListNotations.
Local Open Scope N_scope.

Inductive directive := DirContinue | DirFlush | DirEnd.
Inductive kstage := KInit | KLoad | KFlush.
Inductive kerr := KdstSize_tooSmall | Kstability | Kinit_missing | Kimpossible (site : N).

(* ZSTD_COMPRESSBOUND; None stands for the error code returned by ZSTD_compressBound (larger than any capacity) *)
Definition cbound (n : N) : option N :=
  if c_ZSTD_MAX_INPUT_SIZE <=? n then None
  else Some (n + N.shiftr n 8 + (if n <? 131072 then N.shiftr (131072 - n) 11 else 0)).
Definition fits_bound (cap n : N) : bool :=      (* cap >= ZSTD_compressBound(n) *)
  match cbound n with Some b => b <=? cap | None => false end.

(* requested parameters that matter to the buffering layer *)
Record kparams := {
  kp_stableIn : bool;      (* ZSTD_c_stableInBuffer *)
  kp_stableOut : bool;     (* ZSTD_c_stableOutBuffer *)
  kp_magicless : bool }.   (* ZSTD_c_format *)

(* what ZSTD_CCtx_init_compressStream2 derives from the parameter set for one frame; resolved by code outside this
   model (ZSTD_getCParamsFromCCtxParams) and therefore an input: the run reads it from the real context *)
Record fconf := {
  fc_windowLog : N;        (* appliedParams.cParams.windowLog *)
  fc_maxBlock : N;         (* ZSTD_resolveMaxBlockSize(maxBlockSize) *)
  fc_pledge : N }.         (* pledgedSrcSizePlusOne - 1 set by the user for this frame, UNKNOWN when none *)

Section Compressor.
Variable CS : Type.                                               (* state of the block compressor *)
Variable cs_begin : CS -> fconf -> N -> CS.                       (* ZSTD_compressBegin_internal (old state, frame conf, pledged size) *)
Variable compress_chunk : CS -> bytes -> bool -> CS * bytes.      (* compressContinue (false) / compressEnd (true) *)

Record kstate := {
  k_stage : kstage;
  k_blockSize : N;
  k_inBuffSize : N;
  k_outBuffSize : N;
  k_inBuffPos : N;
  k_inToCompress : N;
  k_inBuffTarget : N;
  k_inPend : bytes;        (* inBuff[inToCompress .. inBuffPos) *)
  k_outContent : N;        (* outBuffContentSize *)
  k_outFlushed : N;        (* outBuffFlushedSize *)
  k_outPend : bytes;       (* outBuff[outBuffFlushedSize .. outBuffContentSize) *)
  k_frameEnded : bool;
  k_held : bytes;          (* the stableIn_notConsumed bytes just before input->pos *)
  k_expectOut : N;         (* expectedOutBufferSize *)
  k_appliedSI : bool;      (* appliedParams.inBufferMode == ZSTD_bm_stable (set when a frame is initialised) *)
  k_cs : CS }.

Definition k_new (cs0 : CS) : kstate :=
  {| k_stage := KInit; k_blockSize := 0; k_inBuffSize := 0; k_outBuffSize := 0; k_inBuffPos := 0; k_inToCompress := 0;
     k_inBuffTarget := 0; k_inPend := []; k_outContent := 0; k_outFlushed := 0; k_outPend := []; k_frameEnded := false;
     k_held := []; k_expectOut := 0; k_appliedSI := false; k_cs := cs0 |}.

Definition k_set_stage (k : kstate) (st : kstage) : kstate :=
  {| k_stage := st; k_blockSize := k_blockSize k; k_inBuffSize := k_inBuffSize k; k_outBuffSize := k_outBuffSize k;
     k_inBuffPos := k_inBuffPos k; k_inToCompress := k_inToCompress k; k_inBuffTarget := k_inBuffTarget k; k_inPend := k_inPend k;
     k_outContent := k_outContent k; k_outFlushed := k_outFlushed k; k_outPend := k_outPend k; k_frameEnded := k_frameEnded k;
     k_held := k_held k; k_expectOut := k_expectOut k; k_appliedSI := k_appliedSI k; k_cs := k_cs k |}.
Definition k_set_in (k : kstate) (pos toc tgt : N) (pend : bytes) : kstate :=
  {| k_stage := k_stage k; k_blockSize := k_blockSize k; k_inBuffSize := k_inBuffSize k; k_outBuffSize := k_outBuffSize k;
     k_inBuffPos := pos; k_inToCompress := toc; k_inBuffTarget := tgt; k_inPend := pend;
     k_outContent := k_outContent k; k_outFlushed := k_outFlushed k; k_outPend := k_outPend k; k_frameEnded := k_frameEnded k;
     k_held := k_held k; k_expectOut := k_expectOut k; k_appliedSI := k_appliedSI k; k_cs := k_cs k |}.
Definition k_set_out (k : kstate) (st : kstage) (content flushed : N) (pend : bytes) : kstate :=
  {| k_stage := st; k_blockSize := k_blockSize k; k_inBuffSize := k_inBuffSize k; k_outBuffSize := k_outBuffSize k;
     k_inBuffPos := k_inBuffPos k; k_inToCompress := k_inToCompress k; k_inBuffTarget := k_inBuffTarget k; k_inPend := k_inPend k;
     k_outContent := content; k_outFlushed := flushed; k_outPend := pend; k_frameEnded := k_frameEnded k;
     k_held := k_held k; k_expectOut := k_expectOut k; k_appliedSI := k_appliedSI k; k_cs := k_cs k |}.
Definition k_set_cs (k : kstate) (cs : CS) (ended : bool) : kstate :=
  {| k_stage := k_stage k; k_blockSize := k_blockSize k; k_inBuffSize := k_inBuffSize k; k_outBuffSize := k_outBuffSize k;
     k_inBuffPos := k_inBuffPos k; k_inToCompress := k_inToCompress k; k_inBuffTarget := k_inBuffTarget k; k_inPend := k_inPend k;
     k_outContent := k_outContent k; k_outFlushed := k_outFlushed k; k_outPend := k_outPend k; k_frameEnded := ended;
     k_held := k_held k; k_expectOut := k_expectOut k; k_appliedSI := k_appliedSI k; k_cs := cs |}.
Definition k_set_held (k : kstate) (h : bytes) : kstate :=
  {| k_stage := k_stage k; k_blockSize := k_blockSize k; k_inBuffSize := k_inBuffSize k; k_outBuffSize := k_outBuffSize k;
     k_inBuffPos := k_inBuffPos k; k_inToCompress := k_inToCompress k; k_inBuffTarget := k_inBuffTarget k; k_inPend := k_inPend k;
     k_outContent := k_outContent k; k_outFlushed := k_outFlushed k; k_outPend := k_outPend k; k_frameEnded := k_frameEnded k;
     k_held := h; k_expectOut := k_expectOut k; k_appliedSI := k_appliedSI k; k_cs := k_cs k |}.
Definition k_set_expect (k : kstate) (e : N) : kstate :=
  {| k_stage := k_stage k; k_blockSize := k_blockSize k; k_inBuffSize := k_inBuffSize k; k_outBuffSize := k_outBuffSize k;
     k_inBuffPos := k_inBuffPos k; k_inToCompress := k_inToCompress k; k_inBuffTarget := k_inBuffTarget k; k_inPend := k_inPend k;
     k_outContent := k_outContent k; k_outFlushed := k_outFlushed k; k_outPend := k_outPend k; k_frameEnded := k_frameEnded k;
     k_held := k_held k; k_expectOut := e; k_appliedSI := k_appliedSI k; k_cs := k_cs k |}.

(* ZSTD_CCtx_init_compressStream2 (single-threaded branch) + the geometry part of ZSTD_resetCCtx_internal *)
Definition k_init (P : kparams) (fc : fconf) (pledged : N) (k : kstate) : kstate :=
  let windowSize := N.max 1 (N.min (pow2 (fc_windowLog fc)) pledged) in
  let blockSize := N.min (fc_maxBlock fc) windowSize in
  {| k_stage := KLoad; k_blockSize := blockSize;
     k_inBuffSize := if kp_stableIn P then 0 else windowSize + blockSize;
     k_outBuffSize := if kp_stableOut P then 0 else match cbound blockSize with Some b => b + 1 | None => 0 end;
     k_inBuffPos := 0; k_inToCompress := 0;
     k_inBuffTarget := if kp_stableIn P then 0 else blockSize + (if blockSize =? pledged then 1 else 0);
     k_inPend := []; k_outContent := 0; k_outFlushed := 0; k_outPend := []; k_frameEnded := false;
     k_held := k_held k; k_expectOut := k_expectOut k; k_appliedSI := kp_stableIn P; k_cs := cs_begin (k_cs k) fc pledged |}.

(* ZSTD_nextInputSizeHint *)
Definition k_hint (k : kstate) : N :=
  if k_appliedSI k then
    (if lenN (k_held k) <? k_blockSize k then k_blockSize k - lenN (k_held k) else k_blockSize k)
  else let h := k_inBuffTarget k - k_inBuffPos k in if h =? 0 then k_blockSize k else h.

(* locals of one ZSTD_compressStream_generic call *)
Record gstate := {
  g_k : kstate;
  g_in : bytes;      (* [ip, iend) *)
  g_ip : N;          (* bytes taken from (held ++ input) so far *)
  g_out : bytes;     (* [op at entry, op) *)
  g_ocap : N }.      (* oend - op *)
Definition g_mk (k : kstate) (i : bytes) (ip : N) (o : bytes) (oc : N) : gstate :=
  {| g_k := k; g_in := i; g_ip := ip; g_out := o; g_ocap := oc |}.

Inductive gres := GCont (g : gstate) | GStop (g : gstate) | GErr (e : kerr).

(* ZSTD_CCtx_reset(session_only) as far as this layer sees it *)
Definition k_session_reset (k : kstate) : kstate := k_set_stage k KInit.

Definition g_flush (g : gstate) : gres :=
  let k := g_k g in
  let toFlush := k_outContent k - k_outFlushed k in
  let flushed := N.min (g_ocap g) toFlush in
  let chunk := tk flushed (k_outPend k) in
  let o := g_out g ++ chunk in
  let oc := g_ocap g - flushed in
  if negb (toFlush =? flushed) then
    GStop (g_mk (k_set_out k KFlush (k_outContent k) (k_outFlushed k + flushed) (dr flushed (k_outPend k))) (g_in g) (g_ip g) o oc)
  else
    let k1 := k_set_out k KFlush 0 0 [] in
    if k_frameEnded k then GStop (g_mk (k_session_reset k1) (g_in g) (g_ip g) o oc)
    else GCont (g_mk (k_set_stage k1 KLoad) (g_in g) (g_ip g) o oc).

(* the "compress current block" part of case zcss_load (buffered or stable input), falls through to the flush stage *)
Definition g_compress (P : kparams) (dir : directive) (g : gstate) : gres :=
  let k := g_k g in
  let buffered := negb (kp_stableIn P) in
  let iSize := if buffered then k_inBuffPos k - k_inToCompress k else N.min (lenN (g_in g)) (k_blockSize k) in
  let direct := orb (fits_bound (g_ocap g) iSize) (kp_stableOut P) in
  let oSize := if direct then g_ocap g else k_outBuffSize k in
  let isEnd := match dir with DirEnd => true | _ => false end in
  let chunk := if buffered then k_inPend k else tk iSize (g_in g) in
  let rest := if buffered then g_in g else dr iSize (g_in g) in
  let ip' := if buffered then g_ip g else g_ip g + iSize in
  let lastBlock := andb isEnd (lenN rest =? 0) in
  let '(cs', cout) := compress_chunk (k_cs k) chunk lastBlock in
  if oSize <? lenN cout then GErr KdstSize_tooSmall
  else
    let k1 := k_set_cs k cs' lastBlock in
    let k2 :=
      if buffered then
        let tgt := k_inBuffPos k + k_blockSize k in
        if k_inBuffSize k <? tgt then k_set_in k1 0 0 (k_blockSize k) []
        else k_set_in k1 (k_inBuffPos k) (k_inBuffPos k) tgt []
      else k1 in
    if direct then
      let g1 := g_mk k2 rest ip' (g_out g ++ cout) (g_ocap g - lenN cout) in
      if lastBlock then GStop (g_mk (k_session_reset k2) rest ip' (g_out g ++ cout) (g_ocap g - lenN cout))
      else GCont g1
    else
      g_flush (g_mk (k_set_out k2 KFlush (lenN cout) 0 cout) rest ip' (g_out g) (g_ocap g)).

Definition g_load (P : kparams) (dir : directive) (g : gstate) : gres :=
  let k := g_k g in
  let isEnd := match dir with DirEnd => true | _ => false end in
  if andb isEnd (andb (orb (fits_bound (g_ocap g) (lenN (g_in g))) (kp_stableOut P)) (k_inBuffPos k =? 0)) then
    (* shortcut: ZSTD_compressEnd_public straight into the output buffer *)
    let '(cs', cout) := compress_chunk (k_cs k) (g_in g) true in
    if g_ocap g <? lenN cout then GErr KdstSize_tooSmall
    else GStop (g_mk (k_session_reset (k_set_cs k cs' true)) [] (g_ip g + lenN (g_in g)) (g_out g ++ cout) (g_ocap g - lenN cout))
  else if negb (kp_stableIn P) then
    let toLoad := k_inBuffTarget k - k_inBuffPos k in
    let loaded := N.min toLoad (lenN (g_in g)) in
    let k1 := k_set_in k (k_inBuffPos k + loaded) (k_inToCompress k) (k_inBuffTarget k) (k_inPend k ++ tk loaded (g_in g)) in
    let g1 := g_mk k1 (dr loaded (g_in g)) (g_ip g + loaded) (g_out g) (g_ocap g) in
    match dir with
    | DirContinue => if k_inBuffPos k1 <? k_inBuffTarget k1 then GStop g1 else g_compress P dir g1
    | DirFlush => if k_inBuffPos k1 =? k_inToCompress k1 then GStop g1 else g_compress P dir g1
    | DirEnd => g_compress P dir g1
    end
  else
    match dir with
    | DirContinue =>
        if lenN (g_in g) <? k_blockSize k
        then GStop (g_mk (k_set_held k (g_in g)) [] (g_ip g + lenN (g_in g)) (g_out g) (g_ocap g))
        else g_compress P dir g
    | DirFlush => if lenN (g_in g) =? 0 then GStop g else g_compress P dir g
    | DirEnd => g_compress P dir g
    end.

Definition g_iter (P : kparams) (dir : directive) (g : gstate) : gres :=
  match k_stage (g_k g) with
  | KInit => GErr Kinit_missing
  | KLoad => g_load P dir g
  | KFlush => g_flush g
  end.

Fixpoint g_loop (fuel : nat) (P : kparams) (dir : directive) (g : gstate) : gres :=
  match fuel with
  | O => GErr (Kimpossible 1)
  | S f => match g_iter P dir g with
           | GCont g' => g_loop f P dir g'
           | r => r
           end
  end.

Record kout := {
  ko_k : kstate;
  ko_consumed : Z;       (* input->pos after - before (negative when stable-input bytes are handed back) *)
  ko_out : bytes;
  ko_ret : option N;     (* None = error *)
  ko_err : option kerr }.

Definition kfuel (n : nat) : nat := S (S (S (S (2 * n)))).

(* ZSTD_compressStream2(cctx, {dst, ocap, 0}, {inp, |inp|, 0}, dir); [fc] is consulted only when the call initialises a frame *)
Definition kstep (P : kparams) (fc : fconf) (k : kstate) (inp : bytes) (ocap : N) (dir : directive) : kout :=
  let fail k' e := {| ko_k := k'; ko_consumed := 0%Z; ko_out := []; ko_ret := None; ko_err := Some e |} in
  let isCont := match dir with DirContinue => true | _ => false end in
  let isEnd := match dir with DirEnd => true | _ => false end in
  let total := lenN inp + lenN (k_held k) in
  let early := match k_stage k with
               | KInit => andb (kp_stableIn P) (andb isCont (total <? BLOCKMAX))
               | _ => false
               end in
  if early then
    (* pretend the input was consumed; do not initialise yet *)
    {| ko_k := k_set_held k (k_held k ++ inp); ko_consumed := Z.of_N (lenN inp); ko_out := [];
       ko_ret := Some (hdr_min (kp_magicless P)); ko_err := None |}
  else
    let k0 := match k_stage k with
              | KInit => let pledged := if isEnd then total else fc_pledge fc in
                         k_set_expect (k_init P fc pledged k) ocap
              | _ => k
              end in
    if andb (kp_stableOut P) (negb (k_expectOut k0 =? ocap)) then fail k0 Kstability
    else
      let held := k_held k0 in
      let g0 := g_mk (k_set_held k0 []) (if kp_stableIn P then held ++ inp else inp) 0 [] ocap in
      match g_loop (kfuel (length (g_in g0))) P dir g0 with
      | GErr e => fail (g_k g0) e
      | GCont _ => fail (g_k g0) (Kimpossible 2)
      | GStop g =>
          let k1 := k_set_expect (g_k g) (g_ocap g) in
          {| ko_k := k1;
             ko_consumed := (Z.of_N (g_ip g) - (if kp_stableIn P then Z.of_N (lenN held) else 0))%Z;
             ko_out := g_out g;
             ko_ret := Some (k_outContent k1 - k_outFlushed k1);
             ko_err := None |}
      end.

(* ---------- a whole history over the input stream [X]: every call offers the next [kc_n] bytes ---------- *)
Record kcall := { kc_n : N; kc_cap : N; kc_dir : directive; kc_fc : fconf }.
Fixpoint krun (P : kparams) (k : kstate) (X : bytes) (pos : N) (calls : list kcall) (emitted : bytes)
  : option (kstate * N * bytes) :=
  match calls with
  | [] => Some (k, pos, emitted)
  | c :: t =>
      let o := kstep P (kc_fc c) k (tk (kc_n c) (dr pos X)) (kc_cap c) (kc_dir c) in
      match ko_ret o with
      | None => None
      | Some _ => krun P (ko_k o) X (Z.to_N (Z.of_N pos + ko_consumed o)) t (emitted ++ ko_out o)
      end
  end.

(* ---------- driving ZSTD_e_end to completion: call i gets all the remaining input and capacity [caps i] ---------- *)
Inductive endres := EDone (ncalls : nat) | EErr | EMore (k : kstate) (R : bytes).
Fixpoint kend_run (P : kparams) (fc : fconf) (k : kstate) (R : bytes) (caps : nat -> N) (i n : nat) : endres :=
  match n with
  | O => EMore k R
  | S n' =>
      let o := kstep P fc k R (caps i) DirEnd in
      match ko_ret o with
      | None => EErr
      | Some r => if r =? 0 then EDone (S i)
                  else kend_run P fc (ko_k o) (dr (Z.to_N (ko_consumed o)) R) caps (S i) n'
      end
  end.

End Compressor.

Arguments k_stage {CS} k. Arguments k_blockSize {CS} k. Arguments k_inBuffSize {CS} k. Arguments k_outBuffSize {CS} k.
Arguments k_inBuffPos {CS} k. Arguments k_inToCompress {CS} k. Arguments k_inBuffTarget {CS} k. Arguments k_inPend {CS} k.
Arguments k_outContent {CS} k. Arguments k_outFlushed {CS} k. Arguments k_outPend {CS} k. Arguments k_frameEnded {CS} k.
Arguments k_held {CS} k. Arguments k_expectOut {CS} k. Arguments k_appliedSI {CS} k. Arguments k_cs {CS} k.
Arguments g_k {CS} g. Arguments g_in {CS} g. Arguments g_ip {CS} g. Arguments g_out {CS} g. Arguments g_ocap {CS} g.
Arguments EDone {CS} ncalls. Arguments EErr {CS}. Arguments EMore {CS} k R.
Arguments GCont {CS} g. Arguments GStop {CS} g. Arguments GErr {CS} e.
Arguments ko_k {CS} k. Arguments ko_consumed {CS} k. Arguments ko_out {CS} k. Arguments ko_ret {CS} k. Arguments ko_err {CS} k.
Arguments k_set_stage {CS}. Arguments k_set_in {CS}. Arguments k_set_out {CS}. Arguments k_set_cs {CS}. Arguments k_set_held {CS}.
Arguments k_set_expect {CS}. Arguments k_session_reset {CS}. Arguments g_mk {CS}. Arguments k_hint {CS}. Arguments k_new {CS}.
