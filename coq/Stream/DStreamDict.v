(* C02, round 2: streaming decompression WITH a dictionary attached to the context (ZSTD_DCtx_loadDictionary,
   ZSTD_DCtx_refDDict, ZSTD_initDStream_usingDict / _usingDDict: dictUses = ZSTD_use_indefinitely, every frame of the
   stream starts from the dictionary: ZSTD_decompressBegin_usingDDict copies its entropy tables, repeat offsets and
   content reference).  In the model the state a frame starts from is the section variable [b_init] of DStreamModel.v,
   and the refinement theorem holds for EVERY [b_init]: instantiating it with "R's block-decoder state after loading
   dictionary d" (the x0 / e0 of Codec/Frame.v decode_frame) gives the dictionary version of the theorem.
   The frames the model accepts carry no dictionary ID (Dictionary_ID field absent or 0: raw-content dictionaries,
   prefixes used as dictionaries, structured dictionaries on frames written with ZSTD_c_dictIDFlag = 0); a frame that
   names an ID is refused by the model with dictionary_wrong (the model has no dctx->dictID). *)
From Coq Require Import NArith List Bool.
From ZV.Codec Require Import Bytes Block Frame.
From ZV.Stream Require Import DStreamModel StreamInst StreamInstDict DStreamSpec DStreamProofs DStreamSpecLink StreamInstProofs DStreamRefine.
Import ListNotations.
Local Open Scope N_scope.

Theorem Rdict_dstream_refines_spec :
  forall (d : dict) (P : dparams),
  dp_stableOut P = false -> OBMAX P < UNKNOWN -> MINW <= dp_maxWindow P ->
  forall (src content : bytes) (calls : list dcall) outs z' rest,
  bytes_ok src ->
  Rspec_decode_d d P src = MOk content ->
  drun RH (r_init_dict d) r_raw r_rle r_cblock r_hash P (Rz_new_d d P) src calls [] = (outs, z', rest) ->
  exists crest' taken,
    content = emitted outs ++ crest' /\ src = taken ++ rest /\
    Forall (ok_ret RH) outs /\
    (last_ret RH None outs = Some (MOk 0) -> SValid RH (r_init_dict d) r_raw r_rle r_cblock r_hash P rest crest' /\ z_stage z' = ZInit) /\
    (last_ret RH None outs = Some (MOk 0) -> rest = [] -> emitted outs = content).
Proof.
  intros d P HSO HMW HMW2 src content calls outs z' rest Hb Hspec Hrun.
  exact (dstream_refines_spec RH (r_init_dict d) r_raw r_rle r_cblock r_hash P HSO HMW HMW2 r_cblock_window r_cblock_empty
           src content calls outs z' rest Hb Hspec Hrun).
Qed.

(* without a dictionary the instance is the one of round 1 *)
Lemma r_init_dict_none : r_init_dict (raw_dict []) = r_init.
Proof. reflexivity. Qed.

(* the hypotheses are satisfiable: raw-content dictionary "The quick brown fox jumps over." and the 30-byte frame that
   ZSTD_compress2 emits for "quick brown fox over The quick!" with that text as prefix (window 1 KiB, no content size, one
   compressed block whose matches reach into the dictionary); decoded in calls offering 3 bytes with room for 7: 14 calls,
   the hostage byte is released by the last one *)
Definition exd_dict : dict := raw_dict [84; 104; 101; 32; 113; 117; 105; 99; 107; 32; 98; 114; 111; 119; 110; 32; 102; 111; 120; 32; 106; 117; 109; 112; 115; 32; 111; 118; 101; 114; 46].
Definition exd_frame : bytes := [40; 181; 47; 253; 0; 0; 173; 0; 0; 120; 111; 118; 101; 114; 32; 84; 104; 101; 32; 113; 117; 105; 99; 107; 33; 1; 0; 142; 76; 32].
Definition exd_content : bytes := [113; 117; 105; 99; 107; 32; 98; 114; 111; 119; 110; 32; 102; 111; 120; 32; 111; 118; 101; 114; 32; 84; 104; 101; 32; 113; 117; 105; 99; 107; 33].
Example exd_spec : Rspec_decode_d exd_dict default_dparams exd_frame = MOk exd_content.
Proof. vm_compute. reflexivity. Qed.
(* the same frame without the dictionary is refused (its first match reaches 21 bytes behind the start of the frame) *)
Example exd_needs_dict : exists e, Rspec_decode default_dparams exd_frame = MErr e.
Proof. vm_compute. eexists. reflexivity. Qed.
Example exd_run :
  let r := drun RH (r_init_dict exd_dict) r_raw r_rle r_cblock r_hash default_dparams (Rz_new_d exd_dict default_dparams) exd_frame
                (repeat {| dc_in := 3; dc_cap := 7 |} 14) [] in
  emitted (fst (fst r)) = exd_content /\ snd r = [] /\ last_ret RH None (fst (fst r)) = Some (MOk 0).
Proof. vm_compute. repeat split. Qed.
