(* ZSTD_window_update keeps every valid index pointing at intact memory, for EVERY sequence of source segments
   (contiguous or not, overlapping earlier ones or not - in particular the streaming compressor's wrapping input buffer and
   user-managed round buffers of the buffer-less API). *)
From Coq Require Import NArith ZArith List Bool Lia.
From ZV.Codec Require Import Bytes ListLemmas.
From ZV.Gen Require Import Gen_Stream.
From ZV.Stream Require Import WindowModel.
Import ListNotations.
Local Open Scope Z_scope.

Lemma write_out m : forall d a x, (x < a \/ a + Z.of_N (lenN d) <= x) -> write m a d x = m x.
Proof.
  intros d. revert m. induction d as [|b t IH]; intros m a x Hx; [reflexivity|].
  cbn [write]. rewrite lenN_cons in Hx. rewrite IH by lia.
  destruct (Z.eqb_spec x a); [lia|reflexivity].
Qed.

Lemma write_in m : forall d a x, a <= x < a + Z.of_N (lenN d) -> write m a d x = Some (nth (Z.to_nat (x - a)) d 0%N).
Proof.
  intros d. revert m. induction d as [|b t IH]; intros m a x Hx.
  - change (lenN (@nil N)) with 0%N in Hx. lia.
  - cbn [write]. rewrite lenN_cons in Hx. destruct (Z.eq_dec x a) as [->|Hne].
    + rewrite write_out by lia. rewrite Z.eqb_refl, Z.sub_diag. reflexivity.
    + rewrite IH by lia. replace (Z.to_nat (x - a)) with (S (Z.to_nat (x - (a + 1)))) by lia. reflexivity.
Qed.

Lemma record_out h : forall d i x, (x < i \/ i + lenN d <= x)%N -> record h i d x = h x.
Proof.
  intros d. revert h. induction d as [|b t IH]; intros h i x Hx; [reflexivity|].
  cbn [record]. rewrite lenN_cons in Hx. rewrite IH by lia.
  destruct (N.eqb_spec x i); [lia|reflexivity].
Qed.

Lemma record_in h : forall d i x, (i <= x < i + lenN d)%N -> record h i d x = Some (nth (N.to_nat (x - i)) d 0%N).
Proof.
  intros d. revert h. induction d as [|b t IH]; intros h i x Hx.
  - change (lenN (@nil N)) with 0%N in Hx. lia.
  - cbn [record]. rewrite lenN_cons in Hx. destruct (N.eq_dec x i) as [->|Hne].
    + rewrite record_out by lia. rewrite N.eqb_refl, N.sub_diag. reflexivity.
    + rewrite IH by lia. replace (N.to_nat (x - i)) with (S (N.to_nat (x - (i + 1)))) by lia. reflexivity.
Qed.

(* every valid index stands for a byte of the logical history, and the memory at its address still holds that byte *)
Record WI (w : wstate) (m : mem) (h : hist) : Prop := {
  wi_end : w_base w <= w_nextSrc w;
  wi_ord : (w_lowLimit w <= w_dictLimit w <= w_end w)%N;
  wi_prefix : forall i, (w_dictLimit w <= i < w_end w)%N -> exists b, h i = Some b /\ m (w_base w + Z.of_N i) = Some b;
  wi_ext : forall i, (w_lowLimit w <= i < w_dictLimit w)%N -> exists b, h i = Some b /\ m (w_dictBase w + Z.of_N i) = Some b }.

Lemma WI_init a0 : WI (w_init a0) (fun _ => None) (fun _ => None).
Proof.
  constructor; unfold w_init, w_end; cbn [w_base w_nextSrc w_dictLimit w_lowLimit]; try lia; intros i Hi; lia.
Qed.

Lemma WI_clear w m h : WI w m h -> WI (w_clear w) m h.
Proof.
  intros [He Ho Hp Hx]. constructor; unfold w_clear, w_end in *; cbn [w_base w_nextSrc w_dictLimit w_lowLimit w_dictBase]; try lia; intros i Hi; lia.
Qed.

Lemma WI_update w m h ip d force :
  WI w m h ->
  let w' := fst (w_update w ip (lenN d) force) in WI w' (write m ip d) (record h (w_end w' - lenN d)%N d).
Proof.
  intros [He Ho Hp Hx]. cbv zeta.
  set (n := lenN d). unfold w_update.
  destruct (N.eqb_spec n 0) as [Hn0|Hn0].
  - (* empty segment: nothing happens *)
    cbn [fst]. assert (d = []) as -> by (destruct d; [reflexivity|unfold n in Hn0; rewrite lenN_cons in Hn0; lia]).
    cbn [write record]. constructor; assumption.
  - assert (Hn : (1 <= n)%N) by lia.
    assert (Hendz : Z.of_N (w_end w) = w_nextSrc w - w_base w) by (unfold w_end; lia).
    destruct (orb (negb (ip =? w_nextSrc w)) force) eqn:Enc.
    + (* a new segment starts: the prefix becomes the external dictionary *)
      cbn [fst w_base w_dictBase w_dictLimit w_lowLimit w_nextSrc].
      set (dist := w_end w) in *.
      set (low1 := if (dist - w_dictLimit w <? s_HASH_READ_SIZE)%N then dist else w_dictLimit w).
      assert (Hlow1 : (w_dictLimit w <= low1 <= dist)%N) by (unfold low1; destruct (_ <? _)%N; lia).
      match goal with |- WI ?w' _ _ => set (W := w') end.
      assert (Hend' : w_end W = (dist + n)%N) by (unfold w_end, W; cbn [w_nextSrc w_base]; lia).
      rewrite Hend'. replace (dist + n - n)%N with dist by lia.
      assert (Hlow2 : (low1 <= w_lowLimit W <= dist)%N /\
                      forall i, (w_lowLimit W <= i < dist)%N -> w_base w + Z.of_N i < ip \/ ip + Z.of_N n <= w_base w + Z.of_N i).
      { unfold W. cbn [w_lowLimit]. destruct (andb _ _) eqn:Eov.
        - apply andb_prop in Eov. destruct Eov as [E1 E2]. apply Z.ltb_lt in E1, E2.
          destruct (N.ltb_spec dist (Z.to_N (ip + Z.of_N n - w_base w))) as [Hl|Hl]; (split; [lia|intros i Hi; lia]).
        - split; [lia|]. intros i Hi. apply andb_false_iff in Eov. destruct Eov as [E|E]; [apply Z.ltb_ge in E|apply Z.ltb_ge in E]; lia. }
      destruct Hlow2 as [Hl2 Hdisj].
      assert (EdL : w_dictLimit W = dist) by reflexivity.
      assert (Eb : w_base W = ip - Z.of_N dist) by reflexivity.
      assert (Edb : w_dictBase W = w_base w) by reflexivity.
      assert (Ens : w_nextSrc W = ip + Z.of_N n) by reflexivity.
      constructor; rewrite ?Hend', ?EdL, ?Eb, ?Edb, ?Ens.
      * lia.
      * lia.
      * intros i Hi. exists (nth (N.to_nat (i - dist)) d 0%N). split.
        -- apply record_in. fold n. lia.
        -- rewrite write_in by (fold n; lia). f_equal. f_equal. lia.
      * intros i Hi.
        assert (Hi0 : (w_dictLimit w <= i < dist)%N) by lia.
        destruct (Hp i Hi0) as (b & Hb1 & Hb2). exists b. split.
        -- rewrite record_out by lia. exact Hb1.
        -- rewrite write_out by (fold n; specialize (Hdisj i ltac:(lia)); lia). exact Hb2.
    + (* the segment continues the prefix *)
      apply orb_false_iff in Enc. destruct Enc as [Eip _]. apply negb_false_iff, Z.eqb_eq in Eip.
      cbn [fst w_base w_dictBase w_dictLimit w_lowLimit w_nextSrc].
      set (dist := w_end w) in *.
      match goal with |- WI ?w' _ _ => set (W := w') end.
      assert (Hend' : w_end W = (dist + n)%N) by (unfold w_end, W; cbn [w_nextSrc w_base]; lia).
      rewrite Hend'. replace (dist + n - n)%N with dist by lia.
      assert (Hlow2 : (w_lowLimit w <= w_lowLimit W <= w_dictLimit w)%N /\
                      forall i, (w_lowLimit W <= i < w_dictLimit w)%N -> w_dictBase w + Z.of_N i < ip \/ ip + Z.of_N n <= w_dictBase w + Z.of_N i).
      { unfold W. cbn [w_lowLimit]. destruct (andb _ _) eqn:Eov.
        - apply andb_prop in Eov. destruct Eov as [E1 E2]. apply Z.ltb_lt in E1, E2.
          destruct (N.ltb_spec (w_dictLimit w) (Z.to_N (ip + Z.of_N n - w_dictBase w))) as [Hl|Hl]; (split; [lia|intros i Hi; lia]).
        - split; [lia|]. intros i Hi. apply andb_false_iff in Eov. destruct Eov as [E|E]; [apply Z.ltb_ge in E|apply Z.ltb_ge in E]; lia. }
      destruct Hlow2 as [Hl2 Hdisj].
      assert (EdL : w_dictLimit W = w_dictLimit w) by reflexivity.
      assert (Eb : w_base W = w_base w) by reflexivity.
      assert (Edb : w_dictBase W = w_dictBase w) by reflexivity.
      assert (Ens : w_nextSrc W = ip + Z.of_N n) by reflexivity.
      constructor; rewrite ?Hend', ?EdL, ?Eb, ?Edb, ?Ens.
      * lia.
      * lia.
      * intros i Hi. destruct (N.lt_ge_cases i dist) as [Hold|Hnew].
        -- destruct (Hp i ltac:(lia)) as (b & Hb1 & Hb2). exists b. split.
           ++ rewrite record_out by lia. exact Hb1.
           ++ rewrite write_out by lia. exact Hb2.
        -- exists (nth (N.to_nat (i - dist)) d 0%N). split.
           ++ apply record_in. fold n. lia.
           ++ rewrite write_in by (fold n; lia). f_equal. f_equal. lia.
      * intros i Hi.
        destruct (Hx i ltac:(lia)) as (b & Hb1 & Hb2). exists b. split.
        -- rewrite record_out by lia. exact Hb1.
        -- rewrite write_out by (fold n; specialize (Hdisj i ltac:(lia)); lia). exact Hb2.
Qed.

(* raising the low limit (maximum-distance rule) only forgets indices *)
Lemma WI_enforce w m h idx md : WI w m h -> (idx <= w_end w)%N -> WI (w_enforce w idx md) m h /\ w_end (w_enforce w idx md) = w_end w.
Proof.
  intros [He Ho Hp Hx] Hidx. unfold w_enforce. destruct (md <? idx)%N; [|split; [constructor; assumption|reflexivity]].
  split; [|reflexivity]. constructor; unfold w_end in *; cbn [w_base w_dictBase w_dictLimit w_lowLimit w_nextSrc].
  - exact He.
  - lia.
  - intros i Hi. apply Hp. lia.
  - intros i Hi. apply Hx. lia.
Qed.

Lemma WI_blocks m h bs md : forall fuel w idx remaining,
  WI w m h -> (idx + remaining = w_end w)%N ->
  WI (w_blocks fuel w idx remaining bs md) m h /\ w_end (w_blocks fuel w idx remaining bs md) = w_end w.
Proof.
  induction fuel as [|f IH]; intros w idx remaining HW Hsum; cbn [w_blocks]; [split; [exact HW|reflexivity]|].
  destruct (remaining =? 0)%N; [split; [exact HW|reflexivity]|].
  destruct (WI_enforce w m h idx md HW ltac:(lia)) as [HW1 He1].
  destruct (IH (w_enforce w idx md) (idx + N.min remaining bs)%N (remaining - N.min remaining bs)%N HW1 ltac:(lia)) as [HW2 He2].
  split; [exact HW2|]. rewrite He2. exact He1.
Qed.

Lemma WI_step bs md w m h s :
  WI w m h -> let r := w_step bs md (w, m, h) s in WI (fst (fst r)) (snd (fst r)) (snd r).
Proof.
  intros HW. cbv zeta. unfold w_step, w_chunk. destruct s as [ip d force]. cbn [sg_ip sg_data sg_force fst snd].
  pose proof (WI_update w m h ip d force HW) as HU. cbv zeta in HU.
  set (w1 := fst (w_update w ip (lenN d) force)) in *.
  assert (Hle : (lenN d <= w_end w1)%N).
  { unfold w1, w_update. destruct (lenN d =? 0)%N eqn:E0; [apply N.eqb_eq in E0; cbn [fst]; lia|].
    destruct HW as [He _ _ _]. destruct (orb (negb (ip =? w_nextSrc w)) force) eqn:Enc; cbn [fst]; unfold w_end; cbn [w_nextSrc w_base]; [lia|].
    apply orb_false_iff in Enc. destruct Enc as [Eip _]. apply negb_false_iff, Z.eqb_eq in Eip. lia. }
  destruct (WI_blocks (write m ip d) (record h (w_end w1 - lenN d)%N d) (N.max 1 bs) md (S (N.to_nat (lenN d))) w1
              (w_end w1 - lenN d)%N (lenN d) HU ltac:(lia)) as [HB HE].
  rewrite HE. exact HB.
Qed.

Lemma WI_fold bs md : forall segs (st : wstate * mem * hist),
  WI (fst (fst st)) (snd (fst st)) (snd st) ->
  let r := fold_left (w_step bs md) segs st in WI (fst (fst r)) (snd (fst r)) (snd r).
Proof.
  induction segs as [|s t IH]; intros st HW; cbn [fold_left]; [exact HW|].
  apply IH. destruct st as [[w m] h]. apply (WI_step bs md w m h s). exact HW.
Qed.

Lemma WI_run a0 bs md segs : let '(w, m, h) := w_run a0 bs md segs in WI w m h.
Proof.
  pose proof (WI_fold bs md segs (w_init a0, (fun _ => None), (fun _ => None)) (WI_init a0)) as HF. cbv zeta in HF.
  unfold w_run. destruct (fold_left (w_step bs md) segs (w_init a0, fun _ : Z => None, fun _ : N => None)) as [[w m] h]. exact HF.
Qed.

(* window_sound: after ANY sequence of segments every index a match finder may use (lowLimit <= i < end) names a byte
   of the logical history, and the memory at the address the index stands for still holds exactly that byte *)
Theorem window_sound a0 bs md segs :
  let '(w, m, h) := w_run a0 bs md segs in
  forall i, (w_lowLimit w <= i < w_end w)%N -> exists b, h i = Some b /\ m (w_addr w i) = Some b.
Proof.
  pose proof (WI_run a0 bs md segs) as HW. destruct (w_run a0 bs md segs) as [[w m] h]. destruct HW as [He Ho Hp Hx].
  intros i Hi. unfold w_addr. destruct (N.ltb_spec i (w_dictLimit w)); [apply Hx|apply Hp]; lia.
Qed.

(* in particular the external-dictionary segment never overlaps the segment that was just added *)
Theorem window_extdict_disjoint w ip n force :
  (1 <= n)%N -> let w' := fst (w_update w ip n force) in
  forall i, (w_lowLimit w' <= i < w_dictLimit w')%N ->
    w_dictBase w' + Z.of_N i < ip \/ ip + Z.of_N n <= w_dictBase w' + Z.of_N i.
Proof.
  intros Hn. unfold w_update. replace (n =? 0)%N with false by (symmetry; apply N.eqb_neq; lia).
  destruct (orb _ force); cbn [fst w_dictBase w_dictLimit w_lowLimit];
    (destruct (andb _ _) eqn:Eov;
     [apply andb_prop in Eov; destruct Eov as [E1 E2]; apply Z.ltb_lt in E1, E2; intros i Hi;
      match goal with |- context [if ?c then _ else _] => idtac | _ => idtac end;
      match type of Hi with context [if ?c then _ else _] => destruct c eqn:Ec; [apply N.ltb_lt in Ec|apply N.ltb_ge in Ec] | _ => idtac end; lia
     |intros i Hi; apply andb_false_iff in Eov; destruct Eov as [E|E]; apply Z.ltb_ge in E; lia]).
Qed.
