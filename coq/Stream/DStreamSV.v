(* What a valid stream ([SValid]) says about its first frame header. *)
From Coq Require Import NArith ZArith List Bool Lia PeanoNat.
From ZV.Codec Require Import Bytes ListLemmas.
From ZV.Gen Require Import Gen_Stream.
From ZV.Stream Require Import DStreamModel StreamLemmas.
From ZV.Stream Require Import DStreamSpec DStreamHeader.
Import ListNotations.
Local Open Scope N_scope.

Ltac Zify.zify_post_hook ::= Z.div_mod_to_equations.

Section SV.
Variable H : Type.
Variable b_init : H.
Variable b_raw : H -> bytes -> H.
Variable b_rle : H -> N -> N -> H.
Variable b_cblock : N -> N -> H -> bytes -> res (H * bytes).
Variable b_hash : bytes -> N.
Variable P : dparams.

Notation SValid := (SValid H b_init b_raw b_rle b_cblock b_hash).
Notation Hdr := (Hdr P).
Notation ml := (dp_magicless P).

Lemma zmagic_not_skip : is_skip_magic ZMAGIC = false.
Proof. vm_compute. reflexivity. Qed.

Lemma sv_nil_inv crest : SValid P [] crest -> crest = [].
Proof.
  intros HS. inversion HS; subst; try reflexivity; exfalso.
  - match goal with X : SKIPHDR <= lenN [] |- _ => change (lenN (@nil N)) with 0 in X; change SKIPHDR with 8 in X; lia end.
  - match goal with X : prefix_len ml <= lenN [] |- _ => change (lenN (@nil N)) with 0 in X;
      unfold prefix_len, s_PREFIX_magicless, s_PREFIX_zstd1 in X; destruct ml; lia end.
Qed.

Theorem sv_hdr s crest : SValid P s crest -> s <> [] -> exists hs fp, Hdr s hs fp.
Proof.
  intros HS Hne. inversion HS as [|s0 n c Hml Hl Hmagic Hn Hnl HS'|s0 fp0 chunks rest1 crest1 Hl Hmagic Hhs Hg Hdid Hw HB HFE]; subst.
  - contradiction.
  - eexists _, _. apply Hdr_skip; assumption.
  - eexists _, _. apply Hdr_frame; eassumption.
Qed.

Theorem sv_skip s crest hs fp : SValid P s crest -> Hdr s hs fp -> fp_skippable fp = true ->
  ml = false /\ is_skip_magic (le32 (tk hs s)) = true /\ fp_window fp = 0 /\
  sub_le (tk hs s) s_ZSTD_FRAMEIDSIZE 4 <= lenN (dr hs s) /\ SValid P (dr (sub_le (tk hs s) s_ZSTD_FRAMEIDSIZE 4) (dr hs s)) crest.
Proof.
  intros HS HH Hsk.
  destruct HH as [s Hml Hl Hmagic|s fp0 Hl Hmagic Hhs Hg].
  - change SKIPHDR with 8 in *. change s_ZSTD_FRAMEIDSIZE with 4 in *.
    split; [exact Hml|]. rewrite le32_tk by lia. split; [exact Hmagic|]. split; [reflexivity|].
    rewrite sub_le_tk by lia.
    inversion HS as [|s0 n c Hml2 Hl2 Hmagic2 Hn Hnl HS'|s0 fp0 chunks rest1 crest1 Hl2 Hmagic2]; subst.
    + change (lenN (@nil N)) with 0 in Hl. lia.
    + change SKIPHDR with 8 in *. change s_ZSTD_FRAMEIDSIZE with 4 in *. rewrite len_dr. split; [lia|].
      rewrite dr_dr. replace (8 + sub_le s 4 4) with (sub_le s 4 4 + 8) by lia. exact HS'.
    + exfalso. specialize (Hmagic2 Hml). rewrite Hmagic2, zmagic_not_skip in Hmagic. discriminate.
  - exfalso. destruct (gfh_frame_facts P _ _ Hg) as [Hns _]; [|congruence].
    intros Hml. rewrite le32_tk; [apply Hmagic; exact Hml|].
    pose proof (fhs_ge ml s) as X. rewrite Hml in *. change (prefix_len false) with 5 in X. lia.
Qed.

Theorem sv_frame s crest hs fp0 : SValid P s crest -> Hdr s hs fp0 -> fp_skippable fp0 = false ->
  (ml = false -> is_skip_magic (le32 (tk hs s)) = false) /\
  fp_dictid fp0 = 0 /\ N.max (fp_window fp0) MINW <= dp_maxWindow P /\
  fp_blockMax fp0 <= fp_window fp0 /\
  exists chunks rest1 crest1,
    blocks H b_raw b_rle b_cblock (sfp P fp0) b_init (dr hs s) chunks rest1 /\
    frame_end b_hash (SValid P) P (sfp P fp0) (concat chunks) rest1 crest1 /\ crest = concat chunks ++ crest1.
Proof.
  intros HS HH Hsk.
  destruct HH as [s Hml Hl Hmagic|s fp0 Hl Hmagic Hhs Hg]; [discriminate|].
  assert (Hm' : ml = false -> le32 (tk (frame_header_size ml s) s) = ZMAGIC).
  { intros Hml. rewrite le32_tk; [apply Hmagic; exact Hml|].
    pose proof (fhs_ge ml s) as X. rewrite Hml in *. change (prefix_len false) with 5 in X. lia. }
  destruct (gfh_frame_facts P _ _ Hg Hm') as [_ Hbm].
  split; [intros Hml; rewrite (Hm' Hml); apply zmagic_not_skip|].
  inversion HS as [|s0 n c Hml2 Hl2 Hmagic2 Hn Hnl HS'|s0 fp1 chunks rest1 crest1 Hl2 Hmagic2 Hhs2 Hg2 Hdid Hw HB HFE]; subst.
  - exfalso. change (lenN (@nil N)) with 0 in Hl. unfold prefix_len, s_PREFIX_magicless, s_PREFIX_zstd1 in Hl. destruct ml; lia.
  - exfalso. rewrite (Hmagic Hml2), zmagic_not_skip in Hmagic2. discriminate.
  - rewrite Hg in Hg2. inversion Hg2; subst fp1.
    split; [exact Hdid|]. split; [exact Hw|]. split; [rewrite Hbm; lia|].
    exists chunks, rest1, crest1. split; [exact HB|]. split; [exact HFE|reflexivity].
Qed.

End SV.
