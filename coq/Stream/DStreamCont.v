(* One call of ZSTD_decompressContinue (model [dcontinue]) at a position of a valid stream: it succeeds whenever the
   destination has room for what it regenerates, emits the next part of the content and reaches the next position. *)
From Coq Require Import NArith ZArith List Bool Lia PeanoNat.
From ZV.Codec Require Import Bytes ListLemmas.
From ZV.Gen Require Import Gen_Stream.
From ZV.Stream Require Import DStreamModel StreamLemmas.
From ZV.Stream Require Import DStreamSpec.
Import ListNotations.
Local Open Scope N_scope.

Ltac Zify.zify_post_hook ::= Z.div_mod_to_equations.

Section Cont.
Variable H : Type.
Variable b_init : H.
Variable b_raw : H -> bytes -> H.
Variable b_rle : H -> N -> N -> H.
Variable b_cblock : N -> N -> H -> bytes -> res (H * bytes).
Variable b_hash : bytes -> N.

Notation cstate := (cstate H).
Notation dcontinue := (dcontinue H b_raw b_rle b_cblock b_hash).
Notation block_body := (block_body H b_raw b_rle b_cblock).
Notation block_finish := (@block_finish H).
Notation block_at := (block_at H b_raw b_rle b_cblock).
Notation blocks := (blocks H b_raw b_rle b_cblock).
Notation SValid := (SValid H b_init b_raw b_rle b_cblock b_hash).
Notation frame_end := (frame_end b_hash).
Notation after_block := (after_block H b_init b_raw b_rle b_cblock b_hash).
Notation Pos := (Pos H b_init b_raw b_rle b_cblock b_hash).
Notation cwf := (cwf H).

(* sizes a caller may legally feed at a position: exactly [c_expected], or any non-empty part of a raw block *)
Definition legal (c : cstate) (n : N) : Prop :=
  if is_block_stage c then
    match c_btype c with
    | BtRaw => 1 <= n <= c_expected c
    | _ => n = c_expected c
    end
  else n = c_expected c.

Lemma legal_next (c : cstate) avail : c_expected c <> 0 -> c_expected c <= avail \/ (is_block_stage c = true /\ c_btype c = BtRaw /\ 1 <= avail) ->
  legal c (next_with_input c avail) /\ next_with_input c avail <= avail.
Proof.
  intros He Ha. unfold legal, next_with_input. destruct (is_block_stage c) eqn:Eb.
  - destruct (c_btype c) eqn:Et; try (destruct Ha as [Ha|(_ & Hx & _)]; [split; [reflexivity|exact Ha]|discriminate]).
    destruct Ha as [Ha|(_ & _ & Ha)]; split; lia.
  - destruct Ha as [Ha|(Hx & _)]; [split; [reflexivity|exact Ha]|discriminate].
Qed.

Lemma next_legal (c : cstate) n : legal c n -> next_with_input c n = n.
Proof.
  unfold legal, next_with_input. destruct (is_block_stage c); [|congruence].
  destruct (c_btype c); try congruence. lia.
Qed.

Definition in_frame (c : cstate) : bool :=
  match c_stage c with DDecodeBH | DBlock | DLastBlock | DChecksum => true | _ => false end.

Definition Step (P : dparams) (c : cstate) (n : N) (rest crest : bytes) : Prop :=
  exists c' o crest',
    crest = o ++ crest' /\ Pos P c' (dr n rest) crest' /\ c_fp c' = c_fp c /\ frame_out c' = frame_out c ++ o /\
    lenN o <= fp_blockMax (c_fp c) /\
    (is_skip c = true -> o = [] /\ in_frame c' = false) /\
    (o <> [] -> fp_fcs (c_fp c) <> UNKNOWN -> lenN (frame_out c) + lenN o <= fp_fcs (c_fp c)) /\
    (forall cap src, (is_skip c = false -> src = tk n rest) -> lenN o <= cap -> dcontinue P c cap src n = MOk (c', o)).

(* the state reached after a completed block *)
Lemma after_block_pos P (c1 : cstate) last h' restb crest' :
  after_block P (c_fp c1) last h' (frame_out c1) restb crest' ->
  c_h c1 = h' -> c_raw c1 = [] -> cwf P c1 ->
  if last then
    andb (negb (fp_fcs (c_fp c1) =? UNKNOWN)) (negb (c_decoded c1 =? fp_fcs (c_fp c1))) = false /\
    Pos P (if fp_checksum (c_fp c1) then c_goto c1 DChecksum 4 else c_goto c1 DGetFHSize 0) restb crest'
  else Pos P (c_goto c1 DDecodeBH BHS) restb crest'.
Proof.
  intros A Hh Hr W. unfold DStreamSpec.after_block in A. destruct last.
  - destruct A as [Hf (after & Hck & HS)]. split.
    + destruct Hf as [Hf|Hf].
      * rewrite Hf, N.eqb_refl. reflexivity.
      * rewrite (cw_dec _ _ _ W), Hf, N.eqb_refl, andb_false_r. reflexivity.
    + destruct (fp_checksum (c_fp c1)) eqn:Eck.
      * destruct Hck as (Hl & -> & Hh4). apply Pos_ck; try reflexivity; auto.
        apply cwf_goto. exact W.
      * subst after. apply Pos_end; try reflexivity. exact HS.
  - destruct A as (chunks & rest1 & crest1 & B & FE & ->).
    eapply Pos_bh; try reflexivity; eauto.
    + apply cwf_goto. exact W.
    + cbn [c_h c_goto c_fp]. rewrite Hh. exact B.
Qed.

Lemma ltb_false_le a b : b <= a -> (a <? b) = false.
Proof. intros. apply N.ltb_ge. assumption. Qed.

(* ---- block header ---- *)
Lemma dcont_bh P (c : cstate) rest crest chunks rest1 crest1 :
  c_stage c = DDecodeBH -> c_expected c = BHS -> cwf P c -> c_raw c = [] ->
  blocks (c_fp c) (c_h c) rest chunks rest1 ->
  frame_end (SValid P) P (c_fp c) (frame_out c ++ concat chunks) rest1 crest1 ->
  crest = concat chunks ++ crest1 ->
  Step P c BHS rest crest.
Proof.
  intros Hst Hex W Hraw B FE ->.
  destruct (blocks_inv _ _ _ _ _ _ _ _ _ _ _ _ _ _ B FE) as (bp & pl & out & h' & restb & crest' & BA & AB & Ec).
  destruct BA as [Hlen Hhdr Hplen Hpl Hrest Hcmax Homax Hbody].
  assert (Hskip : is_skip c = false) by (unfold is_skip; rewrite Hst; reflexivity).
  assert (Hnx : forall n, next_with_input c n = BHS).
  { intros n. unfold next_with_input, is_block_stage. rewrite Hst. exact Hex. }
  assert (Hcm : (fp_blockMax (c_fp c) <? match bp_type bp with BtRle => bp_orig bp | _ => bp_csize bp end) = false)
    by (apply ltb_false_le; exact Hcmax).
  destruct (N.eqb_spec (bp_csize bp) 0) as [Hz|Hnz].
  - (* empty block: only a raw block can have size 0 *)
    assert (Ht : bp_type bp = BtRaw).
    { destruct (bp_type bp) eqn:Et; try reflexivity.
      - pose proof (getc_rle _ _ Hhdr Et). lia.
      - destruct Hbody as [Hb _]. contradiction.
      - contradiction. }
    rewrite Ht in Hbody. destruct Hbody as [Hh' Hout]. subst h'.
    assert (Hout0 : out = []).
    { rewrite Hout, Hpl, Hz. reflexivity. }
    clear Hout. subst out. rewrite app_nil_r in AB. cbn [app] in Ec.
    assert (Hrb : restb = dr BHS rest) by (rewrite Hrest, Hz; reflexivity).
    destruct (bp_last bp) eqn:El.
    + (* empty last block *)
      set (c1 := c_set_block c DDecodeBH BHS (bp_type bp) (bp_orig bp)).
      assert (A1 : after_block P (c_fp c1) true (c_h c) (frame_out c1) restb crest') by exact AB.
      pose proof (after_block_pos P c1 true (c_h c) restb crest' A1 eq_refl Hraw (cwf_set_block _ _ _ _ _ _ _ W)) as [Hfcs HP].
      exists (if fp_checksum (c_fp c) then c_set_block c DChecksum 4 (bp_type bp) (bp_orig bp)
              else c_set_block c DGetFHSize 0 (bp_type bp) (bp_orig bp)), [], crest'.
      split; [exact Ec|]. split.
      { rewrite <- Hrb. change (fp_checksum (c_fp c1)) with (fp_checksum (c_fp c)) in HP.
        destruct (fp_checksum (c_fp c)); exact HP. }
      split; [destruct (fp_checksum (c_fp c)); reflexivity|].
      split; [rewrite app_nil_r; destruct (fp_checksum (c_fp c)); reflexivity|].
      split; [change (lenN (@nil N)) with 0; lia|]. split; [intros X; congruence|].
      split; [intros X; contradiction|].
      intros cap src Hsrc _. rewrite (Hsrc Hskip).
      unfold DStreamModel.dcontinue. rewrite Hnx, N.eqb_refl. cbn [negb mguard mbind]. rewrite Hst, Hhdr. cbn [mbind].
      rewrite Hcm. cbn [mguard mbind]. rewrite Hz. cbn [N.eqb negb]. rewrite El.
      change (c_decoded c1) with (c_decoded c) in Hfcs. change (c_fp c1) with (c_fp c) in Hfcs. rewrite Hfcs. cbn [mguard mbind].
      destruct (fp_checksum (c_fp c)); reflexivity.
    + (* empty block, more follow *)
      set (c1 := c_set_block c DDecodeBH BHS (bp_type bp) (bp_orig bp)).
      assert (A1 : after_block P (c_fp c1) false (c_h c) (frame_out c1) restb crest') by exact AB.
      pose proof (after_block_pos P c1 false (c_h c) restb crest' A1 eq_refl Hraw (cwf_set_block _ _ _ _ _ _ _ W)) as HP.
      exists c1, [], crest'.
      split; [exact Ec|]. split; [rewrite <- Hrb; exact HP|].
      split; [reflexivity|]. split; [rewrite app_nil_r; reflexivity|].
      split; [change (lenN (@nil N)) with 0; lia|]. split; [intros X; congruence|].
      split; [intros X; contradiction|].
      intros cap src Hsrc _. rewrite (Hsrc Hskip).
      unfold DStreamModel.dcontinue. rewrite Hnx, N.eqb_refl. cbn [negb mguard mbind]. rewrite Hst, Hhdr. cbn [mbind].
      rewrite Hcm. cbn [mguard mbind]. rewrite Hz. cbn [N.eqb negb]. rewrite El. reflexivity.
  - (* a block with a payload follows *)
    set (c1 := c_set_block c (if bp_last bp then DLastBlock else DBlock) (bp_csize bp) (bp_type bp) (bp_orig bp)).
    exists c1, [], (concat chunks ++ crest1).
    split; [reflexivity|]. split.
    + assert (Hplen' : lenN pl = bp_csize bp) by (rewrite Hpl, len_tk; lia).
      eapply Pos_blk with (bp := bp) (payload := pl) (rem := pl) (rout := out) (h' := h') (restb := restb) (crest' := crest'); try reflexivity.
      * apply cwf_set_block. exact W.
      * change (c_raw c1) with (c_raw c). rewrite Hraw. reflexivity.
      * change (c_expected c1) with (bp_csize bp). symmetry. exact Hplen'.
      * lia.
      * rewrite Hpl, Hrest. symmetry. apply tk_dr.
      * intros _. exact Hraw.
      * intros Hnr. change (c_fp c1) with (c_fp c). rewrite Hplen'. destruct (bp_type bp); try exact Hcmax. contradiction.
      * change (c_raw c1) with (c_raw c). rewrite Hraw. cbn [rev]. change (lenN (@nil N)) with 0.
        change (c_fp c1) with (c_fp c). lia.
      * change (c_fp c1) with (c_fp c). change (c_h c1) with (c_h c).
        destruct (bp_type bp) eqn:Et.
        -- destruct Hbody as [Hh' Ho]. split; [exact Hh'|exact Ho].
        -- destruct Hbody as [Hh' Ho]. split; [exact Hh'|]. split; [exact Ho|].
           rewrite Hplen'. apply (getc_rle _ _ Hhdr Et).
        -- destruct Hbody as [_ Hb]. exact Hb.
        -- contradiction.
      * exact AB.
      * exact Ec.
    + split; [reflexivity|]. split; [rewrite app_nil_r; reflexivity|].
      split; [change (lenN (@nil N)) with 0; lia|]. split; [intros X; congruence|].
      split; [intros X; contradiction|].
      intros cap src Hsrc _. rewrite (Hsrc Hskip).
      unfold DStreamModel.dcontinue. rewrite Hnx, N.eqb_refl. cbn [negb mguard mbind]. rewrite Hst, Hhdr. cbn [mbind].
      rewrite Hcm. cbn [mguard mbind]. apply N.eqb_neq in Hnz. rewrite Hnz. cbn [negb]. reflexivity.
Qed.

Lemma after_block_bound P fp last h' fout' restb crest' :
  after_block P fp last h' fout' restb crest' -> fp_fcs fp <> UNKNOWN -> lenN fout' <= fp_fcs fp.
Proof.
  unfold DStreamSpec.after_block. destruct last.
  - intros [[Hf|Hf] _] Hu; [contradiction|lia].
  - intros (chunks & rest1 & crest1 & _ & [[Hf|Hf] _] & _) Hu; [contradiction|]. rewrite lenN_app in Hf. lia.
Qed.

Lemma le32_tk4 (l : bytes) : le32 (tk 4 l) = le32 l.
Proof.
  unfold le32, sub_le. rewrite !dr_0. f_equal. unfold tk. rewrite firstn_firstn. reflexivity.
Qed.

Lemma rev'_rev_append_raw (src craw : bytes) : rev' (rev_append src craw) = rev craw ++ src.
Proof. rewrite rev'_rev, rev_append_rev, rev_app_distr, rev_involutive. reflexivity. Qed.

(* the end of block_finish once a block is complete *)
Lemma finish_full P (c : cstate) (last : bool) h' out restb crest' :
  c_stage c = (if last then DLastBlock else DBlock) -> cwf P c ->
  lenN out <= fp_blockMax (c_fp c) ->
  after_block P (c_fp c) last h' (frame_out c ++ out) restb crest' ->
  exists c', block_finish c (h', out, 0, []) = MOk (c', out) /\ Pos P c' restb crest' /\ c_fp c' = c_fp c /\
             frame_out c' = frame_out c ++ out.
Proof.
  intros Hst W Hmax AB.
  set (c1 := c_after_block c 0 out [] h').
  assert (A1 : after_block P (c_fp c1) last h' (frame_out c1) restb crest').
  { unfold c1. rewrite frame_out_after. exact AB. }
  pose proof (after_block_pos P c1 last h' restb crest' A1 eq_refl eq_refl (cwf_after _ _ _ _ _ _ _ W)) as HP.
  unfold DStreamModel.block_finish. rewrite (ltb_false_le _ _ Hmax). cbn [mguard mbind].
  change (0 <? 0) with false. cbv iota. rewrite Hst. fold c1.
  destruct last.
  - destruct HP as [Hfcs HP]. change (c_fp c1) with (c_fp c) in *. rewrite Hfcs. cbn [mguard mbind].
    destruct (fp_checksum (c_fp c)); eexists; (split; [reflexivity|]); (split; [exact HP|]); split; try reflexivity;
      apply frame_out_after.
  - eexists. split; [reflexivity|]. split; [exact HP|]. split; [reflexivity|]. apply frame_out_after.
Qed.

Lemma dcontinue_block P (c : cstate) cap src n :
  is_block_stage c = true -> next_with_input c n = n ->
  dcontinue P c cap src n = mbind (block_body c cap src n) (block_finish c).
Proof.
  intros Hb Hnx. unfold DStreamModel.dcontinue. rewrite Hnx, N.eqb_refl. cbn [negb mguard mbind].
  unfold is_block_stage in Hb. destruct (c_stage c); try discriminate; reflexivity.
Qed.

(* ---- a block payload (whole, or a part of a raw block) ---- *)
Lemma dcont_blk P (c : cstate) rest crest bp payload rem rout h' restb crest' n :
  c_stage c = (if bp_last bp then DLastBlock else DBlock) -> c_btype c = bp_type bp -> c_rleSize c = bp_orig bp ->
  cwf P c ->
  payload = rev (c_raw c) ++ rem -> c_expected c = lenN rem -> 0 < lenN rem -> rest = rem ++ restb ->
  (bp_type bp <> BtRaw -> c_raw c = []) ->
  (bp_type bp <> BtRle -> lenN payload <= fp_blockMax (c_fp c)) ->
  lenN (rev (c_raw c)) + lenN rout <= fp_blockMax (c_fp c) ->
  match bp_type bp with
  | BtCompressed => b_cblock (fp_window (c_fp c)) (fp_blockMax (c_fp c)) (c_h c) payload = Ok (h', rout)
  | BtRaw => h' = b_raw (c_h c) payload /\ rout = rem
  | BtRle => h' = b_rle (c_h c) (nthN payload 0 0) (bp_orig bp) /\ rout = repeat_byte (nthN payload 0 0) (bp_orig bp) /\ lenN payload = 1
  | BtReserved => False
  end ->
  after_block P (c_fp c) (bp_last bp) h' (frame_out c ++ rout) restb crest' ->
  crest = rout ++ crest' ->
  legal c n ->
  Step P c n rest crest.
Proof.
  intros Hst Hbt Hrle W Hpl Hex Hpos Hrest Hraw Hpmax Hmax Hbody AB -> Hleg.
  assert (Hbs : is_block_stage c = true) by (unfold is_block_stage; rewrite Hst; destruct (bp_last bp); reflexivity).
  assert (Hskip : is_skip c = false) by (unfold is_skip; rewrite Hst; destruct (bp_last bp); reflexivity).
  pose proof (next_legal c n Hleg) as Hnx.
  unfold legal in Hleg. rewrite Hbs, Hbt in Hleg.
  assert (Hbound : forall o : bytes, lenN o <= lenN rout -> o <> [] -> fp_fcs (c_fp c) <> UNKNOWN ->
                             lenN (frame_out c) + lenN o <= fp_fcs (c_fp c)).
  { intros o Ho _ Hu. pose proof (after_block_bound _ _ _ _ _ _ _ AB Hu) as Hb. rewrite lenN_app in Hb. lia. }
  destruct (N.eq_dec n (lenN rem)) as [Hn|Hn].
  - (* the whole (rest of the) block *)
    subst n.
    assert (Hsrc : tk (lenN rem) rest = rem) by (rewrite Hrest; apply tk_app_exact).
    assert (Hdr : dr (lenN rem) rest = restb) by (rewrite Hrest; apply dr_app_exact).
    assert (Hromax : lenN rout <= fp_blockMax (c_fp c)) by lia.
    destruct (finish_full P c (bp_last bp) h' rout restb crest' Hst W Hromax AB) as (c' & Hfin & HP & Hfp & Hfo).
    exists c', rout, crest'. split; [reflexivity|]. split; [rewrite Hdr; exact HP|]. split; [exact Hfp|].
    split; [exact Hfo|]. split; [exact Hromax|]. split; [intros X; congruence|]. split; [apply Hbound; lia|].
    intros cap src Hs Hcap. rewrite (Hs Hskip), Hsrc.
    rewrite (dcontinue_block P c cap rem _ Hbs Hnx).
    assert (Hbb : block_body c cap rem (lenN rem) = MOk (h', rout, 0, [])).
    { unfold DStreamModel.block_body. rewrite Hbt. destruct (bp_type bp) eqn:Et.
      - destruct Hbody as [Hh Hr]. subst rout. rewrite (ltb_false_le _ _ Hcap). cbn [mguard mbind].
        rewrite Hex, N.sub_diag. cbn [N.eqb]. rewrite rev'_rev_append_raw, <- Hpl, <- Hh. reflexivity.
      - destruct Hbody as (Hh & Hr & Hl1). rewrite (Hraw ltac:(discriminate)) in Hpl. cbn [rev app] in Hpl. subst payload.
        rewrite Hrle. assert (Hc2 : bp_orig bp <= cap) by (rewrite Hr, repeat_byte_len in Hcap; exact Hcap).
        rewrite (ltb_false_le _ _ Hc2). cbn [mguard mbind]. rewrite <- Hh, <- Hr. reflexivity.
      - rewrite (Hraw ltac:(discriminate)) in Hpl. cbn [rev app] in Hpl. subst payload. rewrite Hbody. cbn [of_res mbind snd fst].
        rewrite (ltb_false_le _ _ Hcap). cbn [mguard mbind]. reflexivity.
      - contradiction. }
    rewrite Hbb. cbn [mbind]. exact Hfin.
  - (* a proper part of a raw block *)
    destruct (bp_type bp) eqn:Et; try (exfalso; apply Hn; exact (eq_trans Hleg Hex)).
    destruct Hbody as [Hh Hr]. subst rout.
    assert (Hlt : n < lenN rem) by lia.
    set (o := tk n rem). set (rem' := dr n rem).
    assert (Ho : lenN o = n) by (unfold o; rewrite len_tk; lia).
    assert (Hsplit : rem = o ++ rem') by (symmetry; apply tk_dr).
    assert (Hsrc : tk n rest = o) by (rewrite Hrest; apply firstn_prefix; lia).
    assert (Hdr : dr n rest = rem' ++ restb) by (rewrite Hrest; apply dr_prefix; lia).
    set (c1 := c_after_block c (c_expected c - n) o (rev_append o (c_raw c)) (c_h c)).
    exists c1, o, (rem' ++ crest'). split; [rewrite Hsplit at 1; rewrite <- app_assoc; reflexivity|].
    split.
    + eapply Pos_blk with (bp := bp) (payload := payload) (rem := rem') (rout := rem') (h' := h') (restb := restb) (crest' := crest');
        try reflexivity.
      * exact Hst.
      * rewrite Et. exact Hbt.
      * exact Hrle.
      * apply cwf_after. exact W.
      * change (c_raw c1) with (rev_append o (c_raw c)). rewrite rev_append_rev, rev_app_distr, rev_involutive.
        rewrite <- app_assoc, <- Hsplit. exact Hpl.
      * change (c_expected c1) with (c_expected c - n). unfold rem'. rewrite len_dr, Hex. reflexivity.
      * unfold rem'. rewrite len_dr. lia.
      * exact Hdr.
      * intros X. contradiction.
      * intros _. change (c_fp c1) with (c_fp c). apply Hpmax. discriminate.
      * change (c_raw c1) with (rev_append o (c_raw c)). change (c_fp c1) with (c_fp c).
        rewrite rev_append_rev, rev_app_distr, rev_involutive, lenN_app. unfold rem'. rewrite len_dr. rewrite lenN_rev in *. lia.
      * rewrite Et. change (c_h c1) with (c_h c). split; [exact Hh|reflexivity].
      * change (c_fp c1) with (c_fp c). unfold c1. rewrite frame_out_after, <- app_assoc, <- Hsplit. exact AB.
    + split; [reflexivity|]. split; [apply frame_out_after|].
      split; [rewrite Ho; lia|]. split; [intros X; congruence|]. split; [apply Hbound; rewrite Ho; lia|].
      intros cap src Hs Hcap. rewrite (Hs Hskip), Hsrc.
      rewrite (dcontinue_block P c cap o _ Hbs Hnx).
      unfold DStreamModel.block_body. rewrite Hbt. rewrite Ho in Hcap. rewrite (ltb_false_le _ _ Hcap). cbn [mguard mbind].
      assert (He0 : (c_expected c - n =? 0) = false) by (apply N.eqb_neq; lia).
      rewrite He0. cbn [mbind]. unfold DStreamModel.block_finish.
      assert (Hob : lenN o <= fp_blockMax (c_fp c)) by (rewrite Ho; lia).
      rewrite (ltb_false_le _ _ Hob). cbn [mguard mbind].
      assert (Hgt : (0 <? c_expected c - n) = true) by (apply N.ltb_lt; lia).
      rewrite Hgt. reflexivity.
Qed.

(* ---- checksum ---- *)
Lemma dcont_ck P (c : cstate) rest crest :
  c_stage c = DChecksum -> c_expected c = 4 -> cwf P c -> fp_checksum (c_fp c) = true -> 4 <= lenN rest ->
  (dp_ignoreChecksum P = true \/ le32 rest = b_hash (frame_out c)) ->
  SValid P (dr 4 rest) crest ->
  Step P c 4 rest crest.
Proof.
  intros Hst Hex W Hck Hl Hh HS.
  assert (Hskip : is_skip c = false) by (unfold is_skip; rewrite Hst; reflexivity).
  exists (c_goto c DGetFHSize 0), [], crest. split; [reflexivity|]. split; [apply Pos_end; try reflexivity; exact HS|].
  split; [reflexivity|]. split; [rewrite app_nil_r; reflexivity|]. split; [change (lenN (@nil N)) with 0; lia|].
  split; [intros X; congruence|]. split; [intros X; contradiction|].
  intros cap src Hs _. rewrite (Hs Hskip).
  unfold DStreamModel.dcontinue, next_with_input, is_block_stage. rewrite Hst, Hex, N.eqb_refl. cbn [negb mguard mbind].
  rewrite le32_tk4, (cw_val _ _ _ W), Hck.
  assert (Hg : andb (andb true (negb (dp_ignoreChecksum P))) (negb (le32 rest =? b_hash (frame_out c))) = false).
  { destruct Hh as [Hi|Hq]; [rewrite Hi; reflexivity|]. rewrite Hq, N.eqb_refl, andb_false_r. reflexivity. }
  rewrite Hg. reflexivity.
Qed.

(* ---- the payload of a skippable frame ---- *)
Lemma dcont_skip P (c : cstate) rest crest :
  c_stage c = DSkipFrame -> c_expected c <= lenN rest -> SValid P (dr (c_expected c) rest) crest ->
  Step P c (c_expected c) rest crest.
Proof.
  intros Hst Hl HS.
  exists (c_goto c DGetFHSize 0), [], crest. split; [reflexivity|]. split; [apply Pos_end; try reflexivity; exact HS|].
  split; [reflexivity|]. split; [rewrite app_nil_r; reflexivity|]. split; [change (lenN (@nil N)) with 0; lia|].
  split; [intros _; split; reflexivity|]. split; [intros X; contradiction|].
  intros cap src _ _.
  unfold DStreamModel.dcontinue, next_with_input, is_block_stage. rewrite Hst, N.eqb_refl. reflexivity.
Qed.

(* ---- any position ---- *)
Theorem dcontinue_pos P (c : cstate) rest crest n :
  Pos P c rest crest -> c_expected c <> 0 -> legal c n -> Step P c n rest crest.
Proof.
  intros HP He Hleg. destruct HP.
  - assert (n = BHS) as ->.
    { unfold legal, is_block_stage in Hleg. rewrite H0 in Hleg. congruence. }
    eapply dcont_bh; eauto.
  - eapply dcont_blk; eauto.
  - assert (n = 4) as ->.
    { unfold legal, is_block_stage in Hleg. rewrite H0 in Hleg. congruence. }
    eapply dcont_ck; eauto.
  - assert (n = c_expected c) as ->.
    { unfold legal, is_block_stage in Hleg. rewrite H0 in Hleg. congruence. }
    eapply dcont_skip; eauto.
  - contradiction.
Qed.

(* a position always has the bytes its next token needs *)
Lemma pos_has_input P (c : cstate) rest crest : Pos P c rest crest -> c_expected c <= lenN rest.
Proof.
  intros HP. destruct HP.
  - rewrite H1. inversion H4 as [? ? ? ? ? ? ? BA|? ? ? ? ? ? ? ? ? BA]; apply (ba_len _ _ _ _ _ _ _ _ _ _ _ _ BA).
  - subst rest. rewrite lenN_app. lia.
  - lia.
  - assumption.
  - lia.
Qed.

Lemma pos_expected0 P (c : cstate) rest crest : Pos P c rest crest -> c_expected c = 0 -> SValid P rest crest /\ is_block_stage c = false.
Proof.
  intros HP He. destruct HP.
  - rewrite H1 in He. discriminate.
  - lia.
  - rewrite H1 in He. discriminate.
  - rewrite He in H2. split; [exact H2|]. unfold is_block_stage. rewrite H0. reflexivity.
  - split; [assumption|]. unfold is_block_stage. rewrite H0. reflexivity.
Qed.

Lemma pos_in_frame P (c : cstate) rest crest : Pos P c rest crest -> c_expected c <> 0 -> is_skip c = false -> in_frame c = true.
Proof.
  intros HP He Hs. unfold in_frame. destruct HP.
  - rewrite H0. reflexivity.
  - rewrite H0. destruct (bp_last bp); reflexivity.
  - rewrite H0. reflexivity.
  - unfold is_skip in Hs. rewrite H0 in Hs. discriminate.
  - contradiction.
Qed.

Lemma pos_expected_bound P (c : cstate) rest crest :
  Pos P c rest crest -> is_skip c = false -> (is_block_stage c = true -> c_btype c <> BtRaw) ->
  c_expected c <= N.max (fp_blockMax (c_fp c)) 4.
Proof.
  intros HP Hs Hr. destruct HP.
  - rewrite H1. unfold BHS. change s_ZSTD_blockHeaderSize with 3. lia.
  - assert (Hb : is_block_stage c = true) by (unfold is_block_stage; rewrite H0; destruct (bp_last bp); reflexivity).
    specialize (Hr Hb). rewrite H1 in Hr. rewrite (H8 Hr) in H4. cbn [rev app] in H4. subst payload. rewrite H5.
    destruct (bp_type bp) eqn:Et; try contradiction.
    + destruct H11 as (_ & _ & Hl). lia.
    + specialize (H9 ltac:(discriminate)). lia.
  - lia.
  - unfold is_skip in Hs. rewrite H0 in Hs. discriminate.
  - lia.
Qed.

End Cont.
