(* C10: the recommended streaming buffer sizes (regenerated from the current headers) satisfy the premises under which
   the model works block-at-a-time. *)
From Coq Require Import NArith ZArith List Bool Lia.
From ZV.Codec Require Import Bytes.
From ZV.Gen Require Import Gen_Stream Gen_Tables.
From ZV.Stream Require Import DStreamModel CStreamModel.
Local Open Scope N_scope.
Ltac Zify.zify_post_hook ::= Z.div_mod_to_equations.

(* ZSTD_DStreamOutSize() is at least one maximal block: the premise [BLOCKMAX <= cap] of the hint theorem *)
Lemma dstream_out_size_suffices : BLOCKMAX <= s_DStreamOutSize.
Proof. vm_compute. discriminate. Qed.

(* ZSTD_DStreamInSize() holds one maximal block plus the preloaded header of the next one: the largest hint *)
Lemma dstream_in_size_suffices : BLOCKMAX + BHS <= s_DStreamInSize.
Proof. vm_compute. discriminate. Qed.

(* with ZSTD_CStreamOutSize() bytes of output room every block (<= ZSTD_BLOCKSIZE_MAX bytes of input) satisfies the
   "compress straight into the caller's buffer" test of ZSTD_compressStream_generic, so no byte stays in outBuff *)
Lemma cstream_out_size_direct (n cap : N) : n <= BLOCKMAX -> s_CStreamOutSize <= cap -> fits_bound cap n = true.
Proof.
  intros Hn Hc. unfold fits_bound, cbound.
  assert (HB : BLOCKMAX = 131072) by reflexivity.
  assert (HM : (c_ZSTD_MAX_INPUT_SIZE <=? n) = false).
  { apply N.leb_gt. assert (131072 < c_ZSTD_MAX_INPUT_SIZE) by (vm_compute; reflexivity). lia. }
  rewrite HM. apply N.leb_le.
  assert (HS : s_CStreamOutSize = 131591) by reflexivity.
  rewrite !N.shiftr_div_pow2. change (2 ^ 8) with 256. change (2 ^ 11) with 2048.
  destruct (n <? 131072); lia.
Qed.

(* ZSTD_CStreamInSize() is one maximal block *)
Lemma cstream_in_size_is_block : s_CStreamInSize = BLOCKMAX.
Proof. reflexivity. Qed.
