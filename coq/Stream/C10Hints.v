(* C10, part (c): hint-following readers over the decoder models of DStreamModel.v.
     [hrun]  : ZSTD_decompressBegin + ZSTD_decompressContinue fed exactly ZSTD_nextSrcSizeToDecompress bytes (one frame);
     [srun]  : ZSTD_decompressStream fed exactly ZSTD_startingInputLength bytes, then exactly its last return value,
               with a fresh output buffer of [cap] bytes per call (one frame);
     [frame_extent] : the layout-only size of the frame at the head of a byte string (header form, block headers,
               checksum flag) - what ZSTD_findFrameCompressedSize computes.
   A reader never sees bytes past [limit]: a request that would pass it is reported as [RBeyond].
   Model only - no proofs in this file. *)
From Coq Require Import NArith List Bool.
From ZV.Codec Require Import Bytes.
From ZV.Gen Require Import Gen_Stream.
From ZV.Stream Require Import DStreamModel.
Import ListNotations.
Local Open Scope N_scope.

Definition wf_bytes (l : bytes) : Prop := Forall (fun b => b < 256) l.

(* size of the frame (Zstandard or skippable) that starts [src], from its layout alone *)
Definition frame_extent (ml : bool) (src : bytes) : option N :=
  if andb (negb ml) (andb (SKIPHDR <=? lenN src) (is_skip_magic (le32 src))) then
    let n := sub_le src s_ZSTD_FRAMEIDSIZE 4 + SKIPHDR in
    if lenN src <? n then None else Some n
  else if lenN src <? prefix_len ml then None
  else
    let hs := frame_header_size ml src in
    let fhd := nthN src (prefix_len ml - 1) 0 in
    if lenN src <? hs then None
    else match walk_blocks (S (length src)) (dr hs src) hs with
         | Some (rest, n) => if N.testbit fhd 2 then (if lenN rest <? 4 then None else Some (n + 4)) else Some n
         | None => None
         end.

Inductive rres :=
| RDone (pos : N) (asked : list N)     (* the decoder reported the end of the frame at offset [pos]; the requests made *)
| RBeyond (pos n : N)                  (* the decoder asked for [n] bytes at offset [pos]: past [limit] *)
| RShort (pos : N)                     (* decompressStream left presented bytes unconsumed although it had room *)
| RFail (e : derr)
| RFuel.

Section Readers.
Variable H : Type.
Variable b_init : H.
Variable b_raw : H -> bytes -> H.
Variable b_rle : H -> N -> N -> H.
Variable b_cblock : N -> N -> H -> bytes -> res (H * bytes).
Variable b_hash : bytes -> N.

(* buffer-less API *)
Fixpoint hrun (fuel : nat) (P : dparams) (c : cstate H) (src : bytes) (limit pos : N) (asked : list N) : rres :=
  match fuel with
  | O => RFuel
  | S f =>
    let n := c_expected c in
    if n =? 0 then RDone pos (rev' asked)
    else if limit <? pos + n then RBeyond pos n
    else match dcontinue H b_raw b_rle b_cblock b_hash P c (pow2 64) (if is_skip c then [] else tk n (dr pos src)) n with
         | MOk r => hrun f P (fst r) src limit (pos + n) (n :: asked)
         | MErr e => RFail e
         end
  end.
Definition hread (P : dparams) (src : bytes) (limit : N) : rres :=
  hrun (S (S (N.to_nat limit))) P (c_begin H b_init P) src limit 0 [].

(* streaming API *)
Fixpoint srun (fuel : nat) (P : dparams) (z : zstate H) (src : bytes) (cap limit pos req : N) (asked : list N) : rres :=
  match fuel with
  | O => RFuel
  | S f =>
    if limit <? pos + req then RBeyond pos req
    else
      let o := dstep H b_init b_raw b_rle b_cblock b_hash P z (tk req (dr pos src)) cap 0 in
      match o_ret o with
      | MErr e => RFail e
      | MOk r =>
          if o_consumed o <? req then RShort (pos + o_consumed o)
          else if r =? 0 then RDone (pos + req) (rev' (req :: asked))
          else srun f P (o_z o) src cap limit (pos + req) r (req :: asked)
      end
  end.
Definition sread (P : dparams) (src : bytes) (cap limit : N) : rres :=
  srun (S (S (N.to_nat limit))) P (z_new H b_init P) src cap limit 0 (prefix_len (dp_magicless P)) [].

End Readers.
