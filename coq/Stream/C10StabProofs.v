(* Round 3: a caller that follows the stable-input contract is never refused by ZSTD_checkBufferStability (C10Stab.v):
   in every state reached by any history of ZSTD_compressStream2 / ZSTD_compressStream / ZSTD_flushStream / ZSTD_endStream
   over one input array, the recorded expectedInBuffer.pos is the position the caller holds whenever the check applies
   (frame in progress, applied input mode stable, a real buffer recorded).  The repairs 62dea3d (ZSTD_keepCallerPosition
   restores the recorded position) and 9a6b24a (a recorded {NULL,0,0} accepts the first buffer) are what makes this true:
   with either older variant the statement is false (counter-examples in Properties_C10.v). *)
From Coq Require Import NArith ZArith List Bool Lia PeanoNat.
From ZV.Codec Require Import Bytes ListLemmas.
From ZV.Stream Require Import DStreamModel CStreamModel StreamLemmas CStreamProofs.
From ZV.Stream Require Import C10Api C10ApiProofs.
From ZV.Stream Require Import C10Stab.
Import ListNotations.
Local Open Scope N_scope.

Section StabProofs.
Variable CS : Type.
Variable cs_begin : CS -> fconf -> N -> CS.
Variable compress_chunk : CS -> bytes -> bool -> CS * bytes.

Notation kstate := (kstate CS).
Notation kstep := (kstep CS cs_begin compress_chunk).
Notation AInv := (AInv CS cs_begin compress_chunk).
Notation sstate := (sstate CS).
Notation sstep := (sstep CS cs_begin compress_chunk).
Notation srun := (srun CS cs_begin compress_chunk).
Notation astep := (astep CS cs_begin compress_chunk).
Notation gstate := (gstate CS).
Notation g_flush := (@g_flush CS).
Notation g_compress := (g_compress CS compress_chunk).
Notation g_load := (g_load CS compress_chunk).
Notation g_iter := (g_iter CS compress_chunk).
Notation g_loop := (g_loop CS compress_chunk).

(* ---------- a call that does not defer the frame start leaves nothing held unless it stops in the load stage ---------- *)
Definition res_hd (r : gres CS) : Prop :=
  match r with
  | GCont g' => k_held (g_k g') = []
  | GStop g' => k_held (g_k g') = [] \/ k_stage (g_k g') = KLoad
  | GErr _ => True
  end.

Lemma g_flush_hd (g : gstate) : k_held (g_k g) = [] -> res_hd (g_flush g).
Proof.
  intros Hh. unfold CStreamModel.g_flush. cbv zeta.
  destruct (negb _); [cbn [res_hd]; ksimp; auto|].
  destruct (k_frameEnded (g_k g)); cbn [res_hd]; ksimp; auto.
Qed.

Lemma g_compress_hd P dir (g : gstate) : k_held (g_k g) = [] -> res_hd (g_compress P dir g).
Proof.
  intros Hh. unfold CStreamModel.g_compress. cbv zeta.
  destruct (compress_chunk _ _ _) as [cs' cout].
  destruct (_ <? lenN cout); [exact I|].
  match goal with |- context [if fits_bound _ _ || _ then (if ?LB then GStop (g_mk (k_session_reset ?K) _ _ _ _) else _) else _] =>
    set (k2 := K); set (lb := LB) end.
  assert (Hk2 : k_held k2 = []).
  { unfold k2. destruct (negb (kp_stableIn P)); [destruct (_ <? _)|]; ksimp; exact Hh. }
  clearbody k2 lb.
  destruct (fits_bound _ _ || kp_stableOut P).
  - destruct lb; cbn [res_hd]; ksimp; auto.
  - apply g_flush_hd. ksimp. exact Hk2.
Qed.

Lemma g_load_hd P dir (g : gstate) : k_held (g_k g) = [] -> k_stage (g_k g) = KLoad -> res_hd (g_load P dir g).
Proof.
  intros Hh Hst. unfold CStreamModel.g_load. cbv zeta.
  destruct (_ && (_ && (k_inBuffPos (g_k g) =? 0))).
  - destruct (compress_chunk _ _ _) as [cs' cout]. destruct (_ <? lenN cout); [exact I|].
    cbn [res_hd]. ksimp. auto.
  - destruct (negb (kp_stableIn P)).
    + match goal with |- context [g_compress P dir ?G1] => set (g1 := G1) end.
      assert (H1 : k_held (g_k g1) = []) by (unfold g1; ksimp; exact Hh).
      assert (HS : res_hd (GStop g1)) by (cbn [res_hd]; auto).
      assert (HC : res_hd (g_compress P dir g1)) by (apply g_compress_hd; exact H1).
      clearbody g1. destruct dir; [destruct (_ <? _)|destruct (_ =? _)|]; assumption.
    + assert (HC : res_hd (g_compress P dir g)) by (apply g_compress_hd; exact Hh).
      destruct dir; [destruct (_ <? _)|destruct (_ =? _)|]; try assumption; cbn [res_hd]; ksimp; auto.
Qed.

Lemma g_loop_hd P dir : forall fuel (g : gstate), k_held (g_k g) = [] -> res_hd (g_loop fuel P dir g).
Proof.
  induction fuel as [|f IH]; intros g Hh; [exact I|].
  cbn [CStreamModel.g_loop].
  assert (H : res_hd (g_iter P dir g)).
  { unfold CStreamModel.g_iter. destruct (k_stage (g_k g)) eqn:Est; [exact I|apply g_load_hd; assumption|apply g_flush_hd; exact Hh]. }
  destruct (g_iter P dir g) as [g'|g'|e]; [|exact H|exact I].
  cbn [res_hd] in H. apply IH. exact H.
Qed.

Lemma kstep_deferred P fc (k : kstate) inp cap dir :
  deferred P k inp dir = true ->
  ko_ret (kstep P fc k inp cap dir) = Some (hdr_min (kp_magicless P)) /\
  ko_k (kstep P fc k inp cap dir) = k_set_held k (k_held k ++ inp) /\
  ko_consumed (kstep P fc k inp cap dir) = Z.of_N (lenN inp).
Proof.
  unfold deferred, CStreamModel.kstep. cbv zeta. intros E. rewrite E. cbn. auto.
Qed.

Lemma kstep_held_or_load P fc (k : kstate) inp cap dir r :
  deferred P k inp dir = false -> ko_ret (kstep P fc k inp cap dir) = Some r ->
  k_held (ko_k (kstep P fc k inp cap dir)) = [] \/ k_stage (ko_k (kstep P fc k inp cap dir)) = KLoad.
Proof.
  unfold deferred, CStreamModel.kstep. cbv zeta. intros E. rewrite E.
  set (k0 := match k_stage k with KInit => _ | _ => k end).
  destruct (kp_stableOut P && negb (k_expectOut k0 =? cap)); [discriminate|].
  match goal with |- context [CStreamModel.g_loop CS compress_chunk ?f P dir ?g] =>
    pose proof (g_loop_hd P dir f g) as HL; destruct (CStreamModel.g_loop CS compress_chunk f P dir g) as [g'|g'|e] end; try discriminate.
  cbn [ko_ret ko_k]. intros _. cbn [res_hd] in HL. specialize (HL eq_refl).
  destruct HL as [HL|HL]; [left|right]; ksimp; exact HL.
Qed.

(* none of the three controls (current code) would refuse the caller's next call or the next wrapper call *)
Definition SOK (s : sstate) : Prop := refuses_any CheckNow s = false.

Lemma SOK_new cs : SOK (s_new cs).
Proof. reflexivity. Qed.

(* SOK spelled out: in a frame in progress with a real stable buffer recorded, the recorded position is the caller's; while
   input is deferred, a real buffer is recorded, the caller stands at its end, and so does the recorded position *)
Lemma SOK_intro (s : sstate) :
  (is_init (a_k (s_a s)) = false -> k_appliedSI (a_k (s_a s)) = true -> a_null (s_a s) = false -> s_epos s = a_pos (s_a s)) ->
  (is_init (a_k (s_a s)) = true -> k_held (a_k (s_a s)) <> [] ->
     a_null (s_a s) = false /\ a_pos (s_a s) = a_size (s_a s) /\ s_epos s = a_size (s_a s)) -> SOK s.
Proof.
  intros H1 H2. unfold SOK, refuses_any, check_refuses, init_refuses_call, init_refuses_wrapper. cbv zeta.
  destruct (is_init (a_k (s_a s))) eqn:Ei; cbn [negb andb orb].
  - destruct (lenN (k_held (a_k (s_a s))) =? 0) eqn:Eh; [reflexivity|]. cbn [negb andb].
    assert (Hne : k_held (a_k (s_a s)) <> []) by (intros E; rewrite E in Eh; discriminate).
    destruct (H2 eq_refl Hne) as (Hn & Hp & He). rewrite Hn, Hp, He, !N.eqb_refl. reflexivity.
  - rewrite !orb_false_r. destruct (k_appliedSI (a_k (s_a s))) eqn:Ea; [|reflexivity]. cbn [andb].
    destruct (a_null (s_a s)) eqn:En; [reflexivity|].
    rewrite (H1 eq_refl eq_refl eq_refl), N.eqb_refl. reflexivity.
Qed.

Lemma SOK_parts (s : sstate) : SOK s ->
  check_refuses CheckNow s = false /\ init_refuses_call s = false /\ init_refuses_wrapper s = false.
Proof.
  unfold SOK, refuses_any. intros H. apply orb_false_elim in H. destruct H as [H1 H]. apply orb_false_elim in H. tauto.
Qed.

Lemma a_call_null P fc X (a : astate CS) n cap dir r :
  ao_ret (a_call CS cs_begin compress_chunk P fc X a n cap dir) = Some r ->
  a_null (ao_a (a_call CS cs_begin compress_chunk P fc X a n cap dir)) = false.
Proof.
  unfold a_call. cbv zeta. destruct (ko_ret (kstep P fc (a_k a) _ cap dir)); [reflexivity|].
  rewrite a_kfail_ret. discriminate.
Qed.

Lemma a_stream_facts P fc X (a : astate CS) n cap r :
  ao_ret (a_stream CS cs_begin compress_chunk P fc X a n cap) = Some r ->
  ao_a (a_stream CS cs_begin compress_chunk P fc X a n cap) = ao_a (a_call CS cs_begin compress_chunk P fc X a n cap DirContinue) /\
  exists r', ao_ret (a_call CS cs_begin compress_chunk P fc X a n cap DirContinue) = Some r'.
Proof.
  unfold a_stream. cbv zeta.
  destruct (ao_ret (a_call CS cs_begin compress_chunk P fc X a n cap DirContinue)) as [r'|] eqn:Er.
  - cbn [ao_ret ao_a]. intros _. split; [reflexivity|eauto].
  - rewrite Er. discriminate.
Qed.

Lemma keep_caller_mode (h : bytes) (o : kout CS) :
  is_init (keep_caller h o) = is_init (ko_k o) /\ k_appliedSI (keep_caller h o) = k_appliedSI (ko_k o).
Proof.
  unfold keep_caller. cbv zeta. destruct (is_init (ko_k o)) eqn:Ei; [auto|].
  destruct (negb (k_appliedSI (ko_k o))); [auto|]. destruct (_ <? _)%Z; [|auto].
  unfold is_init in *. unfold k_set_held. cbn [k_stage k_appliedSI]. auto.
Qed.

(* the recorded position after a wrapper that presented the recorded stable buffer *)
Lemma wrapper_epos_ok (s : sstate) (ko : kout CS) :
  is_init (ko_k ko) = false -> k_appliedSI (ko_k ko) = true -> a_null (s_a s) = false ->
  wrapper_epos CS KeepNow s ko =
    (if (ko_consumed ko <? 0)%Z then a_pos (s_a s) else Z.to_N (Z.of_N (a_pos (s_a s)) + ko_consumed ko)).
Proof.
  intros Hi Ha Hn. unfold wrapper_epos. cbv zeta. rewrite Hi, Ha, Hn. cbn [negb andb].
  destruct (Z.ltb_spec (ko_consumed ko) 0) as [Hneg|Hpos].
  - destruct (N.ltb_spec (Z.to_N (Z.of_N (a_pos (s_a s)) + ko_consumed ko)) (a_pos (s_a s))); [reflexivity|lia].
  - destruct (N.ltb_spec (Z.to_N (Z.of_N (a_pos (s_a s)) + ko_consumed ko)) (a_pos (s_a s))); [lia|reflexivity].
Qed.

(* the state a successful ZSTD_compressStream2 call leaves, as far as the controls are concerned *)
Lemma call_state_ok P fc X (s : sstate) n cap dir r :
  ao_ret (a_call CS cs_begin compress_chunk P fc X (s_a s) n cap dir) = Some r ->
  let a' := ao_a (a_call CS cs_begin compress_chunk P fc X (s_a s) n cap dir) in
  let recorded := orb (deferred P (a_k (s_a s)) (tk n (dr (a_pos (s_a s)) X)) dir) (k_appliedSI (a_k a')) in
  SOK {| s_a := a'; s_epos := if recorded then a_pos a' else s_epos s |}.
Proof.
  intros Er. cbv zeta. pose proof (a_call_null P fc X (s_a s) n cap dir r Er) as Hn.
  apply SOK_intro; cbn [s_a s_epos].
  - intros _ Ha _. rewrite Ha, orb_true_r. reflexivity.
  - intros Hi Hh. rewrite Hn. split; [reflexivity|].
    revert Er Hi Hh. unfold a_call. cbv zeta. set (inp := tk n (dr (a_pos (s_a s)) X)).
    destruct (deferred P (a_k (s_a s)) inp dir) eqn:Ed.
    + destruct (kstep_deferred P fc (a_k (s_a s)) inp cap dir Ed) as (E1 & E2 & E3).
      rewrite E1. cbn [ao_ret ao_a a_k a_pos a_size]. rewrite E3. intros _ _ _. cbn [orb]. split; lia.
    + destruct (ko_ret (kstep P fc (a_k (s_a s)) inp cap dir)) as [r'|] eqn:Ek; [|rewrite a_kfail_ret; discriminate].
      cbn [ao_ret ao_a a_k]. intros _ Hi Hh. exfalso.
      destruct (kstep_held_or_load P fc (a_k (s_a s)) inp cap dir r' Ed Ek) as [E|E]; [contradiction|].
      unfold is_init in Hi. rewrite E in Hi. discriminate.
Qed.

(* one step keeps SOK (the AInv of the API state gives the bound "a flush consumes nothing new") *)
Lemma SOK_step P X (s : sstate) em dones cs0 chunks op r :
  AInv P X (s_a s) em dones cs0 chunks -> 1 <= fc_maxBlock (aop_fc op) ->
  so_refused (sstep CheckNow KeepNow P X s op) = false ->
  ao_ret (so_o (sstep CheckNow KeepNow P X s op)) = Some r ->
  SOK (so_s (sstep CheckNow KeepNow P X s op)).
Proof.
  intros A Hmb. destruct op as [n cap dir fc|n cap fc|cap fc|cap ck fc]; cbn [C10Stab.sstep aop_fc] in *.
  - (* ZSTD_compressStream2 *)
    unfold s_call_gen. cbv zeta. destruct (check_refuses CheckNow s || init_refuses_call s); [discriminate|]. intros _.
    destruct (ao_ret (a_call CS cs_begin compress_chunk P fc X (s_a s) n cap dir)) as [r'|] eqn:Er; cbn [so_o so_s]; [|congruence].
    intros _. exact (call_state_ok P fc X s n cap dir r' Er).
  - (* ZSTD_compressStream *)
    unfold s_call_gen. cbv zeta. destruct (check_refuses CheckNow s || init_refuses_call s); [discriminate|]. intros _.
    destruct (ao_ret (a_stream CS cs_begin compress_chunk P fc X (s_a s) n cap)) as [r'|] eqn:Er; cbn [so_o so_s]; [|congruence].
    intros _. destruct (a_stream_facts P fc X (s_a s) n cap r' Er) as [Ea (r2 & Er2)]. rewrite Ea.
    exact (call_state_ok P fc X s n cap DirContinue r2 Er2).
  - (* ZSTD_flushStream *)
    unfold s_flushStream. cbv zeta. destruct (init_refuses_wrapper s); [discriminate|].
    destruct (ao_ret (a_flushStream CS cs_begin compress_chunk P fc X (s_a s) cap)) as [r'|] eqn:Er; cbn [so_o so_s so_refused]; [|congruence].
    intros _ _. revert Er. unfold a_flushStream. cbv zeta. destruct (wview (a_k (s_a s))) eqn:Hv.
    + destruct (ko_ret (kstep P fc (a_k (s_a s)) [] cap DirFlush)) as [r2|] eqn:Ek; [|rewrite a_kfail_ret; discriminate].
      cbn [ao_ret ao_a]. intros _.
      destruct (keep_caller_mode (k_held (a_k (s_a s))) (kstep P fc (a_k (s_a s)) [] cap DirFlush)) as [Em1 Em2].
      apply SOK_intro; cbn [s_a s_epos a_k a_pos a_null]; rewrite Em1.
      * rewrite Em2. intros Hi Ha Hn. rewrite (wrapper_epos_ok s _ Hi Ha Hn).
        assert (Ek0 : ko_ret (kstep P fc (a_k (s_a s)) (tk 0 (dr (a_pos (s_a s)) X)) cap DirFlush) = Some r2) by (rewrite tk_0; exact Ek).
        destruct (AInv_kstep CS cs_begin compress_chunk P X (s_a s) em dones cs0 chunks fc 0 cap DirFlush r2 A Hmb Ek0) as (_ & Hb & _).
        rewrite tk_0 in Hb. rewrite lenN_nil in Hb. pose proof (ai_le _ _ _ _ _ _ _ _ _ _ A) as Hle.
        destruct (Z.ltb_spec (ko_consumed (kstep P fc (a_k (s_a s)) [] cap DirFlush)) 0); [reflexivity|lia].
      * (* a wrapper never leaves input deferred at the init stage *)
        intros Hi Hh. exfalso. apply Hh.
        assert (Ekc : keep_caller (k_held (a_k (s_a s))) (kstep P fc (a_k (s_a s)) [] cap DirFlush) = ko_k (kstep P fc (a_k (s_a s)) [] cap DirFlush))
          by (unfold keep_caller; cbv zeta; rewrite Hi; reflexivity).
        rewrite Ekc. destruct (kstep_facts CS cs_begin compress_chunk P fc (a_k (s_a s)) [] cap DirFlush r2 Ek) as (_ & _ & F). apply F. discriminate.
    + destruct (ko_ret (kstep P fc (k_set_held (a_k (s_a s)) []) [] cap DirFlush)) as [r2|] eqn:Ek; [|rewrite a_kfail_ret; discriminate].
      cbn [ao_ret ao_a]. intros _. apply SOK_intro; cbn [s_a a_null a_k].
      * discriminate.
      * intros _ Hh. exfalso. apply Hh.
        destruct (kstep_facts CS cs_begin compress_chunk P fc (k_set_held (a_k (s_a s)) []) [] cap DirFlush r2 Ek) as (_ & _ & F). apply F. discriminate.
  - (* ZSTD_endStream *)
    unfold s_endStream. cbv zeta. destruct (init_refuses_wrapper s); [discriminate|].
    destruct (ao_ret (a_endStream CS cs_begin compress_chunk P fc X (s_a s) cap ck)) as [r'|] eqn:Er; cbn [so_o so_s so_refused]; [|congruence].
    intros _ _. revert Er. unfold a_endStream. cbv zeta. destruct (wview (a_k (s_a s))) eqn:Hv.
    + set (inp := if a_null (s_a s) then [] else tk (a_size (s_a s) - a_pos (s_a s)) (dr (a_pos (s_a s)) X)).
      destruct (ko_ret (kstep P fc (a_k (s_a s)) inp cap DirEnd)) as [r2|] eqn:Ek; [|rewrite a_kfail_ret; discriminate].
      cbn [ao_ret ao_a]. intros _.
      destruct (keep_caller_mode (k_held (a_k (s_a s))) (kstep P fc (a_k (s_a s)) inp cap DirEnd)) as [Em1 Em2].
      apply SOK_intro; cbn [s_a s_epos a_k a_pos a_null]; rewrite Em1.
      * rewrite Em2. intros Hi Ha Hn. rewrite (wrapper_epos_ok s _ Hi Ha Hn). reflexivity.
      * intros Hi Hh. exfalso. apply Hh.
        assert (Ekc : keep_caller (k_held (a_k (s_a s))) (kstep P fc (a_k (s_a s)) inp cap DirEnd) = ko_k (kstep P fc (a_k (s_a s)) inp cap DirEnd))
          by (unfold keep_caller; cbv zeta; rewrite Hi; reflexivity).
        rewrite Ekc. destruct (kstep_facts CS cs_begin compress_chunk P fc (a_k (s_a s)) inp cap DirEnd r2 Ek) as (_ & _ & F). apply F. discriminate.
    + destruct (ko_ret (kstep P fc (k_set_held (a_k (s_a s)) []) [] cap DirEnd)) as [r2|] eqn:Ek; [|rewrite a_kfail_ret; discriminate].
      cbn [ao_ret ao_a]. intros _. apply SOK_intro; cbn [s_a a_null a_k].
      * discriminate.
      * intros _ Hh. exfalso. apply Hh.
        destruct (kstep_facts CS cs_begin compress_chunk P fc (k_set_held (a_k (s_a s)) []) [] cap DirEnd r2 Ek) as (_ & _ & F). apply F. discriminate.
Qed.

(* the stability layer changes nothing else: an accepted step is the step of C10Api *)
Lemma sstep_astep v kv P X (s : sstate) op :
  so_refused (sstep v kv P X s op) = false ->
  so_o (sstep v kv P X s op) = astep P X (s_a s) op /\
  (forall r, ao_ret (astep P X (s_a s) op) = Some r -> s_a (so_s (sstep v kv P X s op)) = ao_a (astep P X (s_a s) op)).
Proof.
  destruct op as [n cap dir fc|n cap fc|cap fc|cap ck fc]; cbn [C10Stab.sstep C10Api.astep].
  - unfold s_call_gen. cbv zeta. destruct (check_refuses v s || init_refuses_call s); [discriminate|]. intros _.
    destruct (ao_ret (a_call CS cs_begin compress_chunk P fc X (s_a s) n cap dir)) eqn:Er; cbn [so_o so_s s_a]; split; auto; congruence.
  - unfold s_call_gen. cbv zeta. destruct (check_refuses v s || init_refuses_call s); [discriminate|]. intros _.
    destruct (ao_ret (a_stream CS cs_begin compress_chunk P fc X (s_a s) n cap)) eqn:Er; cbn [so_o so_s s_a]; split; auto; congruence.
  - unfold s_flushStream. cbv zeta. destruct (init_refuses_wrapper s); [discriminate|]. intros _.
    destruct (ao_ret (a_flushStream CS cs_begin compress_chunk P fc X (s_a s) cap)) eqn:Er; cbn [so_o so_s s_a]; split; auto; congruence.
  - unfold s_endStream. cbv zeta. destruct (init_refuses_wrapper s); [discriminate|]. intros _.
    destruct (ao_ret (a_endStream CS cs_begin compress_chunk P fc X (s_a s) cap ck)) eqn:Er; cbn [so_o so_s s_a]; split; auto; congruence.
Qed.

(* ---------- every history: no call is ever refused by the stability check ---------- *)
Theorem stable_caller_never_refused P X : forall ops (s : sstate) em dones cs0 chunks s' b,
  AInv P X (s_a s) em dones cs0 chunks -> SOK s -> ops_ok ops ->
  srun CheckNow KeepNow P X s ops = Some (s', b) -> b = false /\ SOK s'.
Proof.
  induction ops as [|op t IH]; intros s em dones cs0 chunks s' b A HS Hok Hrun.
  - cbn in Hrun. inversion Hrun; subst. split; [reflexivity|exact HS].
  - cbn [C10Stab.srun] in Hrun. inversion Hok as [|op' t' Hop Ht]; subst.
    assert (Hnr : so_refused (sstep CheckNow KeepNow P X s op) = false).
    { destruct (SOK_parts s HS) as (Q1 & Q2 & Q3).
      destruct op as [n cap dir fc|n cap fc|cap fc|cap ck fc]; cbn [C10Stab.sstep]; unfold s_call_gen, s_flushStream, s_endStream; cbv zeta;
        rewrite ?Q1, ?Q2, ?Q3; cbn [orb]; repeat match goal with |- context [match ?x with Some _ => _ | None => _ end] => destruct x end; reflexivity. }
    rewrite Hnr in Hrun.
    destruct (ao_ret (so_o (sstep CheckNow KeepNow P X s op))) as [r|] eqn:Er; [|discriminate].
    pose proof (SOK_step P X s em dones cs0 chunks op r A Hop Hnr Er) as HS1.
    destruct (sstep_astep CheckNow KeepNow P X s op Hnr) as [Eo Ea]. rewrite Eo in Er.
    destruct (AInv_step CS cs_begin compress_chunk P X (s_a s) em dones cs0 chunks op r A Hop Er) as (d1 & c1 & ch1 & A1).
    rewrite <- (Ea r Er) in A1.
    exact (IH _ _ _ _ _ _ _ A1 HS1 Ht Hrun).
Qed.

Corollary stable_caller_never_refused_from_new P X cs ops s' b :
  ops_ok ops -> srun CheckNow KeepNow P X (s_new cs) ops = Some (s', b) -> b = false.
Proof.
  intros Hok Hrun.
  exact (proj1 (stable_caller_never_refused P X ops (s_new cs) [] [] cs [] s' b (AInv_new CS cs_begin compress_chunk P X cs) (SOK_new cs) Hok Hrun)).
Qed.

End StabProofs.
