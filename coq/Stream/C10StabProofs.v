(* Round 3: a caller that follows the stable-input contract is never refused by ZSTD_checkBufferStability (C10Stab.v):
   in every state reached by any history of ZSTD_compressStream2 / ZSTD_compressStream / ZSTD_flushStream / ZSTD_endStream
   over one input array, the recorded expectedInBuffer.pos is the position the caller holds whenever the check applies
   (frame in progress, applied input mode stable, a real buffer recorded).  The repairs 62dea3d (ZSTD_keepCallerPosition
   restores the recorded position) and 9a6b24a (a recorded {NULL,0,0} accepts the first buffer) are what makes this true:
   with either older variant the statement is false (counter-examples in Properties_C10.v). *)
From Coq Require Import NArith ZArith List Bool Lia PeanoNat.
From ZV.Codec Require Import Bytes ListLemmas.
From ZV.Stream Require Import DStreamModel CStreamModel StreamLemmas CStreamProofs.
From ZV.Stream Require Import C10Api C10ApiProofs.
From ZV.Stream Require Import C10Stab.
Import ListNotations.
Local Open Scope N_scope.

Section StabProofs.
Variable CS : Type.
Variable cs_begin : CS -> fconf -> N -> CS.
Variable compress_chunk : CS -> bytes -> bool -> CS * bytes.

Notation kstate := (kstate CS).
Notation kstep := (kstep CS cs_begin compress_chunk).
Notation AInv := (AInv CS cs_begin compress_chunk).
Notation sstate := (sstate CS).
Notation sstep := (sstep CS cs_begin compress_chunk).
Notation srun := (srun CS cs_begin compress_chunk).
Notation astep := (astep CS cs_begin compress_chunk).

(* the check (current code) accepts the caller's next call *)
Definition SOK (s : sstate) : Prop := check_refuses CheckNow s = false.

Lemma SOK_new cs : SOK (s_new cs).
Proof. reflexivity. Qed.

(* SOK spelled out *)
Lemma SOK_intro (s : sstate) :
  (is_init (a_k (s_a s)) = false -> k_appliedSI (a_k (s_a s)) = true -> a_null (s_a s) = false -> s_epos s = a_pos (s_a s)) -> SOK s.
Proof.
  intros H. unfold SOK, check_refuses. cbv zeta.
  destruct (is_init (a_k (s_a s))) eqn:Ei; [reflexivity|]. cbn [negb andb].
  destruct (k_appliedSI (a_k (s_a s))) eqn:Ea; [|reflexivity]. cbn [andb].
  destruct (a_null (s_a s)) eqn:En; [reflexivity|].
  rewrite (H eq_refl eq_refl eq_refl), N.eqb_refl. reflexivity.
Qed.

Lemma a_call_null P fc X (a : astate CS) n cap dir r :
  ao_ret (a_call CS cs_begin compress_chunk P fc X a n cap dir) = Some r ->
  a_null (ao_a (a_call CS cs_begin compress_chunk P fc X a n cap dir)) = false.
Proof.
  unfold a_call. cbv zeta. destruct (ko_ret (kstep P fc (a_k a) _ cap dir)); [reflexivity|].
  rewrite a_kfail_ret. discriminate.
Qed.

Lemma a_stream_facts P fc X (a : astate CS) n cap r :
  ao_ret (a_stream CS cs_begin compress_chunk P fc X a n cap) = Some r ->
  ao_a (a_stream CS cs_begin compress_chunk P fc X a n cap) = ao_a (a_call CS cs_begin compress_chunk P fc X a n cap DirContinue) /\
  exists r', ao_ret (a_call CS cs_begin compress_chunk P fc X a n cap DirContinue) = Some r'.
Proof.
  unfold a_stream. cbv zeta.
  destruct (ao_ret (a_call CS cs_begin compress_chunk P fc X a n cap DirContinue)) as [r'|] eqn:Er.
  - cbn [ao_ret ao_a]. intros _. split; [reflexivity|eauto].
  - rewrite Er. discriminate.
Qed.

Lemma keep_caller_mode (h : bytes) (o : kout CS) :
  is_init (keep_caller h o) = is_init (ko_k o) /\ k_appliedSI (keep_caller h o) = k_appliedSI (ko_k o).
Proof.
  unfold keep_caller. cbv zeta. destruct (is_init (ko_k o)) eqn:Ei; [auto|].
  destruct (negb (k_appliedSI (ko_k o))); [auto|]. destruct (_ <? _)%Z; [|auto].
  unfold is_init in *. unfold k_set_held. cbn [k_stage k_appliedSI]. auto.
Qed.

(* the recorded position after a wrapper that presented the recorded stable buffer *)
Lemma wrapper_epos_ok (s : sstate) (ko : kout CS) :
  is_init (ko_k ko) = false -> k_appliedSI (ko_k ko) = true -> a_null (s_a s) = false ->
  wrapper_epos CS KeepNow s ko =
    (if (ko_consumed ko <? 0)%Z then a_pos (s_a s) else Z.to_N (Z.of_N (a_pos (s_a s)) + ko_consumed ko)).
Proof.
  intros Hi Ha Hn. unfold wrapper_epos. cbv zeta. rewrite Hi, Ha, Hn. cbn [negb andb].
  destruct (Z.ltb_spec (ko_consumed ko) 0) as [Hneg|Hpos].
  - destruct (N.ltb_spec (Z.to_N (Z.of_N (a_pos (s_a s)) + ko_consumed ko)) (a_pos (s_a s))); [reflexivity|lia].
  - destruct (N.ltb_spec (Z.to_N (Z.of_N (a_pos (s_a s)) + ko_consumed ko)) (a_pos (s_a s))); [lia|reflexivity].
Qed.

(* one step keeps SOK (the AInv of the API state gives the bound "a flush consumes nothing new") *)
Lemma SOK_step P X (s : sstate) em dones cs0 chunks op r :
  AInv P X (s_a s) em dones cs0 chunks -> 1 <= fc_maxBlock (aop_fc op) ->
  so_refused (sstep CheckNow KeepNow P X s op) = false ->
  ao_ret (so_o (sstep CheckNow KeepNow P X s op)) = Some r ->
  SOK (so_s (sstep CheckNow KeepNow P X s op)).
Proof.
  intros A Hmb. destruct op as [n cap dir fc|n cap fc|cap fc|cap ck fc]; cbn [C10Stab.sstep aop_fc] in *.
  - (* ZSTD_compressStream2 *)
    unfold s_call_gen. cbv zeta. destruct (check_refuses CheckNow s); [discriminate|]. intros _.
    destruct (ao_ret (a_call CS cs_begin compress_chunk P fc X (s_a s) n cap dir)) as [r'|] eqn:Er; cbn [so_o so_s]; [|congruence].
    intros _. apply SOK_intro. cbn [s_a s_epos]. intros _ Ha _. rewrite Ha, orb_true_r. reflexivity.
  - (* ZSTD_compressStream *)
    unfold s_call_gen. cbv zeta. destruct (check_refuses CheckNow s); [discriminate|]. intros _.
    destruct (ao_ret (a_stream CS cs_begin compress_chunk P fc X (s_a s) n cap)) as [r'|] eqn:Er; cbn [so_o so_s]; [|congruence].
    intros _. apply SOK_intro. cbn [s_a s_epos]. intros _ Ha _. rewrite Ha, orb_true_r. reflexivity.
  - (* ZSTD_flushStream *)
    unfold s_flushStream. cbv zeta.
    destruct (ao_ret (a_flushStream CS cs_begin compress_chunk P fc X (s_a s) cap)) as [r'|] eqn:Er; cbn [so_o so_s so_refused]; [|congruence].
    intros _ _. revert Er. unfold a_flushStream. cbv zeta. destruct (wview (a_k (s_a s))) eqn:Hv.
    + destruct (ko_ret (kstep P fc (a_k (s_a s)) [] cap DirFlush)) as [r2|] eqn:Ek; [|rewrite a_kfail_ret; discriminate].
      cbn [ao_ret ao_a]. intros _. apply SOK_intro. cbn [s_a s_epos a_k a_pos a_null].
      destruct (keep_caller_mode (k_held (a_k (s_a s))) (kstep P fc (a_k (s_a s)) [] cap DirFlush)) as [Em1 Em2].
      rewrite Em1, Em2. intros Hi Ha Hn. rewrite (wrapper_epos_ok s _ Hi Ha Hn).
      assert (Ek0 : ko_ret (kstep P fc (a_k (s_a s)) (tk 0 (dr (a_pos (s_a s)) X)) cap DirFlush) = Some r2) by (rewrite tk_0; exact Ek).
      destruct (AInv_kstep CS cs_begin compress_chunk P X (s_a s) em dones cs0 chunks fc 0 cap DirFlush r2 A Hmb Ek0) as (_ & Hb & _).
      rewrite tk_0 in Hb. rewrite lenN_nil in Hb. pose proof (ai_le _ _ _ _ _ _ _ _ _ _ A) as Hle.
      destruct (Z.ltb_spec (ko_consumed (kstep P fc (a_k (s_a s)) [] cap DirFlush)) 0); [reflexivity|lia].
    + destruct (ko_ret (kstep P fc (k_set_held (a_k (s_a s)) []) [] cap DirFlush)) as [r2|] eqn:Ek; [|rewrite a_kfail_ret; discriminate].
      cbn [ao_ret ao_a]. intros _. apply SOK_intro. cbn [s_a a_null]. discriminate.
  - (* ZSTD_endStream *)
    unfold s_endStream. cbv zeta.
    destruct (ao_ret (a_endStream CS cs_begin compress_chunk P fc X (s_a s) cap ck)) as [r'|] eqn:Er; cbn [so_o so_s so_refused]; [|congruence].
    intros _ _. revert Er. unfold a_endStream. cbv zeta. destruct (wview (a_k (s_a s))) eqn:Hv.
    + set (inp := if a_null (s_a s) then [] else tk (a_size (s_a s) - a_pos (s_a s)) (dr (a_pos (s_a s)) X)).
      destruct (ko_ret (kstep P fc (a_k (s_a s)) inp cap DirEnd)) as [r2|] eqn:Ek; [|rewrite a_kfail_ret; discriminate].
      cbn [ao_ret ao_a]. intros _. apply SOK_intro. cbn [s_a s_epos a_k a_pos a_null].
      destruct (keep_caller_mode (k_held (a_k (s_a s))) (kstep P fc (a_k (s_a s)) inp cap DirEnd)) as [Em1 Em2].
      rewrite Em1, Em2. intros Hi Ha Hn. rewrite (wrapper_epos_ok s _ Hi Ha Hn). reflexivity.
    + destruct (ko_ret (kstep P fc (k_set_held (a_k (s_a s)) []) [] cap DirEnd)) as [r2|] eqn:Ek; [|rewrite a_kfail_ret; discriminate].
      cbn [ao_ret ao_a]. intros _. apply SOK_intro. cbn [s_a a_null]. discriminate.
Qed.

(* the stability layer changes nothing else: an accepted step is the step of C10Api *)
Lemma sstep_astep v kv P X (s : sstate) op :
  so_refused (sstep v kv P X s op) = false ->
  so_o (sstep v kv P X s op) = astep P X (s_a s) op /\
  (forall r, ao_ret (astep P X (s_a s) op) = Some r -> s_a (so_s (sstep v kv P X s op)) = ao_a (astep P X (s_a s) op)).
Proof.
  destruct op as [n cap dir fc|n cap fc|cap fc|cap ck fc]; cbn [C10Stab.sstep C10Api.astep].
  - unfold s_call_gen. cbv zeta. destruct (check_refuses v s); [discriminate|]. intros _.
    destruct (ao_ret (a_call CS cs_begin compress_chunk P fc X (s_a s) n cap dir)) eqn:Er; cbn [so_o so_s s_a]; split; auto; congruence.
  - unfold s_call_gen. cbv zeta. destruct (check_refuses v s); [discriminate|]. intros _.
    destruct (ao_ret (a_stream CS cs_begin compress_chunk P fc X (s_a s) n cap)) eqn:Er; cbn [so_o so_s s_a]; split; auto; congruence.
  - unfold s_flushStream. cbv zeta. intros _.
    destruct (ao_ret (a_flushStream CS cs_begin compress_chunk P fc X (s_a s) cap)) eqn:Er; cbn [so_o so_s s_a]; split; auto; congruence.
  - unfold s_endStream. cbv zeta. intros _.
    destruct (ao_ret (a_endStream CS cs_begin compress_chunk P fc X (s_a s) cap ck)) eqn:Er; cbn [so_o so_s s_a]; split; auto; congruence.
Qed.

(* ---------- every history: no call is ever refused by the stability check ---------- *)
Theorem stable_caller_never_refused P X : forall ops (s : sstate) em dones cs0 chunks s' b,
  AInv P X (s_a s) em dones cs0 chunks -> SOK s -> ops_ok ops ->
  srun CheckNow KeepNow P X s ops = Some (s', b) -> b = false /\ SOK s'.
Proof.
  induction ops as [|op t IH]; intros s em dones cs0 chunks s' b A HS Hok Hrun.
  - cbn in Hrun. inversion Hrun; subst. split; [reflexivity|exact HS].
  - cbn [C10Stab.srun] in Hrun. inversion Hok as [|op' t' Hop Ht]; subst.
    assert (Hnr : so_refused (sstep CheckNow KeepNow P X s op) = false).
    { destruct op as [n cap dir fc|n cap fc|cap fc|cap ck fc]; cbn [C10Stab.sstep]; unfold s_call_gen, s_flushStream, s_endStream; cbv zeta;
        try (unfold SOK in HS; rewrite HS); repeat match goal with |- context [match ?x with Some _ => _ | None => _ end] => destruct x end; reflexivity. }
    rewrite Hnr in Hrun.
    destruct (ao_ret (so_o (sstep CheckNow KeepNow P X s op))) as [r|] eqn:Er; [|discriminate].
    pose proof (SOK_step P X s em dones cs0 chunks op r A Hop Hnr Er) as HS1.
    destruct (sstep_astep CheckNow KeepNow P X s op Hnr) as [Eo Ea]. rewrite Eo in Er.
    destruct (AInv_step CS cs_begin compress_chunk P X (s_a s) em dones cs0 chunks op r A Hop Er) as (d1 & c1 & ch1 & A1).
    rewrite <- (Ea r Er) in A1.
    exact (IH _ _ _ _ _ _ _ A1 HS1 Ht Hrun).
Qed.

Corollary stable_caller_never_refused_from_new P X cs ops s' b :
  ops_ok ops -> srun CheckNow KeepNow P X (s_new cs) ops = Some (s', b) -> b = false.
Proof.
  intros Hok Hrun.
  exact (proj1 (stable_caller_never_refused P X ops (s_new cs) [] [] cs [] s' b (AInv_new CS cs_begin compress_chunk P X cs) (SOK_new cs) Hok Hrun)).
Qed.

End StabProofs.
