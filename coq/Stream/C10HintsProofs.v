(* C10, part (c): proofs about the hint-following readers of C10Hints.v. *)
From Coq Require Import NArith ZArith List Bool Lia PeanoNat.
From ZV.Codec Require Import Bytes ListLemmas.
From ZV.Gen Require Import Gen_Stream.
From ZV.Stream Require Import DStreamModel StreamLemmas.
From ZV.Stream Require Import C10Hints.
Import ListNotations.
Local Open Scope N_scope.

(* ---------- list helpers ---------- *)

Lemma nth_firstn_lt {A} (l : list A) : forall (m k : nat) d, (k < m)%nat -> nth k (firstn m l) d = nth k l d.
Proof.
  induction l as [|x t IH]; intros m k d H.
  - rewrite firstn_nil. reflexivity.
  - destruct m; [lia|]. destruct k; [reflexivity|]. cbn. apply IH. lia.
Qed.
Lemma nthN_tk (n i : N) (l : bytes) d : i < n -> nthN (tk n l) i d = nthN l i d.
Proof. intros H. unfold nthN, tk. apply nth_firstn_lt. lia. Qed.

Lemma tk_tk (a b : N) (l : bytes) : a <= b -> tk a (tk b l) = tk a l.
Proof. intros H. unfold tk. rewrite firstn_firstn. f_equal. lia. Qed.

Lemma le32_tk (n : N) (l : bytes) : 4 <= n -> le32 (tk n l) = le32 l.
Proof. intros H. unfold le32, sub_le. rewrite !dr_0. rewrite tk_tk by exact H. reflexivity. Qed.

Lemma sub_le_tk (n pos k : N) (l : bytes) : pos + k <= n -> sub_le (tk n l) pos k = sub_le l pos k.
Proof.
  intros H. unfold sub_le. f_equal. unfold tk, dr.
  rewrite skipn_firstn_comm, firstn_firstn. f_equal. lia.
Qed.

Lemma wf_nthN (l : bytes) i : wf_bytes l -> nthN l i 0 < 256.
Proof.
  intros W. unfold nthN. destruct (Nat.lt_ge_cases (N.to_nat i) (length l)) as [Hl|Hl].
  - unfold wf_bytes in W. rewrite Forall_forall in W. apply W. apply nth_In. exact Hl.
  - rewrite nth_overflow by exact Hl. lia.
Qed.

(* ---------- frame header size ---------- *)
Definition fhs_of (ml : bool) (fhd : N) : N :=
  let minIn := prefix_len ml in
  let did := N.land fhd 3 in
  let single := N.testbit fhd 5 in
  let fcsId := N.shiftr fhd 6 in
  minIn + (if single then 0 else 1) + nthN s_did_fieldSize did 0 + nthN s_fcs_fieldSize fcsId 0
        + (if andb single (fcsId =? 0) then 1 else 0).
Lemma fhs_unfold ml src : frame_header_size ml src = fhs_of ml (nthN src (prefix_len ml - 1) 0).
Proof. reflexivity. Qed.

Definition range256 : list N := map N.of_nat (seq 0 256).
Lemma range256_in (x : N) : x < 256 -> In x range256.
Proof.
  intros H. unfold range256. apply in_map_iff. exists (N.to_nat x). split; [lia|]. apply in_seq. lia.
Qed.
Lemma fhs_sweep :
  forallb (fun f => andb (prefix_len true + 1 <=? fhs_of true f) (prefix_len false + 1 <=? fhs_of false f)) range256 = true.
Proof. vm_compute. reflexivity. Qed.
Lemma fhs_of_lower ml fhd : fhd < 256 -> prefix_len ml + 1 <= fhs_of ml fhd.
Proof.
  intros H. pose proof fhs_sweep as S. rewrite forallb_forall in S. specialize (S fhd (range256_in fhd H)).
  apply andb_true_iff in S. destruct S as [S1 S2]. destruct ml; apply N.leb_le; assumption.
Qed.
Lemma prefix_len_pos ml : 1 <= prefix_len ml.
Proof. destruct ml; vm_compute; discriminate. Qed.
Lemma frame_header_size_lower ml src : wf_bytes src -> prefix_len ml + 1 <= frame_header_size ml src.
Proof. intros W. rewrite fhs_unfold. apply fhs_of_lower. apply wf_nthN. exact W. Qed.
Lemma frame_header_size_tk ml n src : prefix_len ml <= n -> frame_header_size ml (tk n src) = frame_header_size ml src.
Proof.
  intros H. rewrite !fhs_unfold. rewrite nthN_tk; [reflexivity|]. pose proof (prefix_len_pos ml). lia.
Qed.

(* ---------- walk_blocks ---------- *)
Lemma walk_blocks_step f s c :
  walk_blocks (S f) s c =
  if lenN s <? BHS then None
  else match getc_block (tk BHS s) with
       | MErr _ => None
       | MOk bp => if lenN s <? BHS + bp_csize bp then None
                   else let rest := dr (BHS + bp_csize bp) s in
                        if bp_last bp then Some (rest, c + BHS + bp_csize bp)
                        else walk_blocks f rest (c + BHS + bp_csize bp)
       end.
Proof. reflexivity. Qed.

Lemma walk_blocks_ge : forall f s c r m, walk_blocks f s c = Some (r, m) -> c <= m.
Proof.
  induction f as [|f IH]; intros s c r m Hw; [discriminate|].
  rewrite walk_blocks_step in Hw.
  destruct (lenN s <? BHS); [discriminate|].
  destruct (getc_block (tk BHS s)) as [bp|e]; [|discriminate].
  destruct (lenN s <? BHS + bp_csize bp); [discriminate|]. cbv zeta in Hw.
  destruct (bp_last bp).
  - inversion Hw; subst. lia.
  - apply IH in Hw. lia.
Qed.

Section HintProofs.
Variable H : Type.
Variable b_init : H.
Variable b_raw : H -> bytes -> H.
Variable b_rle : H -> N -> N -> H.
Variable b_cblock : N -> N -> H -> bytes -> res (H * bytes).
Variable b_hash : bytes -> N.

Notation dcontinue := (dcontinue H b_raw b_rle b_cblock b_hash).
Notation hrun := (hrun H b_raw b_rle b_cblock b_hash).
Notation block_body := (block_body H b_raw b_rle b_cblock).
Notation block_finish := (@block_finish H).
Notation cstate := (cstate H).

Definition ok_res (limit : N) (r : rres) : Prop :=
  match r with RDone p _ => p = limit | RBeyond _ _ => False | RShort _ => False | RFail _ => True | RFuel => True end.

Lemma hrun_step f P (c : cstate) src limit pos asked :
  hrun (S f) P c src limit pos asked =
  let n := c_expected c in
  if n =? 0 then RDone pos (rev' asked)
  else if limit <? pos + n then RBeyond pos n
  else match dcontinue P c (pow2 64) (if is_skip c then [] else tk n (dr pos src)) n with
       | MOk r => hrun f P (fst r) src limit (pos + n) (n :: asked)
       | MErr e => RFail e
       end.
Proof. reflexivity. Qed.

Ltac csimp :=
  unfold c_goto, c_set_hdr, c_set_fp, c_set_block, c_after_block in *;
  cbn [c_stage c_expected c_btype c_rleSize c_fp c_validate c_decoded c_fout c_raw c_h c_hdr c_hdrSize fst snd] in *.

(* the tail of a frame: checksum stage or frame end *)
Lemma hrun_tail P (c : cstate) src limit pos ck :
  (c_stage c = DChecksum /\ c_expected c = 4 /\ ck = true) \/ (c_stage c = DGetFHSize /\ c_expected c = 0 /\ ck = false) ->
  limit = pos + (if ck then 4 else 0) ->
  forall fuel asked, ok_res limit (hrun fuel P c src limit pos asked).
Proof.
  intros Hc Hl fuel asked. destruct fuel as [|f]; [exact I|]. rewrite hrun_step. cbv zeta.
  destruct Hc as [(Hs & He & ->)|(Hs & He & ->)]; rewrite He.
  - cbn [N.eqb]. replace (limit <? pos + 4) with false by (symmetry; apply N.ltb_ge; lia).
    unfold is_skip. rewrite Hs.
    unfold DStreamModel.dcontinue, next_with_input, is_block_stage. rewrite Hs, He, N.eqb_refl. cbn [negb mguard mbind].
    destruct (andb _ _); cbn [mguard mbind]; [exact I|].
    destruct f as [|f]; [exact I|]. rewrite hrun_step. csimp. cbn. lia.
  - cbn. lia.
Qed.

Lemma block_body_e0 (c : cstate) cap src n h' out e' raw' :
  block_body c cap src n = MOk (h', out, e', raw') -> c_expected c = n -> e' = 0.
Proof.
  unfold DStreamModel.block_body. intros Hb He.
  destruct (c_btype c).
  - destruct (mguard (cap <? n) EdstSize_tooSmall) as [[]|]; cbn [mbind] in Hb; [|discriminate].
    rewrite He, N.sub_diag in Hb. cbn [N.eqb] in Hb. inversion Hb. reflexivity.
  - destruct (mguard (cap <? c_rleSize c) EdstSize_tooSmall) as [[]|]; cbn [mbind] in Hb; [|discriminate].
    inversion Hb. reflexivity.
  - destruct (of_res (b_cblock (fp_window (c_fp c)) (fp_blockMax (c_fp c)) (c_h c) src)) as [d|]; cbn [mbind] in Hb; [|discriminate].
    destruct (mguard (cap <? lenN (snd d)) EdstSize_tooSmall) as [[]|]; cbn [mbind] in Hb; [|discriminate].
    inversion Hb. reflexivity.
  - discriminate.
Qed.

(* what a successful block stage leaves: the frame parameters are kept, and the next stage is determined by [last] *)
Lemma block_stage_next P (c : cstate) cap src n c' out (last : bool) :
  c_stage c = (if last then DLastBlock else DBlock) -> c_expected c = n -> 1 <= n ->
  dcontinue P c cap src n = MOk (c', out) ->
  c_fp c' = c_fp c /\
  (if last then (if fp_checksum (c_fp c) then c_stage c' = DChecksum /\ c_expected c' = 4
                 else c_stage c' = DGetFHSize /\ c_expected c' = 0)
   else c_stage c' = DDecodeBH /\ c_expected c' = BHS).
Proof.
  intros Hs He Hn Hd. unfold DStreamModel.dcontinue in Hd.
  assert (Hnx : next_with_input c n = n).
  { unfold next_with_input, is_block_stage. rewrite Hs, He. destruct last; destruct (c_btype c); try reflexivity; lia. }
  rewrite Hnx, N.eqb_refl in Hd. cbn [negb mguard mbind] in Hd.
  assert (Hd2 : (let* r := block_body c cap src n in block_finish c r) = MOk (c', out)).
  { rewrite Hs in Hd. destruct last; exact Hd. }
  clear Hd. destruct (block_body c cap src n) as [[[[h' o] e'] raw']|] eqn:Eb; cbn [mbind] in Hd2; [|discriminate].
  pose proof (block_body_e0 _ _ _ _ _ _ _ _ Eb He) as ->.
  unfold DStreamModel.block_finish in Hd2.
  destruct (fp_blockMax (c_fp c) <? lenN o); cbn [mguard mbind] in Hd2; [discriminate|].
  change (0 <? 0) with false in Hd2. cbv iota in Hd2. rewrite Hs in Hd2.
  destruct last.
  - destruct (andb _ _); cbn [mguard mbind] in Hd2; [discriminate|].
    destruct (fp_checksum (c_fp c)); inversion Hd2; csimp; auto.
  - inversion Hd2; csimp; auto.
Qed.

Lemma bh_stage_next P (c : cstate) cap src c' out bp :
  c_stage c = DDecodeBH -> c_expected c = BHS -> getc_block src = MOk bp ->
  dcontinue P c cap src BHS = MOk (c', out) ->
  c_fp c' = c_fp c /\
  (if bp_csize bp =? 0 then
     (if bp_last bp then (if fp_checksum (c_fp c) then c_stage c' = DChecksum /\ c_expected c' = 4
                          else c_stage c' = DGetFHSize /\ c_expected c' = 0)
      else c_stage c' = DDecodeBH /\ c_expected c' = BHS)
   else c_stage c' = (if bp_last bp then DLastBlock else DBlock) /\ c_expected c' = bp_csize bp).
Proof.
  intros Hs He Hg Hd. unfold DStreamModel.dcontinue, next_with_input, is_block_stage in Hd.
  rewrite Hs, He, N.eqb_refl, Hg in Hd. cbn [negb mguard mbind] in Hd.
  destruct (fp_blockMax (c_fp c) <? _); cbn [mguard mbind] in Hd; [discriminate|].
  destruct (bp_csize bp =? 0); cbn [negb] in Hd.
  - destruct (bp_last bp).
    + destruct (andb _ _); cbn [mguard mbind] in Hd; [discriminate|].
      destruct (fp_checksum (c_fp c)); inversion Hd; csimp; auto.
    + inversion Hd; csimp; auto.
  - inversion Hd; csimp. destruct (bp_last bp); auto.
Qed.

Lemma hrun_blocks P src limit ck : forall wf pos (c : cstate) rest m,
  walk_blocks wf (dr pos src) pos = Some (rest, m) ->
  c_stage c = DDecodeBH -> c_expected c = BHS -> fp_checksum (c_fp c) = ck ->
  limit = m + (if ck then 4 else 0) ->
  forall fuel asked, ok_res limit (hrun fuel P c src limit pos asked).
Proof.
  induction wf as [|wf IH]; intros pos c rest m Hw Hs He Hck Hl fuel asked; [discriminate|].
  rewrite walk_blocks_step in Hw.
  destruct (lenN (dr pos src) <? BHS) eqn:E1; [discriminate|].
  destruct (getc_block (tk BHS (dr pos src))) as [bp|e] eqn:Eg; [|discriminate].
  destruct (lenN (dr pos src) <? BHS + bp_csize bp) eqn:E2; [discriminate|]. cbv zeta in Hw.
  rewrite dr_dr in Hw.
  assert (Hm : pos + BHS + bp_csize bp <= m).
  { destruct (bp_last bp); [inversion Hw; lia | apply walk_blocks_ge in Hw; lia]. }
  assert (HB : BHS = 3) by reflexivity.
  destruct fuel as [|f]; [exact I|]. rewrite hrun_step. cbv zeta. rewrite He.
  replace (BHS =? 0) with false by reflexivity.
  replace (limit <? pos + BHS) with false by (symmetry; apply N.ltb_ge; destruct ck; lia).
  replace (is_skip c) with false by (unfold is_skip; rewrite Hs; reflexivity).
  destruct (dcontinue P c (pow2 64) (tk BHS (dr pos src)) BHS) as [[c1 o1]|e] eqn:Ed; [|exact I].
  cbn [fst].
  destruct (bh_stage_next _ _ _ _ _ _ _ Hs He Eg Ed) as [Hfp Hn].
  destruct (bp_csize bp =? 0) eqn:Ecs.
  - apply N.eqb_eq in Ecs. rewrite Ecs in *.
    destruct (bp_last bp).
    + inversion Hw; subst rest m. apply hrun_tail with (ck := ck); [|lia].
      rewrite Hck in Hn. destruct ck; [left|right]; tauto.
    + apply (IH (pos + BHS) c1 rest m); try tauto; try congruence.
      replace (pos + BHS) with (pos + (BHS + 0)) by lia. replace (pos + (BHS + 0)) with (pos + BHS + 0) at 2 by lia. exact Hw.
  - apply N.eqb_neq in Ecs. destruct Hn as [Hs1 He1].
    destruct f as [|f]; [exact I|]. rewrite hrun_step. cbv zeta. rewrite He1.
    replace (bp_csize bp =? 0) with false by (symmetry; apply N.eqb_neq; exact Ecs).
    replace (limit <? pos + BHS + bp_csize bp) with false by (symmetry; apply N.ltb_ge; destruct ck; lia).
    replace (is_skip c1) with false by (unfold is_skip; rewrite Hs1; destruct (bp_last bp); reflexivity).
    destruct (dcontinue P c1 (pow2 64) (tk (bp_csize bp) (dr (pos + BHS) src)) (bp_csize bp)) as [[c2 o2]|e] eqn:Ed2; [|exact I].
    cbn [fst].
    destruct (block_stage_next _ _ _ _ _ _ _ (bp_last bp) Hs1 He1 ltac:(lia) Ed2) as [Hfp2 Hn2].
    destruct (bp_last bp).
    + inversion Hw; subst rest m. apply hrun_tail with (ck := ck); [|lia].
      rewrite Hfp, Hck in Hn2. destruct ck; [left|right]; tauto.
    + apply (IH (pos + BHS + bp_csize bp) c2 rest m); try tauto; try congruence.
      replace (pos + BHS + bp_csize bp) with (pos + (BHS + bp_csize bp)) at 1 by lia. exact Hw.
Qed.

Lemma get_fheader_checksum ml s fp :
  get_fheader ml s = HDone fp -> (ml = true \/ is_skip_magic (le32 s) = false) ->
  fp_checksum fp = N.testbit (nthN s (prefix_len ml - 1) 0) 2.
Proof.
  unfold get_fheader. intros Hg Hm.
  destruct (lenN s <? prefix_len ml).
  - destruct (andb _ _); [|discriminate]. destruct (_ =? _); [discriminate|]. destruct (is_skip_magic _); discriminate.
  - destruct (andb (negb ml) (negb (le32 s =? ZMAGIC))) eqn:Em.
    + destruct (is_skip_magic (le32 s)) eqn:Es; [|discriminate].
      destruct Hm as [->|Hm]; [discriminate|congruence].
    + destruct (lenN s <? frame_header_size ml s); [discriminate|].
      destruct (N.testbit _ 3); [discriminate|].
      match type of Hg with (if ?b then _ else _) = _ => destruct b end; [discriminate|]. inversion Hg. reflexivity.
Qed.

Lemma walk_blocks_len f s c r m : walk_blocks f s c = Some (r, m) -> BHS <= lenN s.
Proof.
  destruct f; [discriminate|]. rewrite walk_blocks_step. destruct (lenN s <? BHS) eqn:E; [discriminate|].
  intros _. apply N.ltb_ge. exact E.
Qed.

Notation c_begin := (c_begin H b_init).

(* the header stages of ZSTD_decompressContinue, as equations *)
Lemma dc_getfh P (c : cstate) cap src n :
  c_stage c = DGetFHSize -> c_expected c = n ->
  dcontinue P c cap src n =
  if andb (negb (dp_magicless P)) (is_skip_magic (le32 src))
  then MOk (c_goto (c_set_hdr c src 0) DSkipHdr (SKIPHDR - n), [])
  else MOk (c_goto (c_set_hdr c src (frame_header_size (dp_magicless P) src)) DDecodeFH (frame_header_size (dp_magicless P) src - n), []).
Proof.
  intros Hs He. unfold DStreamModel.dcontinue, next_with_input, is_block_stage. rewrite Hs, He, N.eqb_refl. reflexivity.
Qed.
Lemma dc_decodefh P (c : cstate) cap src n :
  c_stage c = DDecodeFH -> c_expected c = n ->
  dcontinue P c cap src n =
  (let* fp := decode_fheader P (tk (c_hdrSize c) (c_hdr c ++ src)) in
   MOk (c_goto (c_set_fp P (c_set_hdr c (c_hdr c ++ src) (c_hdrSize c)) fp) DDecodeBH BHS, [])).
Proof.
  intros Hs He. unfold DStreamModel.dcontinue, next_with_input, is_block_stage. rewrite Hs, He, N.eqb_refl. reflexivity.
Qed.
Lemma dc_skiphdr P (c : cstate) cap src n :
  c_stage c = DSkipHdr -> c_expected c = n ->
  dcontinue P c cap src n =
  MOk (c_goto (c_set_hdr c (c_hdr c ++ src) (c_hdrSize c)) DSkipFrame (sub_le (c_hdr c ++ src) s_ZSTD_FRAMEIDSIZE 4), []).
Proof.
  intros Hs He. unfold DStreamModel.dcontinue, next_with_input, is_block_stage. rewrite Hs, He, N.eqb_refl. reflexivity.
Qed.
Lemma dc_skipframe P (c : cstate) cap src n :
  c_stage c = DSkipFrame -> c_expected c = n ->
  dcontinue P c cap src n = MOk (c_goto c DGetFHSize 0, []).
Proof.
  intros Hs He. unfold DStreamModel.dcontinue, next_with_input, is_block_stage. rewrite Hs, He, N.eqb_refl. reflexivity.
Qed.

Theorem bufferless_hints_exact P src n :
  wf_bytes src -> frame_extent (dp_magicless P) src = Some n ->
  forall fuel asked, ok_res n (hrun fuel P (c_begin P) src n 0 asked).
Proof.
  intros W Hx fuel asked. unfold frame_extent in Hx.
  set (ml := dp_magicless P) in *.
  assert (HB : BHS = 3) by reflexivity. assert (HK : SKIPHDR = 8) by reflexivity.
  set (p := prefix_len ml) in *.
  assert (Hp1 : 1 <= p) by apply prefix_len_pos.
  set (c0 := c_begin P).
  assert (Hs0 : c_stage c0 = DGetFHSize) by reflexivity.
  assert (He0 : c_expected c0 = p) by reflexivity.
  clearbody c0.
  destruct (andb (negb ml) (andb (SKIPHDR <=? lenN src) (is_skip_magic (le32 src)))) eqn:Esk.
  - (* skippable frame *)
    apply andb_true_iff in Esk. destruct Esk as [Eml Esk]. apply andb_true_iff in Esk. destruct Esk as [Elen Emag].
    apply negb_true_iff in Eml. apply N.leb_le in Elen.
    cbv zeta in Hx. destruct (lenN src <? _) eqn:El; [discriminate|]. apply N.ltb_ge in El. inversion Hx; subst n; clear Hx.
    assert (Hp : p = 5) by (unfold p; rewrite Eml; reflexivity).
    set (sz := sub_le src s_ZSTD_FRAMEIDSIZE 4) in *.
    destruct fuel as [|f]; [exact I|]. rewrite hrun_step. cbv zeta. rewrite He0.
    replace (p =? 0) with false by (symmetry; apply N.eqb_neq; lia).
    replace (sz + SKIPHDR <? 0 + p) with false by (symmetry; apply N.ltb_ge; lia).
    replace (is_skip c0) with false by (unfold is_skip; rewrite Hs0; reflexivity).
    rewrite (dc_getfh P c0 _ _ p Hs0 He0). fold ml. rewrite dr_0, le32_tk by lia. rewrite Eml, Emag. cbn [negb andb fst].
    set (c1 := c_goto (c_set_hdr c0 (tk p src) 0) DSkipHdr (SKIPHDR - p)).
    assert (Hs1 : c_stage c1 = DSkipHdr) by reflexivity.
    assert (He1 : c_expected c1 = 3) by (unfold c1; csimp; lia).
    assert (Hh1 : c_hdr c1 = tk p src) by reflexivity.
    clearbody c1.
    destruct f as [|f]; [exact I|]. rewrite hrun_step. cbv zeta. rewrite He1.
    replace (3 =? 0) with false by reflexivity.
    replace (sz + SKIPHDR <? 0 + p + 3) with false by (symmetry; apply N.ltb_ge; lia).
    replace (is_skip c1) with false by (unfold is_skip; rewrite Hs1; reflexivity).
    rewrite (dc_skiphdr P c1 _ _ 3 Hs1 He1). rewrite Hh1. cbn [fst].
    replace (tk p src ++ tk 3 (dr (0 + p) src)) with (tk 8 src)
      by (rewrite N.add_0_l, (tk_tk_dr p 3 src); f_equal; lia).
    rewrite sub_le_tk by (vm_compute; discriminate). fold sz.
    set (c2 := c_goto _ DSkipFrame sz).
    assert (Hs2 : c_stage c2 = DSkipFrame) by reflexivity.
    assert (He2 : c_expected c2 = sz) by reflexivity.
    clearbody c2.
    destruct f as [|f]; [exact I|]. rewrite hrun_step. cbv zeta. rewrite He2.
    destruct (sz =? 0) eqn:Ez.
    + apply N.eqb_eq in Ez. unfold ok_res. lia.
    + replace (sz + SKIPHDR <? 0 + p + 3 + sz) with false by (symmetry; apply N.ltb_ge; lia).
      rewrite (dc_skipframe P c2 _ _ sz Hs2 He2). cbn [fst].
      destruct f as [|f]; [exact I|]. rewrite hrun_step. cbv zeta. csimp. cbn [N.eqb]. unfold ok_res. lia.
  - (* Zstandard frame *)
    destruct (lenN src <? p) eqn:Ep; [discriminate|]. apply N.ltb_ge in Ep. cbv zeta in Hx.
    set (hs := frame_header_size ml src) in *.
    destruct (lenN src <? hs) eqn:Eh; [discriminate|]. apply N.ltb_ge in Eh.
    destruct (walk_blocks (S (length src)) (dr hs src) hs) as [[rest m]|] eqn:Ew; [|discriminate].
    assert (Hlow : p + 1 <= hs) by (apply frame_header_size_lower; exact W).
    pose proof (walk_blocks_ge _ _ _ _ _ Ew) as Hm.
    pose proof (walk_blocks_len _ _ _ _ _ Ew) as Hlen. rewrite len_dr in Hlen.
    set (ck := N.testbit (nthN src (p - 1) 0) 2) in *.
    assert (Hn : n = m + (if ck then 4 else 0)).
    { destruct ck; [destruct (lenN rest <? 4); [discriminate|]|]; inversion Hx; lia. }
    clear Hx.
    assert (Hnoskip : ml = true \/ is_skip_magic (le32 src) = false).
    { destruct ml eqn:Eml; [left; reflexivity|right]. cbn [negb andb] in Esk.
      assert (p = 5) by reflexivity.
      replace (SKIPHDR <=? lenN src) with true in Esk by (symmetry; apply N.leb_le; lia). exact Esk. }
    destruct fuel as [|f]; [exact I|]. rewrite hrun_step. cbv zeta. rewrite He0.
    replace (p =? 0) with false by (symmetry; apply N.eqb_neq; lia).
    replace (n <? 0 + p) with false by (symmetry; apply N.ltb_ge; destruct ck; lia).
    replace (is_skip c0) with false by (unfold is_skip; rewrite Hs0; reflexivity).
    rewrite (dc_getfh P c0 _ _ p Hs0 He0). fold ml. rewrite dr_0.
    replace (andb (negb ml) (is_skip_magic (le32 (tk p src)))) with false.
    2:{ symmetry. destruct Hnoskip as [->|Hns]; [reflexivity|]. destruct ml eqn:Eml; [reflexivity|].
        assert (p = 5) by reflexivity. rewrite le32_tk by lia. rewrite Hns. reflexivity. }
    rewrite frame_header_size_tk by (fold p; lia). fold hs. cbn [fst].
    set (c1 := c_goto (c_set_hdr c0 (tk p src) hs) DDecodeFH (hs - p)).
    assert (Hs1 : c_stage c1 = DDecodeFH) by reflexivity.
    assert (He1 : c_expected c1 = hs - p) by reflexivity.
    assert (Hh1 : c_hdr c1 = tk p src) by reflexivity.
    assert (Hz1 : c_hdrSize c1 = hs) by reflexivity.
    clearbody c1.
    destruct f as [|f]; [exact I|]. rewrite hrun_step. cbv zeta. rewrite He1.
    replace (hs - p =? 0) with false by (symmetry; apply N.eqb_neq; lia).
    replace (n <? 0 + p + (hs - p)) with false by (symmetry; apply N.ltb_ge; destruct ck; lia).
    replace (is_skip c1) with false by (unfold is_skip; rewrite Hs1; reflexivity).
    rewrite (dc_decodefh P c1 _ _ (hs - p) Hs1 He1). rewrite Hh1, Hz1.
    replace (tk p src ++ tk (hs - p) (dr (0 + p) src)) with (tk hs src)
      by (rewrite N.add_0_l, (tk_tk_dr p (hs - p) src); f_equal; lia).
    unfold decode_fheader. fold ml.
    destruct (get_fheader ml (tk hs (tk hs src))) as [e|k|fp] eqn:Eg; cbn [mbind]; try exact I.
    destruct (negb (fp_dictid fp =? 0)); cbn [mguard mbind]; [exact I|]. cbn [fst].
    apply (hrun_blocks P src n ck (S (length src)) _ _ rest m).
    + replace (0 + p + (hs - p)) with hs by lia. exact Ew.
    + reflexivity.
    + reflexivity.
    + csimp. rewrite (get_fheader_checksum _ _ _ Eg).
      * fold p. rewrite !nthN_tk by lia. reflexivity.
      * destruct Hnoskip as [->|Hns]; [left; reflexivity|]. destruct ml eqn:Eml; [left; reflexivity|right].
        assert (p = 5) by reflexivity. rewrite !le32_tk by lia. exact Hns.
    + exact Hn.
Qed.

(* ---------- the reader terminates, and its position is the sum of its requests ---------- *)
Fixpoint sumN (l : list N) : N := match l with [] => 0 | x :: t => x + sumN t end.
Lemma sumN_app a b : sumN (a ++ b) = sumN a + sumN b.
Proof. induction a as [|x t IH]; cbn [app sumN]; [reflexivity|rewrite IH; lia]. Qed.
Lemma sumN_rev a : sumN (rev a) = sumN a.
Proof. induction a as [|x t IH]; cbn [rev sumN]; [reflexivity|]. rewrite sumN_app, IH. cbn [sumN]. lia. Qed.

Lemma hrun_sum P src limit : forall fuel (c : cstate) pos asked p a,
  hrun fuel P c src limit pos asked = RDone p a -> p = pos + (sumN a - sumN asked) /\ sumN asked <= sumN a.
Proof.
  induction fuel as [|f IH]; intros c pos asked p a Hr; [discriminate|].
  rewrite hrun_step in Hr. cbv zeta in Hr.
  destruct (c_expected c =? 0).
  - inversion Hr; subst. rewrite rev'_rev, sumN_rev. lia.
  - destruct (limit <? pos + c_expected c); [discriminate|].
    destruct (dcontinue _ _ _ _ _) as [r|e]; [|discriminate].
    apply IH in Hr. cbn [sumN] in Hr. lia.
Qed.

Lemma hrun_fuel P src limit : forall fuel (c : cstate) pos asked,
  pos <= limit -> (N.to_nat (limit - pos) < fuel)%nat -> hrun fuel P c src limit pos asked <> RFuel.
Proof.
  induction fuel as [|f IH]; intros c pos asked Hp Hf; [lia|].
  rewrite hrun_step. cbv zeta.
  destruct (c_expected c =? 0) eqn:E0; [discriminate|]. apply N.eqb_neq in E0.
  destruct (limit <? pos + c_expected c) eqn:El; [discriminate|]. apply N.ltb_ge in El.
  destruct (dcontinue _ _ _ _ _) as [r|e]; [|discriminate].
  apply IH; lia.
Qed.

(* C10 (c), buffer-less API: a reader that gives ZSTD_decompressContinue exactly ZSTD_nextSrcSizeToDecompress bytes and
   never sees a byte past the end of the frame either gets an error from the decoder or ends exactly at the frame end,
   the sizes it was asked for summing to the frame size; it is never asked for a byte beyond the frame *)
Theorem bufferless_read_exact P src n :
  wf_bytes src -> frame_extent (dp_magicless P) src = Some n ->
  match hread H b_init b_raw b_rle b_cblock b_hash P src n with
  | RDone p asked => p = n /\ sumN asked = n
  | RFail _ => True
  | RBeyond _ _ | RShort _ | RFuel => False
  end.
Proof.
  intros W Hx. unfold hread.
  pose proof (bufferless_hints_exact P src n W Hx (S (S (N.to_nat n))) []) as Hok.
  pose proof (hrun_fuel P src n (S (S (N.to_nat n))) (c_begin P) 0 [] ltac:(lia) ltac:(lia)) as Hfu.
  destruct (hrun _ P (c_begin P) src n 0 []) as [p a|? ?|?|?|] eqn:Er; cbn in Hok; try tauto.
  split; [exact Hok|]. apply hrun_sum in Er. cbn [sumN] in Er. lia.
Qed.

End HintProofs.

(* ---------- frame_extent is what the model of ZSTD_findFrameCompressedSize computes ---------- *)
Lemma get_fheader_layout ml s fp :
  get_fheader ml s = HDone fp -> fp_skippable fp = false ->
  prefix_len ml <= lenN s /\ fp_hsize fp = frame_header_size ml s /\ frame_header_size ml s <= lenN s /\
  fp_checksum fp = N.testbit (nthN s (prefix_len ml - 1) 0) 2.
Proof.
  unfold get_fheader. intros Hg Hsk.
  destruct (lenN s <? prefix_len ml) eqn:E0.
  - destruct (andb _ _); [|discriminate]. destruct (_ =? _); [discriminate|]. destruct (is_skip_magic _); discriminate.
  - apply N.ltb_ge in E0. destruct (andb (negb ml) (negb (le32 s =? ZMAGIC))) eqn:Em.
    + destruct (is_skip_magic (le32 s)); [|discriminate]. destruct (lenN s <? SKIPHDR); [discriminate|].
      inversion Hg; subst fp. discriminate.
    + destruct (lenN s <? frame_header_size ml s) eqn:E1; [discriminate|]. apply N.ltb_ge in E1.
      destruct (N.testbit _ 3); [discriminate|].
      match type of Hg with (if ?b then _ else _) = _ => destruct b end; [discriminate|]. inversion Hg. cbn. auto.
Qed.

Theorem find_csize_extent ml src n : find_csize ml src = Some n -> frame_extent ml src = Some n.
Proof.
  unfold find_csize, frame_extent. intros Hf.
  destruct (andb (negb ml) (andb (SKIPHDR <=? lenN src) (is_skip_magic (le32 src)))) eqn:Esk.
  - unfold skippable_size in Hf.
    destruct (lenN src <? SKIPHDR); cbn [mguard mbind] in Hf; [discriminate|].
    destruct (4294967296 <=? _); cbn [mguard mbind] in Hf; [discriminate|].
    destruct (lenN src <? sub_le src s_ZSTD_FRAMEIDSIZE 4 + SKIPHDR); cbn [mguard mbind] in Hf; [discriminate|].
    exact Hf.
  - destruct (get_fheader ml src) as [e|k|fp] eqn:Eg; try discriminate.
    destruct (fp_skippable fp) eqn:Efs.
    + (* a skippable header reaches this branch only when the first test failed: impossible *)
      exfalso. unfold get_fheader in Eg.
      destruct (lenN src <? prefix_len ml).
      * repeat match type of Eg with (if ?b then _ else _) = _ => destruct b end; discriminate.
      * destruct (andb (negb ml) (negb (le32 src =? ZMAGIC))) eqn:Em.
        -- destruct (is_skip_magic (le32 src)) eqn:Es; [|discriminate]. destruct (lenN src <? SKIPHDR) eqn:El; [discriminate|].
           apply andb_true_iff in Em. destruct Em as [Em _]. rewrite Em in Esk. apply N.ltb_ge in El.
           apply N.leb_le in El. rewrite El in Esk. discriminate.
        -- destruct (lenN src <? frame_header_size ml src); [discriminate|].
           destruct (N.testbit _ 3); [discriminate|].
           match type of Eg with (if ?b then _ else _) = _ => destruct b end; [discriminate|]. inversion Eg; subst fp. discriminate.
    + destruct (get_fheader_layout _ _ _ Eg Efs) as (Hp & Hh & Hl & Hc).
      replace (lenN src <? prefix_len ml) with false by (symmetry; apply N.ltb_ge; exact Hp).
      cbv zeta. replace (lenN src <? frame_header_size ml src) with false by (symmetry; apply N.ltb_ge; exact Hl).
      rewrite <- Hh, <- Hc. exact Hf.
Qed.
