(* End to end on the two streaming state machines: the bytes emitted by ANY history of ZSTD_compressStream2 calls on the
   buffering model around the store compressor form a stream the streaming-decoder model accepts (SValid), so ANY
   segmentation of that stream into ZSTD_decompressStream calls (any slices, any output capacities) regenerates exactly
   the consumed input. *)
From Coq Require Import NArith ZArith List Bool Lia Arith.
From ZV.Codec Require Import Bytes ListLemmas XXH64 Block Frame Encode EncodeProofs.
From ZV.Gen Require Import Gen_Stream.
From ZV.Stream Require Import CStreamModel CStreamProofs StoreStream StoreStreamProofs.
From ZV.Stream Require Import DStreamModel StreamLemmas StreamInst DStreamSpec DStreamProofs StreamInstProofs DStreamRefine.
Import ListNotations.
Local Open Scope N_scope.

(* ---------- little-endian fields ---------- *)
Lemma le_val_write_le : forall k v, v < 2 ^ (8 * N.of_nat k) -> le_val (write_le k v) = v.
Proof.
  induction k as [|k IH]; intros v Hv.
  - cbn in *. lia.
  - cbn [write_le le_val]. rewrite IH.
    + pose proof (N.div_mod v 256 ltac:(discriminate)). lia.
    + replace (8 * N.of_nat (S k)) with (8 + 8 * N.of_nat k) in Hv by lia.
      rewrite N.pow_add_r in Hv. change (2 ^ 8) with 256 in Hv.
      apply N.div_lt_upper_bound; [discriminate|exact Hv].
Qed.

Lemma write_le_len k v : lenN (write_le k v) = N.of_nat k.
Proof. revert v; induction k as [|k IH]; intros v; [reflexivity|]. cbn [write_le]. rewrite lenN_cons, IH. lia. Qed.

Lemma bytes_ok_write_le k v : bytes_ok (write_le k v).
Proof.
  revert v; induction k as [|k IH]; intros v; [constructor|]. cbn [write_le]. constructor; [|apply IH].
  apply N.mod_lt. discriminate.
Qed.

Lemma bytes_ok_app a b : bytes_ok a -> bytes_ok b -> bytes_ok (a ++ b).
Proof. unfold bytes_ok. intros. apply Forall_app. split; assumption. Qed.
Lemma bytes_ok_app_inv a b : bytes_ok (a ++ b) -> bytes_ok a /\ bytes_ok b.
Proof. unfold bytes_ok. intros H. apply Forall_app in H. exact H. Qed.

(* ---------- the frame header of the store compressor, read by the streaming decoder's header parser ---------- *)
Definition swl (fc : fconf) : N := fp_windowLog (store_params fc).
Lemma swl_range fc : 10 <= swl fc <= 27.
Proof. unfold swl, store_params. cbn [fp_windowLog]. lia. Qed.

Lemma store_hdr fc : enc_fheader (store_params fc) 0 0 = [40; 181; 47; 253; 4; 8 * (swl fc - 10)].
Proof. reflexivity. Qed.

Definition hdr_expected (w : N) (p : DStreamModel.fparams) : bool :=
  (fp_fcs p =? UNKNOWN) && (fp_window p =? pow2 w) && (fp_blockMax p =? N.min (pow2 w) BLOCKMAX) && DStreamModel.fp_checksum p
  && negb (fp_skippable p) && (fp_hsize p =? 6) && (fp_dictid p =? 0).

Lemma hdr_sweep : forallb (fun w => match get_fheader false [40; 181; 47; 253; 4; 8 * (N.of_nat w - 10)] with
                                    | HDone p => hdr_expected (N.of_nat w) p | _ => false end) (List.seq 10%nat 18%nat) = true.
Proof. vm_compute. reflexivity. Qed.

Lemma store_hdr_parse w : 10 <= w <= 27 ->
  exists p, get_fheader false [40; 181; 47; 253; 4; 8 * (w - 10)] = HDone p /\ hdr_expected w p = true.
Proof.
  intros Hw. pose proof hdr_sweep as H. rewrite forallb_forall in H.
  specialize (H (N.to_nat w)). rewrite N2Nat.id in H.
  destruct (get_fheader false _) as [e|n|p]; try (discriminate H; apply in_seq; lia).
  exists p. split; [reflexivity|]. apply H. apply in_seq. lia.
Qed.

Lemma store_fhs x rest : frame_header_size false (40 :: 181 :: 47 :: 253 :: 4 :: x :: rest) = 6.
Proof. reflexivity. Qed.

(* ---------- raw blocks ---------- *)
Lemma raw_bh_fields (b : bool) (sz : N) :
  let v := b2n b + 2 * 0 + 8 * sz in
  N.shiftr v 3 = sz /\ N.land (N.shiftr v 1) 3 = 0 /\ N.testbit v 0 = b.
Proof.
  cbv zeta. rewrite !N.shiftr_div_pow2. change (2 ^ 3) with 8. change (2 ^ 1) with 2.
  change 3 with (N.ones 2). rewrite N.land_ones. change (2 ^ 2) with 4.
  rewrite N.bit0_odd.
  destruct b; cbn [b2n].
  - repeat split.
    + symmetry. apply (N.div_unique _ 8 _ 1); lia.
    + assert (E : (1 + 2 * 0 + 8 * sz) / 2 = 4 * sz) by (symmetry; apply (N.div_unique _ 2 _ 1); lia).
      rewrite E. rewrite N.mul_comm. apply N.mod_mul. discriminate.
    + replace (1 + 2 * 0 + 8 * sz) with (1 + 2 * (4 * sz)) by lia. apply N.odd_add_mul_2.
  - repeat split.
    + symmetry. apply (N.div_unique _ 8 _ 0); lia.
    + assert (E : (0 + 2 * 0 + 8 * sz) / 2 = 4 * sz) by (symmetry; apply (N.div_unique _ 2 _ 0); lia).
      rewrite E. rewrite N.mul_comm. apply N.mod_mul. discriminate.
    + replace (0 + 2 * 0 + 8 * sz) with (0 + 2 * (4 * sz)) by lia. rewrite N.odd_add_mul_2. reflexivity.
Qed.

Lemma raw_header_parse (last : bool) (d rest : bytes) : lenN d < 2 ^ 21 ->
  getc_block (tk BHS (enc_block last (EBRaw d) ++ rest)) =
  MOk {| bp_csize := lenN d; bp_type := BtRaw; bp_orig := lenN d; bp_last := last |}.
Proof.
  intros Hd. cbn [enc_block]. unfold block_header.
  set (v := b2n last + 2 * 0 + 8 * lenN d).
  assert (Hv : v < 2 ^ (8 * N.of_nat 3)).
  { unfold v. change (2 ^ (8 * N.of_nat 3)) with 16777216. change (2 ^ 21) with 2097152 in Hd. destruct last; cbn [b2n]; lia. }
  rewrite <- !app_assoc.
  assert (E : tk BHS (write_le 3 v ++ d ++ rest) = write_le 3 v).
  { change BHS with (lenN (write_le 3 v)) at 1. apply tk_app_exact. }
  rewrite E. unfold getc_block, sub_le. rewrite dr_0, tk_all by (rewrite write_le_len; reflexivity).
  rewrite (le_val_write_le 3 v Hv).
  destruct (raw_bh_fields last (lenN d)) as (F1 & F2 & F3). fold v in F1, F2, F3.
  rewrite F1, F2, F3. reflexivity.
Qed.

Notation Rblock_at := (block_at RH r_raw r_rle r_cblock).
Notation Rblocks := (blocks RH r_raw r_rle r_cblock).
Notation RSValid := (SValid RH r_init r_raw r_rle r_cblock r_hash).

Lemma raw_block_at fp (h : RH) (last : bool) (d rest : bytes) :
  lenN d < 2 ^ 21 -> lenN d <= fp_blockMax fp ->
  Rblock_at fp h (enc_block last (EBRaw d) ++ rest)
    {| bp_csize := lenN d; bp_type := BtRaw; bp_orig := lenN d; bp_last := last |} d d
    (if lenN d =? 0 then h else r_raw h d) rest.
Proof.
  intros Hd Hm.
  assert (Hdr : dr BHS (enc_block last (EBRaw d) ++ rest) = d ++ rest).
  { cbn [enc_block]. unfold block_header. rewrite <- app_assoc.
    change BHS with (lenN (write_le 3 (b2n last + 2 * 0 + 8 * lenN d))). apply dr_app_exact. }
  constructor; cbn [bp_csize bp_type bp_orig bp_last].
  - cbn [enc_block]. unfold block_header. rewrite !lenN_app, write_le_len. change BHS with 3. lia.
  - apply raw_header_parse. exact Hd.
  - rewrite Hdr, lenN_app. lia.
  - rewrite Hdr. symmetry. apply tk_app_exact.
  - rewrite Hdr. symmetry. apply dr_app_exact.
  - exact Hm.
  - exact Hm.
  - split; reflexivity.
Qed.

Definition raw_fits (bm : N) (b : eblock) : Prop := match b with EBRaw d => lenN d <= bm | _ => False end.

Lemma raw_blocks fp : fp_blockMax fp < 2 ^ 21 -> forall bs (h : RH) rest,
  bs <> [] -> Forall (raw_fits (fp_blockMax fp)) bs ->
  Rblocks fp h (enc_blocks bs ++ rest) (map block_content bs) rest.
Proof.
  intros Hbm. induction bs as [|b t IH]; intros h rest Hne HF; [congruence|].
  inversion HF as [|? ? Hb Ht]; subst.
  destruct b as [d| |]; cbn [raw_fits] in Hb; try contradiction.
  destruct t as [|b2 t2].
  - cbn [enc_blocks map block_content].
    eapply blocks_last; [apply (raw_block_at fp h true d rest); lia|reflexivity].
  - change (enc_blocks (EBRaw d :: b2 :: t2)) with (enc_block false (EBRaw d) ++ enc_blocks (b2 :: t2)).
    rewrite <- app_assoc. cbn [map block_content].
    eapply blocks_more; [apply (raw_block_at fp h false d (enc_blocks (b2 :: t2) ++ rest)); lia|reflexivity|].
    apply IH; [discriminate|exact Ht].
Qed.

(* ---------- one frame of the store compressor is a valid frame for the streaming decoder ---------- *)
Lemma sfp_nomax P p : dp_maxBlock P = 0 -> sfp P p = fp_set_window_block p (N.max (fp_window p) MINW) (fp_blockMax p).
Proof. intros H. unfold sfp, clamp_block. cbn [fp_set_window_block fp_window fp_blockMax]. rewrite H. reflexivity. Qed.

Lemma store_bsize_le fc : store_bsize fc <= N.min (pow2 (swl fc)) BLOCKMAX.
Proof.
  unfold store_bsize, swl. set (w := pow2 (fp_windowLog (store_params fc))).
  assert (1 <= w).
  { unfold w. rewrite pow2_pow. assert (2 ^ fp_windowLog (store_params fc) <> 0) by (apply N.pow_nonzero; discriminate). lia. }
  change BLOCKMAX with 131072. unfold BLOCK_MAX. lia.
Qed.

Lemma store_frame_svalid P fc bs src' crest :
  dp_magicless P = false -> dp_maxBlock P = 0 -> pow2 27 <= dp_maxWindow P ->
  bs <> [] -> Forall (raw_fits (store_bsize fc)) bs ->
  RSValid P src' crest ->
  RSValid P (enc_fheader (store_params fc) 0 0 ++ enc_blocks bs
             ++ write_le 4 (N.land (xxh64 (blocks_content bs) 0) 4294967295) ++ src')
            (blocks_content bs ++ crest).
Proof.
  intros Hml Hmb Hmw Hne HF HS.
  rewrite store_hdr.
  destruct (store_hdr_parse (swl fc) (swl_range fc)) as (p & Hp & He).
  unfold hdr_expected in He. repeat (apply andb_true_iff in He; destruct He as [He ?]).
  repeat match goal with H : (_ =? _) = true |- _ => apply N.eqb_eq in H end.
  match goal with H : negb _ = true |- _ => apply negb_true_iff in H end.
  set (ck := N.land (xxh64 (blocks_content bs) 0) 4294967295).
  set (x := 8 * (swl fc - 10)) in *.
  cbn [app].
  unfold blocks_content.
  apply (SV_frame RH r_init r_raw r_rle r_cblock r_hash P _ p (map block_content bs) (write_le 4 ck ++ src') crest).
  - rewrite Hml. rewrite !lenN_cons. change (prefix_len false) with 5. lia.
  - intros _. reflexivity.
  - rewrite Hml, store_fhs. rewrite !lenN_cons. lia.
  - rewrite Hml, store_fhs. exact Hp.
  - assumption.
  - match goal with H : fp_window p = _ |- _ => rewrite H end.
    assert (pow2 (swl fc) <= pow2 27).
    { rewrite !pow2_pow. apply N.pow_le_mono_r; [discriminate|]. pose proof (swl_range fc). lia. }
    change MINW with 1024. change (pow2 27) with 134217728 in *. lia.
  - rewrite Hml, store_fhs. rewrite (sfp_nomax P p Hmb).
    change (dr 6 (40 :: 181 :: 47 :: 253 :: 4 :: x :: enc_blocks bs ++ write_le 4 ck ++ src'))
      with (enc_blocks bs ++ write_le 4 ck ++ src').
    apply raw_blocks; cbn [fp_blockMax fp_set_window_block].
    + match goal with H : fp_blockMax p = _ |- _ => rewrite H end. change BLOCKMAX with 131072. change (2 ^ 21) with 2097152. lia.
    + exact Hne.
    + match goal with H : fp_blockMax p = _ |- _ => rewrite H end.
      eapply Forall_impl; [|exact HF]. intros b Hb. destruct b; cbn [raw_fits] in *; try contradiction.
      pose proof (store_bsize_le fc). lia.
  - rewrite (sfp_nomax P p Hmb). unfold frame_end. cbn [fp_fcs fp_set_window_block DStreamModel.fp_checksum].
    split; [left; assumption|].
    exists src'.
    match goal with H : DStreamModel.fp_checksum p = true |- _ => rewrite H end.
    split; [|exact HS].
    split; [rewrite lenN_app, write_le_len; lia|].
    split; [symmetry; change 4 with (lenN (write_le 4 ck)) at 1; apply dr_app_exact|].
    right. unfold le32, sub_le. rewrite dr_0.
    change 4 with (lenN (write_le 4 ck)) at 1. rewrite tk_app_exact.
    rewrite le_val_write_le; [reflexivity|].
    unfold ck. change (2 ^ (8 * N.of_nat 4)) with (2 ^ 32). change 4294967295 with (N.ones 32).
    rewrite N.land_ones. apply N.mod_lt. discriminate.
Qed.

(* ---------- bytes of a store frame are bytes ---------- *)
Lemma bytes_ok_enc_blocks : forall bs, Forall (fun b => match b with EBRaw d => bytes_ok d | _ => False end) bs -> bytes_ok (enc_blocks bs).
Proof.
  induction bs as [|b t IH]; intros HF; [constructor|].
  inversion HF as [|? ? Hb Ht]; subst.
  assert (Hone : forall l, bytes_ok (enc_block l b)).
  { intros l. destruct b as [d| |]; try contradiction. cbn [enc_block]. apply bytes_ok_app; [apply bytes_ok_write_le|exact Hb]. }
  destruct t as [|b2 t2]; [apply Hone|].
  change (enc_blocks (b :: b2 :: t2)) with (enc_block false b ++ enc_blocks (b2 :: t2)).
  apply bytes_ok_app; [apply Hone|apply IH; exact Ht].
Qed.

Lemma bytes_ok_concat_inv : forall (l : list bytes), bytes_ok (concat l) -> Forall bytes_ok l.
Proof.
  induction l as [|a t IH]; intros H; [constructor|]. cbn [concat] in H. apply bytes_ok_app_inv in H. destruct H as [Ha Ht].
  constructor; [exact Ha|apply IH; exact Ht].
Qed.

Lemma raw_list_facts bsize (l : list bytes) : Forall (fun c => lenN c <= bsize) l -> bytes_ok (concat l) ->
  Forall (raw_fits bsize) (map EBRaw l) /\ Forall (fun b => match b with EBRaw d => bytes_ok d | _ => False end) (map EBRaw l).
Proof.
  intros HF Hb. apply bytes_ok_concat_inv in Hb. split; apply Forall_forall; intros b Hin; apply in_map_iff in Hin;
    destruct Hin as (c & <- & Hc); cbn [raw_fits].
  - rewrite Forall_forall in HF. exact (HF c Hc).
  - rewrite Forall_forall in Hb. exact (Hb c Hc).
Qed.

Lemma mid_blocks_facts bsize d : 1 <= bsize -> bytes_ok d ->
  Forall (raw_fits bsize) (mid_blocks bsize d) /\ Forall (fun b => match b with EBRaw d => bytes_ok d | _ => False end) (mid_blocks bsize d).
Proof.
  intros H Hb. destruct d as [|a t]; [split; constructor|]. unfold mid_blocks.
  destruct (chunks_spec bsize (a :: t) H) as (C & F & _).
  apply raw_list_facts; [exact F|rewrite C; exact Hb].
Qed.

Lemma frame_blocks_facts bsize pre c : 1 <= bsize -> bytes_ok (chunks_in (pre ++ [(c, true)])) ->
  Forall (raw_fits bsize) (StoreStreamProofs.frame_blocks bsize pre c) /\
  Forall (fun b => match b with EBRaw d => bytes_ok d | _ => False end) (StoreStreamProofs.frame_blocks bsize pre c).
Proof.
  intros H. induction pre as [|[d b] t IH]; intros Hb.
  - unfold StoreStreamProofs.frame_blocks. cbn [map concat app]. unfold chunks_in in Hb. cbn in Hb. rewrite app_nil_r in Hb.
    destruct (chunks_spec bsize c H) as (C & F & _). apply raw_list_facts; [exact F|rewrite C; exact Hb].
  - rewrite frame_blocks_cons. cbn [app] in Hb. rewrite chunks_in_cons in Hb. apply bytes_ok_app_inv in Hb. destruct Hb as [Hd Ht].
    destruct (mid_blocks_facts bsize d H Hd) as [M1 M2]. destruct (IH Ht) as [I1 I2].
    split; apply Forall_app; split; assumption.
Qed.

(* ---------- the relation between a frame of the store compressor and its content ---------- *)
Definition Qstore (P : dparams) (f c : bytes) : Prop :=
  bytes_ok c -> bytes_ok f /\ forall src' crest, RSValid P src' crest -> RSValid P (f ++ src') (c ++ crest).

Lemma store_chunk_rel P : dp_magicless P = false -> dp_maxBlock P = 0 -> pow2 27 <= dp_maxWindow P ->
  forall cs fc pl chunks, complete chunks -> Qstore P (outs sst store_chunk (store_begin cs fc pl) chunks) (chunks_in chunks).
Proof.
  intros Hml Hmb Hmw cs fc pl chunks (pre & c & -> & Hnl) Hb.
  rewrite store_outs by exact Hnl.
  unfold store_begin. cbn [s_first s_p s_bsize s_seen app].
  destruct (store_bsize_bounds fc) as (B1 & _ & _).
  set (bs := StoreStreamProofs.frame_blocks (store_bsize fc) pre c).
  assert (Ec : blocks_content bs = chunks_in (pre ++ [(c, true)])) by (apply frame_blocks_content; exact B1).
  destruct (frame_blocks_facts (store_bsize fc) pre c B1 Hb) as [F1 F2]. fold bs in F1, F2.
  rewrite <- Ec. split.
  - apply bytes_ok_app; [|apply bytes_ok_app; [apply bytes_ok_enc_blocks; exact F2|apply bytes_ok_write_le]].
    rewrite store_hdr. pose proof (swl_range fc). repeat constructor; lia.
  - intros src' crest HS. rewrite <- !app_assoc.
    apply store_frame_svalid; auto. apply frame_blocks_ne.
Qed.

Lemma frames_svalid P (frames : list (bytes * bytes)) :
  (forall io, In io frames -> Qstore P (snd io) (fst io)) ->
  bytes_ok (concat (map fst frames)) ->
  RSValid P (concat (map snd frames)) (concat (map fst frames)) /\ bytes_ok (concat (map snd frames)).
Proof.
  induction frames as [|io fr IH]; intros HQ Hb.
  - split; [apply SV_nil|constructor].
  - cbn [map concat] in *. apply bytes_ok_app_inv in Hb. destruct Hb as [H1 H2].
    destruct (HQ io (or_introl eq_refl) H1) as [Hf Hext].
    destruct (IH (fun io' Hin => HQ io' (or_intror Hin)) H2) as [IS IB].
    split; [apply Hext; exact IS|apply bytes_ok_app; assumption].
Qed.

Lemma bytes_ok_tk n l : bytes_ok l -> bytes_ok (tk n l).
Proof. intros H. rewrite <- (tk_dr n l) in H. apply bytes_ok_app_inv in H. tauto. Qed.

(* ---------- end to end ---------- *)
Theorem store_stream_e2e :
  forall (P : kparams) (Pd : dparams) (X : bytes) (cs : sst) (calls : list kcall) (k' : kstate sst) (pos' : N) (emitted' : bytes),
  calls_ok calls ->
  krun sst store_begin store_chunk P (k_new cs) X 0 calls [] = Some (k', pos', emitted') ->
  k_stage k' = KInit -> k_frameEnded k' = true -> k_held k' = [] ->
  bytes_ok X ->
  dp_magicless Pd = false -> dp_maxBlock Pd = 0 -> pow2 27 <= dp_maxWindow Pd -> dp_stableOut Pd = false -> OBMAX Pd < UNKNOWN ->
  forall (dcalls : list dcall) outs z' rest,
  drun RH r_init r_raw r_rle r_cblock r_hash Pd (Rz_new Pd) emitted' dcalls [] = (outs, z', rest) ->
  exists crest' taken,
    tk pos' X = emitted outs ++ crest' /\ emitted' = taken ++ rest /\
    Forall (ok_ret RH) outs /\
    (last_ret RH None outs = Some (MOk 0) -> rest = [] -> emitted outs = tk pos' X).
Proof.
  intros P Pd X cs calls k' pos' emitted' Hok Hrun H1 H2 H3 HbX Hml Hmb Hmw Hso Hob dcalls outs z' rest Hd.
  destruct (stream_roundtrip_rel sst store_begin store_chunk (Qstore Pd) (store_chunk_rel Pd Hml Hmb Hmw)
              P X cs calls k' pos' emitted' Hok Hrun H1 H2 H3) as (frames & Hin & Hout & HQ).
  destruct (frames_svalid Pd frames HQ) as [HS HB].
  { rewrite <- Hin. apply bytes_ok_tk. exact HbX. }
  rewrite <- Hin in HS. rewrite <- Hout in HS, HB.
  assert (Hmin : MINW <= dp_maxWindow Pd) by (change MINW with 1024; change (pow2 27) with 134217728 in Hmw; lia).
  destruct (dstream_refines_svalid RH r_init r_raw r_rle r_cblock r_hash Pd Hso Hob Hmin r_cblock_window
              emitted' (tk pos' X) dcalls outs z' rest HB HS Hd) as (crest' & taken & A & B & C & _ & E).
  exists crest', taken. repeat split; assumption.
Qed.
