(* The single-pass shortcut of ZSTD_decompressStream: when the whole first frame lies in the caller's input and the
   output has room for its declared content, ZSTD_findFrameCompressedSize + one-shot decompression of exactly that
   frame give the frame's content and leave the rest of a valid stream. *)
From Coq Require Import NArith ZArith List Bool Lia PeanoNat.
From ZV.Codec Require Import Bytes ListLemmas.
From ZV.Gen Require Import Gen_Stream.
From ZV.Stream Require Import DStreamModel StreamLemmas.
From ZV.Stream Require Import DStreamSpec DStreamHeader DStreamSV.
Import ListNotations.
Local Open Scope N_scope.

Ltac Zify.zify_post_hook ::= Z.div_mod_to_equations.

(* ---------- a complete header does not look further than its own bytes ---------- *)
Lemma sub_le_app (x y : bytes) pos k : pos + k <= lenN x -> sub_le (x ++ y) pos k = sub_le x pos k.
Proof.
  intros Hle. rewrite <- (sub_le_tk (x ++ y) (lenN x) pos k Hle). rewrite tk_app_exact. reflexivity.
Qed.
Lemma nthN_app_l (x y : bytes) i d : i < lenN x -> nthN (x ++ y) i d = nthN x i d.
Proof. intros Hi. rewrite <- (nthN_tk (x ++ y) (lenN x) i d Hi). rewrite tk_app_exact. reflexivity. Qed.

Lemma nthN_byte (x : bytes) i : bytes_ok x -> nthN x i 0 < 256.
Proof.
  intros Hb. unfold nthN. destruct (nth_in_or_default (N.to_nat i) x 0) as [Hin|E]; [|rewrite E; lia].
  unfold bytes_ok in Hb. rewrite Forall_forall in Hb. apply Hb. exact Hin.
Qed.

Lemma shiftr6_lt4 b : b < 256 -> N.shiftr b 6 < 4.
Proof. intros Hb. rewrite N.shiftr_div_pow2. change (2 ^ 6) with 64. apply N.div_lt_upper_bound; lia. Qed.

Lemma fcs_cases f : f < 4 -> f = 0 \/ f = 1 \/ f = 2 \/ f = 3.
Proof. lia. Qed.

Lemma gfh_ext ml (x y : bytes) fp :
  bytes_ok x -> get_fheader ml x = HDone fp -> fp_skippable fp = false -> lenN x = frame_header_size ml x ->
  (ml = false -> le32 x = ZMAGIC) ->
  get_fheader ml (x ++ y) = HDone fp /\ fp_hsize fp = lenN x /\ hdr_min ml <= lenN x.
Proof.
  intros Hb Hg Hns Hlen Hm.
  assert (Hpl : prefix_len ml <= lenN x) by (rewrite Hlen; apply fhs_ge).
  assert (Hp1 : 1 <= prefix_len ml) by (destruct ml; cbv; discriminate).
  assert (Hfhs : frame_header_size ml (x ++ y) = frame_header_size ml x).
  { unfold frame_header_size. rewrite nthN_app_l by lia. reflexivity. }
  assert (Hle32 : ml = false -> le32 (x ++ y) = le32 x).
  { intros E. unfold le32. apply sub_le_app. rewrite E in Hpl. change (prefix_len false) with 5 in Hpl. lia. }
  unfold get_fheader in *.
  replace (lenN x <? prefix_len ml) with false in Hg by (symmetry; apply N.ltb_ge; lia).
  replace (lenN (x ++ y) <? prefix_len ml) with false by (symmetry; apply N.ltb_ge; rewrite lenN_app; lia).
  assert (Hnm : andb (negb ml) (negb (le32 x =? ZMAGIC)) = false).
  { destruct ml; [reflexivity|]. rewrite (Hm eq_refl), N.eqb_refl. reflexivity. }
  assert (Hnm' : andb (negb ml) (negb (le32 (x ++ y) =? ZMAGIC)) = false).
  { destruct ml; [reflexivity|]. rewrite (Hle32 eq_refl), (Hm eq_refl), N.eqb_refl. reflexivity. }
  rewrite Hnm in Hg. rewrite Hnm'. rewrite Hfhs.
  replace (lenN x <? frame_header_size ml x) with false in Hg by (symmetry; apply N.ltb_ge; lia).
  replace (lenN (x ++ y) <? frame_header_size ml x) with false by (symmetry; apply N.ltb_ge; rewrite lenN_app; lia).
  rewrite (nthN_app_l x y (prefix_len ml - 1)) by lia.
  set (fhd := nthN x (prefix_len ml - 1) 0) in *.
  assert (Hfhd : fhd < 256) by (apply nthN_byte; exact Hb).
  pose proof (shiftr6_lt4 fhd Hfhd) as Hf4.
  destruct (N.testbit fhd 3); [discriminate|].
  pose proof Hlen as Hlen0. unfold frame_header_size in Hlen. fold fhd in Hlen.
  set (single := N.testbit fhd 5) in *. set (fcsId := N.shiftr fhd 6) in *. set (didc := N.land fhd 3) in *.
  set (didsz := nthN s_did_fieldSize didc 0) in *.
  destruct single eqn:Es.
  - (* single segment: the window byte is not part of the header and is not used *)
    cbn [negb andb] in *.
    assert (Hd : sub_le (x ++ y) (prefix_len ml + 0) didsz = sub_le x (prefix_len ml + 0) didsz) by (apply sub_le_app; lia).
    rewrite Hd.
    destruct (fcs_cases fcsId Hf4) as [E|[E|[E|E]]]; rewrite E in *; cbn [N.eqb Pos.eqb] in *;
      change (nthN s_fcs_fieldSize 0 0) with 0 in Hlen; change (nthN s_fcs_fieldSize 1 0) with 2 in Hlen;
      change (nthN s_fcs_fieldSize 2 0) with 4 in Hlen; change (nthN s_fcs_fieldSize 3 0) with 8 in Hlen; cbn [andb] in Hlen;
      (rewrite !(sub_le_app x y) by lia); inversion Hg; subst fp; cbn [fp_hsize];
      (split; [reflexivity|]); (split; [symmetry; exact Hlen0|]);
      destruct ml; cbv [hdr_min s_HDRMIN_magicless s_HDRMIN_zstd1 prefix_len s_PREFIX_magicless s_PREFIX_zstd1] in *; lia.
  - cbn [negb andb] in *.
    rewrite (nthN_app_l x y (prefix_len ml)) by lia.
    destruct (s_ZSTD_WINDOWLOG_MAX <? _); [discriminate|].
    assert (Hd : sub_le (x ++ y) (prefix_len ml + 1) didsz = sub_le x (prefix_len ml + 1) didsz) by (apply sub_le_app; lia).
    rewrite Hd.
    destruct (fcs_cases fcsId Hf4) as [E|[E|[E|E]]]; rewrite E in *; cbn [N.eqb Pos.eqb] in *;
      change (nthN s_fcs_fieldSize 0 0) with 0 in Hlen; change (nthN s_fcs_fieldSize 1 0) with 2 in Hlen;
      change (nthN s_fcs_fieldSize 2 0) with 4 in Hlen; change (nthN s_fcs_fieldSize 3 0) with 8 in Hlen; cbn [andb] in Hlen;
      try (rewrite !(sub_le_app x y) by lia); inversion Hg; subst fp; cbn [fp_hsize];
      (split; [reflexivity|]); (split; [symmetry; exact Hlen0|]);
      destruct ml; cbv [hdr_min s_HDRMIN_magicless s_HDRMIN_zstd1 prefix_len s_PREFIX_magicless s_PREFIX_zstd1] in *; lia.
Qed.

Section Shortcut.
Variable H : Type.
Variable b_init : H.
Variable b_raw : H -> bytes -> H.
Variable b_rle : H -> N -> N -> H.
Variable b_cblock : N -> N -> H -> bytes -> res (H * bytes).
Variable b_hash : bytes -> N.
(* the window size only matters to a strict reference decoder; the block decoder of the C code does not look at it *)
Hypothesis b_cblock_window : forall w1 w2 bm h s, b_cblock w1 bm h s = b_cblock w2 bm h s.

Notation block_at := (block_at H b_raw b_rle b_cblock).
Notation blocks := (blocks H b_raw b_rle b_cblock).
Notation SValid := (SValid H b_init b_raw b_rle b_cblock b_hash).
Notation frame_blocks := (frame_blocks H b_raw b_rle b_cblock).
Notation decompress_frame := (decompress_frame H b_init b_raw b_rle b_cblock b_hash).
Notation decompress_multi := (decompress_multi H b_init b_raw b_rle b_cblock b_hash).
Notation oneshot := (oneshot H b_init b_raw b_rle b_cblock b_hash).

(* a block only depends on its own bytes *)
Lemma block_at_extent fp h src bp pl out h' rest :
  block_at fp h src bp pl out h' rest ->
  src = tk BHS src ++ pl ++ rest /\ lenN (tk BHS src) = BHS /\ lenN pl = bp_csize bp /\
  forall r2, block_at fp h (tk BHS src ++ pl ++ r2) bp pl out h' r2.
Proof.
  intros [Hlen Hhdr Hplen Hpl Hrest Hcmax Homax Hbody].
  assert (H3 : lenN (tk BHS src) = BHS) by (rewrite len_tk; lia).
  assert (Hpl' : lenN pl = bp_csize bp) by (rewrite Hpl, len_tk; lia).
  split; [|split; [exact H3|split; [exact Hpl'|]]].
  - rewrite Hpl, Hrest, tk_dr, tk_dr. reflexivity.
  - intros r2.
    assert (E1 : tk BHS (tk BHS src ++ pl ++ r2) = tk BHS src) by (rewrite <- H3 at 1; apply tk_app_exact).
    assert (E2 : dr BHS (tk BHS src ++ pl ++ r2) = pl ++ r2) by (rewrite <- H3 at 1; apply dr_app_exact).
    constructor; rewrite ?E1, ?E2; auto.
    + rewrite lenN_app. lia.
    + rewrite lenN_app. lia.
    + rewrite <- Hpl'. symmetry. apply tk_app_exact.
    + rewrite <- Hpl'. symmetry. apply dr_app_exact.
Qed.

Lemma blocks_extent fp h src chunks rest :
  blocks fp h src chunks rest ->
  exists used, src = used ++ rest /\ 3 * N.of_nat (length chunks) <= lenN used /\
               forall r2, blocks fp h (used ++ r2) chunks r2.
Proof.
  induction 1 as [h src bp pl out h' rest BA L|h src bp pl out h' rest l rest' BA L B IH].
  - destruct (block_at_extent _ _ _ _ _ _ _ _ BA) as (Es & H3 & Hp & Hext).
    exists (tk BHS src ++ pl). split; [rewrite <- app_assoc; exact Es|]. split.
    + rewrite lenN_app, H3. cbn [length]. unfold BHS. change s_ZSTD_blockHeaderSize with 3. lia.
    + intros r2. rewrite <- app_assoc. eapply blocks_last; [apply Hext|exact L].
  - destruct (block_at_extent _ _ _ _ _ _ _ _ BA) as (Es & H3 & Hp & Hext).
    destruct IH as (used & Eu & Hcnt & Hall).
    exists (tk BHS src ++ pl ++ used). split; [rewrite <- !app_assoc, <- Eu; exact Es|]. split.
    + rewrite !lenN_app, H3. cbn [length]. unfold BHS. change s_ZSTD_blockHeaderSize with 3. lia.
    + intros r2. rewrite <- !app_assoc. eapply blocks_more; [apply Hext|exact L|apply Hall].
Qed.

(* ZSTD_findFrameCompressedSize's walk over the block headers, on a prefix [u] of the stream body, finds the blocks of
   the stream *)
Lemma walk_blocks_agree fp : forall fuel u y c restI n h chunks rest1,
  walk_blocks fuel u c = Some (restI, n) -> blocks fp h (u ++ y) chunks rest1 ->
  rest1 = restI ++ y /\ exists used, u = used ++ restI /\ n = c + lenN used.
Proof.
  induction fuel as [|f IH]; intros u y c restI n h chunks rest1 Hw HB; [discriminate|].
  cbn [walk_blocks] in Hw.
  destruct (lenN u <? BHS) eqn:El; [discriminate|]. apply N.ltb_ge in El.
  destruct (getc_block (tk BHS u)) as [bp|e] eqn:Eg; [|discriminate].
  destruct (lenN u <? BHS + bp_csize bp) eqn:El2; [discriminate|]. apply N.ltb_ge in El2.
  assert (Etk : tk BHS (u ++ y) = tk BHS u) by (apply firstn_prefix; exact El).
  assert (Edr : dr (BHS + bp_csize bp) (u ++ y) = dr (BHS + bp_csize bp) u ++ y) by (apply dr_prefix; exact El2).
  assert (Hsplit : u = tk (BHS + bp_csize bp) u ++ dr (BHS + bp_csize bp) u) by (symmetry; apply tk_dr).
  assert (Hlu : lenN (tk (BHS + bp_csize bp) u) = BHS + bp_csize bp) by (rewrite len_tk; lia).
  inversion HB as [h0 s0 bp' pl out h' rest BA L|h0 s0 bp' pl out h' rest l rest' BA L B']; subst.
  - destruct BA as [_ Hhdr _ _ Hrest _ _ _]. rewrite Etk, Eg in Hhdr. inversion Hhdr; subst bp'.
    rewrite L in Hw. inversion Hw; subst restI n. rewrite dr_dr in Hrest. split; [rewrite Hrest; exact Edr|].
    exists (tk (BHS + bp_csize bp) u). split; [exact Hsplit|]. rewrite Hlu. lia.
  - destruct BA as [_ Hhdr _ _ Hrest _ _ _]. rewrite Etk, Eg in Hhdr. inversion Hhdr; subst bp'.
    rewrite L in Hw. rewrite dr_dr, Edr in Hrest. subst rest.
    destruct (IH _ _ _ _ _ _ _ _ Hw B') as (Er & used & Eu & En). split; [exact Er|].
    exists (tk (BHS + bp_csize bp) u ++ used). split.
    + rewrite <- app_assoc, <- Eu. exact Hsplit.
    + rewrite lenN_app, Hlu. lia.
Qed.

(* the one-shot block loop (ZSTD_decompressFrame, not strict) decodes the blocks of a valid frame *)
Lemma blocks_run fpS fp : fp_blockMax fp = fp_blockMax fpS ->
  forall h src chunks rest, blocks fpS h src chunks rest ->
  forall fuel cap acc, (length chunks <= fuel)%nat -> lenN (concat chunks) <= cap ->
  frame_blocks fuel false fp h src cap acc = MOk (rev acc ++ chunks, rest, cap - lenN (concat chunks)).
Proof.
  intros Hbm h src chunks rest HB.
  assert (Hstep : forall h src bp pl out h' rest cap, block_at fpS h src bp pl out h' rest -> lenN out <= cap ->
            forall f acc, frame_blocks (S f) false fp h src cap acc =
              if bp_last bp then MOk (rev' (out :: acc), rest, cap - lenN out)
              else frame_blocks f false fp h' rest (cap - lenN out) (out :: acc)).
  { clear HB h src chunks rest. intros h src bp pl out h' rest cap [Hlen Hhdr Hplen Hpl Hrest Hcmax Homax Hbody] Hcap f acc.
    cbn [DStreamModel.frame_blocks].
    replace (lenN src <? BHS) with false by (symmetry; apply N.ltb_ge; exact Hlen). cbn [mguard mbind].
    rewrite Hhdr. cbn [mbind].
    replace (lenN (dr BHS src) <? bp_csize bp) with false by (symmetry; apply N.ltb_ge; exact Hplen). cbn [mguard mbind].
    rewrite <- Hpl, <- Hrest.
    destruct (bp_type bp) eqn:Et.
    - destruct Hbody as [Hh Ho]. cbn [andb mguard mbind].
      assert (Hc : (cap <? bp_csize bp) = false).
      { apply N.ltb_ge. rewrite Ho in Hcap. rewrite Hpl, len_tk in Hcap. lia. }
      rewrite Hc. cbn [mguard mbind]. rewrite <- Hh, <- Ho. cbn [andb mguard mbind]. reflexivity.
    - destruct Hbody as [Hh Ho].
      assert (Hc : (cap <? bp_orig bp) = false).
      { apply N.ltb_ge. rewrite Ho, repeat_byte_len in Hcap. exact Hcap. }
      rewrite Hc. cbn [mguard mbind]. rewrite <- Hh, <- Ho. cbn [andb mguard mbind]. reflexivity.
    - destruct Hbody as [_ Hb].
      replace (fp_blockMax fp <? bp_csize bp) with false by (symmetry; apply N.ltb_ge; rewrite Hbm; exact Hcmax).
      cbn [mguard mbind]. rewrite (b_cblock_window (fp_window fp) (fp_window fpS)), Hbm, Hb. cbn [of_res mbind snd].
      replace (cap <? lenN out) with false by (symmetry; apply N.ltb_ge; exact Hcap). cbn [mguard mbind andb]. reflexivity.
    - contradiction. }
  induction HB as [h src bp pl out h' rest BA L|h src bp pl out h' rest l rest' BA L B IH]; intros fuel cap acc Hf Hcap.
  - cbn [concat length] in *. rewrite app_nil_r in Hcap. destruct fuel as [|f]; [lia|].
    rewrite (Hstep _ _ _ _ _ _ _ cap BA Hcap), L. rewrite rev'_rev. cbn [rev]. rewrite app_nil_r. reflexivity.
  - cbn [concat length] in *. rewrite lenN_app in Hcap. destruct fuel as [|f]; [lia|].
    rewrite (Hstep _ _ _ _ _ _ _ cap BA ltac:(lia)), L.
    rewrite IH by lia. cbn [rev]. rewrite <- app_assoc, lenN_app. cbn [app]. f_equal. f_equal. lia.
Qed.

Lemma blocks_nonempty fp h src chunks rest : blocks fp h src chunks rest -> (1 <= length chunks)%nat.
Proof. intros HB. inversion HB; subst; cbn; lia. Qed.

Lemma clamp_blockMax P fp0 : fp_blockMax (clamp_block P fp0) = fp_blockMax (sfp P fp0).
Proof. unfold sfp, clamp_block, fp_set_window_block. destruct (dp_maxBlock P =? 0); reflexivity. Qed.
Lemma clamp_fcs P fp0 : fp_fcs (clamp_block P fp0) = fp_fcs fp0 /\ fp_fcs (sfp P fp0) = fp_fcs fp0 /\
  fp_checksum (clamp_block P fp0) = fp_checksum fp0 /\ fp_checksum (sfp P fp0) = fp_checksum fp0.
Proof. unfold sfp, clamp_block, fp_set_window_block. destruct (dp_maxBlock P =? 0); repeat split; reflexivity. Qed.

Theorem shortcut_ok P inp0 fut crest hs fp0 cs cap :
  bytes_ok (inp0 ++ fut) ->
  SValid P (inp0 ++ fut) crest -> Hdr P (inp0 ++ fut) hs fp0 -> fp_skippable fp0 = false -> fp_fcs fp0 <> UNKNOWN ->
  find_csize (dp_magicless P) inp0 = Some cs -> cs <= lenN inp0 -> fp_fcs fp0 <= cap ->
  exists dec crest', oneshot P (tk cs inp0) cap = MOk dec /\ crest = dec ++ crest' /\ lenN dec <= cap /\
                     SValid P (dr cs inp0 ++ fut) crest' /\ 1 <= cs /\ hs <= cs.
Proof.
  intros Hb HS HH Hns Hfu Hfc Hcs Hcap.
  set (ml := dp_magicless P) in *. set (S := inp0 ++ fut) in *.
  destruct (sv_frame H b_init b_raw b_rle b_cblock b_hash P S crest hs fp0 HS HH Hns)
    as (_ & Hdid & _ & _ & chunks & rest1 & crest1 & HB & HFE & Hcr).
  destruct (hdr_done P S hs fp0 HH) as (Hgx & HhsS & Hhs1).
  inversion HH as [s0 Hml0 Hl0 Hmg0 E1 E2 E3|s0 fpz Hpl Hmagic Hhs Hg E1 E2 E3]; subst; [discriminate|].
  fold ml in Hpl, Hmagic, Hhs, Hg, Hgx, HhsS, Hhs1, HB. fold ml. fold S. set (hs := frame_header_size ml S) in *.
  assert (Hp1 : 1 <= prefix_len ml) by (destruct ml; cbv; discriminate).
  pose proof (fhs_ge ml S) as Hge. fold hs in Hge.
  (* the skippable test of find_csize is off *)
  unfold find_csize in Hfc.
  assert (Hnsk : andb (negb ml) (andb (SKIPHDR <=? lenN inp0) (is_skip_magic (le32 inp0))) = false).
  { destruct ml eqn:Eml; [reflexivity|]. cbn [negb andb]. destruct (SKIPHDR <=? lenN inp0) eqn:E8; [|reflexivity].
    apply N.leb_le in E8. change SKIPHDR with 8 in E8. cbn [andb].
    assert (E : le32 inp0 = le32 S) by (unfold S, le32; symmetry; apply sub_le_app; lia).
    rewrite E, (Hmagic eq_refl). apply zmagic_not_skip. }
  rewrite Hnsk in Hfc.
  (* the header lies inside inp0 *)
  assert (HhsI : hs <= lenN inp0).
  { destruct (N.le_gt_cases hs (lenN inp0)) as [X|X]; [exact X|exfalso].
    destruct (hdr_need P S hs fp0 (lenN inp0) HH Hb X) as (n & Hn & _).
    unfold S in Hn at 1. rewrite tk_app_exact in Hn. fold ml in Hn. rewrite Hn in Hfc. discriminate. }
  set (x := tk hs inp0). set (y' := dr hs inp0).
  assert (Hinp : inp0 = x ++ y') by (symmetry; apply tk_dr).
  assert (HxS : tk hs S = x) by (unfold S, x; apply firstn_prefix; exact HhsI).
  assert (Hlx : lenN x = hs) by (unfold x; rewrite len_tk; lia).
  rewrite HxS in Hgx, Hg.
  assert (Hbx : bytes_ok x).
  { unfold S in Hb. rewrite Hinp, <- app_assoc in Hb. unfold bytes_ok in *. apply Forall_app in Hb. apply Hb. }
  assert (Hfx : frame_header_size ml x = hs).
  { rewrite <- HxS. unfold hs. apply fhs_tk. exact Hge. }
  assert (Hmx : ml = false -> le32 x = ZMAGIC).
  { intros E. rewrite <- HxS, le32_tk; [apply Hmagic; exact E|]. rewrite E in Hge. change (prefix_len false) with 5 in Hge. lia. }
  destruct (gfh_ext ml x y' fp0 Hbx Hgx Hns ltac:(rewrite Hfx; exact Hlx) Hmx) as (Hgi & Hhsz & Hmin).
  rewrite <- Hinp in Hgi. rewrite Hgi, Hhsz, Hlx in Hfc. fold y' in Hfc.
  destruct (walk_blocks (Datatypes.S (length inp0)) y' hs) as [[restI n]|] eqn:Ew; [|discriminate].
  assert (HdrS : dr hs S = y' ++ fut) by (unfold S, y'; apply dr_prefix; exact HhsI).
  rewrite HdrS in HB.
  destruct (walk_blocks_agree _ _ _ _ _ _ _ _ _ _ Ew HB) as (Er1 & used & Ey & En).
  destruct (blocks_extent _ _ _ _ _ HB) as (used2 & Eu2 & Hcnt & Hall).
  assert (Hused : used2 = used).
  { rewrite Ey, <- app_assoc, Er1 in Eu2. apply app_inv_tail in Eu2. symmetry. exact Eu2. }
  subst used2.
  pose proof (blocks_nonempty _ _ _ _ _ HB) as Hne.
  destruct (clamp_fcs P fp0) as (Ef1 & Ef2 & Ec1 & Ec2).
  destruct HFE as [Hfcs (after & Hck & HSafter)]. rewrite Ef2 in Hfcs. rewrite Ec2 in Hck.
  destruct Hfcs as [Hfcs|Hfcs]; [contradiction|].
  (* the tail of the frame: checksum or nothing *)
  assert (Htail : exists ck, tk cs inp0 = x ++ used ++ ck /\ dr cs inp0 ++ fut = after /\ cs = hs + lenN used + lenN ck /\
                    (if fp_checksum fp0 then lenN ck = 4 /\ (dp_ignoreChecksum P = true \/ le32 ck = b_hash (concat chunks)) else ck = [])).
  { assert (Hi2 : inp0 = x ++ used ++ restI) by (rewrite Hinp at 1; rewrite Ey; reflexivity).
    destruct (fp_checksum fp0) eqn:Eck.
    - destruct (lenN restI <? 4) eqn:E4; [discriminate|]. apply N.ltb_ge in E4. inversion Hfc; subst cs.
      destruct Hck as (Hl4 & Haf & Hh). exists (tk 4 restI).
      assert (Hlk : lenN (tk 4 restI) = 4) by (rewrite len_tk; lia).
      assert (E : inp0 = (x ++ used ++ tk 4 restI) ++ dr 4 restI) by (rewrite <- !app_assoc, tk_dr; exact Hi2).
      assert (El : lenN (x ++ used ++ tk 4 restI) = n + 4) by (rewrite !lenN_app, Hlk; lia).
      split; [|split; [|split; [|split]]].
      + rewrite E at 1. rewrite <- El. apply tk_app_exact.
      + rewrite Haf, Er1. rewrite E at 1. rewrite <- El, dr_app_exact. rewrite dr_prefix by lia. reflexivity.
      + rewrite Hlk. lia.
      + exact Hlk.
      + destruct Hh as [Hh|Hh]; [left; exact Hh|right]. rewrite le32_tk by lia. rewrite Er1 in Hh.
        unfold le32 in *. rewrite sub_le_app in Hh by lia. exact Hh.
    - inversion Hfc; subst cs. subst after. exists [].
      split; [|split; [|split; [|reflexivity]]].
      + rewrite app_nil_r, Hi2, app_assoc. replace n with (lenN (x ++ used)) by (rewrite lenN_app; lia). apply tk_app_exact.
      + rewrite Er1, Hi2, app_assoc. replace n with (lenN (x ++ used)) by (rewrite lenN_app; lia). rewrite dr_app_exact. reflexivity.
      + change (lenN (@nil N)) with 0. lia. }
  destruct Htail as (ck & HF & Hafter & Hcsv & Hckv).
  exists (concat chunks), crest1.
  assert (Hlu : 3 <= lenN used) by lia.
  split; [|split; [reflexivity|split; [lia|split; [rewrite Hafter; exact HSafter|split; lia]]]].
  (* run the one-shot decoder on exactly the frame *)
  set (F := tk cs inp0) in *.
  assert (HlF : lenN F = hs + lenN used + lenN ck) by (rewrite HF, !lenN_app; lia).
  unfold DStreamModel.oneshot.
  assert (Hfuel : exists f, length F = Datatypes.S f).
  { destruct F as [|a t]; [change (lenN (@nil N)) with 0 in HlF; lia|]. eexists; reflexivity. }
  destruct Hfuel as (f & Ef). rewrite Ef.
  cbn [DStreamModel.decompress_multi]. fold ml.
  replace (lenN F <? prefix_len ml) with false by (symmetry; apply N.ltb_ge; lia).
  assert (Hle32F : ml = false -> le32 F = ZMAGIC).
  { intros E. rewrite HF. unfold le32. rewrite sub_le_app; [apply (Hmx E)|]. rewrite E in Hge. change (prefix_len false) with 5 in Hge. lia. }
  assert (HnskF : andb (negb ml) (andb (4 <=? lenN F) (is_skip_magic (le32 F))) = false).
  { destruct ml eqn:Eml; [reflexivity|]. rewrite (Hle32F eq_refl), zmagic_not_skip, andb_false_r. reflexivity. }
  rewrite HnskF.
  (* decompress_frame *)
  assert (HDF : decompress_frame false P F cap = MOk (chunks, [], cap - lenN (concat chunks))).
  { unfold DStreamModel.decompress_frame. fold ml.
    assert (HfF : frame_header_size ml F = hs).
    { rewrite HF. unfold frame_header_size. rewrite nthN_app_l by lia. exact Hfx. }
    replace (lenN F <? hdr_min ml + BHS) with false by (symmetry; apply N.ltb_ge; unfold BHS; change s_ZSTD_blockHeaderSize with 3; lia).
    cbn [mguard mbind]. rewrite HfF.
    replace (lenN F <? hs + BHS) with false by (symmetry; apply N.ltb_ge; unfold BHS; change s_ZSTD_blockHeaderSize with 3; lia).
    cbn [mguard mbind].
    assert (HtkF : tk hs F = x) by (rewrite HF, <- Hlx; apply tk_app_exact).
    assert (HdrF : dr hs F = used ++ ck) by (rewrite HF, <- Hlx; apply dr_app_exact).
    rewrite HtkF, HdrF. unfold decode_fheader. fold ml. rewrite Hgx, Hdid. cbn [N.eqb negb mguard mbind andb].
    rewrite (blocks_run (sfp P fp0) (clamp_block P fp0) (clamp_blockMax P fp0) b_init (used ++ ck) chunks ck (Hall ck)).
    - cbn [mbind rev app]. rewrite Ef1.
      replace (fp_fcs fp0 =? UNKNOWN) with false by (symmetry; apply N.eqb_neq; exact Hfu).
      rewrite Hfcs, N.eqb_refl. cbn [negb andb mguard mbind]. rewrite Ec1.
      destruct (fp_checksum fp0).
      + destruct Hckv as [Hl4 Hh]. rewrite Hl4. change (4 <? 4) with false. cbn [mguard mbind].
        assert (Hg2 : andb (negb (dp_ignoreChecksum P)) (negb (le32 ck =? b_hash (concat chunks))) = false).
        { destruct Hh as [Hh|Hh]; [rewrite Hh; reflexivity|]. rewrite Hh, N.eqb_refl, andb_false_r. reflexivity. }
        rewrite Hg2. cbn [mguard mbind]. rewrite dr_all by lia. reflexivity.
      + subst ck. reflexivity.
    - rewrite lenN_length in Hcnt. rewrite app_length. 
      assert (N.of_nat (length chunks) <= N.of_nat (length used)) by lia. lia.
    - lia. }
  rewrite HDF.
  destruct f as [|f'].
  - exfalso. apply (f_equal N.of_nat) in Ef. rewrite <- lenN_length in Ef. cbn in Ef. lia.
  - cbn [DStreamModel.decompress_multi]. fold ml.
    change (lenN (@nil N)) with 0.
    replace (0 <? prefix_len ml) with true by (symmetry; apply N.ltb_lt; lia).
    cbn [N.eqb negb mguard mbind]. rewrite rev'_rev, rev_append_rev, app_nil_r, rev_involutive. reflexivity.
Qed.

End Shortcut.
