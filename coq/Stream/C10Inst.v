(* C10: the hint-following readers of C10Hints.v instantiated with the reference decoder R (block decoding, history and
   checksum are R's), for extraction.  Model only. *)
From Coq Require Import NArith List Bool.
From ZV.Codec Require Import Bytes.
From ZV.Stream Require Import DStreamModel StreamInst C10Hints.
Import ListNotations.
Local Open Scope N_scope.

Definition Rhread := hread RH r_init r_raw r_rle r_cblock r_hash.
Definition Rsread := sread RH r_init r_raw r_rle r_cblock r_hash.
Definition Rextent := frame_extent.
