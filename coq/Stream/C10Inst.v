(* C10: the hint-following readers of C10Hints.v instantiated with the reference decoder R (block decoding, history and
   checksum are R's), for extraction.  Model only. *)
From Coq Require Import NArith List Bool.
From ZV.Codec Require Import Bytes.
From ZV.Stream Require Import DStreamModel StreamInst C10Hints.
Import ListNotations.
Local Open Scope N_scope.

Definition Rhread := hread RH r_init r_raw r_rle r_cblock r_hash.
Definition Rsread := sread RH r_init r_raw r_rle r_cblock r_hash.
Definition Rextent := frame_extent.

(* ---------- the public entry points of streaming compression (C10Api.v) around the tape block compressor ---------- *)
From ZV.Stream Require Import CStreamModel C10Api.
Definition Ta_new (t : tape) := @a_new tape t.
Definition Ta_call := a_call tape tape_begin tape_chunk.
Definition Ta_stream := a_stream tape tape_begin tape_chunk.
Definition Ta_flushStream := a_flushStream tape tape_begin tape_chunk.
Definition Ta_endStream := a_endStream tape tape_begin tape_chunk.
Definition Ta_reset := @a_reset tape.
Definition Ta_wview := @wview tape.
Definition Ta_hint := @k_hint tape.

(* ---------- round 3: the stability layer (C10Stab.v: expectedInBuffer.pos and ZSTD_checkBufferStability) ---------- *)
From ZV.Stream Require Import C10Stab.
Definition Ts_new (t : tape) := @s_new tape t.
Definition Ts_call := s_call_gen tape tape_begin tape_chunk false CheckNow.
Definition Ts_stream (P : kparams) (fc : fconf) (X : bytes) (s : sstate tape) (n cap : N) :=
  s_call_gen tape tape_begin tape_chunk true CheckNow P fc X s n cap DirContinue.
Definition Ts_flushStream := s_flushStream tape tape_begin tape_chunk KeepNow.
Definition Ts_endStream := s_endStream tape tape_begin tape_chunk KeepNow.
