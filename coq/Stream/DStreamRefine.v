(* C02, decoder side: ZSTD_decompressStream (model, buffered output) refines the one-shot specification for EVERY call
   history and segmentation.  Abstract block decoder first, then the instance with the reference decoder R. *)
From Coq Require Import NArith ZArith List Bool Lia.
From ZV.Codec Require Import Bytes.
From ZV.Gen Require Import Gen_Stream.
From ZV.Stream Require Import DStreamModel StreamInst.
From ZV.Stream Require Import DStreamSpec DStreamProofs DStreamSpecLink StreamInstProofs.
Import ListNotations.
Local Open Scope N_scope.

(* what the caller-visible results of a history say: [outs] = the results of the calls, in order *)
Definition emitted {H} (outs : list (dout H)) : bytes := concat (map (@o_out H) outs).

(* abstract block decoder *)
Theorem dstream_refines_spec :
  forall (H : Type) (b_init : H) (b_raw : H -> bytes -> H) (b_rle : H -> N -> N -> H)
         (b_cblock : N -> N -> H -> bytes -> res (H * bytes)) (b_hash : bytes -> N) (P : dparams),
  dp_stableOut P = false -> OBMAX P < UNKNOWN -> MINW <= dp_maxWindow P ->
  (forall w1 w2 bm h s, b_cblock w1 bm h s = b_cblock w2 bm h s) ->
  (forall w bm h, exists c s, b_cblock w bm h [] = Err c s) ->
  forall (src content : bytes) (calls : list dcall) outs z' rest,
  bytes_ok src ->
  spec_decode H b_init b_raw b_rle b_cblock b_hash P src = MOk content ->
  drun H b_init b_raw b_rle b_cblock b_hash P (z_new H b_init P) src calls [] = (outs, z', rest) ->
  exists crest' taken,
    content = emitted outs ++ crest' /\ src = taken ++ rest /\
    Forall (ok_ret H) outs /\
    (last_ret H None outs = Some (MOk 0) -> SValid H b_init b_raw b_rle b_cblock b_hash P rest crest' /\ z_stage z' = ZInit) /\
    (last_ret H None outs = Some (MOk 0) -> rest = [] -> emitted outs = content).
Proof.
  intros H b_init b_raw b_rle b_cblock b_hash P HSO HMW HMW2 Hwin Hemp src content calls outs z' rest Hb Hspec Hrun.
  apply (dstream_refines_svalid H b_init b_raw b_rle b_cblock b_hash P HSO HMW HMW2 Hwin src content calls outs z' rest Hb); [|exact Hrun].
  apply (spec_decode_svalid H b_init b_raw b_rle b_cblock b_hash Hwin Hemp). exact Hspec.
Qed.

(* the instance the correspondence runs execute: block decoding, history and checksum of the reference decoder R *)
Theorem Rdstream_refines_spec :
  forall (P : dparams),
  dp_stableOut P = false -> OBMAX P < UNKNOWN -> MINW <= dp_maxWindow P ->
  forall (src content : bytes) (calls : list dcall) outs z' rest,
  bytes_ok src ->
  Rspec_decode P src = MOk content ->
  drun RH r_init r_raw r_rle r_cblock r_hash P (Rz_new P) src calls [] = (outs, z', rest) ->
  exists crest' taken,
    content = emitted outs ++ crest' /\ src = taken ++ rest /\
    Forall (ok_ret RH) outs /\
    (last_ret RH None outs = Some (MOk 0) -> SValid RH r_init r_raw r_rle r_cblock r_hash P rest crest' /\ z_stage z' = ZInit) /\
    (last_ret RH None outs = Some (MOk 0) -> rest = [] -> emitted outs = content).
Proof.
  intros P HSO HMW HMW2 src content calls outs z' rest Hb Hspec Hrun.
  exact (dstream_refines_spec RH r_init r_raw r_rle r_cblock r_hash P HSO HMW HMW2 r_cblock_window r_cblock_empty
           src content calls outs z' rest Hb Hspec Hrun).
Qed.

(* the default decoder parameters satisfy the side conditions *)
Lemma default_dparams_ok : dp_stableOut default_dparams = false /\ OBMAX default_dparams < UNKNOWN /\ MINW <= dp_maxWindow default_dparams.
Proof. split; [reflexivity|]. split; [vm_compute; reflexivity|vm_compute; discriminate]. Qed.

(* the hypotheses are satisfiable: a block decoder that refuses every compressed block, and the 3-byte frame
   28 b5 2f fd | 20 03 | 19 00 00 "ABC" (single segment, raw last block) decoded in slices of 2 bytes with 1 byte of output room *)
Definition triv_cblock (_ _ : N) (_ : unit) (_ : bytes) : res (unit * bytes) := Err Eformat 0.
Definition ex_frame : bytes := [40; 181; 47; 253; 32; 3; 25; 0; 0; 65; 66; 67].
Example ex_spec : spec_decode unit tt (fun h _ => h) (fun h _ _ => h) triv_cblock (fun _ => 0) default_dparams ex_frame = MOk [65; 66; 67].
Proof. vm_compute. reflexivity. Qed.
Example ex_run :
  let r := drun unit tt (fun h _ => h) (fun h _ _ => h) triv_cblock (fun _ => 0) default_dparams
                (z_new unit tt default_dparams) ex_frame (repeat {| dc_in := 2; dc_cap := 1 |} 7) [] in
  emitted (fst (fst r)) = [65; 66; 67] /\ snd r = [] /\ last_ret unit None (fst (fst r)) = Some (MOk 0).
Proof. vm_compute. repeat split. Qed.
