(* C02, round 3: the dictionary a frame is decoded with WHEN FRAMES NAME A DICTIONARY ID - executable model of
   dctx->ddict, dctx->dictUses, dctx->dictID, dctx->refMultipleDDicts and dctx->ddictSet of a ZSTD_DCtx
   (lib/decompress/zstd_decompress.c as of /repo 2f289ec, i.e. after the fixes 70fa663, a24560c, d50580e, b70602d, 9260ac3,
   8de9dc9, a891479, d0ddbff, 3de6278, b15fdb6, b87b37f, 2f289ec): ZSTD_clearDict, ZSTD_getDDict, ZSTD_DCtx_loadDictionary*, ZSTD_DCtx_refDDict (adds to the set when
   ZSTD_d_refMultipleDDicts is on), ZSTD_DCtx_refPrefix, ZSTD_DCtx_setParameter(ZSTD_d_refMultipleDDicts), ZSTD_DCtx_reset,
   ZSTD_DCtx_selectFrameDDict, the dictID check of ZSTD_decodeFrameHeader, the frame start of ZSTD_decompressStream
   (zdss_loadHeader: select, ZSTD_getDDict, ZSTD_decompressBegin_usingDDict, ZSTD_decodeFrameHeader) and the frame loop of
   ZSTD_decompressMultiFrame under ZSTD_decompressDCtx (ZSTD_getDDict once, per frame: look-up in the set, begin, decode header).
   The DDict hash set is modelled as a finite map dictID -> DDict (insertion replaces an entry of the same ID; ID 0 = raw
   content dictionary is a regular entry that no frame selects).  Model only - no proofs in this file. *)
From Coq Require Import NArith List Bool.
From ZV.Stream Require Import DictUseModel.
Import ListNotations.
Local Open Scope N_scope.

Section DictId.
Variable D : Type.                        (* a digested dictionary (ZSTD_DDict) *)
Variable did : D -> N.                    (* ZSTD_getDictID_fromDDict ; 0 = raw content *)

Record ds := {
  ds_dict : option D;                     (* dctx->ddict *)
  ds_uses : duses;                        (* dctx->dictUses *)
  ds_local : bool;                        (* dctx->ddict == dctx->ddictLocal : the context's own copy (loadDictionary / refPrefix) *)
  ds_mdd : bool;                          (* dctx->refMultipleDDicts == ZSTD_rmd_refMultipleDDicts *)
  ds_set : list D;                        (* dctx->ddictSet ([] = NULL) *)
  ds_loaded : N }.                        (* dctx->dictID : the ID of the dictionary whose tables and content are loaded *)

Definition ds_new : ds := {| ds_dict := None; ds_uses := DontUse; ds_local := false; ds_mdd := false; ds_set := []; ds_loaded := 0 |}.

Definition with_dict (s : ds) (o : option D) (u : duses) (loc : bool) : ds :=
  {| ds_dict := o; ds_uses := u; ds_local := loc; ds_mdd := ds_mdd s; ds_set := ds_set s; ds_loaded := ds_loaded s |}.
Definition with_loaded (s : ds) (n : N) : ds :=
  {| ds_dict := ds_dict s; ds_uses := ds_uses s; ds_local := ds_local s; ds_mdd := ds_mdd s; ds_set := ds_set s; ds_loaded := n |}.
Definition clear_dict (s : ds) : ds := with_dict s None DontUse false.        (* ZSTD_clearDict *)

(* ZSTD_DDictHashSet_getDDict / _addDDict *)
Definition set_get (l : list D) (id : N) : option D :=
  if id =? 0 then None else find (fun d => did d =? id) l.
Definition set_add (l : list D) (d : D) : list D :=
  d :: filter (fun e => negb (did e =? did d)) l.

Definition set_active (s : ds) : bool := ds_mdd s && negb (match ds_set s with [] => true | _ => false end).

(* ZSTD_DCtx_selectionApplies : the selection among the referenced DDicts needs a CURRENT dictionary that is a REFERENCED DDict -
   dctx->ddict set, dictUses != ZSTD_dont_use (fix a891479 : a single-use prefix that has served leaves its pointer behind until the
   next ZSTD_getDDict ; it used to count, finding C02-dstream-stale-prefix-pointer-selects-ddict) and ddict != ddictLocal (fix d0ddbff :
   a dictionary loaded into the context, or a pending prefix, is never replaced).  The same test guards the look-up in the frame
   loop of ZSTD_decompressMultiFrame (fix 3de6278) *)
Definition live (s : ds) : bool := match ds_uses s with DontUse => false | _ => true end.
Definition applies (s : ds) : bool :=
  match ds_dict s with Some _ => live s && negb (ds_local s) | None => false end.
(* ZSTD_DCtx_selectFrameDDict (called when refMultipleDDicts && ddictSet) *)
Definition select (s : ds) (id : N) : ds :=
  if set_active s && applies s then
    match set_get (ds_set s) id with Some f => with_dict s (Some f) UseIndef false | None => s end
  else s.

(* the selection as it was before a891479 (dctx->ddict alone) : kept for the refutation example in DictIdProofs.v only *)
Definition select_stale (s : ds) (id : N) : ds :=
  if set_active s then
    match ds_dict s with
    | Some _ => match set_get (ds_set s) id with Some f => with_dict s (Some f) UseIndef false | None => s end
    | None => s
    end
  else s.

(* ZSTD_getDDict *)
Definition get_dd (s : ds) : ds * option D :=
  match ds_uses s with
  | DontUse => (clear_dict s, None)
  | UseIndef => (s, ds_dict s)
  | UseOnce => (with_dict s (ds_dict s) DontUse (ds_local s), ds_dict s)
  end.

Definition id_of (o : option D) : N := match o with Some d => did d | None => 0 end.
(* the dictID check of ZSTD_decodeFrameHeader *)
Definition id_ok (loaded id : N) : bool := (id =? 0) || (loaded =? id).

Inductive iop :=
| ILoad (d : option D)        (* ZSTD_DCtx_loadDictionary* / ZSTD_initDStream_usingDict *)
| IRefDDict (d : option D)    (* ZSTD_DCtx_refDDict / ZSTD_initDStream_usingDDict ; ZSTD_initDStream = IRefDDict None *)
| IRefPrefix (d : option D)   (* ZSTD_DCtx_refPrefix *)
| ISetMulti (b : bool)        (* ZSTD_DCtx_setParameter(ZSTD_d_refMultipleDDicts, b) *)
| IResetSession               (* ZSTD_DCtx_reset(session_only), ZSTD_resetDStream *)
| IResetParams                (* ZSTD_DCtx_reset(parameters) / (session_and_parameters) *)
| IFrame (id : N)             (* ZSTD_decompressStream starts a Zstandard frame whose header names dictionary [id] (0 = none) *)
| ISkippable                  (* ... a skippable frame *)
| IOneShot (ids : list N).    (* one ZSTD_decompressDCtx call over Zstandard frames naming [ids] *)

(* what a frame start reports : the dictionary whose tables and content the frame is decoded from, the ID the frame names,
   accepted (true) or dictionary_wrong (false) *)
Definition fres := (option D * N * bool)%type.

(* zdss_loadHeader for a Zstandard frame.  A single-use dictionary is only looked at (singleUseDictTaken) and marked used once the
   frame start has succeeded (fix b15fdb6 ; the single-pass shortcut does the same since 2f289ec) : a refused frame leaves the prefix
   pending *)
Definition frame_step (s : ds) (id : N) : ds * fres :=
  let s1 := select s id in                       (* header complete : ZSTD_DCtx_selectFrameDDict *)
  match ds_uses s1 with
  | UseOnce =>
      let o := ds_dict s1 in                     (* ZSTD_decompressBegin_usingDDict(zds, zds->ddict) *)
      let s3 := select (with_loaded s1 (id_of o)) id in   (* ZSTD_decodeFrameHeader : select again, then the check *)
      let ok := id_ok (id_of o) id in
      (if ok then with_dict s3 (ds_dict s3) DontUse (ds_local s3) else s3, (o, id, ok))
  | _ =>
      let '(s2, o) := get_dd s1 in               (* ZSTD_decompressBegin_usingDDict(zds, ZSTD_getDDict(zds)) *)
      let s3 := select (with_loaded s2 (id_of o)) id in
      (s3, (o, id, id_ok (id_of o) id))
  end.

(* the frame loop of ZSTD_decompressMultiFrame ; [cur] = its local variable ddict ; stops at the first refused frame *)
Fixpoint oneshot_loop (s : ds) (cur : option D) (ids : list N) : ds * list fres :=
  match ids with
  | [] => (s, [])
  | id :: r =>
      let cur' := match cur with
                  | Some _ => if set_active s && applies s then match set_get (ds_set s) id with Some f => Some f | None => cur end else cur
                  | None => cur
                  end in
      let s1 := select (with_loaded s (id_of cur')) id in
      let ok := id_ok (id_of cur') id in
      if ok then let '(s2, l) := oneshot_loop s1 cur' r in (s2, (cur', id, true) :: l)
      else (s1, [(cur', id, false)])
  end.

Definition all_acc (l : list fres) : bool := forallb (fun r => snd r) l.      (* no frame of the call was refused *)

Definition ds_step (s : ds) (op : iop) : ds * list fres :=
  match op with
  | ILoad d => (match d with Some _ => with_dict s d UseIndef true | None => clear_dict s end, [])
  | IRefDDict d =>
      (match d with
       | Some x => {| ds_dict := d; ds_uses := UseIndef; ds_local := false; ds_mdd := ds_mdd s;
                      ds_set := if ds_mdd s then set_add (ds_set s) x else ds_set s; ds_loaded := ds_loaded s |}
       | None => clear_dict s
       end, [])
  | IRefPrefix d => (with_dict s d UseOnce (match d with Some _ => true | None => false end), [])
  | ISetMulti b => ({| ds_dict := ds_dict s; ds_uses := ds_uses s; ds_local := ds_local s; ds_mdd := b; ds_set := ds_set s; ds_loaded := ds_loaded s |}, [])
  | IResetSession => (s, [])
  | IResetParams => ({| ds_dict := None; ds_uses := DontUse; ds_local := false; ds_mdd := false; ds_set := []; ds_loaded := ds_loaded s |}, [])
  | IFrame id => let '(s', r) := frame_step s id in (s', [r])
  | ISkippable => (s, [])
  | IOneShot ids =>
      (* ZSTD_decompressDCtx : a single-use dictionary is only looked at, and marked used when the call has succeeded (fix b87b37f) *)
      match ds_uses s with
      | UseOnce => let '(s1, l) := oneshot_loop s (ds_dict s) ids in
                   (if all_acc l then with_dict s1 (ds_dict s1) DontUse (ds_local s1) else s1, l)
      | _ => let '(s1, o) := get_dd s in oneshot_loop s1 o ids
      end
  end.

Fixpoint ds_run (s : ds) (ops : list iop) : ds * list fres :=
  match ops with
  | [] => (s, [])
  | op :: r => let '(s1, l1) := ds_step s op in let '(s2, l2) := ds_run s1 r in (s2, l1 ++ l2)
  end.

(* the same frames through ZSTD_decompressStream, one after the other, stopping at the first refused one *)
Fixpoint stream_frames (s : ds) (ids : list N) : ds * list fres :=
  match ids with
  | [] => (s, [])
  | id :: r =>
      let '(s1, res) := frame_step s id in
      if snd res then let '(s2, l) := stream_frames s1 r in (s2, res :: l) else (s1, [res])
  end.
End DictId.
