(* Frame headers seen through growing prefixes (ZSTD_getFrameHeader_advanced, model [get_fheader]): while fewer bytes
   than the header are present the answer is "need n bytes" with n no larger than the header, never an error; with the
   whole header present the answer is the header.  Needed by the zdss_loadHeader part of the streaming proof. *)
From Coq Require Import NArith ZArith List Bool Lia PeanoNat.
From ZV.Codec Require Import Bytes ListLemmas.
From ZV.Gen Require Import Gen_Stream.
From ZV.Stream Require Import DStreamModel StreamLemmas.
From ZV.Stream Require Import DStreamSpec.
Import ListNotations.
Local Open Scope N_scope.

Ltac Zify.zify_post_hook ::= Z.div_mod_to_equations.

(* ---------- the first frame header of a stream ---------- *)
Inductive Hdr (P : dparams) : bytes -> N -> fparams -> Prop :=
| Hdr_skip s :
    dp_magicless P = false -> SKIPHDR <= lenN s -> is_skip_magic (le32 s) = true ->
    Hdr P s SKIPHDR {| fp_fcs := sub_le s s_ZSTD_FRAMEIDSIZE 4; fp_window := 0; fp_blockMax := 0; fp_checksum := false;
                       fp_skippable := true; fp_hsize := 0; fp_dictid := 0 |}
| Hdr_frame s fp0 :
    prefix_len (dp_magicless P) <= lenN s -> (dp_magicless P = false -> le32 s = ZMAGIC) ->
    frame_header_size (dp_magicless P) s <= lenN s ->
    get_fheader (dp_magicless P) (tk (frame_header_size (dp_magicless P) s) s) = HDone fp0 ->
    Hdr P s (frame_header_size (dp_magicless P) s) fp0.

(* ---------- bytes ---------- *)
Lemma tk_tk (a b : N) (l : bytes) : a <= b -> tk a (tk b l) = tk a l.
Proof. intros Hab. unfold tk. rewrite firstn_firstn. f_equal. lia. Qed.

Lemma sub_le_tk (s : bytes) n pos k : pos + k <= n -> sub_le (tk n s) pos k = sub_le s pos k.
Proof.
  intros Hle. unfold sub_le. f_equal.
  (* tk k (dr pos (tk n s)) = tk k (dr pos s) *)
  unfold tk, dr. rewrite skipn_firstn_comm, firstn_firstn. f_equal. lia.
Qed.

Lemma le32_tk (s : bytes) n : 4 <= n -> le32 (tk n s) = le32 s.
Proof. intros Hn. unfold le32. apply sub_le_tk. lia. Qed.

Lemma nth_firstn_lt {A} (d : A) : forall (i n : nat) (l : list A), (i < n)%nat -> nth i (firstn n l) d = nth i l d.
Proof.
  induction i as [|i IH]; intros n l Hi; destruct n as [|n]; try lia; destruct l as [|x t]; cbn; try reflexivity.
  apply IH. lia.
Qed.

Lemma nthN_tk (s : bytes) n i d : i < n -> nthN (tk n s) i d = nthN s i d.
Proof. intros Hi. unfold nthN, tk. apply nth_firstn_lt. lia. Qed.

Lemma fhs_tk ml (s : bytes) n : prefix_len ml <= n -> frame_header_size ml (tk n s) = frame_header_size ml s.
Proof.
  intros Hn. unfold frame_header_size. rewrite nthN_tk; [reflexivity|].
  destruct ml; unfold prefix_len, s_PREFIX_magicless, s_PREFIX_zstd1 in *; lia.
Qed.

Lemma fhs_ge ml (s : bytes) : prefix_len ml <= frame_header_size ml s.
Proof. unfold frame_header_size. lia. Qed.

(* the first four bytes *)
Lemma first4 (s : bytes) : 4 <= lenN s -> exists b0 b1 b2 b3 t, s = b0 :: b1 :: b2 :: b3 :: t.
Proof.
  intros Hl. destruct s as [|b0 [|b1 [|b2 [|b3 t]]]]; try (rewrite ?lenN_cons, ?lenN_nil in Hl; lia).
  eauto 6.
Qed.

Lemma le32_cons4 b0 b1 b2 b3 t : le32 (b0 :: b1 :: b2 :: b3 :: t) = b0 + 256 * (b1 + 256 * (b2 + 256 * (b3 + 256 * 0))).
Proof. reflexivity. Qed.

(* ---------- the skippable magic ---------- *)
Lemma land_skip_mask m : N.land m SKIP_MASK = ((m / 16) mod 2 ^ 28) * 16.
Proof.
  change SKIP_MASK with (N.shiftl (N.ones 28) 4).
  replace (((m / 16) mod 2 ^ 28) * 16) with (N.shiftl (N.land (N.shiftr m 4) (N.ones 28)) 4).
  - apply N.bits_inj. intros i. rewrite N.land_spec.
    destruct (N.lt_ge_cases i 4) as [Hlt|Hge].
    + rewrite !N.shiftl_spec_low by exact Hlt. apply andb_false_r.
    + rewrite !N.shiftl_spec_high' by exact Hge. rewrite N.land_spec, N.shiftr_spec'.
      replace (i - 4 + 4) with i by lia. reflexivity.
  - rewrite N.land_ones, N.shiftr_div_pow2, N.shiftl_mul_pow2. reflexivity.
Qed.

Lemma skip_magic_range m : m < 2 ^ 32 -> (is_skip_magic m = true <-> SKIP_START <= m < SKIP_START + 16).
Proof.
  intros Hm. unfold is_skip_magic. rewrite land_skip_mask, N.eqb_eq.
  change SKIP_START with 407710288 in *. change (2 ^ 32) with 4294967296 in Hm. change (2 ^ 28) with 268435456.
  assert (Hq : m / 16 < 268435456) by (apply N.div_lt_upper_bound; lia).
  rewrite N.mod_small by exact Hq.
  pose proof (N.div_mod m 16 ltac:(lia)) as Hdm. pose proof (N.mod_lt m 16 ltac:(lia)) as Hml.
  split; intros Hx; lia.
Qed.

Lemma skip_not_zmagic m : is_skip_magic m = true -> m <> ZMAGIC.
Proof. intros Hs E. subst m. vm_compute in Hs. discriminate. Qed.

Lemma le32_bound b0 b1 b2 b3 t : bytes_ok (b0 :: b1 :: b2 :: b3 :: t) -> le32 (b0 :: b1 :: b2 :: b3 :: t) < 2 ^ 32 /\ b0 < 256 /\ b1 < 256 /\ b2 < 256 /\ b3 < 256.
Proof.
  intros Hb. unfold bytes_ok in Hb. inversion Hb as [|? ? H0 Hb1]; subst. inversion Hb1 as [|? ? H1 Hb2]; subst.
  inversion Hb2 as [|? ? H2 Hb3]; subst. inversion Hb3 as [|? ? H3 _]; subst.
  rewrite le32_cons4. change (2 ^ 32) with 4294967296. lia.
Qed.

(* a non-empty proper prefix of the magic number of a Zstandard / skippable frame is recognised as such *)
Lemma overlay_zmagic (s : bytes) k : bytes_ok s -> 4 <= lenN s -> le32 s = ZMAGIC -> 1 <= k <= 4 ->
  overlay (tk k s) ZMAGIC = ZMAGIC.
Proof.
  intros Hb Hl Hm Hk. destruct (first4 s Hl) as (b0 & b1 & b2 & b3 & t & ->).
  destruct (le32_bound _ _ _ _ _ Hb) as (_ & B0 & B1 & B2 & B3).
  rewrite le32_cons4 in Hm. change ZMAGIC with 4247762216 in *.
  assert (b0 = 40 /\ b1 = 181 /\ b2 = 47 /\ b3 = 253) as (-> & -> & -> & ->) by lia.
  assert (k = 1 \/ k = 2 \/ k = 3 \/ k = 4) as [->|[->|[->| ->]]] by lia; reflexivity.
Qed.

Lemma overlay_skip (s : bytes) k : bytes_ok s -> 4 <= lenN s -> is_skip_magic (le32 s) = true -> 1 <= k <= 4 ->
  overlay (tk k s) ZMAGIC =? ZMAGIC = true \/ is_skip_magic (overlay (tk k s) SKIP_START) = true.
Proof.
  intros Hb Hl Hm Hk. right. destruct (first4 s Hl) as (b0 & b1 & b2 & b3 & t & ->).
  destruct (le32_bound _ _ _ _ _ Hb) as (Hlt & B0 & B1 & B2 & B3).
  apply (skip_magic_range _ Hlt) in Hm. rewrite le32_cons4 in Hm. change SKIP_START with 407710288 in *.
  assert (b1 = 42 /\ b2 = 77 /\ b3 = 24 /\ 80 <= b0 < 96) as (-> & -> & -> & Hb0) by lia.
  assert (Hgen : forall v, v = b0 + 256 * (42 + 256 * (77 + 256 * (24 + 256 * 0))) -> is_skip_magic v = true).
  { intros v ->. apply skip_magic_range; [change (2 ^ 32) with 4294967296; lia|]. change SKIP_START with 407710288. lia. }
  assert (k = 1 \/ k = 2 \/ k = 3 \/ k = 4) as [->|[->|[->| ->]]] by lia; apply Hgen; reflexivity.
Qed.

(* ---------- get_fheader on prefixes ---------- *)
Section Header.
Variable P : dparams.
Notation ml := (dp_magicless P).

Lemma len_tk_lt k (s : bytes) : k <= lenN s -> lenN (tk k s) = k.
Proof. intros. rewrite len_tk. lia. Qed.

Theorem hdr_done s hs fp : Hdr P s hs fp -> get_fheader ml (tk hs s) = HDone fp /\ hs <= lenN s /\ 1 <= hs.
Proof.
  intros HH. destruct HH as [s Hml Hl Hmagic|s fp0 Hl Hmagic Hhs Hg].
  - split; [|split; [exact Hl|unfold SKIPHDR; change s_ZSTD_SKIPPABLEHEADERSIZE with 8; lia]].
    unfold get_fheader. rewrite Hml, len_tk_lt by exact Hl.
    change (prefix_len false) with 5. change SKIPHDR with 8 in *. change (8 <? 5) with false. cbv iota.
    rewrite le32_tk by lia. cbn [negb andb].
    replace (le32 s =? ZMAGIC) with false by (symmetry; apply N.eqb_neq, skip_not_zmagic; exact Hmagic).
    cbn [negb]. rewrite Hmagic. change (8 <? 8) with false. cbv iota.
    rewrite sub_le_tk by (change s_ZSTD_FRAMEIDSIZE with 4; lia). reflexivity.
  - split; [exact Hg|]. split; [exact Hhs|]. pose proof (fhs_ge ml s). destruct ml; unfold prefix_len, s_PREFIX_magicless, s_PREFIX_zstd1 in *; lia.
Qed.

Theorem hdr_need s hs fp k : Hdr P s hs fp -> bytes_ok s -> k < hs ->
  exists n, get_fheader ml (tk k s) = HNeed n /\ k < n /\ n <= hs.
Proof.
  intros HH Hb Hk. destruct HH as [s Hml Hl Hmagic|s fp0 Hl Hmagic Hhs Hg].
  - (* skippable frame, header of 8 bytes *)
    change SKIPHDR with 8 in *.
    assert (Hlk : lenN (tk k s) = k) by (apply len_tk_lt; lia).
    unfold get_fheader. rewrite Hml, Hlk. change (prefix_len false) with 5.
    destruct (N.ltb_spec k 5) as [Hk5|Hk5].
    + destruct (N.eq_dec k 0) as [->|Hk0].
      * cbn [N.ltb andb]. exists 5. repeat split; lia.
      * replace (0 <? k) with true by (symmetry; apply N.ltb_lt; lia). cbn [negb andb].
        destruct (overlay_skip s k Hb ltac:(lia) Hmagic ltac:(lia)) as [E|E].
        -- rewrite E. exists 5. repeat split; lia.
        -- destruct (overlay (tk k s) ZMAGIC =? ZMAGIC); [exists 5; repeat split; lia|]. rewrite E. exists 5. repeat split; lia.
    + rewrite le32_tk by lia. cbn [negb andb].
      replace (le32 s =? ZMAGIC) with false by (symmetry; apply N.eqb_neq, skip_not_zmagic; exact Hmagic).
      cbn [negb]. rewrite Hmagic. change SKIPHDR with 8.
      replace (k <? 8) with true by (symmetry; apply N.ltb_lt; lia). exists 8. repeat split; lia.
  - (* Zstandard frame *)
    set (hs := frame_header_size ml s) in *.
    pose proof (fhs_ge ml s) as Hge. fold hs in Hge.
    assert (Hlk : lenN (tk k s) = k) by (apply len_tk_lt; lia).
    unfold get_fheader. rewrite Hlk.
    destruct (N.ltb_spec k (prefix_len ml)) as [Hkp|Hkp].
    + destruct ml eqn:Eml.
      * (* magicless: only k = 0 is below the minimum *)
        change (prefix_len true) with 1 in *. cbn [negb andb]. rewrite andb_false_r. exists 1. repeat split; lia.
      * change (prefix_len false) with 5 in *. specialize (Hmagic eq_refl).
        destruct (N.eq_dec k 0) as [->|Hk0].
        -- cbn [N.ltb andb]. exists 5. repeat split; lia.
        -- replace (0 <? k) with true by (symmetry; apply N.ltb_lt; lia). cbn [negb andb].
           rewrite (overlay_zmagic s k Hb ltac:(lia) Hmagic ltac:(lia)), N.eqb_refl. exists 5. repeat split; lia.
    + assert (Hnm : andb (negb ml) (negb (le32 (tk k s) =? ZMAGIC)) = false).
      { destruct ml eqn:Eml; [reflexivity|]. change (prefix_len false) with 5 in *.
        rewrite le32_tk by lia. rewrite (Hmagic eq_refl), N.eqb_refl. reflexivity. }
      rewrite Hnm. rewrite fhs_tk by exact Hkp. fold hs.
      replace (k <? hs) with true by (symmetry; apply N.ltb_lt; lia). exists hs. repeat split; lia.
Qed.

Theorem Hdr_det s hs fp hs' fp' : Hdr P s hs fp -> Hdr P s hs' fp' -> hs' = hs.
Proof.
  intros H1 H2. destruct H1 as [s Hml Hl Hmagic|s fp0 Hl Hmagic Hhs Hg]; inversion H2 as [s2 Hml2 Hl2 Hmagic2|s2 fp2 Hl2 Hmagic2 Hhs2 Hg2]; subst; try reflexivity.
  - exfalso. apply (skip_not_zmagic _ Hmagic). apply Hmagic2. exact Hml.
  - exfalso. apply (skip_not_zmagic _ Hmagic2). apply Hmagic. exact Hml2.
Qed.

(* what a complete Zstandard header says *)
Lemma gfh_frame_facts (x : bytes) fp : get_fheader ml x = HDone fp -> (ml = false -> le32 x = ZMAGIC) ->
  fp_skippable fp = false /\ fp_blockMax fp = N.min (fp_window fp) BLOCKMAX.
Proof.
  unfold get_fheader. intros Hg Hm.
  destruct (lenN x <? prefix_len ml).
  { destruct (andb _ _); [|discriminate]. destruct (_ =? ZMAGIC); [discriminate|]. destruct (is_skip_magic _); discriminate. }
  assert (Hnm : andb (negb ml) (negb (le32 x =? ZMAGIC)) = false).
  { destruct ml; [reflexivity|]. rewrite (Hm eq_refl), N.eqb_refl. reflexivity. }
  rewrite Hnm in Hg.
  destruct (lenN x <? frame_header_size ml x); [discriminate|].
  destruct (N.testbit _ 3); [discriminate|].
  destruct (andb _ (_ <? _)); [discriminate|].
  inversion Hg; subst fp. cbn [fp_skippable fp_blockMax fp_window]. split; reflexivity.
Qed.

End Header.
