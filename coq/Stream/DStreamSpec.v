(* Declarative description of the streams the streaming decoder must decode ([SValid]) and of the positions of the
   ZSTD_decompressContinue stage machine inside such a stream ([Pos]); lemmas: one call of [dcontinue] at a position
   moves to the next position and emits the next part of the content.  Block decoding is abstract. *)
From Coq Require Import NArith ZArith List Bool Lia PeanoNat.
From ZV.Codec Require Import Bytes ListLemmas.
From ZV.Gen Require Import Gen_Stream.
From ZV.Stream Require Import DStreamModel StreamLemmas.
Import ListNotations.
Local Open Scope N_scope.

Ltac Zify.zify_post_hook ::= Z.div_mod_to_equations.

(* ---------- monad inversion ---------- *)
Lemma mbind_ok {A B} (r : mres A) (f : A -> mres B) (b : B) :
  mbind r f = MOk b -> exists a, r = MOk a /\ f a = MOk b.
Proof. destruct r as [a|e]; cbn; [eauto|discriminate]. Qed.
Lemma mguard_ok {B} (c : bool) (e : derr) (k : mres B) (b : B) :
  mbind (mguard c e) (fun _ => k) = MOk b -> c = false /\ k = MOk b.
Proof. destruct c; cbn; [discriminate|auto]. Qed.

Ltac minv H :=
  repeat match type of H with
  | mbind (mguard ?b ?e) _ = MOk _ =>
      let G := fresh "G" in apply mguard_ok in H; destruct H as [G H]
  | mbind ?r _ = MOk _ =>
      let a := fresh "a" in let E := fresh "E" in apply mbind_ok in H; destruct H as (a & E & H)
  end.

Definition MINW : N := pow2 s_ZSTD_WINDOWLOG_ABSOLUTEMIN.
Definition bytes_ok (l : bytes) : Prop := Forall (fun b => b < 256) l.

Lemma repeat_byte_len v n : lenN (repeat_byte v n) = n.
Proof. unfold repeat_byte. rewrite lenN_repeatN. change (lenN (@nil N)) with 0. lia. Qed.

Section Spec.
Variable H : Type.
Variable b_init : H.
Variable b_raw : H -> bytes -> H.
Variable b_rle : H -> N -> N -> H.
Variable b_cblock : N -> N -> H -> bytes -> res (H * bytes).
Variable b_hash : bytes -> N.

Notation cstate := (cstate H).
Notation dcontinue := (dcontinue H b_raw b_rle b_cblock b_hash).

(* ---------- one block at the head of [src], as the streaming decoder accepts it ---------- *)
Record block_at (fp : fparams) (h : H) (src : bytes) (bp : bprops) (payload out : bytes) (h' : H) (rest : bytes) : Prop := {
  ba_len : BHS <= lenN src;
  ba_hdr : getc_block (tk BHS src) = MOk bp;
  ba_plen : bp_csize bp <= lenN (dr BHS src);
  ba_payload : payload = tk (bp_csize bp) (dr BHS src);
  ba_rest : rest = dr (bp_csize bp) (dr BHS src);
  ba_cmax : (match bp_type bp with BtRle => bp_orig bp | _ => bp_csize bp end) <= fp_blockMax fp;
  ba_omax : lenN out <= fp_blockMax fp;
  ba_body : match bp_type bp with
            | BtCompressed => bp_csize bp <> 0 /\ b_cblock (fp_window fp) (fp_blockMax fp) h payload = Ok (h', out)
            | BtRaw => h' = (if bp_csize bp =? 0 then h else b_raw h payload) /\ out = payload
            | BtRle => h' = b_rle h (nthN payload 0 0) (bp_orig bp) /\ out = repeat_byte (nthN payload 0 0) (bp_orig bp)
            | BtReserved => False
            end }.

Inductive blocks (fp : fparams) : H -> bytes -> list bytes -> bytes -> Prop :=
| blocks_last h src bp pl out h' rest :
    block_at fp h src bp pl out h' rest -> bp_last bp = true -> blocks fp h src [out] rest
| blocks_more h src bp pl out h' rest l rest' :
    block_at fp h src bp pl out h' rest -> bp_last bp = false -> blocks fp h' rest l rest' ->
    blocks fp h src (out :: l) rest'.

(* the frame parameters the streaming decoder works with (window raised to the minimum, block size clamped) *)
Definition sfp (P : dparams) (fp0 : fparams) : fparams :=
  clamp_block P (fp_set_window_block fp0 (N.max (fp_window fp0) MINW) (fp_blockMax fp0)).

(* end of a frame: content size, checksum, then whatever [K] says about the rest of the stream *)
Definition frame_end (K : bytes -> bytes -> Prop) (P : dparams) (fp : fparams) (all_out rest crest : bytes) : Prop :=
  (fp_fcs fp = UNKNOWN \/ lenN all_out = fp_fcs fp) /\
  exists after,
    (if fp_checksum fp
     then 4 <= lenN rest /\ after = dr 4 rest /\ (dp_ignoreChecksum P = true \/ le32 rest = b_hash all_out)
     else after = rest) /\
    K after crest.

Inductive SValid (P : dparams) : bytes -> bytes -> Prop :=
| SV_nil : SValid P [] []
| SV_skip src n crest :
    dp_magicless P = false -> SKIPHDR <= lenN src -> is_skip_magic (le32 src) = true ->
    n = sub_le src s_ZSTD_FRAMEIDSIZE 4 -> n + SKIPHDR <= lenN src ->
    SValid P (dr (n + SKIPHDR) src) crest -> SValid P src crest
| SV_frame src fp0 chunks rest1 crest1 :
    prefix_len (dp_magicless P) <= lenN src ->
    (dp_magicless P = false -> le32 src = ZMAGIC) ->
    frame_header_size (dp_magicless P) src <= lenN src ->
    get_fheader (dp_magicless P) (tk (frame_header_size (dp_magicless P) src) src) = HDone fp0 ->
    fp_dictid fp0 = 0 ->
    N.max (fp_window fp0) MINW <= dp_maxWindow P ->
    blocks (sfp P fp0) b_init (dr (frame_header_size (dp_magicless P) src) src) chunks rest1 ->
    frame_end (SValid P) P (sfp P fp0) (concat chunks) rest1 crest1 ->
    SValid P src (concat chunks ++ crest1).

(* ---------- positions of the ZSTD_decompressContinue machine ---------- *)
Record cwf (P : dparams) (c : cstate) : Prop := {
  cw_dec : c_decoded c = lenN (frame_out c);
  cw_val : c_validate c = andb (fp_checksum (c_fp c)) (negb (dp_ignoreChecksum P)) }.

(* what follows a block: the end of the frame, or more blocks then the end of the frame *)
Definition after_block (P : dparams) (fp : fparams) (last : bool) (h' : H) (fout' rest crest : bytes) : Prop :=
  if last then frame_end (SValid P) P fp fout' rest crest
  else exists chunks rest1 crest1,
         blocks fp h' rest chunks rest1 /\ frame_end (SValid P) P fp (fout' ++ concat chunks) rest1 crest1 /\
         crest = concat chunks ++ crest1.

Inductive Pos (P : dparams) : cstate -> bytes -> bytes -> Prop :=
| Pos_bh c rest crest chunks rest1 crest1 :
    c_stage c = DDecodeBH -> c_expected c = BHS -> cwf P c -> c_raw c = [] ->
    blocks (c_fp c) (c_h c) rest chunks rest1 ->
    frame_end (SValid P) P (c_fp c) (frame_out c ++ concat chunks) rest1 crest1 ->
    crest = concat chunks ++ crest1 ->
    Pos P c rest crest
| Pos_blk c rest crest bp payload rem rout h' restb crest' :
    c_stage c = (if bp_last bp then DLastBlock else DBlock) -> c_btype c = bp_type bp -> c_rleSize c = bp_orig bp ->
    cwf P c ->
    payload = rev (c_raw c) ++ rem -> c_expected c = lenN rem -> 0 < lenN rem -> rest = rem ++ restb ->
    (bp_type bp <> BtRaw -> c_raw c = []) ->
    (bp_type bp <> BtRle -> lenN payload <= fp_blockMax (c_fp c)) ->
    lenN (rev (c_raw c)) + lenN rout <= fp_blockMax (c_fp c) ->
    match bp_type bp with
    | BtCompressed => b_cblock (fp_window (c_fp c)) (fp_blockMax (c_fp c)) (c_h c) payload = Ok (h', rout)
    | BtRaw => h' = b_raw (c_h c) payload /\ rout = rem
    | BtRle => h' = b_rle (c_h c) (nthN payload 0 0) (bp_orig bp) /\ rout = repeat_byte (nthN payload 0 0) (bp_orig bp) /\ lenN payload = 1
    | BtReserved => False
    end ->
    after_block P (c_fp c) (bp_last bp) h' (frame_out c ++ rout) restb crest' ->
    crest = rout ++ crest' ->
    Pos P c rest crest
| Pos_ck c rest crest :
    c_stage c = DChecksum -> c_expected c = 4 -> cwf P c -> fp_checksum (c_fp c) = true -> 4 <= lenN rest ->
    (dp_ignoreChecksum P = true \/ le32 rest = b_hash (frame_out c)) ->
    SValid P (dr 4 rest) crest ->
    Pos P c rest crest
| Pos_skip c rest crest :
    c_stage c = DSkipFrame -> c_expected c <= lenN rest -> SValid P (dr (c_expected c) rest) crest ->
    Pos P c rest crest
| Pos_end c rest crest :
    c_stage c = DGetFHSize -> c_expected c = 0 -> SValid P rest crest ->
    Pos P c rest crest.


(* ---------- facts about block headers ---------- *)
Lemma getc_rle src bp : getc_block src = MOk bp -> bp_type bp = BtRle -> bp_csize bp = 1.
Proof.
  unfold getc_block. destruct (_ =? 3); [discriminate|]. destruct (_ =? 1).
  - intros E; inversion E; reflexivity.
  - intros E; inversion E; subst bp; cbn. destruct (_ =? 0); discriminate.
Qed.
Lemma getc_not_reserved src bp : getc_block src = MOk bp -> bp_type bp <> BtReserved.
Proof.
  unfold getc_block. destruct (_ =? 3); [discriminate|]. destruct (_ =? 1).
  - intros E; inversion E; cbn; discriminate.
  - intros E; inversion E; cbn. destruct (_ =? 0); discriminate.
Qed.
Lemma getc_orig src bp : getc_block src = MOk bp -> bp_type bp <> BtRle -> bp_orig bp = bp_csize bp.
Proof.
  unfold getc_block. destruct (_ =? 3); [discriminate|]. destruct (_ =? 1).
  - intros E; inversion E; cbn; congruence.
  - intros E; inversion E; reflexivity.
Qed.

Lemma frame_out_set_block (c : cstate) st e bt r : frame_out (c_set_block c st e bt r) = frame_out c.
Proof. reflexivity. Qed.
Lemma frame_out_goto (c : cstate) st e : frame_out (c_goto c st e) = frame_out c.
Proof. reflexivity. Qed.
Lemma frame_out_after (c : cstate) e out raw h : frame_out (c_after_block c e out raw h) = frame_out c ++ out.
Proof.
  unfold frame_out, c_after_block. cbn [c_fout]. rewrite !rev'_rev, rev_append_rev, rev_app_distr, rev_involutive. reflexivity.
Qed.

Lemma cwf_set_block P (c : cstate) st e bt r : cwf P c -> cwf P (c_set_block c st e bt r).
Proof. intros [A B]. constructor; [exact A|exact B]. Qed.
Lemma cwf_goto P (c : cstate) st e : cwf P c -> cwf P (c_goto c st e).
Proof. intros [A B]. constructor; [exact A|exact B]. Qed.
Lemma cwf_after P (c : cstate) e out raw h : cwf P c -> cwf P (c_after_block c e out raw h).
Proof.
  intros [A B]. constructor; [|exact B].
  rewrite frame_out_after, lenN_app. unfold c_after_block. cbn [c_decoded]. rewrite A. reflexivity.
Qed.

(* inversion of [blocks] into the first block and what follows it *)
Lemma blocks_inv P fp h src chunks rest1 fout crest1 :
  blocks fp h src chunks rest1 -> frame_end (SValid P) P fp (fout ++ concat chunks) rest1 crest1 ->
  exists bp pl out h' rest crest',
    block_at fp h src bp pl out h' rest /\
    after_block P fp (bp_last bp) h' (fout ++ out) rest crest' /\
    concat chunks ++ crest1 = out ++ crest'.
Proof.
  intros B FE. inversion B as [h0 s0 bp pl out h' rest BA L|h0 s0 bp pl out h' rest l rest' BA L B']; subst.
  - exists bp, pl, out, h', rest1, crest1. split; [exact BA|]. split.
    + unfold after_block. rewrite L. cbn [concat] in FE. rewrite app_nil_r in FE. exact FE.
    + cbn [concat]. rewrite app_nil_r. reflexivity.
  - exists bp, pl, out, h', rest, (concat l ++ crest1). split; [exact BA|]. split.
    + unfold after_block. rewrite L. exists l, rest1, crest1. split; [exact B'|]. split; [|reflexivity].
      cbn [concat] in FE. rewrite app_assoc in FE. exact FE.
    + cbn [concat]. rewrite <- app_assoc. reflexivity.
Qed.

End Spec.
