(* C02, round 3: facts about the dictionary-ID model (DictIdModel.v), for EVERY context state / history of API events. *)
From Coq Require Import NArith List Bool Lia.
From ZV.Stream Require Import DictUseModel DictIdModel.
Import ListNotations.
Local Open Scope N_scope.

Section Proofs.
Variable D : Type.
Variable did : D -> N.
Notation ds := (ds D).
Notation iop := (iop D).
Notation select := (select D did).
Notation frame_step := (frame_step D did).
Notation oneshot_loop := (oneshot_loop D did).
Notation stream_frames := (stream_frames D did).
Notation ds_step := (ds_step D did).
Notation ds_run := (ds_run D did).
Notation set_get := (set_get D did).
Notation set_add := (set_add D did).
Notation id_of := (id_of D did).

(* ---------- 1. an accepted frame that names a dictionary was decoded from a dictionary of that ID ---------- *)
Definition res_sound (r : fres D) : Prop :=
  let '(o, id, ok) := r in ok = true -> id <> 0 -> exists d, o = Some d /\ did d = id.

Lemma id_ok_sound (o : option D) (id : N) : id_ok (id_of o) id = true -> id <> 0 -> exists d, o = Some d /\ did d = id.
Proof.
  unfold id_ok. intros H Hn. apply orb_true_iff in H. destruct H as [H|H]; apply N.eqb_eq in H; [contradiction|].
  destruct o as [d|]; cbn in H; [exists d; auto|]. subst id. contradiction.
Qed.

Lemma frame_step_sound (s : ds) (id : N) : res_sound (snd (frame_step s id)).
Proof.
  unfold DictIdModel.frame_step. destruct (ds_uses D (select s id));
    [destruct (get_dd D (select s id)) as [s2 o]; cbn; apply id_ok_sound
    |cbn; apply id_ok_sound
    |destruct (get_dd D (select s id)) as [s2 o]; cbn; apply id_ok_sound].
Qed.

Lemma oneshot_loop_sound (ids : list N) : forall (s : ds) cur, Forall res_sound (snd (oneshot_loop s cur ids)).
Proof.
  induction ids as [|id r IH]; intros s cur; cbn; [constructor|].
  set (cur' := match cur with
               | Some _ => if set_active D s && applies D s then match set_get (ds_set D s) id with Some f => Some f | None => cur end else cur
               | None => cur end).
  destruct (id_ok (id_of cur') id) eqn:Eok.
  - specialize (IH (select (with_loaded D s (id_of cur')) id) cur').
    destruct (oneshot_loop _ cur' r) as [s2 l]. cbn in *. constructor; [|exact IH].
    cbn. intros _. apply id_ok_sound. exact Eok.
  - cbn. constructor; [|constructor]. cbn. discriminate.
Qed.

Lemma ds_step_sound (s : ds) (op : iop) : Forall res_sound (snd (ds_step s op)).
Proof.
  destruct op; cbn; try constructor.
  - pose proof (frame_step_sound s id) as H. destruct (frame_step s id) as [s' r]. cbn in *. constructor; [exact H|constructor].
  - destruct (ds_uses D s).
    + destruct (get_dd D s) as [s1 o]. apply oneshot_loop_sound.
    + pose proof (oneshot_loop_sound ids s (ds_dict D s)) as H. destruct (oneshot_loop s (ds_dict D s) ids) as [s1 l]. exact H.
    + destruct (get_dd D s) as [s1 o]. apply oneshot_loop_sound.
Qed.

Theorem accept_sound (ops : list iop) : forall s : ds, Forall res_sound (snd (ds_run s ops)).
Proof.
  induction ops as [|op r IH]; intro s; cbn; [constructor|].
  pose proof (ds_step_sound s op) as H1. destruct (ds_step s op) as [s1 l1]. specialize (IH s1).
  destruct (ds_run s1 r) as [s2 l2]. cbn in *. apply Forall_app. split; assumption.
Qed.

(* ---------- 2. the selection is idempotent ; the set holds one DDict per ID ---------- *)
Lemma select_loaded (s : ds) n id : select (with_loaded D s n) id = with_loaded D (select s id) n.
Proof.
  unfold DictIdModel.select, set_active, applies, live. destruct s as [d u lo m l ld]; cbn.
  match goal with |- (if ?c then _ else _) = _ => destruct c end; [|reflexivity].
  destruct (set_get l id); reflexivity.
Qed.

Lemma select_idem (s : ds) id : select (select s id) id = select s id.
Proof.
  unfold DictIdModel.select at 2 3. destruct (set_active D s && applies D s) eqn:Ea.
  - destruct (set_get (ds_set D s) id) as [f|] eqn:Eg.
    + unfold DictIdModel.select, set_active, applies, live. cbn [with_dict ds_dict ds_uses ds_local ds_mdd ds_set].
      apply andb_true_iff in Ea. destruct Ea as [Ea _]. unfold set_active in Ea. rewrite Ea. cbn. rewrite Eg. reflexivity.
    + unfold DictIdModel.select. rewrite Ea, Eg. reflexivity.
  - unfold DictIdModel.select. rewrite Ea. reflexivity.
Qed.

Definition uniq (l : list D) : Prop := NoDup (map did l).

Lemma in_map_filter (l : list D) (p : D -> bool) (n : N) : In n (map did (filter p l)) -> exists e, In e l /\ p e = true /\ did e = n.
Proof.
  intros H. apply in_map_iff in H. destruct H as (e & He & Hin). apply filter_In in Hin. exists e. tauto.
Qed.

Lemma uniq_filter (l : list D) (p : D -> bool) : uniq l -> uniq (filter p l).
Proof.
  unfold uniq. induction l as [|a r IH]; cbn; intro H; [constructor|].
  inversion H as [|x y Hn Hr]; subst. destruct (p a); cbn; [|exact (IH Hr)].
  constructor; [|exact (IH Hr)]. intro Hin. apply Hn. destruct (in_map_filter r p _ Hin) as (e & He & _ & Hd).
  rewrite <- Hd. apply in_map. exact He.
Qed.

Lemma uniq_add (l : list D) (d : D) : uniq l -> uniq (set_add l d).
Proof.
  intros H. unfold DictIdModel.set_add, uniq. cbn. constructor; [|apply uniq_filter; exact H].
  intro Hin. destruct (in_map_filter l _ _ Hin) as (e & _ & Hp & Hd). rewrite Hd, N.eqb_refl in Hp. discriminate.
Qed.

Lemma uniq_get (l : list D) (f : D) : uniq l -> In f l -> did f <> 0 -> set_get l (did f) = Some f.
Proof.
  intros Hu Hin Hn. unfold DictIdModel.set_get. destruct (N.eqb_spec (did f) 0) as [E|_]; [contradiction|].
  induction l as [|a r IH]; [contradiction|]. cbn. inversion Hu as [|x y Hna Hr]; subst.
  destruct Hin as [->|Hin]; [rewrite N.eqb_refl; reflexivity|].
  destruct (N.eqb_spec (did a) (did f)) as [E|_]; [|exact (IH Hr Hin)].
  exfalso. apply Hna. rewrite E. apply in_map. exact Hin.
Qed.

Lemma get_in (l : list D) id f : set_get l id = Some f -> In f l /\ did f = id /\ id <> 0.
Proof.
  unfold DictIdModel.set_get. destruct (N.eqb_spec id 0) as [E|Hn]; [discriminate|]. intro H.
  apply find_some in H. destruct H as [Hin He]. apply N.eqb_eq in He. auto.
Qed.

(* every reachable context holds one DDict per ID *)
Lemma ds_step_uniq (s : ds) (op : iop) : uniq (ds_set D s) -> uniq (ds_set D (fst (ds_step s op))).
Proof.
  assert (Hsel : forall (t : ds) id, ds_set D (select t id) = ds_set D t).
  { intros t id. unfold DictIdModel.select. destruct (set_active D t && applies D t); [|reflexivity].
    destruct (set_get (ds_set D t) id); reflexivity. }
  assert (Hget : forall t : ds, ds_set D (fst (get_dd D t)) = ds_set D t).
  { intros t. unfold get_dd. destruct (ds_uses D t); reflexivity. }
  assert (Hloop : forall ids (t : ds) cur, ds_set D (fst (oneshot_loop t cur ids)) = ds_set D t).
  { induction ids as [|id r IH]; intros t cur; cbn; [reflexivity|].
    match goal with |- context [id_ok ?a ?b] => destruct (id_ok a b) end.
    - match goal with |- context [oneshot_loop ?a ?b r] => specialize (IH a b); destruct (oneshot_loop a b r) as [s2 l] end.
      cbn in *. rewrite IH, Hsel. reflexivity.
    - cbn. rewrite Hsel. reflexivity. }
  intro Hu. destruct op as [d|d|d|b| | |id| |ids]; cbn.
  - destruct d; exact Hu.
  - destruct d as [x|]; cbn; [|exact Hu]. destruct (ds_mdd D s); [apply uniq_add|]; exact Hu.
  - exact Hu.
  - exact Hu.
  - exact Hu.
  - constructor.
  - unfold DictIdModel.frame_step. pose proof (Hget (select s id)) as Hg. destruct (ds_uses D (select s id)).
    + destruct (get_dd D (select s id)) as [s2 o]. cbn in *. rewrite Hsel. cbn. rewrite Hg, Hsel. exact Hu.
    + cbn [fst]. match goal with |- context [if ?c then _ else _] => destruct c end; cbn [with_dict ds_set]; rewrite Hsel; cbn; rewrite Hsel; exact Hu.
    + destruct (get_dd D (select s id)) as [s2 o]. cbn in *. rewrite Hsel. cbn. rewrite Hg, Hsel. exact Hu.
  - exact Hu.
  - pose proof (Hget s) as Hg. destruct (ds_uses D s) eqn:Eu.
    + destruct (get_dd D s) as [s1 o]. cbn in *. rewrite Hloop, Hg. exact Hu.
    + pose proof (Hloop ids s (ds_dict D s)) as Hl. destruct (oneshot_loop s (ds_dict D s) ids) as [s1 l]. cbn in *.
      destruct (all_acc D l); cbn; rewrite Hl; exact Hu.
    + destruct (get_dd D s) as [s1 o]. cbn in *. rewrite Hloop, Hg. exact Hu.
Qed.

Theorem reachable_uniq (ops : list iop) : forall s : ds, uniq (ds_set D s) -> uniq (ds_set D (fst (ds_run s ops))).
Proof.
  induction ops as [|op r IH]; intros s Hu; cbn; [exact Hu|].
  pose proof (ds_step_uniq s op Hu) as H1. destruct (ds_step s op) as [s1 l1]. specialize (IH s1 H1).
  destruct (ds_run s1 r) as [s2 l2]. exact IH.
Qed.

(* ---------- 3. ZSTD_d_refMultipleDDicts : a streamed frame is decoded from the referenced DDict it names ---------- *)
(* a DDict referenced while the parameter is on is in the set, and the latest one of its ID *)
Lemma ref_in_set (s : ds) (x : D) : ds_mdd D s = true -> In x (ds_set D (fst (ds_step s (IRefDDict D (Some x))))).
Proof. intro Hm. cbn. rewrite Hm. left. reflexivity. Qed.

Theorem multi_ddict_selects (s : ds) (id : N) (f x : D) :
  ds_mdd D s = true -> uniq (ds_set D s) -> In f (ds_set D s) -> did f = id -> id <> 0 ->
  ds_dict D s = Some x -> ds_uses D s = UseIndef -> ds_local D s = false ->
  frame_step s id = (with_loaded D (with_dict D s (Some f) UseIndef false) id, (Some f, id, true)).
Proof.
  intros Hm Hu Hin Hd Hn Hx Hi Hl. subst id.
  pose proof (uniq_get _ f Hu Hin Hn) as Hg.
  assert (Ha : set_active D s = true).
  { unfold set_active. rewrite Hm. destruct (ds_set D s); [contradiction|reflexivity]. }
  assert (Hs1 : select s (did f) = with_dict D s (Some f) UseIndef false).
  { unfold DictIdModel.select, applies, live. rewrite Ha, Hi, Hx, Hl, Hg. reflexivity. }
  unfold DictIdModel.frame_step. rewrite Hs1. cbn [get_dd with_dict ds_uses ds_dict ds_local].
  rewrite select_loaded. rewrite <- Hs1 at 1. rewrite select_idem, Hs1. cbn [id_of].
  unfold id_ok. rewrite N.eqb_refl, orb_true_r. reflexivity.
Qed.

(* a frame that names no dictionary, or one that is not referenced, is decoded from the current dictionary; nothing changes *)
Theorem multi_ddict_keeps (s : ds) (id : N) (x : D) :
  set_get (ds_set D s) id = None -> ds_dict D s = Some x -> ds_uses D s = UseIndef ->
  frame_step s id = (with_loaded D s (did x), (Some x, id, id_ok (did x) id)).
Proof.
  intros Hg Hx Hi.
  assert (Hs1 : forall t : ds, ds_set D t = ds_set D s -> select t id = t).
  { intros t Ht. unfold DictIdModel.select. destruct (set_active D t && applies D t); [|reflexivity].
    rewrite Ht, Hg. reflexivity. }
  unfold DictIdModel.frame_step. rewrite (Hs1 s eq_refl). unfold get_dd. rewrite Hi, Hx. cbn [id_of].
  rewrite (Hs1 (with_loaded D s (did x)) eq_refl). reflexivity.
Qed.

(* a dictionary loaded into the context (ZSTD_DCtx_loadDictionary and variants) is never replaced by the selection : every streamed frame is
   decoded from it, whatever it names and whatever is referenced (fix d0ddbff) *)
Theorem loaded_dict_kept (s : ds) (id : N) (x : D) :
  ds_local D s = true -> ds_dict D s = Some x -> ds_uses D s = UseIndef ->
  frame_step s id = (with_loaded D s (did x), (Some x, id, id_ok (did x) id)).
Proof.
  intros Hl Hx Hi.
  assert (Hs1 : forall t : ds, ds_local D t = true -> select t id = t).
  { intros t Ht. unfold DictIdModel.select, applies. rewrite Ht. destruct (ds_dict D t); rewrite ?andb_false_r; reflexivity. }
  unfold DictIdModel.frame_step. rewrite (Hs1 s Hl). unfold get_dd. rewrite Hi, Hx. cbn [id_of].
  rewrite (Hs1 (with_loaded D s (did x)) Hl). reflexivity.
Qed.

(* a pending single-use prefix : the next streamed frame is decoded from it ; accepted -> the prefix is used up (dictUses = dont_use,
   pointer left until the next fetch) ; refused (the frame names a dictionary the prefix is not) -> the prefix stays pending,
   nothing but dctx->dictID has changed (fix b15fdb6) *)
Theorem prefix_frame (s : ds) (id : N) :
  ds_uses D s = UseOnce -> ds_local D s = true ->
  frame_step s id =
    (if id_ok (id_of (ds_dict D s)) id
     then with_dict D (with_loaded D s (id_of (ds_dict D s))) (ds_dict D s) DontUse true
     else with_loaded D s (id_of (ds_dict D s)),
     (ds_dict D s, id, id_ok (id_of (ds_dict D s)) id)).
Proof.
  intros Hu Hl.
  assert (Hs1 : forall t : ds, ds_local D t = true -> select t id = t).
  { intros t Ht. unfold DictIdModel.select, applies. rewrite Ht. destruct (ds_dict D t); rewrite ?andb_false_r; reflexivity. }
  unfold DictIdModel.frame_step. rewrite (Hs1 s Hl), Hu. rewrite (Hs1 (with_loaded D s (id_of (ds_dict D s))) Hl).
  destruct (id_ok (id_of (ds_dict D s)) id); [|reflexivity]. cbn [with_loaded ds_dict ds_local]. rewrite Hl. reflexivity.
Qed.

Definition proj_du (s : ds) : option D * duses * bool := (ds_dict D s, ds_uses D s, ds_local D s).

(* ---------- 4. frame by frame through ZSTD_decompressStream = one ZSTD_decompressDCtx call ---------- *)
(* hypothesis: no single-use prefix is pending (its documented meaning differs between the two entry points: next frame / whole
   call).  Before fix a891479 a second hypothesis was needed - no used-up prefix has left its pointer behind (dictUses == dont_use
   with ddict != NULL) : see the refutation examples at the end of this file *)
Definition settled (s : ds) (cur : option D) : Prop :=
  (ds_uses D s = UseIndef /\ cur = ds_dict D s) \/ (ds_uses D s = DontUse /\ ds_dict D s = None /\ ds_local D s = false /\ cur = None).

Lemma select_uses (s : ds) id : ds_uses D s = UseIndef -> ds_uses D (select s id) = UseIndef.
Proof.
  intro H. unfold DictIdModel.select. destruct (set_active D s && applies D s); [|exact H].
  destruct (set_get (ds_set D s) id); [reflexivity|exact H].
Qed.

Lemma select_none (s : ds) id : ds_dict D s = None -> select s id = s.
Proof. intro H. unfold DictIdModel.select, applies. rewrite H, andb_false_r. reflexivity. Qed.

Lemma select_dead (s : ds) id : ds_uses D s = DontUse -> select s id = s.
Proof. intro H. unfold DictIdModel.select, applies, live. rewrite H. destruct (ds_dict D s); cbn; rewrite andb_false_r; reflexivity. Qed.

Lemma loop_eq_stream (ids : list N) : forall (s : ds) cur, settled s cur -> oneshot_loop s cur ids = stream_frames s ids.
Proof.
  induction ids as [|id r IH]; intros s cur Hs; [reflexivity|].
  cbn [DictIdModel.oneshot_loop DictIdModel.stream_frames]. unfold DictIdModel.frame_step.
  destruct Hs as [[Hu Hc]|(Hu & Hd & Hlo & Hc)].
  - (* a dictionary for indefinite use, or none *)
    subst cur.
    assert (Hcur : match ds_dict D s with
                   | Some _ => if set_active D s && applies D s then match set_get (ds_set D s) id with Some f => Some f | None => ds_dict D s end else ds_dict D s
                   | None => ds_dict D s end = ds_dict D (select s id)).
    { unfold DictIdModel.select. destruct (ds_dict D s) as [x|] eqn:Ed.
      - destruct (set_active D s && applies D s); [|rewrite Ed; reflexivity]. destruct (set_get (ds_set D s) id); [reflexivity|rewrite Ed; reflexivity].
      - unfold applies. rewrite Ed, andb_false_r. symmetry; exact Ed. }
    rewrite Hcur. unfold get_dd. rewrite (select_uses s id Hu).
    rewrite (select_loaded (select s id)), select_idem, <- select_loaded.
    cbn [snd]. destruct (id_ok (id_of (ds_dict D (select s id))) id); [|reflexivity].
    rewrite (IH (select (with_loaded D s (id_of (ds_dict D (select s id)))) id) (ds_dict D (select s id))); [reflexivity|].
    left. rewrite select_loaded. cbn. split; [apply select_uses; exact Hu|reflexivity].
  - subst cur. rewrite (select_none s id Hd). unfold get_dd. rewrite Hu.
    assert (Ec : clear_dict D s = s).
    { destruct s as [d u lo m l ld]. cbn in Hu, Hd, Hlo. subst. reflexivity. }
    rewrite Ec. cbn [id_of snd]. rewrite (select_none (with_loaded D s 0) id Hd).
    destruct (id_ok 0 id); [|reflexivity].
    rewrite (IH (with_loaded D s 0) None); [reflexivity|]. right. cbn. auto.
Qed.

(* a used-up prefix (pointer left behind) : the first streamed frame clears it, exactly like the ZSTD_getDDict of a single call *)
Lemma frame_step_dead (s : ds) id : ds_uses D s = DontUse -> frame_step s id = frame_step (clear_dict D s) id.
Proof.
  intro Hu. unfold DictIdModel.frame_step. rewrite (select_dead s id Hu), (select_dead (clear_dict D s) id eq_refl).
  unfold get_dd. rewrite Hu. cbn [clear_dict with_dict ds_uses]. reflexivity.
Qed.

Theorem stream_eq_oneshot (s : ds) (ids : list N) :
  ds_uses D s <> UseOnce -> ids <> [] ->
  ds_step s (IOneShot D ids) = stream_frames s ids.
Proof.
  intros Hn Hne. cbn [DictIdModel.ds_step]. destruct (ds_uses D s) eqn:Eu; [| contradiction Hn; reflexivity |]; unfold get_dd; rewrite Eu.
  - rewrite (loop_eq_stream ids (clear_dict D s) None) by (right; cbn; auto).
    destruct ids as [|id r]; [contradiction Hne; reflexivity|].
    cbn [DictIdModel.stream_frames]. rewrite (frame_step_dead s id Eu). reflexivity.
  - apply loop_eq_stream. left. auto.
Qed.

(* a call over no frame at all decodes nothing; it only clears what a used-up prefix left behind *)
Lemma oneshot_nil (s : ds) : snd (ds_step s (IOneShot D [])) = [].
Proof. cbn. destruct (ds_uses D s); [destruct (get_dd D s)| |destruct (get_dd D s)]; reflexivity. Qed.

(* a pending single-use prefix and ONE ZSTD_decompressDCtx call : every frame of the call is decoded from the prefix ; the prefix is
   used up iff no frame was refused (fix b87b37f : a failed call leaves it pending) *)
Lemma loop_local (ids : list N) : forall (s : ds) cur, ds_local D s = true ->
  Forall (fun r : fres D => fst (fst r) = cur) (snd (oneshot_loop s cur ids)) /\
  proj_du (fst (oneshot_loop s cur ids)) = proj_du s.
Proof.
  induction ids as [|id r IH]; intros s cur Hl; [split; [constructor|reflexivity]|].
  assert (Hs1 : forall t : ds, ds_local D t = true -> select t id = t).
  { intros t Ht. unfold DictIdModel.select, applies. rewrite Ht. destruct (ds_dict D t); rewrite ?andb_false_r; reflexivity. }
  cbn [DictIdModel.oneshot_loop].
  assert (Ecur : match cur with
                 | Some _ => if set_active D s && applies D s then match set_get (ds_set D s) id with Some f => Some f | None => cur end else cur
                 | None => cur end = cur).
  { destruct cur; [|reflexivity]. unfold applies. rewrite Hl. destruct (ds_dict D s); rewrite ?andb_false_r; reflexivity. }
  rewrite Ecur, (Hs1 (with_loaded D s (id_of cur)) Hl).
  destruct (id_ok (id_of cur) id).
  - destruct (IH (with_loaded D s (id_of cur)) cur Hl) as [Hf Hp].
    destruct (oneshot_loop (with_loaded D s (id_of cur)) cur r) as [s2 l]. cbn in *. split; [constructor; [reflexivity|exact Hf]|exact Hp].
  - cbn. split; [constructor; [reflexivity|constructor]|reflexivity].
Qed.

Theorem prefix_oneshot (s : ds) (ids : list N) :
  ds_uses D s = UseOnce -> ds_local D s = true ->
  Forall (fun r : fres D => fst (fst r) = ds_dict D s) (snd (ds_step s (IOneShot D ids))) /\
  ds_dict D (fst (ds_step s (IOneShot D ids))) = ds_dict D s /\
  ds_uses D (fst (ds_step s (IOneShot D ids))) = (if all_acc D (snd (ds_step s (IOneShot D ids))) then DontUse else UseOnce).
Proof.
  intros Hu Hl. cbn [DictIdModel.ds_step]. rewrite Hu.
  destruct (loop_local ids s (ds_dict D s) Hl) as [Hf Hp].
  destruct (oneshot_loop s (ds_dict D s) ids) as [s1 l]. cbn [fst snd] in *.
  unfold proj_du in Hp. injection Hp as Hd Hus Hlo.
  split; [exact Hf|]. destruct (all_acc D l); cbn [fst with_dict ds_dict ds_uses]; split; congruence.
Qed.

(* ---------- 5. on frames that name no dictionary the model is the round-2 model (DictUseModel.v) ---------- *)
Definition erase (op : iop) : dop D :=
  match op with
  | ILoad _ d => OpLoad D d | IRefDDict _ d => OpRefDDict D d | IRefPrefix _ d => OpRefPrefix D d
  | ISetMulti _ _ => OpResetSession D | IResetSession _ => OpResetSession D | IResetParams _ => OpResetParams D
  | IFrame _ _ => OpFrame D | ISkippable _ => OpSkippable D | IOneShot _ ids => OpOneShot D (length ids)
  end.
Definition names_none (op : iop) : Prop :=
  match op with IFrame _ id => id = 0 | IOneShot _ ids => Forall (fun id => id = 0) ids | _ => True end.
Definition proj (s : ds) : dd D := {| dd_dict := ds_dict D s; dd_uses := ds_uses D s |}.
Definition dicts (l : list (fres D)) : list (option D) := map (fun r => fst (fst r)) l.

Lemma select_zero (s : ds) : select s 0 = s.
Proof.
  unfold DictIdModel.select. destruct (set_active D s && applies D s); reflexivity.
Qed.

Lemma loop_zero (ids : list N) : Forall (fun id => id = 0) ids -> forall (s : ds) cur,
  proj (fst (oneshot_loop s cur ids)) = proj s /\ dicts (snd (oneshot_loop s cur ids)) = repeat cur (length ids) /\
  all_acc D (snd (oneshot_loop s cur ids)) = true.
Proof.
  induction 1 as [|id r Hid _ IH]; intros s cur; [repeat split; reflexivity|]. subst id.
  cbn [DictIdModel.oneshot_loop].
  assert (Ecur : match cur with
                 | Some _ => if set_active D s && applies D s then match set_get (ds_set D s) 0 with Some f => Some f | None => cur end else cur
                 | None => cur end = cur).
  { destruct cur; [|reflexivity]. destruct (set_active D s && applies D s); reflexivity. }
  rewrite Ecur. unfold id_ok at 1. cbn [N.eqb orb]. rewrite select_zero.
  destruct (IH (with_loaded D s (id_of cur)) cur) as (Hp & Hl & Ha).
  destruct (oneshot_loop (with_loaded D s (id_of cur)) cur r) as [s2 l]. cbn in *. split; [exact Hp|]. split; [f_equal; exact Hl|exact Ha].
Qed.

Lemma step_erase (s : ds) (op : iop) : names_none op ->
  proj (fst (ds_step s op)) = fst (dd_step D (proj s) (erase op)) /\ dicts (snd (ds_step s op)) = snd (dd_step D (proj s) (erase op)).
Proof.
  intro Hz. destruct op as [d|d|d|b| | |id| |ids]; cbn [erase dd_step DictIdModel.ds_step].
  - destruct d; split; reflexivity.
  - destruct d; split; reflexivity.
  - split; reflexivity.
  - split; reflexivity.
  - split; reflexivity.
  - split; reflexivity.
  - cbn in Hz. subst id. unfold DictIdModel.frame_step. rewrite select_zero. destruct s as [d0 u lo m l ld].
    unfold get_dd, get_ddict, proj. cbn [dd_uses dd_dict ds_uses ds_dict].
    destruct u; cbn [clear_dict with_dict with_loaded ds_uses ds_dict ds_local ds_mdd ds_set ds_loaded]; rewrite select_zero; split; reflexivity.
  - split; reflexivity.
  - cbn in Hz. destruct s as [d0 u lo m l ld]. unfold get_dd, get_ddict, proj. cbn [dd_uses dd_dict ds_uses ds_dict].
    destruct u; cbv beta iota;
      match goal with |- context [oneshot_loop ?a ?b ids] => destruct (loop_zero ids Hz a b) as (Hp & Hl & Ha); unfold proj in Hp;
        destruct (oneshot_loop a b ids) as [s1 l1] end; cbn [fst snd] in *.
    + rewrite Hl. injection Hp as -> ->. split; reflexivity.
    + rewrite Ha, Hl. cbn [with_dict ds_dict ds_uses fst snd]. injection Hp as -> _. split; reflexivity.
    + rewrite Hl. injection Hp as -> ->. split; reflexivity.
Qed.

Theorem extends_dict_use (ops : list iop) : Forall names_none ops -> forall s : ds,
  proj (fst (ds_run s ops)) = fst (dd_run D (proj s) (map erase ops)) /\
  dicts (snd (ds_run s ops)) = snd (dd_run D (proj s) (map erase ops)).
Proof.
  induction 1 as [|op r Hop _ IH]; intro s; [split; reflexivity|].
  cbn [DictIdModel.ds_run dd_run map]. destruct (step_erase s op Hop) as [Hp Hl].
  destruct (ds_step s op) as [s1 l1]. destruct (dd_step D (proj s) (erase op)) as [t1 m1]. cbn in Hp, Hl. subst t1 m1.
  destruct (IH s1) as [Hp2 Hl2]. destruct (ds_run s1 r) as [s2 l2]. destruct (dd_run D (proj s1) (map erase r)) as [t2 m2].
  cbn in *. subst. split; [reflexivity|]. unfold dicts. rewrite map_app. reflexivity.
Qed.
End Proofs.

(* ---------- satisfiable / concrete ---------- *)
(* dictionaries = their IDs. refMultipleDDicts on; DDicts 11 and 22 referenced (22 current); frames naming 11, 0, 22, 33 :
   11 selected and accepted (and becomes the current one), 0 decoded from 11, 22 selected, 33 refused with 22 loaded *)
Example multi_example :
  snd (ds_run N (fun d => d) (ds_new N)
        [ISetMulti N true; IRefDDict N (Some 11); IRefDDict N (Some 22); IFrame N 11; IFrame N 0; IFrame N 22; IFrame N 33])
  = [(Some 11, 11, true); (Some 11, 0, true); (Some 22, 22, true); (Some 22, 33, false)].
Proof. reflexivity. Qed.
(* the same frames in one ZSTD_decompressDCtx call *)
Example multi_oneshot_example :
  snd (ds_run N (fun d => d) (ds_new N)
        [ISetMulti N true; IRefDDict N (Some 11); IRefDDict N (Some 22); IOneShot N [11; 0; 22; 33]])
  = [(Some 11, 11, true); (Some 11, 0, true); (Some 22, 22, true); (Some 22, 33, false)].
Proof. reflexivity. Qed.
(* the place of finding C02-dstream-stale-prefix-pointer-selects-ddict (repaired by a891479) : prefix 7 (raw, ID 0) used up by a first
   frame, then a frame naming the referenced DDict 11.  The code as it is now : refused through both entry points *)
Example used_up_prefix_streaming :
  snd (ds_run N (fun d => if N.eqb d 7 then 0 else d) (ds_new N)
        [ISetMulti N true; IRefDDict N (Some 11); IRefPrefix N (Some 7); IFrame N 0; IFrame N 11])
  = [(Some 7, 0, true); (None, 11, false)].
Proof. reflexivity. Qed.
Example used_up_prefix_oneshot :
  snd (ds_run N (fun d => if N.eqb d 7 then 0 else d) (ds_new N)
        [ISetMulti N true; IRefDDict N (Some 11); IRefPrefix N (Some 7); IFrame N 0; IOneShot N [11]])
  = [(Some 7, 0, true); (None, 11, false)].
Proof. reflexivity. Qed.
(* REFUTATION of the pre-fix code : with the selection that tests dctx->ddict alone (select_stale) the state left by the used-up
   prefix selects DDict 11 in the streaming path, which the single call on the same state (ZSTD_getDDict first) never does *)
Example stale_selection_differs :
  let s := {| ds_dict := Some 7; ds_uses := DontUse; ds_local := true; ds_mdd := true; ds_set := [11]; ds_loaded := 0 |} in
  ds_dict N (select_stale N (fun d => if N.eqb d 7 then 0 else d) s 11) = Some 11 /\
  ds_dict N (select N (fun d => if N.eqb d 7 then 0 else d) s 11) = Some 7 /\
  snd (ds_step N (fun d => if N.eqb d 7 then 0 else d) s (IOneShot N [11])) = [(None, 11, false)].
Proof. repeat split. Qed.
