(* List / arithmetic lemmas shared by the streaming proofs. *)
From Coq Require Import NArith ZArith List Bool Lia PeanoNat.
From ZV.Codec Require Import Bytes ListLemmas.
From ZV.Stream Require Import DStreamModel.
Import ListNotations.
Local Open Scope N_scope.

Lemma tk_dr (n : N) (l : bytes) : tk n l ++ dr n l = l.
Proof. apply firstn_skipn. Qed.
Lemma len_tk (n : N) (l : bytes) : lenN (tk n l) = N.min n (lenN l).
Proof. unfold tk. rewrite !lenN_length, firstn_length. lia. Qed.
Lemma len_dr (n : N) (l : bytes) : lenN (dr n l) = lenN l - n.
Proof. apply lenN_skipn. Qed.
Lemma lenN_zero_nil {A} (l : list A) : lenN l = 0 -> l = [].
Proof. rewrite lenN_length. destruct l; [reflexivity|cbn; lia]. Qed.
Lemma tk_all (n : N) (l : bytes) : lenN l <= n -> tk n l = l.
Proof. intros H. unfold tk. apply firstn_all2. rewrite lenN_length in H. lia. Qed.
Lemma dr_all (n : N) (l : bytes) : lenN l <= n -> dr n l = [].
Proof. intros H. unfold dr. apply skipn_all2. rewrite lenN_length in H. lia. Qed.
Lemma tk_0 (l : bytes) : tk 0 l = [].
Proof. reflexivity. Qed.
Lemma dr_0 (l : bytes) : dr 0 l = l.
Proof. reflexivity. Qed.
Lemma tk_app_exact (a b : bytes) : tk (lenN a) (a ++ b) = a.
Proof.
  unfold tk. rewrite lenN_length, Nat2N.id. rewrite firstn_app, Nat.sub_diag, firstn_all. cbn. apply app_nil_r.
Qed.
Lemma dr_app_exact (a b : bytes) : dr (lenN a) (a ++ b) = b.
Proof.
  unfold dr. rewrite lenN_length, Nat2N.id. rewrite skipn_app, Nat.sub_diag, skipn_all. reflexivity.
Qed.
Lemma dr_dr (a b : N) (l : bytes) : dr a (dr b l) = dr (b + a) l.
Proof.
  unfold dr. rewrite N2Nat.inj_add.
  revert l; induction (N.to_nat b) as [|k IH]; intros l; [reflexivity|].
  destruct l as [|x t]; cbn [skipn Nat.add]; [apply skipn_nil|apply IH].
Qed.
Lemma tk_tk_dr (a b : N) (l : bytes) : tk a l ++ tk b (dr a l) = tk (a + b) l.
Proof.
  unfold tk, dr. rewrite N2Nat.inj_add.
  revert l; induction (N.to_nat a) as [|k IH]; intros l; [reflexivity|].
  destruct l as [|x t]; cbn [firstn skipn Nat.add].
  - rewrite firstn_nil. reflexivity.
  - cbn. rewrite IH. reflexivity.
Qed.
Lemma lenN_concat_cons {A} (a : list A) l : lenN (concat (a :: l)) = lenN a + lenN (concat l).
Proof. cbn [concat]. apply lenN_app. Qed.
Lemma lenN_le_app_l {A} (a b : list A) : lenN a <= lenN (a ++ b).
Proof. rewrite lenN_app. lia. Qed.
Lemma firstn_prefix (n : N) (a b : bytes) : n <= lenN a -> tk n (a ++ b) = tk n a.
Proof.
  intros H. unfold tk. rewrite firstn_app. rewrite lenN_length in H.
  replace (N.to_nat n - length a)%nat with 0%nat by lia. cbn. apply app_nil_r.
Qed.
Lemma dr_prefix (n : N) (a b : bytes) : n <= lenN a -> dr n (a ++ b) = dr n a ++ b.
Proof.
  intros H. unfold dr. rewrite skipn_app. rewrite lenN_length in H.
  replace (N.to_nat n - length a)%nat with 0%nat by lia. reflexivity.
Qed.

(* x ++ r = a ++ i with r no longer than i: r is a suffix of i and x = a ++ the rest of i *)
Lemma app_suffix_split (x r a i : bytes) :
  x ++ r = a ++ i -> lenN r <= lenN i ->
  r = dr (lenN i - lenN r) i /\ x = a ++ tk (lenN i - lenN r) i.
Proof.
  intros E Hl.
  assert (Hlen : lenN x = lenN a + (lenN i - lenN r)).
  { apply (f_equal lenN) in E. rewrite !lenN_app in E. lia. }
  assert (E2 : x ++ r = (a ++ tk (lenN i - lenN r) i) ++ dr (lenN i - lenN r) i).
  { rewrite <- app_assoc, tk_dr. exact E. }
  assert (Hlx : length x = length (a ++ tk (lenN i - lenN r) i)).
  { apply Nat2N.inj. rewrite <- !lenN_length, lenN_app, len_tk. lia. }
  pose proof (app_inj_tail_length := fun A => @app_inv_head A).
  clear app_inj_tail_length.
  assert (Hx : x = a ++ tk (lenN i - lenN r) i).
  { apply (f_equal (firstn (length x))) in E2. rewrite firstn_app, Nat.sub_diag, firstn_all in E2. cbn in E2.
    rewrite app_nil_r in E2. rewrite Hlx in E2 at 1. rewrite firstn_app, Nat.sub_diag, firstn_all in E2. cbn in E2.
    rewrite app_nil_r in E2. exact E2. }
  split; [|exact Hx].
  rewrite Hx in E2. apply app_inv_head in E2. exact E2.
Qed.
