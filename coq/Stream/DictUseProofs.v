(* C02, round 2: the dictionary-selection state of a ZSTD_DCtx (DictUseModel.v) implements the documented meaning, for EVERY
   history of API events. *)
From Coq Require Import List Bool.
From ZV.Stream Require Import DictUseModel.
Import ListNotations.

Section Proofs.
Variable D : Type.
Notation dd := (dd D).
Notation dop := (dop D).

(* what a context state means *)
Definition abs (s : dd) : dspec D :=
  match dd_uses D s with
  | DontUse => Sticky D None            (* a stale ddict pointer may still be there: it is never handed out *)
  | UseIndef => Sticky D (dd_dict D s)
  | UseOnce => Pending D (dd_dict D s)
  end.

Lemma step_abs (s : dd) (op : dop) :
  abs (fst (dd_step D s op)) = fst (spec_step D (abs s) op) /\ snd (dd_step D s op) = snd (spec_step D (abs s) op).
Proof.
  destruct s as [d u]. destruct op as [o|o|o| | | | |n]; unfold abs; cbn.
  - destruct o; cbn; split; reflexivity.
  - destruct o; cbn; split; reflexivity.
  - split; reflexivity.
  - destruct u; split; reflexivity.
  - split; reflexivity.
  - destruct u; cbn; split; reflexivity.
  - destruct u; split; reflexivity.
  - destruct u; cbn; split; reflexivity.
Qed.

Theorem run_abs (ops : list dop) : forall s : dd,
  abs (fst (dd_run D s ops)) = fst (spec_run D (abs s) ops) /\ snd (dd_run D s ops) = snd (spec_run D (abs s) ops).
Proof.
  induction ops as [|op r IH]; intro s; cbn; [split; reflexivity|].
  destruct (step_abs s op) as [Ha Hl].
  destruct (dd_step D s op) as [s1 l1] eqn:E1. destruct (spec_step D (abs s) op) as [t1 m1] eqn:E2. cbn in Ha, Hl. subst.
  destruct (IH s1) as [Ha2 Hl2].
  destruct (dd_run D s1 r) as [s2 l2]. destruct (spec_run D (abs s1) r) as [t2 m2]. cbn in *. subst. split; reflexivity.
Qed.

(* from a fresh context: the dictionaries the frames are decoded with are those of the documented meaning *)
Theorem dict_use_refines_spec (ops : list dop) :
  snd (dd_run D (dd_new D) ops) = snd (spec_run D (Sticky D None) ops).
Proof. exact (proj2 (run_abs ops (dd_new D))). Qed.

(* the single-use prefix: whatever the state before ZSTD_DCtx_refPrefix, whatever number of skippable frames and session resets
   come in between, the next Zstandard frame is decoded with the prefix and the one after it without any dictionary *)
Definition neutral (op : dop) : Prop := op = OpSkippable D \/ op = OpResetSession D.
Lemma neutral_run (l : list dop) : Forall neutral l -> forall s : dd, dd_run D s l = (s, []).
Proof.
  induction 1 as [|op r Hop _ IH]; intro s; [reflexivity|].
  cbn. destruct Hop as [-> | ->]; cbn; rewrite IH; reflexivity.
Qed.
Lemma run_app (a b : list dop) : forall s : dd,
  dd_run D s (a ++ b) = let '(s1, l1) := dd_run D s a in let '(s2, l2) := dd_run D s1 b in (s2, l1 ++ l2).
Proof.
  induction a as [|op r IH]; intro s; cbn.
  - destruct (dd_run D s b); reflexivity.
  - destruct (dd_step D s op) as [s1 l1]. rewrite IH. destruct (dd_run D s1 r) as [s2 l2]. destruct (dd_run D s2 b) as [s3 l3].
    rewrite app_assoc. reflexivity.
Qed.
Theorem prefix_once (s : dd) (p : option D) (skips1 skips2 : list dop) :
  Forall neutral skips1 -> Forall neutral skips2 ->
  snd (dd_run D s (OpRefPrefix D p :: skips1 ++ OpFrame D :: skips2 ++ [OpFrame D])) = [p; None].
Proof.
  intros H1 H2. cbn [dd_run dd_step].
  rewrite run_app, (neutral_run _ H1). cbn [dd_run dd_step get_ddict dd_uses dd_dict].
  rewrite run_app, (neutral_run _ H2). cbn. reflexivity.
Qed.

(* a dictionary attached with load / ref serves every later frame until it is replaced or the parameters are reset *)
Definition keeps (op : dop) : Prop := op = OpSkippable D \/ op = OpResetSession D \/ op = OpFrame D \/ exists n, op = OpOneShot D n.
Theorem sticky_dict (d : D) (ops : list dop) :
  Forall keeps ops -> forall s : dd, dd_uses D s = UseIndef -> dd_dict D s = Some d ->
  Forall (fun o => o = Some d) (snd (dd_run D s ops)).
Proof.
  induction 1 as [|op r Hop _ IH]; intros s Hu Hd; cbn; [constructor|].
  destruct s as [sd su]; cbn in Hu, Hd; subst.
  destruct Hop as [-> | [-> | [-> | [n ->]]]]; cbn.
  - specialize (IH {| dd_dict := Some d; dd_uses := UseIndef |} eq_refl eq_refl).
    destruct (dd_run D _ r); exact IH.
  - specialize (IH {| dd_dict := Some d; dd_uses := UseIndef |} eq_refl eq_refl).
    destruct (dd_run D _ r); exact IH.
  - specialize (IH {| dd_dict := Some d; dd_uses := UseIndef |} eq_refl eq_refl).
    destruct (dd_run D _ r); cbn in *. constructor; [reflexivity|exact IH].
  - specialize (IH {| dd_dict := Some d; dd_uses := UseIndef |} eq_refl eq_refl).
    destruct (dd_run D _ r); cbn in *. apply Forall_app. split; [|exact IH].
    clear. induction n; cbn; constructor; [reflexivity|assumption].
Qed.
End Proofs.

(* satisfiable / concrete: prefix 7, a skippable frame, a session reset, two frames, then dictionary 9 loaded, a one-shot call
   over two frames, a parameter reset, a frame *)
Example dict_use_example :
  snd (dd_run nat (dd_new nat)
        [OpRefPrefix nat (Some 7); OpSkippable nat; OpResetSession nat; OpFrame nat; OpFrame nat;
         OpLoad nat (Some 9); OpOneShot nat 2; OpSkippable nat; OpFrame nat; OpResetParams nat; OpFrame nat])
  = [Some 7; None; Some 9; Some 9; Some 9; None].
Proof. reflexivity. Qed.
