(* C07 proofs, part 1: after a reset nothing of the history is reachable through the window limits. *)
From Coq Require Import ZArith Bool List Lia.
From ZV.Index Require Import Window Overflow.
From ZV.Det Require Import ResetModel.
Import ListNotations.
Local Open Scope Z_scope.
Ltac Zify.zify_post_hook ::= Z.div_mod_to_equations.
Arguments START : simpl never.
Arguments two32 : simpl never.
Arguments two64 : simpl never.

(* ---------- list helpers ---------- *)
Lemma zero_range_length : forall l lo hi, length (zero_range l lo hi) = length l.
Proof.
  induction l as [|x t IH]; intros lo hi; [reflexivity|].
  destruct hi as [|h]; destruct lo as [|a]; cbn [zero_range length]; try reflexivity; now rewrite IH.
Qed.

Lemma zero_range_nth_lt : forall l lo hi i d, (i < lo)%nat -> nth i (zero_range l lo hi) d = nth i l d.
Proof.
  induction l as [|x t IH]; intros lo hi i d H; [reflexivity|].
  destruct hi as [|h]; destruct lo as [|a]; cbn [zero_range]; try reflexivity; try lia.
  destruct i as [|j]; cbn [nth]; [reflexivity|]. apply IH. lia.
Qed.

Lemma zero_range_nth_mid : forall l lo hi i, (lo <= i < hi)%nat -> (i < length l)%nat -> nth i (zero_range l lo hi) 0 = 0.
Proof.
  induction l as [|x t IH]; intros lo hi i H HL; [cbn in HL; lia|].
  destruct hi as [|h]; [lia|].
  destruct lo as [|a]; cbn [zero_range].
  - destruct i as [|j]; cbn [nth]; [reflexivity|]. apply IH; cbn in HL; lia.
  - destruct i as [|j]; [lia|]. cbn [nth]. apply IH; cbn in HL; lia.
Qed.

Lemma set_nth_length : forall l i v, length (set_nth l i v) = length l.
Proof. induction l as [|x t IH]; intros [|j] v; cbn; auto. Qed.

Lemma set_nth_same : forall l i v d, (i < length l)%nat -> nth i (set_nth l i v) d = v.
Proof. induction l as [|x t IH]; intros [|j] v d H; cbn in *; try lia; auto. apply IH. lia. Qed.

Lemma set_nth_other : forall l i j v d, i <> j -> nth j (set_nth l i v) d = nth j l d.
Proof.
  induction l as [|x t IH]; intros [|i] [|j] v d H; cbn; try reflexivity; try congruence.
  apply IH. congruence.
Qed.

Lemma reduce_first_length : forall n c l, length (reduce_first n c l) = length l.
Proof. induction n as [|k IH]; intros c [|x t]; cbn; auto. Qed.

Lemma reduce_first_nth : forall n c l i, (i < n)%nat -> (i < length l)%nat ->
  nth i (reduce_first n c l) 0 = reduce_cell c (nth i l 0).
Proof.
  induction n as [|k IH]; intros c [|x t] i H HL; cbn in *; try lia.
  destruct i as [|j]; [reflexivity|]. apply IH; lia.
Qed.

(* ---------- constants (regenerated: these facts are re-checked against the current headers) ---------- *)
Lemma START_pos : 0 < START /\ START < two32.
Proof. vm_compute. split; reflexivity. Qed.

Lemma tooclose_bound : u32 (CURRENT_MAX - INDEXOVERFLOW_MARGIN) < two32.
Proof. vm_compute. reflexivity. Qed.

Lemma two32_lt_two64 : two32 < two64. Proof. vm_compute. reflexivity. Qed.

Lemma u64_small : forall x, 0 <= x < two64 -> u64 x = x.
Proof. intros x H. unfold u64. apply Z.mod_small. exact H. Qed.
Lemma u32_small : forall x, 0 <= x < two32 -> u32 x = x.
Proof. intros x H. unfold u32. apply Z.mod_small. exact H. Qed.

(* ---------- window facts ---------- *)
Lemma window_clear_E : forall w, nextSrc (window_clear w) - base (window_clear w) = nextSrc w - base w.
Proof. reflexivity. Qed.

Lemma window_clear_limits : forall w, 0 <= nextSrc w - base w < two32 ->
  lowLimit (window_clear w) = nextSrc w - base w /\ dictLimit (window_clear w) = nextSrc w - base w.
Proof.
  intros w H. unfold window_clear. cbn [lowLimit dictLimit].
  pose proof two32_lt_two64.
  rewrite u64_small by lia. rewrite u32_small by lia. split; reflexivity.
Qed.

Lemma window_init_E : forall lit, nextSrc (window_init lit) - base (window_init lit) = START.
Proof. intros. unfold window_init. cbn [nextSrc base]. lia. Qed.

Lemma not_tooclose_small : forall w, 0 <= nextSrc w - base w < two64 -> indexTooCloseToMax w = false ->
  nextSrc w - base w < two32.
Proof.
  intros w H HC. unfold indexTooCloseToMax in HC. rewrite u64_small in HC by exact H.
  rewrite Z.gtb_ltb in HC. apply Z.ltb_ge in HC. pose proof tooclose_bound. lia.
Qed.

(* ---------- the invariant carried by every history ---------- *)
Definition Inv (m : mstate) : Prop :=
  0 <= E m < two64 /\
  (m_init m = true -> START <= E m) /\
  (forall i, (i < m_valid m)%nat -> 0 <= nth i (m_mem m) 0 < E m) /\
  (m_ntab m <= m_valid m)%nat /\ (m_valid m <= m_buflow m)%nat /\ (m_buflow m <= length (m_mem m))%nat.

Lemma Inv_fresh : Inv m_fresh.
Proof.
  unfold Inv, m_fresh, E; cbn.
  repeat split; try lia; try (vm_compute; reflexivity); try (intros; discriminate); try (intros; lia).
Qed.

(* what a reset produces, split by mode *)
Lemma reset_facts : forall m p, Inv m -> reset_fits m p ->
  let r := reset m p in
  Inv r /\
  m_init r = true /\
  0 <= E r < two32 /\
  lowLimit (m_window r) = E r /\ dictLimit (m_window r) = E r /\ m_nextToUpdate r = E r /\
  m_loadedDictEnd r = 0 /\ m_dms r = false /\ m_litLengthSum r = 0 /\
  m_ntab r = r_ntab p /\ (r_ntab p <= length (m_mem r))%nat /\
  (forall i, (i < r_ntab p)%nat -> 0 <= nth i (m_mem r) 0 < E r).
Proof.
  intros m p (HE & HI & HC & HNV & HVB & HBL) (HF1 & HF2).
  pose proof START_pos as (HS0 & HS1). pose proof two32_lt_two64 as H3264.
  cbn zeta. unfold reset.
  set (doReset := needs_index_reset m p).
  set (mem0 := match r_newmem p with Some l => l | None => m_mem m end) in *.
  set (valid0 := match r_newmem p with Some _ => O | None => m_valid m end).
  set (w0 := if doReset then window_init (r_lit p) else m_window m).
  set (valid1 := if doReset then O else valid0).
  assert (HE0 : 0 <= nextSrc w0 - base w0 < two32 /\ START <= nextSrc w0 - base w0).
  { unfold w0. destruct doReset eqn:HD.
    - rewrite window_init_E. lia.
    - unfold doReset, needs_index_reset in HD.
      apply orb_false_elim in HD as (HD & _). apply orb_false_elim in HD as (HD & HIn).
      apply orb_false_elim in HD as (HD & _). apply negb_false_iff in HIn.
      split; [split; [apply HE | apply not_tooclose_small; [apply HE | exact HD]] | apply HI; exact HIn]. }
  destruct HE0 as (HE0 & HE0S).
  pose proof (window_clear_limits w0 HE0) as (HLL & HDL).
  assert (Hcells : forall i, (i < r_ntab p)%nat ->
            0 <= nth i (zero_range mem0 valid1 (r_ntab p)) 0 < nextSrc w0 - base w0).
  { intros i Hi. destruct (Nat.lt_ge_cases i valid1) as [Hlt|Hge].
    - rewrite zero_range_nth_lt by exact Hlt.
      unfold valid1 in Hlt. destruct doReset eqn:HD; [lia|].
      unfold doReset, needs_index_reset in HD.
      apply orb_false_elim in HD as (_ & HN).
      unfold valid0 in Hlt. unfold mem0, w0. destruct (r_newmem p); [discriminate HN|].
      apply HC. exact Hlt.
    - rewrite zero_range_nth_mid; [lia | lia | unfold mem0 in *; lia]. }
  assert (Hcells2 : forall i, (i < Nat.min (Nat.max valid1 (r_ntab p)) (r_buflow p))%nat ->
            0 <= nth i (zero_range mem0 valid1 (r_ntab p)) 0 < nextSrc w0 - base w0).
  { intros i Hi. destruct (Nat.lt_ge_cases i (r_ntab p)) as [Hlt|Hge]; [apply Hcells; exact Hlt|].
    assert (Hiv : (i < valid1)%nat) by lia.
    rewrite zero_range_nth_lt by exact Hiv.
    unfold valid1 in Hiv. destruct doReset eqn:HD; [lia|].
    unfold doReset, needs_index_reset in HD. apply orb_false_elim in HD as (_ & HN).
    unfold valid0 in Hiv. unfold mem0, w0. destruct (r_newmem p); [discriminate HN|].
    apply HC. exact Hiv. }
  unfold Inv, E. cbn [m_window m_init m_mem m_valid m_ntab m_buflow m_nextToUpdate m_loadedDictEnd m_dms m_litLengthSum].
  rewrite !window_clear_E, HLL, HDL, zero_range_length.
  repeat split; try lia; try (intros; apply Hcells2; assumption); try (intros; apply Hcells; assumption).
  all: unfold mem0 in *; try lia.
Qed.

Ltac inv_split := split; [|split; [|split; [|split; [|split]]]].

Lemma hstep_Inv : forall m o, Inv m -> wf_op m o -> Inv (hstep m o).
Proof.
  intros m o HI HW. destruct o as [p|n|low dict|i v|i v|v|e|s|c]; cbn [hstep wf_op] in *.
  - apply (reset_facts m p HI HW).
  - destruct HI as (HE & HIn & HC & HNV & HVB & HBL). destruct HW as (Hn & Hb).
    unfold Inv, E in *; cbn. inv_split; try assumption.
    + lia.
    + intros Hi. specialize (HIn Hi). lia.
    + intros j Hj. specialize (HC j Hj). lia.
  - destruct HI as (HE & HIn & HC & HNV & HVB & HBL). unfold Inv, E in *; cbn. inv_split; assumption.
  - destruct HI as (HE & HIn & HC & HNV & HVB & HBL). destruct HW as (Hi & Hv).
    unfold Inv, E in *; cbn. rewrite set_nth_length. inv_split; try assumption.
    intros j Hj. destruct (Nat.eq_dec i j) as [->|Hne].
    + rewrite set_nth_same by lia. lia.
    + rewrite set_nth_other by exact Hne. apply HC; exact Hj.
  - destruct HI as (HE & HIn & HC & HNV & HVB & HBL).
    unfold Inv, E in *; cbn. rewrite set_nth_length. inv_split; try assumption.
    intros j Hj. rewrite set_nth_other by lia. apply HC; exact Hj.
  - exact HI.
  - exact HI.
  - exact HI.
  - destruct HI as (HE & HIn & HC & HNV & HVB & HBL). destruct HW as (Hc0 & Hc1).
    pose proof START_pos as (HS0 & HS1).
    unfold Inv, E in *; cbn. rewrite reduce_first_length. inv_split; try lia.
    intros j Hj. rewrite reduce_first_nth by lia. specialize (HC j ltac:(lia)).
    unfold reduce_cell. destruct (nth j (m_mem m) 0 <? c + START) eqn:Hlt; [lia|]. apply Z.ltb_ge in Hlt. lia.
Qed.

Lemma run_Inv : forall ops m, Inv m -> run_wf m ops -> Inv (run m ops).
Proof.
  induction ops as [|o t IH]; intros m HI HW; [exact HI|].
  destruct HW as (H1 & H2). cbn [run fold_left]. apply IH; [apply hstep_Inv; assumption | exact H2].
Qed.

(* ---------- observational equality with a fresh context ---------- *)
Lemma visible_below : forall low v, v < low -> visible_cell low v = None.
Proof. intros low v H. unfold visible_cell. destruct (low <=? v) eqn:HH; [apply Z.leb_le in HH; lia | reflexivity]. Qed.

Lemma map_all_none : forall low l, (forall v, In v l -> v < low) -> map (visible_cell low) l = repeat None (length l).
Proof.
  induction l as [|x t IH]; intros H; [reflexivity|]. cbn.
  rewrite visible_below by (apply H; left; reflexivity). f_equal. apply IH. intros v Hv. apply H. right. exact Hv.
Qed.

Lemma in_firstn_nth : forall (l : list Z) n v, In v (firstn n l) -> exists i, (i < n)%nat /\ (i < length l)%nat /\ nth i l 0 = v.
Proof.
  induction l as [|x t IH]; intros [|n] v H; cbn in H; try contradiction.
  destruct H as [->|H].
  - exists O. cbn. split; [lia | split; [lia | reflexivity]].
  - destruct (IH n v H) as (i & Hi & HL & HN). exists (S i). cbn. split; [lia | split; [lia | exact HN]].
Qed.

Lemma observe_reset : forall m p, Inv m -> reset_fits m p ->
  observe (reset m p) = mkObs (repeat None (r_ntab p)) 0 0 0 0 false true.
Proof.
  intros m p HI HF. pose proof (reset_facts m p HI HF) as H. cbn zeta in H.
  destruct H as (_ & _ & HEr & HLL & HDL & HNTU & HLDE & HDMS & HLLS & HNT & HLEN & HCELLS).
  unfold observe. rewrite HLL, HDL, HNTU, HLDE, HDMS, HLLS.
  f_equal; try lia.
  unfold tables. rewrite HNT.
  rewrite map_all_none.
  - rewrite firstn_length. f_equal. lia.
  - intros v Hv. apply in_firstn_nth in Hv as (i & Hi & _ & Hn). subst v. apply HCELLS. exact Hi.
Qed.

Lemma fresh_fits : forall p mem0, (r_ntab p <= r_buflow p)%nat -> (r_buflow p <= length mem0)%nat ->
  reset_fits m_fresh (fresh_params p mem0).
Proof. intros p mem0 H1 H2. unfold reset_fits, fresh_params; cbn. split; assumption. Qed.

(* MAIN THEOREM.  For every well-formed history of a context (any frames, parameters, aborted frames, overflow
   corrections, buffer garbage) and every reset that follows:
   (a) the window limits sit exactly at the end index, nextToUpdate too, no dictionary, no opt statistics;
   (b) no table cell holds a value >= lowLimit: the set of entries a finder may dereference is empty;
   (c) the context is observationally equal to a brand-new context (whatever garbage its workspace holds)
       reset with the same parameters. *)
Theorem reset_unreachable : forall ops p,
  run_wf m_fresh ops -> reset_fits (run m_fresh ops) p ->
  let r := reset (run m_fresh ops) p in
  (lowLimit (m_window r) = E r /\ dictLimit (m_window r) = E r /\ m_nextToUpdate r = E r /\
   m_loadedDictEnd r = 0 /\ m_dms r = false /\ m_litLengthSum r = 0) /\
  (forall v, In v (tables r) -> 0 <= v < lowLimit (m_window r)) /\
  (forall mem0, (r_buflow p <= length mem0)%nat -> observe r = observe (reset m_fresh (fresh_params p mem0))).
Proof.
  intros ops p HW HF. cbn zeta.
  pose proof (run_Inv ops m_fresh Inv_fresh HW) as HI.
  pose proof (reset_facts _ p HI HF) as H. cbn zeta in H.
  destruct H as (_ & _ & HEr & HLL & HDL & HNTU & HLDE & HDMS & HLLS & HNT & HLEN & HCELLS).
  split; [repeat split; assumption|]. split.
  - intros v Hv. unfold tables in Hv. rewrite HNT in Hv.
    apply in_firstn_nth in Hv as (i & Hi & _ & Hn). subst v. rewrite HLL. apply HCELLS. exact Hi.
  - intros mem0 Hm. rewrite (observe_reset _ p HI HF).
    destruct HF as (HF1 & HF2).
    rewrite (observe_reset m_fresh (fresh_params p mem0) Inv_fresh (fresh_fits p mem0 HF1 Hm)).
    reflexivity.
Qed.

(* the index-reset policy: a re-created workspace, a never-used context, an index too close to the maximum or a
   dictionary too big for one load all restart the indices at ZSTD_WINDOW_START_INDEX over zeroed tables *)
Theorem reset_mode_restarts : forall m p, needs_index_reset m p = true -> reset_fits m p ->
  let r := reset m p in
  E r = START /\ lowLimit (m_window r) = START /\ (forall v, In v (tables r) -> v = 0).
Proof.
  intros m p HD (HF1 & HF2). cbn zeta. unfold reset. rewrite HD. unfold E. cbn [m_window m_mem m_ntab tables].
  rewrite window_clear_E, window_init_E.
  pose proof START_pos as (HS0 & HS1).
  assert (H0 : 0 <= nextSrc (window_init (r_lit p)) - base (window_init (r_lit p)) < two32) by (rewrite window_init_E; lia).
  pose proof (window_clear_limits _ H0) as (HLL & _). rewrite HLL, window_init_E.
  repeat split; try reflexivity.
  intros v Hv. unfold tables in Hv. cbn [m_ntab m_mem] in Hv.
  apply in_firstn_nth in Hv as (i & Hi & HL & Hn). subst v.
  rewrite zero_range_length in HL. apply zero_range_nth_mid; lia.
Qed.

(* satisfiability of the hypotheses: a concrete history *)
Example history_example :
  let p := mkR (Some [7; 7; 7; 7; 7; 7]) 0 4 5 1000 true in
  let q := mkR None 0 3 6 1000 false in
  let ops := [HReset p; HFeed 100; HInsert 1 57; HInsert 3 99; HJunk 5 4000000000; HLimits 40 40; HReset q; HFeed 10; HInsert 0 103] in
  run_wf m_fresh ops /\ tables (run m_fresh ops) = [103; 57; 0] /\ lowLimit (m_window (run m_fresh ops)) = 102.
Proof. cbn zeta. vm_compute. repeat split; try reflexivity; try lia; intros; discriminate. Qed.
