(* C07 model, part 3: the salted hash and the tag rows of the row-based match finder.
   Source: lib/compress/zstd_compress_internal.h ZSTD_hash4..8 / ZSTD_hashPtrSalted (the salt is XOR-ed AFTER the
           multiplicative mix, BEFORE the shift), lib/compress/zstd_lazy.c ZSTD_row_nextIndex (circular head),
           ZSTD_row_getMatchMask (rotation by head), the candidate loop of ZSTD_RowFindBestMatch
           ("if (matchPos == 0) continue; if (matchIndex < lowLimit) break;").
   NO proofs in this file.

   A row is modelled in ITERATION ORDER: the slots as ZSTD_RowFindBestMatch visits them, starting at the head
   (= the most recently inserted slot) and walking towards older slots, slot 0 (the head byte itself) removed.
   An insertion (ZSTD_row_nextIndex: head moves one slot backwards, the new entry is written there) puts the
   new entry in front and overwrites the slot that was last in iteration order.  Whatever the tag table held
   before (garbage of an earlier compression, or zeros) is the tail of the list. *)
From Coq Require Import NArith ZArith Bool List.
Import ListNotations.

(* ---------- salted hash: (mix ^ salt) >> (w - hBits), then row = hash >> TAG_BITS, tag = hash & TAG_MASK ---------- *)
Local Open Scope N_scope.
Definition TAG_BITS : N := 8.

(* [mixed] is (u * prime) mod 2^w, w = 32 (minMatch 4) or 64 (minMatch 5..8); [salt] is the (truncated) hashSalt *)
Definition hashS (w hBits mixed salt : N) : N := N.shiftr (N.lxor mixed (salt mod 2 ^ w)) (w - hBits).
Definition row_of (h : N) : N := N.shiftr h TAG_BITS.
Definition tag_of (h : N) : N := N.land h (2 ^ TAG_BITS - 1).

(* the relabelling constants of a salt *)
Definition salt_row (w hBits salt : N) : N := row_of (hashS w hBits 0 salt).
Definition salt_tag (w hBits salt : N) : N := tag_of (hashS w hBits 0 salt).

(* ---------- rows ---------- *)
Local Open Scope Z_scope.
Definition slot : Type := (N * Z)%type.           (* (tag byte, stored index) *)

(* the candidate loop of ZSTD_RowFindBestMatch: slots whose tag matches, newest first, at most [attempts],
   stop at the first index below lowLimit *)
Fixpoint candidates (tag : N) (low : Z) (attempts : nat) (r : list slot) : list Z :=
  match r with
  | [] => []
  | (t, i) :: r' =>
      match attempts with
      | O => []
      | S a => if N.eqb t tag then (if i <? low then [] else i :: candidates tag low a r')
               else candidates tag low attempts r'
      end
  end.

(* insertion of (tag, idx): new head; the oldest slot is overwritten *)
Definition row_insert (e : slot) (r : list slot) : list slot := e :: removelast r.

(* a row that received the entries [es] (oldest first) on top of an initial content *)
Definition row_after (init : list slot) (es : list slot) : list slot := fold_left (fun r e => row_insert e r) es init.
