(* C07 model, part 2: the cleanliness watermark of the compression workspace.
   Source: lib/compress/zstd_cwksp.h  (ZSTD_cwksp_init / clear / clear_tables / reserve_object / reserve_table /
           reserve_internal_buffer_space / internal_advance_phase / reserve_buffer / reserve_aligned64 /
           reserve_aligned_init_once / mark_tables_dirty / mark_tables_clean / clean_tables).
   Pointers are absolute byte addresses in Z (alignment computations use the real address).  The content of the
   workspace is a ghost map address -> cell kind:
     Uninit : never written since the workspace was obtained (malloc / caller memory)
     Zero   : written by a memset of the allocator (clean_tables, init_once)
     Idx    : written through a reserved table by a match finder (a bounded index: Det/ResetModel.v)
     Junk   : written by any other user (sequences, literals, opt tables, stream buffers, tag bytes ...)
   NO proofs in this file.  Out-of-order operations (the asserts of the C code) are no-ops: [op_ok]. *)
From Coq Require Import ZArith Bool List.
From ZV.Gen Require Import Gen_Sizes.
Import ListNotations.
Local Open Scope Z_scope.

Definition ALIGN : Z := Z.of_N c_ZSTD_CWKSP_ALIGNMENT_BYTES.   (* 64 *)
Definition PTRSZ : Z := Z.of_N sizeof_size_t.

Inductive cell : Type := Uninit | Zero | Idx | Junk.

(* ZSTD_cwksp_alloc_phase_e *)
Definition ph_objects : Z := 0.
Definition ph_init_once : Z := 1.
Definition ph_aligned : Z := 2.
Definition ph_buffers : Z := 3.

Record ws : Type := mkWs {
  w_start : Z;  w_end : Z;
  objectEnd : Z; tableEnd : Z; tableValidEnd : Z; allocStart : Z; initOnceStart : Z;
  allocFailed : bool; phase : Z;
  mem : Z -> cell
}.

Definition align_up (x a : Z) : Z := ((x + (a - 1)) / a) * a.                 (* ZSTD_cwksp_align *)
Definition bytes_to_align (p a : Z) : Z := (a - p mod a) mod a.                (* ZSTD_cwksp_bytes_to_align_ptr *)
Definition ias (e : Z) : Z := e - e mod ALIGN.
Definition initialAllocStart (w : ws) : Z := ias (w_end w).                    (* ZSTD_cwksp_initialAllocStart *)

Definition write (m : Z -> cell) (lo hi : Z) (c : cell) : Z -> cell :=
  fun a => if (lo <=? a) && (a <? hi) then c else m a.

(* ZSTD_cwksp_clear *)
Definition ws_clear (w : ws) : ws :=
  mkWs (w_start w) (w_end w) (objectEnd w) (objectEnd w) (tableValidEnd w) (initialAllocStart w) (initOnceStart w)
       false (if phase w >? ph_init_once then ph_init_once else phase w) (mem w).

(* ZSTD_cwksp_init on memory [start, start+size) whose content is unknown *)
Definition ws_init (start size : Z) : ws :=
  let w0 := mkWs start (start + size) start start start 0 0 false ph_objects (fun _ => Uninit) in
  let w1 := mkWs start (start + size) start start start 0 (initialAllocStart w0) false ph_objects (fun _ => Uninit) in
  ws_clear w1.

(* ZSTD_cwksp_reserve_object *)
Definition reserve_object (w : ws) (bytes : Z) : ws * option Z :=
  let rounded := align_up bytes PTRSZ in
  let alloc := objectEnd w in
  let e := alloc + rounded in
  if negb (phase w =? ph_objects) || (e >? w_end w) then
    (mkWs (w_start w) (w_end w) (objectEnd w) (tableEnd w) (tableValidEnd w) (allocStart w) (initOnceStart w)
          true (phase w) (mem w), None)
  else
    (mkWs (w_start w) (w_end w) e e e (allocStart w) (initOnceStart w) (allocFailed w) (phase w) (mem w), Some alloc).

(* ZSTD_cwksp_internal_advance_phase; returns None on the error path *)
Definition advance_phase (w : ws) (ph : Z) : option ws :=
  if ph >? phase w then
    if (phase w <? ph_init_once) && (ph >=? ph_init_once) then
      let tve := objectEnd w in
      let ios := initialAllocStart w in
      let oe := objectEnd w + bytes_to_align (objectEnd w) ALIGN in
      if oe >? w_end w then None
      else Some (mkWs (w_start w) (w_end w) oe oe (if tve <? oe then oe else tve) (allocStart w) ios
                      (allocFailed w) ph (mem w))
    else Some (mkWs (w_start w) (w_end w) (objectEnd w) (tableEnd w) (tableValidEnd w) (allocStart w) (initOnceStart w)
                    (allocFailed w) ph (mem w))
  else Some w.

(* ZSTD_cwksp_reserve_internal_buffer_space *)
Definition reserve_buffer_space (w : ws) (bytes : Z) : ws * option Z :=
  let alloc := allocStart w - bytes in
  if alloc <? tableEnd w then
    (mkWs (w_start w) (w_end w) (objectEnd w) (tableEnd w) (tableValidEnd w) (allocStart w) (initOnceStart w)
          true (phase w) (mem w), None)
  else
    (mkWs (w_start w) (w_end w) (objectEnd w) (tableEnd w)
          (if alloc <? tableValidEnd w then alloc else tableValidEnd w) alloc (initOnceStart w)
          (allocFailed w) (phase w) (mem w), Some alloc).

(* ZSTD_cwksp_reserve_internal *)
Definition reserve_internal (w : ws) (bytes ph : Z) : ws * option Z :=
  match advance_phase w ph with
  | None => (w, None)
  | Some w1 => if bytes =? 0 then (w1, None) else reserve_buffer_space w1 bytes
  end.

Definition reserve_buffer (w : ws) (bytes : Z) := reserve_internal w bytes ph_buffers.
Definition reserve_aligned64 (w : ws) (bytes : Z) := reserve_internal w (align_up bytes ALIGN) ph_aligned.

(* ZSTD_cwksp_reserve_aligned_init_once *)
Definition reserve_init_once (w : ws) (bytes : Z) : ws * option Z :=
  let ab := align_up bytes ALIGN in
  let '(w1, r) := reserve_internal w ab ph_init_once in
  match r with
  | Some ptr =>
      if ptr <? initOnceStart w1 then
        let n := Z.min (initOnceStart w1 - ptr) ab in
        (mkWs (w_start w1) (w_end w1) (objectEnd w1) (tableEnd w1) (tableValidEnd w1) (allocStart w1) ptr
              (allocFailed w1) (phase w1) (write (mem w1) ptr (ptr + n) Zero), Some ptr)
      else (w1, Some ptr)
  | None => (w1, None)
  end.

(* ZSTD_cwksp_reserve_table *)
Definition reserve_table (w : ws) (bytes : Z) : ws * option Z :=
  match (if phase w <? ph_init_once then advance_phase w ph_init_once else Some w) with
  | None => (w, None)
  | Some w1 =>
      let alloc := tableEnd w1 in
      let e := alloc + bytes in
      if e >? allocStart w1 then
        (mkWs (w_start w1) (w_end w1) (objectEnd w1) (tableEnd w1) (tableValidEnd w1) (allocStart w1) (initOnceStart w1)
              true (phase w1) (mem w1), None)
      else
        (mkWs (w_start w1) (w_end w1) (objectEnd w1) e (tableValidEnd w1) (allocStart w1) (initOnceStart w1)
              (allocFailed w1) (phase w1) (mem w1), Some alloc)
  end.

(* ZSTD_cwksp_mark_tables_dirty / mark_tables_clean / clean_tables / clear_tables *)
Definition mark_tables_dirty (w : ws) : ws :=
  mkWs (w_start w) (w_end w) (objectEnd w) (tableEnd w) (objectEnd w) (allocStart w) (initOnceStart w)
       (allocFailed w) (phase w) (mem w).
Definition mark_tables_clean (w : ws) : ws :=
  mkWs (w_start w) (w_end w) (objectEnd w) (tableEnd w)
       (if tableValidEnd w <? tableEnd w then tableEnd w else tableValidEnd w) (allocStart w) (initOnceStart w)
       (allocFailed w) (phase w) (mem w).
Definition clean_tables (w : ws) : ws :=
  let m := if tableValidEnd w <? tableEnd w then write (mem w) (tableValidEnd w) (tableEnd w) Zero else mem w in
  mark_tables_clean (mkWs (w_start w) (w_end w) (objectEnd w) (tableEnd w) (tableValidEnd w) (allocStart w)
                          (initOnceStart w) (allocFailed w) (phase w) m).
Definition clear_tables (w : ws) : ws :=
  mkWs (w_start w) (w_end w) (objectEnd w) (objectEnd w) (tableValidEnd w) (allocStart w) (initOnceStart w)
       (allocFailed w) (phase w) (mem w).

(* ---------- operations of a workspace user ---------- *)
Inductive wop : Type :=
| WInit (start size : Z)        (* ZSTD_cwksp_init / create: a new workspace (resize = free + create) *)
| WObject (n : Z)
| WTable (n : Z)
| WBuffer (n : Z)
| WAligned (n : Z)
| WInitOnce (n : Z)
| WMarkDirty
| WCleanTables
| WClearTables
| WClear
| WCopyTables                   (* ZSTD_resetCCtx_byCopyingCDict: every reserved table cell is overwritten from the
                                   CDict tables (hash3 zeroed), then ZSTD_cwksp_mark_tables_clean *)
| WWriteTable (a : Z)           (* a finder stores an index at address a of a reserved table *)
| WWriteOther (a : Z).          (* anybody else writes at address a of the aligned / buffer area *)

(* ZSTD_cwksp_assert_internal_consistency at the end of ZSTD_cwksp_internal_advance_phase: the aligned start of
   the table area must not run into the top allocations *)
Definition table_phase_ok (w : ws) : bool :=
  (phase w >? ph_objects) || (objectEnd w + bytes_to_align (objectEnd w) ALIGN <=? allocStart w).

(* the asserts of the C code: what a call must satisfy to be meaningful; anything else is a no-op in the model *)
Definition op_ok (w : ws) (o : wop) : bool :=
  match o with
  | WInit start size => (0 <=? start) && (0 <=? size) && (start mod PTRSZ =? 0) && (start <=? ias (start + size))
  | WObject n => (0 <=? n) && (objectEnd w + align_up n PTRSZ <=? allocStart w)
  | WTable n => (0 <=? n) && (n mod ALIGN =? 0) && table_phase_ok w   (* assert((bytes & (ALIGNMENT-1)) == 0) *)
  | WBuffer n => (0 <=? n) && table_phase_ok w
  | WAligned n => (0 <=? n) && (phase w <=? ph_aligned) && table_phase_ok w     (* assert(phase >= ws->phase) *)
  | WInitOnce n => (0 <=? n) && (phase w <=? ph_init_once) && table_phase_ok w
  | WWriteTable a => (objectEnd w <=? a) && (a <? tableEnd w)
  | WWriteOther a => (allocStart w <=? a) && (a <? w_end w)
  | _ => true
  end.

Definition wstep (w : ws) (o : wop) : ws :=
  if negb (op_ok w o) then w else
  match o with
  | WInit start size => ws_init start size
  | WObject n => fst (reserve_object w n)
  | WTable n => fst (reserve_table w n)
  | WBuffer n => fst (reserve_buffer w n)
  | WAligned n => fst (reserve_aligned64 w n)
  | WInitOnce n => fst (reserve_init_once w n)
  | WMarkDirty => mark_tables_dirty w
  | WCleanTables => clean_tables w
  | WClearTables => clear_tables w
  | WClear => ws_clear w
  | WCopyTables =>
      mark_tables_clean (mkWs (w_start w) (w_end w) (objectEnd w) (tableEnd w) (tableValidEnd w) (allocStart w)
                              (initOnceStart w) (allocFailed w) (phase w)
                              (write (mem w) (objectEnd w) (tableEnd w) Idx))
  | WWriteTable a =>
      mkWs (w_start w) (w_end w) (objectEnd w) (tableEnd w) (tableValidEnd w) (allocStart w) (initOnceStart w)
           (allocFailed w) (phase w) (write (mem w) a (a + 1) Idx)
  | WWriteOther a =>
      mkWs (w_start w) (w_end w) (objectEnd w) (tableEnd w) (tableValidEnd w) (allocStart w) (initOnceStart w)
           (allocFailed w) (phase w) (write (mem w) a (a + 1) Junk)
  end.

Definition wrun (w : ws) (ops : list wop) : ws := fold_left wstep ops w.

(* a cell a table user may be handed without clearing it *)
Definition clean_cell (c : cell) : bool := match c with Zero | Idx => true | _ => false end.
Definition defined_cell (c : cell) : bool := match c with Uninit => false | _ => true end.

(* the pointer fields, for the lock-step with the real struct (offsets from w_start, plus the flags) *)
Definition ws_fields (w : ws) : list Z :=
  [objectEnd w - w_start w; tableEnd w - w_start w; tableValidEnd w - w_start w; allocStart w - w_start w;
   initOnceStart w - w_start w; phase w; if allocFailed w then 1 else 0].

(* the reservation sequence of ZSTD_resetCCtx_internal as far as the watermark is concerned:
   [resized] -> a new workspace of [newSize] bytes at [newStart] and the three objects; then clear, (mark dirty),
   clear_tables, the three tables, clean_tables, the tag table (init once), everything else from the top. *)
Definition reset_ops (resized : bool) (newStart newSize : Z) (objs : list Z) (indexReset : bool)
           (t1 t2 t3 : Z) (tagBytes : Z) (alignedBytes bufferBytes : Z) : list wop :=
  (if resized then WInit newStart newSize :: map WObject objs else []) ++
  [WClear] ++ (if indexReset then [WMarkDirty] else []) ++
  [WClearTables; WTable t1; WTable t2; WTable t3; WCleanTables] ++
  (if tagBytes =? 0 then [] else [WInitOnce tagBytes]) ++
  (if alignedBytes =? 0 then [] else [WAligned alignedBytes]) ++
  (if bufferBytes =? 0 then [] else [WBuffer bufferBytes]).
