(* C07, round 2: where the caller put the input relative to what the window already holds (a dictionary / prefix, or
   the previous block of ZSTD_compressContinue).  Model: Index/Window.v, ZSTD_window_update exactly as
   ZSTD_loadDictionaryContent and ZSTD_compressContinue_internal call it (forceNonContiguous = ms->forceNonContiguous,
   set from ZSTD_c_deterministicRefPrefix).  The match finders see the window only through
   (dictLimit, lowLimit, index of the first input byte, hasExtDict). *)
From Coq Require Import ZArith Bool List Lia.
From ZV.Index Require Import Window.
Import ListNotations.
Local Open Scope Z_scope.

(* what a finder can tell about the window when the block at address [src] starts *)
Definition geom (w : window) (src : Z) : Z * Z * Z * bool :=
  (dictLimit w, lowLimit w, idx w src, window_hasExtDict w).

(* the new input [src, src+m) does not overlap the segment that becomes the extDict: the C code tests exactly this
   (after the switch, dictBase = old base, dictLimit = old end index) before it shrinks lowLimit *)
Definition clear_of_old_segment (w : window) (src m : Z) : Prop :=
  let dl := u32 (u64 (nextSrc w - base w)) in
  let low' := if u32 (dl - dictLimit w) <? HASH_READ_SIZE then dl else dictLimit w in
  (src + m >? base w + low') && (src <? base w + dl) = false.

Lemma forced_update : forall w src m, m <> 0 -> clear_of_old_segment w src m ->
  let dist := u64 (nextSrc w - base w) in
  let dl := u32 dist in
  let low' := if u32 (dl - dictLimit w) <? HASH_READ_SIZE then dl else dictLimit w in
  fst (window_update w src m true) = mkWindow (src + m) (src - dist) (base w) dl low' (nbOvf w).
Proof.
  intros w src m Hm Hc. unfold window_update.
  replace (m =? 0) with false by (symmetry; apply Z.eqb_neq; exact Hm).
  rewrite orb_true_r. cbv zeta. unfold set_nextSrc, set_low. simpl.
  unfold clear_of_old_segment in Hc. cbv zeta in Hc. rewrite Hc. reflexivity.
Qed.

Theorem forced_noncontiguous_ignores_placement : forall w s1 s2 m, m <> 0 ->
  clear_of_old_segment w s1 m -> clear_of_old_segment w s2 m ->
  geom (fst (window_update w s1 m true)) s1 = geom (fst (window_update w s2 m true)) s2.
Proof.
  intros w s1 s2 m Hm H1 H2.
  rewrite (forced_update w s1 m Hm H1), (forced_update w s2 m Hm H2).
  unfold geom, idx, window_hasExtDict; simpl.
  replace (s1 - (s1 - u64 (nextSrc w - base w))) with (u64 (nextSrc w - base w)) by lia.
  replace (s2 - (s2 - u64 (nextSrc w - base w))) with (u64 (nextSrc w - base w)) by lia.
  reflexivity.
Qed.

(* the recorded finding dict-contiguous-with-src: a 1000-byte dictionary at address 5000 in a fresh window; the same
   input placed right behind it (address 6000) or elsewhere (address 9000), without the switch: prefix vs extDict *)
Definition w_dict : window := fst (window_update (window_init 100) 5000 1000 false).
Theorem placement_matters_without_the_switch :
  geom (fst (window_update w_dict 6000 500 false)) 6000 <> geom (fst (window_update w_dict 9000 500 false)) 9000 /\
  geom (fst (window_update w_dict 6000 500 true)) 6000 = geom (fst (window_update w_dict 9000 500 true)) 9000.
Proof. split; vm_compute; [intro H; discriminate H | reflexivity]. Qed.
