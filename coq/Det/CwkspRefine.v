(* C07 proofs, part 2b: the byte-level workspace model (Det/CwkspClean.v) computes, through the reservation sequence
   of ZSTD_resetCCtx_internal, exactly the watermark that the cell-level reset model (Det/ResetModel.v, [reset]:
   valid3 = min (max valid1 ntab) buflow) assumes:
     index reset      : tableValidEnd = tableEnd after clean_tables               (valid1 = 0,      max 0 ntab = ntab)
     continue mode    : tableValidEnd = max (old tableValidEnd) tableEnd           (valid1 = valid0)
     top reservations : tableValidEnd = min (that) allocStart, tables untouched    (min .. buflow)                      *)
From Coq Require Import ZArith Bool List Lia.
From ZV.Gen Require Import Gen_Sizes.
From ZV.Det Require Import CwkspClean CwkspProofs.
Import ListNotations.
Local Open Scope Z_scope.

Definition table_seq (ir : bool) (t1 t2 t3 : Z) : list wop :=
  [WClear] ++ (if ir then [WMarkDirty] else []) ++ [WClearTables; WTable t1; WTable t2; WTable t3; WCleanTables].

Definition is_top (o : wop) : bool :=
  match o with WInitOnce _ | WAligned _ | WBuffer _ => true | _ => false end.

(* ---------- one reserve_table ---------- *)
(* in the table phase: only tableEnd moves (up) *)
Lemma wtable_phase1 : forall w n, 1 <= phase w ->
  let w' := wstep w (WTable n) in
  objectEnd w' = objectEnd w /\ tableValidEnd w' = tableValidEnd w /\ allocStart w' = allocStart w /\
  phase w' = phase w /\ tableEnd w <= tableEnd w'.
Proof.
  intros w n Hph. cbn zeta. unfold wstep.
  destruct (op_ok w (WTable n)) eqn:HOK; cbn [negb]; [|repeat split; lia].
  cbn [op_ok] in HOK. apply andb_split in HOK as (HOK & _). apply andb_split in HOK as (H1 & _). apply Z.leb_le in H1.
  unfold reserve_table, ph_init_once.
  replace (phase w <? 1) with false by (symmetry; apply Z.ltb_ge; lia).
  destruct (tableEnd w + n >? allocStart w); cbn [fst]; proj; repeat split; lia.
Qed.

(* whatever the phase: if the watermark sits at objectEnd before, it sits at (the possibly aligned) objectEnd after *)
Lemma wtable_dirty : forall w n, WInv w -> tableValidEnd w = objectEnd w ->
  let w' := wstep w (WTable n) in
  tableValidEnd w' = objectEnd w' /\ objectEnd w <= objectEnd w'.
Proof.
  intros w n HI Htve. cbn zeta. unfold wstep.
  destruct (op_ok w (WTable n)) eqn:HOK; cbn [negb]; [|split; [exact Htve | lia]].
  unfold reserve_table, ph_init_once.
  destruct (phase w <? 1) eqn:HP.
  - apply Z.ltb_lt in HP. unfold advance_phase, ph_init_once.
    replace (1 >? phase w) with true by (symmetry; rewrite Z.gtb_ltb; apply Z.ltb_lt; lia).
    replace (phase w <? 1) with true by (symmetry; apply Z.ltb_lt; lia).
    change (1 >=? 1) with true. cbn [andb].
    pose proof (bytes_to_align_nonneg (objectEnd w) ALIGN ltac:(rewrite ALIGN_val; lia)) as HB.
    destruct (objectEnd w + bytes_to_align (objectEnd w) ALIGN >? w_end w); cbn [fst]; [split; [exact Htve | lia]|].
    match goal with |- context [if ?c then (?a, None) else (?b, Some _)] => destruct c end; cbn [fst]; proj;
      (split; [|lia]);
      destruct (objectEnd w <? objectEnd w + bytes_to_align (objectEnd w) ALIGN) eqn:E;
      try (apply Z.ltb_ge in E); lia.
  - destruct (tableEnd w + n >? allocStart w); cbn [fst]; proj; split; try exact Htve; lia.
Qed.

Lemma wrun_app : forall a b w, wrun w (a ++ b) = wrun (wrun w a) b.
Proof. intros. unfold wrun. apply fold_left_app. Qed.

(* ---------- index-reset mode ---------- *)
Theorem watermark_after_index_reset : forall w t1 t2 t3, WInv w ->
  let w1 := wrun w (table_seq true t1 t2 t3) in
  tableValidEnd w1 = tableEnd w1.
Proof.
  intros w t1 t2 t3 HI. cbn zeta. unfold table_seq. cbn [app wrun fold_left].
  set (wa := wstep (wstep (wstep w WClear) WMarkDirty) WClearTables).
  assert (HIa : WInv wa) by (unfold wa; repeat apply wstep_inv; exact HI).
  assert (Ha : tableValidEnd wa = objectEnd wa) by (unfold wa, wstep; cbn [op_ok negb]; reflexivity).
  destruct (wtable_dirty wa t1 HIa Ha) as (Hb & _).
  set (wb := wstep wa (WTable t1)) in *. assert (HIb : WInv wb) by (apply wstep_inv; exact HIa).
  destruct (wtable_dirty wb t2 HIb Hb) as (Hc & _).
  set (wc := wstep wb (WTable t2)) in *. assert (HIc : WInv wc) by (apply wstep_inv; exact HIb).
  destruct (wtable_dirty wc t3 HIc Hc) as (Hd & _).
  set (wd := wstep wc (WTable t3)) in *. assert (HId : WInv wd) by (apply wstep_inv; exact HIc).
  unfold wstep. cbn [op_ok negb]. unfold clean_tables, mark_tables_clean. proj.
  pose proof HId as [ ].
  destruct (tableValidEnd wd <? tableEnd wd) eqn:E; [reflexivity|]. apply Z.ltb_ge in E. lia.
Qed.

(* ---------- continue mode (the workspace has been through a reset before: table phase) ---------- *)
Theorem watermark_after_continue_reset : forall w t1 t2 t3, WInv w -> 1 <= phase w ->
  let w1 := wrun w (table_seq false t1 t2 t3) in
  tableValidEnd w1 = Z.max (tableValidEnd w) (tableEnd w1) /\ objectEnd w1 = objectEnd w /\ phase w1 = 1.
Proof.
  intros w t1 t2 t3 HI Hph. cbn zeta. unfold table_seq. cbn [app wrun fold_left].
  set (wa := wstep (wstep w WClear) WClearTables).
  assert (Ha : objectEnd wa = objectEnd w /\ tableValidEnd wa = tableValidEnd w /\ phase wa = 1 /\ tableEnd wa = objectEnd w).
  { unfold wa, wstep; cbn [op_ok negb]. unfold clear_tables, ws_clear, ph_init_once. proj.
    destruct (phase w >? 1) eqn:E; rewrite Z.gtb_ltb in E; [apply Z.ltb_lt in E | apply Z.ltb_ge in E]; repeat split; lia. }
  destruct Ha as (Ha1 & Ha2 & Ha3 & Ha4).
  destruct (wtable_phase1 wa t1 ltac:(lia)) as (Hb1 & Hb2 & _ & Hb3 & Hb4). set (wb := wstep wa (WTable t1)) in *.
  destruct (wtable_phase1 wb t2 ltac:(lia)) as (Hc1 & Hc2 & _ & Hc3 & Hc4). set (wc := wstep wb (WTable t2)) in *.
  destruct (wtable_phase1 wc t3 ltac:(lia)) as (Hd1 & Hd2 & _ & Hd3 & Hd4). set (wd := wstep wc (WTable t3)) in *.
  unfold wstep. cbn [op_ok negb]. unfold clean_tables, mark_tables_clean. proj.
  split; [|split; lia].
  destruct (tableValidEnd wd <? tableEnd wd) eqn:E; [apply Z.ltb_lt in E | apply Z.ltb_ge in E]; lia.
Qed.

(* ---------- the reservations from the top that follow (tag table, sequences, opt tables, buffers) ---------- *)
Lemma wtop_step : forall w o, is_top o = true -> 1 <= phase w -> tableValidEnd w <= allocStart w ->
  let w' := wstep w o in
  objectEnd w' = objectEnd w /\ tableEnd w' = tableEnd w /\ 1 <= phase w' /\ allocStart w' <= allocStart w /\
  tableValidEnd w' = Z.min (tableValidEnd w) (allocStart w').
Proof.
  intros w o Htop Hph Hle. cbn zeta. unfold wstep.
  destruct (op_ok w o) eqn:HOK; cbn [negb]; [|repeat split; lia].
  assert (HG : forall bytes ph, 0 <= bytes -> 1 <= ph ->
          let w' := fst (reserve_internal w bytes ph) in
          objectEnd w' = objectEnd w /\ tableEnd w' = tableEnd w /\ 1 <= phase w' /\ allocStart w' <= allocStart w /\
          tableValidEnd w' = Z.min (tableValidEnd w) (allocStart w') /\ initOnceStart w' = initOnceStart w).
  { intros bytes ph Hb Hp. cbn zeta. unfold reserve_internal, advance_phase, ph_init_once.
    replace (phase w <? 1) with false by (symmetry; apply Z.ltb_ge; lia). cbn [andb].
    destruct (ph >? phase w) eqn:EP.
    - destruct (bytes =? 0); cbn [fst]; proj; [repeat split; lia|].
      unfold reserve_buffer_space; proj.
      destruct (allocStart w - bytes <? tableEnd w); cbn [fst]; proj; [repeat split; lia|].
      destruct (allocStart w - bytes <? tableValidEnd w) eqn:E; [apply Z.ltb_lt in E | apply Z.ltb_ge in E]; repeat split; lia.
    - destruct (bytes =? 0); cbn [fst]; [repeat split; lia|].
      unfold reserve_buffer_space.
      destruct (allocStart w - bytes <? tableEnd w); cbn [fst]; proj; [repeat split; lia|].
      destruct (allocStart w - bytes <? tableValidEnd w) eqn:E; [apply Z.ltb_lt in E | apply Z.ltb_ge in E]; repeat split; lia. }
  destruct o; try discriminate; cbn [op_ok] in HOK.
  - (* WBuffer *)
    apply andb_split in HOK as (H1 & _). apply Z.leb_le in H1.
    destruct (HG n ph_buffers H1 ltac:(unfold ph_buffers; lia)) as (A & B & C & D & E & _).
    unfold reserve_buffer. repeat split; assumption.
  - (* WAligned *)
    apply andb_split in HOK as (HOK & _). apply andb_split in HOK as (H1 & _). apply Z.leb_le in H1.
    pose proof (align_up_ge n ALIGN ltac:(rewrite ALIGN_val; lia) H1).
    destruct (HG (align_up n ALIGN) ph_aligned ltac:(lia) ltac:(unfold ph_aligned; lia)) as (A & B & C & D & E & _).
    unfold reserve_aligned64. repeat split; assumption.
  - (* WInitOnce *)
    apply andb_split in HOK as (HOK & _). apply andb_split in HOK as (H1 & _). apply Z.leb_le in H1.
    pose proof (align_up_ge n ALIGN ltac:(rewrite ALIGN_val; lia) H1).
    destruct (HG (align_up n ALIGN) ph_init_once ltac:(lia) ltac:(unfold ph_init_once; lia)) as (A & B & C & D & E & F).
    unfold reserve_init_once.
    destruct (reserve_internal w (align_up n ALIGN) ph_init_once) as [w1 [ptr|]]; cbn [fst] in *.
    + destruct (ptr <? initOnceStart w1); cbn [fst]; proj; repeat split; assumption.
    + repeat split; assumption.
Qed.

Theorem watermark_after_top_reservations : forall tops w, forallb is_top tops = true ->
  1 <= phase w -> tableValidEnd w <= allocStart w ->
  let w' := wrun w tops in
  objectEnd w' = objectEnd w /\ tableEnd w' = tableEnd w /\ allocStart w' <= allocStart w /\
  tableValidEnd w' = Z.min (tableValidEnd w) (allocStart w').
Proof.
  induction tops as [|o tops IH]; intros w Hall Hph Hle; cbn zeta.
  - cbn. repeat split; lia.
  - cbn [forallb] in Hall. apply andb_split in Hall as (Ho & Hall).
    destruct (wtop_step w o Ho Hph Hle) as (A & B & C & D & E).
    cbn [wrun fold_left].
    destruct (IH (wstep w o) Hall C ltac:(lia)) as (A' & B' & D' & E').
    unfold wrun in *. repeat split; lia.
Qed.

(* ---------- the whole reservation sequence of a reset, in the terms of Det/ResetModel.reset ---------- *)
Theorem reset_watermark_formula : forall ops0 ir t1 t2 t3 tops,
  forallb is_top tops = true ->
  let w := wrun ws_null ops0 in
  let w1 := wrun w (table_seq ir t1 t2 t3) in
  let w2 := wrun w1 tops in
  (ir = false -> 1 <= phase w) -> 1 <= phase w1 ->
  tableEnd w2 = tableEnd w1 /\ objectEnd w2 = objectEnd w1 /\
  tableValidEnd w2 = Z.min (Z.max (if ir then objectEnd w1 else tableValidEnd w) (tableEnd w1)) (allocStart w2).
Proof.
  intros ops0 ir t1 t2 t3 tops Htops. cbn zeta. intros Hph0 Hph1.
  pose proof (wrun_inv ops0 ws_null inv_null) as HI.
  pose proof (wrun_inv (table_seq ir t1 t2 t3) _ HI) as HI1.
  pose proof HI1 as [ ].
  destruct (watermark_after_top_reservations tops _ Htops Hph1 ltac:(lia)) as (A & B & C & D).
  split; [exact B|]. split; [exact A|]. rewrite D. f_equal.
  destruct ir.
  - rewrite (watermark_after_index_reset _ t1 t2 t3 HI). lia.
  - destruct (watermark_after_continue_reset _ t1 t2 t3 HI (Hph0 eq_refl)) as (E & _). exact E.
Qed.

(* the hypotheses are satisfiable: a workspace created, used for one frame, then reset in continue mode with smaller
   tables and deeper top reservations: the watermark follows allocStart down *)
Example watermark_example :
  let ops0 := [WInit 4096 100000; WObject 100; WClear; WMarkDirty; WClearTables; WTable 4096; WTable 2048; WTable 0;
               WCleanTables; WAligned 1000; WBuffer 5000] in
  let w := wrun ws_null ops0 in
  let w1 := wrun w (table_seq false 1024 0 0) in
  let w2 := wrun w1 [WInitOnce 256; WAligned 64000; WBuffer 31000] in
  phase w = 3 /\ phase w1 = 1 /\ tableValidEnd w - objectEnd w = 6144 /\ tableEnd w1 - objectEnd w1 = 1024 /\
  tableValidEnd w1 = tableValidEnd w /\ tableValidEnd w2 = allocStart w2 /\ allocStart w2 < tableValidEnd w.
Proof. vm_compute. repeat split; reflexivity. Qed.
