(* C07 model, part 11 (round 2): the session-level state of a compression context that the ADVANCED API keeps between
   frames and that decides WHICH dictionary object and WHICH side channel the next frame uses.
   Source: lib/compress/zstd_compress.c
     ZSTD_CCtx_setParameter (stage check), ZSTD_CCtx_setParametersUsingCCtxParams (refused while cctx->cdict is set),
     ZSTD_CCtx_loadDictionary_advanced, ZSTD_CCtx_refCDict, ZSTD_CCtx_refPrefix_advanced (all: init stage only,
     ZSTD_clearAllDicts first), ZSTD_clearAllDicts, ZSTD_CCtx_reset, ZSTD_initLocalDict (the CDict of a loaded
     dictionary is built ONCE, from cctx->requestedParams at that moment), ZSTD_CCtx_init_compressStream2 (prefix =
     single usage), the end of a frame (ZSTD_CCtx_reset(session_only) in ZSTD_compressStream2 / ZSTD_compressSequences),
     ZSTD_generateSequences (arms cctx->seqCollector around its internal ZSTD_compress2; disarmed again since 74b576b).
   Parameters and dictionary contents are opaque identities (Z): the model is about WHICH of them a frame sees.
   NO proofs in this file. *)
From Coq Require Import ZArith Bool List.
Import ListNotations.
Local Open Scope Z_scope.

Inductive stage : Type := SInit | SLoad.

Record api : Type := mkApi {
  a_stage : stage;                  (* streamStage == zcss_init / anything else *)
  a_params : Z;                     (* identity of cctx->requestedParams (0 = the defaults) *)
  a_ldict : option Z;               (* localDict.dict : content of a loaded dictionary *)
  a_lcd : option (Z * Z);           (* localDict.cdict : (content, parameters it was digested with) *)
  a_cdict : option (Z * Z);         (* cctx->cdict : the local one or a referenced one *)
  a_prefix : option Z;              (* prefixDict.dict *)
  a_collect : bool;                 (* seqCollector.collectSequences *)
  a_buf : bool                      (* round 3: cctx->bufferedPolicy == ZSTDb_buffered, i.e. the last ZSTD_resetCCtx_internal
                                       reserved the stream buffers (possibly of size 0 in the stable-buffer modes) *)
}.

Definition a_fresh : api := mkApi SInit 0 None None None None false false.

Definition is_init (s : api) : bool := match a_stage s with SInit => true | SLoad => false end.

(* ZSTD_clearAllDicts *)
Definition clear_dicts (s : api) : api :=
  mkApi (a_stage s) (a_params s) None None None None (a_collect s) (a_buf s).

(* ZSTD_initLocalDict *)
Definition init_local_dict (s : api) : api :=
  match a_ldict s, a_lcd s with
  | Some d, None => let c := Some (d, a_params s) in
                    mkApi (a_stage s) (a_params s) (a_ldict s) c c (a_prefix s) (a_collect s) (a_buf s)
  | _, _ => s
  end.

(* what the frame that starts now is compressed with: single-usage prefix, else cctx->cdict *)
Inductive dict_view : Type := VNone | VPrefix (d : Z) | VCDict (d p : Z).
Definition view_of (s : api) : dict_view :=
  match a_prefix s with
  | Some d => VPrefix d
  | None => match a_cdict s with Some (d, p) => VCDict d p | None => VNone end
  end.

(* ZSTD_CCtx_init_compressStream2 : local dict digested if needed, prefix consumed, stage leaves init *)
Definition frame_start (s : api) : api :=
  let s1 := init_local_dict s in
  mkApi SLoad (a_params s1) (a_ldict s1) (a_lcd s1) (a_cdict s1) None (a_collect s1) true.
(* the dictionary the frame started by [frame_start s] uses (the prefix is read before it is cleared) *)
Definition frame_view (s : api) : dict_view := view_of (init_local_dict s).

(* ZSTD_CCtx_reset(session_only) *)
Definition reset_session (s : api) : api :=
  mkApi SInit (a_params s) (a_ldict s) (a_lcd s) (a_cdict s) (a_prefix s) (a_collect s) (a_buf s).

Definition set_collect (s : api) (b : bool) : api :=
  mkApi (a_stage s) (a_params s) (a_ldict s) (a_lcd s) (a_cdict s) (a_prefix s) b (a_buf s).
Definition set_buf (s : api) (b : bool) : api :=
  mkApi (a_stage s) (a_params s) (a_ldict s) (a_lcd s) (a_cdict s) (a_prefix s) (a_collect s) b.
Definition set_params (s : api) (p : Z) : api :=
  mkApi (a_stage s) p (a_ldict s) (a_lcd s) (a_cdict s) (a_prefix s) (a_collect s) (a_buf s).

Inductive aop : Type :=
| ASet (auth : bool) (p : Z)        (* ZSTD_CCtx_setParameter -> new identity p; auth = ZSTD_isUpdateAuthorized(param) *)
| ASetAll (p : Z)                   (* ZSTD_CCtx_setParametersUsingCCtxParams *)
| ALoad (d : Z)                     (* ZSTD_CCtx_loadDictionary*; d = 0 : NULL / empty *)
| ARefCDict (c : option (Z * Z))    (* ZSTD_CCtx_refCDict *)
| APrefix (d : Z)                   (* ZSTD_CCtx_refPrefix*; d = 0 : NULL / empty *)
| APledge                           (* ZSTD_CCtx_setPledgedSrcSize *)
| AResetSession | AResetParams      (* ZSTD_CCtx_reset *)
| AStreamCall                       (* ZSTD_compressStream2 that does not complete the frame *)
| AStreamEnd                        (* ZSTD_compressStream2(e_end) completing the frame / ZSTD_compressSequences *)
| ACompress2                        (* ZSTD_compress2, successful *)
| ASimple                           (* ZSTD_compressCCtx, _usingDict, _usingCDict, _advanced, Begin/Continue/End: everything that
                                       goes through ZSTD_compressBegin_internal(ZSTDb_not_buffered) *)
| AGenSeq                           (* ZSTD_generateSequences, successful *)
| ACopyInto.                        (* round 3: ZSTD_copyCCtx with THIS context as destination (ZSTD_copyCCtx_internal calls
                                       ZSTD_resetCCtx_internal directly) *)

Definition stream_call (s : api) : api := if is_init s then frame_start s else s.
Definition compress2 (s : api) : api := reset_session (frame_start (reset_session s)).

(* one API call; the boolean = the call was accepted (a refused call changes nothing) *)
Definition astep (s : api) (o : aop) : api * bool :=
  match o with
  | ASet auth p => if is_init s || auth then (set_params s p, true) else (s, false)
  | ASetAll p => if is_init s && (match a_cdict s with None => true | Some _ => false end)
                 then (set_params s p, true) else (s, false)
  | ALoad d => if is_init s then
                 let c := clear_dicts s in
                 (if d =? 0 then c else mkApi (a_stage c) (a_params c) (Some d) None None None (a_collect c) (a_buf c), true)
               else (s, false)
  | ARefCDict c => if is_init s then
                     let k := clear_dicts s in
                     (mkApi (a_stage k) (a_params k) None None c None (a_collect k) (a_buf k), true)
                   else (s, false)
  | APrefix d => if is_init s then
                   let c := clear_dicts s in
                   (if d =? 0 then c else mkApi (a_stage c) (a_params c) None None None (Some d) (a_collect c) (a_buf c), true)
                 else (s, false)
  | APledge => if is_init s then (s, true) else (s, false)
  | AResetSession => (reset_session s, true)
  | AResetParams => if is_init s then (set_params (clear_dicts s) 0, true) else (s, false)
  | AStreamCall => (stream_call s, true)
  | AStreamEnd => (reset_session (stream_call s), true)
  | ACompress2 => (compress2 s, true)
  | ASimple => (set_buf (reset_session s) false, true)   (* since 38ec6ea: a single-call / buffer-less session closes an open streaming frame *)
  | ACopyInto => (set_buf (reset_session s) false, true)   (* since d3967a5: the copy is a buffer-less session too *)
  | AGenSeq => (set_collect (compress2 (set_collect s true)) false, true)
  end.

Fixpoint arun (s : api) (ops : list aop) : api :=
  match ops with [] => s | o :: t => arun (fst (astep s o)) t end.

(* round 3: ZSTD_copyCCtx_internal before d3967a5: streamStage of the destination was not touched
   (finding copyCCtx-into-open-stream-keeps-stage) *)
Definition astep_pred39 (s : api) (o : aop) : api * bool :=
  match o with ACopyInto => (set_buf s false, true) | _ => astep s o end.
Fixpoint arun_pred39 (s : api) (ops : list aop) : api :=
  match ops with [] => s | o :: t => arun_pred39 (fst (astep_pred39 s o)) t end.
(* ZSTD_compressBegin_internal before 38ec6ea: the single-call entry points left streamStage alone *)
Definition astep_pre38 (s : api) (o : aop) : api * bool :=
  match o with ASimple => (set_buf s false, true) | _ => astep s o end.

(* ZSTD_generateSequences as it was before 74b576b: the collector stays armed *)
Definition astep_old (s : api) (o : aop) : api * bool :=
  match o with AGenSeq => (compress2 (set_collect s true), true) | _ => astep s o end.
Fixpoint arun_old (s : api) (ops : list aop) : api :=
  match ops with [] => s | o :: t => arun_old (fst (astep_old s o)) t end.

(* the trace compared with the real context after every call: accepted, stage, localDict.dict, localDict.cdict,
   cctx->cdict, prefixDict.dict, collectSequences *)
Definition ob (b : bool) : Z := if b then 1 else 0.
Definition os {A} (o : option A) : Z := match o with Some _ => 1 | None => 0 end.
Definition api_fields (s : api) : list Z :=
  [ob (negb (is_init s)); os (a_ldict s); os (a_lcd s); os (a_cdict s); os (a_prefix s); ob (a_collect s)].
(* round 3: the same plus bufferedPolicy *)
Definition api_fields3 (s : api) : list Z := api_fields s ++ [ob (a_buf s)].
Fixpoint atrace3 (s : api) (ops : list aop) : list Z :=
  match ops with
  | [] => []
  | o :: t => let r := astep s o in (ob (snd r) :: api_fields3 (fst r)) ++ atrace3 (fst r) t
  end.
Fixpoint atrace (s : api) (ops : list aop) : list Z :=
  match ops with
  | [] => []
  | o :: t => let r := astep s o in (ob (snd r) :: api_fields (fst r)) ++ atrace (fst r) t
  end.
