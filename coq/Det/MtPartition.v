(* C07 model, part 5: how multithreaded compression cuts the input into jobs and re-assembles the output.
   Source: lib/compress/zstdmt_compress.c  ZSTDMT_compressStream_generic (input loading, the conditions that create
           a job), ZSTDMT_createCompressionJob (jobs table full -> nothing happens; job prepared; POOL_tryAdd may
           refuse -> jobReady), ZSTDMT_flushProduced (only the job doneJobID is flushed; return value),
           ZSTDMT_computeTargetJobLog / ZSTDMT_computeOverlapSize / ZSTDMT_initCStream_internal (targetSectionSize,
           targetPrefixSize: no dependence on nbWorkers).
   What the environment (worker threads, the pool, the caller's output buffers) decides is an ORACLE consulted at
   every call: can an input buffer be obtained (ZSTDMT_tryGetInputRange), is the jobs table full, does POOL_tryAdd
   accept the job.  Theorems quantify over all oracles.  rsyncable is outside this model (paired runs only).
   NO proofs in this file. *)
From Coq Require Import ZArith Bool List.
Import ListNotations.
Local Open Scope Z_scope.

(* ---------- targetSectionSize / targetPrefixSize ---------- *)
Definition ZSTDMT_JOBLOG_MAX : Z := 30.     (* 64-bit build; the lock-step compares the resulting sizes *)
Definition ZSTDMT_JOBSIZE_MIN : Z := 524288.
Definition ZSTD_btlazy2 : Z := 6.

Definition cycleLog (chainLog strategy : Z) : Z := chainLog - (if ZSTD_btlazy2 <=? strategy then 1 else 0).
Definition targetJobLog (windowLog chainLog strategy : Z) (ldm : bool) : Z :=
  let jl := if ldm then Z.max 21 (cycleLog chainLog strategy + 3) else Z.max 20 (windowLog + 2) in
  Z.min jl ZSTDMT_JOBLOG_MAX.
Definition overlapLog_default (strategy : Z) : Z :=
  if strategy =? 9 then 9 else if (strategy =? 8) || (strategy =? 7) then 8
  else if (strategy =? 6) || (strategy =? 5) then 7 else 6.
Definition overlapSize (windowLog chainLog strategy : Z) (ldm : bool) (overlapLog : Z) : Z :=
  let ov := if overlapLog =? 0 then overlapLog_default strategy else overlapLog in
  let overlapRLog := 9 - ov in
  let ovLog0 := if overlapRLog >=? 8 then 0 else windowLog - overlapRLog in
  let ovLog := if ldm then Z.min windowLog (targetJobLog windowLog chainLog strategy ldm - 2) - overlapRLog else ovLog0 in
  if ovLog =? 0 then 0 else Z.shiftl 1 ovLog.
(* [jobSize]: the value ZSTD_CCtx_init_compressStream2 hands over (already raised to ZSTDMT_JOBSIZE_MIN when non-zero) *)
Definition targetSectionSize (jobSize windowLog chainLog strategy : Z) (ldm : bool) (overlapLog : Z) : Z :=
  let t := if jobSize =? 0 then Z.shiftl 1 (targetJobLog windowLog chainLog strategy ldm) else jobSize in
  let p := overlapSize windowLog chainLog strategy ldm overlapLog in
  if t <? p then p else t.

(* ---------- the job-creation machine ---------- *)
Record job : Type := mkJob { j_size : Z; j_first : bool; j_last : bool }.

Record mt : Type := mkMt {
  filled : Z;          (* inBuff.filled *)
  hasBuf : bool;       (* inBuff.buffer.start != NULL *)
  ready : bool;        (* jobReady *)
  ended : bool;        (* frameEnded *)
  njobs : Z;           (* nextJobID *)
  jobs : list job      (* every job prepared so far, in order *)
}.
Definition mt_init : mt := mkMt 0 false false false 0 [].

Record env : Type := mkEnv { bufAvail : bool; tableFull : bool; workerAvail : bool }.

(* directives *)
Definition e_continue : Z := 0.
Definition e_flush : Z := 1.
Definition e_end : Z := 2.

(* ZSTDMT_createCompressionJob(mtctx, srcSize = filled, endOp) *)
Definition create_job (s : mt) (endOp : Z) (e : env) : mt :=
  if tableFull e then s else
  let endFrame := endOp =? e_end in
  let post (s1 : mt) : mt :=
    if workerAvail e then mkMt (filled s1) (hasBuf s1) false (ended s1) (njobs s1 + 1) (jobs s1)
    else mkMt (filled s1) (hasBuf s1) true (ended s1) (njobs s1) (jobs s1) in
  if ready s then post s
  else
    let j := mkJob (filled s) (njobs s =? 0) endFrame in
    let s1 := mkMt 0 false false (ended s || endFrame) (njobs s) (jobs s ++ [j]) in
    if (filled s =? 0) && (njobs s >? 0) then
      (* ZSTDMT_writeLastEmptyBlock: no worker involved *)
      mkMt 0 false false (ended s1) (njobs s + 1) (jobs s1)
    else post s1.

(* one ZSTDMT_compressStream_generic call with r bytes of input left in the caller's buffer;
   returns the new state and the bytes still not consumed *)
Definition mt_call (target : Z) (s : mt) (r endOp : Z) (e : env) : mt * Z :=
  if ended s && (endOp =? e_continue) then (s, r) else       (* ERROR(stage_wrong) *)
  let '(s1, r1) :=
    if negb (ready s) && (r >? 0) then
      if hasBuf s || bufAvail e then
        let k := Z.min r (target - filled s) in
        (mkMt (filled s + k) true (ready s) (ended s) (njobs s) (jobs s), r - k)
      else (s, r)
    else (s, r) in
  let endOp1 := if (r1 >? 0) && (endOp =? e_end) then e_flush else endOp in
  if ready s1 || (filled s1 >=? target) || (negb (endOp1 =? e_continue) && (filled s1 >? 0))
     || ((endOp1 =? e_end) && negb (ended s1))
  then (create_job s1 endOp1 e, r1)
  else (s1, r1).

(* the caller's side of one input call: (n bytes, directive), repeated until the input is consumed and - for
   flush / end - until ZSTD_compressStream2 returns 0, which requires: no job being prepared, nothing buffered,
   and for e_end the frame ended (ZSTDMT_flushProduced).  [envs] is the schedule; None = it ran out. *)
Definition op_done (s : mt) (r dir : Z) : bool :=
  (r =? 0) && ((dir =? e_continue) || (negb (ready s) && (filled s =? 0) && ((dir =? e_flush) || ended s))).

Fixpoint run_op (target : Z) (s : mt) (r dir : Z) (envs : list env) : option (mt * list env) :=
  match envs with
  | [] => None
  | e :: rest =>
      let '(s1, r1) := mt_call target s r dir e in
      if op_done s1 r1 dir then Some (s1, rest) else run_op target s1 r1 dir rest
  end.

Fixpoint run_ops (target : Z) (s : mt) (ops : list (Z * Z)) (envs : list env) : option mt :=
  match ops with
  | [] => Some s
  | (n, dir) :: t =>
      match run_op target s n dir envs with
      | Some (s1, rest) => run_ops target s1 t rest
      | None => None
      end
  end.

(* ---------- specification: greedy sections ---------- *)
(* (closed sections, bytes in the open one) ; the open one is always < target *)
Definition sfeed (target : Z) (st : list Z * Z) (k : Z) : list Z * Z :=
  (fst st ++ repeat target (Z.to_nat ((snd st + k) / target)), (snd st + k) mod target).
Definition sflush (st : list Z * Z) : list Z * Z :=
  if snd st >? 0 then (fst st ++ [snd st], 0) else st.
Definition spec_op (target : Z) (st : list Z * Z) (o : Z * Z) : list Z * Z :=
  let st1 := sfeed target st (fst o) in
  if snd o =? e_continue then st1 else sflush st1.
Definition spec_sections (target : Z) (ops : list (Z * Z)) : list Z * Z := fold_left (spec_op target) ops ([], 0).

Definition nonempty_sizes (l : list job) : list Z := filter (fun z => z >? 0) (map j_size l).

(* ---------- in-order flush ---------- *)
(* every job j has a final output [nth j outs]; workers make prefixes of it available in any interleaving;
   ZSTDMT_flushProduced copies only from job [fdone], at most [cap] bytes, and moves on when that job is complete
   and fully flushed *)
Record fl : Type := mkFl {
  produced : list nat;     (* bytes produced so far, per job *)
  fdone : nat;             (* doneJobID *)
  fpos : nat;              (* dstFlushed of job fdone *)
  fout : list Z            (* everything handed to the caller so far *)
}.
Inductive fev : Type :=
| Produce (j k : nat)      (* a worker makes k more bytes of job j available *)
| Flush (cap : nat).       (* one flush attempt with room for cap bytes *)

Fixpoint bump (l : list nat) (j k lim : nat) (outs : list (list Z)) : list nat :=
  match l, outs with
  | x :: t, o :: ot => match j with
                       | O => Nat.min (x + k) (length o) :: t
                       | S j' => x :: bump t j' k lim ot
                       end
  | _, _ => l
  end.

Definition fstep (outs : list (list Z)) (s : fl) (e : fev) : fl :=
  match e with
  | Produce j k => mkFl (bump (produced s) j k 0 outs) (fdone s) (fpos s) (fout s)
  | Flush cap =>
      match nth_error outs (fdone s), nth_error (produced s) (fdone s) with
      | Some o, Some p =>
          let n := Nat.min (p - fpos s) cap in
          let chunk := firstn n (skipn (fpos s) o) in
          let pos' := (fpos s + n)%nat in
          if (pos' =? length o)%nat && (p =? length o)%nat
          then mkFl (produced s) (S (fdone s)) 0 (fout s ++ chunk)
          else mkFl (produced s) (fdone s) pos' (fout s ++ chunk)
      | _, _ => s
      end
  end.
Definition fl_init (outs : list (list Z)) : fl := mkFl (map (fun _ => O) outs) 0 0 [].
Definition frun (outs : list (list Z)) (evs : list fev) : fl := fold_left (fstep outs) evs (fl_init outs).

(* ---------- prefix (overlap) sizes ---------- *)
(* ZSTDMT_createCompressionJob: the job takes the prefix left by the previous one; the next prefix is
   MIN(srcSize, targetPrefixSize) of the job being prepared.  [p0]: the prefix of the first job (a raw-content
   dictionary / ZSTD_CCtx_refPrefix, else 0).  Over the sizes of the posted jobs in order. *)
Definition job_prefixes (p0 ptarget : Z) (sizes : list Z) : list Z :=
  match sizes with
  | [] => []
  | _ :: _ => p0 :: map (Z.min ptarget) (removelast sizes)
  end.
