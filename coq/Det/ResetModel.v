(* C07 model, part 1: what a compression context keeps from one frame to the next, and what a reset does to it.
   Source: lib/compress/zstd_compress.c  ZSTD_resetCCtx_internal (index-reset policy: indexTooClose / dictTooBig /
           !initialized / workspace re-created), ZSTD_reset_matchState, ZSTD_invalidateMatchState,
           ZSTD_advanceHashSalt / ZSTD_bitmix, ZSTD_overflowCorrectIfNeeded (mark dirty, reduce, mark clean),
           lib/compress/zstd_cwksp.h (the tableValidEnd watermark, at table-cell granularity here; the byte /
           pointer level is Det/CwkspClean.v).
   Window semantics (ZSTD_window_init / ZSTD_window_clear / indexTooCloseToMax / dictTooBig) are imported from the
   C15 model ZV.Index.  NO proofs in this file.

   The table area of the workspace is a list of U32 cells [m_mem]:
     cells [0, m_ntab)         the tables currently reserved (hashTable ++ chainTable ++ hashTable3),
     cells [0, m_valid)        "clean": zero, or an index written through a table (tableValidEnd watermark),
     cells [m_buflow, ...)     owned by buffers / aligned allocations: anything may be written there.
   The match finders are NOT modelled: what they do is an arbitrary [HInsert] (store an index in a table cell),
   [HNtu], [HEntropy], [HOptSum]; the finder contract "an inserted index is the position of a byte already in
   the window" is the well-formedness condition [wf_op] of the history (validated per run, not proved). *)
From Coq Require Import ZArith Bool List.
From ZV.Index Require Import Window Overflow.
Import ListNotations.
Local Open Scope Z_scope.

(* ---------- ZSTD_bitmix / ZSTD_advanceHashSalt (U64 arithmetic written out) ---------- *)
Definition rotr64 (x n : Z) : Z := Z.lor (Z.shiftr x n) (u64 (Z.shiftl x (64 - n))).
Definition BITMIX_K : Z := 11507291218515648293.    (* 0x9FB21C651E98DF25 *)
Definition bitmix (val len : Z) : Z :=
  let v1 := Z.lxor val (Z.lxor (rotr64 val 49) (rotr64 val 24)) in
  let v2 := u64 (v1 * BITMIX_K) in
  let v3 := Z.lxor v2 (u64 (Z.shiftr v2 35 + len)) in
  let v4 := u64 (v3 * BITMIX_K) in
  Z.lxor v4 (Z.shiftr v4 28).
Definition advanceHashSalt (salt entropy : Z) : Z := Z.lxor (bitmix salt 8) (bitmix entropy 4).

(* ---------- state ---------- *)
Record mstate : Type := mkM {
  m_init : bool;            (* zc->initialized *)
  m_window : window;
  m_nextToUpdate : Z;
  m_loadedDictEnd : Z;
  m_dms : bool;             (* dictMatchState != NULL *)
  m_litLengthSum : Z;       (* opt.litLengthSum *)
  m_hashSalt : Z;           (* U64 *)
  m_saltEntropy : Z;        (* U32 *)
  m_mem : list Z;           (* table area of the workspace, one entry per U32 cell *)
  m_valid : nat;            (* (tableValidEnd - objectEnd) / 4 *)
  m_ntab : nat;             (* (tableEnd - objectEnd) / 4 *)
  m_buflow : nat            (* (allocStart - objectEnd) / 4, rounded down: lowest cell a buffer may own *)
}.

Definition E (m : mstate) : Z := nextSrc (m_window m) - base (m_window m).

(* a context just created by ZSTD_createCCtx / ZSTD_initStaticCCtx: zeroed struct, no workspace tables yet *)
Definition m_fresh : mstate :=
  mkM false (mkWindow 0 0 0 0 0 0) 0 0 false 0 0 0 [] 0 0 0.

(* ---------- ZSTD_invalidateMatchState ---------- *)
Definition invalidate_fields (w : window) : window * Z * Z * bool * Z :=
  let w1 := window_clear w in (w1, dictLimit w1, 0, false, 0).

(* zero the cells [lo, hi) *)
Fixpoint zero_range (l : list Z) (lo hi : nat) : list Z :=
  match l with
  | [] => []
  | x :: t =>
      match lo, hi with
      | _, O => l
      | O, S h => 0 :: zero_range t O h
      | S a, S h => x :: zero_range t a h
      end
  end.

(* ---------- one ZSTD_resetCCtx_internal (crp = ZSTDcrp_makeClean, target = CCtx) ---------- *)
Record rparams : Type := mkR {
  r_newmem : option (list Z);  (* Some l: the workspace was too small / wasteful and has been re-created; l = its
                                  (arbitrary) content *)
  r_loadedDictSize : Z;
  r_ntab : nat;                (* cells of hashTable + chainTable + hashTable3 for the new parameters *)
  r_buflow : nat;              (* lowest cell reached by the aligned / buffer reservations that follow *)
  r_lit : Z;                   (* address of the " " literal of ZSTD_window_init *)
  r_row : bool                 (* ZSTD_rowMatchFinderUsed: tag table reserved, salt advanced *)
}.

Definition is_some {A} (o : option A) : bool := match o with Some _ => true | None => false end.

(* ZSTD_indexResetPolicy_e needsIndexReset *)
Definition needs_index_reset (m : mstate) (p : rparams) : bool :=
  indexTooCloseToMax (m_window m) || dictTooBig (r_loadedDictSize p) || negb (m_init m) || is_some (r_newmem p).

Definition reset (m : mstate) (p : rparams) : mstate :=
  let doReset := needs_index_reset m p in
  let mem0 := match r_newmem p with Some l => l | None => m_mem m end in
  let valid0 := match r_newmem p with Some _ => O | None => m_valid m end in   (* ZSTD_cwksp_init *)
  (* ZSTD_reset_matchState *)
  let w0 := if doReset then window_init (r_lit p) else m_window m in
  let valid1 := if doReset then O else valid0 in                             (* ZSTD_cwksp_mark_tables_dirty *)
  let w1 := window_clear w0 in                                               (* ZSTD_invalidateMatchState *)
  (* ZSTD_cwksp_clear_tables; 3 x ZSTD_cwksp_reserve_table; ZSTD_cwksp_clean_tables *)
  let mem1 := zero_range mem0 valid1 (r_ntab p) in
  let valid2 := Nat.max valid1 (r_ntab p) in
  (* later reservations from the top of the workspace lower the watermark *)
  let valid3 := Nat.min valid2 (r_buflow p) in
  let salt := if r_row p then advanceHashSalt (m_hashSalt m) (m_saltEntropy m) else m_hashSalt m in
  mkM true w1 (dictLimit w1) 0 false 0 salt (m_saltEntropy m) mem1 valid3 (r_ntab p) (r_buflow p).

(* the reservation fits (otherwise ZSTD_resetCCtx_internal re-creates the workspace or fails) *)
Definition reset_fits (m : mstate) (p : rparams) : Prop :=
  (r_ntab p <= r_buflow p)%nat /\
  (r_buflow p <= length (match r_newmem p with Some l => l | None => m_mem m end))%nat.

(* ---------- history of a context ---------- *)
Fixpoint set_nth (l : list Z) (i : nat) (v : Z) : list Z :=
  match l, i with
  | [], _ => []
  | _ :: t, O => v :: t
  | x :: t, S j => x :: set_nth t j v
  end.

(* ZSTD_reduceTable_internal on one cell (the DUBT mark preservation is a C15 matter) *)
Definition reduce_cell (c v : Z) : Z := if v <? c + START then 0 else v - c.
Fixpoint reduce_first (n : nat) (c : Z) (l : list Z) : list Z :=
  match n, l with
  | O, _ => l
  | _, [] => []
  | S k, x :: t => reduce_cell c x :: reduce_first k c t
  end.

Inductive hop : Type :=
| HReset (p : rparams)          (* any API call that begins a frame on this context *)
| HFeed (n : Z)                 (* n more bytes enter the window: nextSrc - base grows by n *)
| HLimits (low dict : Z)        (* enforceMaxDist / window_update moved lowLimit / dictLimit *)
| HInsert (i : nat) (v : Z)     (* a match finder stores index v in table cell i *)
| HJunk (i : nat) (v : Z)       (* some buffer user writes v in cell i (sequences, literals, opt tables ...) *)
| HNtu (v : Z)                  (* nextToUpdate *)
| HEntropy (e : Z)              (* hashSaltEntropy += ... *)
| HOptSum (s : Z)               (* the optimal parser accumulated statistics: opt.litLengthSum = s *)
| HCorrect (c : Z).             (* ZSTD_overflowCorrectIfNeeded: correction c *)

Definition with_window (m : mstate) (w : window) : mstate :=
  mkM (m_init m) w (m_nextToUpdate m) (m_loadedDictEnd m) (m_dms m) (m_litLengthSum m) (m_hashSalt m)
      (m_saltEntropy m) (m_mem m) (m_valid m) (m_ntab m) (m_buflow m).
Definition with_mem (m : mstate) (l : list Z) : mstate :=
  mkM (m_init m) (m_window m) (m_nextToUpdate m) (m_loadedDictEnd m) (m_dms m) (m_litLengthSum m) (m_hashSalt m)
      (m_saltEntropy m) l (m_valid m) (m_ntab m) (m_buflow m).

Definition hstep (m : mstate) (o : hop) : mstate :=
  match o with
  | HReset p => reset m p
  | HFeed n => with_window m (set_nextSrc (m_window m) (nextSrc (m_window m) + n))
  | HLimits low dict => with_window m (set_dictLimit (set_low (m_window m) low) dict)
  | HInsert i v => with_mem m (set_nth (m_mem m) i v)
  | HJunk i v => with_mem m (set_nth (m_mem m) i v)
  | HNtu v => mkM (m_init m) (m_window m) v (m_loadedDictEnd m) (m_dms m) (m_litLengthSum m) (m_hashSalt m)
                  (m_saltEntropy m) (m_mem m) (m_valid m) (m_ntab m) (m_buflow m)
  | HEntropy e => mkM (m_init m) (m_window m) (m_nextToUpdate m) (m_loadedDictEnd m) (m_dms m) (m_litLengthSum m)
                      (m_hashSalt m) e (m_mem m) (m_valid m) (m_ntab m) (m_buflow m)
  | HOptSum s => mkM (m_init m) (m_window m) (m_nextToUpdate m) (m_loadedDictEnd m) (m_dms m) s (m_hashSalt m)
                     (m_saltEntropy m) (m_mem m) (m_valid m) (m_ntab m) (m_buflow m)
  | HCorrect c =>
      let w := m_window m in
      let w' := mkWindow (nextSrc w) (base w + c) (dictBase w + c)
                         (rebase_limit (dictLimit w) c) (rebase_limit (lowLimit w) c) (u32 (nbOvf w + 1)) in
      (* mark_tables_dirty ; ZSTD_reduceIndex over the reserved tables ; mark_tables_clean *)
      mkM (m_init m) w' (if m_nextToUpdate m <? c then 0 else m_nextToUpdate m - c) 0 false (m_litLengthSum m)
          (m_hashSalt m) (m_saltEntropy m) (reduce_first (m_ntab m) c (m_mem m)) (m_ntab m) (m_ntab m) (m_buflow m)
  end.

(* well-formedness of a history step = what the unmodelled code is trusted (and tested) to respect *)
Definition wf_op (m : mstate) (o : hop) : Prop :=
  match o with
  | HReset p => reset_fits m p
  | HFeed n => 0 <= n /\ E m + n < two64
  | HLimits low dict => True
  | HInsert i v => (i < m_ntab m)%nat /\ 0 <= v < E m          (* finder contract, part 1 *)
  | HJunk i v => (m_buflow m <= i)%nat
  | HNtu v => True
  | HEntropy e => True
  | HOptSum s => True
  | HCorrect c => 0 <= c /\ c + START <= E m
  end.

Fixpoint run_wf (m : mstate) (ops : list hop) : Prop :=
  match ops with
  | [] => True
  | o :: t => wf_op m o /\ run_wf (hstep m o) t
  end.

Definition run (m : mstate) (ops : list hop) : mstate := fold_left hstep ops m.

(* ---------- what a match finder can see (finder contract, part 2: entries below lowLimit are never used) ---------- *)
Definition tables (m : mstate) : list Z := firstn (m_ntab m) (m_mem m).
Definition visible_cell (low v : Z) : option Z := if low <=? v then Some (v - low) else None.

Record obs : Type := mkObs {
  o_cells : list (option Z);   (* every table cell as the contract lets a finder use it, relative to lowLimit *)
  o_dictLimit : Z;             (* relative to lowLimit *)
  o_end : Z;                   (* index of nextSrc, relative to lowLimit *)
  o_ntu : Z;                   (* relative to lowLimit *)
  o_loadedDictEnd : Z;
  o_dms : bool;
  o_optFirst : bool            (* opt.litLengthSum == 0 *)
}.

Definition observe (m : mstate) : obs :=
  let w := m_window m in
  let low := lowLimit w in
  mkObs (map (visible_cell low) (tables m)) (dictLimit w - low) (E m - low) (m_nextToUpdate m - low)
        (m_loadedDictEnd m) (m_dms m) (m_litLengthSum m =? 0).

(* the same parameters applied to a brand-new context *)
Definition fresh_params (p : rparams) (mem : list Z) : rparams :=
  mkR (Some mem) (r_loadedDictSize p) (r_ntab p) (r_buflow p) (r_lit p) (r_row p).

(* ZSTD_resetCCtx_byCopyingCDict (tables, tag table and salt copied from the CDict after the reset): a CDict is
   always reset with salt 0 (ZSTD_reset_matchState, forWho == ZSTD_resetTarget_CDict), so a context that copied a
   row-based CDict hashes with salt 0; otherwise the salt is the one the reset left. *)
Definition salt_after_cdict_copy (m : mstate) (p : rparams) : Z :=
  if r_row p then 0 else m_hashSalt (reset m p).
