(* C07 model, part 14 (round 3): what ZSTD_compressStream2 READS in the stable-input-buffer mode (ZSTD_c_stableInBuffer = 1).
   Source: lib/compress/zstd_compress.c
     ZSTD_compressStream2 : `input->pos > input->size` refusal; the transparent-initialisation stage with the DEFERRED START
       (stable input, ZSTD_e_continue, less than ZSTD_BLOCKSIZE_MAX bytes in total: nothing is initialised, input->pos is moved to
       input->size, expectedInBuffer = *input, stableIn_notConsumed += inputSize); the two controls of the stable buffer
       (src pointer, pos) - since 0548f83 made right after totalInputSize is computed whenever stableIn_notConsumed != 0, before
       that only inside the deferral branch; ZSTD_setBufferExpectations; ZSTD_checkBufferStability;
     ZSTD_compressStream_generic, stable branch : input->pos -= stableIn_notConsumed; ip -= stableIn_notConsumed; with
       ZSTD_e_continue whole blocks only, the rest (< blockSize) becomes stableIn_notConsumed again and pos is reported = size;
       ZSTD_e_flush / ZSTD_e_end consume everything; the end of the frame resets the session.
   The output side never blocks in this model (a call consumes what the directive allows).
   Addresses are integers; a call is (src, size, pos, directive).  NO proofs in this file. *)
From Coq Require Import ZArith Bool List.
Import ListNotations.
Local Open Scope Z_scope.

Definition BLOCKSIZE_MAX : Z := 131072.

Inductive dir : Type := DContinue | DFlush | DEnd.

Record sst : Type := mkS {
  s_open : bool;        (* streamStage != zcss_init *)
  s_nc : Z;             (* stableIn_notConsumed *)
  s_esrc : Z;           (* expectedInBuffer.src *)
  s_epos : Z            (* expectedInBuffer.pos (= .size after a deferred call: the code compares with .size there) *)
}.
Definition s_fresh : sst := mkS false 0 0 0.

Record call : Type := mkC { c_src : Z; c_size : Z; c_pos : Z; c_dir : dir }.

(* result of one call: refused, or accepted with the address range [lo, hi) handed to the block compressor (lo = hi: nothing) *)
Inductive res : Type := Refused | Read (lo hi : Z).

Definition same_buffer (s : sst) (c : call) : bool := (c_src c =? s_esrc s) && (c_pos c =? s_epos s).

(* ZSTD_compressStream_generic, stable input: bs = zcs->blockSize > 0 *)
Definition consume (bs : Z) (s : sst) (c : call) : sst * res :=
  let start := c_pos c - s_nc s in
  let avail := c_size c - start in
  let taken := match c_dir c with DContinue => (avail / bs) * bs | _ => avail end in
  let left := avail - taken in
  (match c_dir c with
   | DEnd => mkS false 0 (c_src c) (c_size c)          (* frame complete: ZSTD_CCtx_reset(session_only) *)
   | _ => mkS true left (c_src c) (c_size c)
   end,
   Read (c_src c + start) (c_src c + start + taken)).

Definition is_continue (d : dir) : bool := match d with DContinue => true | _ => false end.

(* the code since 0548f83 *)
Definition step (bs : Z) (s : sst) (c : call) : sst * res :=
  if negb ((0 <=? c_pos c) && (c_pos c <=? c_size c)) then (s, Refused)
  else if s_open s then
    (if same_buffer s c then consume bs s c else (s, Refused))            (* ZSTD_checkBufferStability *)
  else if negb ((s_nc s =? 0) || same_buffer s c) then (s, Refused)          (* hoisted controls *)
  else if is_continue (c_dir c) && (c_size c - c_pos c + s_nc s <? BLOCKSIZE_MAX) then
    (mkS false (s_nc s + (c_size c - c_pos c)) (c_src c) (c_size c), Read (c_src c) (c_src c))   (* deferred: nothing read *)
  else consume bs s c.

(* before 0548f83: the controls only guard the deferral branch *)
Definition step_old (bs : Z) (s : sst) (c : call) : sst * res :=
  if negb ((0 <=? c_pos c) && (c_pos c <=? c_size c)) then (s, Refused)
  else if s_open s then
    (if same_buffer s c then consume bs s c else (s, Refused))
  else if is_continue (c_dir c) && (c_size c - c_pos c + s_nc s <? BLOCKSIZE_MAX) then
    (if negb ((s_nc s =? 0) || same_buffer s c) then (s, Refused)
     else (mkS false (s_nc s + (c_size c - c_pos c)) (c_src c) (c_size c), Read (c_src c) (c_src c)))
  else consume bs s c.

(* ZSTD_CCtx_reset(session_only) (since 177647f it also forgets the deferred input); expectedInBuffer is left as it is *)
Definition sreset (s : sst) : sst := mkS false 0 (s_esrc s) (s_epos s).

(* what a caller does: streaming calls and session resets *)
Inductive sop : Type := SCall (c : call) | SReset.
Definition ostep (bs : Z) (s : sst) (o : sop) : sst * res :=
  match o with SCall c => step bs s c | SReset => (sreset s, Refused) end.
Definition ostep_old (bs : Z) (s : sst) (o : sop) : sst * res :=
  match o with SCall c => step_old bs s c | SReset => (sreset s, Refused) end.

Fixpoint srun (bs : Z) (s : sst) (os : list sop) : sst :=
  match os with [] => s | o :: t => srun bs (fst (ostep bs s o)) t end.

(* trace for the lock-step: per operation accepted?, lo - src, hi - src, streamStage != init, stableIn_notConsumed *)
Definition zbool (b : bool) : Z := if b then 1 else 0.
Fixpoint strace (old : bool) (bs : Z) (s : sst) (os : list sop) : list Z :=
  match os with
  | [] => []
  | o :: t => let r := if old then ostep_old bs s o else ostep bs s o in
              let src := match o with SCall c => c_src c | SReset => 0 end in
              (match snd r with Refused => [0; 0; 0] | Read lo hi => [1; lo - src; hi - src] end)
              ++ [zbool (s_open (fst r)); s_nc (fst r)] ++ strace old bs (fst r) t
  end.
