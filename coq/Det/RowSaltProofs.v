(* C07 proofs, part 3: the hash salt is a relabelling of rows and tags; stale tag-table content is harmless. *)
From Coq Require Import NArith ZArith Bool List Lia.
From ZV.Det Require Import RowSalt.
Import ListNotations.

(* ---------- the salt is an XOR relabelling ---------- *)
Local Open Scope N_scope.

Lemma hashS_split : forall w hBits mixed salt,
  hashS w hBits mixed salt = N.lxor (hashS w hBits mixed 0) (hashS w hBits 0 salt).
Proof.
  intros. unfold hashS. rewrite N.mod_0_l by (apply N.pow_nonzero; discriminate).
  rewrite N.lxor_0_r, N.lxor_0_l. apply N.shiftr_lxor.
Qed.

Lemma land_lxor_distr : forall a b m, N.land (N.lxor a b) m = N.lxor (N.land a m) (N.land b m).
Proof.
  intros. apply N.bits_inj. intro n. rewrite N.land_spec, !N.lxor_spec, !N.land_spec.
  destruct (N.testbit a n), (N.testbit b n), (N.testbit m n); reflexivity.
Qed.

Lemma row_relabel : forall w hBits mixed salt,
  row_of (hashS w hBits mixed salt) = N.lxor (row_of (hashS w hBits mixed 0)) (salt_row w hBits salt).
Proof. intros. unfold row_of, salt_row. rewrite hashS_split at 1. apply N.shiftr_lxor. Qed.

Lemma tag_relabel : forall w hBits mixed salt,
  tag_of (hashS w hBits mixed salt) = N.lxor (tag_of (hashS w hBits mixed 0)) (salt_tag w hBits salt).
Proof. intros. unfold tag_of, salt_tag. rewrite hashS_split at 1. apply land_lxor_distr. Qed.

Lemma lxor_cancel_r : forall a b c, N.lxor a c = N.lxor b c -> a = b.
Proof.
  intros a b c H. assert (H2 : N.lxor (N.lxor a c) c = N.lxor (N.lxor b c) c) by (rewrite H; reflexivity).
  rewrite !N.lxor_assoc, !N.lxor_nilpotent, !N.lxor_0_r in H2. exact H2.
Qed.

(* two positions fall in the same row / carry the same tag under salt s  iff  they do under salt 0 *)
Theorem salt_preserves_row_collisions : forall w hBits x y salt,
  row_of (hashS w hBits x salt) = row_of (hashS w hBits y salt) <->
  row_of (hashS w hBits x 0) = row_of (hashS w hBits y 0).
Proof.
  intros. rewrite (row_relabel w hBits x salt), (row_relabel w hBits y salt). split.
  - apply lxor_cancel_r.
  - intros ->. reflexivity.
Qed.

Theorem salt_preserves_tag_collisions : forall w hBits x y salt,
  tag_of (hashS w hBits x salt) = tag_of (hashS w hBits y salt) <->
  tag_of (hashS w hBits x 0) = tag_of (hashS w hBits y 0).
Proof.
  intros. rewrite (tag_relabel w hBits x salt), (tag_relabel w hBits y salt). split.
  - apply lxor_cancel_r.
  - intros ->. reflexivity.
Qed.

Lemma tag_eqb_salt : forall w hBits x y s s',
  N.eqb (tag_of (hashS w hBits y s)) (tag_of (hashS w hBits x s)) =
  N.eqb (tag_of (hashS w hBits y s')) (tag_of (hashS w hBits x s')).
Proof.
  intros. destruct (N.eqb_spec (tag_of (hashS w hBits y s)) (tag_of (hashS w hBits x s))) as [H|H];
  destruct (N.eqb_spec (tag_of (hashS w hBits y s')) (tag_of (hashS w hBits x s'))) as [H'|H']; try reflexivity.
  - exfalso. apply H'. apply salt_preserves_tag_collisions in H. apply salt_preserves_tag_collisions. exact H.
  - exfalso. apply H. apply salt_preserves_tag_collisions in H'. apply salt_preserves_tag_collisions. exact H'.
Qed.

(* ---------- stale slots are harmless ---------- *)
Local Open Scope Z_scope.

Definition all_below (low : Z) (r : list slot) : Prop := forall e, In e r -> snd e < low.

Lemma candidates_stale : forall tag low n r, all_below low r -> candidates tag low n r = [].
Proof.
  induction r as [|[t i] r IH]; intros H; [reflexivity|]. cbn [candidates]. destruct n as [|a]; [reflexivity|].
  assert (Hi : i < low) by (apply (H (t, i)); left; reflexivity).
  destruct (N.eqb t tag).
  - apply Z.ltb_lt in Hi. rewrite Hi. reflexivity.
  - apply IH. intros e He. apply H. right. exact He.
Qed.

Lemma candidates_app_stale : forall tag low fresh n s1 s2, all_below low s1 -> all_below low s2 ->
  candidates tag low n (fresh ++ s1) = candidates tag low n (fresh ++ s2).
Proof.
  induction fresh as [|[t i] f IH]; intros n s1 s2 H1 H2.
  - cbn [app]. rewrite !candidates_stale by assumption. reflexivity.
  - cbn [app candidates]. destruct n as [|a]; [reflexivity|].
    destruct (N.eqb t tag); [destruct (i <? low); [reflexivity | f_equal; apply IH; assumption] | apply IH; assumption].
Qed.

(* insertion keeps the shape  fresh ++ stale  (the overwritten slot is the last one) *)
Lemma removelast_app_nonempty : forall (A : Type) (l1 l2 : list A), l2 <> [] -> removelast (l1 ++ l2) = l1 ++ removelast l2.
Proof. intros. apply removelast_app. assumption. Qed.

Lemma all_below_removelast : forall low r, all_below low r -> all_below low (removelast r).
Proof.
  intros low r H e He. apply H. clear H. induction r as [|x t IH]; [contradiction|].
  destruct t as [|y t']; [contradiction|]. cbn [removelast] in He. destruct He as [->|He]; [left; reflexivity|].
  right. apply IH. exact He.
Qed.

(* Two tag rows that received the same insertions (newest first: [fresh]) and differ only in their older content -
   garbage of an earlier compression on one side, zeros on the other - yield the same candidates, as long as
   every stale slot holds an index below lowLimit (Det/ResetProofs: after a reset this is every table cell). *)
Theorem stale_slots_harmless : forall tag low n fresh stale1 stale2,
  all_below low stale1 -> all_below low stale2 ->
  candidates tag low n (fresh ++ stale1) = candidates tag low n (fresh ++ stale2).
Proof. intros. apply candidates_app_stale; assumption. Qed.

Theorem insert_keeps_shape : forall e fresh stale low, all_below low stale ->
  exists fresh' stale', row_insert e (fresh ++ stale) = fresh' ++ stale' /\ all_below low stale' /\
                        (stale <> [] -> fresh' = e :: fresh).
Proof.
  intros e fresh stale low H. destruct stale as [|s0 st] eqn:HS.
  - exists (row_insert e fresh), []. rewrite app_nil_r. split; [rewrite app_nil_r; reflexivity|]. split.
    + intros x Hx. contradiction.
    + intros Hn. contradiction.
  - exists (e :: fresh), (removelast (s0 :: st)). split.
    + unfold row_insert. rewrite removelast_app by discriminate. reflexivity.
    + split; [apply all_below_removelast; exact H | reflexivity].
Qed.

(* MAIN THEOREM (hash_salt_harmless).
   Context A (reused): salt s, the row of position x holds the entries inserted during this frame, newest first
   (positions ys, each stored with ITS tag under salt s), followed by arbitrary stale slots whose indices are below
   lowLimit.  Context B (fresh): salt s', same insertions under salt s', followed by other stale slots (zeros).
   Then ZSTD_RowFindBestMatch sees the same candidate list: neither the salt nor the stale tags matter. *)
Definition mixed_of := N -> N.    (* position -> (read bytes * prime) mod 2^w : a function of the input only *)

Theorem hash_salt_harmless : forall (w hBits : N) (mix : Z -> N) (x : Z) (ys : list Z) (s s' : N)
                                    (stale stale' : list slot) (low : Z) (n : nat),
  all_below low stale -> all_below low stale' ->
  candidates (tag_of (hashS w hBits (mix x) s)) low n
             (map (fun y => (tag_of (hashS w hBits (mix y) s), y)) ys ++ stale) =
  candidates (tag_of (hashS w hBits (mix x) s')) low n
             (map (fun y => (tag_of (hashS w hBits (mix y) s'), y)) ys ++ stale').
Proof.
  intros w hBits mix x ys s s' stale stale' low n H1 H2. revert n.
  induction ys as [|y t IH]; intros n.
  - cbn [map app]. rewrite !candidates_stale by assumption. reflexivity.
  - cbn [map app candidates]. destruct n as [|a]; [reflexivity|].
    rewrite (tag_eqb_salt w hBits (mix x) (mix y) s s').
    destruct (N.eqb (tag_of (hashS w hBits (mix y) s')) (tag_of (hashS w hBits (mix x) s'))).
    + destruct (y <? low); [reflexivity | f_equal; apply IH].
    + apply IH.
Qed.

Example salt_example :
  (* hashLog 10 + 8 tag bits out of a 32-bit mix *)
  row_of (hashS 32 18 3000000000 123456789) = N.lxor (row_of (hashS 32 18 3000000000 0)) (salt_row 32 18 123456789)
  /\ candidates 7%N 100 4 [(7%N, 150); (3%N, 140); (7%N, 120); (7%N, 50); (7%N, 4000000000)] = [150; 120].
Proof. vm_compute. split; reflexivity. Qed.
