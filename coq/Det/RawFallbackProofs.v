(* C07, round 2: proofs about the block emission decision (model: RawFallback.v). *)
From Coq Require Import ZArith Bool List Lia.
From ZV.Det Require Import RawFallback.
Import ListNotations.
Local Open Scope Z_scope.

Ltac cases :=
  repeat match goal with
         | |- context [?a <? ?b] => let E := fresh "E" in destruct (a <? b) eqn:E; [apply Z.ltb_lt in E | apply Z.ltb_ge in E]
         | |- context [?a <=? ?b] => let E := fresh "E" in destruct (a <=? b) eqn:E; [apply Z.leb_le in E | apply Z.leb_gt in E]
         | H : context [?a <? ?b] |- _ => let E := fresh "E" in destruct (a <? b) eqn:E; [apply Z.ltb_lt in E | apply Z.ltb_ge in E]
         | H : context [?a <=? ?b] |- _ => let E := fresh "E" in destruct (a <=? b) eqn:E; [apply Z.leb_le in E | apply Z.leb_gt in E]
         end.

(* with room for the entropy stage the capacity does not matter: two capacities that both get the block emitted get
   the same block *)
Theorem block_capacity_independent_with_room : forall csize need srcSize strat cap1 cap2,
  need + blockHeaderSize <= cap1 -> need + blockHeaderSize <= cap2 ->
  fst (emit_block csize need srcSize strat cap1) <> 0 -> fst (emit_block csize need srcSize strat cap2) <> 0 ->
  emit_block csize need srcSize strat cap1 = emit_block csize need srcSize strat cap2.
Proof.
  intros csize need srcSize strat cap1 cap2 H1 H2. unfold emit_block, entropy_compress, entropy_internal, blockHeaderSize in *.
  replace (cap1 - 3 <? need) with false by (symmetry; apply Z.ltb_ge; lia).
  replace (cap2 - 3 <? need) with false by (symmetry; apply Z.ltb_ge; lia).
  destruct csize as [|c|c]; cases; simpl; intros; try reflexivity; try congruence; try lia.
Qed.

(* the ONLY way a tighter capacity changes the bytes of a block that is still emitted: the block is stored raw where a
   roomy buffer gets it compressed, and the capacity lies in [srcSize + 3, need + 3) *)
Theorem differing_success_is_the_raw_fallback : forall csize need srcSize strat cap big,
  0 <= csize <= need -> 0 <= srcSize -> need + blockHeaderSize <= big -> srcSize + blockHeaderSize <= big ->
  fst (emit_block csize need srcSize strat cap) <> 0 ->
  emit_block csize need srcSize strat cap <> emit_block csize need srcSize strat big ->
  emit_block csize need srcSize strat cap = (1, srcSize + blockHeaderSize) /\
  fst (emit_block csize need srcSize strat big) = 2 /\
  srcSize + blockHeaderSize <= cap < need + blockHeaderSize.
Proof.
  intros csize need srcSize strat cap big Hc Hs Hb Hb2 Hok Hne.
  unfold emit_block, entropy_compress, entropy_internal, blockHeaderSize in *.
  replace (big - 3 <? need) with false in * by (symmetry; apply Z.ltb_ge; lia).
  destruct (cap - 3 <? need) eqn:E1; [apply Z.ltb_lt in E1 | apply Z.ltb_ge in E1].
  - destruct (srcSize <=? cap - 3) eqn:E2; [apply Z.leb_le in E2 | simpl in Hok; congruence].
    replace (srcSize + 3 <=? cap) with true in * by (symmetry; apply Z.leb_le; lia).
    destruct csize as [|c|c]; [| | lia].
    + exfalso. apply Hne. replace (srcSize + 3 <=? big) with true by (symmetry; apply Z.leb_le; lia). reflexivity.
    + destruct (srcSize - minGain srcSize strat <=? Z.pos c) eqn:E3.
      * exfalso. apply Hne. replace (srcSize + 3 <=? big) with true by (symmetry; apply Z.leb_le; lia). reflexivity.
      * simpl. repeat split; lia.
  - exfalso. apply Hne.
    destruct csize as [|c|c]; [| | lia].
    + cases; try reflexivity; simpl in Hok; try congruence; lia.
    + destruct (srcSize - minGain srcSize strat <=? Z.pos c) eqn:E3; [| reflexivity].
      cases; try reflexivity; simpl in Hok; try congruence; lia.
Qed.

Lemma pair_Z_eq_dec : forall a b : Z * Z, {a = b} + {a <> b}.
Proof. intros [a1 a2] [b1 b2]. destruct (Z.eq_dec a1 b1), (Z.eq_dec a2 b2); subst; [left; reflexivity | right | right | right]; congruence. Qed.

(* blocks whose minimal gain covers the slack of the entropy stage are immune: whenever the block is emitted at all,
   it is the block a roomy buffer gets *)
Theorem blocks_with_enough_gain_are_immune : forall K csize need srcSize strat cap big,
  0 <= csize <= need -> 0 <= srcSize -> need <= csize + K -> K <= minGain srcSize strat ->
  need + blockHeaderSize <= big -> srcSize + blockHeaderSize <= big ->
  fst (emit_block csize need srcSize strat cap) <> 0 ->
  emit_block csize need srcSize strat cap = emit_block csize need srcSize strat big.
Proof.
  intros K csize need srcSize strat cap big Hc Hs Hk Hg Hb Hb2 Hok.
  destruct (pair_Z_eq_dec (emit_block csize need srcSize strat cap) (emit_block csize need srcSize strat big)) as [E|E]; [exact E |].
  exfalso.
  destruct (differing_success_is_the_raw_fallback csize need srcSize strat cap big Hc Hs Hb Hb2 Hok E) as [_ [H2 H3]].
  unfold emit_block, entropy_compress, entropy_internal, blockHeaderSize in H2, H3.
  replace (big - 3 <? need) with false in H2 by (symmetry; apply Z.ltb_ge; unfold blockHeaderSize in Hb; lia).
  destruct csize as [|c|c]; [| | lia].
  - destruct (srcSize + 3 <=? big); simpl in H2; congruence.
  - destruct (srcSize - minGain srcSize strat <=? Z.pos c) eqn:E3; [apply Z.leb_le in E3 | apply Z.leb_gt in E3].
    + destruct (srcSize + 3 <=? big); simpl in H2; congruence.
    + lia.
Qed.

(* the recorded finding block-raw-fallback-outcap with the numbers of the 37-byte repro (level 1: 6 bytes of frame header,
   32 bytes of compressed block, the sequence bit-stream wants 41 bytes of room): capacity 50 vs 46 *)
Theorem raw_fallback_depends_on_capacity :
  emit_block 32 41 37 1 (50 - 6) = (2, 35) /\ emit_block 32 41 37 1 (46 - 6) = (1, 40) /\ emit_block 32 41 37 1 (45 - 6) = (0, 0).
Proof. repeat split; reflexivity. Qed.
