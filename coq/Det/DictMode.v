(* C07 model, part 9: how a compression context decides what to do with a digested dictionary (CDict) when a frame
   starts: reference its tables in place (attach), copy its tables into the context, or ignore the tables and load
   the dictionary content again with the context's own parameters.
   Source: lib/compress/zstd_compress.c  ZSTD_compressBegin_internal (the condition in front of
           ZSTD_resetCCtx_usingCDict: ZSTD_USE_CDICT_PARAMS_SRCSIZE_CUTOFF / _DICTSIZE_MULTIPLIER, ZSTD_dictForceLoad),
           ZSTD_shouldAttachDict (attachDictSizeCutoffs, dedicatedDictSearch, attachDictPref, forceWindow),
           ZSTD_resetCCtx_usingCDict.
   The decision reads the CDict, the parameters of THIS frame and the pledged source size of THIS frame - nothing the
   context remembers.  NO proofs in this file. *)
From Coq Require Import ZArith Bool List.
Import ListNotations.
Local Open Scope Z_scope.

Definition CONTENTSIZE_UNKNOWN : Z := 18446744073709551615.
Definition USE_CDICT_PARAMS_SRCSIZE_CUTOFF : Z := 131072.       (* 128 KB; local macro, tied by harness/c07_det.c "K" line *)
Definition USE_CDICT_PARAMS_DICTSIZE_MULTIPLIER : Z := 6.
(* attachDictSizeCutoffs[ZSTD_STRATEGY_MAX+1] *)
Definition attachDictSizeCutoffs : list Z := [8192; 8192; 16384; 32768; 32768; 32768; 32768; 32768; 8192; 8192].

(* ZSTD_dictAttachPref_e *)
Definition dictDefaultAttach : Z := 0.
Definition dictForceAttach : Z := 1.
Definition dictForceCopy : Z := 2.
Definition dictForceLoad : Z := 3.

Record cdinfo : Type := mkCD {
  cd_size : Z;            (* cdict->dictContentSize *)
  cd_level : Z;           (* cdict->compressionLevel *)
  cd_strategy : Z;        (* cdict->matchState.cParams.strategy *)
  cd_dds : bool           (* cdict->matchState.dedicatedDictSearch *)
}.

Inductive dmode : Type := DLoad | DAttach | DCopy.

(* the condition of ZSTD_compressBegin_internal *)
Definition use_cdict_tables (cd : cdinfo) (pledged attachPref : Z) : bool :=
  (cd_size cd >? 0) &&
  ((pledged <? USE_CDICT_PARAMS_SRCSIZE_CUTOFF) || (pledged <? cd_size cd * USE_CDICT_PARAMS_DICTSIZE_MULTIPLIER)
   || (pledged =? CONTENTSIZE_UNKNOWN) || (cd_level cd =? 0)) &&
  negb (attachPref =? dictForceLoad).

(* ZSTD_shouldAttachDict *)
Definition should_attach (cd : cdinfo) (pledged attachPref : Z) (forceWindow : bool) : bool :=
  let cutoff := nth (Z.to_nat (cd_strategy cd)) attachDictSizeCutoffs 0 in
  cd_dds cd ||
  (((pledged <=? cutoff) || (pledged =? CONTENTSIZE_UNKNOWN) || (attachPref =? dictForceAttach))
   && negb (attachPref =? dictForceCopy) && negb forceWindow).

Definition dict_mode (cd : cdinfo) (pledged attachPref : Z) (forceWindow : bool) : dmode :=
  if use_cdict_tables cd pledged attachPref then
    if should_attach cd pledged attachPref forceWindow then DAttach else DCopy
  else DLoad.

Definition mode_code (m : dmode) : Z := match m with DLoad => 0 | DAttach => 1 | DCopy => 2 end.
