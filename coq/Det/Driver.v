(* C07: entry points of the extracted model for the lock-step runs (ml/c07_driver.ml has no logic).
   dispatch opcode args -> integers to compare with what harness/c07_det.c / c07_opt.c observed. *)
From Coq Require Import ZArith NArith Bool List.
From ZV.Gen Require Import Gen_Sizes.
From ZV.Index Require Import Window Overflow.
From ZV.Det Require Import ResetModel CwkspClean RowSalt OptStats MtPartition StreamPartition BlockState DictMode ApiState RawFallback.
From ZV.Det Require StableIn.
From ZV.Det Require MtParams.
Import ListNotations.
Local Open Scope Z_scope.

Definition zb (b : bool) : Z := if b then 1 else 0.
Definition bz (z : Z) : bool := negb (z =? 0).
Definition nthz (l : list Z) (i : nat) : Z := nth i l 0.

(* 1: the match-state part of ZSTD_resetCCtx_internal on an observed previous state.
   args: init idx lowLimit dictLimit ntu lde dms lls salt entropy loadedDictSize resized row cdictCopied
   ->    doReset idx' lowLimit' dictLimit' ntu' lde' dms' lls' salt' *)
Definition d_reset (a : list Z) : list Z :=
  let w := mkWindow (nthz a 1) 0 0 (nthz a 3) (nthz a 2) 0 in
  let m := mkM (bz (nthz a 0)) w (nthz a 4) (nthz a 5) (bz (nthz a 6)) (nthz a 7) (nthz a 8) (nthz a 9) [] 0 0 0 in
  let p := mkR (if bz (nthz a 11) then Some [] else None) (nthz a 10) 0 0 0 (bz (nthz a 12)) in
  let r := reset m p in
  [zb (needs_index_reset m p); E r; lowLimit (m_window r); dictLimit (m_window r); m_nextToUpdate r;
   m_loadedDictEnd r; zb (m_dms r); m_litLengthSum r;
   if bz (nthz a 13) then salt_after_cdict_copy m p else m_hashSalt r].

(* 2: the workspace pointers through the reservation sequence of ZSTD_resetCCtx_internal.
   args: start size oe te tve as ios phase | resized newStart newSize isStaticObjs indexReset t1 t2 t3 tagBytes topBytes
   (offsets relative to start; topBytes = everything reserved from the top after the tag table, observed)
   -> ws_fields *)
Definition d_cwksp (a : list Z) : list Z :=
  let start := nthz a 0 in
  let w := mkWs start (start + nthz a 1) (start + nthz a 2) (start + nthz a 3) (start + nthz a 4) (start + nthz a 5)
                (start + nthz a 6) false (nthz a 7) (fun _ => Junk) in
  let objs := [Z.of_N sizeof_ZSTD_compressedBlockState_t; Z.of_N sizeof_ZSTD_compressedBlockState_t;
               Z.of_N c_TMP_WORKSPACE_SIZE] in
  let ops := reset_ops (bz (nthz a 8)) (nthz a 9) (nthz a 10) objs (bz (nthz a 12))
                       (nthz a 13) (nthz a 14) (nthz a 15) (nthz a 16) 0 (nthz a 17) in
  ws_fields (wrun w ops).

(* 3: ZSTD_advanceHashSalt *)
Definition d_salt (a : list Z) : list Z := [advanceHashSalt (nthz a 0) (nthz a 1)].

(* 4: targetSectionSize / targetPrefixSize.  args: jobSize windowLog chainLog strategy ldm overlapLog *)
Definition d_mt_target (a : list Z) : list Z :=
  [targetSectionSize (nthz a 0) (nthz a 1) (nthz a 2) (nthz a 3) (bz (nthz a 4)) (nthz a 5);
   overlapSize (nthz a 1) (nthz a 2) (nthz a 3) (bz (nthz a 4)) (nthz a 5)].

(* 5: job list under the never-blocking schedule.  args: target prefixTarget n1 dir1 n2 dir2 ...
   -> size prefix first last per job *)
Fixpoint pairs (l : list Z) : list (Z * Z) :=
  match l with a :: b :: t => (a, b) :: pairs t | _ => [] end.
Fixpoint with_prefix (ptarget prev : Z) (first : bool) (l : list job) : list Z :=
  match l with
  | [] => []
  | j :: t => [j_size j; (if first then 0 else Z.min prev ptarget); zb (j_first j); zb (j_last j)]
              ++ with_prefix ptarget (j_size j) false t
  end.
Definition d_mt_jobs (a : list Z) : list Z :=
  let ops := pairs (skipn 2 a) in
  let envs := repeat (mkEnv true false true) (4 * length ops + 4 * Z.to_nat (fold_left (fun s o => s + fst o / Z.max 1 (nthz a 0) + 2) ops 0)) in
  match run_ops (nthz a 0) mt_init ops envs with
  | Some s => with_prefix (nthz a 1) 0 true (jobs s)
  | None => [-1]
  end.

(* 6: ZSTD_rescaleFreqs.  args: compressedLiterals optLevel hasDict priorLitLengthSum nsrc src...
                                litFreq(256) llFreq(36) mlFreq(53) ofFreq(32) [dict: lit(256) ll(36) ml(53) of(32) bit costs] *)
Definition d_opt (a : list Z) : list Z :=
  let cl := bz (nthz a 0) in
  let lvl := nthz a 1 in
  let hasd := bz (nthz a 2) in
  let lls := nthz a 3 in
  let nsrc := Z.to_nat (nthz a 4) in
  let rest := skipn 5 a in
  let src := firstn nsrc rest in
  let r1 := skipn nsrc rest in
  let lf := firstn 256 r1 in let r2 := skipn 256 r1 in
  let llf := firstn 36 r2 in let r3 := skipn 36 r2 in
  let mlf := firstn 53 r3 in let r4 := skipn 53 r3 in
  let off := firstn 32 r4 in let r5 := skipn 32 r4 in
  let d := if hasd then Some (mkDC (firstn 256 r5) (firstn 36 (skipn 256 r5)) (firstn 53 (skipn 292 r5)) (firstn 32 (skipn 345 r5)))
           else None in
  let s := mkOpt lf llf mlf off (sum_u32 lf) lls (sum_u32 mlf) (sum_u32 off) 0 0 0 0 0 in
  opt_fields (rescaleFreqs s src cl lvl d).

(* 7: row/tag of a salted hash.  args: w hBits mixed salt -> row tag row0 tag0 saltRow saltTag *)
Definition d_hash (a : list Z) : list Z :=
  let w := Z.to_N (nthz a 0) in let hb := Z.to_N (nthz a 1) in
  let mx := Z.to_N (nthz a 2) in let sl := Z.to_N (nthz a 3) in
  map Z.of_N [row_of (hashS w hb mx sl); tag_of (hashS w hb mx sl); row_of (hashS w hb mx 0); tag_of (hashS w hb mx 0);
              salt_row w hb sl; salt_tag w hb sl].


(* 8: the chunks of buffered streaming under the never-blocking oracle (everything compressed straight into dst);
   [shortcut] = 1: the capacity always allows the e_end shortcut.
   args: blockSize inBuffSize firstTarget shortcut n1 dir1 n2 dir2 ...
   -> per piece: (bytes handed to the block compressor so far, bytes left in the input buffer), then
      number of chunks, size of the last chunk, its last flag; [-1] if the model does not complete *)
Definition sum_chunks (l : list (Z * bool)) : Z := fold_left (fun a c => a + fst c) l 0.
Fixpoint stream_trace (B IS t0 : Z) (sc : bool) (s : sst) (ps : list (Z * Z)) : list Z :=
  match ps with
  | [] => match rev (s_chunks s) with
          | [] => [0; 0; 0]
          | c :: _ => [Z.of_nat (length (s_chunks s)); fst c; zb (snd c)]
          end
  | (n, dir) :: t =>
      let envs := repeat (mkSE sc true true) (8 + Z.to_nat (n / Z.max 1 B)) in
      match s_piece 4 B IS t0 s n dir (frames_done s) envs with
      | Some (s1, _) => [sum_chunks (s_chunks s1); s_pos s1 - s_toc s1] ++ stream_trace B IS t0 sc s1 t
      | None => [-1]
      end
  end.
Definition d_stream (a : list Z) : list Z :=
  stream_trace (nthz a 0) (nthz a 1) (nthz a 2) (bz (nthz a 3)) (s_init (nthz a 2) []) (pairs (skipn 4 a)).

(* 9: ZSTD_reset_compressedBlockState on an arbitrary previous state -> rep0 rep1 rep2 huf of ml ll *)
Definition d_blockstate (a : list Z) : list Z :=
  cb_fields (reset_cbstate (mkCB [nthz a 0; nthz a 1; nthz a 2] (nthz a 3) (nthz a 4) (nthz a 5) (nthz a 6))).

(* 10: the LDM part of the reset -> end index, lowLimit, dictLimit, loadedDictEnd, number of non-zero table bytes *)
Definition d_ldm (a : list Z) : list Z :=
  ldm_fields (reset_ldm (mkLdm (nthz a 0) (nthz a 1) (nthz a 2) (nthz a 3) [1; 2; 3] [4; 5]) 16 4).

(* 11: the constants of Det/DictMode.v -> srcsize cutoff, multiplier, the 10 attach cutoffs, the 4 preference codes *)
Definition d_dict_consts (a : list Z) : list Z :=
  [USE_CDICT_PARAMS_SRCSIZE_CUTOFF; USE_CDICT_PARAMS_DICTSIZE_MULTIPLIER] ++ attachDictSizeCutoffs ++
  [dictDefaultAttach; dictForceAttach; dictForceCopy; dictForceLoad].

(* 12: attach / copy / load.  args: dictContentSize compressionLevel strategy dedicatedDictSearch pledged(-1 = unknown)
       attachDictPref forceWindow -> 0 load | 1 attach | 2 copy *)
Definition d_dict_mode (a : list Z) : list Z :=
  let pledged := if nthz a 4 <? 0 then CONTENTSIZE_UNKNOWN else nthz a 4 in
  [mode_code (dict_mode (mkCD (nthz a 0) (nthz a 1) (nthz a 2) (bz (nthz a 3))) pledged (nthz a 5) (bz (nthz a 6)))].

(* 13: the session-level API state after every call (Det/ApiState.v).  args: triples (code a b):
       1 ASet auth=a p=b | 2 ASetAll p=a | 3 ALoad d=a | 4 ARefCDict (a = 0: NULL, else Some (a, b)) | 5 APrefix d=a | 6 APledge
       | 7 AResetSession | 8 AResetParams | 9 AStreamCall | 10 AStreamEnd | 11 ACompress2 | 12 ASimple | 13 AGenSeq | 14 ACopyInto (round 3)
   -> per call: accepted, stage != init, localDict.dict, localDict.cdict, cctx->cdict, prefixDict.dict, collectSequences,
      bufferedPolicy == buffered (round 3) *)
Fixpoint triples (l : list Z) : list (Z * Z * Z) :=
  match l with a :: b :: c :: t => (a, b, c) :: triples t | _ => [] end.
Definition aop_of (t : Z * Z * Z) : aop :=
  let '(c, a, b) := t in
  if c =? 1 then ASet (bz a) b else if c =? 2 then ASetAll a else if c =? 3 then ALoad a
  else if c =? 4 then ARefCDict (if a =? 0 then None else Some (a, b)) else if c =? 5 then APrefix a
  else if c =? 6 then APledge else if c =? 7 then AResetSession else if c =? 8 then AResetParams
  else if c =? 9 then AStreamCall else if c =? 10 then AStreamEnd else if c =? 11 then ACompress2
  else if c =? 13 then AGenSeq else if c =? 14 then ACopyInto else ASimple.
Definition d_api (a : list Z) : list Z := atrace3 a_fresh (map aop_of (triples a)).

(* 14: one block into [cap] bytes.  args: csize need srcSize strategy cap -> kind (0 refused, 1 raw, 2 compressed), bytes *)
Definition d_emit (a : list Z) : list Z :=
  let r := emit_block (nthz a 0) (nthz a 1) (nthz a 2) (nthz a 3) (nthz a 4) in [fst r; snd r].
(* 15: ZSTD_minGain.  args: srcSize strategy *)
Definition d_mingain (a : list Z) : list Z := [minGain (nthz a 0) (nthz a 1)].
(* 16: the window after a dictionary / prefix of n bytes at D and the first input of m bytes at S, on a fresh window.
   args: lit D n S m force -> dictLimit lowLimit (index of S) hasExtDict (end index) *)
Definition d_contig (a : list Z) : list Z :=
  let w1 := fst (window_update (window_init (nthz a 0)) (nthz a 1) (nthz a 2) false) in
  let w2 := fst (window_update w1 (nthz a 3) (nthz a 4) (bz (nthz a 5))) in
  [dictLimit w2; lowLimit w2; idx w2 (nthz a 3); zb (window_hasExtDict w2); idx w2 (nextSrc w2)].

(* 17 (round 3): the stable-input-buffer session (Det/StableIn.v).  args: old(0/1) blockSize, then quadruples src size pos dir(0 continue,
   1 flush, 2 end, 3 = ZSTD_CCtx_reset(session_only), the other three ignored) -> per operation: accepted, lo - src, hi - src of the bytes
   handed to the block compressor, streamStage != init, stableIn_notConsumed; then BLOCKSIZE_MAX *)
Fixpoint quads (l : list Z) : list StableIn.sop :=
  match l with
  | a :: b :: c :: e :: t =>
      (if e =? 3 then StableIn.SReset
       else StableIn.SCall (StableIn.mkC a b c (if e =? 0 then StableIn.DContinue else if e =? 1 then StableIn.DFlush else StableIn.DEnd))) :: quads t
  | _ => []
  end.
Definition d_stablein (a : list Z) : list Z :=
  StableIn.strace (bz (nthz a 0)) (nthz a 1) StableIn.s_fresh (quads (skipn 2 a)) ++ [StableIn.BLOCKSIZE_MAX].

(* 18 (round 3): mid-frame parameter updates of a multithreaded frame (Det/MtParams.v).  args: target fullAt (index of the
   ZSTDMT_compressStream_generic call that finds the jobs table full, -1 = never), then triples (kind a b): 0 = input call of a bytes with
   directive b, 1 = accepted ZSTD_CCtx_setParameter making the parameters identity a.  -> (size, parameters) of every job carrying input,
   or -1 when the schedule of 64 calls runs out *)
Fixpoint mtp_ops (l : list Z) : list MtParams.pop :=
  match l with k :: a :: b :: t => (if k =? 0 then MtParams.PCall a b else MtParams.PSet a) :: mtp_ops t | _ => [] end.
Definition mtp_envs (fullAt : Z) : list env :=
  map (fun i => mkEnv true (Z.of_nat i =? fullAt) true) (seq 0 64).
Definition d_mtparams (a : list Z) : list Z :=
  match MtParams.prun (nthz a 0) MtParams.p_init (mtp_ops (skipn 2 a)) (mtp_envs (nthz a 1)) with
  | Some s => flat_map (fun x => [fst x; snd x]) (MtParams.tagged_sizes s)
  | None => [-1]
  end.

Definition dispatch (opcode : Z) (a : list Z) : list Z :=
  if opcode =? 1 then d_reset a
  else if opcode =? 2 then d_cwksp a
  else if opcode =? 3 then d_salt a
  else if opcode =? 4 then d_mt_target a
  else if opcode =? 5 then d_mt_jobs a
  else if opcode =? 6 then d_opt a
  else if opcode =? 7 then d_hash a
  else if opcode =? 8 then d_stream a
  else if opcode =? 9 then d_blockstate a
  else if opcode =? 10 then d_ldm a
  else if opcode =? 11 then d_dict_consts a
  else if opcode =? 12 then d_dict_mode a
  else if opcode =? 13 then d_api a
  else if opcode =? 14 then d_emit a
  else if opcode =? 15 then d_mingain a
  else if opcode =? 16 then d_contig a
  else if opcode =? 17 then d_stablein a
  else if opcode =? 18 then d_mtparams a
  else [].
