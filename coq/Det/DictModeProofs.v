(* C07 proofs, part 9: characterisation of the attach / copy / load decision. *)
From Coq Require Import ZArith Bool List Lia.
From ZV.Det Require Import DictMode.
Import ListNotations.
Local Open Scope Z_scope.

Theorem force_load_never_uses_tables : forall cd pledged fw, dict_mode cd pledged dictForceLoad fw = DLoad.
Proof.
  intros. unfold dict_mode, use_cdict_tables. rewrite Z.eqb_refl. cbn [negb]. rewrite andb_false_r. reflexivity.
Qed.

Theorem empty_dictionary_loads : forall cd pledged pref fw, cd_size cd <= 0 -> dict_mode cd pledged pref fw = DLoad.
Proof.
  intros cd pledged pref fw H. unfold dict_mode, use_cdict_tables.
  replace (cd_size cd >? 0) with false by (symmetry; rewrite Z.gtb_ltb; apply Z.ltb_ge; lia). reflexivity.
Qed.

Theorem force_copy_never_attaches : forall cd pledged fw, cd_dds cd = false -> dict_mode cd pledged dictForceCopy fw <> DAttach.
Proof.
  intros cd pledged fw H. unfold dict_mode, should_attach. rewrite H, Z.eqb_refl. cbn [negb orb].
  rewrite andb_false_r, andb_false_l. destruct (use_cdict_tables cd pledged dictForceCopy); discriminate.
Qed.

Theorem force_window_never_attaches : forall cd pledged pref, cd_dds cd = false -> dict_mode cd pledged pref true <> DAttach.
Proof.
  intros cd pledged pref H. unfold dict_mode, should_attach. rewrite H. cbn [negb orb]. rewrite andb_false_r.
  destruct (use_cdict_tables cd pledged pref); discriminate.
Qed.

Theorem dedicated_search_always_attaches : forall cd pledged pref fw, cd_dds cd = true ->
  use_cdict_tables cd pledged pref = true -> dict_mode cd pledged pref fw = DAttach.
Proof. intros cd pledged pref fw H U. unfold dict_mode, should_attach. rewrite U, H. reflexivity. Qed.

Theorem unknown_size_attaches_by_default : forall cd, 0 < cd_size cd ->
  dict_mode cd CONTENTSIZE_UNKNOWN dictDefaultAttach false = DAttach.
Proof.
  intros cd H. unfold dict_mode, use_cdict_tables, should_attach.
  replace (cd_size cd >? 0) with true by (symmetry; rewrite Z.gtb_ltb; apply Z.ltb_lt; lia).
  rewrite Z.eqb_refl. rewrite !orb_true_r. cbn [andb negb]. cbn. rewrite ?orb_true_r. reflexivity.
Qed.

(* a smaller (known) source never turns an attach into something else *)
Theorem attach_is_downward_closed : forall cd p1 p2 pref fw,
  0 <= p1 <= p2 -> p2 < CONTENTSIZE_UNKNOWN ->
  dict_mode cd p2 pref fw = DAttach -> dict_mode cd p1 pref fw = DAttach.
Proof.
  intros cd p1 p2 pref fw Hp Hu H. unfold dict_mode in *.
  destruct (use_cdict_tables cd p2 pref) eqn:U2; [|discriminate].
  destruct (should_attach cd p2 pref fw) eqn:A2; [|discriminate].
  assert (U1 : use_cdict_tables cd p1 pref = true).
  { unfold use_cdict_tables in *. apply andb_true_iff in U2 as (U2 & U2c). apply andb_true_iff in U2 as (U2a & U2b).
    rewrite U2a, U2c. cbn [andb]. rewrite andb_true_r.
    replace (p2 =? CONTENTSIZE_UNKNOWN) with false in U2b by (symmetry; apply Z.eqb_neq; lia).
    apply orb_true_iff in U2b as [U2b | U2b]; [|rewrite U2b; rewrite orb_true_r; reflexivity].
    apply orb_true_iff in U2b as [U2b | U2b]; [|discriminate].
    apply orb_true_iff in U2b as [U2b | U2b].
    - apply Z.ltb_lt in U2b. replace (p1 <? USE_CDICT_PARAMS_SRCSIZE_CUTOFF) with true by (symmetry; apply Z.ltb_lt; lia). reflexivity.
    - apply Z.ltb_lt in U2b. replace (p1 <? cd_size cd * USE_CDICT_PARAMS_DICTSIZE_MULTIPLIER) with true by (symmetry; apply Z.ltb_lt; lia).
      rewrite orb_true_r. reflexivity. }
  assert (A1 : should_attach cd p1 pref fw = true).
  { unfold should_attach in *. destruct (cd_dds cd); [reflexivity|]. cbn [orb] in *.
    apply andb_true_iff in A2 as (A2 & A2c). apply andb_true_iff in A2 as (A2a & A2b). rewrite A2b, A2c, !andb_true_r.
    replace (p2 =? CONTENTSIZE_UNKNOWN) with false in A2a by (symmetry; apply Z.eqb_neq; lia).
    apply orb_true_iff in A2a as [A2a | A2a]; [|rewrite A2a; rewrite orb_true_r; reflexivity].
    apply orb_true_iff in A2a as [A2a | A2a]; [|discriminate].
    apply Z.leb_le in A2a.
    match goal with |- context [p1 <=? ?c] => replace (p1 <=? c) with true by (symmetry; apply Z.leb_le; lia) end.
    reflexivity. }
  rewrite U1, A1. reflexivity.
Qed.

Example dict_mode_examples :
  let cd := mkCD 20000 3 2 false in
  dict_mode cd 10000 0 false = DAttach /\ dict_mode cd 100000 0 false = DCopy /\ dict_mode cd 200000 0 false = DLoad /\
  dict_mode cd 100000 1 false = DAttach /\ dict_mode cd 10000 2 false = DCopy /\ dict_mode cd 10000 3 false = DLoad.
Proof. vm_compute. repeat split; reflexivity. Qed.
