(* C07, round 3: proofs about mid-frame parameter updates of a multithreaded frame (model: MtParams.v). *)
From Coq Require Import ZArith Bool List Lia.
From ZV.Det Require Import MtPartition MtParams.
Import ListNotations.
Local Open Scope Z_scope.

Definition free_env : env := mkEnv true false true.
Definition full_env : env := mkEnv true true true.

(* finding mt-jobtable-full-pending-section-gets-new-params.  target = 4 bytes per section; the caller gives one complete
   section with ZSTD_e_continue, changes the parameters (0 -> 7), ends the frame with one more byte.
   Schedule A: the jobs table always has room.  Schedule B: it is full during the first call only (a slow reader).
   Same calls, same job sizes - but the first section is compressed with the old parameters in A and the new ones in B *)
Theorem mt_param_update_schedule_dependent :
  let ops := [PCall 4 e_continue; PSet 7; PCall 1 e_end] in
  option_map tagged_sizes (prun 4 p_init ops (repeat free_env 6)) = Some [(4, 0); (1, 7)] /\
  option_map tagged_sizes (prun 4 p_init ops (full_env :: repeat free_env 6)) = Some [(4, 7); (1, 7)].
Proof. split; vm_compute; reflexivity. Qed.

(* a piece that does not end on a section boundary is immune: the rest of the piece is only accepted once the job of the
   completed section exists, so the section keeps the old parameters under both schedules *)
Theorem mt_param_update_unaligned_piece_immune :
  let ops := [PCall 5 e_continue; PSet 7; PCall 1 e_end] in
  option_map tagged_sizes (prun 4 p_init ops (repeat free_env 8)) = Some [(4, 0); (2, 7)] /\
  option_map tagged_sizes (prun 4 p_init ops (full_env :: repeat free_env 8)) = Some [(4, 0); (2, 7)].
Proof. split; vm_compute; reflexivity. Qed.

(* every prepared job has its parameters recorded, whatever the schedule *)
Lemma prun_op_tags : forall target envs s r dir cur tags m1 tags1 rest,
  length tags = length (jobs s) ->
  (forall s0 r0 e, (length (jobs s0) <= length (jobs (fst (mt_call target s0 r0 dir e))))%nat) ->
  prun_op target s r dir cur tags envs = Some (m1, tags1, rest) -> length tags1 = length (jobs m1).
Proof.
  induction envs as [|e rest0 IH]; intros s r dir cur tags m1 tags1 rest L Mono H; simpl in H; [discriminate H |].
  destruct (mt_call target s r dir e) as [s1 r1] eqn:E.
  assert (L1 : length (tags ++ repeat cur (length (jobs s1) - length (jobs s))) = length (jobs s1)).
  { rewrite app_length, repeat_length, L. pose proof (Mono s r e) as M. rewrite E in M. simpl in M. lia. }
  destruct (op_done s1 r1 dir).
  - injection H as <- <- _. exact L1.
  - eapply IH; [exact L1 | exact Mono | exact H].
Qed.

(* the parameter updates never change the job partition: for EVERY schedule the job-creation machine goes through exactly the states
   of the same calls without the updates (so theorems mt_partition_schedule_independent / mt_two_schedules apply unchanged, and a
   schedule can only change WHICH parameters a section gets) *)
Fixpoint erase (ops : list pop) : list (Z * Z) :=
  match ops with [] => [] | PCall n d :: t => (n, d) :: erase t | PSet _ :: t => erase t end.

Lemma prun_op_mt : forall target envs s r dir cur tags,
  option_map (fun x : mt * list Z * list env => (fst (fst x), snd x)) (prun_op target s r dir cur tags envs) = run_op target s r dir envs.
Proof.
  induction envs as [|e rest IH]; intros s r dir cur tags; simpl; [reflexivity |].
  destruct (mt_call target s r dir e) as [s1 r1]. destruct (op_done s1 r1 dir); [reflexivity | apply IH].
Qed.

Theorem param_updates_keep_the_partition : forall target ops s envs,
  option_map p_mt (prun target s ops envs) = run_ops target (p_mt s) (erase ops) envs.
Proof.
  induction ops as [|o t IH]; intros s envs; simpl; [reflexivity |].
  destruct o as [n dir | p]; simpl.
  - pose proof (prun_op_mt target envs (p_mt s) n dir (p_req s) (p_tags s)) as H.
    destruct (prun_op target (p_mt s) n dir (p_req s) (p_tags s) envs) as [[[m1 tags1] rest]|]; simpl in H; rewrite <- H.
    + rewrite IH. reflexivity.
    + reflexivity.
  - rewrite IH. reflexivity.
Qed.
