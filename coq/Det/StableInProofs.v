(* C07, round 3: proofs about the stable-input-buffer mode (model: StableIn.v). *)
From Coq Require Import ZArith Bool List Lia.
From ZV.Det Require Import StableIn.
Import ListNotations.
Local Open Scope Z_scope.

(* the bytes not consumed yet lie inside the buffer the caller showed last: 0 <= nc, and nc <= expected pos when nc > 0 *)
Definition SInv (s : sst) : Prop := 0 <= s_nc s /\ (s_nc s = 0 \/ s_nc s <= s_epos s).

(* an accepted call reads only inside the buffer of THAT call *)
Definition in_bounds (c : call) (r : res) : Prop :=
  match r with Refused => True | Read lo hi => c_src c <= lo /\ lo <= hi /\ hi <= c_src c + c_size c end.

Lemma div_mul_le : forall a b, 0 <= a -> 0 < b -> 0 <= (a / b) * b <= a.
Proof.
  intros a b Ha Hb. pose proof (Z.div_mod a b ltac:(lia)) as E. pose proof (Z.mod_pos_bound a b Hb) as M.
  pose proof (Z.div_pos a b Ha Hb) as D. nia.
Qed.

Lemma consume_ok : forall bs s c, 0 < bs -> SInv s -> 0 <= c_pos c <= c_size c ->
  (s_nc s = 0 \/ (c_src c = s_esrc s /\ c_pos c = s_epos s)) ->
  SInv (fst (consume bs s c)) /\ in_bounds c (snd (consume bs s c)).
Proof.
  intros bs [op nc es ep] [src size pos d] Hbs [I1 I2] Hp Hs; simpl in *.
  assert (Hstart : 0 <= pos - nc) by (destruct Hs as [-> | [_ ->]]; [lia | destruct I2; lia]).
  assert (Havail : 0 <= size - (pos - nc)) by lia.
  unfold consume, SInv, in_bounds; simpl.
  destruct d; simpl.
  - pose proof (div_mul_le (size - (pos - nc)) bs Havail Hbs) as [D1 D2]. split; [split; [lia | right; lia] | lia].
  - split; [split; [lia | left; lia] | lia].
  - split; [split; [lia | left; reflexivity] | lia].
Qed.

Lemma step_ok : forall bs s c, 0 < bs -> SInv s ->
  SInv (fst (step bs s c)) /\ in_bounds c (snd (step bs s c)).
Proof.
  intros bs s c Hbs I. unfold step.
  destruct ((0 <=? c_pos c) && (c_pos c <=? c_size c)) eqn:V; simpl; [| split; [exact I | exact Logic.I]].
  apply andb_true_iff in V. destruct V as [V1 V2]. apply Z.leb_le in V1. apply Z.leb_le in V2.
  destruct (s_open s) eqn:O.
  - destruct (same_buffer s c) eqn:B; [| split; [exact I | exact Logic.I]].
    unfold same_buffer in B. apply andb_true_iff in B. destruct B as [B1 B2]. apply Z.eqb_eq in B1. apply Z.eqb_eq in B2.
    apply consume_ok; [exact Hbs | exact I | lia | right; split; assumption].
  - destruct ((s_nc s =? 0) || same_buffer s c) eqn:K; simpl; [| split; [exact I | exact Logic.I]].
    assert (Hs : s_nc s = 0 \/ (c_src c = s_esrc s /\ c_pos c = s_epos s)).
    { apply orb_true_iff in K. destruct K as [K | K]; [left; apply Z.eqb_eq, K |].
      unfold same_buffer in K. apply andb_true_iff in K. destruct K as [B1 B2]. right. split; [apply Z.eqb_eq, B1 | apply Z.eqb_eq, B2]. }
    destruct (is_continue (c_dir c) && (c_size c - c_pos c + s_nc s <? BLOCKSIZE_MAX)) eqn:D.
    + (* deferred *) destruct I as [I1 I2]. simpl. unfold SInv, in_bounds; simpl. split; [split; [lia |] | lia].
      destruct Hs as [Hz | [_ Hpos]]; [right; lia | right]. destruct I2 as [Z0 | Le]; lia.
    + apply consume_ok; [exact Hbs | exact I | lia | exact Hs].
Qed.

(* for EVERY sequence of calls (any buffers, positions, directives), from a new session: every accepted call reads only inside
   the buffer it was given *)
Definition op_in_bounds (o : sop) (r : res) : Prop := match o with SCall c => in_bounds c r | SReset => True end.
Fixpoint all_in_bounds (bs : Z) (s : sst) (os : list sop) : Prop :=
  match os with [] => True | o :: t => op_in_bounds o (snd (ostep bs s o)) /\ all_in_bounds bs (fst (ostep bs s o)) t end.

Lemma ostep_ok : forall bs s o, 0 < bs -> SInv s -> SInv (fst (ostep bs s o)) /\ op_in_bounds o (snd (ostep bs s o)).
Proof.
  intros bs s [c|] Hbs I; simpl; [apply step_ok; assumption |].
  destruct s as [op nc es ep]. split; [unfold SInv; simpl; split; [apply Z.le_refl | left; reflexivity] | exact Logic.I].
Qed.

Theorem stable_input_reads_in_bounds : forall bs os, 0 < bs -> all_in_bounds bs s_fresh os.
Proof.
  intros bs os Hbs.
  assert (G : forall os s, SInv s -> all_in_bounds bs s os).
  { induction os0 as [|o t IH]; intros s I; simpl; [exact Logic.I |].
    destruct (ostep_ok bs s o Hbs I) as [I' B]. split; [exact B | apply IH, I']. }
  apply G. unfold SInv; simpl. lia.
Qed.

(* a session reset in the middle of a deferred start really forgets the deferred bytes: the next frame may use any buffer *)
Theorem reset_forgets_deferred_input : forall bs s c, 0 < bs -> 0 <= c_pos c <= c_size c ->
  exists lo hi, snd (step bs (sreset s) c) = Read lo hi /\ (lo = hi \/ c_src c + c_pos c <= lo).
Proof.
  intros bs s c Hbs [H1 H2]. unfold step, sreset; simpl.
  assert (V : (0 <=? c_pos c) && (c_pos c <=? c_size c) = true) by (apply andb_true_iff; split; apply Z.leb_le; assumption).
  rewrite V; simpl.
  destruct (is_continue (c_dir c) && (c_size c - c_pos c + 0 <? BLOCKSIZE_MAX)).
  - exists (c_src c), (c_src c). split; [reflexivity | left; reflexivity].
  - unfold consume; simpl. eexists; eexists; split; [reflexivity | right; lia].
Qed.

(* the bytes read are the caller's bytes in order: an accepted call that reads something while bytes are pending starts exactly
   where the pending bytes start in the expected buffer *)
Theorem stable_input_resumes_where_it_stopped : forall bs s c lo hi, 0 < bs -> SInv s -> 0 < s_nc s ->
  snd (step bs s c) = Read lo hi -> lo < hi -> lo = s_esrc s + s_epos s - s_nc s.
Proof.
  intros bs s c lo hi Hbs I Hnc E Hlt. unfold step in E.
  destruct ((0 <=? c_pos c) && (c_pos c <=? c_size c)); simpl in E; [| discriminate E].
  assert (Hsame : same_buffer s c = true -> c_src c = s_esrc s /\ c_pos c = s_epos s).
  { intros B. unfold same_buffer in B. apply andb_true_iff in B. destruct B as [B1 B2]. split; [apply Z.eqb_eq, B1 | apply Z.eqb_eq, B2]. }
  destruct (s_open s).
  - destruct (same_buffer s c) eqn:B; [| discriminate E]. destruct (Hsame eq_refl) as [H1 H2].
    unfold consume in E; simpl in E. injection E as <- _. lia.
  - assert (Z0 : (s_nc s =? 0) = false) by (apply Z.eqb_neq; lia). rewrite Z0 in E. simpl in E.
    destruct (same_buffer s c) eqn:B; simpl in E; [| discriminate E]. destruct (Hsame eq_refl) as [H1 H2].
    destruct (is_continue (c_dir c) && (c_size c - c_pos c + s_nc s <? BLOCKSIZE_MAX)).
    + injection E as <- <-. lia.
    + unfold consume in E; simpl in E. injection E as <- _. lia.
Qed.

(* before 0548f83: the call that ends the deferral was not controlled - the numbers of the repro (A = 100000, 1000 bytes deferred;
   then buffer B = 500000 of 5000 bytes with ZSTD_e_end): accepted, and 1000 bytes in front of B are read *)
Theorem stable_input_read_out_of_bounds_before_0548f83 :
  let s1 := fst (step_old 131072 s_fresh (mkC 100000 1000 0 DContinue)) in
  snd (step_old 131072 s1 (mkC 500000 5000 0 DEnd)) = Read 499000 505000 /\
  snd (step 131072 s1 (mkC 500000 5000 0 DEnd)) = Refused /\
  snd (step 131072 s1 (mkC 100000 6000 1000 DEnd)) = Read 100000 106000.
Proof. repeat split; vm_compute; reflexivity. Qed.

(* the hypotheses are satisfiable and the deferral really happens: three calls on one growing buffer *)
Example stable_input_example :
  strace false 131072 s_fresh [SCall (mkC 7000 1000 0 DContinue); SCall (mkC 7000 200000 1000 DContinue); SCall (mkC 7000 200100 200000 DEnd)]
  = [1; 0; 0; 0; 1000;  1; 0; 131072; 1; 68928;  1; 131072; 200100; 0; 0].
Proof. vm_compute. reflexivity. Qed.
