(* C07 proofs, part 8: the overwritten parts of the context do not remember anything. *)
From Coq Require Import ZArith NArith Bool List Lia.
From ZV.Gen Require Import Gen_Tables.
From ZV.Index Require Import Window.
From ZV.Det Require Import BlockState.
Import ListNotations.
Local Open Scope Z_scope.

Theorem block_state_reset_forgets : forall s1 s2, reset_cbstate s1 = reset_cbstate s2.
Proof. reflexivity. Qed.

Theorem block_state_reset_values : forall s,
  cb_rep (reset_cbstate s) = [1; 4; 8] /\ cb_huf (reset_cbstate s) = 0 /\ cb_of (reset_cbstate s) = 0 /\
  cb_ml (reset_cbstate s) = 0 /\ cb_ll (reset_cbstate s) = 0.
Proof. intros. repeat split. Qed.

Theorem ldm_reset_forgets : forall s1 s2 tb nb, reset_ldm s1 tb nb = reset_ldm s2 tb nb.
Proof. reflexivity. Qed.

Lemma filter_nonzero_repeat0 : forall n, filter (fun b => negb (b =? 0)) (repeat 0 n) = [].
Proof. induction n as [|n IH]; [reflexivity|]. cbn. exact IH. Qed.

Theorem ldm_reset_clean : forall s tb nb,
  forall b, In b (l_table (reset_ldm s tb nb) ++ l_buckets (reset_ldm s tb nb)) -> b = 0.
Proof.
  intros s tb nb b H. cbn [reset_ldm l_table l_buckets] in H. apply in_app_or in H as [H|H]; apply repeat_spec in H; exact H.
Qed.
