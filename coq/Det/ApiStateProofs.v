(* C07, round 2: proofs about the session-level API state (model: ApiState.v). *)
From Coq Require Import ZArith Bool List Lia.
From ZV.Det Require Import ApiState.
Import ListNotations.
Local Open Scope Z_scope.

Lemma arun_app : forall a b s, arun s (a ++ b) = arun (arun s a) b.
Proof. induction a as [|o a IH]; intros b s; simpl; [reflexivity | apply IH]. Qed.

(* ---- the sequence collector ---- *)
Lemma collect_step : forall s o, a_collect s = false -> a_collect (fst (astep s o)) = false.
Proof.
  intros [st p ld lc cd pf co bf] o H; simpl in H; subst co.
  destruct o; simpl; unfold is_init, stream_call, compress2, frame_start, reset_session, init_local_dict, set_collect,
    set_params, set_buf, clear_dicts, is_init; simpl;
  repeat match goal with
         | |- context [match ?x with _ => _ end] => destruct x; simpl
         | |- context [if ?x then _ else _] => destruct x; simpl
         end; reflexivity.
Qed.

Lemma collect_run : forall ops s, a_collect s = false -> a_collect (arun s ops) = false.
Proof. induction ops as [|o t IH]; intros s H; simpl; [exact H | apply IH, collect_step, H]. Qed.

Theorem collector_off_after_every_history : forall ops, a_collect (arun a_fresh ops) = false.
Proof. intros ops; apply collect_run; reflexivity. Qed.

(* before 74b576b: one ZSTD_generateSequences, then resets and a ZSTD_compress2 - the collector is still armed *)
Theorem collector_survived_before_fix :
  a_collect (arun_old a_fresh [AGenSeq; AResetSession; AResetParams; ACompress2]) = true.
Proof. reflexivity. Qed.

(* ---- a reset of session and parameters erases the API-level history ---- *)
(* round 3: the resets do not touch cctx->bufferedPolicy (ghost field a_buf); it is dead while the stage is init - every
   step reads it nowhere (astep never branches on a_buf) - so the statement is: equal up to a_buf, and stays so *)
Definition eqb_upto_buf (s t : api) : Prop := set_buf s false = set_buf t false.

Lemma full_reset_state : forall s, a_collect s = false ->
  eqb_upto_buf (fst (astep (fst (astep s AResetSession)) AResetParams)) a_fresh.
Proof. intros [st p ld lc cd pf co bf] H; simpl in H; subst co; reflexivity. Qed.

Lemma upto_buf_step : forall s t o, eqb_upto_buf s t ->
  eqb_upto_buf (fst (astep s o)) (fst (astep t o)) /\ snd (astep s o) = snd (astep t o).
Proof.
  intros [st p ld lc cd pf co bf] [st' p' ld' lc' cd' pf' co' bf'] o H.
  unfold eqb_upto_buf, set_buf in H; simpl in H. injection H as -> -> -> -> -> -> ->.
  destruct o; simpl; unfold eqb_upto_buf, is_init, stream_call, compress2, frame_start, reset_session, init_local_dict, set_collect,
    set_params, set_buf, clear_dicts, is_init; simpl;
  repeat match goal with
         | |- context [match ?x with _ => _ end] => destruct x; simpl
         | |- context [if ?x then _ else _] => destruct x; simpl
         end; split; reflexivity.
Qed.

Lemma upto_buf_run : forall k s t, eqb_upto_buf s t -> eqb_upto_buf (arun s k) (arun t k).
Proof.
  induction k as [|o k IH]; intros s t H; simpl; [exact H |].
  apply IH. apply (proj1 (upto_buf_step s t o H)).
Qed.

Theorem full_reset_erases_api_history : forall hist k,
  eqb_upto_buf (arun a_fresh (hist ++ [AResetSession; AResetParams] ++ k)) (arun a_fresh k).
Proof.
  intros hist k. rewrite arun_app.
  change (arun (arun a_fresh hist) ([AResetSession; AResetParams] ++ k))
    with (arun (fst (astep (fst (astep (arun a_fresh hist) AResetSession)) AResetParams)) k).
  apply upto_buf_run, full_reset_state, collector_off_after_every_history.
Qed.
(* the fields the lock-step compared in round 2 (everything but a_buf) are therefore equal *)
Corollary full_reset_erases_api_fields : forall hist k,
  api_fields (arun a_fresh (hist ++ [AResetSession; AResetParams] ++ k)) = api_fields (arun a_fresh k) /\
  a_params (arun a_fresh (hist ++ [AResetSession; AResetParams] ++ k)) = a_params (arun a_fresh k) /\
  frame_view (arun a_fresh (hist ++ [AResetSession; AResetParams] ++ k)) = frame_view (arun a_fresh k).
Proof.
  intros hist k. pose proof (full_reset_erases_api_history hist k) as H.
  destruct (arun a_fresh (hist ++ [AResetSession; AResetParams] ++ k)) as [st p ld lc cd pf co bf].
  destruct (arun a_fresh k) as [st' p' ld' lc' cd' pf' co' bf'].
  unfold eqb_upto_buf, set_buf in H; simpl in H. injection H as -> -> -> -> -> -> ->.
  split; [reflexivity | split; [reflexivity |]].
  unfold frame_view, init_local_dict, view_of; simpl. destruct ld' as [d0|]; [destruct lc' as [c0|] |]; reflexivity.
Qed.

(* ---- the local CDict ---- *)
(* for every history: the digested local dictionary IS cctx->cdict and belongs to the loaded content *)
Definition Linked (s : api) : Prop :=
  forall c, a_lcd s = Some c -> a_cdict s = Some c /\ a_ldict s = Some (fst c).

Lemma linked_step : forall s o, Linked s -> Linked (fst (astep s o)).
Proof.
  intros [st p ld lc cd pf co bf] o L. unfold Linked in *; simpl in *.
  destruct o; simpl; unfold is_init, stream_call, compress2, frame_start, reset_session, init_local_dict, set_collect,
    set_params, set_buf, clear_dicts, is_init; simpl;
  repeat match goal with
         | |- context [match ?x with _ => _ end] => destruct x; simpl
         | |- context [if ?x then _ else _] => destruct x; simpl
         end; intros cc Hc; try discriminate; try (apply L; exact Hc);
  try (injection Hc as <-; simpl; split; reflexivity).
Qed.

Theorem local_cdict_is_the_cdict : forall ops, Linked (arun a_fresh ops).
Proof.
  intros ops. assert (G : forall ops s, Linked s -> Linked (arun s ops)).
  { induction ops0 as [|o t IH]; intros s L; simpl; [exact L | apply IH, linked_step, L]. }
  apply G. intros c H; discriminate H.
Qed.

(* Coherent: the digested dictionary was built with the CURRENT parameters *)
Definition Coherent (s : api) : Prop := forall d q, a_lcd s = Some (d, q) -> q = a_params s.

(* an operation that cannot make the local CDict stale: anything but a ZSTD_CCtx_setParameter that changes the parameters
   while a digested local dictionary exists *)
Definition harmless (s : api) (o : aop) : Prop :=
  match o with ASet _ p => p = a_params s \/ a_lcd s = None | _ => True end.

Lemma coherent_step : forall s o, Linked s -> Coherent s -> harmless s o -> Coherent (fst (astep s o)).
Proof.
  intros [st p ld lc cd pf co bf] o L C Hh. unfold Coherent, Linked, harmless in *; simpl in *.
  destruct o; simpl; unfold is_init, stream_call, compress2, frame_start, reset_session, init_local_dict, set_collect,
    set_params, set_buf, clear_dicts, is_init; simpl.
  - (* ASet *) destruct st; simpl.
    + intros d q Hq. destruct Hh as [-> | ->]; [apply (C d q Hq) | discriminate].
    + destruct auth; simpl; intros d q Hq; [destruct Hh as [-> | ->]; [apply (C d q Hq) | discriminate] | apply (C d q Hq)].
  - (* ASetAll : refused while cctx->cdict is set, and a digested local dictionary is cctx->cdict *)
    destruct st; simpl; [| exact C].
    destruct cd as [c0|]; simpl; [exact C |].
    intros d q Hq. destruct (L _ Hq) as [Hcd _]. discriminate.
  - destruct st; simpl; [| exact C]. destruct (d =? 0); simpl; intros ? ? Hq; discriminate.
  - destruct st; simpl; [| exact C]. intros ? ? Hq; discriminate.
  - destruct st; simpl; [| exact C]. destruct (d =? 0); simpl; intros ? ? Hq; discriminate.
  - destruct st; simpl; exact C.
  - exact C.
  - destruct st; simpl; [| exact C]. intros ? ? Hq; discriminate.
  - destruct st; simpl; [| exact C]. destruct ld as [d0|]; simpl; [| exact C]. destruct lc as [c0|]; simpl; [exact C |].
    intros d q Hq. injection Hq as _ <-. reflexivity.
  - destruct st; simpl; [| exact C]. destruct ld as [d0|]; simpl; [| exact C]. destruct lc as [c0|]; simpl; [exact C |].
    intros d q Hq. injection Hq as _ <-. reflexivity.
  - destruct ld as [d0|]; simpl; [| exact C]. destruct lc as [c0|]; simpl; [exact C |].
    intros d q Hq. injection Hq as _ <-. reflexivity.
  - exact C.
  - destruct ld as [d0|]; simpl; [| exact C]. destruct lc as [c0|]; simpl; [exact C |].
    intros d q Hq. injection Hq as _ <-. reflexivity.
  - exact C.
Qed.

Fixpoint harmless_run (s : api) (ops : list aop) : Prop :=
  match ops with [] => True | o :: t => harmless s o /\ harmless_run (fst (astep s o)) t end.

Lemma linked_run : forall ops s, Linked s -> Linked (arun s ops).
Proof. induction ops as [|o t IH]; intros s L; simpl; [exact L | apply IH, linked_step, L]. Qed.

Theorem local_cdict_follows_parameters : forall ops,
  harmless_run a_fresh ops -> Coherent (arun a_fresh ops).
Proof.
  assert (G : forall ops s, Linked s -> Coherent s -> harmless_run s ops -> Coherent (arun s ops)).
  { induction ops as [|o t IH]; intros s L C H; simpl; [exact C |].
    destruct H as [H1 H2]. apply IH; [apply linked_step, L | apply coherent_step; assumption | exact H2]. }
  intros ops H. apply G; [intros c Hc; discriminate Hc | intros d q Hq; discriminate Hq | exact H].
Qed.

(* consequence for the frame: with a loaded dictionary d and no parameter change after its digestion, the frame that
   starts now uses (d, current parameters) - whatever the history *)
Theorem frame_uses_current_parameters : forall ops d,
  harmless_run a_fresh ops -> a_ldict (arun a_fresh ops) = Some d -> a_prefix (arun a_fresh ops) = None ->
  frame_view (arun a_fresh ops) = VCDict d (a_params (arun a_fresh ops)).
Proof.
  intros ops d H Hd Hp.
  pose proof (local_cdict_follows_parameters ops H) as C.
  pose proof (local_cdict_is_the_cdict ops) as L.
  remember (arun a_fresh ops) as s. destruct s as [st p ld lc cd pf co bf]; simpl in *. subst ld pf.
  unfold Linked, Coherent in L, C. simpl in L, C.
  unfold frame_view, init_local_dict, view_of; simpl.
  destruct lc as [[d1 q1]|]; simpl.
  - destruct (L _ eq_refl) as [Hc Hl]. simpl in Hl. injection Hl as Hl. subst cd d. rewrite (C d1 q1 eq_refl). reflexivity.
  - reflexivity.
Qed.

(* the recorded finding localdict-cdict-stale-params: same dictionary, same final parameters, different digestion *)
Theorem local_cdict_stale_after_setParameter :
  frame_view (arun a_fresh [ALoad 7; ASet true 1; ACompress2; ASet true 2]) = VCDict 7 1 /\
  frame_view (arun a_fresh [ALoad 7; ASet true 2]) = VCDict 7 2.
Proof. split; reflexivity. Qed.

(* the prefix is single usage: no frame start leaves one behind *)
Theorem prefix_is_single_use : forall s, a_prefix (frame_start s) = None.
Proof. intros s; reflexivity. Qed.

(* ---------------- round 3: the streaming session and its buffers ---------------- *)
(* since 38ec6ea every single-call / buffer-less entry point closes an open streaming session *)
Theorem simple_call_closes_stream : forall ops, a_stage (arun a_fresh (ops ++ [ASimple])) = SInit.
Proof. intros ops. rewrite arun_app. simpl. reflexivity. Qed.
(* ... so the streaming call that follows starts a NEW frame, with the dictionary view of that moment *)
Theorem stream_after_simple_starts_a_frame : forall ops,
  let s := arun a_fresh (ops ++ [ASimple]) in
  fst (astep s AStreamCall) = frame_start s.
Proof. intros ops s. pose proof (simple_call_closes_stream ops) as H. fold s in H. simpl. unfold stream_call, is_init. rewrite H. reflexivity. Qed.

(* the invariant the streaming code relies on: an open streaming session has its buffers
   (cctx->bufferedPolicy == ZSTDb_buffered: inBuff / outBuff were reserved by the reset that started the frame) *)
Definition BufInv (s : api) : Prop := a_stage s = SLoad -> a_buf s = true.

Lemma bufinv_step : forall s o, BufInv s -> BufInv (fst (astep s o)).
Proof.
  intros [st p ld lc cd pf co bf] o H. unfold BufInv in *; simpl in *.
  destruct o; simpl; unfold is_init, stream_call, compress2, frame_start, reset_session, init_local_dict, set_collect,
    set_params, set_buf, clear_dicts, is_init; simpl;
  repeat match goal with
         | |- context [match ?x with _ => _ end] => destruct x; simpl
         | |- context [if ?x then _ else _] => destruct x; simpl
         end; intros E; try discriminate E; try reflexivity; try (apply H; exact E); try (apply H; reflexivity).
Qed.

(* for EVERY history of the 14 calls (since 38ec6ea + d3967a5) *)
Theorem open_stream_has_buffers : forall ops, BufInv (arun a_fresh ops).
Proof.
  assert (G : forall ops s, BufInv s -> BufInv (arun s ops)).
  { induction ops as [|o t IH]; intros s H; simpl; [exact H | apply IH, bufinv_step, H]. }
  intros ops. apply G. intros E; discriminate E.
Qed.

(* before d3967a5 ZSTD_copyCCtx into a context whose streaming frame is open broke it (finding
   copyCCtx-into-open-stream-keeps-stage: the next ZSTD_compressStream2 continued a session whose buffers were gone) *)
Theorem copy_into_open_stream_broke_it_before_d3967a5 :
  let s := arun_pred39 a_fresh [AStreamCall; ACopyInto] in a_stage s = SLoad /\ a_buf s = false.
Proof. split; reflexivity. Qed.
(* the same witness for ZSTD_compressCCtx & co. before 38ec6ea *)
Theorem simple_call_broke_it_before_38ec6ea :
  let s := fst (astep_pre38 (arun a_fresh [AStreamCall]) ASimple) in a_stage s = SLoad /\ a_buf s = false.
Proof. split; reflexivity. Qed.
