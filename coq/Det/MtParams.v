(* C07 model, part 15 (round 3): WHICH compression parameters a multithreaded job gets when the caller changes them in the
   middle of a frame.
   Source: lib/compress/zstd_compress.c  ZSTD_CCtx_setParameter (stage != init, nbWorkers >= 1, ZSTD_isUpdateAuthorized: the new value
           goes to requestedParams and cctx->cParamsChanged is raised), ZSTD_compressStream2 (multithreaded branch: the first thing a
           call does is ZSTDMT_updateCParams_whileCompressing when cParamsChanged is raised);
           lib/compress/zstdmt_compress.c  ZSTDMT_updateCParams_whileCompressing (mtctx->params.cParams replaced),
           ZSTDMT_createCompressionJob (the job being PREPARED copies mtctx->params).
   Built on the job-creation machine of MtPartition.v (same environment oracle per ZSTDMT_compressStream_generic call); parameters
   are opaque identities.  NO proofs in this file. *)
From Coq Require Import ZArith Bool List.
From ZV.Det Require Import MtPartition.
Import ListNotations.
Local Open Scope Z_scope.

Inductive pop : Type :=
| PCall (n dir : Z)      (* one input call of the caller: n bytes with a directive, repeated until done (MtPartition.run_op) *)
| PSet (p : Z).          (* an accepted mid-frame ZSTD_CCtx_setParameter: the parameters become identity p *)

Record pst : Type := mkP {
  p_mt : mt;
  p_cur : Z;               (* mtctx->params (identity) *)
  p_req : Z;               (* cctx->requestedParams (identity); differs from p_cur while cParamsChanged is raised *)
  p_tags : list Z          (* parameters of every job prepared so far, in order (same length as jobs (p_mt)) *)
}.
Definition p_init : pst := mkP mt_init 0 0 [].

(* the calls of one caller-side operation; [cur] was refreshed from requestedParams when the operation started *)
Fixpoint prun_op (target : Z) (s : mt) (r dir cur : Z) (tags : list Z) (envs : list env) : option (mt * list Z * list env) :=
  match envs with
  | [] => None
  | e :: rest =>
      let '(s1, r1) := mt_call target s r dir e in
      let tags1 := tags ++ repeat cur (length (jobs s1) - length (jobs s)) in
      if op_done s1 r1 dir then Some (s1, tags1, rest) else prun_op target s1 r1 dir cur tags1 rest
  end.

Fixpoint prun (target : Z) (s : pst) (ops : list pop) (envs : list env) : option pst :=
  match ops with
  | [] => Some s
  | PSet p :: t => prun target (mkP (p_mt s) (p_cur s) p (p_tags s)) t envs
  | PCall n dir :: t =>
      match prun_op target (p_mt s) n dir (p_req s) (p_tags s) envs with
      | Some (m1, tags1, rest) => prun target (mkP m1 (p_req s) (p_req s) tags1) t rest
      | None => None
      end
  end.

(* what the frame is made of: (size, parameters) of every job that carries input *)
Definition tagged_sizes (s : pst) : list (Z * Z) :=
  filter (fun x => fst x >? 0) (combine (map j_size (jobs (p_mt s))) (p_tags s)).
