(* C07 proofs, part 2: every table cell the workspace hands out as "clean" is clean, for every sequence of
   workspace operations. *)
From Coq Require Import ZArith Bool List Lia.
From ZV.Gen Require Import Gen_Sizes.
From ZV.Det Require Import CwkspClean.
Import ListNotations.
Local Open Scope Z_scope.
Ltac Zify.zify_post_hook ::= Z.div_mod_to_equations.

Lemma ALIGN_val : ALIGN = 64. Proof. reflexivity. Qed.
Lemma PTRSZ_val : PTRSZ = 8. Proof. reflexivity. Qed.
Arguments ALIGN : simpl never.
Arguments PTRSZ : simpl never.
Arguments ias : simpl never.

Lemma align_up_ge : forall x a, 0 < a -> 0 <= x -> x <= align_up x a.
Proof. intros x a Ha Hx. unfold align_up. nia. Qed.
Lemma bytes_to_align_nonneg : forall p a, 0 < a -> 0 <= bytes_to_align p a.
Proof. intros p a Ha. unfold bytes_to_align. apply Z.mod_pos_bound. exact Ha. Qed.

Definition IAS (w : ws) : Z := initialAllocStart w.

Record WInv (w : ws) : Prop := mkWInv {
  i_o1 : w_start w <= objectEnd w;
  i_o2 : objectEnd w <= tableEnd w;
  i_o3 : tableEnd w <= allocStart w;
  i_o4 : objectEnd w <= tableValidEnd w;
  i_o5 : tableValidEnd w <= allocStart w;
  i_o6 : allocStart w <= IAS w;
  i_o7 : initOnceStart w <= IAS w;
  i_ph : 0 <= phase w <= 3;
  i_p0 : phase w = 0 -> allocStart w = IAS w /\ initOnceStart w = IAS w;
  i_p1 : phase w <= 1 -> initOnceStart w <= allocStart w;
  i_clean : forall a, objectEnd w <= a < tableValidEnd w -> clean_cell (mem w a) = true;
  i_once : forall a, initOnceStart w <= a < IAS w -> defined_cell (mem w a) = true
}.

Lemma write_in : forall m lo hi c a, lo <= a < hi -> write m lo hi c a = c.
Proof.
  intros. unfold write. destruct (lo <=? a) eqn:H1; destruct (a <? hi) eqn:H2; cbn; try reflexivity;
  try (apply Z.leb_gt in H1; lia); try (apply Z.ltb_ge in H2; lia).
Qed.
Lemma write_out : forall m lo hi c a, ~ (lo <= a < hi) -> write m lo hi c a = m a.
Proof.
  intros. unfold write. destruct (lo <=? a) eqn:H1; destruct (a <? hi) eqn:H2; cbn; try reflexivity.
  apply Z.leb_le in H1. apply Z.ltb_lt in H2. lia.
Qed.
Lemma write_clean : forall m lo hi c a, clean_cell c = true -> (~ (lo <= a < hi) -> clean_cell (m a) = true) ->
  clean_cell (write m lo hi c a) = true.
Proof.
  intros. destruct (Z_le_dec lo a); destruct (Z_lt_dec a hi);
  [rewrite write_in by lia; assumption | rewrite write_out by lia; apply H0; lia ..].
Qed.
Lemma write_defined : forall m lo hi c a, defined_cell c = true -> (~ (lo <= a < hi) -> defined_cell (m a) = true) ->
  defined_cell (write m lo hi c a) = true.
Proof.
  intros. destruct (Z_le_dec lo a); destruct (Z_lt_dec a hi);
  [rewrite write_in by lia; assumption | rewrite write_out by lia; apply H0; lia ..].
Qed.

Ltac splits := repeat match goal with |- _ /\ _ => split end.
Ltac proj := unfold IAS, initialAllocStart in *;
  cbn [w_start w_end objectEnd tableEnd tableValidEnd allocStart initOnceStart allocFailed phase mem fst snd] in *.

Ltac bd b := let E := fresh "E" in destruct b eqn:E;
  [ try (apply Z.ltb_lt in E); try (apply Z.leb_le in E); try (apply Z.eqb_eq in E);
    try (rewrite Z.gtb_ltb in E; apply Z.ltb_lt in E); try (rewrite Z.geb_leb in E; apply Z.leb_le in E)
  | try (apply Z.ltb_ge in E); try (apply Z.leb_gt in E); try (apply Z.eqb_neq in E);
    try (rewrite Z.gtb_ltb in E; apply Z.ltb_ge in E); try (rewrite Z.geb_leb in E; apply Z.leb_gt in E) ].

(* ---------- each primitive preserves the invariant ---------- *)
Lemma inv_clear : forall w, WInv w -> WInv (ws_clear w).
Proof.
  intros w [ ]. unfold ws_clear, ph_init_once. bd (phase w >? 1); constructor; proj; try lia; auto; intros; try lia.
Qed.

Lemma inv_init : forall start size, 0 <= start -> 0 <= size -> start <= ias (start + size) -> WInv (ws_init start size).
Proof.
  intros start size H0 H1 H2. unfold ws_init, ws_clear, ph_objects, ph_init_once. cbn [phase]. 
  replace (0 >? 1) with false by reflexivity.
  constructor; proj; try lia; intros; try lia.
Qed.

Lemma inv_reserve_object : forall w n, WInv w -> 0 <= n -> objectEnd w + align_up n PTRSZ <= allocStart w ->
  WInv (fst (reserve_object w n)).
Proof.
  intros w n [ ] Hn Hfit. unfold reserve_object, ph_objects.
  pose proof (align_up_ge n PTRSZ ltac:(rewrite PTRSZ_val; lia) Hn) as Hr.
  bd (phase w =? 0); cbn [negb orb].
  - bd (objectEnd w + align_up n PTRSZ >? w_end w); constructor; proj; try lia; auto; intros; lia.
  - constructor; proj; try lia; auto.
Qed.

Lemma inv_advance : forall w ph w', WInv w -> 0 <= ph <= 3 ->
  (0 < phase w \/ objectEnd w + bytes_to_align (objectEnd w) ALIGN <= allocStart w) ->
  advance_phase w ph = Some w' ->
  WInv w' /\ ph <= phase w' /\ phase w <= phase w' /\ (phase w' = phase w \/ phase w' = ph) /\
  allocStart w' = allocStart w /\ w_end w' = w_end w /\ w_start w' = w_start w /\
  (phase w' <= 1 -> initOnceStart w' <= allocStart w').
Proof.
  intros w ph w' HI Hph Hok H. pose proof HI as [ ]. unfold advance_phase, ph_init_once in H.
  pose proof (bytes_to_align_nonneg (objectEnd w) ALIGN ltac:(rewrite ALIGN_val; lia)) as Hb.
  bd (ph >? phase w).
  - bd (phase w <? 1); cbn [andb] in H.
    + bd (ph >=? 1).
      * assert (Hp0 : phase w = 0) by lia. destruct (i_p2 Hp0) as (Ha & Hi).
        bd (objectEnd w + bytes_to_align (objectEnd w) ALIGN >? w_end w); [discriminate|].
        injection H as <-. destruct Hok as [Hok|Hok]; [lia|].
        split; [|proj; splits; try lia].
        bd (objectEnd w <? objectEnd w + bytes_to_align (objectEnd w) ALIGN);
          constructor; proj; try lia; intros; try lia.
      * injection H as <-. split; [|proj; splits; try lia].
        constructor; proj; try lia; auto; intros; try lia.
    + injection H as <-. split; [|proj; splits; try lia].
      constructor; proj; try lia; auto; intros; try lia.
  - injection H as <-. split; [exact HI|]. splits; try lia; try exact i_p3.
Qed.

Lemma inv_buffer_space : forall w n, WInv w -> 0 <= n -> 2 <= phase w -> WInv (fst (reserve_buffer_space w n)).
Proof.
  intros w n [ ] Hn Hp. unfold reserve_buffer_space.
  bd (allocStart w - n <? tableEnd w).
  - constructor; proj; try lia; auto; intros; lia.
  - bd (allocStart w - n <? tableValidEnd w); constructor; proj; try lia; auto; intros; try lia.
    apply i_clean0. lia.
Qed.

Lemma inv_reserve_internal_hi : forall w n ph, WInv w -> 0 <= n -> 2 <= ph <= 3 ->
  (0 < phase w \/ objectEnd w + bytes_to_align (objectEnd w) ALIGN <= allocStart w) ->
  WInv (fst (reserve_internal w n ph)).
Proof.
  intros w n ph HI Hn Hph Hok. unfold reserve_internal.
  destruct (advance_phase w ph) as [w1|] eqn:HA; [|exact HI].
  destruct (inv_advance w ph w1 HI ltac:(lia) Hok HA) as (HI1 & Hp1 & _).
  bd (n =? 0); [exact HI1|]. apply inv_buffer_space; [exact HI1 | exact Hn | lia].
Qed.

Lemma inv_reserve_init_once : forall w n, WInv w -> 0 <= n -> phase w <= 1 ->
  (0 < phase w \/ objectEnd w + bytes_to_align (objectEnd w) ALIGN <= allocStart w) ->
  WInv (fst (reserve_init_once w n)).
Proof.
  intros w n HI Hn Hp Hok. unfold reserve_init_once, reserve_internal, ph_init_once.
  pose proof (align_up_ge n ALIGN ltac:(rewrite ALIGN_val; lia) Hn) as Hab.
  set (ab := align_up n ALIGN) in *.
  destruct (advance_phase w 1) as [w1|] eqn:HA; [|exact HI].
  destruct (inv_advance w 1 w1 HI ltac:(lia) Hok HA) as (HI1 & Hp1 & Hp2 & Hp3 & HAS & HWE & HWS & HIO).
  assert (Hph1 : phase w1 = 1) by (pose proof HI as [ ]; lia).
  bd (ab =? 0); [exact HI1|].
  unfold reserve_buffer_space. pose proof HI1 as [ ].
  bd (allocStart w1 - ab <? tableEnd w1); cbn [fst].
  - constructor; proj; try lia; auto; intros; lia.
  - cbn [initOnceStart allocStart].
    assert (Hios : initOnceStart w1 <= allocStart w1) by (apply HIO; lia).
    bd (allocStart w1 - ab <? tableValidEnd w1); cbn [initOnceStart].
    + bd (allocStart w1 - ab <? initOnceStart w1); cbn [fst].
      * constructor; proj; try lia; auto; intros; try lia.
        -- apply write_clean; [reflexivity|]. intros _. apply i_clean0. lia.
        -- apply write_defined; [reflexivity|]. intros Hout. apply i_once0.
           assert (Z.min (initOnceStart w1 - (allocStart w1 - ab)) ab = initOnceStart w1 - (allocStart w1 - ab)) by lia. lia.
      * constructor; proj; try lia; auto; intros; try lia. apply i_clean0; lia.
    + bd (allocStart w1 - ab <? initOnceStart w1); cbn [fst].
      * constructor; proj; try lia; auto; intros; try lia.
        -- apply write_clean; [reflexivity|]. intros _. apply i_clean0. lia.
        -- apply write_defined; [reflexivity|]. intros Hout. apply i_once0.
           assert (Z.min (initOnceStart w1 - (allocStart w1 - ab)) ab = initOnceStart w1 - (allocStart w1 - ab)) by lia. lia.
      * constructor; proj; try lia; auto; intros; try lia.
Qed.

Lemma inv_reserve_table : forall w n, WInv w -> 0 <= n ->
  (0 < phase w \/ objectEnd w + bytes_to_align (objectEnd w) ALIGN <= allocStart w) ->
  WInv (fst (reserve_table w n)).
Proof.
  intros w n HI Hn Hok. unfold reserve_table, ph_init_once.
  assert (HX : exists w1, (if phase w <? 1 then advance_phase w 1 else Some w) = Some w1 /\ WInv w1 /\ 1 <= phase w1
               \/ (if phase w <? 1 then advance_phase w 1 else Some w) = None).
  { bd (phase w <? 1).
    - destruct (advance_phase w 1) as [w1|] eqn:HA.
      + exists w1. left. destruct (inv_advance w 1 w1 HI ltac:(lia) Hok HA) as (HI1 & Hp1 & _). splits; auto.
      + exists w. right. reflexivity.
    - exists w. left. splits; auto; lia. }
  destruct HX as (w1 & [(HE & HI1 & Hp1) | HE]); rewrite HE; [|exact HI].
  pose proof HI1 as [ ].
  bd (tableEnd w1 + n >? allocStart w1); cbn [fst]; constructor; proj; try lia; auto; intros; lia.
Qed.

Lemma inv_mark_dirty : forall w, WInv w -> WInv (mark_tables_dirty w).
Proof. intros w [ ]. unfold mark_tables_dirty. constructor; proj; try lia; auto; intros; lia. Qed.

Lemma inv_clear_tables : forall w, WInv w -> WInv (clear_tables w).
Proof. intros w [ ]. unfold clear_tables. constructor; proj; try lia; auto. Qed.

Lemma inv_mark_clean : forall w, WInv w ->
  (forall a, tableValidEnd w <= a < tableEnd w -> clean_cell (mem w a) = true) -> WInv (mark_tables_clean w).
Proof.
  intros w [ ] HC. unfold mark_tables_clean. bd (tableValidEnd w <? tableEnd w); constructor; proj; try lia; auto.
  intros a Ha. destruct (Z_lt_dec a (tableValidEnd w)); [apply i_clean0; lia | apply HC; lia].
Qed.

Lemma inv_clean_tables : forall w, WInv w -> WInv (clean_tables w).
Proof.
  intros w HI. unfold clean_tables. apply inv_mark_clean.
  - pose proof HI as [ ]. bd (tableValidEnd w <? tableEnd w); constructor; proj; try lia; auto; intros.
    + apply write_clean; [reflexivity|]. intros _. apply i_clean0; lia.
    + apply write_defined; [reflexivity|]. intros _. apply i_once0; lia.
  - proj. intros a Ha. bd (tableValidEnd w <? tableEnd w); [rewrite write_in by lia; reflexivity | lia].
Qed.

Lemma inv_copy_tables : forall w, WInv w ->
  WInv (mark_tables_clean (mkWs (w_start w) (w_end w) (objectEnd w) (tableEnd w) (tableValidEnd w) (allocStart w)
                                (initOnceStart w) (allocFailed w) (phase w) (write (mem w) (objectEnd w) (tableEnd w) Idx))).
Proof.
  intros w HI. apply inv_mark_clean.
  - pose proof HI as [ ]. constructor; proj; try lia; auto; intros.
    + apply write_clean; [reflexivity|]. intros _. apply i_clean0; lia.
    + apply write_defined; [reflexivity|]. intros _. apply i_once0; lia.
  - proj. pose proof HI as [ ]. intros a Ha. rewrite write_in by lia. reflexivity.
Qed.

Lemma inv_write : forall w a c, WInv w -> defined_cell c = true ->
  (clean_cell c = true \/ tableValidEnd w <= a) ->
  WInv (mkWs (w_start w) (w_end w) (objectEnd w) (tableEnd w) (tableValidEnd w) (allocStart w) (initOnceStart w)
             (allocFailed w) (phase w) (write (mem w) a (a + 1) c)).
Proof.
  intros w a c [ ] HD HC. constructor; proj; try lia; auto; intros.
  - destruct HC as [HC|HC].
    + apply write_clean; [exact HC|]. intros _. apply i_clean0; lia.
    + rewrite write_out by lia. apply i_clean0; lia.
  - apply write_defined; [exact HD|]. intros _. apply i_once0; lia.
Qed.

(* ---------- every operation, hence every sequence ---------- *)
Lemma andb_split : forall a b, a && b = true -> a = true /\ b = true.
Proof. intros a b H. apply andb_true_iff in H. exact H. Qed.

Lemma table_phase_ok_spec : forall w, table_phase_ok w = true ->
  0 < phase w \/ objectEnd w + bytes_to_align (objectEnd w) ALIGN <= allocStart w.
Proof.
  intros w H. unfold table_phase_ok, ph_objects in H. apply orb_true_iff in H as [H|H].
  - left. rewrite Z.gtb_ltb in H. apply Z.ltb_lt in H. exact H.
  - right. apply Z.leb_le in H. exact H.
Qed.

Lemma wstep_inv : forall w o, WInv w -> WInv (wstep w o).
Proof.
  intros w o HI. unfold wstep. destruct (op_ok w o) eqn:HOK; cbn [negb]; [|exact HI].
  destruct o; cbn [op_ok] in HOK.
  - apply andb_split in HOK as (HOK & H4). apply andb_split in HOK as (HOK & H3). apply andb_split in HOK as (H1 & H2).
    apply Z.leb_le in H1, H2, H4. apply inv_init; assumption.
  - apply andb_split in HOK as (H1 & H2). apply Z.leb_le in H1, H2. apply inv_reserve_object; assumption.
  - apply andb_split in HOK as (HOK & H3). apply andb_split in HOK as (H1 & H2). apply Z.leb_le in H1.
    apply inv_reserve_table; [assumption | assumption | apply table_phase_ok_spec; assumption].
  - apply andb_split in HOK as (H1 & H3). apply Z.leb_le in H1. unfold reserve_buffer, ph_buffers.
    apply inv_reserve_internal_hi; [assumption | assumption | lia | apply table_phase_ok_spec; assumption].
  - apply andb_split in HOK as (HOK & H3). apply andb_split in HOK as (H1 & H2). apply Z.leb_le in H1.
    unfold reserve_aligned64, ph_aligned.
    apply inv_reserve_internal_hi; [assumption | | lia | apply table_phase_ok_spec; assumption].
    pose proof (align_up_ge n ALIGN ltac:(rewrite ALIGN_val; lia) H1). lia.
  - apply andb_split in HOK as (HOK & H3). apply andb_split in HOK as (H1 & H2). apply Z.leb_le in H1, H2.
    unfold ph_init_once in H2.
    apply inv_reserve_init_once; [assumption | assumption | assumption | apply table_phase_ok_spec; assumption].
  - apply inv_mark_dirty; assumption.
  - apply inv_clean_tables; assumption.
  - apply inv_clear_tables; assumption.
  - apply inv_clear; assumption.
  - apply inv_copy_tables; assumption.
  - apply andb_split in HOK as (H1 & H2). apply inv_write; [assumption | reflexivity | left; reflexivity].
  - apply andb_split in HOK as (H1 & H2). apply Z.leb_le in H1. apply inv_write; [assumption | reflexivity |].
    right. pose proof HI as [ ]. lia.
Qed.

Lemma wrun_inv : forall ops w, WInv w -> WInv (wrun w ops).
Proof. induction ops as [|o t IH]; intros w HI; [exact HI|]. cbn [wrun fold_left]. apply IH. apply wstep_inv. exact HI. Qed.

(* the state before any ZSTD_cwksp_init: an all-zero struct *)
Definition ws_null : ws := mkWs 0 0 0 0 0 0 0 false 0 (fun _ => Uninit).
Lemma inv_null : WInv ws_null.
Proof. constructor; unfold ws_null, IAS, initialAllocStart, ias; cbn; intros; try lia. Qed.

(* MAIN THEOREM (cwksp_tables_clean).  After ANY sequence of workspace operations (several workspaces, resizes,
   parameter changes, garbage written by every other user of the memory), once ZSTD_cwksp_clean_tables has
   run, every byte of every reserved table is clean (zero or a table-written index), and the init-once area is
   defined. *)
Theorem tables_clean_after_clean : forall ops,
  let w := wstep (wrun ws_null ops) WCleanTables in
  (forall a, objectEnd w <= a < tableEnd w -> clean_cell (mem w a) = true) /\
  (forall a, initOnceStart w <= a < IAS w -> defined_cell (mem w a) = true) /\
  tableEnd w <= tableValidEnd w.
Proof.
  intros ops. cbn zeta.
  pose proof (wrun_inv ops ws_null inv_null) as HI0.
  pose proof (wstep_inv _ WCleanTables HI0) as HI.
  assert (HT : tableEnd (wstep (wrun ws_null ops) WCleanTables) <= tableValidEnd (wstep (wrun ws_null ops) WCleanTables)).
  { unfold wstep. cbn [op_ok negb]. unfold clean_tables, mark_tables_clean. proj.
    bd (tableValidEnd (wrun ws_null ops) <? tableEnd (wrun ws_null ops)); lia. }
  pose proof HI as [ ]. split; [|split; [exact i_once0 | exact HT]].
  intros a Ha. apply i_clean0. lia.
Qed.

(* index-reset mode: mark dirty, re-reserve, clean  ==>  every table byte is ZERO *)
Theorem tables_zero_after_dirty_clean : forall ops t1 t2 t3,
  let w := wrun (wrun ws_null ops) [WMarkDirty; WClearTables; WTable t1; WTable t2; WTable t3; WCleanTables] in
  forall a, objectEnd w <= a < tableEnd w -> mem w a = Zero.
Proof.
  intros ops t1 t2 t3. cbn zeta.
  set (w0 := wrun ws_null ops).
  pose proof (wrun_inv ops ws_null inv_null) as HI0. fold w0 in HI0.
  cbn [wrun fold_left].
  set (w1 := wstep (wstep w0 WMarkDirty) WClearTables).
  assert (H1 : tableValidEnd w1 = objectEnd w1 /\ tableEnd w1 = objectEnd w1).
  { unfold w1, wstep. cbn [op_ok negb]. unfold clear_tables, mark_tables_dirty. proj. split; reflexivity. }
  assert (HI1 : WInv w1) by (unfold w1; repeat apply wstep_inv; exact HI0).
  (* reserving tables never moves objectEnd below tableValidEnd and keeps tableValidEnd = objectEnd *)
  assert (HT : forall w n, WInv w -> tableValidEnd w = objectEnd w -> tableEnd w = objectEnd w \/ 1 <= phase w ->
               tableValidEnd (wstep w (WTable n)) = objectEnd (wstep w (WTable n)) /\ 1 <= phase (wstep w (WTable n))
               \/ wstep w (WTable n) = w).
  { intros w n HI HV HP. unfold wstep. destruct (op_ok w (WTable n)) eqn:HOK; cbn [negb]; [|right; reflexivity].
    cbn [op_ok] in HOK. apply andb_split in HOK as (HOK & H3). apply table_phase_ok_spec in H3.
    unfold reserve_table, ph_init_once.
    bd (phase w <? 1).
    - destruct (advance_phase w 1) as [wa|] eqn:HA; [|right; reflexivity].
      destruct (inv_advance w 1 wa HI ltac:(lia) H3 HA) as (HIa & Hp1 & _).
      unfold advance_phase, ph_init_once in HA. pose proof HI as [ ].
      bd (1 >? phase w); [|lia]. bd (phase w <? 1); [|lia]. cbn [andb] in HA.
      replace (1 >=? 1) with true in HA by reflexivity.
      bd (objectEnd w + bytes_to_align (objectEnd w) ALIGN >? w_end w); [discriminate|].
      injection HA as <-. proj.
      pose proof (bytes_to_align_nonneg (objectEnd w) ALIGN ltac:(rewrite ALIGN_val; lia)).
      bd (objectEnd w <? objectEnd w + bytes_to_align (objectEnd w) ALIGN);
        (bd (objectEnd w + bytes_to_align (objectEnd w) ALIGN + n >? allocStart w); cbn [fst]; proj; left; split; lia).
    - bd (tableEnd w + n >? allocStart w); cbn [fst]; proj; left; split; lia. }
  (* after the three reservations the watermark still sits at objectEnd, so clean_tables zeroes everything *)
  assert (HZ : forall w, WInv w -> tableValidEnd w = objectEnd w ->
               forall a, objectEnd (wstep w WCleanTables) <= a < tableEnd (wstep w WCleanTables) ->
               mem (wstep w WCleanTables) a = Zero).
  { intros w HI HV a Ha. unfold wstep in *. cbn [op_ok negb] in *. unfold clean_tables, mark_tables_clean in *. proj.
    bd (tableValidEnd w <? tableEnd w); proj.
    - apply write_in. lia.
    - pose proof HI as [ ]. lia. }
  set (w2 := wstep w1 (WTable t1)). set (w3 := wstep w2 (WTable t2)). set (w4 := wstep w3 (WTable t3)).
  assert (HI2 : WInv w2) by (apply wstep_inv; exact HI1).
  assert (HI3 : WInv w3) by (apply wstep_inv; exact HI2).
  assert (HI4 : WInv w4) by (apply wstep_inv; exact HI3).
  destruct H1 as (H1a & H1b).
  assert (H2 : tableValidEnd w2 = objectEnd w2 /\ (tableEnd w2 = objectEnd w2 \/ 1 <= phase w2)).
  { destruct (HT w1 t1 HI1 H1a (or_introl H1b)) as [(Ha & Hb)|He].
    - split; [exact Ha | right; exact Hb].
    - unfold w2. rewrite He. split; [exact H1a | left; exact H1b]. }
  assert (H3 : tableValidEnd w3 = objectEnd w3 /\ (tableEnd w3 = objectEnd w3 \/ 1 <= phase w3)).
  { destruct H2 as (H2a & H2b). destruct (HT w2 t2 HI2 H2a H2b) as [(Ha & Hb)|He].
    - split; [exact Ha | right; exact Hb].
    - unfold w3. rewrite He. split; assumption. }
  assert (H4 : tableValidEnd w4 = objectEnd w4).
  { destruct H3 as (H3a & H3b). destruct (HT w3 t3 HI3 H3a H3b) as [(Ha & Hb)|He].
    - exact Ha.
    - unfold w4. rewrite He. exact H3a. }
  apply HZ; assumption.
Qed.

Example cwksp_example :
  let ops := [WInit 4096 100000; WObject 5632; WObject 5632; WObject 8920; WClear; WMarkDirty; WClearTables;
              WTable 4096; WTable 8192; WTable 0; WCleanTables; WInitOnce 1024; WAligned 3000; WBuffer 777;
              WWriteTable (4096 + 20224 + 100); WWriteOther 100000;
              WClear; WClearTables; WTable 16384; WTable 0; WTable 0; WCleanTables; WBuffer 50000] in
  ws_fields (wrun ws_null ops) = [20224; 36608; 36608; 49968; 98944; 3; 0].
Proof. vm_compute. reflexivity. Qed.
