(* C07 proofs, part 6: a used context and a brand-new one stay observationally equal during the whole frame that
   follows the reset (shift invariance of everything a finder may look at). *)
From Coq Require Import ZArith Bool List Lia.
From ZV.Index Require Import Window Overflow.
From ZV.Det Require Import ResetModel ResetProofs.
From ZV.Det Require Import FrameRel.
Import ListNotations.
Local Open Scope Z_scope.
Arguments START : simpl never.
Arguments two32 : simpl never.
Arguments two64 : simpl never.

(* the relation between two contexts whose current frames started at indices s1 and s2 *)
Definition FRel (s1 s2 : Z) (m1 m2 : mstate) : Prop :=
  E m1 - s1 = E m2 - s2 /\
  lowLimit (m_window m1) - s1 = lowLimit (m_window m2) - s2 /\ 0 <= lowLimit (m_window m1) - s1 /\
  dictLimit (m_window m1) - s1 = dictLimit (m_window m2) - s2 /\
  m_nextToUpdate m1 - s1 = m_nextToUpdate m2 - s2 /\
  m_loadedDictEnd m1 = m_loadedDictEnd m2 /\ m_dms m1 = m_dms m2 /\ m_litLengthSum m1 = m_litLengthSum m2 /\
  m_ntab m1 = m_ntab m2 /\ m_buflow m1 = m_buflow m2 /\
  (m_ntab m1 <= m_buflow m1)%nat /\ (m_buflow m1 <= length (m_mem m1))%nat /\ (m_buflow m2 <= length (m_mem m2))%nat /\
  forall i, (i < m_ntab m1)%nat ->
     (nth i (m_mem m1) 0 < s1 /\ nth i (m_mem m2) 0 < s2) \/
     (s1 <= nth i (m_mem m1) 0 /\ nth i (m_mem m1) 0 - s1 = nth i (m_mem m2) 0 - s2).

Lemma map_firstn_pointwise : forall (A : Type) (f g : Z -> A) n (l1 l2 : list Z),
  (n <= length l1)%nat -> (n <= length l2)%nat ->
  (forall i, (i < n)%nat -> f (nth i l1 0) = g (nth i l2 0)) ->
  map f (firstn n l1) = map g (firstn n l2).
Proof.
  intros A f g n. induction n as [|n IH]; intros l1 l2 H1 H2 HP; [reflexivity|].
  destruct l1 as [|a l1]; [cbn in H1; lia|]. destruct l2 as [|b l2]; [cbn in H2; lia|].
  cbn [firstn map]. f_equal.
  - apply (HP O). lia.
  - apply IH; cbn in H1, H2; try lia. intros i Hi. apply (HP (S i)). lia.
Qed.

Theorem FRel_observe : forall s1 s2 m1 m2, FRel s1 s2 m1 m2 -> observe m1 = observe m2.
Proof.
  intros s1 s2 m1 m2 (HE & HL & HL0 & HD & HN & HLDE & HDMS & HLLS & HNT & HBF & HNB & HB1 & HB2 & HC).
  unfold observe. rewrite HLDE, HDMS, HLLS. f_equal; try lia.
  unfold tables. rewrite <- HNT.
  apply map_firstn_pointwise; try lia.
  intros i Hi. unfold visible_cell.
  destruct (HC i Hi) as [(Ha & Hb) | (Ha & Hb)].
  - destruct (Z.leb_spec (lowLimit (m_window m1)) (nth i (m_mem m1) 0)); [lia|].
    destruct (Z.leb_spec (lowLimit (m_window m2)) (nth i (m_mem m2) 0)); [lia|]. reflexivity.
  - destruct (Z.leb_spec (lowLimit (m_window m1)) (nth i (m_mem m1) 0));
    destruct (Z.leb_spec (lowLimit (m_window m2)) (nth i (m_mem m2) 0)); try lia.
    + f_equal. lia.
    + reflexivity.
Qed.

Lemma E_with_mem : forall m l, E (with_mem m l) = E m. Proof. reflexivity. Qed.

Lemma FRel_step : forall s1 s2 m1 m2 o len,
  FRel s1 s2 m1 m2 -> E m1 - s1 = len ->
  frame_wf (m_ntab m1) (m_buflow m1) len [o] ->
  FRel s1 s2 (hstep m1 (abs_op s1 o)) (hstep m2 (abs_op s2 o)).
Proof.
  intros s1 s2 m1 m2 o len (HE & HL & HL0 & HD & HN & HLDE & HDMS & HLLS & HNT & HBF & HNB & HB1 & HB2 & HC) Hlen HW.
  destruct o as [n | low dict | i v | i v | v | e | x]; cbn [abs_op hstep frame_wf] in *.
  - (* feed *) unfold FRel, with_window, E in *; cbn. repeat split; try assumption; try lia.
  - (* limits *) unfold FRel, with_window, E in *; cbn. repeat split; try assumption; try lia.
  - (* insert *)
    destruct HW as (Hi & Hv & _).
    unfold FRel, with_mem, E in *; cbn [m_window m_nextToUpdate m_loadedDictEnd m_dms m_litLengthSum m_mem m_ntab m_buflow].
    repeat split; try assumption; try lia; try (rewrite set_nth_length; assumption).
    intros j Hj. destruct (Nat.eq_dec i j) as [->|Hne].
    + right. rewrite !set_nth_same by lia. lia.
    + rewrite !(set_nth_other _ i j) by assumption. apply HC. exact Hj.
  - (* junk: at or above the buffer area, never inside a table *)
    destruct HW as (Hi & _).
    unfold FRel, with_mem, E in *; cbn [m_window m_nextToUpdate m_loadedDictEnd m_dms m_litLengthSum m_mem m_ntab m_buflow].
    repeat split; try assumption; try lia; try (rewrite set_nth_length; assumption).
    intros j Hj. rewrite !(set_nth_other _ i j) by lia. apply HC. exact Hj.
  - (* nextToUpdate *) unfold FRel, E in *; cbn. repeat split; try assumption; try lia.
  - unfold FRel, E in *; cbn. repeat split; try assumption; try lia.
  - unfold FRel, E in *; cbn. repeat split; try assumption; try lia.
Qed.

Lemma frame_wf_cons : forall nt bl len o t, frame_wf nt bl len (o :: t) ->
  frame_wf nt bl len [o] /\ frame_wf nt bl (match o with FFeed n => len + n | _ => len end) t.
Proof. intros nt bl len o t H. destruct o; cbn in *; intuition. Qed.

Lemma hstep_abs_shape : forall s m o, m_ntab (hstep m (abs_op s o)) = m_ntab m /\ m_buflow (hstep m (abs_op s o)) = m_buflow m /\
  E (hstep m (abs_op s o)) = match o with FFeed n => E m + n | _ => E m end.
Proof. intros s m o. destruct o; cbn; unfold E; cbn; repeat split; lia. Qed.

Lemma FRel_run : forall ops s1 s2 m1 m2 len,
  FRel s1 s2 m1 m2 -> E m1 - s1 = len -> frame_wf (m_ntab m1) (m_buflow m1) len ops ->
  FRel s1 s2 (run m1 (map (abs_op s1) ops)) (run m2 (map (abs_op s2) ops)).
Proof.
  induction ops as [|o t IH]; intros s1 s2 m1 m2 len HR HL HW; [exact HR|].
  cbn [map run fold_left]. apply frame_wf_cons in HW as (HW1 & HW2).
  pose proof (FRel_step s1 s2 m1 m2 o len HR HL HW1) as HR'.
  destruct (hstep_abs_shape s1 m1 o) as (Hnt & Hbl & HE').
  unfold run in IH.
  apply (IH s1 s2 _ _ (match o with FFeed n => len + n | _ => len end) HR').
  - rewrite HE'. destruct o; lia.
  - rewrite Hnt, Hbl. exact HW2.
Qed.

(* right after the reset, a used context and a brand-new one are related, each w.r.t. its own start index *)
Lemma FRel_reset : forall ops p mem0,
  run_wf m_fresh ops -> reset_fits (run m_fresh ops) p -> (r_buflow p <= length mem0)%nat ->
  let r1 := reset (run m_fresh ops) p in
  let r2 := reset m_fresh (fresh_params p mem0) in
  FRel (E r1) (E r2) r1 r2.
Proof.
  intros ops p mem0 HW HF Hm. cbn zeta.
  pose proof (run_Inv ops m_fresh Inv_fresh HW) as HI.
  pose proof (reset_facts _ p HI HF) as H1. cbn zeta in H1.
  destruct HF as (HF1 & HF2).
  pose proof (reset_facts _ _ Inv_fresh (fresh_fits p mem0 HF1 Hm)) as H2. cbn zeta in H2.
  destruct H1 as (HI1 & _ & HEr1 & HLL1 & HDL1 & HNTU1 & HLDE1 & HDMS1 & HLLS1 & HNT1 & HLEN1 & HC1).
  destruct H2 as (HI2 & _ & HEr2 & HLL2 & HDL2 & HNTU2 & HLDE2 & HDMS2 & HLLS2 & HNT2 & HLEN2 & HC2).
  destruct HI1 as (_ & _ & _ & Ha1 & Hb1 & Hc1). destruct HI2 as (_ & _ & _ & Ha2 & Hb2 & Hc2).
  assert (HB1 : m_buflow (reset (run m_fresh ops) p) = r_buflow p) by reflexivity.
  assert (HB2 : m_buflow (reset m_fresh (fresh_params p mem0)) = r_buflow p) by reflexivity.
  cbn [fresh_params r_ntab] in HNT2, HLEN2, HC2.
  unfold FRel. rewrite HLL1, HLL2, HDL1, HDL2, HNTU1, HNTU2, HLDE1, HLDE2, HDMS1, HDMS2, HLLS1, HLLS2, HNT1, HNT2, HB1, HB2.
  repeat split; try lia.
  intros i Hi. left. specialize (HC1 i Hi). specialize (HC2 i Hi). lia.
Qed.

(* MAIN: for every history of the used context and every frame that follows the reset (fed bytes, limit moves that
   stay inside the frame, finder insertions of the frame's own positions, junk in buffer space, nextToUpdate,
   entropy, statistics), the used context and a brand-new context (any memory content) performing the same frame
   present the same observation - at the end of every prefix of the frame, since the statement holds for all [fops]. *)
Theorem frame_after_reset_history_independent : forall ops p mem0 fops,
  run_wf m_fresh ops -> reset_fits (run m_fresh ops) p -> (r_buflow p <= length mem0)%nat ->
  frame_wf (r_ntab p) (r_buflow p) 0 fops ->
  observe (run_frame (reset (run m_fresh ops) p) fops) =
  observe (run_frame (reset m_fresh (fresh_params p mem0)) fops).
Proof.
  intros ops p mem0 fops HW HF Hm HFW.
  pose proof (FRel_reset ops p mem0 HW HF Hm) as HR. cbn zeta in HR.
  unfold run_frame.
  apply (FRel_observe _ _ _ _ (FRel_run fops _ _ _ _ 0 HR ltac:(lia)
           ltac:(pose proof (run_Inv ops m_fresh Inv_fresh HW) as HI;
                 pose proof (reset_facts _ p HI HF) as H1; cbn zeta in H1;
                 destruct H1 as (_ & _ & _ & _ & _ & _ & _ & _ & _ & HNT1 & _);
                 rewrite HNT1; exact HFW))).
Qed.

(* two arbitrary histories: the frame is a function of the parameters and the frame's own operations only *)
Corollary frame_after_reset_two_histories : forall ops1 ops2 p1 p2 fops,
  run_wf m_fresh ops1 -> run_wf m_fresh ops2 ->
  reset_fits (run m_fresh ops1) p1 -> reset_fits (run m_fresh ops2) p2 ->
  r_ntab p1 = r_ntab p2 -> r_buflow p1 = r_buflow p2 ->
  frame_wf (r_ntab p1) (r_buflow p1) 0 fops ->
  observe (run_frame (reset (run m_fresh ops1) p1) fops) = observe (run_frame (reset (run m_fresh ops2) p2) fops).
Proof.
  intros ops1 ops2 p1 p2 fops HW1 HW2 HF1 HF2 Hnt Hbl HFW.
  set (mem0 := repeat 0 (r_buflow p1)).
  assert (Hm1 : (r_buflow p1 <= length mem0)%nat) by (unfold mem0; rewrite repeat_length; lia).
  assert (Hm2 : (r_buflow p2 <= length mem0)%nat) by (unfold mem0; rewrite repeat_length; lia).
  rewrite (frame_after_reset_history_independent ops1 p1 mem0 fops HW1 HF1 Hm1 HFW).
  assert (HFW2 : frame_wf (r_ntab p2) (r_buflow p2) 0 fops) by (rewrite <- Hnt, <- Hbl; exact HFW).
  rewrite (frame_after_reset_history_independent ops2 p2 mem0 fops HW2 HF2 Hm2 HFW2).
  (* the two fresh resets: only r_ntab / r_buflow / memory matter for the observation *)
  pose proof (FRel_reset [] p1 mem0 I) as _.
  assert (HX : forall p, (r_ntab p <= r_buflow p)%nat -> (r_buflow p <= length mem0)%nat ->
               frame_wf (r_ntab p) (r_buflow p) 0 fops ->
               FRel (E (reset m_fresh (fresh_params p mem0))) START (reset m_fresh (fresh_params p mem0))
                    (reset m_fresh (fresh_params (mkR None 0 (r_ntab p) (r_buflow p) 0 false) mem0))).
  { intros p Ha Hb _.
    pose proof (reset_facts _ _ Inv_fresh (fresh_fits p mem0 Ha Hb)) as H1. cbn zeta in H1.
    pose proof (reset_facts _ _ Inv_fresh (fresh_fits (mkR None 0 (r_ntab p) (r_buflow p) 0 false) mem0 Ha Hb)) as H2. cbn zeta in H2.
    destruct H1 as (HI1 & _ & HEr1 & HLL1 & HDL1 & HNTU1 & HLDE1 & HDMS1 & HLLS1 & HNT1 & HLEN1 & HC1).
    destruct H2 as (HI2 & _ & HEr2 & HLL2 & HDL2 & HNTU2 & HLDE2 & HDMS2 & HLLS2 & HNT2 & HLEN2 & HC2).
    destruct HI1 as (_ & _ & _ & Ha1 & Hb1 & Hc1). destruct HI2 as (_ & _ & _ & Ha2 & Hb2 & Hc2).
    cbn [fresh_params r_ntab r_buflow] in HNT1, HNT2, HLEN1, HLEN2, HC1, HC2.
    assert (HE2 : E (reset m_fresh (fresh_params (mkR None 0 (r_ntab p) (r_buflow p) 0 false) mem0)) = START).
    { pose proof (reset_mode_restarts m_fresh (fresh_params (mkR None 0 (r_ntab p) (r_buflow p) 0 false) mem0)) as HR.
      cbn zeta in HR. apply HR; [reflexivity|]. apply (fresh_fits (mkR None 0 (r_ntab p) (r_buflow p) 0 false) mem0 Ha Hb). }
    unfold FRel. rewrite HLL1, HLL2, HDL1, HDL2, HNTU1, HNTU2, HLDE1, HLDE2, HDMS1, HDMS2, HLLS1, HLLS2, HNT1, HNT2.
    rewrite HE2 in *.
    assert (HB1 : m_buflow (reset m_fresh (fresh_params p mem0)) = r_buflow p) by reflexivity.
    assert (HB2 : m_buflow (reset m_fresh (fresh_params (mkR None 0 (r_ntab p) (r_buflow p) 0 false) mem0)) = r_buflow p) by reflexivity.
    rewrite HB1, HB2.
    repeat split; try lia.
    intros i Hi. left. specialize (HC1 i Hi). specialize (HC2 i Hi). lia. }
  destruct HF1 as (Ha1 & _). destruct HF2 as (Ha2 & _).
  unfold run_frame.
  pose proof (HX p1 Ha1 Hm1 HFW) as R1. pose proof (HX p2 Ha2 Hm2 HFW2) as R2.
  assert (N1 : m_ntab (reset m_fresh (fresh_params p1 mem0)) = r_ntab p1) by reflexivity.
  assert (N2 : m_ntab (reset m_fresh (fresh_params p2 mem0)) = r_ntab p2) by reflexivity.
  assert (B1 : m_buflow (reset m_fresh (fresh_params p1 mem0)) = r_buflow p1) by reflexivity.
  assert (B2 : m_buflow (reset m_fresh (fresh_params p2 mem0)) = r_buflow p2) by reflexivity.
  rewrite (FRel_observe _ _ _ _ (FRel_run fops _ _ _ _ 0 R1 ltac:(lia) ltac:(rewrite N1, B1; exact HFW))).
  rewrite (FRel_observe _ _ _ _ (FRel_run fops _ _ _ _ 0 R2 ltac:(lia) ltac:(rewrite N2, B2; exact HFW2))).
  rewrite Hnt, Hbl. reflexivity.
Qed.

(* the hypotheses are satisfiable, and the two contexts really hold different absolute values *)
Example frame_example :
  let p := mkR (Some [9; 9; 9; 9; 9; 9]) 0 3 5 1000 false in
  let q := mkR None 0 3 5 1000 false in
  let hist := [HReset p; HFeed 100; HInsert 0 57; HInsert 2 99; HJunk 5 123456] in
  let fops := [FFeed 50; FInsert 1 7; FInsert 0 30; FLimits 10 10; FNtu 31; FJunk 5 77] in
  run_wf m_fresh hist /\ reset_fits (run m_fresh hist) q /\ frame_wf 3 5 0 fops /\
  tables (run_frame (reset (run m_fresh hist) q) fops) = [132; 109; 99] /\
  tables (run_frame (reset m_fresh (fresh_params q [1; 2; 3; 4; 5; 6])) fops) = [32; 9; 0] /\
  o_cells (observe (run_frame (reset (run m_fresh hist) q) fops)) = [Some 20; None; None].
Proof. cbn zeta. vm_compute. repeat split; try reflexivity; try lia; intros; discriminate. Qed.
