(* C07 model, part 12 (round 2): how one block of a one-shot compression ends up compressed, raw, or refused,
   as a function of the room left in the caller's buffer.
   Source: lib/compress/zstd_compress.c  ZSTD_minGain, ZSTD_entropyCompressSeqStore (the dstSize_tooSmall ->
           "block not compressed" fallback when srcSize <= dstCapacity), ZSTD_compress_frameChunk /
           ZSTD_compressBlock_internal (block header in front, ZSTD_noCompressBlock when the block is not compressed).
   The entropy stage itself (ZSTD_entropyCompressSeqStore_internal) is an ORACLE: it would produce [csize] bytes and
   needs [need] >= csize bytes of room to do so (the bit-stream writers keep a machine word of slack and check
   3 + 1 bytes ahead); with less room it reports dstSize_tooSmall.
   NO proofs in this file. *)
From Coq Require Import ZArith Bool List.
From ZV.Gen Require Import Gen_Sizes.
Import ListNotations.
Local Open Scope Z_scope.

Definition blockHeaderSize : Z := 3.
Definition btultra : Z := 8.

(* ZSTD_minGain *)
Definition minGain (srcSize strat : Z) : Z :=
  let minlog := if btultra <=? strat then strat - 1 else 6 in
  Z.shiftr srcSize minlog + 2.

Inductive eres : Type := ETooSmall | EBytes (n : Z).     (* EBytes 0 = "block not compressed" *)

(* ZSTD_entropyCompressSeqStore_internal, as an oracle *)
Definition entropy_internal (csize need cap : Z) : eres := if cap <? need then ETooSmall else EBytes csize.

(* ZSTD_entropyCompressSeqStore *)
Definition entropy_compress (csize need srcSize strat cap : Z) : eres :=
  match entropy_internal csize need cap with
  | EBytes 0 => EBytes 0
  | ETooSmall => if srcSize <=? cap then EBytes 0 else ETooSmall
  | EBytes c => if srcSize - minGain srcSize strat <=? c then EBytes 0 else EBytes c
  end.

(* the block as ZSTD_compress_frameChunk emits it into [cap] bytes: 0 = refused (dstSize_tooSmall), 1 = raw block,
   2 = compressed block; with the number of bytes written *)
Definition emit_block (csize need srcSize strat cap : Z) : Z * Z :=
  match entropy_compress csize need srcSize strat (cap - blockHeaderSize) with
  | ETooSmall => (0, 0)
  | EBytes 0 => if srcSize + blockHeaderSize <=? cap then (1, srcSize + blockHeaderSize) else (0, 0)
  | EBytes c => (2, c + blockHeaderSize)
  end.
